import AdbProofs.Lemmas.SyncLoops
/-
  From the device's side (C08, C09): if the reassembled FileSync stream is the encoding of DATA
  chunks + DONE (pull) or of directory entries + DONE (list), the records the host's loops consumed
  are exactly those chunks / entries.  Uses that a reading which stops at the first DONE record is
  unique (`Recs.until_done_unique`).
-/
namespace Adb.SR
open Adb Adb.Push

theorem dataRec_map_inj {a b : List Bytes} (h : a.map dataRec = b.map dataRec) : a = b := by
  have := congrArg (List.map (fun r : SyncRec => r.data.getD [])) h
  simpa [List.map_map, Function.comp_def, dataRec] using this

/-- the encoded pull stream: DATA chunks, then DONE (with whatever payload `dd` the device attaches), then `tail` -/
def pullStream (chunks : List Bytes) (dd tail : Bytes) : Bytes :=
  (chunks.map fun c => syncRec .DATA c.length c).flatten ++ (syncRec .DONE dd.length dd ++ tail)

theorem Recs_pullStream (chunks : List Bytes) (dd tail : Bytes)
    (hc : ∀ c ∈ chunks, c.length < 4294967296) (hdd : dd.length < 4294967296) :
    Recs .pull (pullStream chunks dd tail) (chunks.map dataRec ++ [⟨.DONE, [], some dd⟩]) tail := by
  have h1 := Recs_syncRecs (fmt := .pull) (Or.inl rfl) (chunks.map fun c => (SyncId.DATA, c))
    (syncRec .DONE dd.length dd ++ tail) (by
      intro x hx
      simp only [List.mem_map] at hx
      obtain ⟨c, hc', rfl⟩ := hx
      exact ⟨by simp, hc c hc'⟩)
  simp only [List.map_map, Function.comp_def] at h1
  exact Recs.concat h1 (Recs.cons (parse_syncRec (Or.inl rfl) .DONE dd tail (by decide) hdd) (Recs.nil _))

/-- if the stream is the encoding of `chunks` + DONE, the DATA records consumed up to the first DONE are `chunks` -/
theorem pull_wire {rest tail dd : Bytes} {datas chunks : List Bytes} {done : SyncRec}
    (h : Recs .pull (pullStream chunks dd tail) (datas.map dataRec ++ [done]) rest) (hd : done.id = SyncId.DONE)
    (hc : ∀ c ∈ chunks, c.length < 4294967296) (hdd : dd.length < 4294967296) :
    datas = chunks ∧ done = ⟨.DONE, [], some dd⟩ ∧ rest = tail := by
  have h2 := Recs_pullStream chunks dd tail hc hdd
  obtain ⟨h3, h4, h5⟩ := Recs.until_done_unique h h2
    (by intro x hx; simp only [List.mem_map] at hx; obtain ⟨d, -, rfl⟩ := hx; simp [dataRec])
    (by intro x hx; simp only [List.mem_map] at hx; obtain ⟨d, -, rfl⟩ := hx; simp [dataRec])
    hd rfl
  exact ⟨dataRec_map_inj h3, h4, h5⟩

/-- one directory entry as `list` returns it: (name, mode, size, mtime) -/
abbrev Entry := Bytes × Nat × Nat × Nat

/-- the `DENT` record of an entry -/
def dentOf (e : Entry) : SyncRec := ⟨.DENT, [e.2.1, e.2.2.1, e.2.2.2], some e.1⟩

theorem entryOf_dentOf (e : Entry) : entryOf (dentOf e) = e := by
  obtain ⟨n, a, b, c⟩ := e
  rfl

/-- the encoded list stream: one DENT record per entry, then a DONE record (any field values, any name), then `tail` -/
def listStream (entries : List Entry) (dn : Entry) (tail : Bytes) : Bytes :=
  (entries.map fun e => dentRec .DENT e.2.1 e.2.2.1 e.2.2.2 e.1).flatten ++
    (dentRec .DONE dn.2.1 dn.2.2.1 dn.2.2.2 dn.1 ++ tail)

def Entry.fits (e : Entry) : Prop :=
  e.2.1 < 4294967296 ∧ e.2.2.1 < 4294967296 ∧ e.2.2.2 < 4294967296 ∧ e.1.length < 4294967296

theorem Recs_dents : ∀ (entries : List Entry) (rest : Bytes), (∀ e ∈ entries, e.fits) →
    Recs .list ((entries.map fun e => dentRec .DENT e.2.1 e.2.2.1 e.2.2.2 e.1).flatten ++ rest)
      (entries.map dentOf) rest := by
  intro entries
  induction entries with
  | nil => intro rest _; exact Recs.nil _
  | cons x xs ih =>
    intro rest h
    simp only [List.map_cons, List.flatten_cons, List.append_assoc]
    obtain ⟨h1, h2, h3, h4⟩ := h x (by simp)
    exact Recs.cons (parse_dentRec .DENT _ _ _ _ _ (by decide) h1 h2 h3 h4) (ih rest (fun y hy => h y (by simp [hy])))

theorem Recs_listStream (entries : List Entry) (dn : Entry) (tail : Bytes)
    (he : ∀ e ∈ entries, e.fits) (hdn : dn.fits) :
    Recs .list (listStream entries dn tail)
      (entries.map dentOf ++ [⟨.DONE, [dn.2.1, dn.2.2.1, dn.2.2.2], some dn.1⟩]) tail := by
  obtain ⟨h1, h2, h3, h4⟩ := hdn
  exact Recs.concat (Recs_dents entries _ he)
    (Recs.cons (parse_dentRec .DONE _ _ _ _ _ (by decide) h1 h2 h3 h4) (Recs.nil _))

/-- if the stream is the encoding of `entries` + DONE, the DENT records consumed up to the first DONE are those of `entries` -/
theorem list_wire {rest tail : Bytes} {dents : List SyncRec} {entries : List Entry} {dn : Entry} {done : SyncRec}
    (h : Recs .list (listStream entries dn tail) (dents ++ [done]) rest) (hd : done.id = SyncId.DONE)
    (hdents : ∀ r ∈ dents, r.id = SyncId.DENT)
    (he : ∀ e ∈ entries, e.fits) (hdn : dn.fits) :
    dents.map entryOf = entries ∧ rest = tail := by
  have h2 := Recs_listStream entries dn tail he hdn
  obtain ⟨h3, -, h5⟩ := Recs.until_done_unique h h2
    (by intro x hx; rw [hdents x hx]; decide)
    (by intro x hx; simp only [List.mem_map] at hx; obtain ⟨d, -, rfl⟩ := hx; simp [dentOf])
    hd rfl
  refine ⟨?_, h5⟩
  rw [h3, List.map_map]
  have : entryOf ∘ dentOf = id := funext entryOf_dentOf
  rw [this, List.map_id]

/-- a stream whose reading reaches a DONE record through records other than FAIL cannot also be read
    as records other than DONE followed by a FAIL record -/
theorem Recs.no_fail {fmt : SyncFmt} : ∀ {b a : List SyncRec} {bs rest mid rest' : Bytes} {done fl : SyncRec},
    Recs fmt bs (a ++ [done]) rest → (∀ x ∈ a, x.id ≠ SyncId.FAIL) → done.id = SyncId.DONE →
    Recs fmt bs b mid → (∀ y ∈ b, y.id ≠ SyncId.DONE) → parse fmt mid = .record fl rest' → fl.id = SyncId.FAIL → False := by
  intro b
  induction b with
  | nil =>
    intro a bs rest mid rest' done fl h1 ha hd h2 _ hf hfl
    have := Recs.nil_inv h2
    subst this
    cases a with
    | nil =>
      obtain ⟨_, hp, -⟩ := Recs.cons_inv h1
      rw [hp] at hf
      cases hf
      rw [hd] at hfl
      cases hfl
    | cons x xs =>
      obtain ⟨_, hp, -⟩ := Recs.cons_inv h1
      rw [hp] at hf
      cases hf
      exact ha _ (by simp) hfl
  | cons y ys ih =>
    intro a bs rest mid rest' done fl h1 ha hd h2 hb hf hfl
    obtain ⟨bs2, hp2, h2'⟩ := Recs.cons_inv h2
    cases a with
    | nil =>
      obtain ⟨_, hp, -⟩ := Recs.cons_inv h1
      rw [hp] at hp2
      cases hp2
      exact hb _ (by simp) hd
    | cons x xs =>
      obtain ⟨bs1, hp, h1'⟩ := Recs.cons_inv h1
      rw [hp] at hp2
      cases hp2
      exact ih h1' (fun z hz => ha z (by simp [hz])) hd h2' (fun z hz => hb z (by simp [hz])) hf hfl

end Adb.SR
