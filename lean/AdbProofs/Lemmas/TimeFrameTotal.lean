import AdbProofs.Lemmas.TimeFrameOps
/-
  A-priori time bounds (budget and bound independent of how much the device sends) for `_open` and for the
  shell-like operations with a whole-command limit `timeout_s = T`: the OPEN exchange, then `_read_until_close`,
  whose total test follows every yielded item (`readUntilClose_time` in TimeLemmas.lean).
-/
namespace Adb
variable {P : TP} {X : Int}

/-- `_open` with an a-priori budget: one OPEN send (two write waits) and one wait for the OKAY -/
theorem openStream_time {dest : Bytes} {tt rt total : Timeout} (heff : EffT P tt rt total) {w w' : World}
    {r : Except Err Txn} (h : openStream dest tt rt total w = (r, w')) (hp : TPre P w)
    (hs : (parkedCount w.store : Int) + P.R < w.fuel) :
    TPre P w' ∧ w'.fuel = w.fuel ∧ w.now ≤ w'.now ∧ w'.now - w.now ≤ 2 * P.S + P.W ∧
    (parkedCount w'.store : Int) ≤ parkedCount w.store + (w'.now - w.now) ∧ isHang r = false ∧
    (∀ t, r = .ok t → t.rt = some P.R ∧ t.tt = some P.τ ∧ t.total = total) := by
  have hS := P.S_pos
  have hW := P.W_pos
  have hSe : P.S = P.R + max P.D P.τ := rfl
  have hWe : P.W = P.R + 2 * (P.R + max P.D P.τ) := rfl
  have hfr := Fr_openStream dest tt rt total w
  rw [h] at hfr
  have hdt : w'.defaultTT = P.dtt := by rw [hfr.defaultTT, hp.dtt]
  have hfi : w'.files = P.files := by rw [hfr.files, hp.files]
  rw [openStream_eq] at h
  rcases bind_any_inv h with ⟨e, he, rfl⟩ | ⟨t, w1, ht, hrest⟩
  · obtain ⟨hr, q⟩ := openTxnBlock_spec he hp.locks
    refine ⟨⟨hp.cost.of_cur_eq q.cur, by rw [q.locks, hp.locks], hdt, hfi⟩, q.fuel, by rw [q.now]; omega, by rw [q.now]; omega,
      by rw [q.now, q.store]; omega, ?_, by simp⟩
    rw [hr]; exact isHang_false_iff.2 (Txn.make_not_hang _ _ _ _ _)
  · obtain ⟨hrt, htt, htot⟩ := openTxnBlock_txn heff hp ht
    obtain ⟨-, q⟩ := openTxnBlock_spec ht hp.locks
    have hc1 : w1.CallCost P.D := hp.cost.of_cur_eq q.cur
    have hl1 : w1.locks = [] := by rw [q.locks, hp.locks]
    rcases bind_any_inv hrest with ⟨e, he, rfl⟩ | ⟨u, w2, hsend, hrest2⟩
    · obtain ⟨a1, a2, a3, a4, a5, a6, a7, a8, a9⟩ :=
        ioSend_time _ t P.R P.τ P.D w1 _ w' he hrt htt P.hR P.hτ hc1 (by rw [q.fuel]; omega) (by simp [hl1])
      refine ⟨⟨a1, by rw [a9, hl1], hdt, hfi⟩, a8.trans q.fuel, by rw [← q.now]; omega, by rw [← q.now]; omega,
        by rw [a7, q.store, ← q.now]; omega, by rw [isHang_error]; have := a5 e rfl; simp only [decide_eq_false_iff_not]; rintro rfl; exact hang_not_mem_sendErrs this, by simp⟩
    · obtain ⟨a1, a2, a3, a4, a5, a6, a7, a8, a9⟩ :=
        ioSend_time _ t P.R P.τ P.D w1 _ w2 hsend hrt htt P.hR P.hτ hc1 (by rw [q.fuel]; omega) (by simp [hl1])
      have hl2 : w2.locks = [] := by rw [a9, hl1]
      rcases bind_any_inv hrest2 with ⟨e, he, rfl⟩ | ⟨p, w3, hread, hrest3⟩
      · obtain ⟨b1, b2, b3, b4, b5, b6, b7, b8⟩ :=
          ioRead_time _ t _ P.R P.τ P.D w2 _ w' he hrt htt P.hR P.hτ a1 hl2 (by rw [a7, a8, q.store, q.fuel]; omega)
        refine ⟨⟨b1, b8, hdt, hfi⟩, (b7.trans a8).trans q.fuel, by rw [← q.now]; omega, by rw [← q.now]; omega,
          by rw [a7, q.store] at b6; rw [← q.now]; omega, by rw [isHang_error]; have := b4 e rfl; simp only [decide_eq_false_iff_not]; rintro rfl; exact hang_not_mem_ioReadErrs this, by simp⟩
      · obtain ⟨b1, b2, b3, b4, b5, b6, b7, b8⟩ :=
          ioRead_time _ t _ P.R P.τ P.D w2 _ w3 hread hrt htt P.hR P.hτ a1 hl2 (by rw [a7, a8, q.store, q.fuel]; omega)
        simp only [pure_run, Prod.mk.injEq] at hrest3
        obtain ⟨rfl, rfl⟩ := hrest3
        refine ⟨⟨b1, b8, hdt, hfi⟩, (b7.trans a8).trans q.fuel, by rw [← q.now]; omega, by rw [← q.now]; omega,
          by rw [a7, q.store] at b6; rw [← q.now]; omega, rfl, ?_⟩
        intro t' ht'
        simp only [Except.ok.injEq] at ht'
        subst ht'
        exact ⟨hrt, htt, htot⟩

theorem isHang_error_cast {α β} {e : Err} (h : isHang (.error e : Except Err α) = false) :
    isHang (.error e : Except Err β) = false := by
  rw [isHang_error] at h ⊢; exact h

/-- `_streaming_command` with a whole-command limit `T`, a-priori budget: ends at most one OPEN exchange plus one
    more iteration of the stream loop after the limit, however much the device sends -/
theorem streamingCommand_total {svc cmd : Bytes} {tt rt : Timeout} {T : Int} (hT : 0 ≤ T)
    (heff : EffT P tt rt (some T)) {w w' : World} {r : Except Err (List Bytes)}
    (h : streamingCommand svc cmd tt rt (some T) w = (r, w')) (hp : TPre P w)
    (hs : (parkedCount w.store : Int) + (2 * P.S + P.W) + T + P.R < w.fuel) :
    TPre P w' ∧ isHang r = false ∧ w.now ≤ w'.now ∧ w'.now - w.now ≤ T + (2 * P.S + P.W) + (P.W + P.S) := by
  have hS := P.S_pos
  have hW := P.W_pos
  have hSe : P.S = P.R + max P.D P.τ := rfl
  have hWe : P.W = P.R + 2 * (P.R + max P.D P.τ) := rfl
  have hfr := Fr_streamingCommand svc cmd tt rt (some T) w
  rw [h] at hfr
  have hdt : w'.defaultTT = P.dtt := by rw [hfr.defaultTT, hp.dtt]
  have hfi : w'.files = P.files := by rw [hfr.files, hp.files]
  have hlk : w'.locks = [] := by rw [hfr.locks, hp.locks]
  unfold streamingCommand at h
  rcases bind_any_inv h with ⟨e, he, rfl⟩ | ⟨t, w1, ho, hrest⟩
  · obtain ⟨a1, a2, a3, a4, a5, a6, -⟩ := openStream_time heff he hp (by omega)
    refine ⟨a1, ?_, a3, by omega⟩
    rw [isHang_error] at a6 ⊢; exact a6
  · obtain ⟨a1, a2, a3, a4, a5, a6, a7⟩ := openStream_time heff ho hp (by omega)
    obtain ⟨hrt, htt, htot⟩ := a7 t rfl
    obtain ⟨b1, b2, b3, b4⟩ := readUntilClose_time t P.R P.τ T P.D w1 r w' hrest hrt htt htot P.hR P.hτ hT a1.cost a1.locks
      (by rw [a2]; omega)
    refine ⟨⟨b1, hlk, hdt, hfi⟩, ?_, by omega, by omega⟩
    rw [isHang_false_iff]
    intro hr; exact hang_not_mem_streamErrs (b4 _ hr)

theorem TQuiet0.tpre {w w' : World} {b : Bool} (q : TQuiet0 w b w') (hp : TPre P w) : TPre P w' :=
  ⟨hp.cost.of_cur_eq q.cur, by rw [q.locks, hp.locks], by rw [q.dtt, hp.dtt], by rw [q.files, hp.files]⟩

/-- shell / exec_out with `timeout_s = T` -/
theorem devShellLike_total {op : String} {svc cmd : Bytes} {tt rt : Timeout} {T : Int} {dec : Bool} (hT : 0 ≤ T)
    (heff : EffT P tt rt (some T)) {w w' : World} {r : Except Err Val}
    (h : devShellLike op svc cmd tt rt (some T) dec w = (r, w')) (hp : TPre P w)
    (hs : (parkedCount w.store : Int) + (2 * P.S + P.W) + T + P.R < w.fuel) :
    TPre P w' ∧ isHang r = false ∧ w.now ≤ w'.now ∧ w'.now - w.now ≤ T + (2 * P.S + P.W) + (P.W + P.S) := by
  have hS := P.S_pos
  have hW := P.W_pos
  unfold devShellLike at h
  rcases bind_any_inv h with ⟨e, he, rfl⟩ | ⟨u, w1, hg, hrest⟩
  · have q := (TQ_runGuards _ _).at he
    exact ⟨q.tpre hp, isHang_error_cast q.nohang, by rw [q.now]; omega, by rw [q.now]; omega⟩
  · have q := (TQ_runGuards _ _).at hg
    obtain ⟨r0, h0, hr0⟩ := service_inv hrest
    obtain ⟨a1, a2, a3, a4⟩ := streamingCommand_total hT heff h0 (q.tpre hp) (by rw [q.store, q.fuel]; omega)
    rw [q.now] at a3 a4
    refine ⟨a1, ?_, a3, a4⟩
    rw [hr0]
    cases r0 with
    | ok v => rfl
    | error e0 => exact isHang_error_cast a2

/-- root with `timeout_s = T` -/
theorem devRoot_total {tt rt : Timeout} {T : Int} (hT : 0 ≤ T)
    (heff : EffT P tt rt (some T)) {w w' : World} {r : Except Err Val}
    (h : devRoot tt rt (some T) w = (r, w')) (hp : TPre P w)
    (hs : (parkedCount w.store : Int) + (2 * P.S + P.W) + T + P.R < w.fuel) :
    TPre P w' ∧ isHang r = false ∧ w.now ≤ w'.now ∧ w'.now - w.now ≤ T + (2 * P.S + P.W) + (P.W + P.S) := by
  have hS := P.S_pos
  have hW := P.W_pos
  unfold devRoot at h
  rcases bind_any_inv h with ⟨e, he, rfl⟩ | ⟨u, w1, hg, hrest⟩
  · have q := (TQ_runGuards _ _).at he
    exact ⟨q.tpre hp, isHang_error_cast q.nohang, by rw [q.now]; omega, by rw [q.now]; omega⟩
  · have q := (TQ_runGuards _ _).at hg
    rcases bind_any_inv hrest with ⟨e, he, rfl⟩ | ⟨v, w2, hsv, hrest2⟩
    · obtain ⟨r0, h0, hr0⟩ := service_inv he
      obtain ⟨a1, a2, a3, a4⟩ := streamingCommand_total hT heff h0 (q.tpre hp) (by rw [q.store, q.fuel]; omega)
      rw [q.now] at a3 a4
      refine ⟨a1, ?_, a3, a4⟩
      cases r0 with
      | ok v => simp [Except.map] at hr0
      | error e0 =>
        simp only [Except.map, Except.error.injEq] at hr0
        subst hr0
        rw [isHang_error] at a2 ⊢; exact a2
    · obtain ⟨r0, h0, hr0⟩ := service_inv hsv
      obtain ⟨a1, a2, a3, a4⟩ := streamingCommand_total hT heff h0 (q.tpre hp) (by rw [q.store, q.fuel]; omega)
      rw [q.now] at a3 a4
      simp only [pure_run, Prod.mk.injEq] at hrest2
      obtain ⟨rfl, rfl⟩ := hrest2
      exact ⟨a1, rfl, a3, a4⟩

/-- reboot: only the OPEN exchange, whatever `timeout_s` is -/
theorem devReboot_total {fb : Bool} {tt rt total : Timeout}
    (heff : EffT P tt rt total) {w w' : World} {r : Except Err Val}
    (h : devReboot fb tt rt total w = (r, w')) (hp : TPre P w)
    (hs : (parkedCount w.store : Int) + P.R < w.fuel) :
    TPre P w' ∧ isHang r = false ∧ w.now ≤ w'.now ∧ w'.now - w.now ≤ 2 * P.S + P.W := by
  have hS := P.S_pos
  have hW := P.W_pos
  unfold devReboot at h
  rcases bind_any_inv h with ⟨e, he, rfl⟩ | ⟨u, w1, hg, hrest⟩
  · have q := (TQ_runGuards _ _).at he
    exact ⟨q.tpre hp, isHang_error_cast q.nohang, by rw [q.now]; omega, by rw [q.now]; omega⟩
  · have q := (TQ_runGuards _ _).at hg
    rcases bind_any_inv hrest with ⟨e, he, rfl⟩ | ⟨v, w2, ho, hrest2⟩
    · obtain ⟨a1, a2, a3, a4, a5, a6, -⟩ := openStream_time heff he (q.tpre hp) (by rw [q.store, q.fuel]; omega)
      rw [q.now] at a3 a4
      refine ⟨a1, ?_, a3, a4⟩
      rw [isHang_error] at a6 ⊢; exact a6
    · obtain ⟨a1, a2, a3, a4, a5, a6, -⟩ := openStream_time heff ho (q.tpre hp) (by rw [q.store, q.fuel]; omega)
      rw [q.now] at a3 a4
      simp only [pure_run, Prod.mk.injEq] at hrest2
      obtain ⟨rfl, rfl⟩ := hrest2
      exact ⟨a1, rfl, a3, a4⟩

end Adb
