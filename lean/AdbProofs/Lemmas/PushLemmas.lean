import AdbProofs.Lemmas.FrameOps2
import AdbProofs.Lemmas.Bytes
/-
  Vocabulary of property C07 (push): what a list of trace events says was transmitted, the WRTE
  payloads of one stream, the progress-callback calls, FileSync record encoding and the chunking
  of a source into successive reads of at most `k` bytes.  Plus `maxChunkSize` arithmetic.
-/
namespace Adb.Push
open Adb

/-- the `tx` selector -/
def txOf : TEv → Option Msg
  | .tx m => some m
  | _ => none

/-- the `cbProgress` selector -/
def progOf : TEv → Option (Bytes × Nat × Nat)
  | .cbProgress p n t => some (p, n, t)
  | _ => none

/-- the `deliver` selector -/
def delivOf : TEv → Option Pkt
  | .deliver p => some p
  | _ => none

/-- messages handed to `_send`, oldest first (the trace is stored most recent first) -/
def transmitted (evs : List TEv) : List Msg :=
  evs.reverse.filterMap (fun e => match e with | .tx m => some m | _ => none)

/-- payloads of the WRTE messages of the stream `(l, r)`, oldest first -/
def wrtePayloads (l r : Nat) (evs : List TEv) : List Bytes :=
  (transmitted evs).filterMap (fun m => if m.cmd = .WRTE ∧ m.arg0 = l ∧ m.arg1 = r then some m.data else none)

/-- calls of the progress callback `(device_path, bytes_written, total_bytes)`, oldest first -/
def progressCalls (evs : List TEv) : List (Bytes × Nat × Nat) :=
  evs.reverse.filterMap (fun e => match e with | .cbProgress p n t => some (p, n, t) | _ => none)

/-- packets returned to a caller of `read`, oldest first -/
def delivered (evs : List TEv) : List Pkt :=
  evs.reverse.filterMap (fun e => match e with | .deliver p => some p | _ => none)

/-- payloads of the device's WRTE packets among the delivered ones, concatenated -/
def deliveredWrteData (evs : List TEv) : Bytes :=
  (((delivered evs).filter (fun p => p.cmd = Cmd.WRTE)).map (·.data)).flatten

/-- one FileSync record: `struct.pack('<2I', id, size) + data` -/
def syncRec (id : SyncId) (size : Nat) (data : Bytes) : Bytes := le32 id.wire ++ le32 size ++ data

/-- successive `read(k)` results of a stream holding `content`, up to and excluding the empty read -/
def chunksOfAux (k : Nat) : Nat → Bytes → List Bytes
  | 0, _ => []
  | fuel + 1, content =>
    if (content.take k).isEmpty then [] else content.take k :: chunksOfAux k fuel (content.drop k)

def chunksOf (k : Nat) (content : Bytes) : List Bytes := chunksOfAux k content.length content

/-! ### algebra of the selectors -/

theorem transmitted_eq (evs : List TEv) : transmitted evs = evs.reverse.filterMap txOf := by
  unfold transmitted; congr 1
theorem progressCalls_eq (evs : List TEv) : progressCalls evs = evs.reverse.filterMap progOf := by
  unfold progressCalls; congr 1
theorem delivered_eq (evs : List TEv) : delivered evs = evs.reverse.filterMap delivOf := by
  unfold delivered; congr 1

@[simp] theorem transmitted_nil : transmitted [] = [] := rfl
@[simp] theorem progressCalls_nil : progressCalls [] = [] := rfl
@[simp] theorem delivered_nil : delivered [] = [] := rfl
@[simp] theorem wrtePayloads_nil (l r : Nat) : wrtePayloads l r [] = [] := rfl
@[simp] theorem deliveredWrteData_nil : deliveredWrteData [] = [] := rfl

/-- `e2` are the more recent events -/
theorem transmitted_append (e2 e1 : List TEv) : transmitted (e2 ++ e1) = transmitted e1 ++ transmitted e2 := by
  simp [transmitted_eq]
theorem progressCalls_append (e2 e1 : List TEv) : progressCalls (e2 ++ e1) = progressCalls e1 ++ progressCalls e2 := by
  simp [progressCalls_eq]
theorem delivered_append (e2 e1 : List TEv) : delivered (e2 ++ e1) = delivered e1 ++ delivered e2 := by
  simp [delivered_eq]
theorem wrtePayloads_append (l r : Nat) (e2 e1 : List TEv) :
    wrtePayloads l r (e2 ++ e1) = wrtePayloads l r e1 ++ wrtePayloads l r e2 := by
  simp [wrtePayloads, transmitted_append]
theorem deliveredWrteData_append (e2 e1 : List TEv) :
    deliveredWrteData (e2 ++ e1) = deliveredWrteData e1 ++ deliveredWrteData e2 := by
  simp [deliveredWrteData, delivered_append]

theorem transmitted_cons (e : TEv) (evs : List TEv) :
    transmitted (e :: evs) = transmitted evs ++ (txOf e).toList := by
  rw [show e :: evs = [e] ++ evs from rfl, transmitted_append]
  cases e <;> rfl
theorem progressCalls_cons (e : TEv) (evs : List TEv) :
    progressCalls (e :: evs) = progressCalls evs ++ (progOf e).toList := by
  rw [show e :: evs = [e] ++ evs from rfl, progressCalls_append]
  cases e <;> rfl
theorem delivered_cons (e : TEv) (evs : List TEv) :
    delivered (e :: evs) = delivered evs ++ (delivOf e).toList := by
  rw [show e :: evs = [e] ++ evs from rfl, delivered_append]
  cases e <;> rfl

@[simp] theorem transmitted_tx (m : Msg) : transmitted [.tx m] = [m] := rfl
@[simp] theorem progressCalls_tx (m : Msg) : progressCalls [.tx m] = [] := rfl
@[simp] theorem delivered_tx (m : Msg) : delivered [.tx m] = [] := rfl
@[simp] theorem transmitted_prog (p : Bytes) (n t : Nat) : transmitted [.cbProgress p n t] = [] := rfl
@[simp] theorem progressCalls_prog (p : Bytes) (n t : Nat) : progressCalls [.cbProgress p n t] = [(p, n, t)] := rfl
@[simp] theorem delivered_prog (p : Bytes) (n t : Nat) : delivered [.cbProgress p n t] = [] := rfl

theorem mem_transmitted {m : Msg} {evs : List TEv} : m ∈ transmitted evs ↔ TEv.tx m ∈ evs := by
  simp only [transmitted_eq, List.mem_filterMap, List.mem_reverse]
  constructor
  · rintro ⟨e, he, h⟩
    cases e <;> simp [txOf] at h
    subst h; exact he
  · intro h; exact ⟨_, h, rfl⟩

theorem mem_progressCalls {c : Bytes × Nat × Nat} {evs : List TEv} :
    c ∈ progressCalls evs ↔ TEv.cbProgress c.1 c.2.1 c.2.2 ∈ evs := by
  simp only [progressCalls_eq, List.mem_filterMap, List.mem_reverse]
  constructor
  · rintro ⟨e, he, h⟩
    cases e <;> simp [progOf] at h
    subst h; exact he
  · intro h; exact ⟨_, h, rfl⟩

theorem mem_delivered {p : Pkt} {evs : List TEv} : p ∈ delivered evs ↔ TEv.deliver p ∈ evs := by
  simp only [delivered_eq, List.mem_filterMap, List.mem_reverse]
  constructor
  · rintro ⟨e, he, h⟩
    cases e <;> simp [delivOf] at h
    subst h; exact he
  · intro h; exact ⟨_, h, rfl⟩

theorem progressCalls_eq_nil {evs : List TEv} (h : ∀ p n t, TEv.cbProgress p n t ∉ evs) : progressCalls evs = [] := by
  apply List.eq_nil_iff_forall_not_mem.2
  intro c hc
  exact h _ _ _ (mem_progressCalls.1 hc)

theorem delivered_eq_nil {evs : List TEv} (h : ∀ p, TEv.deliver p ∉ evs) : delivered evs = [] := by
  apply List.eq_nil_iff_forall_not_mem.2
  intro c hc
  exact h _ (mem_delivered.1 hc)

theorem transmitted_eq_nil {evs : List TEv} (h : ∀ m, TEv.tx m ∉ evs) : transmitted evs = [] := by
  apply List.eq_nil_iff_forall_not_mem.2
  intro c hc
  exact h _ (mem_transmitted.1 hc)

/-- no WRTE among the transmitted messages ⇒ no WRTE payloads -/
theorem wrtePayloads_eq_nil {l r : Nat} {evs : List TEv} (h : ∀ m ∈ transmitted evs, m.cmd = Cmd.OKAY) :
    wrtePayloads l r evs = [] := by
  unfold wrtePayloads
  apply List.eq_nil_iff_forall_not_mem.2
  intro d hd
  rw [List.mem_filterMap] at hd
  obtain ⟨m, hm, hd⟩ := hd
  have := h m hm
  simp [this] at hd

theorem wrtePayloads_wrte (l r : Nat) (d : Bytes) : wrtePayloads l r [.tx ⟨.WRTE, l, r, d⟩] = [d] := by
  simp [wrtePayloads]

/-- events of a two-step run: the whole is the second step's events in front of the first step's -/
theorem evs_split {t0 t1 t2 e1 e2 evs : List TEv} (h1 : t1 = e1 ++ t0) (h2 : t2 = e2 ++ t1) (h : t2 = evs ++ t0) :
    evs = e2 ++ e1 := by
  subst h1 h2
  rw [← List.append_assoc] at h
  exact (List.append_cancel_right h).symm

theorem evs_unique {t0 e1 evs : List TEv} (h1 : e1 ++ t0 = evs ++ t0) : evs = e1 :=
  (List.append_cancel_right h1).symm

/-! ### FileSync records -/

@[simp] theorem syncRec_length (id : SyncId) (size : Nat) (data : Bytes) :
    (syncRec id size data).length = 8 + data.length := by
  simp [syncRec]; omega

theorem fmt_size_ge (f : SyncFmt) : 8 ≤ f.size := by
  cases f <;> decide

/-! ### chunks -/

theorem chunksOfAux_stable (k : Nat) (hk : 0 < k) : ∀ (f1 f2 : Nat) (c : Bytes), c.length ≤ f1 → c.length ≤ f2 →
    chunksOfAux k f1 c = chunksOfAux k f2 c := by
  intro f1
  induction f1 with
  | zero =>
    intro f2 c h1 h2
    have : c = [] := List.eq_nil_of_length_eq_zero (by omega)
    subst this
    cases f2 <;> simp [chunksOfAux]
  | succ f1 ih =>
    intro f2 c h1 h2
    cases f2 with
    | zero =>
      have : c = [] := List.eq_nil_of_length_eq_zero (by omega)
      subst this
      simp [chunksOfAux]
    | succ f2 =>
      simp only [chunksOfAux]
      split
      · rfl
      · next hne =>
        have hc : c ≠ [] := by intro h; subst h; simp at hne
        have hl : 0 < c.length := List.length_pos_iff.2 hc
        rw [ih f2 (c.drop k) (by simp; omega) (by simp; omega)]

/-- the unfolding equation of `chunksOf`, in the shape of the read loop of `_push` -/
theorem chunksOf_unfold (k : Nat) (c : Bytes) :
    chunksOf k c = if (c.take k).isEmpty then [] else c.take k :: chunksOf k (c.drop k) := by
  unfold chunksOf
  cases hc : c with
  | nil => simp [chunksOfAux]
  | cons x xs =>
    simp only [List.length_cons, chunksOfAux]
    split
    · rfl
    · next hne =>
      have hk : 0 < k := by
        cases k with
        | zero => simp at hne
        | succ k => omega
      rw [chunksOfAux_stable k hk xs.length ((x :: xs).drop k).length ((x :: xs).drop k) (by simp; omega) (Nat.le_refl _)]

theorem chunksOf_nil (k : Nat) : chunksOf k [] = [] := by
  rw [chunksOf_unfold]; simp

/-- induction principle following the read loop -/
theorem chunksOf_induct {motive : Bytes → Prop} (k : Nat) (hk : 0 < k)
    (hnil : motive [])
    (hstep : ∀ c, c ≠ [] → motive (c.drop k) → motive c) : ∀ c, motive c := by
  intro c
  generalize hn : c.length = n
  induction n using Nat.strongRecOn generalizing c with
  | _ n ih =>
    cases hc : c with
    | nil => exact hnil
    | cons x xs =>
      rw [← hc]
      apply hstep c (by simp [hc])
      apply ih (c.drop k).length _ _ rfl
      subst hn
      simp [hc]; omega

/-- the chunks concatenate to the content: nothing lost, duplicated or reordered -/
theorem chunksOf_flatten (k : Nat) (hk : 0 < k) (c : Bytes) : (chunksOf k c).flatten = c := by
  induction c using chunksOf_induct k hk with
  | hnil => simp [chunksOf_nil]
  | hstep c hc ih =>
    rw [chunksOf_unfold]
    have : (c.take k).isEmpty = false := by
      cases c with
      | nil => exact absurd rfl hc
      | cons x xs => cases k with
        | zero => omega
        | succ k => simp
    simp only [this, Bool.false_eq_true, if_false, List.flatten_cons, ih, List.take_append_drop]

/-- every chunk is a non-empty read of at most `k` bytes -/
theorem chunksOf_bound (k : Nat) (c : Bytes) : ∀ x ∈ chunksOf k c, 0 < x.length ∧ x.length ≤ k := by
  unfold chunksOf
  generalize c.length = f
  induction f generalizing c with
  | zero => simp [chunksOfAux]
  | succ f ih =>
    simp only [chunksOfAux]
    split
    · simp
    · next hne =>
      intro x hx
      rw [List.mem_cons] at hx
      rcases hx with rfl | hx
      · refine ⟨?_, by simp; omega⟩
        apply List.length_pos_iff.2
        intro h; simp [h] at hne
      · exact ih _ x hx

theorem chunksOf_lengths_sum (k : Nat) (hk : 0 < k) (c : Bytes) : ((chunksOf k c).map List.length).sum = c.length := by
  have := congrArg List.length (chunksOf_flatten k hk c)
  rw [List.length_flatten] at this
  exact this

/-! ### max_chunk_size -/

theorem maxChunkSize_spec (maxdata : Nat) :
    0 < maxChunkSize maxdata ∧ maxChunkSize maxdata ≤ 65536 ∧ (2 ≤ maxdata → maxChunkSize maxdata ≤ maxdata / 2) := by
  unfold maxChunkSize
  simp only [Generated.MAX_CHUNK_SIZE, Generated.MAX_PUSH_DATA]
  by_cases h : min 65536 (maxdata / 2) = 0
  · simp only [h, if_true]; omega
  · simp only [h, if_false]; omega

end Adb.Push
