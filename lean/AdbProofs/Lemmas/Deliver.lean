import AdbProofs.Lemmas.FrameOps2
import AdbProofs.Lemmas.StoreFind
/-
  The delivery calculus: what each wire/stream-layer function DELIVERS to its caller, what it
  TRANSMITS (hands to `_send`) and what it YIELDS, as a function of nothing but the trace events it
  adds.  `exchanged evs` is the interleaved list of deliveries (`rx`) and transmissions (`tx`), oldest
  first; `delivered` and `transmitted` are its two projections.  `Adds w w' X Y` packages "the trace
  of `w'` is the trace of `w` plus events whose exchange is `X` and whose yielded items are `Y`".
  Functions that add none of the three kinds of event are `Qt` ("quiet"), proved compositionally
  like `Fr`.
-/
namespace Adb

/-- packets delivered to the caller by the events `evs` (given MOST RECENT FIRST, as in the trace), OLDEST first -/
def delivered (evs : List TEv) : List Pkt :=
  evs.reverse.filterMap (fun e => match e with | .deliver p => some p | _ => none)

/-- messages handed to `_send` by the events, oldest first -/
def transmitted (evs : List TEv) : List Msg :=
  evs.reverse.filterMap (fun e => match e with | .tx m => some m | _ => none)

/-- items yielded by a streaming generator during the events, oldest first -/
def yieldedBy (evs : List TEv) : List Bytes :=
  evs.reverse.filterMap (fun e => match e with | .yielded d => some d | _ => none)

/-- one step of the conversation with the device as seen by the caller of the I/O manager -/
inductive Xfer where
  | rx (p : Pkt)     -- a packet delivered to the caller
  | tx (m : Msg)     -- a message handed to `_send`
  deriving DecidableEq, Repr

def Xfer.rx? : Xfer → Option Pkt | .rx p => some p | .tx _ => none
def Xfer.tx? : Xfer → Option Msg | .tx m => some m | .rx _ => none

/-- deliveries and transmissions of the events in the order they happened, oldest first -/
def exchanged (evs : List TEv) : List Xfer :=
  evs.reverse.filterMap (fun e => match e with | .deliver p => some (.rx p) | .tx m => some (.tx m) | _ => none)

/-- the deliveries among an exchange -/
def rxs (X : List Xfer) : List Pkt := X.filterMap Xfer.rx?
/-- the transmissions among an exchange -/
def txs (X : List Xfer) : List Msg := X.filterMap Xfer.tx?

@[simp] theorem rxs_nil : rxs [] = [] := rfl
@[simp] theorem txs_nil : txs [] = [] := rfl
@[simp] theorem rxs_append (a b : List Xfer) : rxs (a ++ b) = rxs a ++ rxs b := by simp [rxs]
@[simp] theorem txs_append (a b : List Xfer) : txs (a ++ b) = txs a ++ txs b := by simp [txs]
@[simp] theorem rxs_cons_rx (p : Pkt) (X : List Xfer) : rxs (.rx p :: X) = p :: rxs X := rfl
@[simp] theorem rxs_cons_tx (m : Msg) (X : List Xfer) : rxs (.tx m :: X) = rxs X := rfl
@[simp] theorem txs_cons_rx (p : Pkt) (X : List Xfer) : txs (.rx p :: X) = txs X := rfl
@[simp] theorem txs_cons_tx (m : Msg) (X : List Xfer) : txs (.tx m :: X) = m :: txs X := rfl

theorem delivered_eq_rxs (evs : List TEv) : delivered evs = rxs (exchanged evs) := by
  unfold delivered exchanged rxs
  rw [List.filterMap_filterMap]
  congr 1; funext e; cases e <;> rfl
theorem transmitted_eq_txs (evs : List TEv) : transmitted evs = txs (exchanged evs) := by
  unfold transmitted exchanged txs
  rw [List.filterMap_filterMap]
  congr 1; funext e; cases e <;> rfl

@[simp] theorem exchanged_nil : exchanged [] = [] := rfl
theorem exchanged_append (later earlier : List TEv) :
    exchanged (later ++ earlier) = exchanged earlier ++ exchanged later := by
  simp [exchanged]

@[simp] theorem delivered_nil : delivered [] = [] := rfl
@[simp] theorem transmitted_nil : transmitted [] = [] := rfl
@[simp] theorem yieldedBy_nil : yieldedBy [] = [] := rfl

/-- events are most recent first: `later ++ earlier` -/
theorem delivered_append (later earlier : List TEv) :
    delivered (later ++ earlier) = delivered earlier ++ delivered later := by
  simp [delivered]
theorem transmitted_append (later earlier : List TEv) :
    transmitted (later ++ earlier) = transmitted earlier ++ transmitted later := by
  simp [transmitted]
theorem yieldedBy_append (later earlier : List TEv) :
    yieldedBy (later ++ earlier) = yieldedBy earlier ++ yieldedBy later := by
  simp [yieldedBy]

theorem delivered_cons (e : TEv) (evs : List TEv) :
    delivered (e :: evs) = delivered evs ++ (match e with | .deliver p => [p] | _ => []) := by
  have := delivered_append [e] evs
  simp only [List.singleton_append] at this
  rw [this]; congr 1; cases e <;> rfl
theorem transmitted_cons (e : TEv) (evs : List TEv) :
    transmitted (e :: evs) = transmitted evs ++ (match e with | .tx m => [m] | _ => []) := by
  have := transmitted_append [e] evs
  simp only [List.singleton_append] at this
  rw [this]; congr 1; cases e <;> rfl
theorem yieldedBy_cons (e : TEv) (evs : List TEv) :
    yieldedBy (e :: evs) = yieldedBy evs ++ (match e with | .yielded d => [d] | _ => []) := by
  have := yieldedBy_append [e] evs
  simp only [List.singleton_append] at this
  rw [this]; congr 1; cases e <;> rfl

/-- an event that is neither a delivery, nor a transmission, nor a yielded item -/
def TEv.silent : TEv → Bool
  | .deliver _ | .tx _ | .yielded _ => false
  | _ => true

theorem exchanged_cons (e : TEv) (evs : List TEv) :
    exchanged (e :: evs) = exchanged evs ++ (match e with | .deliver p => [.rx p] | .tx m => [.tx m] | _ => []) := by
  have := exchanged_append [e] evs
  simp only [List.singleton_append] at this
  rw [this]; congr 1; cases e <;> rfl

theorem silent_lists {evs : List TEv} (h : ∀ e ∈ evs, e.silent = true) :
    exchanged evs = [] ∧ yieldedBy evs = [] := by
  induction evs with
  | nil => simp
  | cons e evs ih =>
    have h1 := h e (by simp)
    have h2 := ih (fun e he => h e (by simp [he]))
    rw [exchanged_cons, yieldedBy_cons, h2.1, h2.2]
    cases e <;> simp_all [TEv.silent]

/-- the trace of `w'` extends the trace of `w` by events whose exchange with the device is `X`
    (deliveries and transmissions in order) and that yield `Y` -/
def Adds (w w' : World) (X : List Xfer) (Y : List Bytes) : Prop :=
  ∃ evs, w'.trace = evs ++ w.trace ∧ exchanged evs = X ∧ yieldedBy evs = Y

/-- the `delivered` / `transmitted` reading of `Adds` -/
theorem Adds.dt {w w' : World} {X : List Xfer} {Y : List Bytes} (h : Adds w w' X Y) :
    ∃ evs, w'.trace = evs ++ w.trace ∧ delivered evs = rxs X ∧ transmitted evs = txs X ∧ yieldedBy evs = Y
      ∧ exchanged evs = X := by
  obtain ⟨evs, ht, hx, hy⟩ := h
  exact ⟨evs, ht, by rw [delivered_eq_rxs, hx], by rw [transmitted_eq_txs, hx], hy, hx⟩

theorem Adds.of_trace_eq {w w' : World} (h : w'.trace = w.trace) : Adds w w' [] [] :=
  ⟨[], by simp [h], rfl, rfl⟩

theorem Adds.rfl' (w : World) : Adds w w [] [] := Adds.of_trace_eq rfl

theorem Adds.trans {a b c : World} {X1 X2 : List Xfer} {Y1 Y2 : List Bytes}
    (h1 : Adds a b X1 Y1) (h2 : Adds b c X2 Y2) : Adds a c (X1 ++ X2) (Y1 ++ Y2) := by
  obtain ⟨e1, ht1, hx1, hy1⟩ := h1
  obtain ⟨e2, ht2, hx2, hy2⟩ := h2
  exact ⟨e2 ++ e1, by simp [ht2, ht1], by rw [exchanged_append, hx1, hx2], by rw [yieldedBy_append, hy1, hy2]⟩

/-- `Adds` only looks at the traces -/
theorem Adds.congr {w w' v v' : World} {X Y} (h : Adds w w' X Y) (h1 : v.trace = w.trace) (h2 : v'.trace = w'.trace) :
    Adds v v' X Y := by
  obtain ⟨e, ht, r⟩ := h
  exact ⟨e, by rw [h1, h2, ht], r⟩

theorem Adds.deliver {w w' : World} {p : Pkt} (h : w'.trace = .deliver p :: w.trace) : Adds w w' [.rx p] [] :=
  ⟨[.deliver p], by simp [h], rfl, rfl⟩
theorem Adds.tx {w w' : World} {m : Msg} (h : w'.trace = .tx m :: w.trace) : Adds w w' [.tx m] [] :=
  ⟨[.tx m], by simp [h], rfl, rfl⟩
theorem Adds.yielded {w w' : World} {d : Bytes} (h : w'.trace = .yielded d :: w.trace) : Adds w w' [] [d] :=
  ⟨[.yielded d], by simp [h], rfl, rfl⟩
theorem Adds.silent {w w' : World} {e : TEv} (he : e.silent = true) (h : w'.trace = e :: w.trace) : Adds w w' [] [] := by
  obtain ⟨h1, h2⟩ := silent_lists (evs := [e]) (by simpa using he)
  exact ⟨[e], by simp [h], h1, h2⟩

/-! ### Inversion of `bind` and `withLock` for an arbitrary outcome -/

theorem bind_any_inv {α β} {x : M α} {f : α → M β} {w w'' : World} {r : Except Err β}
    (h : (x >>= f) w = (r, w'')) :
    (∃ e, x w = (.error e, w'') ∧ r = .error e) ∨ ∃ a w', x w = (.ok a, w') ∧ f a w' = (r, w'') := by
  rw [bind_run] at h
  split at h
  · next a w' hx => exact Or.inr ⟨a, w', hx, h⟩
  · next e w' hx =>
    simp only [Prod.mk.injEq] at h
    obtain ⟨h1, h2⟩ := h
    subst h1 h2
    exact Or.inl ⟨e, hx, rfl⟩

theorem withLock_any_inv {α} {l : Nat} {body : M α} {w w' : World} {r : Except Err α}
    (h : withLock l body w = (r, w')) (hl : l ∉ w.locks) :
    ∃ w1, body { w with locks := l :: w.locks } = (r, w1) ∧ w' = { w1 with locks := w1.locks.erase l } := by
  rw [withLock_run, if_neg hl] at h
  simp only [Prod.mk.injEq] at h
  exact ⟨(body { w with locks := l :: w.locks }).2, by rw [← h.1], h.2.symm⟩

theorem Fr.locks_of {α} {x : M α} (hx : Fr x) {w w' : World} {r : Except Err α} (h : x w = (r, w')) :
    w'.locks = w.locks := by
  have := (hx w).locks; rw [h] at this; exact this

/-! ### Quiet computations: nothing delivered, transmitted or yielded -/

def Qt {α : Type} (x : M α) : Prop := ∀ w, ∃ evs, (x w).2.trace = evs ++ w.trace ∧ ∀ e ∈ evs, e.silent = true

theorem Qt.adds {α} {x : M α} (hx : Qt x) {w w' : World} {r : Except Err α} (h : x w = (r, w')) :
    Adds w w' [] [] := by
  obtain ⟨evs, ht, hs⟩ := hx w
  rw [h] at ht
  obtain ⟨h1, h2⟩ := silent_lists hs
  exact ⟨evs, ht, h1, h2⟩

theorem Qt_of_trace_eq {α} {x : M α} (h : ∀ w, (x w).2.trace = w.trace) : Qt x :=
  fun w => ⟨[], by simp [h w], by simp⟩

theorem Qt_pure {α} (a : α) : Qt (pure a : M α) := Qt_of_trace_eq fun _ => rfl
theorem Qt_Mpure {α} (a : α) : Qt (M.pure a : M α) := Qt_of_trace_eq fun _ => rfl
theorem Qt_throw {α} (e : Err) : Qt (M.throw e : M α) := Qt_of_trace_eq fun _ => rfl
theorem Qt_get : Qt M.get := Qt_of_trace_eq fun _ => rfl
theorem Qt_now : Qt now := Qt_of_trace_eq fun _ => rfl
theorem Qt_liftExcept {α} (x : Except Err α) : Qt (liftExcept x) := Qt_of_trace_eq fun _ => rfl
theorem Qt_emit (e : TEv) (he : e.silent = true) : Qt (emit e) :=
  fun w => ⟨[e], rfl, by simp [he]⟩
theorem Qt_elapsedGt (s : Int) (l : Timeout) : Qt (elapsedGt s l) :=
  Qt_of_trace_eq fun w => by unfold elapsedGt; cases l <;> rfl

theorem Qt_bind {α β} {x : M α} {f : α → M β} (hx : Qt x) (hf : ∀ a, Qt (f a)) : Qt (x >>= f) := by
  intro w
  rw [bind_run]
  obtain ⟨e1, ht1, hs1⟩ := hx w
  split
  · next a w' hxw =>
    rw [hxw] at ht1
    obtain ⟨e2, ht2, hs2⟩ := hf a w'
    have ht1' : w'.trace = e1 ++ w.trace := ht1
    refine ⟨e2 ++ e1, by simp [ht2, ht1'], ?_⟩
    intro e he
    rcases List.mem_append.1 he with he | he
    · exact hs2 e he
    · exact hs1 e he
  · next e w' hxw => rw [hxw] at ht1; exact ⟨e1, ht1, hs1⟩

theorem Qt_ite {α} {c : Prop} [Decidable c] {a b : M α} (ha : Qt a) (hb : Qt b) : Qt (if c then a else b) := by
  split <;> assumption

theorem Qt_withLock {α} (l : Nat) {body : M α} (hb : Qt body) : Qt (withLock l body) := by
  intro w
  rw [withLock_run]
  split
  · exact ⟨[], rfl, by simp⟩
  · exact hb { w with locks := l :: w.locks }

theorem Qt_modify {f : World → World} (hf : ∀ w, (f w).trace = w.trace) : Qt (M.modify f) :=
  Qt_of_trace_eq hf

syntax "qt_lemma" : tactic
macro_rules | `(tactic| qt_lemma) => `(tactic| with_reducible exact Qt_pure _)
macro_rules | `(tactic| qt_lemma) => `(tactic| with_reducible exact Qt_Mpure _)
macro_rules | `(tactic| qt_lemma) => `(tactic| with_reducible exact Qt_throw _)
macro_rules | `(tactic| qt_lemma) => `(tactic| with_reducible exact Qt_get)
macro_rules | `(tactic| qt_lemma) => `(tactic| with_reducible exact Qt_now)
macro_rules | `(tactic| qt_lemma) => `(tactic| with_reducible exact Qt_liftExcept _)
macro_rules | `(tactic| qt_lemma) => `(tactic| exact Qt_emit _ rfl)
macro_rules | `(tactic| qt_lemma) => `(tactic| with_reducible exact Qt_elapsedGt _ _)

syntax "qt" ("[" term "]")? : tactic
macro_rules
  | `(tactic| qt) => `(tactic| qt [Qt_get])
  | `(tactic| qt [$h]) => `(tactic| first
    | qt_lemma
    | with_reducible assumption
    | with_reducible exact $h
    | with_reducible exact $h _
    | with_reducible exact $h _ _
    | with_reducible exact $h _ _ _
    | (with_reducible apply Qt_bind) <;> (first | (intro _; qt [$h]) | qt [$h])
    | (with_reducible apply Qt_withLock); qt [$h]
    | (with_reducible apply Qt_modify); intro _; rfl
    | (with_reducible apply Qt_ite) <;> qt [$h]
    | (split <;> qt [$h])
    | (dsimp only; qt [$h])
    | (intro _; qt [$h]))

theorem Qt_waitTimeout {α} (tt : Timeout) : Qt (waitTimeout tt : M α) :=
  Qt_of_trace_eq fun w => by unfold waitTimeout; cases tt <;> rfl

theorem bulkRead_trace (n : Nat) (tt : Timeout) (w : World) : (bulkRead n tt w).2.trace = w.trace := by
  unfold bulkRead
  repeat' split
  all_goals first | rfl | (unfold waitTimeout; cases tt <;> rfl)

theorem bulkWrite_trace (d : Bytes) (tt : Timeout) (w : World) : (bulkWrite d tt w).2.trace = w.trace := by
  unfold bulkWrite
  repeat' split
  all_goals first | rfl | (unfold waitTimeout; cases tt <;> rfl)

theorem Qt_bulkRead (n : Nat) (tt : Timeout) : Qt (bulkRead n tt) := Qt_of_trace_eq (bulkRead_trace n tt)
theorem Qt_bulkWrite (d : Bytes) (tt : Timeout) : Qt (bulkWrite d tt) := Qt_of_trace_eq (bulkWrite_trace d tt)

macro_rules | `(tactic| qt_lemma) => `(tactic| with_reducible exact Qt_waitTimeout _)
macro_rules | `(tactic| qt_lemma) => `(tactic| with_reducible exact Qt_bulkRead _ _)
macro_rules | `(tactic| qt_lemma) => `(tactic| with_reducible exact Qt_bulkWrite _ _)

theorem Qt_readBytesLoop (t : Txn) (start : Int) : ∀ fuel rem acc, Qt (readBytesLoop t start fuel rem acc) := by
  intro fuel
  induction fuel with
  | zero => intro rem acc; unfold readBytesLoop; qt
  | succ f ih =>
    intro rem acc
    unfold readBytesLoop
    qt [ih]
macro_rules | `(tactic| qt_lemma) => `(tactic| with_reducible exact Qt_readBytesLoop _ _ _ _ _)

theorem Qt_readBytes (n : Nat) (t : Txn) : Qt (readBytes n t) := by
  unfold readBytes
  qt
macro_rules | `(tactic| qt_lemma) => `(tactic| with_reducible exact Qt_readBytes _ _)

/-- `_read_packet_from_device` delivers nothing and transmits nothing -/
theorem Qt_readPacket (t : Txn) : Qt (readPacket t) := by
  unfold readPacket
  qt
macro_rules | `(tactic| qt_lemma) => `(tactic| with_reducible exact Qt_readPacket _)

theorem Qt_writeAllLoop (t : Txn) (start : Int) : ∀ fuel data, Qt (writeAllLoop t start fuel data) := by
  intro fuel
  induction fuel with
  | zero => intro data; unfold writeAllLoop; qt
  | succ f ih =>
    intro data
    unfold writeAllLoop
    qt [ih]
macro_rules | `(tactic| qt_lemma) => `(tactic| with_reducible exact Qt_writeAllLoop _ _ _ _)

theorem Qt_writeAll (d : Bytes) (t : Txn) : Qt (writeAll d t) := by
  unfold writeAll
  qt
macro_rules | `(tactic| qt_lemma) => `(tactic| with_reducible exact Qt_writeAll _ _)

theorem Qt_storeFind (t : Txn) (az : Bool) : Qt (storeFind t az) := Qt_of_trace_eq fun _ => rfl
theorem Qt_storeGet (k : Nat × Nat) : Qt (storeGet k) :=
  Qt_of_trace_eq fun w => by unfold storeGet; split <;> rfl
/-- parking a packet (or losing a CLSE, K1) is neither a delivery nor a transmission -/
theorem Qt_storePut (p : Pkt) : Qt (storePut p) := by
  intro w
  unfold storePut
  refine ⟨[_], rfl, ?_⟩
  intro e he
  simp only [List.mem_singleton] at he
  subst he
  split <;> rfl
theorem Qt_storeClear (a0 a1 : Nat) : Qt (storeClear a0 a1) := Qt_of_trace_eq fun _ => rfl
theorem Qt_storeClearAll : Qt storeClearAll := Qt_of_trace_eq fun _ => rfl
theorem Qt_getTT (tt : Timeout) : Qt (getTT tt) := Qt_of_trace_eq fun _ => rfl
macro_rules | `(tactic| qt_lemma) => `(tactic| with_reducible exact Qt_storeFind _ _)
macro_rules | `(tactic| qt_lemma) => `(tactic| with_reducible exact Qt_storeGet _)
macro_rules | `(tactic| qt_lemma) => `(tactic| with_reducible exact Qt_storePut _)
macro_rules | `(tactic| qt_lemma) => `(tactic| with_reducible exact Qt_storeClear _ _)
macro_rules | `(tactic| qt_lemma) => `(tactic| with_reducible exact Qt_storeClearAll)
macro_rules | `(tactic| qt_lemma) => `(tactic| with_reducible exact Qt_getTT _)

/-! ### `_send` / `send` -/

/-- `_send(msg)`: whatever happens afterwards (pack error, write failure, timeout), exactly the
    message `m` was handed to `_send`, and nothing is delivered. -/
theorem sendRaw_adds {m : Msg} {t : Txn} {w w' : World} {r : Except Err Unit}
    (h : sendRaw m t w = (r, w')) : Adds w w' [.tx m] [] := by
  unfold sendRaw at h
  rcases bind_any_inv h with ⟨e, he, _⟩ | ⟨a, w1, he, hrest⟩
  · simp at he
  · simp only [emit_run, Prod.mk.injEq] at he
    have h1 : Adds w w1 [.tx m] [] := Adds.tx (by rw [← he.2])
    have h2 : Adds w1 w' [] [] := Qt.adds (by qt) hrest
    simpa using h1.trans h2

/-- `_AdbIOManager.send(msg)` on an idle transport lock: exactly `m` is transmitted, nothing delivered. -/
theorem ioSend_adds {m : Msg} {t : Txn} {w w' : World} {r : Except Err Unit}
    (h : ioSend m t w = (r, w')) (hl : lockTransport ∉ w.locks) : Adds w w' [.tx m] [] := by
  unfold ioSend at h
  obtain ⟨w1, hb, rfl⟩ := withLock_any_inv h hl
  exact (sendRaw_adds hb).congr rfl rfl



/-! ### Which packets a transaction accepts -/

/-- the ids of `p` fit the transaction `t`: `arg0` is the stream's remote id (if known) and `arg1` its
    local id (if known), or — with `allowZeros` — the legacy zero ids -/
def Txn.accepts (t : Txn) (az : Bool) (p : Pkt) : Bool :=
  if az then Store.keyMatchesZ t.remoteId t.localId (p.arg0, p.arg1)
  else Store.keyMatches t.remoteId t.localId (p.arg0, p.arg1)

theorem Txn.accepts_of_argsMatch {t : Txn} {az : Bool} {p : Pkt} (h : t.argsMatch p.arg0 p.arg1 az = true) :
    t.accepts az p = true := by
  obtain ⟨l, r, _, _, _⟩ := t
  unfold Txn.argsMatch at h
  unfold Txn.accepts Store.keyMatchesZ Store.keyMatches
  cases az <;> cases l <;> cases r <;> simp_all <;> grind

/-- with a known local id `l`: `arg1` is `l` (or 0 under `allowZeros`), and `arg0` is the remote id if
    that is known (or 0 under `allowZeros`) — exactly `args_match` -/
theorem Txn.accepts_iff {t : Txn} {az : Bool} {p : Pkt} {l : Nat} (hl : t.localId = some l) :
    t.accepts az p = true ↔ t.argsMatch p.arg0 p.arg1 az = true := by
  obtain ⟨l', r, _, _, _⟩ := t
  simp only at hl
  subst hl
  unfold Txn.argsMatch Txn.accepts Store.keyMatchesZ Store.keyMatches
  cases az <;> cases r <;> simp <;> grind

theorem Txn.accepts_ids {t : Txn} {az : Bool} {p : Pkt} {l : Nat} (hl : t.localId = some l) (h : t.accepts az p = true) :
    (p.arg1 = l ∨ (az = true ∧ p.arg1 = 0)) ∧ ∀ r, t.remoteId = some r → (p.arg0 = r ∨ (az = true ∧ p.arg0 = 0)) := by
  rw [Txn.accepts_iff hl] at h
  obtain ⟨l', r', _, _, _⟩ := t
  simp only at hl
  subst hl
  unfold Txn.argsMatch at h
  cases az <;> cases r' <;> simp_all <;> grind

namespace Store

/-- an answer of `find` matches the pattern (no invariant needed for this half of `find_spec`) -/
theorem find_matches {s : Store} {p0 p1 : Option Nat} {k : Nat × Nat} (h : s.find p0 p1 = some k) :
    keyMatches p0 p1 k = true := by
  unfold find at h
  split at h
  · simp at h
  · cases p1 with
    | none =>
      cases p0 with
      | none => simp [keyMatches]
      | some x =>
        simp only at h
        have := (firstNonEmpty_some h).2
        simpa [keyMatches] using this
    | some y =>
      simp only at h
      cases h1 : alookup y s with
      | none => simp [h1] at h
      | some inner =>
        simp only [h1] at h
        cases p0 with
        | none =>
          simp only [Option.map_eq_some_iff] at h
          obtain ⟨k0, _, rfl⟩ := h
          simp [keyMatches]
        | some x =>
          simp only at h
          split at h
          · split at h
            · simp at h
            · simp only [Option.some.injEq] at h; subst h; simp [keyMatches]
          · simp at h

theorem findAllowZeros_matches {s : Store} {p0 p1 : Option Nat} {k : Nat × Nat} (h : s.findAllowZeros p0 p1 = some k) :
    keyMatchesZ p0 p1 k = true := by
  unfold findAllowZeros at h
  unfold keyMatchesZ
  cases e1 : find s p0 p1 with
  | some k1 => simp only [e1, Option.some.injEq] at h; subst h; simp [find_matches e1]
  | none =>
    cases e2 : find s p0 (some 0) with
    | some k2 => simp only [e1, e2, Option.some.injEq] at h; subst h; simp [find_matches e2]
    | none =>
      cases e3 : find s (some 0) p1 with
      | some k3 => simp only [e1, e2, e3, Option.some.injEq] at h; subst h; simp [find_matches e3]
      | none => simp only [e1, e2, e3] at h; simp [find_matches h]

/-- `get` with a concrete pair returns the packet labelled with that very pair -/
theorem get_key {s s' : Store} {a b : Nat} {c : Cmd} {x y : Nat} {d : Bytes}
    (h : s.get (some a) (some b) = .ok ((c, x, y, d), s')) : x = a ∧ y = b := by
  unfold get at h
  simp only at h
  repeat' split at h
  all_goals simp_all
end Store



/-- postcondition of one attempt to obtain a packet: if a packet is returned it is the one and only
    delivery, it is an expected command and its ids fit the transaction; otherwise nothing is
    delivered. Never transmits, never yields. -/
def ReadPost (ex : List Cmd) (t : Txn) (az : Bool) (w : World) (r : Except Err (Option Pkt)) (w' : World) : Prop :=
  match r with
  | .ok (some p) => Adds w w' [.rx p] [] ∧ p.cmd ∈ ex ∧ t.accepts az p = true
  | _ => Adds w w' [] []

theorem storeFind_accepts {t : Txn} {az : Bool} {w : World} {k : Nat × Nat} {p : Pkt}
    (hk : (if az then w.store.findAllowZeros t.remoteId t.localId else w.store.find t.remoteId t.localId) = some k)
    (h0 : p.arg0 = k.1) (h1 : p.arg1 = k.2) : t.accepts az p = true := by
  unfold Txn.accepts
  rw [h0, h1]
  cases az with
  | true => simp only [if_true] at hk ⊢; exact Store.findAllowZeros_matches hk
  | false => simp only [Bool.false_eq_true, if_false] at hk ⊢; exact Store.find_matches hk

/-- the `while arg0_arg1:` loop over the packet store -/
theorem drainLoop_dlv {ex : List Cmd} {t : Txn} {az : Bool} :
    ∀ (fuel : Nat) {w w' : World} {r : Except Err (Option Pkt)},
      drainLoop ex t az fuel w = (r, w') → ReadPost ex t az w r w' := by
  intro fuel
  induction fuel with
  | zero =>
    intro w w' r h
    simp only [drainLoop, M.throw_run, Prod.mk.injEq] at h
    obtain ⟨rfl, rfl⟩ := h
    exact Adds.rfl' _
  | succ f ih =>
    intro w w' r h
    unfold drainLoop at h
    rcases bind_any_inv h with ⟨e, he, _⟩ | ⟨o, w1, hf, hrest⟩
    · simp [storeFind] at he
    · simp only [storeFind, Prod.mk.injEq, Except.ok.injEq] at hf
      obtain ⟨hf, rfl⟩ := hf
      cases o with
      | none =>
        simp only [pure_run, Prod.mk.injEq] at hrest
        obtain ⟨rfl, rfl⟩ := hrest
        exact Adds.rfl' _
      | some k =>
        simp only at hrest
        rcases bind_any_inv hrest with ⟨e, he, rfl⟩ | ⟨p, w2, hg, hrest2⟩
        · exact Qt.adds (Qt_storeGet k) he
        · have hA : Adds w w2 [] [] := Qt.adds (Qt_storeGet k) hg
          have hkey : p.arg0 = k.1 ∧ p.arg1 = k.2 := by
            unfold storeGet at hg
            split at hg
            · next c a0 a1 d s' hget =>
              simp only [Prod.mk.injEq, Except.ok.injEq] at hg
              have := Store.get_key hget
              rw [← hg.1]; exact this
            · simp at hg
          split at hrest2
          · next hc =>
            simp only [bind_run, emit_run, pure_run, Prod.mk.injEq] at hrest2
            obtain ⟨rfl, rfl⟩ := hrest2
            refine ⟨?_, by simpa using hc, storeFind_accepts hf hkey.1 hkey.2⟩
            simpa using hA.trans (Adds.deliver (p := p) rfl)
          · rcases bind_any_inv hrest2 with ⟨e, he, _⟩ | ⟨u, w3, he, hrest3⟩
            · simp at he
            · simp only [emit_run, Prod.mk.injEq] at he
              have hB : Adds w2 w3 [] [] := Adds.silent (e := .unstore p) rfl (by rw [← he.2])
              have hC := ih hrest3
              have hAB : Adds w w3 [] [] := by simpa using hA.trans hB
              unfold ReadPost at hC ⊢
              split
              · next p' =>
                simp only at hC
                refine ⟨by simpa using hAB.trans hC.1, hC.2.1, hC.2.2⟩
              · next hne =>
                split at hC
                · next p' => exact absurd rfl (hne p')
                · simpa using hAB.trans hC


theorem ReadPost.of_adds_err {ex t az w w'} {e : Err} (h : Adds w w' [] []) : ReadPost ex t az w (.error e) w' := h
theorem ReadPost.of_adds_none {ex t az w w'} (h : Adds w w' [] []) : ReadPost ex t az w (.ok none) w' := h

/-- prefix a quiet step -/
theorem ReadPost.after {ex t az} {w w1 w' : World} {r} (h1 : Adds w w1 [] []) (h2 : ReadPost ex t az w1 r w') :
    ReadPost ex t az w r w' := by
  unfold ReadPost at h2 ⊢
  split
  · next p => simp only at h2; exact ⟨by simpa using h1.trans h2.1, h2.2⟩
  · next hne =>
    split at h2
    · next p' => exact absurd rfl (hne p')
    · simpa using h1.trans h2

/-- append a quiet step -/
theorem ReadPost.before {ex t az} {w w1 w' : World} {r} (h1 : ReadPost ex t az w r w1) (h2 : Adds w1 w' [] []) :
    ReadPost ex t az w r w' := by
  unfold ReadPost at h1 ⊢
  split
  · next p => simp only at h1; exact ⟨by simpa using h1.1.trans h2, h1.2⟩
  · next hne =>
    split at h1
    · next p' => exact absurd rfl (hne p')
    · simpa using h1.trans h2

theorem ReadPost.congr {ex t az} {w w' v v' : World} {r} (h : ReadPost ex t az w r w') (h1 : v.trace = w.trace) (h2 : v'.trace = w'.trace) :
    ReadPost ex t az v r v' := by
  unfold ReadPost at h ⊢
  split
  · next p => simp only at h; exact ⟨h.1.congr h1 h2, h.2⟩
  · next hne =>
    split at h
    · next p' => exact absurd rfl (hne p')
    · exact h.congr h1 h2

/-- the store loop under the store lock -/
theorem lockedDrain_dlv {ex : List Cmd} {t : Txn} {az : Bool} {fuel : Nat} {w w' : World} {r : Except Err (Option Pkt)}
    (h : withLock lockStore (drainLoop ex t az fuel) w = (r, w')) : ReadPost ex t az w r w' := by
  by_cases hl : lockStore ∈ w.locks
  · rw [withLock_run, if_pos hl] at h
    simp only [Prod.mk.injEq] at h
    obtain ⟨rfl, rfl⟩ := h
    exact Adds.rfl' _
  · obtain ⟨w1, hb, rfl⟩ := withLock_any_inv h hl
    exact (drainLoop_dlv fuel hb).congr rfl rfl

/-- the part of one `while True:` iteration of `read` that follows the store loop: read one packet
    from the transport and park, deliver or drop it -/
def readIterTail (expected : List Cmd) (t : Txn) (allowZeros : Bool) : M (Option Pkt) := do
  let p ← readPacket t
  if !t.argsMatch p.arg0 p.arg1 allowZeros then do
    withLock lockStore (storePut p)
    pure none
  else do
    if p.cmd = Cmd.CLSE then withLock lockStore (storeClear p.arg0 p.arg1)
    if expected.contains p.cmd then do emit (.deliver p); pure (some p)
    else do emit (.drop p); pure none

theorem readIter_eq (ex : List Cmd) (t : Txn) (az : Bool) :
    readIter ex t az = withLock lockTransport (do
      let w ← M.get
      match (← withLock lockStore (drainLoop ex t az w.fuel)) with
      | some p => pure (some p)
      | none => readIterTail ex t az) := rfl

theorem readIterTail_dlv {ex : List Cmd} {t : Txn} {az : Bool} {w w' : World} {r : Except Err (Option Pkt)}
    (h : readIterTail ex t az w = (r, w')) : ReadPost ex t az w r w' := by
  unfold readIterTail at h
  rcases bind_any_inv h with ⟨e, he, rfl⟩ | ⟨p, w1, hp, hrest⟩
  · exact Qt.adds (Qt_readPacket t) he
  · refine ReadPost.after (Qt.adds (Qt_readPacket t) hp) ?_
    split at hrest
    · -- parked
      rcases bind_any_inv hrest with ⟨e, he, rfl⟩ | ⟨u, w2, hput, hrest2⟩
      · exact Qt.adds (Qt_withLock _ (Qt_storePut p)) he
      · simp only [pure_run, Prod.mk.injEq] at hrest2
        obtain ⟨rfl, rfl⟩ := hrest2
        exact Qt.adds (Qt_withLock _ (Qt_storePut p)) hput
    · next hm =>
      have hm' : t.argsMatch p.arg0 p.arg1 az = true := by simpa using hm
      have hjp : ∀ {w2 : World}, (if ex.contains p.cmd = true then (do emit (.deliver p); pure (some p) : M (Option Pkt))
            else do emit (.drop p); pure none) w2 = (r, w') → ReadPost ex t az w2 r w' := by
        intro w2 hrest2
        split at hrest2
        · next hc =>
          simp only [bind_run, emit_run, pure_run, Prod.mk.injEq] at hrest2
          obtain ⟨rfl, rfl⟩ := hrest2
          exact ⟨Adds.deliver rfl, by simpa using hc, Txn.accepts_of_argsMatch hm'⟩
        · simp only [bind_run, emit_run, pure_run, Prod.mk.injEq] at hrest2
          obtain ⟨rfl, rfl⟩ := hrest2
          exact Adds.silent (e := .drop p) rfl rfl
      simp only at hrest
      split at hrest
      · rcases bind_any_inv hrest with ⟨e, he, rfl⟩ | ⟨u, w2, hclr, hrest2⟩
        · exact Qt.adds (Qt_withLock _ (Qt_storeClear _ _)) he
        · exact ReadPost.after (Qt.adds (Qt_withLock _ (Qt_storeClear _ _)) hclr) (hjp hrest2)
      · exact hjp hrest

/-- one iteration of the `while True:` body of `_AdbIOManager.read` -/
theorem readIter_dlv {ex : List Cmd} {t : Txn} {az : Bool} {w w' : World} {r : Except Err (Option Pkt)}
    (h : readIter ex t az w = (r, w')) : ReadPost ex t az w r w' := by
  rw [readIter_eq] at h
  by_cases hl : lockTransport ∈ w.locks
  · rw [withLock_run, if_pos hl] at h
    simp only [Prod.mk.injEq] at h
    obtain ⟨rfl, rfl⟩ := h
    exact Adds.rfl' _
  · obtain ⟨w1, hb, rfl⟩ := withLock_any_inv h hl
    refine ReadPost.congr (w := { w with locks := lockTransport :: w.locks }) (w' := w1) ?_ rfl rfl
    rw [bind_run_ok (M.get_run _)] at hb
    rcases bind_any_inv hb with ⟨e, he, rfl⟩ | ⟨o, w2, hd, hrest⟩
    · exact lockedDrain_dlv he
    · have hD := lockedDrain_dlv hd
      cases o with
      | some p =>
        simp only [pure_run, Prod.mk.injEq] at hrest
        obtain ⟨rfl, rfl⟩ := hrest
        exact hD
      | none =>
        exact ReadPost.after hD (readIterTail_dlv hrest)

/-- postcondition of a read that returns a packet or raises -/
def ReadPost1 (ex : List Cmd) (t : Txn) (az : Bool) (w : World) (r : Except Err Pkt) (w' : World) : Prop :=
  match r with
  | .ok p => Adds w w' [.rx p] [] ∧ p.cmd ∈ ex ∧ t.accepts az p = true
  | .error _ => Adds w w' [] []

theorem ReadPost1.after {ex t az} {w w1 w' : World} {r} (h1 : Adds w w1 [] []) (h2 : ReadPost1 ex t az w1 r w') :
    ReadPost1 ex t az w r w' := by
  cases r with
  | ok p => exact ⟨by simpa using h1.trans h2.1, h2.2⟩
  | error e => have h2' : Adds w1 w' [] [] := h2; simpa [ReadPost1] using h1.trans h2'

theorem readLoop_dlv {ex : List Cmd} {t : Txn} {az : Bool} {start : Int} :
    ∀ (fuel : Nat) {w w' : World} {r : Except Err Pkt},
      readLoop ex t az start fuel w = (r, w') → ReadPost1 ex t az w r w' := by
  intro fuel
  induction fuel with
  | zero =>
    intro w w' r h
    simp only [readLoop, M.throw_run, Prod.mk.injEq] at h
    obtain ⟨rfl, rfl⟩ := h
    exact Adds.rfl' _
  | succ f ih =>
    intro w w' r h
    unfold readLoop at h
    rcases bind_any_inv h with ⟨e, he, rfl⟩ | ⟨o, w1, hi, hrest⟩
    · exact readIter_dlv he
    · have hI := readIter_dlv hi
      cases o with
      | some p =>
        simp only [pure_run, Prod.mk.injEq] at hrest
        obtain ⟨rfl, rfl⟩ := hrest
        exact hI
      | none =>
        have hI' : Adds w w1 [] [] := hI
        refine ReadPost1.after hI' ?_
        rcases bind_any_inv hrest with ⟨e, he, rfl⟩ | ⟨b, w2, hel, hrest2⟩
        · exact Qt.adds (Qt_elapsedGt _ _) he
        · refine ReadPost1.after (Qt.adds (Qt_elapsedGt _ _) hel) ?_
          split at hrest2
          · cases hrest2
            exact Adds.rfl' _
          · exact ih hrest2

/-- `_AdbIOManager.read(expected_cmds, adb_info, allow_zeros)`: a returned packet is the one and only
    delivery, is an expected command and its ids fit the transaction (whether it came from the
    packet store or from the transport); an exception delivers nothing; nothing is ever transmitted. -/
theorem ioRead_dlv {ex : List Cmd} {t : Txn} {az : Bool} {w w' : World} {r : Except Err Pkt}
    (h : ioRead ex t az w = (r, w')) : ReadPost1 ex t az w r w' := by
  unfold ioRead at h
  rw [bind_run_ok (M.get_run _)] at h
  rcases bind_any_inv h with ⟨e, he, rfl⟩ | ⟨o, w1, hd, hrest⟩
  · exact lockedDrain_dlv he
  · have hD := lockedDrain_dlv hd
    cases o with
    | some p =>
      simp only [pure_run, Prod.mk.injEq] at hrest
      obtain ⟨rfl, rfl⟩ := hrest
      exact hD
    | none =>
      have hD' : Adds w w1 [] [] := hD
      refine ReadPost1.after hD' ?_
      simp only at hrest
      rw [bind_run_ok (now_run _)] at hrest
      exact readLoop_dlv _ hrest



/-! ### The stream layer -/

/-- the acknowledgement `_okay` sends on the stream of `t` -/
def okayMsg (t : Txn) : Msg := ⟨.OKAY, t.localId.getD 0, t.remoteId.getD 0, []⟩
/-- the CLSE message `_clse` / `_read_until_close` send on the stream of `t` -/
def clseMsg (t : Txn) : Msg := ⟨.CLSE, t.localId.getD 0, t.remoteId.getD 0, []⟩

/-- what `_read_until` sends in response to a delivered packet: one OKAY for a WRTE, nothing otherwise -/
def ackOf (t : Txn) (p : Pkt) : List Xfer := if p.cmd = .WRTE then [.tx (okayMsg t)] else []

/-- what `_read_until_close` sends in response to a delivered packet: OKAY for WRTE, CLSE for CLSE -/
def replyOf (t : Txn) (p : Pkt) : List Xfer :=
  if p.cmd = .WRTE then [.tx (okayMsg t)] else if p.cmd = .CLSE then [.tx (clseMsg t)] else []

/-- a delivered packet followed by the host's reply to it -/
def served (t : Txn) (p : Pkt) : List Xfer := .rx p :: replyOf t p

/-- the messages of the reply to a packet -/
def replyMsgs (t : Txn) (p : Pkt) : List Msg :=
  if p.cmd = .WRTE then [okayMsg t] else if p.cmd = .CLSE then [clseMsg t] else []

theorem txs_replyOf (t : Txn) (p : Pkt) : txs (replyOf t p) = replyMsgs t p := by
  unfold replyOf replyMsgs; split
  · rfl
  · split <;> rfl
theorem rxs_replyOf (t : Txn) (p : Pkt) : rxs (replyOf t p) = [] := by
  unfold replyOf; split
  · rfl
  · split <;> rfl

/-- the deliveries of a served sequence are the packets themselves -/
theorem rxs_served (t : Txn) (L : List Pkt) : rxs (L.flatMap (served t)) = L := by
  induction L with
  | nil => rfl
  | cons p L ih => simp [served, rxs_replyOf, ih]

/-- the transmissions of a served sequence are the replies, in order -/
theorem txs_served (t : Txn) (L : List Pkt) : txs (L.flatMap (served t)) = L.flatMap (replyMsgs t) := by
  induction L with
  | nil => rfl
  | cons p L ih => simp [served, txs_replyOf, ih]

theorem replyMsgs_wrtes (t : Txn) {L : List Pkt} (h : ∀ p ∈ L, p.cmd = .WRTE) :
    L.flatMap (replyMsgs t) = L.map (fun _ => okayMsg t) := by
  induction L with
  | nil => rfl
  | cons p L ih =>
    have hp := h p (by simp)
    simp [replyMsgs, hp, ih (fun q hq => h q (by simp [hq]))]

/-- every reply carries the stream's ids `(local id, remote id)` -/
theorem replyMsgs_ids (t : Txn) (p : Pkt) : ∀ m ∈ replyMsgs t p, m.arg0 = t.localId.getD 0 ∧ m.arg1 = t.remoteId.getD 0 := by
  intro m hm
  unfold replyMsgs at hm
  split at hm
  · simp only [List.mem_singleton] at hm; subst hm; exact ⟨rfl, rfl⟩
  · split at hm
    · simp only [List.mem_singleton] at hm; subst hm; exact ⟨rfl, rfl⟩
    · simp at hm

theorem okay_dlv {t : Txn} {w w' : World} {r : Except Err Unit}
    (h : okay t w = (r, w')) (hl : lockTransport ∉ w.locks) : Adds w w' [.tx (okayMsg t)] [] :=
  ioSend_adds (m := okayMsg t) h hl

/-- postcondition of `_read_until` -/
def UntilPost (ex : List Cmd) (t : Txn) (w : World) (r : Except Err (Cmd × Bytes)) (w' : World) : Prop :=
  match r with
  | .ok (cmd, data) => ∃ p, Adds w w' (.rx p :: ackOf t p) [] ∧ p.cmd = cmd ∧ p.data = data ∧ cmd ∈ ex ∧ t.accepts true p = true
  | .error _ => Adds w w' [] [] ∨
      ∃ p, p.cmd = .WRTE ∧ p.cmd ∈ ex ∧ t.accepts true p = true ∧ Adds w w' [.rx p, .tx (okayMsg t)] []

/-- `_read_until(expected_cmds, adb_info)`: the returned `(cmd, data)` are those of the one packet
    delivered; if it is a WRTE exactly one OKAY (with the stream's ids) is sent AFTER the delivery,
    otherwise nothing is sent.  On an exception either nothing was delivered and nothing sent, or a
    WRTE was delivered and its acknowledgement was handed to `_send` (which then failed). -/
theorem readUntil_dlv {ex : List Cmd} {t : Txn} {w w' : World} {r : Except Err (Cmd × Bytes)}
    (h : readUntil ex t w = (r, w')) (hl : lockTransport ∉ w.locks) : UntilPost ex t w r w' := by
  unfold readUntil at h
  rcases bind_any_inv h with ⟨e, he, rfl⟩ | ⟨p, w1, hr, hrest⟩
  · exact Or.inl (ioRead_dlv he)
  · obtain ⟨hA, hex, hacc⟩ := ioRead_dlv hr
    have hl1 : lockTransport ∉ w1.locks := by rw [Fr.locks_of (Fr_ioRead ex t true) hr]; exact hl
    simp only at hrest
    split at hrest
    · next hc =>
      rcases bind_any_inv hrest with ⟨e, he, rfl⟩ | ⟨u, w2, hok, hrest2⟩
      · exact Or.inr ⟨p, hc, hex, hacc, by simpa using hA.trans (okay_dlv he hl1)⟩
      · cases hrest2
        exact ⟨p, by simpa [ackOf, hc] using hA.trans (okay_dlv hok hl1), rfl, rfl, hex, hacc⟩
    · next hc =>
      cases hrest
      exact ⟨p, by simpa [ackOf, hc] using hA, rfl, rfl, hex, hacc⟩

/-- whatever the outcome of `_read_until`: at most one packet is delivered, and what is sent is
    exactly the acknowledgement of that packet if it is a WRTE -/
theorem readUntil_any {ex : List Cmd} {t : Txn} {w w' : World} {r : Except Err (Cmd × Bytes)}
    (h : readUntil ex t w = (r, w')) (hl : lockTransport ∉ w.locks) :
    Adds w w' [] [] ∨ ∃ p, p.cmd ∈ ex ∧ t.accepts true p = true ∧ Adds w w' (.rx p :: ackOf t p) [] := by
  have hs := readUntil_dlv h hl
  cases r with
  | ok v =>
    obtain ⟨cmd, data⟩ := v
    obtain ⟨p, hA, hc, _, hex, hacc⟩ := hs
    exact Or.inr ⟨p, hc ▸ hex, hacc, hA⟩
  | error e =>
    rcases hs with hs | ⟨p, hc, hex, hacc, hA⟩
    · exact Or.inl hs
    · exact Or.inr ⟨p, hex, hacc, by simpa [ackOf, hc] using hA⟩

/-- postcondition of `_clse` -/
def ClsePost (t : Txn) (w : World) (r : Except Err Unit) (w' : World) : Prop :=
  match r with
  | .ok _ => ∃ c, Adds w w' [.tx (clseMsg t), .rx c] [] ∧ c.cmd = .CLSE ∧ t.accepts true c = true
  | .error _ => Adds w w' [.tx (clseMsg t)] []

/-- `_clse(adb_info)`: the CLSE is the first thing handed to `_send` and the only one; on a normal
    return exactly one packet was delivered afterwards, the device's CLSE; on an exception nothing
    was delivered. -/
theorem clse_dlv {t : Txn} {w w' : World} {r : Except Err Unit}
    (h : clse t w = (r, w')) (hl : lockTransport ∉ w.locks) : ClsePost t w r w' := by
  unfold clse at h
  rcases bind_any_inv h with ⟨e, he, rfl⟩ | ⟨u, w1, hs, hrest⟩
  · exact ioSend_adds (m := clseMsg t) he hl
  · have hS : Adds w w1 [.tx (clseMsg t)] [] := ioSend_adds (m := clseMsg t) hs hl
    have hl1 : lockTransport ∉ w1.locks := by rw [Fr.locks_of (Fr_ioSend _ t) hs]; exact hl
    rcases bind_any_inv hrest with ⟨e, he, rfl⟩ | ⟨v, w2, hu, hrest2⟩
    · rcases readUntil_dlv he hl1 with hA | ⟨p, hc, hex, _⟩
      · simpa [ClsePost] using hS.trans hA
      · simp [hc] at hex
    · cases hrest2
      obtain ⟨cmd, data⟩ := v
      obtain ⟨p, hA, hc, _, hex, hacc⟩ := readUntil_dlv hu hl1
      have hc' : p.cmd = .CLSE := by simpa [hc] using hex
      exact ⟨p, by simpa [ackOf, hc'] using hS.trans hA, hc', hacc⟩

/-- postcondition of `_read_until_close` (with accumulator `acc` of items already yielded) -/
def CloseLoopPost (t : Txn) (acc : List Bytes) (w : World) (r : Except Err (List Bytes)) (w' : World) : Prop :=
  ∃ (wrtes rest : List Pkt), (∀ p ∈ wrtes, p.cmd = .WRTE) ∧ (∀ p ∈ wrtes ++ rest, t.accepts true p = true) ∧
    Adds w w' ((wrtes ++ rest).flatMap (served t)) (wrtes.map (·.data)) ∧
    match r with
    | .ok items => items = acc.reverse ++ wrtes.map (·.data) ∧ ∃ c, rest = [c] ∧ c.cmd = .CLSE
    | .error _ => rest = [] ∨ ∃ p, rest = [p] ∧ (p.cmd = .WRTE ∨ p.cmd = .CLSE)

theorem CloseLoopPost.cons {t : Txn} {acc : List Bytes} {w w1 w' : World} {r} {p : Pkt}
    (hp : p.cmd = .WRTE) (hacc : t.accepts true p = true) (hA : Adds w w1 [.rx p, .tx (okayMsg t)] [p.data])
    (h : CloseLoopPost t (p.data :: acc) w1 r w') : CloseLoopPost t acc w r w' := by
  obtain ⟨wrtes, rest, hw, ha, hAdds, hr⟩ := h
  refine ⟨p :: wrtes, rest, ?_, ?_, ?_, ?_⟩
  · intro q hq
    rcases List.mem_cons.1 hq with rfl | hq
    · exact hp
    · exact hw q hq
  · intro q hq
    simp only [List.cons_append, List.mem_cons] at hq
    rcases hq with rfl | hq
    · exact hacc
    · exact ha q hq
  · have := hA.trans hAdds
    simpa [served, replyOf, hp] using this
  · cases r with
    | ok items => simpa using hr
    | error e => exact hr

theorem readUntilCloseLoop_dlv {t : Txn} {start : Int} :
    ∀ (fuel : Nat) {acc : List Bytes} {w w' : World} {r : Except Err (List Bytes)},
      readUntilCloseLoop t start fuel acc w = (r, w') → lockTransport ∉ w.locks → CloseLoopPost t acc w r w' := by
  intro fuel
  induction fuel with
  | zero =>
    intro acc w w' r h hl
    simp only [readUntilCloseLoop] at h
    cases h
    exact ⟨[], [], by simp, by simp, Adds.rfl' _, Or.inl rfl⟩
  | succ f ih =>
    intro acc w w' r h hl
    unfold readUntilCloseLoop at h
    rcases bind_any_inv h with ⟨e, he, rfl⟩ | ⟨v, w1, hu, hrest⟩
    · rcases readUntil_dlv he hl with hA | ⟨p, hc, hex, hacc, hA⟩
      · exact ⟨[], [], by simp, by simp, hA, Or.inl rfl⟩
      · exact ⟨[], [p], by simp, by simpa using hacc, by simpa [served, replyOf, hc] using hA, Or.inr ⟨p, rfl, Or.inl hc⟩⟩
    · obtain ⟨cmd, data⟩ := v
      obtain ⟨p, hA, hc, hd, hex, hacc⟩ := readUntil_dlv hu hl
      have hl1 : lockTransport ∉ w1.locks := by rw [Fr.locks_of (Fr_readUntil _ t) hu]; exact hl
      simp only at hrest
      split at hrest
      · next hcl =>
        -- the device closed: answer with one CLSE
        have hpc : p.cmd = .CLSE := hc.trans hcl
        have hA' : Adds w w1 [.rx p] [] := by simpa [ackOf, hpc] using hA
        rcases bind_any_inv hrest with ⟨e, he, rfl⟩ | ⟨u, w2, hs, hrest2⟩
        · have hS := ioSend_adds (m := clseMsg t) he hl1
          exact ⟨[], [p], by simp, by simpa using hacc, by simpa [served, replyOf, hpc] using hA'.trans hS,
            Or.inr ⟨p, rfl, Or.inr hpc⟩⟩
        · cases hrest2
          have hS := ioSend_adds (m := clseMsg t) hs hl1
          exact ⟨[], [p], by simp, by simpa using hacc, by simpa [served, replyOf, hpc] using hA'.trans hS,
            by simp, p, rfl, hpc⟩
      · next hcl =>
        have hpc : p.cmd = .WRTE := by
          rw [hc]; simp only [List.mem_cons, List.not_mem_nil, or_false] at hex
          rcases hex with h1 | h1
          · exact absurd h1 hcl
          · exact h1
        rcases bind_any_inv hrest with ⟨e, he, _⟩ | ⟨u, w2, hem, hrest2⟩
        · simp at he
        · simp only [emit_run, Prod.mk.injEq] at hem
          have hY : Adds w1 w2 [] [data] := Adds.yielded (by rw [← hem.2])
          have hA2 : Adds w w2 [.rx p, .tx (okayMsg t)] [p.data] := by
            rw [hd]; simpa [ackOf, hpc] using hA.trans hY
          have hl2 : lockTransport ∉ w2.locks := by rw [← hem.2]; exact hl1
          refine CloseLoopPost.cons hpc hacc hA2 ?_
          rw [hd]
          cases htot : t.total with
          | none =>
            simp only [htot] at hrest2
            exact ih hrest2 hl2
          | some tot =>
            simp only [htot] at hrest2
            rcases bind_any_inv hrest2 with ⟨e, he, rfl⟩ | ⟨b, w3, hel, hrest3⟩
            · exact ⟨[], [], by simp, by simp, Qt.adds (Qt_elapsedGt _ _) he, Or.inl rfl⟩
            · have hE : Adds w2 w3 [] [] := Qt.adds (Qt_elapsedGt _ _) hel
              have hl3 : lockTransport ∉ w3.locks := by rw [Fr.locks_of (Fr_elapsedGt _ _) hel]; exact hl2
              split at hrest3
              · simp only [bind_run, M.throw_run] at hrest3
                cases hrest3
                exact ⟨[], [], by simp, by simp, hE, Or.inl rfl⟩
              · obtain ⟨wrtes, rest, h1, h2, h3, h4⟩ := ih hrest3 hl3
                exact ⟨wrtes, rest, h1, h2, by simpa using hE.trans h3, h4⟩

/-- `_read_until_close(adb_info)` fully consumed -/
theorem readUntilClose_dlv {t : Txn} {w w' : World} {r : Except Err (List Bytes)}
    (h : readUntilClose t w = (r, w')) (hl : lockTransport ∉ w.locks) : CloseLoopPost t [] w r w' := by
  unfold readUntilClose at h
  rw [bind_run_ok (now_run _), bind_run_ok (M.get_run _)] at h
  exact readUntilCloseLoop_dlv _ h hl



theorem Txn.make_ids {l r : Option Nat} {tt rt total : Timeout} {t : Txn}
    (h : Txn.make l r tt rt total = .ok t) : t.localId = l ∧ t.remoteId = r ∧ t.total = total := by
  unfold Txn.make at h
  simp only [bind, Except.bind, pure, Except.pure] at h
  repeat' split at h
  all_goals first | (cases h; exact ⟨rfl, rfl, rfl⟩) | (simp at h)

/-- the OPEN message `_open` sends: fresh local id from the allocator, arg1 = 0, NUL-terminated destination -/
def openMsg (w : World) (dest : Bytes) : Msg := ⟨.OPEN, nextId w.localId, 0, dest ++ [0]⟩

/-- postcondition of `_open` -/
def OpenPost (dest : Bytes) (total : Timeout) (w : World) (r : Except Err Txn) (w' : World) : Prop :=
  match r with
  | .ok t' => ∃ p, Adds w w' [.tx (openMsg w dest), .rx p] [] ∧ p.cmd = .OKAY ∧ p.arg1 = nextId w.localId
      ∧ t'.remoteId = some p.arg0 ∧ t'.localId = some (nextId w.localId) ∧ t'.total = total
  | .error _ => Adds w w' [] [] ∨ Adds w w' [.tx (openMsg w dest)] []

/-- `_open(destination, …)` on an idle device: exactly one message is sent, the OPEN with the next
    local id, arg1 = 0 and the NUL-terminated destination; on a normal return exactly one packet
    was delivered after it, an OKAY carrying the new local id in arg1, whose arg0 becomes the
    remote id of the returned transaction. -/
theorem openStream_dlv {dest : Bytes} {tt rt total : Timeout} {w w' : World} {r : Except Err Txn}
    (h : openStream dest tt rt total w = (r, w')) (hl : w.locks = []) : OpenPost dest total w r w' := by
  unfold openStream at h
  rcases bind_any_inv h with ⟨e, he, rfl⟩ | ⟨t, w1, ht, hrest⟩
  · exact Or.inl (Qt.adds (by qt) he)
  · have hA0 : Adds w w1 [] [] := Qt.adds (by qt) ht
    have hl1 : w1.locks = [] := by rw [Fr.locks_of (by fr) ht]; exact hl
    have hlt1 : lockTransport ∉ w1.locks := by simp [hl1]
    have hid : t.localId = some (nextId w.localId) ∧ t.remoteId = none ∧ t.total = total := by
      obtain ⟨w0, hb, _⟩ := withLock_any_inv ht (by simp [hl])
      simp only [bind_run, M.modify_run, M.get_run, getTT, liftExcept_run] at hb
      simp only [Prod.mk.injEq] at hb
      exact Txn.make_ids hb.1
    have hmsg : (⟨.OPEN, t.localId.getD 0, 0, dest ++ [0]⟩ : Msg) = openMsg w dest := by
      simp [openMsg, hid.1]
    rw [hmsg] at hrest
    rcases bind_any_inv hrest with ⟨e, he, rfl⟩ | ⟨u, w2, hs, hrest2⟩
    · exact Or.inr (by simpa using hA0.trans (ioSend_adds he hlt1))
    · have hS : Adds w w2 [.tx (openMsg w dest)] [] := by simpa using hA0.trans (ioSend_adds hs hlt1)
      rcases bind_any_inv hrest2 with ⟨e, he, rfl⟩ | ⟨p, w3, hr, hrest3⟩
      · have hR : Adds w2 w' [] [] := ioRead_dlv he
        exact Or.inr (by simpa using hS.trans hR)
      · cases hrest3
        obtain ⟨hR, hex, hacc⟩ := ioRead_dlv hr
        have hids := (Txn.accepts_ids hid.1 hacc).1
        refine ⟨p, by simpa using hS.trans hR, by simpa using hex, ?_, rfl, hid.1, hid.2.2⟩
        simpa using hids

/-- postcondition of a whole command stream, for every outcome: either the stream was never opened
    (an exception; at most the OPEN was sent and nothing delivered), or the conversation is OPEN, the
    device's OKAY, then the served packets of this stream — WRTEs each answered by one OKAY, and (on a
    normal return, last) the device's CLSE answered by one CLSE. -/
def StreamPost (dest : Bytes) (w : World) (r : Except Err (List Bytes)) (w' : World) : Prop :=
  ((∃ e, r = .error e) ∧ (Adds w w' [] [] ∨ Adds w w' [.tx (openMsg w dest)] [])) ∨
  ∃ (okay : Pkt) (wrtes rest : List Pkt) (t : Txn),
    t.localId = some (nextId w.localId) ∧ t.remoteId = some okay.arg0 ∧
    okay.cmd = .OKAY ∧ okay.arg1 = nextId w.localId ∧ (∀ p ∈ wrtes, p.cmd = .WRTE) ∧
    (∀ p ∈ wrtes ++ rest, t.accepts true p = true) ∧
    Adds w w' (.tx (openMsg w dest) :: .rx okay :: (wrtes ++ rest).flatMap (served t)) (wrtes.map (·.data)) ∧
    match r with
    | .ok items => items = wrtes.map (·.data) ∧ ∃ c, rest = [c] ∧ c.cmd = .CLSE
    | .error _ => rest = [] ∨ ∃ p, rest = [p] ∧ (p.cmd = .WRTE ∨ p.cmd = .CLSE)

/-- `_streaming_command(service, command, …)` fully consumed, on an idle device -/
theorem streamingCommand_dlv {svc cmd : Bytes} {tt rt total : Timeout} {w w' : World} {r : Except Err (List Bytes)}
    (h : streamingCommand svc cmd tt rt total w = (r, w')) (hl : w.locks = []) :
    StreamPost (svc ++ [58] ++ cmd) w r w' := by
  unfold streamingCommand at h
  rcases bind_any_inv h with ⟨e, he, rfl⟩ | ⟨t, w1, ho, hc⟩
  · exact Or.inl ⟨⟨e, rfl⟩, openStream_dlv he hl⟩
  · obtain ⟨p, hA, hpc, hp1, hr, hlid, _⟩ := openStream_dlv ho hl
    have hl1 : lockTransport ∉ w1.locks := by
      rw [Fr.locks_of (Fr_openStream _ tt rt total) ho, hl]; simp
    obtain ⟨wrtes, rest, hw, hacc, hB, hres⟩ := readUntilClose_dlv hc hl1
    refine Or.inr ⟨p, wrtes, rest, t, hlid, hr, hpc, hp1, hw, hacc, by simpa using hA.trans hB, ?_⟩
    cases r with
    | ok items => simpa using hres
    | error e => exact hres

/-! ### `_filesync_flush` -/

/-- the WRTE message `_filesync_flush` sends -/
def wrteMsg (t : Txn) (data : Bytes) : Msg := ⟨.WRTE, t.localId.getD 0, t.remoteId.getD 0, data⟩

/-- postcondition of the wait-for-OKAY loop of `_filesync_flush` -/
def FlushPost (pre : List Xfer) (t : Txn) (fi : FsInfo) (w : World) (r : Except Err FsInfo) (w' : World) : Prop :=
  ∃ (wrtes rest : List Pkt), (∀ p ∈ wrtes, p.cmd = .WRTE) ∧ (∀ p ∈ wrtes ++ rest, t.accepts true p = true) ∧
    Adds w w' (pre ++ (wrtes ++ rest).flatMap (served t)) [] ∧
    match r with
    | .ok fi' => (∃ o, rest = [o] ∧ o.cmd = .OKAY) ∧ fi'.sendBuf = [] ∧
        fi'.recvBuf = fi.recvBuf ++ (wrtes.map (·.data)).flatten
    | .error _ => rest = [] ∨ ∃ p, rest = [p] ∧ p.cmd = .WRTE

theorem fsFlushLoop_dlv {t : Txn} :
    ∀ (fuel : Nat) {fi : FsInfo} {w w' : World} {r : Except Err FsInfo},
      fsFlushLoop t fuel fi w = (r, w') → lockTransport ∉ w.locks → FlushPost [] t fi w r w' := by
  intro fuel
  induction fuel with
  | zero =>
    intro fi w w' r h hl
    simp only [fsFlushLoop] at h
    cases h
    exact ⟨[], [], by simp, by simp, Adds.rfl' _, Or.inl rfl⟩
  | succ f ih =>
    intro fi w w' r h hl
    unfold fsFlushLoop at h
    rcases bind_any_inv h with ⟨e, he, rfl⟩ | ⟨v, w1, hu, hrest⟩
    · rcases readUntil_dlv he hl with hA | ⟨p, hc, hex, hacc, hA⟩
      · exact ⟨[], [], by simp, by simp, hA, Or.inl rfl⟩
      · exact ⟨[], [p], by simp, by simpa using hacc, by simpa [served, replyOf, hc] using hA, Or.inr ⟨p, rfl, hc⟩⟩
    · obtain ⟨cmd, data⟩ := v
      obtain ⟨p, hA, hc, hd, hex, hacc⟩ := readUntil_dlv hu hl
      have hl1 : lockTransport ∉ w1.locks := by rw [Fr.locks_of (Fr_readUntil _ t) hu]; exact hl
      simp only at hrest
      split at hrest
      · next hok =>
        have hpc : p.cmd = .OKAY := hc.trans hok
        cases hrest
        refine ⟨[], [p], by simp, by simpa using hacc, ?_, ⟨p, rfl, hpc⟩, rfl, by simp⟩
        simpa [served, replyOf, ackOf, hpc] using hA
      · next hok =>
        have hpc : p.cmd = .WRTE := by
          rw [hc]; simp only [List.mem_cons, List.not_mem_nil, or_false] at hex
          rcases hex with h1 | h1
          · exact absurd h1 hok
          · exact h1
        obtain ⟨wrtes, rest, hw, ha, hB, hr⟩ := ih hrest hl1
        refine ⟨p :: wrtes, rest, ?_, ?_, ?_, ?_⟩
        · intro q hq
          rcases List.mem_cons.1 hq with rfl | hq
          · exact hpc
          · exact hw q hq
        · intro q hq
          simp only [List.cons_append, List.mem_cons] at hq
          rcases hq with rfl | hq
          · exact hacc
          · exact ha q hq
        · simpa [served, replyOf, ackOf, hpc] using hA.trans hB
        · cases r with
          | ok fi' =>
            obtain ⟨h1, h2, h3⟩ := hr
            refine ⟨h1, h2, ?_⟩
            simp only at h3
            rw [h3, ← hd]
            simp
          | error e => exact hr

/-- `_filesync_flush(adb_info, filesync_info)`: the WRTE with the buffered records is the first
    thing handed to `_send`; afterwards device WRTEs are delivered (each acknowledged with one OKAY
    and kept in the receive buffer); it returns only once an OKAY has been delivered. -/
theorem fsFlush_dlv {t : Txn} {fi : FsInfo} {w w' : World} {r : Except Err FsInfo}
    (h : fsFlush t fi w = (r, w')) (hl : lockTransport ∉ w.locks) :
    FlushPost [.tx (wrteMsg t fi.sendBuf)] t fi w r w' := by
  unfold fsFlush at h
  rcases bind_any_inv h with ⟨e, he, rfl⟩ | ⟨u, w1, hs, hrest⟩
  · exact ⟨[], [], by simp, by simp, by simpa using ioSend_adds (m := wrteMsg t fi.sendBuf) he hl, Or.inl rfl⟩
  · have hS := ioSend_adds (m := wrteMsg t fi.sendBuf) hs hl
    have hl1 : lockTransport ∉ w1.locks := by rw [Fr.locks_of (Fr_ioSend _ t) hs]; exact hl
    rw [bind_run_ok (M.get_run _)] at hrest
    obtain ⟨wrtes, rest, hw, ha, hB, hr⟩ := fsFlushLoop_dlv _ hrest hl1
    exact ⟨wrtes, rest, hw, ha, by simpa using hS.trans hB, hr⟩


/-! ### Whole command streams in `delivered` / `transmitted` form -/


/-- the ids of a packet accepted (with the zero-id fallback) by a transaction with known ids -/
theorem Txn.accepts_true_ids {t : Txn} {p : Pkt} {l r : Nat} (hl : t.localId = some l) (hr : t.remoteId = some r)
    (h : t.accepts true p = true) : (p.arg1 = l ∨ p.arg1 = 0) ∧ (p.arg0 = r ∨ p.arg0 = 0) := by
  obtain ⟨h1, h2⟩ := Txn.accepts_ids hl h
  have h2' := h2 r hr
  simp only [true_and] at h1 h2'
  exact ⟨h1, h2'⟩

theorem served_wrtes (t : Txn) {L : List Pkt} (h : ∀ p ∈ L, p.cmd = .WRTE) :
    L.flatMap (served t) = L.flatMap (fun p => [.rx p, .tx (okayMsg t)]) := by
  induction L with
  | nil => rfl
  | cons p L ih =>
    have hp := h p (by simp)
    simp [served, replyOf, hp, ih (fun q hq => h q (by simp [hq]))]

/-- Normal return of a command stream on an idle device, in `delivered` / `transmitted` form:
    OPEN, the device's OKAY, then this stream's WRTEs each answered by one OKAY, then the device's
    CLSE answered by one CLSE; the items yielded are the WRTE payloads in order. -/
theorem streamingCommand_ok {svc cmd : Bytes} {tt rt total : Timeout} {w w' : World} {items : List Bytes}
    (h : streamingCommand svc cmd tt rt total w = (.ok items, w')) (hl : w.locks = []) :
    ∃ (evs : List TEv) (okay : Pkt) (wrtes : List Pkt) (c : Pkt), w'.trace = evs ++ w.trace ∧
      delivered evs = okay :: wrtes ++ [c] ∧
      transmitted evs = openMsg w (svc ++ [58] ++ cmd) ::
        wrtes.map (fun _ => (⟨.OKAY, nextId w.localId, okay.arg0, []⟩ : Msg)) ++ [⟨.CLSE, nextId w.localId, okay.arg0, []⟩] ∧
      exchanged evs = .tx (openMsg w (svc ++ [58] ++ cmd)) :: .rx okay ::
        wrtes.flatMap (fun p => [Xfer.rx p, .tx ⟨.OKAY, nextId w.localId, okay.arg0, []⟩])
          ++ [.rx c, .tx ⟨.CLSE, nextId w.localId, okay.arg0, []⟩] ∧
      yieldedBy evs = items ∧ items = wrtes.map (·.data) ∧
      okay.cmd = .OKAY ∧ okay.arg1 = nextId w.localId ∧ c.cmd = .CLSE ∧ (∀ p ∈ wrtes, p.cmd = .WRTE) ∧
      (∀ p ∈ wrtes ++ [c], (p.arg1 = nextId w.localId ∨ p.arg1 = 0) ∧ (p.arg0 = okay.arg0 ∨ p.arg0 = 0)) := by
  rcases streamingCommand_dlv h hl with ⟨⟨e, he⟩, _⟩ | ⟨okay, wrtes, rest, t, hlid, hrid, hoc, ho1, hw, hacc, hA, hitems, c, rfl, hcc⟩
  · cases he
  · obtain ⟨evs, htr, hd, hx, hy, hex⟩ := hA.dt
    have hok : okayMsg t = ⟨.OKAY, nextId w.localId, okay.arg0, []⟩ := by simp [okayMsg, hlid, hrid]
    have hcl : clseMsg t = ⟨.CLSE, nextId w.localId, okay.arg0, []⟩ := by simp [clseMsg, hlid, hrid]
    refine ⟨evs, okay, wrtes, c, htr, ?_, ?_, ?_, by rw [hy, hitems], hitems, hoc, ho1, hcc, hw, ?_⟩
    · rw [hd, rxs_cons_tx, rxs_cons_rx, rxs_served]; rfl
    · rw [hx, txs_cons_tx, txs_cons_rx, txs_served, List.flatMap_append, replyMsgs_wrtes t hw]
      simp [replyMsgs, hcc, hok, hcl]
    · rw [hex]
      simp only [List.flatMap_append, served_wrtes t hw]
      simp [served, replyOf, hcc, hok, hcl]
    · intro p hp
      exact Txn.accepts_true_ids hlid hrid (hacc p hp)


/-- the host's reply to a delivered packet on the stream with ids `(l, r)`: one OKAY for a WRTE, one
    CLSE for a CLSE, nothing otherwise -/
def streamReply (l r : Nat) (p : Pkt) : List Msg :=
  if p.cmd = .WRTE then [⟨.OKAY, l, r, []⟩] else if p.cmd = .CLSE then [⟨.CLSE, l, r, []⟩] else []

theorem replyMsgs_eq_streamReply {t : Txn} {l r : Nat} (hl : t.localId = some l) (hr : t.remoteId = some r) :
    replyMsgs t = streamReply l r := by
  funext p
  simp [replyMsgs, streamReply, okayMsg, clseMsg, hl, hr]

/-- Every outcome of a command stream on an idle device (normal return or any exception): either
    nothing was delivered or yielded and at most the OPEN was sent, or the deliveries are the
    device's OKAY for the new local id followed by packets of THIS stream — WRTEs, then at most one
    more WRTE/CLSE — the items yielded are the payloads of those WRTEs in order, and what was sent
    is the OPEN followed by exactly the replies to the delivered packets in order. -/
theorem streamingCommand_any {svc cmd : Bytes} {tt rt total : Timeout} {w w' : World} {r : Except Err (List Bytes)}
    (h : streamingCommand svc cmd tt rt total w = (r, w')) (hl : w.locks = []) :
    ∃ evs : List TEv, w'.trace = evs ++ w.trace ∧
      (((∃ e, r = .error e) ∧ delivered evs = [] ∧ yieldedBy evs = [] ∧
          (transmitted evs = [] ∨ transmitted evs = [openMsg w (svc ++ [58] ++ cmd)])) ∨
       ∃ (okay : Pkt) (wrtes rest : List Pkt),
          delivered evs = okay :: wrtes ++ rest ∧ okay.cmd = .OKAY ∧ okay.arg1 = nextId w.localId ∧
          (∀ p ∈ wrtes, p.cmd = .WRTE) ∧ rest.length ≤ 1 ∧ (∀ p ∈ rest, p.cmd = .WRTE ∨ p.cmd = .CLSE) ∧
          ((∃ items, r = .ok items) → ∃ c, rest = [c] ∧ c.cmd = .CLSE) ∧
          yieldedBy evs = wrtes.map (·.data) ∧
          (∀ p ∈ wrtes ++ rest, (p.arg1 = nextId w.localId ∨ p.arg1 = 0) ∧ (p.arg0 = okay.arg0 ∨ p.arg0 = 0)) ∧
          transmitted evs = openMsg w (svc ++ [58] ++ cmd) ::
            (wrtes ++ rest).flatMap (streamReply (nextId w.localId) okay.arg0) ∧
          exchanged evs = .tx (openMsg w (svc ++ [58] ++ cmd)) :: .rx okay ::
            (wrtes ++ rest).flatMap (fun p => .rx p :: (streamReply (nextId w.localId) okay.arg0 p).map .tx)) := by
  rcases streamingCommand_dlv h hl with ⟨he, hA | hA⟩ | ⟨okay, wrtes, rest, t, hlid, hrid, hoc, ho1, hw, hacc, hA, hres⟩
  · obtain ⟨evs, htr, hd, hx, hy, _⟩ := hA.dt
    exact ⟨evs, htr, Or.inl ⟨he, hd, hy, Or.inl hx⟩⟩
  · obtain ⟨evs, htr, hd, hx, hy, _⟩ := hA.dt
    exact ⟨evs, htr, Or.inl ⟨he, hd, hy, Or.inr hx⟩⟩
  · obtain ⟨evs, htr, hd, hx, hy, hex⟩ := hA.dt
    have hrest : rest.length ≤ 1 ∧ (∀ p ∈ rest, p.cmd = .WRTE ∨ p.cmd = .CLSE) ∧
        ((∃ items, r = .ok items) → ∃ c, rest = [c] ∧ c.cmd = .CLSE) := by
      cases r with
      | ok items =>
        obtain ⟨_, c, rfl, hcc⟩ := hres
        exact ⟨by simp, by simp [hcc], fun _ => ⟨c, rfl, hcc⟩⟩
      | error e =>
        rcases hres with rfl | ⟨p, rfl, hp⟩
        · exact ⟨by simp, by simp, by simp⟩
        · exact ⟨by simp, by simpa using hp, by simp⟩
    refine ⟨evs, htr, Or.inr ⟨okay, wrtes, rest, ?_, hoc, ho1, hw, hrest.1, hrest.2.1, hrest.2.2, hy, ?_, ?_, ?_⟩⟩
    · rw [hd, rxs_cons_tx, rxs_cons_rx, rxs_served]; rfl
    · intro p hp
      exact Txn.accepts_true_ids hlid hrid (hacc p hp)
    · rw [hx, txs_cons_tx, txs_cons_rx, txs_served, replyMsgs_eq_streamReply hlid hrid]
    · rw [hex]
      have hs : served t = fun p => Xfer.rx p :: (streamReply (nextId w.localId) okay.arg0 p).map Xfer.tx := by
        funext p
        rw [← replyMsgs_eq_streamReply hlid hrid]
        unfold served replyOf replyMsgs
        split
        · rfl
        · split <;> rfl
      rw [hs]



/-! ### The wire-layer specs in `delivered` / `transmitted` form -/

/-- `_send`: any outcome — nothing delivered, exactly `m` transmitted -/
theorem sendRaw_dt {m : Msg} {t : Txn} {w w' : World} {r : Except Err Unit} (h : sendRaw m t w = (r, w')) :
    ∃ evs, w'.trace = evs ++ w.trace ∧ delivered evs = [] ∧ transmitted evs = [m] := by
  obtain ⟨evs, htr, hd, hx, _⟩ := (sendRaw_adds h).dt
  exact ⟨evs, htr, hd, hx⟩

/-- `_AdbIOManager.send` with the transport lock free: any outcome — nothing delivered, exactly `m` transmitted -/
theorem ioSend_dt {m : Msg} {t : Txn} {w w' : World} {r : Except Err Unit} (h : ioSend m t w = (r, w'))
    (hl : lockTransport ∉ w.locks) :
    ∃ evs, w'.trace = evs ++ w.trace ∧ delivered evs = [] ∧ transmitted evs = [m] := by
  obtain ⟨evs, htr, hd, hx, _⟩ := (ioSend_adds h hl).dt
  exact ⟨evs, htr, hd, hx⟩

/-- a quiet computation (`readPacket`, `storePut`, `storeGet`, `writeAll`, …): nothing delivered, nothing transmitted -/
theorem Qt.dt {α} {x : M α} (hx : Qt x) {w w' : World} {r : Except Err α} (h : x w = (r, w')) :
    ∃ evs, w'.trace = evs ++ w.trace ∧ delivered evs = [] ∧ transmitted evs = [] ∧ yieldedBy evs = [] := by
  obtain ⟨evs, htr, hd, hx, hy, _⟩ := (hx.adds h).dt
  exact ⟨evs, htr, hd, hx, hy⟩

/-- `drainLoop` / `readIter` (result `some p`, `none` or an exception): never transmits; `some p` ⇒ `p` is
    the one delivery, an expected command, with ids matching the transaction (`keyMatchesZ` /
    `keyMatches` on `(p.arg0, p.arg1)`); anything else ⇒ nothing delivered -/
theorem ReadPost.dt {ex : List Cmd} {t : Txn} {az : Bool} {w w' : World} {r : Except Err (Option Pkt)}
    (h : ReadPost ex t az w r w') :
    ∃ evs, w'.trace = evs ++ w.trace ∧ transmitted evs = [] ∧
      (∀ p, r = .ok (some p) → delivered evs = [p] ∧ p.cmd ∈ ex ∧ t.accepts az p = true) ∧
      ((∀ p, r ≠ .ok (some p)) → delivered evs = []) := by
  unfold ReadPost at h
  split at h
  · next p =>
    obtain ⟨evs, htr, hd, hx, _⟩ := h.1.dt
    refine ⟨evs, htr, hx, ?_, ?_⟩
    · intro q hq
      simp only [Except.ok.injEq, Option.some.injEq] at hq
      subst hq
      exact ⟨hd, h.2⟩
    · intro hne; exact absurd rfl (hne p)
  · next hne =>
    obtain ⟨evs, htr, hd, hx, _⟩ := h.dt
    exact ⟨evs, htr, hx, fun p hp => absurd hp (by intro hp; exact hne p hp), fun _ => hd⟩

/-- `readLoop` / `_AdbIOManager.read`: `.ok p` ⇒ `delivered = [p]`, expected command, matching ids;
    `.error` ⇒ nothing delivered; never transmits -/
theorem ReadPost1.dt {ex : List Cmd} {t : Txn} {az : Bool} {w w' : World} {r : Except Err Pkt}
    (h : ReadPost1 ex t az w r w') :
    ∃ evs, w'.trace = evs ++ w.trace ∧ transmitted evs = [] ∧
      (∀ p, r = .ok p → delivered evs = [p] ∧ p.cmd ∈ ex ∧ t.accepts az p = true) ∧
      ((∃ e, r = .error e) → delivered evs = []) := by
  cases r with
  | ok p =>
    obtain ⟨evs, htr, hd, hx, _⟩ := h.1.dt
    refine ⟨evs, htr, hx, ?_, by simp⟩
    intro q hq
    simp only [Except.ok.injEq] at hq
    subst hq
    exact ⟨hd, h.2⟩
  | error e =>
    have h' : Adds w w' [] [] := h
    obtain ⟨evs, htr, hd, hx, _⟩ := h'.dt
    exact ⟨evs, htr, hx, by simp, fun _ => hd⟩

/-- `_AdbIOManager.read` in `delivered` / `transmitted` form -/
theorem ioRead_dt {ex : List Cmd} {t : Txn} {az : Bool} {w w' : World} {r : Except Err Pkt}
    (h : ioRead ex t az w = (r, w')) :
    ∃ evs, w'.trace = evs ++ w.trace ∧ transmitted evs = [] ∧
      (∀ p, r = .ok p → delivered evs = [p] ∧ p.cmd ∈ ex ∧ t.accepts az p = true) ∧
      ((∃ e, r = .error e) → delivered evs = []) := (ioRead_dlv h).dt

/-- `_service` is `_streaming_command` followed by a pure join (and decode) of the items -/
theorem service_inv {svc cmd : Bytes} {tt rt total : Timeout} {dec : Bool} {w w' : World} {r : Except Err Val}
    (h : service svc cmd tt rt total dec w = (r, w')) :
    ∃ r0, streamingCommand svc cmd tt rt total w = (r0, w') ∧
      r = r0.map (fun items => if dec then Val.str (Utf8.decodeBS items.flatten) else Val.bytes items.flatten) := by
  unfold service at h
  rcases bind_any_inv h with ⟨e, he, rfl⟩ | ⟨items, w1, hs, hp⟩
  · exact ⟨.error e, he, rfl⟩
  · cases hp
    exact ⟨.ok items, hs, rfl⟩

/-- `_streaming_service` is `_streaming_command` (without overall timeout) with each item decoded on its own -/
theorem streamingService_inv {svc cmd : Bytes} {tt rt : Timeout} {dec : Bool} {w w' : World} {r : Except Err Val}
    (h : streamingService svc cmd tt rt dec w = (r, w')) :
    ∃ r0, streamingCommand svc cmd tt rt none w = (r0, w') ∧
      r = r0.map (fun items => Val.items (items.map fun d => if dec then Item.str (Utf8.decodeBS d) else Item.bytes d)) := by
  unfold streamingService at h
  rcases bind_any_inv h with ⟨e, he, rfl⟩ | ⟨items, w1, hs, hp⟩
  · exact ⟨.error e, he, rfl⟩
  · cases hp
    exact ⟨.ok items, hs, rfl⟩

theorem Except.map_eq_ok {ε α β} {f : α → β} {x : Except ε α} {b : β} (h : x.map f = .ok b) : ∃ a, x = .ok a ∧ b = f a := by
  cases x with
  | error e => simp [Except.map] at h
  | ok a => simp only [Except.map, Except.ok.injEq] at h; exact ⟨a, rfl, h.symm⟩

theorem Except.map_isError {ε α β} {f : α → β} {x : Except ε α} :
    (∃ e, x = .error e) ↔ (∃ e, x.map f = .error e) := by
  cases x <;> simp [Except.map]

theorem ok_of_toOption {α} {x : Except Err α} {v : α} (h : x.toOption = some v) : x = .ok v := by
  cases x <;> simp_all [Except.toOption]

theorem run_ok_of_toOption {α} {x : M α} {w : World} {v : α} (h : (x w).1.toOption = some v) :
    x w = (.ok v, (x w).2) := Prod.ext (ok_of_toOption h) rfl

/-- a connected, idle device whose peer will send the given packets (each in its own segment, not
    gated on anything the host sends) -/
def demoWorld (pkts : List Pkt) : World :=
  { cur := some { segs := pkts.map (fun p => ⟨0, p.encode⟩) }, available := true }

/-- a connected, idle device whose peer will answer the next OPEN with OKAY(77,1), then interleave a
    WRTE of a FOREIGN stream (5,9), then split "€!" over two WRTEs in the middle of the multi-byte
    character, then CLSE -/
def demoShellWorld : World :=
  demoWorld [⟨.OKAY, 77, 1, []⟩, ⟨.WRTE, 5, 9, [120]⟩, ⟨.WRTE, 77, 1, [0xE2, 0x82]⟩, ⟨.WRTE, 77, 1, [0xAC, 0x21]⟩,
    ⟨.CLSE, 77, 1, []⟩]

/-- the transaction of an open stream with local id 1 and remote id 77 -/
def demoTxn : Txn := ⟨some 1, some 77, some 10240, some 10240, none⟩

end Adb
