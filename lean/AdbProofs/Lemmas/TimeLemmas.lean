import AdbProofs.Lemmas.WireLemmas
import AdbProofs.Lemmas.FrameOps2
/-
  Helper lemmas for C11 (bounded waiting): how much virtual time (`World.now`, ticks) the transport calls
  and the wait loops built on them can consume, and that they never end in `hang` when both timeouts are
  numbers and the loop budget exceeds the read timeout.
-/
namespace Adb

/-- "conforming transport": every completed call on the open connection takes between 1 and `D` ticks -/
def World.CallCost (w : World) (D : Int) : Prop := ∀ c, w.cur = some c → 1 ≤ c.dt ∧ c.dt ≤ D

/-- errors of a byte-level wait (`_read_bytes_from_device`, `_write_all`) -/
def waitErrs : List Err := [.adbTimeout, .transportTimeout, .transportError]

/-- errors of a packet-level wait (`_read_packet_from_device`, `_read_expected_packet_from_device`) -/
def pktErrs : List Err :=
  [.adbTimeout, .transportTimeout, .transportError, .invalidCommand, .invalidChecksum, .pyValueError]

/-- errors of `_AdbIOManager.read`: the packet-level ones plus the packet store's own exceptions -/
def ioReadErrs : List Err := pktErrs ++ [.pyKeyError, .pyQueueEmpty]

theorem waitErrs_sub_pktErrs {e : Err} (h : e ∈ waitErrs) : e ∈ pktErrs := by
  simp only [waitErrs, List.mem_cons, List.not_mem_nil, or_false] at h
  rcases h with rfl | rfl | rfl <;> simp [pktErrs]

theorem hang_not_mem_waitErrs : Err.hang ∉ waitErrs := by simp [waitErrs]
theorem hang_not_mem_pktErrs : Err.hang ∉ pktErrs := by simp [pktErrs]
theorem hang_not_mem_ioReadErrs : Err.hang ∉ ioReadErrs := by simp [ioReadErrs, pktErrs]

/-! ### one transport call -/

theorem waitTimeout_some_run {α : Type} (τ : Int) (w : World) (hτ : 0 ≤ τ) :
    (waitTimeout (some τ) : M α) w = (.error .transportTimeout, { w with now := w.now + τ }) := by
  unfold waitTimeout
  by_cases h : τ > 0
  · simp [h]
  · have : τ = 0 := by omega
    subst this; simp

/-- one `bulk_read` with a numeric transport timeout: a normal return costs the connection's `dt`
    (between 1 and `D`), the transport's timeout error costs exactly `τ`, any other outcome is a transport
    error that costs nothing; `CallCost` is kept. -/
theorem bulkRead_time (n : Nat) (τ D : Int) (w : World) (r : Except Err Bytes) (w' : World)
    (h : bulkRead n (some τ) w = (r, w')) (hτ : 0 ≤ τ) (hc : w.CallCost D) :
    w'.CallCost D ∧
    (∀ bs, r = .ok bs → 1 ≤ w'.now - w.now ∧ w'.now - w.now ≤ D) ∧
    (∀ e, r = .error e → (e = .transportTimeout ∧ w'.now - w.now = τ) ∨ (e = .transportError ∧ w'.now = w.now)) := by
  unfold bulkRead at h
  split at h
  · simp only [Prod.mk.injEq] at h; obtain ⟨rfl, rfl⟩ := h; simp [hc]
  · next c hcur =>
    have hcd := hc c hcur
    split at h
    · simp only [Prod.mk.injEq] at h; obtain ⟨rfl, rfl⟩ := h; simp [hc]
    split at h
    · simp only [Prod.mk.injEq] at h; obtain ⟨rfl, rfl⟩ := h
      refine ⟨?_, by simp; omega, by simp⟩
      intro c' hc'; simp only at hc'; exact hc c' hc'
    split at h
    · next f hf =>
      split at h
      · rw [waitTimeout_some_run _ _ hτ] at h
        simp only [Prod.mk.injEq] at h; obtain ⟨rfl, rfl⟩ := h
        refine ⟨?_, by simp, by simp <;> omega⟩
        simp only [World.CallCost, Option.some.injEq, forall_eq']; exact hcd
      · simp only [Prod.mk.injEq] at h; obtain ⟨rfl, rfl⟩ := h
        refine ⟨?_, by simp, by simp <;> omega⟩
        simp only [World.CallCost, Option.some.injEq, forall_eq']; exact hcd
      · simp only [Prod.mk.injEq] at h; obtain ⟨rfl, rfl⟩ := h
        refine ⟨?_, by simp; omega, by simp⟩
        simp only [World.CallCost, Option.some.injEq, forall_eq']; exact hcd
    · cases hfl : c.fragLeft <;> cases hfr : c.frags <;> simp only [hfl, hfr] at h <;>
      ( split at h
        · simp only [Prod.mk.injEq] at h; obtain ⟨rfl, rfl⟩ := h
          refine ⟨?_, by simp; omega, by simp⟩
          simp only [World.CallCost, Option.some.injEq, forall_eq']; exact hcd
        split at h
        · rw [waitTimeout_some_run _ _ hτ] at h
          simp only [Prod.mk.injEq] at h; obtain ⟨rfl, rfl⟩ := h
          exact ⟨hc, by simp, by simp <;> omega⟩
        · simp only [Prod.mk.injEq] at h; obtain ⟨rfl, rfl⟩ := h
          refine ⟨?_, by simp; omega, by simp⟩
          simp only [World.CallCost, Option.some.injEq, forall_eq']; exact hcd )

/-- a blocking `bulk_read` (`transport_timeout_s = None`) hangs only when the connection is open, not reset,
    not at end-of-stream, and either a scripted "timeout" fault sits at the current offset or no fault is
    there, the current fragment is not an empty read and nothing is readable; the clock does not move. -/
theorem bulkRead_hang_inv (n : Nat) (w : World) (w' : World) (h : bulkRead n none w = (.error .hang, w')) :
    w'.now = w.now ∧ ∃ c, w.cur = some c ∧ c.isReset = false ∧ c.isEof = false ∧
      ((∃ f, nextFault true c.inOff c.faults = some f ∧ f.kind = .timeout) ∨
       (nextFault true c.inOff c.faults = none ∧ anyReadable c.outOff c.segs = false)) := by
  unfold bulkRead at h
  split at h
  · simp at h
  · next c hcur =>
    refine (fun (x : w'.now = w.now ∧ (c.isReset = false ∧ c.isEof = false ∧
      ((∃ f, nextFault true c.inOff c.faults = some f ∧ f.kind = .timeout) ∨
       (nextFault true c.inOff c.faults = none ∧ anyReadable c.outOff c.segs = false)))) => ⟨x.1, c, hcur, x.2⟩) ?_
    split at h
    · simp at h
    next hres =>
    split at h
    · simp at h
    next heof =>
    split at h
    · next f hf =>
      split at h
      · next hk =>
        simp only [waitTimeout, Prod.mk.injEq, true_and] at h
        subst h
        exact ⟨rfl, by simpa using hres, by simpa using heof, Or.inl ⟨f, hf, hk⟩⟩
      · simp at h
      · simp at h
    · next hnf =>
      cases hfl : c.fragLeft <;> cases hfr : c.frags <;> simp only [hfl, hfr] at h <;>
      ( split at h
        · simp at h
        split at h
        · next hnr =>
          simp only [waitTimeout, Prod.mk.injEq, true_and] at h
          subst h
          exact ⟨rfl, by simpa using hres, by simpa using heof, Or.inr ⟨hnf, by simpa using hnr⟩⟩
        · simp at h )

/-- one `bulk_write` with a numeric transport timeout: same three outcomes as `bulk_read` -/
theorem bulkWrite_time (data : Bytes) (τ D : Int) (w : World) (r : Except Err (Option Nat)) (w' : World)
    (h : bulkWrite data (some τ) w = (r, w')) (hτ : 0 ≤ τ) (hc : w.CallCost D) :
    w'.CallCost D ∧
    (∀ k, r = .ok k → 1 ≤ w'.now - w.now ∧ w'.now - w.now ≤ D) ∧
    (∀ e, r = .error e → (e = .transportTimeout ∧ w'.now - w.now = τ) ∨ (e = .transportError ∧ w'.now = w.now)) := by
  unfold bulkWrite at h
  split at h
  · simp only [Prod.mk.injEq] at h; obtain ⟨rfl, rfl⟩ := h; simp [hc]
  · next c hcur =>
    have hcd := hc c hcur
    split at h
    · simp only [Prod.mk.injEq] at h; obtain ⟨rfl, rfl⟩ := h; simp [hc]
    split at h
    · next f hf =>
      split at h
      · rw [waitTimeout_some_run _ _ hτ] at h
        simp only [Prod.mk.injEq] at h; obtain ⟨rfl, rfl⟩ := h
        refine ⟨?_, by simp, by simp <;> omega⟩
        simp only [World.CallCost, Option.some.injEq, forall_eq']; exact hcd
      · simp only [Prod.mk.injEq] at h; obtain ⟨rfl, rfl⟩ := h
        refine ⟨?_, by simp, by simp <;> omega⟩
        simp only [World.CallCost, Option.some.injEq, forall_eq']; exact hcd
    · split at h
      · simp only [Prod.mk.injEq] at h; obtain ⟨rfl, rfl⟩ := h
        refine ⟨?_, by simp; omega, by simp⟩
        simp only [World.CallCost, Option.some.injEq, forall_eq']; exact hcd
      · cases hfl : c.ofragLeft <;> cases hfr : c.ofrags <;> simp only [hfl, hfr] at h <;>
        ( simp only [Prod.mk.injEq] at h; obtain ⟨rfl, rfl⟩ := h
          refine ⟨?_, by simp; omega, by simp⟩
          simp only [World.CallCost, Option.some.injEq, forall_eq']; exact hcd )

/-! ### byte-level wait loops -/

/-- `readBytesLoop` entered at a loop head that lies within the read timeout (`now - start ≤ R`) with more
    fuel than ticks left until the deadline: it never runs out of fuel, ends at most `max D τ` after the
    deadline `start + R`, and fails only with the three wait errors. -/
theorem readBytesLoop_time (t : Txn) (start R τ D : Int) (fuel rem : Nat) (acc : Bytes) (w : World)
    (r : Except Err Bytes) (w' : World) (h : readBytesLoop t start fuel rem acc w = (r, w'))
    (hrt : t.rt = some R) (htt : t.tt = some τ) (hτ : 0 ≤ τ) (hc : w.CallCost D)
    (hnow : w.now - start ≤ R) (hfuel : R - (w.now - start) < fuel) :
    w'.CallCost D ∧ w.now ≤ w'.now ∧ w'.now - start ≤ R + max D τ ∧
    (∀ e, r = .error e → e ∈ waitErrs) ∧
    (rem ≠ 0 → ∀ bs, r = .ok bs → 1 ≤ w'.now - w.now) := by
  induction fuel generalizing rem acc w with
  | zero => exfalso; simp only [Int.natCast_zero] at hfuel; omega
  | succ fuel ih =>
    rw [readBytesLoop] at h
    split at h
    · next h0 =>
      simp only [pure_run, Prod.mk.injEq] at h
      obtain ⟨rfl, rfl⟩ := h
      exact ⟨hc, Int.le_refl _, by omega, by simp, fun hne => absurd h0 hne⟩
    · next hne =>
      rw [bind_run, emit_run] at h
      simp only at h
      have hnow0 : ({ w with trace := .req rem rem :: w.trace } : World).now = w.now := rfl
      have hc0 : ({ w with trace := .req rem rem :: w.trace } : World).CallCost D := hc
      generalize ({ w with trace := .req rem rem :: w.trace } : World) = w0 at h hnow0 hc0
      rw [bind_run, htt] at h
      rcases hb : bulkRead rem (some τ) w0 with ⟨r1, w1⟩
      obtain ⟨hc1, hok1, herr1⟩ := bulkRead_time _ _ _ _ _ _ hb hτ hc0
      rw [hb] at h
      cases r1 with
      | error e =>
        simp only [Prod.mk.injEq] at h; obtain ⟨rfl, rfl⟩ := h
        rcases herr1 e rfl with ⟨rfl, ht⟩ | ⟨rfl, ht⟩
        · exact ⟨hc1, by omega, by omega, by simp [waitErrs], by simp⟩
        · exact ⟨hc1, by omega, by omega, by simp [waitErrs], by simp⟩
      | ok temp =>
        obtain ⟨h1a, h1b⟩ := hok1 temp rfl
        simp only at h
        split at h
        · simp only [pure_run, Prod.mk.injEq] at h; obtain ⟨rfl, rfl⟩ := h
          exact ⟨hc1, by omega, by omega, by simp, fun _ _ _ => by omega⟩
        · rw [timeoutCheck_run] at h
          simp only [hrt] at h
          split at h
          · simp only [Prod.mk.injEq] at h; obtain ⟨rfl, rfl⟩ := h
            exact ⟨hc1, by omega, by omega, by simp [waitErrs], by simp⟩
          · next hpass =>
            obtain ⟨hc2, hm2, hb2, he2, -⟩ := ih _ _ _ h hc1 (by omega) (by omega)
            exact ⟨hc2, by omega, hb2, he2, fun _ _ _ => by omega⟩

theorem readBytes_time (n : Nat) (t : Txn) (R τ D : Int) (w : World) (r : Except Err Bytes) (w' : World)
    (h : readBytes n t w = (r, w')) (hrt : t.rt = some R) (htt : t.tt = some τ) (hR : 0 ≤ R) (hτ : 0 ≤ τ)
    (hc : w.CallCost D) (hf : R < w.fuel) :
    w'.CallCost D ∧ w.now ≤ w'.now ∧ w'.now - w.now ≤ R + max D τ ∧
    (∀ e, r = .error e → e ∈ waitErrs) ∧
    (n ≠ 0 → ∀ bs, r = .ok bs → 1 ≤ w'.now - w.now) ∧ w'.fuel = w.fuel := by
  have hfr := (Fr_readBytes n t w).fuel
  rw [h] at hfr
  simp only [readBytes, bind_run, now_run, M.get_run] at h
  obtain ⟨h1, h2, h3, h4, h5⟩ := readBytesLoop_time t w.now R τ D _ _ _ w r w' h hrt htt hτ hc (by omega) (by omega)
  exact ⟨h1, h2, by omega, h4, h5, hfr⟩

theorem writeAllLoop_time (t : Txn) (start R τ D : Int) (fuel : Nat) (data : Bytes) (w : World)
    (r : Except Err Unit) (w' : World) (h : writeAllLoop t start fuel data w = (r, w'))
    (hrt : t.rt = some R) (htt : t.tt = some τ) (hτ : 0 ≤ τ) (hc : w.CallCost D)
    (hnow : w.now - start ≤ R) (hfuel : R - (w.now - start) < fuel) :
    w'.CallCost D ∧ w.now ≤ w'.now ∧ w'.now - start ≤ R + max D τ ∧
    (∀ e, r = .error e → e ∈ waitErrs) ∧
    (r = .ok () → 1 ≤ w'.now - w.now) := by
  induction fuel generalizing data w with
  | zero => exfalso; simp only [Int.natCast_zero] at hfuel; omega
  | succ fuel ih =>
    rw [writeAllLoop, bind_run, htt] at h
    rcases hb : bulkWrite data (some τ) w with ⟨r1, w1⟩
    obtain ⟨hc1, hok1, herr1⟩ := bulkWrite_time _ _ _ _ _ _ hb hτ hc
    rw [hb] at h
    cases r1 with
    | error e =>
      simp only [Prod.mk.injEq] at h; obtain ⟨rfl, rfl⟩ := h
      rcases herr1 e rfl with ⟨rfl, ht⟩ | ⟨rfl, ht⟩
      · exact ⟨hc1, by omega, by omega, by simp [waitErrs], by simp⟩
      · exact ⟨hc1, by omega, by omega, by simp [waitErrs], by simp⟩
    | ok nw =>
      obtain ⟨h1a, h1b⟩ := hok1 nw rfl
      cases nw with
      | none =>
        simp only [pure_run, Prod.mk.injEq] at h; obtain ⟨rfl, rfl⟩ := h
        exact ⟨hc1, by omega, by omega, by simp, fun _ => by omega⟩
      | some k =>
        simp only at h
        split at h
        · simp only [pure_run, Prod.mk.injEq] at h; obtain ⟨rfl, rfl⟩ := h
          exact ⟨hc1, by omega, by omega, by simp, fun _ => by omega⟩
        · rw [timeoutCheck_run] at h
          simp only [hrt] at h
          split at h
          · simp only [Prod.mk.injEq] at h; obtain ⟨rfl, rfl⟩ := h
            exact ⟨hc1, by omega, by omega, by simp [waitErrs], by simp⟩
          · obtain ⟨hc2, hm2, hb2, he2, -⟩ := ih _ _ h hc1 (by omega) (by omega)
            exact ⟨hc2, by omega, hb2, he2, fun _ => by omega⟩

theorem writeAll_time (data : Bytes) (t : Txn) (R τ D : Int) (w : World) (r : Except Err Unit) (w' : World)
    (h : writeAll data t w = (r, w')) (hrt : t.rt = some R) (htt : t.tt = some τ) (hR : 0 ≤ R) (hτ : 0 ≤ τ)
    (hc : w.CallCost D) (hf : R < w.fuel) :
    w'.CallCost D ∧ w.now ≤ w'.now ∧ w'.now - w.now ≤ R + max D τ ∧
    (∀ e, r = .error e → e ∈ waitErrs) ∧ (r = .ok () → 1 ≤ w'.now - w.now) ∧ w'.fuel = w.fuel := by
  have hfr := (Fr_writeAll data t w).fuel
  rw [h] at hfr
  simp only [writeAll, bind_run, now_run, M.get_run] at h
  obtain ⟨h1, h2, h3, h4, h5⟩ := writeAllLoop_time t w.now R τ D _ _ w r w' h hrt htt hτ hc (by omega) (by omega)
  exact ⟨h1, h2, by omega, h4, h5, hfr⟩

/-! ### packet-level waits -/

/-- `_read_packet_from_device`: two byte-level waits; a delivered packet cost at least one tick -/
theorem readPacket_time (t : Txn) (R τ D : Int) (w : World) (r : Except Err Pkt) (w' : World)
    (h : readPacket t w = (r, w')) (hrt : t.rt = some R) (htt : t.tt = some τ) (hR : 0 ≤ R) (hτ : 0 ≤ τ)
    (hc : w.CallCost D) (hf : R < w.fuel) :
    w'.CallCost D ∧ w.now ≤ w'.now ∧ w'.now - w.now ≤ 2 * (R + max D τ) ∧
    (∀ e, r = .error e → e ∈ pktErrs) ∧ (∀ p, r = .ok p → 1 ≤ w'.now - w.now) ∧ w'.fuel = w.fuel := by
  rw [readPacket, bind_run] at h
  rcases h1 : readBytes Generated.MESSAGE_SIZE t w with ⟨r1, w1⟩
  obtain ⟨hc1, hm1, hb1, he1, hp1, hf1⟩ := readBytes_time _ _ _ _ _ _ _ _ h1 hrt htt hR hτ hc hf
  rw [h1] at h
  cases r1 with
  | error e =>
    simp only [Prod.mk.injEq] at h; obtain ⟨rfl, rfl⟩ := h
    exact ⟨hc1, hm1, by omega, fun e' he => by simp only [Except.error.injEq] at he; subst he; exact waitErrs_sub_pktErrs (he1 _ rfl), by simp, hf1⟩
  | ok msg =>
    have hp1' := hp1 (by decide) msg rfl
    simp only at h
    rcases hu : unpack msg with _ | hd
    · simp only [hu, M.throw_run, Prod.mk.injEq] at h; obtain ⟨rfl, rfl⟩ := h
      exact ⟨hc1, hm1, by omega, by simp [pktErrs], by simp, hf1⟩
    · simp only [hu] at h
      rcases hcmd : Cmd.ofWire? hd.cmd with _ | c
      · simp only [hcmd, M.throw_run, Prod.mk.injEq] at h; obtain ⟨rfl, rfl⟩ := h
        exact ⟨hc1, hm1, by omega, by simp [pktErrs], by simp, hf1⟩
      · simp only [hcmd] at h
        split at h
        · simp only [pure_run, Prod.mk.injEq] at h; obtain ⟨rfl, rfl⟩ := h
          exact ⟨hc1, hm1, by omega, by simp, fun _ _ => hp1', hf1⟩
        · rw [bind_run] at h
          rcases h2 : readBytes hd.len t w1 with ⟨r2, w2⟩
          obtain ⟨hc2, hm2, hb2, he2, -, hf2⟩ :=
            readBytes_time _ _ _ _ _ _ _ _ h2 hrt htt hR hτ hc1 (by rw [hf1]; exact hf)
          rw [h2] at h
          cases r2 with
          | error e =>
            simp only [Prod.mk.injEq] at h; obtain ⟨rfl, rfl⟩ := h
            exact ⟨hc2, by omega, by omega, fun e' he => by simp only [Except.error.injEq] at he; subst he; exact waitErrs_sub_pktErrs (he2 _ rfl), by simp, hf2.trans hf1⟩
          | ok data =>
            simp only at h
            by_cases hck : checksum data = hd.sum
            · simp [hck] at h
              obtain ⟨rfl, rfl⟩ := h
              exact ⟨hc2, by omega, by omega, by simp, fun _ _ => by omega, hf2.trans hf1⟩
            · simp [bind_run, hck] at h
              obtain ⟨rfl, rfl⟩ := h
              exact ⟨hc2, by omega, by omega, by simp [pktErrs], by simp, hf2.trans hf1⟩

/-- `expectLoop` entered at a loop head within the read timeout: the last packet read starts no later than
    the deadline `start + R` -/
theorem expectLoop_time (ex : List Cmd) (t : Txn) (start R τ D : Int) (fuel : Nat) (w : World)
    (r : Except Err Pkt) (w' : World) (h : expectLoop ex t start fuel w = (r, w'))
    (hrt : t.rt = some R) (htt : t.tt = some τ) (hR : 0 ≤ R) (hτ : 0 ≤ τ) (hc : w.CallCost D)
    (hwf : R < w.fuel) (hnow : w.now - start ≤ R) (hfuel : R - (w.now - start) < fuel) :
    w'.CallCost D ∧ w.now ≤ w'.now ∧ w'.now - start ≤ R + 2 * (R + max D τ) ∧
    (∀ e, r = .error e → e ∈ pktErrs) ∧ (∀ p, r = .ok p → ex.contains p.cmd = true) := by
  induction fuel generalizing w with
  | zero => exfalso; simp only [Int.natCast_zero] at hfuel; omega
  | succ fuel ih =>
    rw [expectLoop, bind_run] at h
    rcases h1 : readPacket t w with ⟨r1, w1⟩
    obtain ⟨hc1, hm1, hb1, he1, hp1, hf1⟩ := readPacket_time _ _ _ _ _ _ _ h1 hrt htt hR hτ hc hwf
    rw [h1] at h
    cases r1 with
    | error e =>
      simp only [Prod.mk.injEq] at h; obtain ⟨rfl, rfl⟩ := h
      exact ⟨hc1, hm1, by omega, he1, by simp⟩
    | ok p =>
      have hp1' := hp1 p rfl
      simp only at h
      split at h
      · next hex =>
        simp only [bind_run, emit_run, pure_run, Prod.mk.injEq] at h; obtain ⟨rfl, rfl⟩ := h
        refine ⟨hc1, hm1, ?_, by simp, ?_⟩
        · show w1.now - start ≤ _; omega
        · intro p' hp'; simp only [Except.ok.injEq] at hp'; subst hp'; exact hex
      · rw [bind_run, emit_run] at h
        simp only at h
        have hnow0 : ({ w1 with trace := .skip p :: w1.trace } : World).now = w1.now := rfl
        have hc0 : ({ w1 with trace := .skip p :: w1.trace } : World).CallCost D := hc1
        have hf0 : ({ w1 with trace := .skip p :: w1.trace } : World).fuel = w1.fuel := rfl
        generalize ({ w1 with trace := .skip p :: w1.trace } : World) = w0 at h hnow0 hc0 hf0
        rw [timeoutCheck_run] at h
        simp only [hrt] at h
        split at h
        · simp only [Prod.mk.injEq] at h; obtain ⟨rfl, rfl⟩ := h
          exact ⟨hc0, by omega, by omega, by simp [pktErrs], by simp⟩
        · obtain ⟨hc2, hm2, hb2, he2, hp2⟩ := ih _ h hc0 (by omega) (by omega) (by omega)
          exact ⟨hc2, by omega, hb2, he2, hp2⟩

theorem expectPacket_time (ex : List Cmd) (t : Txn) (R τ D : Int) (w : World) (r : Except Err Pkt) (w' : World)
    (h : expectPacket ex t w = (r, w')) (hrt : t.rt = some R) (htt : t.tt = some τ) (hR : 0 ≤ R) (hτ : 0 ≤ τ)
    (hc : w.CallCost D) (hf : R < w.fuel) :
    w'.CallCost D ∧ w.now ≤ w'.now ∧ w'.now - w.now ≤ R + 2 * (R + max D τ) ∧
    (∀ e, r = .error e → e ∈ pktErrs) ∧ (∀ p, r = .ok p → ex.contains p.cmd = true) ∧ w'.fuel = w.fuel := by
  have hfr := (Fr_expectPacket ex t w).fuel
  rw [h] at hfr
  simp only [expectPacket, bind_run, now_run, M.get_run] at h
  obtain ⟨h1, h2, h3, h4, h5⟩ :=
    expectLoop_time ex t w.now R τ D _ w r w' h hrt htt hR hτ hc hf (by omega) (by omega)
  exact ⟨h1, h2, by omega, h4, h5, hfr⟩

/-! ### the packet store as a termination measure for the drain loop -/

/-- sum of `f` over the values of an association list -/
def assocSum {β : Type} (f : β → Nat) (l : List (Nat × β)) : Nat := (l.map (fun p => f p.2)).sum

/-- number of packets parked in the store (all queues, findable or not) -/
def parkedCount (s : Store) : Nat := assocSum (assocSum List.length) s

theorem assocSum_aset {β : Type} (f : β → Nat) (k : Nat) (v : β) (l : List (Nat × β)) :
    assocSum f (aset k v l) + (match alookup k l with | some v0 => f v0 | none => 0) = assocSum f l + f v := by
  induction l with
  | nil => simp [aset, alookup, assocSum]
  | cons p rest ih =>
    obtain ⟨k', v'⟩ := p
    by_cases hk : k' = k
    · simp [aset, alookup, assocSum, hk]; omega
    · simp only [aset, alookup, hk, if_false]
      simp only [assocSum, List.map_cons, List.sum_cons] at ih ⊢
      omega

theorem assocSum_adel_le {β : Type} (f : β → Nat) (k : Nat) (l : List (Nat × β)) : assocSum f (adel k l) ≤ assocSum f l := by
  induction l with
  | nil => simp [adel]
  | cons p rest ih =>
    obtain ⟨k', v'⟩ := p
    by_cases hk : k' = k
    · simp [adel, assocSum, hk]
    · simp only [adel, hk, if_false]
      simp only [assocSum, List.map_cons, List.sum_cons] at ih ⊢
      omega

theorem assocSum_aset_none {β : Type} (f : β → Nat) {k : Nat} (v : β) {l : List (Nat × β)} (h : alookup k l = none) :
    assocSum f (aset k v l) = assocSum f l + f v := by
  have := assocSum_aset f k v l
  rw [h] at this
  simpa using this

theorem assocSum_aset_some {β : Type} (f : β → Nat) {k : Nat} (v : β) {l : List (Nat × β)} {v0 : β}
    (h : alookup k l = some v0) : assocSum f (aset k v l) + f v0 = assocSum f l + f v := by
  have := assocSum_aset f k v l
  rw [h] at this
  simpa using this

theorem assocSum_single {β : Type} (f : β → Nat) (k : Nat) (v : β) : assocSum f [(k, v)] = f v := by simp [assocSum]

theorem parkedCount_clear_le (s : Store) (a0 a1 : Nat) : parkedCount (s.clear a0 a1) ≤ parkedCount s := by
  cases h1 : alookup a1 s with
  | none => simp [Store.clear, h1]
  | some inner =>
    cases h0 : alookup a0 inner with
    | none => simp [Store.clear, h1, h0]
    | some q =>
      simp only [Store.clear, h1, h0]
      split
      · exact assocSum_adel_le _ _ _
      · have := assocSum_aset_some (assocSum List.length) (adel a0 inner) h1
        have h2 := assocSum_adel_le List.length a0 inner
        simp only [parkedCount] at this ⊢
        omega

theorem parkedCount_put_le (s : Store) (a0 a1 : Nat) (cmd : Cmd) (d : Bytes) :
    parkedCount (s.put a0 a1 cmd d) ≤ parkedCount s + 1 := by
  cases h1 : alookup a1 s with
  | none =>
    simp only [Store.put, h1]
    split
    · omega
    · have := assocSum_aset_none (assocSum List.length) [(a0, [(cmd, d)])] h1
      simp only [parkedCount]
      rw [this, assocSum_single]
      simp
  | some inner =>
    cases h0 : alookup a0 inner with
    | none =>
      simp only [Store.put, h1, h0]
      split
      · omega
      · have h2 := assocSum_aset_none List.length [(cmd, d)] h0
        have := assocSum_aset_some (assocSum List.length) (aset a0 [(cmd, d)] inner) h1
        simp only [parkedCount] at this ⊢
        simp only [List.length_singleton] at h2
        omega
    | some q =>
      simp only [Store.put, h1, h0]
      have h2 := assocSum_aset_some List.length (q ++ [(cmd, d)]) h0
      have := assocSum_aset_some (assocSum List.length) (aset a0 (q ++ [(cmd, d)]) inner) h1
      simp only [parkedCount] at this ⊢
      simp only [List.length_append, List.length_singleton] at h2
      omega

/-- a successful `get` under a concrete pair removes one parked packet (and `clear` removes more);
    a failing one raises KeyError or queue.Empty, never the wildcard TypeError -/
theorem parkedCount_get (s : Store) (x y : Nat) :
    match s.get (some x) (some y) with
    | .ok (_, s') => parkedCount s' + 1 ≤ parkedCount s
    | .error e => e = .keyError ∨ e = .queueEmpty := by
  cases h1 : alookup y s with
  | none => simp [Store.get, h1]
  | some inner =>
    cases h0 : alookup x inner with
    | none => simp [Store.get, h1, h0]
    | some q =>
      cases q with
      | nil => simp [Store.get, h1, h0]
      | cons it q =>
        obtain ⟨cmd, data⟩ := it
        simp only [Store.get, h1, h0]
        have h2 := assocSum_aset_some List.length q h0
        have h3 := assocSum_aset_some (assocSum List.length) (aset x q inner) h1
        simp only [List.length_cons] at h2
        have h4 : parkedCount (aset y (aset x q inner) s) + 1 = parkedCount s := by
          simp only [parkedCount]; omega
        split
        · have := parkedCount_clear_le (aset y (aset x q inner) s) x y
          omega
        · omega

/-! ### `_AdbIOManager.read` -/

theorem storeGet_spec (k : Nat × Nat) (w : World) (r : Except Err Pkt) (w1 : World) (h : storeGet k w = (r, w1)) :
    w1.now = w.now ∧ w1.cur = w.cur ∧
    (∀ p, r = .ok p → parkedCount w1.store + 1 ≤ parkedCount w.store) ∧
    (∀ e, r = .error e → (e = .pyKeyError ∨ e = .pyQueueEmpty) ∧ w1.store = w.store) := by
  have hg := parkedCount_get w.store k.1 k.2
  unfold storeGet at h
  cases hget : w.store.get (some k.1) (some k.2) with
  | error e =>
    simp only [hget, Prod.mk.injEq] at h hg
    obtain ⟨rfl, rfl⟩ := h
    rcases hg with rfl | rfl <;> simp [storeErr]
  | ok v =>
    obtain ⟨⟨c, a0, a1, d⟩, s'⟩ := v
    simp only [hget, Prod.mk.injEq] at h hg
    obtain ⟨rfl, rfl⟩ := h
    exact ⟨rfl, rfl, fun _ _ => hg, by simp⟩

/-- the drain loop takes no time, leaves the connection alone, only shrinks the store, and with more fuel
    than parked packets it does not run out of fuel -/
theorem drainLoop_time (ex : List Cmd) (t : Txn) (az : Bool) (fuel : Nat) (w : World)
    (r : Except Err (Option Pkt)) (w' : World) (h : drainLoop ex t az fuel w = (r, w'))
    (hf : parkedCount w.store < fuel) :
    w'.now = w.now ∧ w'.cur = w.cur ∧ parkedCount w'.store ≤ parkedCount w.store ∧
    (∀ e, r = .error e → e = .pyKeyError ∨ e = .pyQueueEmpty) ∧
    (∀ p, r = .ok (some p) → ex.contains p.cmd = true) := by
  induction fuel generalizing w with
  | zero => omega
  | succ fuel ih =>
    rw [drainLoop] at h
    simp only [bind_run, storeFind] at h
    generalize (if az then w.store.findAllowZeros t.remoteId t.localId else w.store.find t.remoteId t.localId) = k at h
    cases k with
    | none =>
      simp only [pure_run, Prod.mk.injEq] at h; obtain ⟨rfl, rfl⟩ := h
      simp
    | some k =>
      simp only at h
      rcases hg : storeGet k w with ⟨r1, w1⟩
      obtain ⟨g1, g2, g3, g4⟩ := storeGet_spec _ _ _ _ hg
      rw [bind_run, hg] at h
      cases r1 with
      | error e =>
        simp only [Prod.mk.injEq] at h; obtain ⟨rfl, rfl⟩ := h
        refine ⟨g1, g2, by rw [(g4 e rfl).2]; omega, ?_, by simp⟩
        intro e' he'; simp only [Except.error.injEq] at he'; subst he'; exact (g4 _ rfl).1
      | ok p =>
        have g3' := g3 p rfl
        simp only at h
        split at h
        · next hex =>
          simp only [bind_run, emit_run, pure_run, Prod.mk.injEq] at h; obtain ⟨rfl, rfl⟩ := h
          refine ⟨g1, g2, by simp only; omega, by simp, ?_⟩
          intro p' hp
          simp only [Except.ok.injEq, Option.some.injEq] at hp
          subst hp; exact hex
        · simp only [bind_run, emit_run] at h
          obtain ⟨h1, h2, h3, h4, h5⟩ := ih _ h (by simp only; omega)
          exact ⟨h1.trans g1, h2.trans g2, by simp only at h3; omega, h4, h5⟩

theorem World.CallCost.of_cur_eq {w w' : World} {D : Int} (hc : w.CallCost D) (h : w'.cur = w.cur) : w'.CallCost D :=
  fun c hc' => hc c (by rw [← h]; exact hc')

/-- a step that takes no time, leaves the connection, the fuel and the lock set alone and parks at most
    `k` more packets -/
structure TQuiet (w w' : World) (k : Nat) : Prop where
  now : w'.now = w.now
  cur : w'.cur = w.cur
  fuel : w'.fuel = w.fuel
  locks : w'.locks = w.locks
  size : parkedCount w'.store ≤ parkedCount w.store + k

theorem TQuiet.trans {a b c : World} {j k : Nat} (h1 : TQuiet a b j) (h2 : TQuiet b c k) : TQuiet a c (j + k) :=
  ⟨h2.now.trans h1.now, h2.cur.trans h1.cur, h2.fuel.trans h1.fuel, h2.locks.trans h1.locks,
    by have := h1.size; have := h2.size; omega⟩

theorem TQuiet.mono {a b : World} {j k : Nat} (h : TQuiet a b j) (hjk : j ≤ k) : TQuiet a b k :=
  ⟨h.now, h.cur, h.fuel, h.locks, by have := h.size; omega⟩

theorem TQuiet.emit {a b : World} {k : Nat} (h : TQuiet a b k) (e : TEv) :
    TQuiet a { b with trace := e :: b.trace } k := ⟨h.now, h.cur, h.fuel, h.locks, h.size⟩

theorem TQuiet.refl (w : World) : TQuiet w w 0 := ⟨rfl, rfl, rfl, rfl, by simp⟩

theorem withLock_free {α} (l : Nat) (body : M α) (w : World) (r : Except Err α) (w' : World)
    (h : withLock l body w = (r, w')) (hl : l ∉ w.locks) :
    ∃ w1, body { w with locks := l :: w.locks } = (r, w1) ∧ w' = { w1 with locks := w1.locks.erase l } := by
  rw [withLock_run] at h
  simp only [hl, if_false, Prod.mk.injEq] at h
  obtain ⟨rfl, rfl⟩ := h
  exact ⟨_, rfl, rfl⟩

theorem lockedDrain_time (ex : List Cmd) (t : Txn) (az : Bool) (fuel : Nat) (w : World)
    (r : Except Err (Option Pkt)) (w' : World) (h : withLock lockStore (drainLoop ex t az fuel) w = (r, w'))
    (hl : lockStore ∉ w.locks) (hf : parkedCount w.store < fuel) :
    TQuiet w w' 0 ∧ (∀ e, r = .error e → e = .pyKeyError ∨ e = .pyQueueEmpty) ∧
    (∀ p, r = .ok (some p) → ex.contains p.cmd = true) := by
  have hfr := Fr_withLock lockStore (Fr_drainLoop ex t az fuel) w
  rw [h] at hfr
  obtain ⟨w1, h1, rfl⟩ := withLock_free _ _ _ _ _ h hl
  obtain ⟨d1, d2, d3, d4, d5⟩ := drainLoop_time _ _ _ _ _ _ _ h1 hf
  exact ⟨⟨d1, d2, hfr.fuel, hfr.locks, d3⟩, d4, d5⟩

theorem lockedPut_quiet (p : Pkt) (w : World) (r : Except Err Unit) (w' : World)
    (h : withLock lockStore (storePut p) w = (r, w')) (hl : lockStore ∉ w.locks) :
    r = .ok () ∧ TQuiet w w' 1 := by
  obtain ⟨w1, h1, rfl⟩ := withLock_free _ _ _ _ _ h hl
  simp only [storePut, Prod.mk.injEq] at h1
  obtain ⟨rfl, rfl⟩ := h1
  exact ⟨rfl, rfl, rfl, rfl, by simp, parkedCount_put_le _ _ _ _ _⟩

theorem lockedClear_quiet (a0 a1 : Nat) (w : World) (r : Except Err Unit) (w' : World)
    (h : withLock lockStore (storeClear a0 a1) w = (r, w')) (hl : lockStore ∉ w.locks) :
    r = .ok () ∧ TQuiet w w' 0 := by
  obtain ⟨w1, h1, rfl⟩ := withLock_free _ _ _ _ _ h hl
  simp only [storeClear, M.modify_run, Prod.mk.injEq] at h1
  obtain ⟨rfl, rfl⟩ := h1
  exact ⟨rfl, rfl, rfl, rfl, by simp, parkedCount_clear_le _ _ _⟩

/-- what `readIter` does with a packet just read from the device -/
def readIterRest (expected : List Cmd) (t : Txn) (allowZeros : Bool) (p : Pkt) : M (Option Pkt) :=
  if !t.argsMatch p.arg0 p.arg1 allowZeros then do
    withLock lockStore (storePut p)
    pure none
  else do
    if p.cmd = Cmd.CLSE then withLock lockStore (storeClear p.arg0 p.arg1)
    if expected.contains p.cmd then do emit (.deliver p); pure (some p)
    else do emit (.drop p); pure none

/-- the body of `readIter` (what runs under the transport lock) -/
def readIterBody (expected : List Cmd) (t : Txn) (allowZeros : Bool) : M (Option Pkt) := do
  let w ← M.get
  match (← withLock lockStore (drainLoop expected t allowZeros w.fuel)) with
  | some p => pure (some p)
  | none =>
    let p ← readPacket t
    readIterRest expected t allowZeros p

theorem readIter_eq_body (ex : List Cmd) (t : Txn) (az : Bool) :
    readIter ex t az = withLock lockTransport (readIterBody ex t az) := rfl

theorem readIterRest_quiet (ex : List Cmd) (t : Txn) (az : Bool) (p : Pkt) (w : World)
    (r : Except Err (Option Pkt)) (w' : World) (h : readIterRest ex t az p w = (r, w'))
    (hl : lockStore ∉ w.locks) :
    TQuiet w w' 1 ∧ (∃ o, r = .ok o) ∧ (∀ q, r = .ok (some q) → ex.contains q.cmd = true) := by
  unfold readIterRest at h
  split at h
  · rw [bind_run] at h
    rcases hp : withLock lockStore (storePut p) w with ⟨r1, w1⟩
    obtain ⟨rfl, q⟩ := lockedPut_quiet _ _ _ _ hp hl
    rw [hp] at h
    simp only [pure_run, Prod.mk.injEq] at h
    obtain ⟨rfl, rfl⟩ := h
    exact ⟨q, ⟨_, rfl⟩, by simp⟩
  · simp only at h
    have key : ∀ w1, TQuiet w w1 0 →
        (if ex.contains p.cmd = true then (do emit (.deliver p); pure (some p) : M (Option Pkt))
          else do emit (.drop p); pure none) w1 = (r, w') →
        TQuiet w w' 1 ∧ (∃ o, r = .ok o) ∧ (∀ q, r = .ok (some q) → ex.contains q.cmd = true) := by
      intro w1 q1 h1
      split at h1
      · next hex =>
        simp only [bind_run, emit_run, pure_run, Prod.mk.injEq] at h1
        obtain ⟨rfl, rfl⟩ := h1
        refine ⟨(q1.emit _).mono (by omega), ⟨_, rfl⟩, ?_⟩
        intro q hq
        simp only [Except.ok.injEq, Option.some.injEq] at hq
        subst hq; exact hex
      · simp only [bind_run, emit_run, pure_run, Prod.mk.injEq] at h1
        obtain ⟨rfl, rfl⟩ := h1
        exact ⟨(q1.emit _).mono (by omega), ⟨_, rfl⟩, by simp⟩
    by_cases hcl : p.cmd = Cmd.CLSE
    · simp only [hcl, if_true] at h key
      rw [bind_run] at h
      rcases hp : withLock lockStore (storeClear p.arg0 p.arg1) w with ⟨r1, w1⟩
      obtain ⟨rfl, q⟩ := lockedClear_quiet _ _ _ _ _ hp hl
      rw [hp] at h
      exact key w1 q h
    · simp only [hcl, if_false] at h
      exact key w (TQuiet.refl w) h

theorem pktErrs_sub_ioReadErrs {e : Err} (h : e ∈ pktErrs) : e ∈ ioReadErrs := by
  simp only [ioReadErrs, List.mem_append]; exact Or.inl h

theorem storeErrs_sub_ioReadErrs {e : Err} (h : e = .pyKeyError ∨ e = .pyQueueEmpty) : e ∈ ioReadErrs := by
  rcases h with rfl | rfl <;> simp [ioReadErrs]

/-- one iteration body of `_AdbIOManager.read`'s loop: drain (no time), then at most one packet read -/
theorem readIterBody_time (ex : List Cmd) (t : Txn) (az : Bool) (R τ D : Int) (w : World)
    (r : Except Err (Option Pkt)) (w' : World) (h : readIterBody ex t az w = (r, w'))
    (hrt : t.rt = some R) (htt : t.tt = some τ) (hR : 0 ≤ R) (hτ : 0 ≤ τ) (hc : w.CallCost D)
    (hl : lockStore ∉ w.locks) (hRf : R < w.fuel) (hs : parkedCount w.store < w.fuel) :
    w'.CallCost D ∧ w.now ≤ w'.now ∧ w'.now - w.now ≤ 2 * (R + max D τ) ∧ w'.fuel = w.fuel ∧
    (parkedCount w'.store : Int) ≤ parkedCount w.store + (w'.now - w.now) ∧
    (∀ e, r = .error e → e ∈ ioReadErrs) ∧ (r = .ok none → 1 ≤ w'.now - w.now) ∧
    (∀ p, r = .ok (some p) → ex.contains p.cmd = true) := by
  rw [readIterBody, bind_run, M.get_run] at h
  simp only at h
  rw [bind_run] at h
  rcases hd : withLock lockStore (drainLoop ex t az w.fuel) w with ⟨r1, w1⟩
  obtain ⟨q1, e1, p1⟩ := lockedDrain_time _ _ _ _ _ _ _ hd hl hs
  have hc1 : w1.CallCost D := hc.of_cur_eq q1.cur
  have hsz1 := q1.size
  have hn1 := q1.now
  rw [hd] at h
  cases r1 with
  | error e =>
    simp only [Prod.mk.injEq] at h; obtain ⟨rfl, rfl⟩ := h
    refine ⟨hc1, by omega, by omega, q1.fuel, by omega, ?_, by simp, by simp⟩
    intro e' he'; simp only [Except.error.injEq] at he'; subst he'
    exact storeErrs_sub_ioReadErrs (e1 _ rfl)
  | ok o =>
    cases o with
    | some p =>
      simp only [pure_run, Prod.mk.injEq] at h; obtain ⟨rfl, rfl⟩ := h
      refine ⟨hc1, by omega, by omega, q1.fuel, by omega, by simp, by simp, ?_⟩
      intro p' hp'; simp only [Except.ok.injEq, Option.some.injEq] at hp'; subst hp'
      exact p1 _ rfl
    | none =>
      simp only at h
      rw [bind_run] at h
      rcases h2 : readPacket t w1 with ⟨r2, w2⟩
      obtain ⟨hc2, hm2, hb2, he2, hp2, hf2⟩ :=
        readPacket_time _ _ _ _ _ _ _ h2 hrt htt hR hτ hc1 (by rw [q1.fuel]; exact hRf)
      obtain ⟨sd, -, -⟩ := readPacket_frame _ _ _ _ h2
      have hst2 : w2.store = w1.store := sd.1
      have hlk2 : w2.locks = w1.locks := sd.2.2.2.2.2.2.1
      rw [h2] at h
      cases r2 with
      | error e =>
        simp only [Prod.mk.injEq] at h; obtain ⟨rfl, rfl⟩ := h
        refine ⟨hc2, by omega, by omega, hf2.trans q1.fuel, by rw [hst2]; omega, ?_, by simp, by simp⟩
        intro e' he'; simp only [Except.error.injEq] at he'; subst he'
        exact pktErrs_sub_ioReadErrs (he2 _ rfl)
      | ok p =>
        have hp2' := hp2 p rfl
        simp only at h
        obtain ⟨q3, ⟨o, rfl⟩, p3⟩ := readIterRest_quiet _ _ _ _ _ _ _ h (by rw [hlk2, q1.locks]; exact hl)
        have hn3 := q3.now
        have hsz3 := q3.size
        rw [hst2] at hsz3
        exact ⟨hc2.of_cur_eq q3.cur, by omega, by omega, (q3.fuel.trans hf2).trans q1.fuel, by omega, by simp,
          fun _ => by omega, p3⟩

theorem readIter_time (ex : List Cmd) (t : Txn) (az : Bool) (R τ D : Int) (w : World)
    (r : Except Err (Option Pkt)) (w' : World) (h : readIter ex t az w = (r, w'))
    (hrt : t.rt = some R) (htt : t.tt = some τ) (hR : 0 ≤ R) (hτ : 0 ≤ τ) (hc : w.CallCost D)
    (hlk : w.locks = []) (hRf : R < w.fuel) (hs : parkedCount w.store < w.fuel) :
    w'.CallCost D ∧ w.now ≤ w'.now ∧ w'.now - w.now ≤ 2 * (R + max D τ) ∧ w'.fuel = w.fuel ∧ w'.locks = [] ∧
    (parkedCount w'.store : Int) ≤ parkedCount w.store + (w'.now - w.now) ∧
    (∀ e, r = .error e → e ∈ ioReadErrs) ∧ (r = .ok none → 1 ≤ w'.now - w.now) ∧
    (∀ p, r = .ok (some p) → ex.contains p.cmd = true) := by
  have hfr := Fr_readIter ex t az w
  rw [h] at hfr
  rw [readIter_eq_body] at h
  obtain ⟨w1, h1, rfl⟩ := withLock_free _ _ _ _ _ h (by simp [hlk])
  obtain ⟨a1, a2, a3, a4, a5, a6, a7, a8⟩ := readIterBody_time ex t az R τ D _ r w1 h1 hrt htt hR hτ hc
    (by simp [hlk, lockStore, lockTransport]) hRf hs
  exact ⟨a1, a2, a3, a4, by rw [← hlk]; exact hfr.locks, a5, a6, a7, a8⟩

/-- `readLoop` entered at a loop head within the read timeout, with the loop fuel exceeding the ticks left
    and the world fuel exceeding parked packets + ticks left (each further iteration parks at most one
    packet and costs at least one tick) -/
theorem readLoop_time (ex : List Cmd) (t : Txn) (az : Bool) (start R τ D : Int) (fuel : Nat) (w : World)
    (r : Except Err Pkt) (w' : World) (h : readLoop ex t az start fuel w = (r, w'))
    (hrt : t.rt = some R) (htt : t.tt = some τ) (hR : 0 ≤ R) (hτ : 0 ≤ τ) (hc : w.CallCost D)
    (hlk : w.locks = []) (hRf : R < w.fuel) (hnow : w.now - start ≤ R) (hfuel : R - (w.now - start) < fuel)
    (hs : parkedCount w.store + (R - (w.now - start)) < w.fuel) :
    w'.CallCost D ∧ w.now ≤ w'.now ∧ w'.now - start ≤ R + 2 * (R + max D τ) ∧
    (∀ e, r = .error e → e ∈ ioReadErrs) ∧ (∀ p, r = .ok p → ex.contains p.cmd = true) ∧
    (parkedCount w'.store : Int) ≤ parkedCount w.store + (w'.now - w.now) := by
  induction fuel generalizing w with
  | zero => exfalso; simp only [Int.natCast_zero] at hfuel; omega
  | succ fuel ih =>
    rw [readLoop, bind_run] at h
    rcases h1 : readIter ex t az w with ⟨r1, w1⟩
    obtain ⟨a1, a2, a3, a4, a5, a6, a7, a8, a9⟩ :=
      readIter_time _ _ _ _ _ _ _ _ _ h1 hrt htt hR hτ hc hlk hRf (by omega)
    rw [h1] at h
    cases r1 with
    | error e =>
      simp only [Prod.mk.injEq] at h; obtain ⟨rfl, rfl⟩ := h
      exact ⟨a1, a2, by omega, fun e' he' => by simp only [Except.error.injEq] at he'; subst he'; exact a7 _ rfl, by simp, a6⟩
    | ok o =>
      cases o with
      | some p =>
        simp only [pure_run, Prod.mk.injEq] at h; obtain ⟨rfl, rfl⟩ := h
        refine ⟨a1, a2, by omega, by simp, ?_, a6⟩
        intro p' hp'; simp only [Except.ok.injEq] at hp'; subst hp'; exact a9 _ rfl
      | none =>
        have a8' := a8 rfl
        simp only at h
        rw [timeoutCheck_run] at h
        simp only [hrt] at h
        split at h
        · simp only [Prod.mk.injEq] at h; obtain ⟨rfl, rfl⟩ := h
          exact ⟨a1, a2, by omega, by simp [ioReadErrs, pktErrs], by simp, a6⟩
        · obtain ⟨b1, b2, b3, b4, b5, b6⟩ := ih _ h a1 a5 (by omega) (by omega) (by omega) (by omega)
          exact ⟨b1, by omega, b3, b4, b5, by omega⟩

theorem ioRead_time (ex : List Cmd) (t : Txn) (az : Bool) (R τ D : Int) (w : World)
    (r : Except Err Pkt) (w' : World) (h : ioRead ex t az w = (r, w'))
    (hrt : t.rt = some R) (htt : t.tt = some τ) (hR : 0 ≤ R) (hτ : 0 ≤ τ) (hc : w.CallCost D)
    (hlk : w.locks = []) (hs : parkedCount w.store + R < w.fuel) :
    w'.CallCost D ∧ w.now ≤ w'.now ∧ w'.now - w.now ≤ R + 2 * (R + max D τ) ∧
    (∀ e, r = .error e → e ∈ ioReadErrs) ∧ (∀ p, r = .ok p → ex.contains p.cmd = true) ∧
    (parkedCount w'.store : Int) ≤ parkedCount w.store + (w'.now - w.now) ∧
    w'.fuel = w.fuel ∧ w'.locks = [] := by
  have hfr := Fr_ioRead ex t az w
  rw [h] at hfr
  have hfl : w'.fuel = w.fuel ∧ w'.locks = [] := ⟨hfr.fuel, by rw [← hlk]; exact hfr.locks⟩
  rw [ioRead, bind_run, M.get_run] at h
  simp only at h
  rw [bind_run] at h
  rcases hd : withLock lockStore (drainLoop ex t az w.fuel) w with ⟨r1, w1⟩
  obtain ⟨q1, e1, p1⟩ := lockedDrain_time _ _ _ _ _ _ _ hd (by simp [hlk]) (by omega)
  have hc1 : w1.CallCost D := hc.of_cur_eq q1.cur
  have hsz1 := q1.size
  have hn1 := q1.now
  rw [hd] at h
  cases r1 with
  | error e =>
    simp only [Prod.mk.injEq] at h; obtain ⟨rfl, rfl⟩ := h
    refine ⟨hc1, by omega, by omega, ?_, by simp, by omega, hfl⟩
    intro e' he'; simp only [Except.error.injEq] at he'; subst he'
    exact storeErrs_sub_ioReadErrs (e1 _ rfl)
  | ok o =>
    cases o with
    | some p =>
      simp only [pure_run, Prod.mk.injEq] at h; obtain ⟨rfl, rfl⟩ := h
      refine ⟨hc1, by omega, by omega, by simp, ?_, by omega, hfl⟩
      intro p' hp'; simp only [Except.ok.injEq] at hp'; subst hp'; exact p1 _ rfl
    | none =>
      simp only at h
      rw [bind_run, now_run] at h
      simp only at h
      obtain ⟨b1, b2, b3, b4, b5, b6⟩ := readLoop_time ex t az w1.now R τ D _ w1 r w' h hrt htt hR hτ hc1
        (by rw [q1.locks]; exact hlk) (by rw [q1.fuel]; omega) (by omega) (by omega) (by rw [q1.fuel]; omega)
      exact ⟨b1, by omega, by omega, b4, b5, by omega, hfl⟩

/-! ### sending, `_read_until`, `_read_until_close` -/

/-- errors of `_send`: the byte-level wait errors plus `struct.error` for an unpackable message -/
def sendErrs : List Err := [.adbTimeout, .transportTimeout, .transportError, .pyStructError]

/-- errors of `_read_until` / `_read_until_close` -/
def streamErrs : List Err := ioReadErrs ++ [.pyStructError]

theorem hang_not_mem_streamErrs : Err.hang ∉ streamErrs := by simp [streamErrs, ioReadErrs, pktErrs]

theorem waitErrs_sub_sendErrs {e : Err} (h : e ∈ waitErrs) : e ∈ sendErrs := by
  simp only [waitErrs, List.mem_cons, List.not_mem_nil, or_false] at h
  rcases h with rfl | rfl | rfl <;> simp [sendErrs]

theorem sendErrs_sub_streamErrs {e : Err} (h : e ∈ sendErrs) : e ∈ streamErrs := by
  simp only [sendErrs, List.mem_cons, List.not_mem_nil, or_false] at h
  rcases h with rfl | rfl | rfl | rfl <;> simp [streamErrs, ioReadErrs, pktErrs]

theorem ioReadErrs_sub_streamErrs {e : Err} (h : e ∈ ioReadErrs) : e ∈ streamErrs := by
  simp only [streamErrs, List.mem_append]; exact Or.inl h

/-- `_send(msg)`: one byte-level wait for the header and one for a non-empty payload -/
theorem sendRaw_time (m : Msg) (t : Txn) (R τ D : Int) (w : World) (r : Except Err Unit) (w' : World)
    (h : sendRaw m t w = (r, w')) (hrt : t.rt = some R) (htt : t.tt = some τ) (hR : 0 ≤ R) (hτ : 0 ≤ τ)
    (hc : w.CallCost D) (hf : R < w.fuel) :
    w'.CallCost D ∧ w.now ≤ w'.now ∧ w'.now - w.now ≤ 2 * (R + max D τ) ∧
    (m.data = [] → w'.now - w.now ≤ R + max D τ) ∧
    (∀ e, r = .error e → e ∈ sendErrs) ∧ (r = .ok () → 1 ≤ w'.now - w.now) := by
  simp only [sendRaw, bind_run, emit_run] at h
  have hnow0 : ({ w with trace := .tx m :: w.trace } : World).now = w.now := rfl
  have hc0 : ({ w with trace := .tx m :: w.trace } : World).CallCost D := hc
  have hf0 : ({ w with trace := .tx m :: w.trace } : World).fuel = w.fuel := rfl
  generalize ({ w with trace := .tx m :: w.trace } : World) = w0 at h hnow0 hc0 hf0
  cases hp : m.pack? with
  | none =>
    simp only [hp, M.throw_run, Prod.mk.injEq] at h
    obtain ⟨rfl, rfl⟩ := h
    exact ⟨hc0, by omega, by omega, fun _ => by omega, by simp [sendErrs], by simp⟩
  | some hdr =>
    simp only [hp] at h
    rcases h1 : writeAll hdr t w0 with ⟨r1, w1⟩
    obtain ⟨a1, a2, a3, a4, a5, a6⟩ := writeAll_time _ _ _ _ _ _ _ _ h1 hrt htt hR hτ hc0 (by omega)
    rw [bind_run, h1] at h
    cases r1 with
    | error e =>
      simp only [Prod.mk.injEq] at h; obtain ⟨rfl, rfl⟩ := h
      exact ⟨a1, by omega, by omega, fun _ => by omega,
        fun e' he' => by simp only [Except.error.injEq] at he'; subst he'; exact waitErrs_sub_sendErrs (a4 _ rfl),
        by simp⟩
    | ok u =>
      have a5' := a5 rfl
      simp only at h
      by_cases hd : m.data.isEmpty
      · simp only [hd, Bool.not_true, Bool.false_eq_true, if_false, pure_run, Prod.mk.injEq] at h
        obtain ⟨rfl, rfl⟩ := h
        exact ⟨a1, by omega, by omega, fun _ => by omega, by simp, fun _ => by omega⟩
      · simp only [hd, Bool.not_false, if_true] at h
        obtain ⟨b1, b2, b3, b4, b5, b6⟩ := writeAll_time _ _ _ _ _ _ _ _ h hrt htt hR hτ a1 (by omega)
        refine ⟨b1, by omega, by omega, fun h0 => ?_,
          fun e' he' => waitErrs_sub_sendErrs (b4 _ he'), fun _ => by omega⟩
        rw [h0] at hd; simp at hd

/-- `_AdbIOManager.send` with the transport lock free -/
theorem ioSend_time (m : Msg) (t : Txn) (R τ D : Int) (w : World) (r : Except Err Unit) (w' : World)
    (h : ioSend m t w = (r, w')) (hrt : t.rt = some R) (htt : t.tt = some τ) (hR : 0 ≤ R) (hτ : 0 ≤ τ)
    (hc : w.CallCost D) (hf : R < w.fuel) (hl : lockTransport ∉ w.locks) :
    w'.CallCost D ∧ w.now ≤ w'.now ∧ w'.now - w.now ≤ 2 * (R + max D τ) ∧
    (m.data = [] → w'.now - w.now ≤ R + max D τ) ∧
    (∀ e, r = .error e → e ∈ sendErrs) ∧ (r = .ok () → 1 ≤ w'.now - w.now) ∧
    w'.store = w.store ∧ w'.fuel = w.fuel ∧ w'.locks = w.locks := by
  have hfr := Fr_ioSend m t w
  rw [h] at hfr
  obtain ⟨w1, h1, rfl⟩ := withLock_free _ _ _ _ _ h hl
  obtain ⟨sd, -⟩ := sendRaw_spec _ _ _ _ _ h1
  obtain ⟨a1, a2, a3, a4, a5, a6⟩ := sendRaw_time m t R τ D _ r w1 h1 hrt htt hR hτ hc hf
  exact ⟨a1, a2, a3, a4, a5, a6, sd.1, hfr.fuel, hfr.locks⟩

/-- `_read_until(expected)`: one `read` (with `allow_zeros`) and, for a WRTE packet, one OKAY send -/
theorem readUntil_time (ex : List Cmd) (t : Txn) (R τ D : Int) (w : World) (r : Except Err (Cmd × Bytes))
    (w' : World) (h : readUntil ex t w = (r, w')) (hrt : t.rt = some R) (htt : t.tt = some τ)
    (hR : 0 ≤ R) (hτ : 0 ≤ τ) (hc : w.CallCost D) (hlk : w.locks = []) (hs : parkedCount w.store + R < w.fuel) :
    w'.CallCost D ∧ w.now ≤ w'.now ∧ w'.now - w.now ≤ (R + 2 * (R + max D τ)) + (R + max D τ) ∧
    (∀ e, r = .error e → e ∈ streamErrs) ∧
    (∀ c d, r = .ok (c, d) → ex.contains c = true ∧ (c = Cmd.WRTE → 1 ≤ w'.now - w.now) ∧
      (c ≠ Cmd.WRTE → w'.now - w.now ≤ R + 2 * (R + max D τ))) ∧
    (parkedCount w'.store : Int) ≤ parkedCount w.store + (w'.now - w.now) ∧ w'.fuel = w.fuel ∧ w'.locks = [] := by
  rw [readUntil, bind_run] at h
  rcases h1 : ioRead ex t true w with ⟨r1, w1⟩
  obtain ⟨a1, a2, a3, a4, a5, a6, a7, a8⟩ := ioRead_time _ _ _ _ _ _ _ _ _ h1 hrt htt hR hτ hc hlk hs
  rw [h1] at h
  cases r1 with
  | error e =>
    simp only [Prod.mk.injEq] at h; obtain ⟨rfl, rfl⟩ := h
    refine ⟨a1, a2, by omega, ?_, by simp, a6, a7, a8⟩
    intro e' he'; simp only [Except.error.injEq] at he'; subst he'
    exact ioReadErrs_sub_streamErrs (a4 _ rfl)
  | ok p =>
    have a5' := a5 p rfl
    simp only at h
    by_cases hw : p.cmd = Cmd.WRTE
    · simp only [hw, if_true] at h
      rw [bind_run] at h
      rcases h2 : okay t w1 with ⟨r2, w2⟩
      obtain ⟨b1, b2, b3, b4, b5, b6, b7, b8, b9⟩ :=
        ioSend_time _ t R τ D w1 r2 w2 h2 hrt htt hR hτ a1 (by rw [a7]; omega) (by simp [a8])
      have b4' := b4 rfl
      rw [h2] at h
      cases r2 with
      | error e =>
        simp only [Prod.mk.injEq] at h; obtain ⟨rfl, rfl⟩ := h
        refine ⟨b1, by omega, by omega, ?_, by simp, by rw [b7]; omega,
          b8.trans a7, b9.trans a8⟩
        intro e' he'; simp only [Except.error.injEq] at he'; subst he'
        exact sendErrs_sub_streamErrs (b5 _ rfl)
      | ok u =>
        have b6' := b6 rfl
        simp only [pure_run, Prod.mk.injEq] at h; obtain ⟨rfl, rfl⟩ := h
        refine ⟨b1, by omega, by omega, by simp, ?_, by rw [b7]; omega,
          b8.trans a7, b9.trans a8⟩
        intro c d hcd
        simp only [Except.ok.injEq, Prod.mk.injEq] at hcd
        obtain ⟨rfl, rfl⟩ := hcd
        exact ⟨by rw [← hw]; exact a5', fun _ => by omega, fun hne => absurd rfl hne⟩
    · simp only [hw, if_false, pure_run, Prod.mk.injEq] at h
      obtain ⟨rfl, rfl⟩ := h
      refine ⟨a1, a2, by omega, by simp, ?_, a6, a7, a8⟩
      intro c d hcd
      simp only [Except.ok.injEq, Prod.mk.injEq] at hcd
      obtain ⟨rfl, rfl⟩ := hcd
      exact ⟨a5', fun hc' => absurd hc' hw, fun _ => a3⟩

/-- `_read_until_close` with a whole-command limit `T`: the total test follows every yielded item and every
    yielded item cost at least one tick (its OKAY was sent), so the loop entered within the limit never runs
    out of fuel and ends at most one iteration (one `read` + one send) after the limit -/
theorem readUntilCloseLoop_time (t : Txn) (start R τ T D : Int) (fuel : Nat) (acc : List Bytes) (w : World)
    (r : Except Err (List Bytes)) (w' : World) (h : readUntilCloseLoop t start fuel acc w = (r, w'))
    (hrt : t.rt = some R) (htt : t.tt = some τ) (htot : t.total = some T) (hR : 0 ≤ R) (hτ : 0 ≤ τ)
    (hc : w.CallCost D) (hlk : w.locks = []) (hnow : w.now - start ≤ T) (hfuel : T - (w.now - start) < fuel)
    (hs : parkedCount w.store + (T - (w.now - start)) + R < w.fuel) :
    w'.CallCost D ∧ w.now ≤ w'.now ∧ w'.now - start ≤ T + ((R + 2 * (R + max D τ)) + (R + max D τ)) ∧
    (∀ e, r = .error e → e ∈ streamErrs) := by
  induction fuel generalizing acc w with
  | zero => exfalso; simp only [Int.natCast_zero] at hfuel; omega
  | succ fuel ih =>
    rw [readUntilCloseLoop, bind_run] at h
    rcases h1 : readUntil [.CLSE, .WRTE] t w with ⟨r1, w1⟩
    obtain ⟨a1, a2, a3, a4, a5, a6, a7, a8⟩ :=
      readUntil_time _ _ _ _ _ _ _ _ h1 hrt htt hR hτ hc hlk (by omega)
    rw [h1] at h
    cases r1 with
    | error e =>
      simp only [Prod.mk.injEq] at h; obtain ⟨rfl, rfl⟩ := h
      exact ⟨a1, a2, by omega,
        fun e' he' => by simp only [Except.error.injEq] at he'; subst he'; exact a4 _ rfl⟩
    | ok cd =>
      obtain ⟨c, d⟩ := cd
      obtain ⟨a5a, a5b, a5c⟩ := a5 c d rfl
      simp only at h
      by_cases hcl : c = Cmd.CLSE
      · simp only [hcl, if_true] at h
        have a5c' := a5c (by rw [hcl]; decide)
        rw [bind_run] at h
        rcases h2 : ioSend ⟨.CLSE, t.localId.getD 0, t.remoteId.getD 0, []⟩ t w1 with ⟨r2, w2⟩
        obtain ⟨b1, b2, b3, b4, b5, b6, b7, b8, b9⟩ :=
          ioSend_time _ t R τ D w1 r2 w2 h2 hrt htt hR hτ a1 (by rw [a7]; omega) (by simp [a8])
        have b4' := b4 rfl
        rw [h2] at h
        cases r2 with
        | error e =>
          simp only [Prod.mk.injEq] at h; obtain ⟨rfl, rfl⟩ := h
          exact ⟨b1, by omega, by omega,
            fun e' he' => by simp only [Except.error.injEq] at he'; subst he'; exact sendErrs_sub_streamErrs (b5 _ rfl)⟩
        | ok u =>
          simp only [pure_run, Prod.mk.injEq] at h; obtain ⟨rfl, rfl⟩ := h
          exact ⟨b1, by omega, by omega, by simp⟩
      · have hwr : c = Cmd.WRTE := by
          simp only [List.contains_cons, List.contains_nil, Bool.or_false, Bool.or_eq_true, beq_iff_eq] at a5a
          rcases a5a with h0 | h0
          · exact absurd h0 hcl
          · exact h0
        have a5b' := a5b hwr
        simp only [hcl, if_false] at h
        rw [bind_run, emit_run] at h
        simp only [htot] at h
        have hnow0 : ({ w1 with trace := .yielded d :: w1.trace } : World).now = w1.now := rfl
        have hc0 : ({ w1 with trace := .yielded d :: w1.trace } : World).CallCost D := a1
        have hf0 : ({ w1 with trace := .yielded d :: w1.trace } : World).fuel = w1.fuel := rfl
        have hl0 : ({ w1 with trace := .yielded d :: w1.trace } : World).locks = w1.locks := rfl
        have hs0 : ({ w1 with trace := .yielded d :: w1.trace } : World).store = w1.store := rfl
        generalize ({ w1 with trace := .yielded d :: w1.trace } : World) = w0 at h hnow0 hc0 hf0 hl0 hs0
        rw [timeoutCheck_run] at h
        simp only at h
        split at h
        · simp only [Prod.mk.injEq] at h; obtain ⟨rfl, rfl⟩ := h
          exact ⟨hc0, by omega, by omega, by simp [streamErrs, ioReadErrs, pktErrs]⟩
        · obtain ⟨c1, c2, c3, c4⟩ := ih _ _ h hc0 (by rw [hl0]; exact a8) (by omega) (by omega)
            (by rw [hs0, hf0, a7]; omega)
          exact ⟨c1, by omega, c3, c4⟩

theorem readUntilClose_time (t : Txn) (R τ T D : Int) (w : World)
    (r : Except Err (List Bytes)) (w' : World) (h : readUntilClose t w = (r, w'))
    (hrt : t.rt = some R) (htt : t.tt = some τ) (htot : t.total = some T) (hR : 0 ≤ R) (hτ : 0 ≤ τ) (hT : 0 ≤ T)
    (hc : w.CallCost D) (hlk : w.locks = []) (hs : parkedCount w.store + T + R < w.fuel) :
    w'.CallCost D ∧ w.now ≤ w'.now ∧ w'.now - w.now ≤ T + ((R + 2 * (R + max D τ)) + (R + max D τ)) ∧
    (∀ e, r = .error e → e ∈ streamErrs) := by
  simp only [readUntilClose, bind_run, now_run, M.get_run] at h
  exact readUntilCloseLoop_time t w.now R τ T D _ _ w r w' h hrt htt htot hR hτ hc hlk (by omega) (by omega) (by omega)

/-! ### example worlds for the non-vacuity examples of C11 -/

/-- the exception of a result, if any (so that concrete results can be compared with `decide`) -/
def c11ErrOf {α : Type} : Except Err α → Option Err
  | .error e => some e
  | .ok _ => none

theorem eq_error_of_c11ErrOf {α : Type} {x : Except Err α} {e : Err} (h : c11ErrOf x = some e) : x = .error e := by
  cases x <;> simp_all [c11ErrOf]

/-- a transaction with transport timeout 50 ticks and read timeout 1024 ticks (1 s), no whole-command limit -/
def c11Txn : Txn := ⟨some 1, none, some 50, some 1024, none⟩

/-- total silence: an open connection that will never send anything, every call costs 1 tick -/
def c11Silent : World := { cur := some { dt := 1 }, fuel := 2000 }

/-- trickle: 64 bytes are available but every read returns a single byte and takes 600 ticks -/
def c11Trickle : World :=
  { cur := some { dt := 600, segs := [⟨0, List.replicate 64 0⟩], frags := List.replicate 64 1 }, fuel := 2000 }

/-- end-of-stream: every read returns `b''` after 600 ticks -/
def c11Eof : World := { cur := some { dt := 600, isEof := true }, fuel := 2000 }

/-- a flood of WRTE packets for another stream (local id 9), each header read costs 600 ticks -/
def c11Flood : World :=
  { cur := some { dt := 600, segs := [⟨0, (List.replicate 3 (Msg.mk .WRTE 7 9 []).encode).flatten⟩] }, fuel := 2000 }

/-- a device that keeps sending WRTE packets for our stream (local id 1, remote id 7); every call costs 300 ticks -/
def c11Stream : World :=
  { cur := some { dt := 300, segs := [⟨0, (List.replicate 3 (Msg.mk .WRTE 7 1 [65]).encode).flatten⟩] }, fuel := 5000 }

/-- read timeout 1000 ticks, whole-command limit 1000 ticks -/
def c11StreamTxn : Txn := ⟨some 1, some 7, some 50, some 1000, some 1000⟩

end Adb
