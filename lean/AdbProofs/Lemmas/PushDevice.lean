import AdbProofs.Lemmas.PushDeliver
import AdbProofs.Lemmas.PushRel
/-
  Device-level facts for C07: how `push` walks a directory, where a file's content comes from,
  and that after `_filesync_send` the buffer is never empty (so the status read starts with a flush).
-/
namespace Adb.Push
open Adb

theorem fsSend_sendBuf_ne_nil {id : SyncId} {t : Txn} {fi fi' : FsInfo} {data : Bytes} {size : Option Nat} {w w' : World}
    (h : fsSend id t fi data size w = (.ok fi', w')) : fi'.sendBuf ≠ [] := by
  obtain ⟨e, he⟩ := Fr.evs (Fr_fsSend _ _ _ _ _) h
  obtain ⟨hcase, -⟩ := fsSend_ok h he
  intro hnil
  have hl := congrArg List.length hnil
  rcases hcase with ⟨-, -, hb⟩ | ⟨-, -, -, hb⟩
  · rw [hb] at hl; simp at hl
  · rw [hb] at hl; simp at hl

theorem pushFiles_nil (devPath : Bytes) (mode mtime : Nat) (cb : CbMode) (tt rt : Timeout) :
    pushFiles devPath mode mtime cb tt rt [] = pure () := rfl

theorem pushFiles_cons (devPath : Bytes) (mode mtime : Nat) (cb : CbMode) (tt rt : Timeout)
    (name : Bytes) (fid : Nat) (rest : List (Bytes × Nat)) :
    pushFiles devPath mode mtime cb tt rt ((name, fid) :: rest) =
      (pushFile fid (devPath ++ [47] ++ name) mode mtime cb tt rt >>= fun _ =>
        pushFiles devPath mode mtime cb tt rt rest) := rfl

theorem runGuard_world (g : String) (p : Option Bytes) (w : World) : (runGuard g p w).2 = w := by
  unfold runGuard
  repeat' split
  all_goals rfl

theorem runGuards_world : ∀ (gs : List String) (p : Option Bytes) (w : World), (runGuards gs p w).2 = w := by
  intro gs
  induction gs with
  | nil => intro p w; rfl
  | cons g gs ih =>
    intro p w
    unfold runGuards
    rw [bind_run]
    have h1 := runGuard_world g p w
    split
    · next a w1 hx => rw [hx] at h1; simp only at h1; subst h1; exact ih p w1
    · next e w1 hx => rw [hx] at h1; exact h1

/-- pushing a directory: after the guards, `mkdir` first, then the entries in listing order -/
theorem devPush_dir {id : Nat} {devPath : Bytes} {mode mtime : Nat} {cb : CbMode} {tt rt : Timeout} {w : World}
    {i : Nat} {entries : List (Bytes × Nat)}
    (hg : (runGuards (guardsFor "push") (some devPath) w).1 = .ok ())
    (hd : w.dirs.find? (·.1 == id) = some (i, entries)) :
    devPush (.dir id) devPath mode mtime cb tt rt w =
      (devShellLike "shell" (ascii "shell") (ascii "mkdir " ++ devPath) tt rt none true >>= fun _ =>
        pushFiles devPath mode mtime cb tt rt entries >>= fun _ => pure Val.none) w := by
  have hw := runGuards_world (guardsFor "push") (some devPath) w
  have hgw : runGuards (guardsFor "push") (some devPath) w = (.ok (), w) := Prod.ext hg hw
  unfold devPush
  rw [bind_run_ok hgw]
  dsimp only
  rw [get_bind_run, hd]

theorem devPush_file {src : LocalRef} {id : Nat} (hs : src = .file id ∨ src = .bytesio id)
    {devPath : Bytes} {mode mtime : Nat} {cb : CbMode} {tt rt : Timeout} {w : World}
    (hg : (runGuards (guardsFor "push") (some devPath) w).1 = .ok ()) :
    devPush src devPath mode mtime cb tt rt w =
      (pushFile id devPath mode mtime cb tt rt >>= fun _ => pure Val.none) w := by
  have hw := runGuards_world (guardsFor "push") (some devPath) w
  have hgw : runGuards (guardsFor "push") (some devPath) w = (.ok (), w) := Prod.ext hg hw
  unfold devPush
  rw [bind_run_ok hgw]
  rcases hs with rfl | rfl <;> rfl

/-- one file: its content is looked up under its own id, a fresh sync stream is opened, `_push` runs
    with an empty FileSync buffer sized by the negotiated maxdata, and the stream is closed -/
theorem pushFile_ok {fid : Nat} {devPath : Bytes} {mode mtime : Nat} {cb : CbMode} {tt rt : Timeout} {w w' : World} {u : Unit}
    (h : pushFile fid devPath mode mtime cb tt rt w = (.ok u, w')) :
    ∃ (i : Nat) (content : Bytes) (t : Txn) (w1 w2 : World),
      w.files.find? (·.1 == fid) = some (i, content) ∧
      openStream (ascii "sync:") tt rt none w = (.ok t, w1) ∧
      pushOne content devPath mode mtime cb t { fmt := .push, maxdata := w1.maxdata } w1 = (.ok (), w2) ∧
      clse t w2 = (.ok (), w') := by
  unfold pushFile at h
  obtain ⟨content, w0, h1, h2⟩ := bind_ok_inv h
  obtain ⟨t, w1, h3, h4⟩ := bind_ok_inv h2
  rw [get_bind_run] at h4
  obtain ⟨u1, w2, h5, h6⟩ := bind_ok_inv h4
  unfold lookupFile at h1
  split at h1
  · next i c hf =>
    simp only [Prod.mk.injEq, Except.ok.injEq] at h1
    obtain ⟨rfl, rfl⟩ := h1
    exact ⟨i, c, t, w1, w2, hf, h3, h5, h6⟩
  · simp at h1


/-- no WRTE transmission and no progress call -/
def QNoWrte : TEv → Prop
  | .tx m => m.cmd ≠ Cmd.WRTE
  | .cbProgress _ _ _ => False
  | _ => True

theorem QNoWrte.house : House QNoWrte := by
  intro e h; cases e <;> first | trivial | exact Bool.noConfusion h
theorem QNoWrte.deliv : Deliv QNoWrte := fun _ => trivial
theorem QNoWrte.txOkay : TxOkay QNoWrte := by
  intro m h; show m.cmd ≠ Cmd.WRTE; rw [h]; decide

theorem QNoWrte.wrtePayloads {evs : List TEv} (h : ∀ e ∈ evs, QNoWrte e) (l r : Nat) : wrtePayloads l r evs = [] := by
  unfold Push.wrtePayloads
  apply List.eq_nil_iff_forall_not_mem.2
  intro d hd
  rw [List.mem_filterMap] at hd
  obtain ⟨m, hm, hd⟩ := hd
  have : m.cmd ≠ Cmd.WRTE := h _ (mem_transmitted.1 hm)
  simp [this] at hd

theorem QNoWrte.progressCalls {evs : List TEv} (h : ∀ e ∈ evs, QNoWrte e) : progressCalls evs = [] :=
  progressCalls_eq_nil fun _ _ _ hm => h _ hm

theorem Tr_getTT {Q} (tt : Timeout) : Tr Q (getTT tt) := Tr_of_silent fun _ _ => rfl
macro_rules | `(tactic| tr_lemma) => `(tactic| with_reducible exact Tr_getTT _)

/-- `_open` sends one OPEN and reads -/
theorem Tr_openStream {Q} (hQ : House Q) (hd : Deliv Q) (ho : ∀ m : Msg, m.cmd = Cmd.OPEN → Q (.tx m))
    (dest : Bytes) (tt rt total : Timeout) : Tr Q (openStream dest tt rt total) := by
  unfold openStream
  apply Tr_bind
  · trq
  · intro t
    apply Tr_bind (Tr_ioSend (ho _ rfl) _)
    intro _
    trq

/-- `_clse` sends one CLSE, reads, and acknowledges with OKAY at most -/
theorem Tr_clse {Q} (hQ : House Q) (hd : Deliv Q) (ho : TxOkay Q) (hc : ∀ m : Msg, m.cmd = Cmd.CLSE → Q (.tx m))
    (t : Txn) : Tr Q (clse t) := by
  unfold clse
  apply Tr_bind (Tr_ioSend (hc _ rfl) _)
  intro _
  trq

/-- the whole of one file's push, on the wire: the WRTE payloads of its stream concatenate to
    SEND, the DATA chunks, DONE — `_open` and `_clse` add no WRTE -/
theorem pushFile_stream {fid : Nat} {devPath : Bytes} {mode mtime : Nat} {cb : CbMode} {tt rt : Timeout} {w w' : World}
    {u : Unit} {evs : List TEv}
    (h : pushFile fid devPath mode mtime cb tt rt w = (.ok u, w')) (hev : w'.trace = evs ++ w.trace) :
    ∃ (i : Nat) (content : Bytes) (t : Txn) (mtime' : Nat),
      w.files.find? (·.1 == fid) = some (i, content) ∧ (mtime ≠ 0 → mtime' = mtime) ∧
      (wrtePayloads (t.localId.getD 0) (t.remoteId.getD 0) evs).flatten =
        syncRec .SEND (devPath ++ [44] ++ decimal mode).length (devPath ++ [44] ++ decimal mode) ++
        ((chunksOf (maxChunkSize w.maxdata) content).map fun c => syncRec .DATA c.length c).flatten ++
        syncRec .DONE mtime' [] ∧
      progressCalls evs = (if cb = CbMode.none then []
        else (chunksOf (maxChunkSize w.maxdata) content).map fun c => (devPath, c.length, content.length)) := by
  obtain ⟨i, content, t, w1, w2, hf, h1, h2, h3⟩ := pushFile_ok h
  obtain ⟨e1, he1, hq1⟩ := (Tr_openStream QNoWrte.house QNoWrte.deliv (fun m hm => by
    show m.cmd ≠ Cmd.WRTE; rw [hm]; decide) (ascii "sync:") tt rt none).step h1
  obtain ⟨e3, he3, hq3⟩ := (Tr_clse QNoWrte.house QNoWrte.deliv QNoWrte.txOkay (fun m hm => by
    show m.cmd ≠ Cmd.WRTE; rw [hm]; decide) t).step h3
  obtain ⟨e2, he2⟩ := Fr.evs (Fr_pushOne _ _ _ _ _ _ _) h2
  have hmd : w1.maxdata = w.maxdata := by
    have := (Fr_openStream (ascii "sync:") tt rt none w).maxdata
    rwa [h1] at this
  have he12 : w2.trace = (e2 ++ e1) ++ w.trace := by rw [he2, he1, List.append_assoc]
  have := evs_split he12 he3 hev
  subst this
  obtain ⟨fi1, fi2, fi3, v1, v2, v3, mtime', -, -, hmt, -, -, hshape, hprog⟩ := pushOne_ok h2 he2
  refine ⟨i, content, t, mtime', hf, ?_, ?_, ?_⟩
  · intro hne; rw [hmt, if_neg hne]
  · rw [wrtePayloads_append, wrtePayloads_append, QNoWrte.wrtePayloads hq1, QNoWrte.wrtePayloads hq3, hmd] at *
    simpa using hshape
  · rw [progressCalls_append, progressCalls_append, QNoWrte.progressCalls hq1, QNoWrte.progressCalls hq3, hprog, hmd]
    simp


/-- no transmission at all, no progress call -/
def QNoTx : TEv → Prop
  | .tx _ => False
  | .cbProgress _ _ _ => False
  | _ => True

theorem QNoTx.house : House QNoTx := by
  intro e h; cases e <;> first | trivial | exact Bool.noConfusion h
theorem QNoTx.deliv : Deliv QNoTx := fun _ => trivial

/-- `_AdbIOManager.read` never calls `_send` -/
theorem ioRead_noTx (ex : List Cmd) (t : Txn) (az : Bool) (w : World) {evs : List TEv}
    (hev : (ioRead ex t az w).2.trace = evs ++ w.trace) : transmitted evs = [] := by
  obtain ⟨e, he, hq⟩ := (Tr_ioRead QNoTx.house QNoTx.deliv ex t az).trace w
  have : evs = e := evs_unique (he ▸ hev)
  subst this
  exact transmitted_eq_nil fun m hm => hq _ hm

end Adb.Push
