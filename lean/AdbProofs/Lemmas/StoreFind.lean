import AdbProofs.Lemmas.StoreOps
/- Packet store lookups: `find` / `find_allow_zeros` against `pendingKeys`. -/
namespace Adb
namespace Store

theorem alookup_of_mem {β : Type} {l : List (Nat × β)} (hn : (akeys l).Nodup) {k : Nat} {v : β}
    (h : (k, v) ∈ l) : alookup k l = some v := by
  induction l with
  | nil => simp at h
  | cons p rest ih =>
    obtain ⟨k', v'⟩ := p
    simp [akeys] at hn
    simp at h
    rcases h with ⟨hk, hv⟩ | h
    · simp [alookup, hk, hv]
    · have hne : k' ≠ k := by
        intro he; subst he; exact hn.1 v h
      simp [alookup, hne]
      exact ih (by simpa [akeys] using hn.2) h

theorem mem_pendingKeys_raw (s : Store) (k0 k1 : Nat) :
    (k0, k1) ∈ pendingKeys s ↔ ∃ inner q, (k1, inner) ∈ s ∧ (k0, q) ∈ inner ∧ q ≠ [] := by
  simp only [pendingKeys, List.mem_flatMap, List.mem_map, List.mem_filter]
  constructor
  · rintro ⟨⟨a1, inner⟩, hp, ⟨a0, q⟩, ⟨he, hq⟩, heq⟩
    simp at heq
    obtain ⟨h0, h1⟩ := heq
    subst h0 h1
    exact ⟨inner, q, hp, he, by simpa using hq⟩
  · rintro ⟨inner, q, hp, he, hq⟩
    exact ⟨(k1, inner), hp, (k0, q), ⟨he, by simpa using hq⟩, rfl⟩

/-- `pendingKeys` lists exactly the pairs whose queue is non-empty. -/
theorem mem_pendingKeys {s : Store} (hI : Inv s) (k0 k1 : Nat) :
    (k0, k1) ∈ pendingKeys s ↔ ∃ q, s.queue k0 k1 = some q ∧ q ≠ [] := by
  rw [mem_pendingKeys_raw]
  constructor
  · rintro ⟨inner, q, hp, he, hq⟩
    have h1 := alookup_of_mem hI.1 hp
    have h0 := alookup_of_mem (hI.2 _ hp).1 he
    exact ⟨q, by simp [queue, h1, h0], hq⟩
  · rintro ⟨q, hq, hne⟩
    unfold queue at hq
    cases h1 : alookup k1 s with
    | none => simp [h1] at hq
    | some inner =>
      simp [h1] at hq
      exact ⟨inner, q, alookup_some_mem h1, alookup_some_mem hq, hne⟩

theorem firstNonEmptyInner_some {p : Nat → Bool} {inner : Inner} {k0 : Nat}
    (h : firstNonEmptyInner p inner = some k0) : ∃ q, (k0, q) ∈ inner ∧ p k0 = true ∧ q ≠ [] := by
  induction inner with
  | nil => simp [firstNonEmptyInner] at h
  | cons e rest ih =>
    obtain ⟨a0, q⟩ := e
    simp only [firstNonEmptyInner] at h
    split at h
    · rename_i hc
      simp at h hc
      subst h
      exact ⟨q, by simp, hc.1, hc.2⟩
    · obtain ⟨q', hm, hp, hq⟩ := ih h
      exact ⟨q', by simp [hm], hp, hq⟩

theorem firstNonEmptyInner_none {p : Nat → Bool} {inner : Inner}
    (h : firstNonEmptyInner p inner = none) : ∀ k0 q, (k0, q) ∈ inner → p k0 = true → q = [] := by
  induction inner with
  | nil => simp
  | cons e rest ih =>
    obtain ⟨a0, q⟩ := e
    simp only [firstNonEmptyInner] at h
    split at h
    · simp at h
    · rename_i hc
      intro k0 q' hm hp
      simp at hm
      rcases hm with ⟨h0, hq⟩ | hm
      · subst h0 hq
        simp [hp] at hc
        exact hc
      · exact ih h k0 q' hm hp

theorem firstNonEmpty_some {p : Nat → Bool} {s : Store} {k : Nat × Nat}
    (h : firstNonEmpty p s = some k) : k ∈ pendingKeys s ∧ p k.1 = true := by
  induction s with
  | nil => simp [firstNonEmpty] at h
  | cons e rest ih =>
    obtain ⟨a1, inner⟩ := e
    simp only [firstNonEmpty] at h
    cases hf : firstNonEmptyInner p inner with
    | some k0 =>
      simp [hf] at h
      subst h
      obtain ⟨q, hm, hp, hq⟩ := firstNonEmptyInner_some hf
      exact ⟨(mem_pendingKeys_raw _ _ _).2 ⟨inner, q, by simp, hm, hq⟩, hp⟩
    | none =>
      simp [hf] at h
      obtain ⟨hm, hp⟩ := ih h
      obtain ⟨k0, k1⟩ := k
      obtain ⟨inner', q, h1, h2, h3⟩ := (mem_pendingKeys_raw _ _ _).1 hm
      exact ⟨(mem_pendingKeys_raw _ _ _).2 ⟨inner', q, by simp [h1], h2, h3⟩, hp⟩

theorem firstNonEmpty_none {p : Nat → Bool} {s : Store}
    (h : firstNonEmpty p s = none) : ∀ k ∈ pendingKeys s, p k.1 = false := by
  induction s with
  | nil => simp [pendingKeys]
  | cons e rest ih =>
    obtain ⟨a1, inner⟩ := e
    simp only [firstNonEmpty] at h
    cases hf : firstNonEmptyInner p inner with
    | some k0 => simp [hf] at h
    | none =>
      simp [hf] at h
      rintro ⟨k0, k1⟩ hk
      obtain ⟨inner', q, h1, h2, h3⟩ := (mem_pendingKeys_raw _ _ _).1 hk
      simp at h1
      rcases h1 with ⟨hk1, hin⟩ | h1
      · subst hk1 hin
        cases hp : p k0 with
        | false => rfl
        | true => exact absurd (firstNonEmptyInner_none hf k0 q h2 hp) h3
      · exact ih h (k0, k1) ((mem_pendingKeys_raw _ _ _).2 ⟨inner', q, h1, h2, h3⟩)

/-- Soundness and completeness of `find` for every pattern (exact, unknown remote id, unknown local
    id, both unknown): an answer is a pending pair matching the pattern; no answer means no pending
    pair matches. -/
theorem find_spec {s : Store} (hI : Inv s) (p0 p1 : Option Nat) :
    (∀ k, find s p0 p1 = some k → k ∈ pendingKeys s ∧ keyMatches p0 p1 k = true) ∧
    (find s p0 p1 = none → ∀ k ∈ pendingKeys s, keyMatches p0 p1 k = false) := by
  by_cases hs : s.isEmpty = true
  · have : s = [] := by simpa using hs
    subst this
    simp [find, pendingKeys]
  · have hs' : s.isEmpty = false := by simpa using hs
    cases p1 with
    | none =>
      cases p0 with
      | none =>
        simp only [find, hs', Bool.false_eq_true, ↓reduceIte]
        constructor
        · intro k hk
          exact ⟨(firstNonEmpty_some hk).1, by simp [keyMatches]⟩
        · intro hn k hk
          have := firstNonEmpty_none hn k hk
          simp at this
      | some x =>
        simp only [find, hs', Bool.false_eq_true, ↓reduceIte]
        constructor
        · intro k hk
          have := firstNonEmpty_some hk
          exact ⟨this.1, by simpa [keyMatches] using this.2⟩
        · intro hn k hk
          have := firstNonEmpty_none hn k hk
          simpa [keyMatches] using this
    | some y =>
      cases h1 : alookup y s with
      | none =>
        simp only [find, hs', Bool.false_eq_true, ↓reduceIte, h1]
        refine ⟨by simp, ?_⟩
        intro _ k hk
        obtain ⟨k0, k1⟩ := k
        obtain ⟨q, hq, _⟩ := (mem_pendingKeys hI k0 k1).1 hk
        have : k1 ≠ y := by
          intro he; subst he; simp [queue, h1] at hq
        cases p0 <;> simp [keyMatches, this]
      | some inner =>
        have ⟨hnd, _⟩ := inner_of_lookup hI h1
        cases p0 with
        | none =>
          simp only [find, hs', Bool.false_eq_true, ↓reduceIte, h1]
          constructor
          · intro k hk
            simp only [Option.map_eq_some_iff] at hk
            obtain ⟨k0, hf, hk⟩ := hk
            subst hk
            obtain ⟨q, hm, _, hq⟩ := firstNonEmptyInner_some hf
            refine ⟨(mem_pendingKeys hI k0 y).2 ⟨q, by simp [queue, h1, alookup_of_mem hnd hm], hq⟩, by simp [keyMatches]⟩
          · intro hn k hk
            simp only [Option.map_eq_none_iff] at hn
            obtain ⟨k0, k1⟩ := k
            obtain ⟨q, hq, hne⟩ := (mem_pendingKeys hI k0 k1).1 hk
            by_cases hk1 : k1 = y
            · subst hk1
              simp [queue, h1] at hq
              exact absurd (firstNonEmptyInner_none hn k0 q (alookup_some_mem hq) rfl) hne
            · simp [keyMatches, hk1]
        | some x =>
          cases h0 : alookup x inner with
          | none =>
            simp only [find, hs', Bool.false_eq_true, ↓reduceIte, h1, h0]
            refine ⟨by simp, ?_⟩
            intro _ k hk
            obtain ⟨k0, k1⟩ := k
            obtain ⟨q, hq, _⟩ := (mem_pendingKeys hI k0 k1).1 hk
            by_cases hk1 : k1 = y
            · subst hk1
              have : k0 ≠ x := by intro he; subst he; simp [queue, h1, h0] at hq
              simp [keyMatches, this]
            · simp [keyMatches, hk1]
          | some q =>
            simp only [find, hs', Bool.false_eq_true, ↓reduceIte, h1, h0]
            by_cases hq : q.isEmpty = true
            · simp only [hq, if_true]
              refine ⟨by simp, ?_⟩
              intro _ k hk
              obtain ⟨k0, k1⟩ := k
              obtain ⟨q', hq', hne⟩ := (mem_pendingKeys hI k0 k1).1 hk
              by_cases hk1 : k1 = y
              · subst hk1
                by_cases hk0 : k0 = x
                · subst hk0
                  simp [queue, h1, h0] at hq'
                  subst hq'
                  simp at hq
                  exact absurd hq hne
                · simp [keyMatches, hk0]
              · simp [keyMatches, hk1]
            · have hq' : q.isEmpty = false := by simpa using hq
              simp only [hq', Bool.false_eq_true, ↓reduceIte]
              refine ⟨?_, by simp⟩
              intro k hk
              simp at hk
              subst hk
              exact ⟨(mem_pendingKeys hI x y).2 ⟨q, by simp [queue, h1, h0], by simpa using hq⟩, by simp [keyMatches]⟩

theorem findAllowZeros_spec {s : Store} (hI : Inv s) (p0 p1 : Option Nat) :
    (∀ k, findAllowZeros s p0 p1 = some k → k ∈ pendingKeys s ∧ keyMatchesZ p0 p1 k = true) ∧
    (findAllowZeros s p0 p1 = none → ∀ k ∈ pendingKeys s, keyMatchesZ p0 p1 k = false) := by
  have h1 := find_spec hI p0 p1
  have h2 := find_spec hI p0 (some 0)
  have h3 := find_spec hI (some 0) p1
  have h4 := find_spec hI (some 0) (some 0)
  unfold findAllowZeros
  cases e1 : find s p0 p1 with
  | some k => 
    refine ⟨?_, by simp⟩
    intro k' hk'; simp at hk'; subst hk'
    exact ⟨(h1.1 k e1).1, by simp [keyMatchesZ, (h1.1 k e1).2]⟩
  | none =>
    cases e2 : find s p0 (some 0) with
    | some k =>
      refine ⟨?_, by simp⟩
      intro k' hk'; simp at hk'; subst hk'
      exact ⟨(h2.1 k e2).1, by simp [keyMatchesZ, (h2.1 k e2).2]⟩
    | none =>
      cases e3 : find s (some 0) p1 with
      | some k =>
        refine ⟨?_, by simp⟩
        intro k' hk'; simp at hk'; subst hk'
        exact ⟨(h3.1 k e3).1, by simp [keyMatchesZ, (h3.1 k e3).2]⟩
      | none =>
        simp only
        constructor
        · intro k hk
          exact ⟨(h4.1 k hk).1, by simp [keyMatchesZ, (h4.1 k hk).2]⟩
        · intro hn k hk
          simp [keyMatchesZ, h1.2 e1 k hk, h2.2 e2 k hk, h3.2 e3 k hk, h4.2 hn k hk]

end Store
end Adb
