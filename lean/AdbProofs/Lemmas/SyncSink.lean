import AdbProofs.Lemmas.FrameOps2
/-
  Sink discipline for C08: `Sk x` says that running `x` in any world, whatever its outcome, leaves
  `World.sink` (the destination of the current pull) as it was.  Proved once per model function
  below `pullLoop` (mechanically, with the `sk` tactic, in the style of `fr` in Frame.lean): only
  the `stream.write(data)` step of `_pull` and the truncating `open()` of `pull` touch the sink.
-/
namespace Adb.SR
open Adb

def Sk {α : Type} (x : M α) : Prop := ∀ w, (x w).2.sink = w.sink

theorem Sk.of_run {α} {x : M α} (h : Sk x) {w w' : World} {r : Except Err α} (hx : x w = (r, w')) : w'.sink = w.sink := by
  have := h w; rwa [hx] at this

theorem Sk_pure {α} (a : α) : Sk (pure a : M α) := fun _ => rfl
theorem Sk_Mpure {α} (a : α) : Sk (M.pure a : M α) := fun _ => rfl
theorem Sk_throw {α} (e : Err) : Sk (M.throw e : M α) := fun _ => rfl
theorem Sk_get : Sk M.get := fun _ => rfl
theorem Sk_now : Sk now := fun _ => rfl
theorem Sk_liftExcept {α} (x : Except Err α) : Sk (liftExcept x) := fun _ => rfl
theorem Sk_emit (e : TEv) : Sk (emit e) := fun _ => rfl
theorem Sk_elapsedGt (s : Int) (l : Timeout) : Sk (elapsedGt s l) := by
  intro w; unfold elapsedGt; cases l <;> rfl

theorem Sk_bind {α β} {x : M α} {f : α → M β} (hx : Sk x) (hf : ∀ a, Sk (f a)) : Sk (x >>= f) := by
  intro w
  rw [bind_run]
  have h1 := hx w
  split
  · next a w' hxw => rw [hxw] at h1; exact (hf a w').trans h1
  · next e w' hxw => rw [hxw] at h1; exact h1

theorem Sk_ite {α} {c : Prop} [Decidable c] {a b : M α} (ha : Sk a) (hb : Sk b) : Sk (if c then a else b) := by
  split <;> assumption

theorem Sk_withLock {α} (l : Nat) {body : M α} (hb : Sk body) : Sk (withLock l body) := by
  intro w
  rw [withLock_run]
  split
  · rfl
  · exact hb { w with locks := l :: w.locks }

theorem Sk_swallow {x : M Unit} (hx : Sk x) : Sk (M.swallow x) := by
  intro w
  unfold M.swallow
  have h1 := hx w
  split
  next r w' hxw => rw [hxw] at h1; exact h1

theorem Sk_modify {f : World → World} (hf : ∀ w, (f w).sink = w.sink) : Sk (M.modify f) := fun w => hf w

/-- extensible: one alternative per proved `Sk` lemma -/
syntax "sk_lemma" : tactic
macro_rules | `(tactic| sk_lemma) => `(tactic| with_reducible exact Sk_pure _)
macro_rules | `(tactic| sk_lemma) => `(tactic| with_reducible exact Sk_Mpure _)
macro_rules | `(tactic| sk_lemma) => `(tactic| with_reducible exact Sk_throw _)
macro_rules | `(tactic| sk_lemma) => `(tactic| with_reducible exact Sk_get)
macro_rules | `(tactic| sk_lemma) => `(tactic| with_reducible exact Sk_now)
macro_rules | `(tactic| sk_lemma) => `(tactic| with_reducible exact Sk_liftExcept _)
macro_rules | `(tactic| sk_lemma) => `(tactic| with_reducible exact Sk_emit _)
macro_rules | `(tactic| sk_lemma) => `(tactic| with_reducible exact Sk_elapsedGt _ _)

/-- structural decomposition of a `do` block; `sk [ih]` also tries the induction hypothesis `ih` -/
syntax "sk" ("[" term "]")? : tactic
macro_rules
  | `(tactic| sk) => `(tactic| sk [Sk_get])
  | `(tactic| sk [$h]) => `(tactic| first
    | sk_lemma
    | with_reducible assumption
    | with_reducible exact $h
    | with_reducible exact $h _
    | with_reducible exact $h _ _
    | with_reducible exact $h _ _ _
    | (with_reducible apply Sk_bind) <;> (first | (intro _; sk [$h]) | sk [$h])
    | (with_reducible apply Sk_withLock); sk [$h]
    | (with_reducible apply Sk_swallow); sk [$h]
    | (with_reducible apply Sk_modify); intro _; rfl
    | (with_reducible apply Sk_ite) <;> sk [$h]
    | (split <;> sk [$h])
    | (dsimp only; sk [$h])
    | (intro _; sk [$h]))

theorem Sk_waitTimeout {α} (tt : Timeout) : Sk (waitTimeout tt : M α) := by
  intro w; unfold waitTimeout; cases tt <;> rfl

theorem Sk_bulkRead (n : Nat) (tt : Timeout) : Sk (bulkRead n tt) := by
  intro w
  unfold bulkRead waitTimeout
  dsimp only
  repeat' split
  all_goals rfl

theorem Sk_bulkWrite (d : Bytes) (tt : Timeout) : Sk (bulkWrite d tt) := by
  intro w
  unfold bulkWrite waitTimeout
  dsimp only
  repeat' split
  all_goals rfl

macro_rules | `(tactic| sk_lemma) => `(tactic| with_reducible exact Sk_waitTimeout _)
macro_rules | `(tactic| sk_lemma) => `(tactic| with_reducible exact Sk_bulkRead _ _)
macro_rules | `(tactic| sk_lemma) => `(tactic| with_reducible exact Sk_bulkWrite _ _)

theorem Sk_storeFind (t : Txn) (az : Bool) : Sk (storeFind t az) := fun _ => rfl
theorem Sk_storeGet (k : Nat × Nat) : Sk (storeGet k) := by
  intro w; unfold storeGet; split <;> rfl
theorem Sk_storePut (p : Pkt) : Sk (storePut p) := fun _ => rfl
theorem Sk_storeClear (a0 a1 : Nat) : Sk (storeClear a0 a1) := fun _ => rfl
theorem Sk_getTT (tt : Timeout) : Sk (getTT tt) := fun _ => rfl
macro_rules | `(tactic| sk_lemma) => `(tactic| with_reducible exact Sk_storeFind _ _)
macro_rules | `(tactic| sk_lemma) => `(tactic| with_reducible exact Sk_storeGet _)
macro_rules | `(tactic| sk_lemma) => `(tactic| with_reducible exact Sk_storePut _)
macro_rules | `(tactic| sk_lemma) => `(tactic| with_reducible exact Sk_storeClear _ _)
macro_rules | `(tactic| sk_lemma) => `(tactic| with_reducible exact Sk_getTT _)

theorem Sk_runGuard (g : String) (p : Option Bytes) : Sk (runGuard g p) := by
  intro w; unfold runGuard; repeat' split
  all_goals rfl
macro_rules | `(tactic| sk_lemma) => `(tactic| with_reducible exact Sk_runGuard _ _)
theorem Sk_runGuards : ∀ gs p, Sk (runGuards gs p) := by
  intro gs
  induction gs with
  | nil => intro p; unfold runGuards; sk
  | cons g gs ih => intro p; unfold runGuards; sk [ih]
macro_rules | `(tactic| sk_lemma) => `(tactic| with_reducible exact Sk_runGuards _ _)

theorem Sk_readBytesLoop (t : Txn) (start : Int) : ∀ fuel rem acc, Sk (readBytesLoop t start fuel rem acc) := by
  intro fuel
  induction fuel with
  | zero => intro rem acc; unfold readBytesLoop; sk
  | succ f ih =>
    intro rem acc; unfold readBytesLoop
    sk [ih]
macro_rules | `(tactic| sk_lemma) => `(tactic| with_reducible exact Sk_readBytesLoop _ _ _ _ _)

theorem Sk_readBytes (n : Nat) (t : Txn) : Sk (readBytes n t) := by
  unfold readBytes
  sk
macro_rules | `(tactic| sk_lemma) => `(tactic| with_reducible exact Sk_readBytes _ _)

theorem Sk_readPacket (t : Txn) : Sk (readPacket t) := by
  unfold readPacket
  sk
macro_rules | `(tactic| sk_lemma) => `(tactic| with_reducible exact Sk_readPacket _)

theorem Sk_writeAllLoop (t : Txn) (start : Int) : ∀ fuel data, Sk (writeAllLoop t start fuel data) := by
  intro fuel
  induction fuel with
  | zero => intro data; unfold writeAllLoop; sk
  | succ f ih =>
    intro data; unfold writeAllLoop
    sk [ih]
macro_rules | `(tactic| sk_lemma) => `(tactic| with_reducible exact Sk_writeAllLoop _ _ _ _)

theorem Sk_writeAll (d : Bytes) (t : Txn) : Sk (writeAll d t) := by
  unfold writeAll
  sk
macro_rules | `(tactic| sk_lemma) => `(tactic| with_reducible exact Sk_writeAll _ _)

theorem Sk_sendRaw (m : Msg) (t : Txn) : Sk (sendRaw m t) := by
  unfold sendRaw
  sk
macro_rules | `(tactic| sk_lemma) => `(tactic| with_reducible exact Sk_sendRaw _ _)

theorem Sk_ioSend (m : Msg) (t : Txn) : Sk (ioSend m t) := by
  unfold ioSend
  sk
macro_rules | `(tactic| sk_lemma) => `(tactic| with_reducible exact Sk_ioSend _ _)

theorem Sk_drainLoop (ex : List Cmd) (t : Txn) (az : Bool) : ∀ fuel , Sk (drainLoop ex t az fuel ) := by
  intro fuel
  induction fuel with
  | zero => unfold drainLoop; sk
  | succ f ih =>
    unfold drainLoop
    sk [ih]
macro_rules | `(tactic| sk_lemma) => `(tactic| with_reducible exact Sk_drainLoop _ _ _ _)

theorem Sk_readIter (ex : List Cmd) (t : Txn) (az : Bool) : Sk (readIter ex t az) := by
  unfold readIter
  sk
macro_rules | `(tactic| sk_lemma) => `(tactic| with_reducible exact Sk_readIter _ _ _)

theorem Sk_readLoop (ex : List Cmd) (t : Txn) (az : Bool) (start : Int) : ∀ fuel , Sk (readLoop ex t az start fuel ) := by
  intro fuel
  induction fuel with
  | zero => unfold readLoop; sk
  | succ f ih =>
    unfold readLoop
    sk [ih]
macro_rules | `(tactic| sk_lemma) => `(tactic| with_reducible exact Sk_readLoop _ _ _ _ _)

theorem Sk_ioRead (ex : List Cmd) (t : Txn) (az : Bool) : Sk (ioRead ex t az) := by
  unfold ioRead
  sk
macro_rules | `(tactic| sk_lemma) => `(tactic| with_reducible exact Sk_ioRead _ _ _)

theorem Sk_openStream (dest : Bytes) (tt rt total : Timeout) : Sk (openStream dest tt rt total) := by
  unfold openStream
  sk
macro_rules | `(tactic| sk_lemma) => `(tactic| with_reducible exact Sk_openStream _ _ _ _)

theorem Sk_okay (t : Txn) : Sk (okay t) := by
  unfold okay
  sk
macro_rules | `(tactic| sk_lemma) => `(tactic| with_reducible exact Sk_okay _)

theorem Sk_readUntil (ex : List Cmd) (t : Txn) : Sk (readUntil ex t) := by
  unfold readUntil
  sk
macro_rules | `(tactic| sk_lemma) => `(tactic| with_reducible exact Sk_readUntil _ _)

theorem Sk_clse (t : Txn) : Sk (clse t) := by
  unfold clse
  sk
macro_rules | `(tactic| sk_lemma) => `(tactic| with_reducible exact Sk_clse _)

theorem Sk_fsFlushLoop (t : Txn) : ∀ fuel fi, Sk (fsFlushLoop t fuel fi) := by
  intro fuel
  induction fuel with
  | zero => intro fi; unfold fsFlushLoop; sk
  | succ f ih =>
    intro fi; unfold fsFlushLoop
    sk [ih]
macro_rules | `(tactic| sk_lemma) => `(tactic| with_reducible exact Sk_fsFlushLoop _ _ _)

theorem Sk_fsFlush (t : Txn) (fi : FsInfo) : Sk (fsFlush t fi) := by
  unfold fsFlush
  sk
macro_rules | `(tactic| sk_lemma) => `(tactic| with_reducible exact Sk_fsFlush _ _)

theorem Sk_fsSend (id : SyncId) (t : Txn) (fi : FsInfo) (data : Bytes) (size : Option Nat) : Sk (fsSend id t fi data size) := by
  unfold fsSend
  sk
macro_rules | `(tactic| sk_lemma) => `(tactic| with_reducible exact Sk_fsSend _ _ _ _ _)

theorem Sk_fsReadBufferedLoop (size : Nat) (t : Txn) : ∀ fuel fi, Sk (fsReadBufferedLoop size t fuel fi) := by
  intro fuel
  induction fuel with
  | zero => intro fi; unfold fsReadBufferedLoop; sk
  | succ f ih =>
    intro fi; unfold fsReadBufferedLoop
    sk [ih]
macro_rules | `(tactic| sk_lemma) => `(tactic| with_reducible exact Sk_fsReadBufferedLoop _ _ _ _)

theorem Sk_fsReadBuffered (size : Nat) (t : Txn) (fi : FsInfo) : Sk (fsReadBuffered size t fi) := by
  unfold fsReadBuffered
  sk
macro_rules | `(tactic| sk_lemma) => `(tactic| with_reducible exact Sk_fsReadBuffered _ _ _)

theorem Sk_fsRead (ex : List SyncId) (t : Txn) (fi : FsInfo) : Sk (fsRead ex t fi) := by
  unfold fsRead
  sk
macro_rules | `(tactic| sk_lemma) => `(tactic| with_reducible exact Sk_fsRead _ _ _)

theorem Sk_callProgress (cb : CbMode) (path : Bytes) (n total : Nat) : Sk (callProgress cb path n total) := by
  unfold callProgress
  sk
macro_rules | `(tactic| sk_lemma) => `(tactic| with_reducible exact Sk_callProgress _ _ _ _)

theorem Sk_devStat (p : Bytes) (tt rt : Timeout) : Sk (devStat p tt rt) := by
  unfold devStat
  sk
macro_rules | `(tactic| sk_lemma) => `(tactic| with_reducible exact Sk_devStat _ _ _)

theorem Sk_listLoop (t : Txn) : ∀ fuel fi acc, Sk (listLoop t fuel fi acc) := by
  intro fuel
  induction fuel with
  | zero => intro fi acc; unfold listLoop; sk
  | succ f ih =>
    intro fi acc; unfold listLoop
    sk [ih]
macro_rules | `(tactic| sk_lemma) => `(tactic| with_reducible exact Sk_listLoop _ _ _ _)

end Adb.SR
