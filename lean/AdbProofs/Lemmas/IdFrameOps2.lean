import AdbProofs.Lemmas.IdFrameOps
import AdbProofs.Properties.C14
/- `Bd` for the stream, FileSync and device layers. -/
namespace Adb

/-- the one write to the counter: `self._local_id += 1` with the wrap to 1 keeps it below 2^32 (C14_range) -/
theorem Bd_modify_nextId : Bd (M.modify fun w => { w with localId := nextId w.localId }) := by
  intro w h
  exact (C14_range w.localId h).2
macro_rules | `(tactic| bd_lemma) => `(tactic| with_reducible exact Bd_modify_nextId)

theorem Bd_openStream (dest : Bytes) (tt rt total : Timeout) : Bd (openStream dest tt rt total) := by
  unfold openStream
  bd
macro_rules | `(tactic| bd_lemma) => `(tactic| with_reducible exact Bd_openStream _ _ _ _)

theorem Bd_okay (t : Txn) : Bd (okay t) := by
  unfold okay
  bd
macro_rules | `(tactic| bd_lemma) => `(tactic| with_reducible exact Bd_okay _)

theorem Bd_readUntil (ex : List Cmd) (t : Txn) : Bd (readUntil ex t) := by
  unfold readUntil
  bd
macro_rules | `(tactic| bd_lemma) => `(tactic| with_reducible exact Bd_readUntil _ _)

theorem Bd_clse (t : Txn) : Bd (clse t) := by
  unfold clse
  bd
macro_rules | `(tactic| bd_lemma) => `(tactic| with_reducible exact Bd_clse _)

theorem Bd_readUntilCloseLoop (t : Txn) (start : Int) : ∀ fuel acc, Bd (readUntilCloseLoop t start fuel acc) := by
  intro fuel
  induction fuel with
  | zero => intro acc; unfold readUntilCloseLoop; bd
  | succ f ih =>
    intro acc
    unfold readUntilCloseLoop
    bd [ih]
macro_rules | `(tactic| bd_lemma) => `(tactic| with_reducible exact Bd_readUntilCloseLoop _ _ _ _)

theorem Bd_readUntilClose (t : Txn) : Bd (readUntilClose t) := by
  unfold readUntilClose
  bd
macro_rules | `(tactic| bd_lemma) => `(tactic| with_reducible exact Bd_readUntilClose _)

theorem Bd_streamingCommand (svc cmd : Bytes) (tt rt total : Timeout) : Bd (streamingCommand svc cmd tt rt total) := by
  unfold streamingCommand
  bd
macro_rules | `(tactic| bd_lemma) => `(tactic| with_reducible exact Bd_streamingCommand _ _ _ _ _)

theorem Bd_service (svc cmd : Bytes) (tt rt total : Timeout) (dec : Bool) : Bd (service svc cmd tt rt total dec) := by
  unfold service
  bd
macro_rules | `(tactic| bd_lemma) => `(tactic| with_reducible exact Bd_service _ _ _ _ _ _)

theorem Bd_streamingService (svc cmd : Bytes) (tt rt : Timeout) (dec : Bool) : Bd (streamingService svc cmd tt rt dec) := by
  unfold streamingService
  bd
macro_rules | `(tactic| bd_lemma) => `(tactic| with_reducible exact Bd_streamingService _ _ _ _ _)

theorem Bd_fsFlushLoop (t : Txn) : ∀ fuel fi, Bd (fsFlushLoop t fuel fi) := by
  intro fuel
  induction fuel with
  | zero => intro fi; unfold fsFlushLoop; bd
  | succ f ih =>
    intro fi
    unfold fsFlushLoop
    bd [ih]
macro_rules | `(tactic| bd_lemma) => `(tactic| with_reducible exact Bd_fsFlushLoop _ _ _)

theorem Bd_fsFlush (t : Txn) (fi : FsInfo) : Bd (fsFlush t fi) := by
  unfold fsFlush
  bd
macro_rules | `(tactic| bd_lemma) => `(tactic| with_reducible exact Bd_fsFlush _ _)

theorem Bd_fsSend (id : SyncId) (t : Txn) (fi : FsInfo) (data : Bytes) (size : Option Nat) : Bd (fsSend id t fi data size) := by
  unfold fsSend
  bd
macro_rules | `(tactic| bd_lemma) => `(tactic| with_reducible exact Bd_fsSend _ _ _ _ _)

theorem Bd_fsReadBufferedLoop (size : Nat) (t : Txn) : ∀ fuel fi, Bd (fsReadBufferedLoop size t fuel fi) := by
  intro fuel
  induction fuel with
  | zero => intro fi; unfold fsReadBufferedLoop; bd
  | succ f ih =>
    intro fi
    unfold fsReadBufferedLoop
    bd [ih]
macro_rules | `(tactic| bd_lemma) => `(tactic| with_reducible exact Bd_fsReadBufferedLoop _ _ _ _)

theorem Bd_fsReadBuffered (size : Nat) (t : Txn) (fi : FsInfo) : Bd (fsReadBuffered size t fi) := by
  unfold fsReadBuffered
  bd
macro_rules | `(tactic| bd_lemma) => `(tactic| with_reducible exact Bd_fsReadBuffered _ _ _)

theorem Bd_fsRead (ex : List SyncId) (t : Txn) (fi : FsInfo) : Bd (fsRead ex t fi) := by
  unfold fsRead
  bd
macro_rules | `(tactic| bd_lemma) => `(tactic| with_reducible exact Bd_fsRead _ _ _)

theorem Bd_lookupFile (id : Nat) : Bd (lookupFile id) := by
  intro w; unfold lookupFile; split <;> bd_rfl
macro_rules | `(tactic| bd_lemma) => `(tactic| with_reducible exact Bd_lookupFile _)
theorem Bd_callProgress (cb : CbMode) (path : Bytes) (n total : Nat) : Bd (callProgress cb path n total) := by
  unfold callProgress
  bd
macro_rules | `(tactic| bd_lemma) => `(tactic| with_reducible exact Bd_callProgress _ _ _ _)
theorem Bd_pushDataLoop (devPath : Bytes) (cb : CbMode) (total chunk : Nat) (t : Txn) : ∀ fuel content fi, Bd (pushDataLoop devPath cb total chunk t fuel content fi) := by
  intro fuel
  induction fuel with
  | zero => intro content fi; unfold pushDataLoop; bd
  | succ f ih =>
    intro content fi
    unfold pushDataLoop
    bd [ih]
macro_rules | `(tactic| bd_lemma) => `(tactic| with_reducible exact Bd_pushDataLoop _ _ _ _ _ _ _ _)

theorem Bd_pushStatus (t : Txn) (fi : FsInfo) : Bd (pushStatus t fi) := by
  unfold pushStatus
  bd
macro_rules | `(tactic| bd_lemma) => `(tactic| with_reducible exact Bd_pushStatus _ _)

theorem Bd_pushOne (content devPath : Bytes) (mode mtime : Nat) (cb : CbMode) (t : Txn) (fi : FsInfo) : Bd (pushOne content devPath mode mtime cb t fi) := by
  unfold pushOne
  bd
macro_rules | `(tactic| bd_lemma) => `(tactic| with_reducible exact Bd_pushOne _ _ _ _ _ _ _)

theorem Bd_runGuard (g : String) (p : Option Bytes) : Bd (runGuard g p) := by
  intro w; unfold runGuard; repeat' split
  all_goals bd_rfl
macro_rules | `(tactic| bd_lemma) => `(tactic| with_reducible exact Bd_runGuard _ _)
theorem Bd_runGuards : ∀ gs p, Bd (runGuards gs p) := by
  intro gs
  induction gs with
  | nil => intro p; unfold runGuards; bd
  | cons g gs ih => intro p; unfold runGuards; bd [ih]
macro_rules | `(tactic| bd_lemma) => `(tactic| with_reducible exact Bd_runGuards _ _)
theorem Bd_devShellLike (op : String) (svc cmd : Bytes) (tt rt total : Timeout) (dec : Bool) : Bd (devShellLike op svc cmd tt rt total dec) := by
  unfold devShellLike
  bd
macro_rules | `(tactic| bd_lemma) => `(tactic| with_reducible exact Bd_devShellLike _ _ _ _ _ _ _)

theorem Bd_devRoot (tt rt total : Timeout) : Bd (devRoot tt rt total) := by
  unfold devRoot
  bd
macro_rules | `(tactic| bd_lemma) => `(tactic| with_reducible exact Bd_devRoot _ _ _)

theorem Bd_devReboot (fb : Bool) (tt rt total : Timeout) : Bd (devReboot fb tt rt total) := by
  unfold devReboot
  bd
macro_rules | `(tactic| bd_lemma) => `(tactic| with_reducible exact Bd_devReboot _ _ _ _)

theorem Bd_devStreamingShell (cmd : Bytes) (tt rt : Timeout) (dec : Bool) : Bd (devStreamingShell cmd tt rt dec) := by
  unfold devStreamingShell
  bd
macro_rules | `(tactic| bd_lemma) => `(tactic| with_reducible exact Bd_devStreamingShell _ _ _ _)

theorem Bd_listLoop (t : Txn) : ∀ fuel fi acc, Bd (listLoop t fuel fi acc) := by
  intro fuel
  induction fuel with
  | zero => intro fi acc; unfold listLoop; bd
  | succ f ih =>
    intro fi acc
    unfold listLoop
    bd [ih]
macro_rules | `(tactic| bd_lemma) => `(tactic| with_reducible exact Bd_listLoop _ _ _ _)

theorem Bd_devList (p : Bytes) (tt rt : Timeout) : Bd (devList p tt rt) := by
  unfold devList
  bd
macro_rules | `(tactic| bd_lemma) => `(tactic| with_reducible exact Bd_devList _ _ _)

theorem Bd_devStat (p : Bytes) (tt rt : Timeout) : Bd (devStat p tt rt) := by
  unfold devStat
  bd
macro_rules | `(tactic| bd_lemma) => `(tactic| with_reducible exact Bd_devStat _ _ _)

theorem Bd_pullLoop (devPath : Bytes) (cb : CbMode) (total : Nat) (t : Txn) : ∀ fuel fi, Bd (pullLoop devPath cb total t fuel fi) := by
  intro fuel
  induction fuel with
  | zero => intro fi; unfold pullLoop; bd
  | succ f ih =>
    intro fi
    unfold pullLoop
    bd [ih]
macro_rules | `(tactic| bd_lemma) => `(tactic| with_reducible exact Bd_pullLoop _ _ _ _ _ _)

theorem Bd_pullInner (devPath : Bytes) (cb : CbMode) (t : Txn) (fi : FsInfo) : Bd (pullInner devPath cb t fi) := by
  unfold pullInner
  bd
macro_rules | `(tactic| bd_lemma) => `(tactic| with_reducible exact Bd_pullInner _ _ _ _)

theorem Bd_devPull (devPath : Bytes) (cb : CbMode) (tt rt : Timeout) : Bd (devPull devPath cb tt rt) := by
  unfold devPull
  bd
macro_rules | `(tactic| bd_lemma) => `(tactic| with_reducible exact Bd_devPull _ _ _ _)

theorem Bd_pushFile (fid : Nat) (devPath : Bytes) (mode mtime : Nat) (cb : CbMode) (tt rt : Timeout) : Bd (pushFile fid devPath mode mtime cb tt rt) := by
  unfold pushFile
  bd
macro_rules | `(tactic| bd_lemma) => `(tactic| with_reducible exact Bd_pushFile _ _ _ _ _ _ _)

theorem Bd_pushFiles (devPath : Bytes) (mode mtime : Nat) (cb : CbMode) (tt rt : Timeout) : ∀ es, Bd (pushFiles devPath mode mtime cb tt rt es) := by
  intro es
  induction es with
  | nil => unfold pushFiles; bd
  | cons e es ih => obtain ⟨n, f⟩ := e; unfold pushFiles; bd [ih]
macro_rules | `(tactic| bd_lemma) => `(tactic| with_reducible exact Bd_pushFiles _ _ _ _ _ _ _)
theorem Bd_devPush (src : LocalRef) (devPath : Bytes) (mode mtime : Nat) (cb : CbMode) (tt rt : Timeout) : Bd (devPush src devPath mode mtime cb tt rt) := by
  unfold devPush
  bd
macro_rules | `(tactic| bd_lemma) => `(tactic| with_reducible exact Bd_devPush _ _ _ _ _ _ _)


end Adb
