import AdbProofs.Lemmas.SrcLoops
import AdbProofs.Properties.C07Src
/-
  Helper lemmas for C10SrcRead (the GENERATED translation of `AdbDevice._filesync_read` against the model's `fsRead`): the pure classification `recOf`,
  the encodings of FileSync ids, `struct.unpack('<nI', …)` against the model's `unpackWords`, the `FILESYNC_WIRE_TO_ID` table against `SyncId.ofWire?`,
  membership in a list of ids, and the tuple index / slice operations the method uses.
-/
set_option linter.unusedSimpArgs false
namespace Adb

/-- the bytes object of a FileSync id (`constants.DATA`, …) -/
def SyncId.idBytes (c : SyncId) : Bytes := ascii c.name

/-- the list of expected FileSync ids as the Python list of their byte strings -/
def encIds (l : List SyncId) : Py.Val := .list (l.map fun c => .bytes c.idBytes)

/-- the pure classification the model's `fsRead` performs once header bytes `hdr` and payload bytes `data` are there -/
def recOf (f : SyncFmt) (expected : List SyncId) (hdr data : Bytes) : Except Err (SyncId × List Nat × Option Bytes) :=
  let header := Adb.unpackWords (f.size / 4) hdr
  match SyncId.ofWire? (header.headD 0) with
  | none => .error .pyKeyError
  | some cid =>
    if cid = .STAT then
      (if !expected.contains cid then .error .invalidResponse else .ok (cid, header.drop 1, none))
    else
      (if !expected.contains cid then (if cid = .FAIL then .error (.adbCommandFailure data) else .error .invalidResponse)
       else .ok (cid, (header.drop 1).dropLast, some data))

/-- does the header name a known id that carries a payload, and of which length (`header[-1]`)? `none`: nothing more is read (unknown id word, or STAT) -/
def fsPayloadLen (f : SyncFmt) (hdr : Bytes) : Option Nat :=
  let header := Adb.unpackWords (f.size / 4) hdr
  match SyncId.ofWire? (header.headD 0) with
  | none => none
  | some cid => if cid = .STAT then none else some (header.getLastD 0)

/-- `recOf`'s result as what `fsRead` returns (the record, and the transaction info after the reads) -/
def recResult (r : Except Err (SyncId × List Nat × Option Bytes)) (fi : FsInfo) : Except Err (SyncRec × FsInfo) :=
  match r with
  | .ok (c, fl, d) => .ok (⟨c, fl, d⟩, fi)
  | .error e => .error e

/-! ### ids -/

theorem SyncId.idBytes_eq_iff (c d : SyncId) : (c.idBytes == d.idBytes) = (c == d) := by cases c <;> cases d <;> decide

theorem SyncId.idBytes_ne_nil (c : SyncId) : c.idBytes.isEmpty = false := by cases c <;> decide

theorem SyncId.wire_eq (c : SyncId) :
    c.wire = match c with
      | .DATA => 1096040772 | .DENT => 1414415684 | .DONE => 1162760004 | .FAIL => 1279869254 | .LIST => 1414744396
      | .OKAY => 1497451343 | .QUIT => 1414092113 | .RECV => 1447249234 | .SEND => 1145980243 | .STAT => 1413567571 := by
  cases c <;> decide

theorem src_const_STAT : Src.const_STAT = .bytes SyncId.STAT.idBytes := by
  unfold Src.const_STAT; exact congrArg Py.Val.bytes (by decide)
theorem src_const_FAIL : Src.const_FAIL = .bytes SyncId.FAIL.idBytes := by
  unfold Src.const_FAIL; exact congrArg Py.Val.bytes (by decide)

theorem anyEq_syncIdBytes (c : SyncId) (l : List SyncId) :
    Py.anyEq (.bytes c.idBytes) (l.map fun d => Py.Val.bytes d.idBytes) = .ok (l.contains c) := by
  induction l with
  | nil => simp [Py.anyEq, pure, Except.pure]
  | cons d rest ih =>
    have hw : (c.idBytes == d.idBytes) = (c == d) := SyncId.idBytes_eq_iff c d
    by_cases h : c = d
    · subst h; simp [Py.anyEq, Py.eq, bind, Except.bind, pure, Except.pure]
    · have h' : (c == d) = false := by simp [h]
      have h2 : ¬ (c.idBytes = d.idBytes) := by
        intro he; have : (c.idBytes == d.idBytes) = true := by simp [he]
        rw [hw, h'] at this; exact Bool.noConfusion this
      simp [Py.anyEq, Py.eq, bind, Except.bind, pure, Except.pure, h2, ih, List.contains_cons, h']
      intro he; exact absurd he h

/-- `command_id not in expected_ids` -/
theorem notInV_syncIds (c : SyncId) (l : List SyncId) : Py.notInV (.bytes c.idBytes) (encIds l) = .ok (.bool (!l.contains c)) := by
  simp [Py.notInV, Py.contains, encIds, anyEq_syncIdBytes, bind, Except.bind, pure, Except.pure]

/-- `command_id != constants.STAT` -/
theorem neV_syncId_STAT (c : SyncId) : Py.neV (.bytes c.idBytes) Src.const_STAT = .ok (.bool (!(c == SyncId.STAT))) := by
  rw [src_const_STAT, Py.neV_bytes_bytes, SyncId.idBytes_eq_iff]

/-- `command_id == constants.FAIL` -/
theorem eqV_syncId_FAIL (c : SyncId) : Py.eqV (.bytes c.idBytes) Src.const_FAIL = .ok (.bool (c == SyncId.FAIL)) := by
  rw [src_const_FAIL, Py.eqV_bytes_bytes, SyncId.idBytes_eq_iff]

/-! ### the `FILESYNC_WIRE_TO_ID` table -/

/-- the generated `constants.FILESYNC_WIRE_TO_ID` table, indexed with `[…]`, is the model's `SyncId.ofWire?` (`KeyError` for an unknown word) -/
theorem src_fsWireToId_get (n : Nat) :
    Py.getItem Src.const_FILESYNC_WIRE_TO_ID (.int n)
      = (match SyncId.ofWire? n with | some c => .ok (.bytes c.idBytes) | none => .error .keyError) := by
  by_cases h1 : n = 1096040772
  · subst h1; rfl
  by_cases h2 : n = 1414415684
  · subst h2; rfl
  by_cases h3 : n = 1162760004
  · subst h3; rfl
  by_cases h4 : n = 1279869254
  · subst h4; rfl
  by_cases h5 : n = 1414744396
  · subst h5; rfl
  by_cases h6 : n = 1497451343
  · subst h6; rfl
  by_cases h7 : n = 1414092113
  · subst h7; rfl
  by_cases h8 : n = 1447249234
  · subst h8; rfl
  by_cases h9 : n = 1145980243
  · subst h9; rfl
  by_cases h10 : n = 1413567571
  · subst h10; rfl
  have hw : SyncId.ofWire? n = none := by
    simp only [SyncId.ofWire?, SyncId.all, List.find?, SyncId.wire_eq]
    have e1 : ((1096040772 : Nat) == n) = false := by simp; omega
    have e2 : ((1414415684 : Nat) == n) = false := by simp; omega
    have e3 : ((1162760004 : Nat) == n) = false := by simp; omega
    have e4 : ((1279869254 : Nat) == n) = false := by simp; omega
    have e5 : ((1414744396 : Nat) == n) = false := by simp; omega
    have e6 : ((1497451343 : Nat) == n) = false := by simp; omega
    have e7 : ((1414092113 : Nat) == n) = false := by simp; omega
    have e8 : ((1447249234 : Nat) == n) = false := by simp; omega
    have e9 : ((1145980243 : Nat) == n) = false := by simp; omega
    have e10 : ((1413567571 : Nat) == n) = false := by simp; omega
    simp [e1, e2, e3, e4, e5, e6, e7, e8, e9, e10]
  rw [hw]
  have k1 : ¬ ((1096040772 : Int) = n) := by omega
  have k2 : ¬ ((1414415684 : Int) = n) := by omega
  have k3 : ¬ ((1162760004 : Int) = n) := by omega
  have k4 : ¬ ((1279869254 : Int) = n) := by omega
  have k5 : ¬ ((1414744396 : Int) = n) := by omega
  have k6 : ¬ ((1497451343 : Int) = n) := by omega
  have k7 : ¬ ((1414092113 : Int) = n) := by omega
  have k8 : ¬ ((1447249234 : Int) = n) := by omega
  have k9 : ¬ ((1145980243 : Int) = n) := by omega
  have k10 : ¬ ((1413567571 : Int) = n) := by omega
  simp [Src.const_FILESYNC_WIRE_TO_ID, Py.getItem, Py.toKey, Py.dlookup, bind, Except.bind, pure, Except.pure, throw, throwThe, MonadExceptOf.throw,
    k1, k2, k3, k4, k5, k6, k7, k8, k9, k10]

/-! ### `struct.unpack('<nI', …)` -/

theorem rd32_of_length (bs : Bytes) (h : 4 ≤ bs.length) : ∃ v rest, rd32 bs = some (v, rest) ∧ rest.length + 4 = bs.length := by
  match bs, h with
  | a :: b :: c :: d :: rest, _ => exact ⟨_, rest, rfl, by simp⟩

/-- on a buffer of exactly `4n` bytes, the value-level `struct.unpack` yields the model's `unpackWords`, which has `n` entries -/
theorem unpackWords_py_eq (n : Nat) (bs : Bytes) (h : bs.length = 4 * n) :
    Py.unpackWords n bs = some ((Adb.unpackWords n bs).map (fun w => Py.Val.int (w : Nat))) ∧ (Adb.unpackWords n bs).length = n := by
  induction n generalizing bs with
  | zero =>
    have : bs = [] := by
      cases bs with
      | nil => rfl
      | cons a t => simp at h
    subst this
    simp [Py.unpackWords, Adb.unpackWords]
  | succ n ih =>
    obtain ⟨v, rest, hr, hl⟩ := rd32_of_length bs (by omega)
    have ih' := ih rest (by omega)
    simp [Py.unpackWords, Adb.unpackWords, hr, ih'.1, ih'.2]

theorem SyncFmt.words_ge_two (f : SyncFmt) : 2 ≤ f.size / 4 ∧ 4 * (f.size / 4) = f.size := by cases f <;> decide

theorem SyncFmt.fmtWords (f : SyncFmt) : ∃ b, f.pyFormat = .bytes b ∧ Py.fmtWords b = some (f.size / 4) := by
  cases f
  · exact ⟨_, rfl, by decide⟩
  · exact ⟨_, rfl, by decide⟩
  · exact ⟨_, rfl, by decide⟩
  · exact ⟨_, rfl, by decide⟩

/-- `struct.unpack(filesync_info.recv_message_format, header_data)` on `recv_message_size` bytes -/
theorem structUnpack_syncFmt (f : SyncFmt) (hdr : Bytes) (hlen : hdr.length = f.size) :
    Py.structUnpack f.pyFormat (.bytearray hdr) = .ok (.tuple ((Adb.unpackWords (f.size / 4) hdr).map (fun w => Py.Val.int (w : Nat)))) := by
  obtain ⟨b, hb, hw⟩ := SyncFmt.fmtWords f
  have h4 := (SyncFmt.words_ge_two f).2
  have hu := (unpackWords_py_eq (f.size / 4) hdr (by omega)).1
  simp [Py.structUnpack, hb, Py.fmtBytes, Py.bytesOf, hw, hu, bind, Except.bind, pure, Except.pure]

theorem unpackWords_syncFmt_length (f : SyncFmt) (hdr : Bytes) (hlen : hdr.length = f.size) : 2 ≤ (Adb.unpackWords (f.size / 4) hdr).length := by
  have h4 := SyncFmt.words_ge_two f
  rw [(unpackWords_py_eq (f.size / 4) hdr (by omega)).2]; exact h4.1

/-! ### tuple index and slices -/

theorem getItem_tuple_zero (v : Py.Val) (l : List Py.Val) : Py.getItem (.tuple (v :: l)) (.int 0) = .ok v := by
  simp [Py.getItem, pure, Except.pure]

/-- `header[1:]` -/
theorem sliceTL_tuple_1_0 (l : List Py.Val) : Py.sliceTL (.tuple l) 1 0 = .ok (.tuple (l.drop 1)) := by
  have h : (l.drop 1).take (l.length - 0 - 1) = l.drop 1 := List.take_of_length_le (by simp)
  simp only [Py.sliceTL, h]; rfl

/-- `header[1:-1]` -/
theorem sliceTL_tuple_1_1 (l : List Py.Val) : Py.sliceTL (.tuple l) 1 1 = .ok (.tuple ((l.drop 1).dropLast)) := by
  simp [Py.sliceTL, pure, Except.pure, List.dropLast_eq_take]

end Adb
