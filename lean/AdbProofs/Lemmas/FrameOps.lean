import AdbProofs.Lemmas.Frame
/- `Fr` for every function of the sequential model, bottom-up. -/
namespace Adb

theorem Fr_waitTimeout {α} (tt : Timeout) : Fr (waitTimeout tt : M α) := by
  intro w; unfold waitTimeout; cases tt <;> frame_rfl

theorem Fr_bulkRead (n : Nat) (tt : Timeout) : Fr (bulkRead n tt) := by
  intro w
  unfold bulkRead
  repeat' split
  all_goals first | frame_rfl | exact Fr_waitTimeout tt _ | exact Frame.trans (by frame_rfl) (Fr_waitTimeout tt _)

theorem Fr_bulkWrite (d : Bytes) (tt : Timeout) : Fr (bulkWrite d tt) := by
  intro w
  unfold bulkWrite
  repeat' split
  all_goals first | frame_rfl | exact Fr_waitTimeout tt _ | exact Frame.trans (by frame_rfl) (Fr_waitTimeout tt _)

theorem Fr_tClose : Fr tClose := by
  intro w; unfold tClose; split <;> frame_rfl

theorem Fr_tConnect (tt : Timeout) : Fr (tConnect tt) := by
  intro w; unfold tConnect; repeat' split
  all_goals frame_rfl

macro_rules | `(tactic| fr_lemma) => `(tactic| with_reducible exact Fr_waitTimeout _)
macro_rules | `(tactic| fr_lemma) => `(tactic| with_reducible exact Fr_bulkRead _ _)
macro_rules | `(tactic| fr_lemma) => `(tactic| with_reducible exact Fr_bulkWrite _ _)
macro_rules | `(tactic| fr_lemma) => `(tactic| with_reducible exact Fr_tClose)
macro_rules | `(tactic| fr_lemma) => `(tactic| with_reducible exact Fr_tConnect _)

theorem Fr_readBytesLoop (t : Txn) (start : Int) : ∀ fuel rem acc, Fr (readBytesLoop t start fuel rem acc) := by
  intro fuel
  induction fuel with
  | zero => intro rem acc; unfold readBytesLoop; fr
  | succ f ih =>
    intro rem acc
    unfold readBytesLoop
    fr [ih]

macro_rules | `(tactic| fr_lemma) => `(tactic| with_reducible exact Fr_readBytesLoop _ _ _ _ _)
theorem Fr_readBytes (n : Nat) (t : Txn) : Fr (readBytes n t) := by
  unfold readBytes
  fr
macro_rules | `(tactic| fr_lemma) => `(tactic| with_reducible exact Fr_readBytes _ _)

theorem Fr_readPacket (t : Txn) : Fr (readPacket t) := by
  unfold readPacket
  fr
macro_rules | `(tactic| fr_lemma) => `(tactic| with_reducible exact Fr_readPacket _)

theorem Fr_writeAllLoop (t : Txn) (start : Int) : ∀ fuel data, Fr (writeAllLoop t start fuel data) := by
  intro fuel
  induction fuel with
  | zero => intro data; unfold writeAllLoop; fr
  | succ f ih =>
    intro data
    unfold writeAllLoop
    fr [ih]
macro_rules | `(tactic| fr_lemma) => `(tactic| with_reducible exact Fr_writeAllLoop _ _ _ _)

theorem Fr_writeAll (d : Bytes) (t : Txn) : Fr (writeAll d t) := by
  unfold writeAll
  fr
macro_rules | `(tactic| fr_lemma) => `(tactic| with_reducible exact Fr_writeAll _ _)

theorem Fr_sendRaw (m : Msg) (t : Txn) : Fr (sendRaw m t) := by
  unfold sendRaw
  fr
macro_rules | `(tactic| fr_lemma) => `(tactic| with_reducible exact Fr_sendRaw _ _)

theorem Fr_ioSend (m : Msg) (t : Txn) : Fr (ioSend m t) := by
  unfold ioSend
  fr
macro_rules | `(tactic| fr_lemma) => `(tactic| with_reducible exact Fr_ioSend _ _)

theorem Fr_expectLoop (ex : List Cmd) (t : Txn) (start : Int) : ∀ fuel , Fr (expectLoop ex t start fuel ) := by
  intro fuel
  induction fuel with
  | zero => unfold expectLoop; fr
  | succ f ih =>
    unfold expectLoop
    fr [ih]
macro_rules | `(tactic| fr_lemma) => `(tactic| with_reducible exact Fr_expectLoop _ _ _ _)

theorem Fr_expectPacket (ex : List Cmd) (t : Txn) : Fr (expectPacket ex t) := by
  unfold expectPacket
  fr
macro_rules | `(tactic| fr_lemma) => `(tactic| with_reducible exact Fr_expectPacket _ _)

theorem Fr_storeFind (t : Txn) (az : Bool) : Fr (storeFind t az) := fun w => Frame.refl w
theorem Fr_storeGet (k : Nat × Nat) : Fr (storeGet k) := by
  intro w; unfold storeGet; split <;> frame_rfl
theorem Fr_storePut (p : Pkt) : Fr (storePut p) := by
  intro w; unfold storePut; exact ⟨rfl, rfl, rfl, rfl, rfl, rfl, rfl, rfl, [_], rfl⟩
theorem Fr_storeClear (a0 a1 : Nat) : Fr (storeClear a0 a1) := fun w => by unfold storeClear; frame_rfl
theorem Fr_storeClearAll : Fr storeClearAll := fun w => by unfold storeClearAll; frame_rfl
macro_rules | `(tactic| fr_lemma) => `(tactic| with_reducible exact Fr_storeFind _ _)
macro_rules | `(tactic| fr_lemma) => `(tactic| with_reducible exact Fr_storeGet _)
macro_rules | `(tactic| fr_lemma) => `(tactic| with_reducible exact Fr_storePut _)
macro_rules | `(tactic| fr_lemma) => `(tactic| with_reducible exact Fr_storeClear _ _)
macro_rules | `(tactic| fr_lemma) => `(tactic| with_reducible exact Fr_storeClearAll)
theorem Fr_drainLoop (ex : List Cmd) (t : Txn) (az : Bool) : ∀ fuel , Fr (drainLoop ex t az fuel ) := by
  intro fuel
  induction fuel with
  | zero => unfold drainLoop; fr
  | succ f ih =>
    unfold drainLoop
    fr [ih]
macro_rules | `(tactic| fr_lemma) => `(tactic| with_reducible exact Fr_drainLoop _ _ _ _)

theorem Fr_readIter (ex : List Cmd) (t : Txn) (az : Bool) : Fr (readIter ex t az) := by
  unfold readIter
  fr
macro_rules | `(tactic| fr_lemma) => `(tactic| with_reducible exact Fr_readIter _ _ _)

theorem Fr_readLoop (ex : List Cmd) (t : Txn) (az : Bool) (start : Int) : ∀ fuel , Fr (readLoop ex t az start fuel ) := by
  intro fuel
  induction fuel with
  | zero => unfold readLoop; fr
  | succ f ih =>
    unfold readLoop
    fr [ih]
macro_rules | `(tactic| fr_lemma) => `(tactic| with_reducible exact Fr_readLoop _ _ _ _ _)

theorem Fr_ioRead (ex : List Cmd) (t : Txn) (az : Bool) : Fr (ioRead ex t az) := by
  unfold ioRead
  fr
macro_rules | `(tactic| fr_lemma) => `(tactic| with_reducible exact Fr_ioRead _ _ _)

theorem Fr_ioClose  : Fr (ioClose) := by
  unfold ioClose
  fr
macro_rules | `(tactic| fr_lemma) => `(tactic| with_reducible exact Fr_ioClose)

theorem Fr_authLoop (t : Txn) : ∀ keys last, Fr (authLoop t keys last) := by
  intro keys
  induction keys with
  | nil => intro last; unfold authLoop; fr
  | cons k ks ih =>
    intro last
    unfold authLoop
    fr [ih]
macro_rules | `(tactic| fr_lemma) => `(tactic| with_reducible exact Fr_authLoop _ _ _)
theorem Fr_ioConnect (b : Bytes) (keys : List Nat) (authT : Timeout) (cb : Bool) (t : Txn) : Fr (ioConnect b keys authT cb t) := by
  unfold ioConnect
  fr
macro_rules | `(tactic| fr_lemma) => `(tactic| with_reducible exact Fr_ioConnect _ _ _ _ _)

theorem Fr_getTT (tt : Timeout) : Fr (getTT tt) := fun w => Frame.refl w
macro_rules | `(tactic| fr_lemma) => `(tactic| with_reducible exact Fr_getTT _)

end Adb
