import AdbProofs.Lemmas.ResetRel
import AdbProofs.Properties.C13
/-
  The invariant behind "after ANY connect() attempt the two objects answer every history alike":
  `Inv w₁ w₂` = the worlds agree except for past/trace/maxdata/sink, and `maxdata` agrees as soon as
  the object is available.  (`maxdata` is only read behind the availability guard, and only a
  successful `connect()` — which sets it — makes the object available.)
-/
namespace Adb.Reset
open Adb

def Inv (w₁ w₂ : World) : Prop := Agree false false w₁ w₂ ∧ (w₁.available = true → w₁.maxdata = w₂.maxdata)

theorem Inv.of_agree_m {s : Bool} {w₁ w₂ : World} (h : Agree true s w₁ w₂) : Inv w₁ w₂ :=
  ⟨⟨h.conns, h.cur, h.now, h.fuel, h.store, h.available, h.localId, h.banner, h.defaultTT, h.locks, h.files, h.dirs,
    (by intro h; cases h), (by intro h; cases h)⟩, fun _ => h.maxdata rfl⟩

theorem Inv.agree_m {w₁ w₂ : World} (h : Inv w₁ w₂) (ha : w₁.available = true) : Agree true false w₁ w₂ :=
  ⟨h.1.conns, h.1.cur, h.1.now, h.1.fuel, h.1.store, h.1.available, h.1.localId, h.1.banner, h.1.defaultTT, h.1.locks,
    h.1.files, h.1.dirs, fun _ => h.2 ha, (by intro h; cases h)⟩

/-- `connect()` keeps the invariant: on success it sets `maxdata` alike, on failure the object is unavailable -/
theorem devConnect_inv (keys : List Nat) (tt authT rt : Timeout) (cb : Bool) (w₁ w₂ : World) (h : Inv w₁ w₂) :
    (devConnect keys tt authT rt cb w₁).1 = (devConnect keys tt authT rt cb w₂).1 ∧
    Inv (devConnect keys tt authT rt cb w₁).2 (devConnect keys tt authT rt cb w₂).2 := by
  obtain ⟨g1, g2, -⟩ := Ins_devConnect keys tt authT rt cb w₁ w₂ h.1
  refine ⟨g1, g2, ?_⟩
  cases hm : Txn.make none none (if tt.isSome = true then tt else w₁.defaultTT) rt none with
  | error e =>
    have hm2 : Txn.make none none (if tt.isSome = true then tt else w₂.defaultTT) rt none = .error e := by
      rw [← h.1.defaultTT]; exact hm
    rw [devConnect_run_err keys tt authT rt cb w₁ e hm, devConnect_run_err keys tt authT rt cb w₂ e hm2]
    exact h.2
  | ok t =>
    have hm2 : Txn.make none none (if tt.isSome = true then tt else w₂.defaultTT) rt none = .ok t := by
      rw [← h.1.defaultTT]; exact hm
    have ha : Agree false false { w₁ with available := false } { w₂ with available := false } :=
      ⟨h.1.conns, h.1.cur, h.1.now, h.1.fuel, h.1.store, rfl, h.1.localId, h.1.banner, h.1.defaultTT, h.1.locks,
        h.1.files, h.1.dirs, (by intro h; cases h), (by intro h; cases h)⟩
    obtain ⟨i1, -, -⟩ := Ins_ioConnect w₁.banner keys authT cb t _ _ ha
    have hf := Fr_ioConnect w₁.banner keys authT cb t { w₁ with available := false }
    rw [devConnect_run_ok keys tt authT rt cb w₁ t w₁.banner hm rfl,
      devConnect_run_ok keys tt authT rt cb w₂ t w₁.banner hm2 h.1.banner.symm]
    cases hc₁ : ioConnect w₁.banner keys authT cb t { w₁ with available := false } with
    | mk r₁ v₁ =>
      cases hc₂ : ioConnect w₁.banner keys authT cb t { w₂ with available := false } with
      | mk r₂ v₂ =>
        rw [hc₁, hc₂] at i1
        rw [hc₁] at hf
        simp only at i1
        subst i1
        cases r₁ with
        | ok md => intro _; rfl
        | error e =>
          intro hav
          have : v₁.available = false := hf.available
          rw [this] at hav
          cases hav

/-- every public operation keeps the invariant and returns the same in both worlds -/
theorem apiOp_inv (op : ApiOp) (w₁ w₂ : World) (h : Inv w₁ w₂) :
    (op.run w₁).1 = (op.run w₂).1 ∧ Inv (op.run w₁).2 (op.run w₂).2 := by
  cases hav : w₁.available with
  | true =>
    obtain ⟨g1, g2, -⟩ := Ins_apiOp (s := false) op w₁ w₂ (h.agree_m hav)
    exact ⟨g1, Inv.of_agree_m g2⟩
  | false =>
    have hav2 : w₂.available = false := by rw [← h.1.available]; exact hav
    by_cases hs : op.isStreamOp = true
    · by_cases hp : op.devicePath = some []
      · rw [C13_empty_path op w₁ hp, C13_empty_path op w₂ hp]
        exact ⟨rfl, h⟩
      · rw [C13_guard_no_io op w₁ hs hav hp, C13_guard_no_io op w₂ hs hav2 hp]
        exact ⟨rfl, h⟩
    · cases op with
      | connect keys tt authT rt cb => exact devConnect_inv keys tt authT rt cb w₁ w₂ h
      | close =>
        obtain ⟨g1, g2, -⟩ := Ins_devClose w₁ w₂ h.1
        refine ⟨g1, g2, ?_⟩
        intro ha
        have : (devClose w₁).2.available = false := C13_close_unavailable w₁
        rw [show (ApiOp.close.run w₁) = devClose w₁ from rfl, this] at ha
        cases ha
      | _ => exact absurd rfl hs

theorem history_inv (ops : List ApiOp) (w₁ w₂ : World) (h : Inv w₁ w₂) :
    (runHistory ops w₁).1 = (runHistory ops w₂).1 ∧ Inv (runHistory ops w₁).2 (runHistory ops w₂).2 := by
  induction ops generalizing w₁ w₂ with
  | nil => exact ⟨rfl, h⟩
  | cons op ops ih =>
    obtain ⟨g1, g2⟩ := apiOp_inv op w₁ w₂ h
    obtain ⟨i1, i2⟩ := ih _ _ g2
    simp only [runHistory]
    exact ⟨by rw [g1, i1], i2⟩

end Adb.Reset
