import AdbProofs.Lemmas.TimeLemmas
import AdbProofs.Lemmas.Deliver
/-
  The TIME FRAME: the per-wait bounds of TimeLemmas.lean lifted to whole operations, compositionally.

  Accounting.  `P.W = R + 2 * (R + max D τ)` bounds one wait of `_AdbIOManager.read`, `P.S = R + max D τ`
  bounds one byte-level write wait (`_write_all`); a message with a payload needs two of them.
  Every successful wait delivers exactly one packet to the operation (a `TEv.deliver` event) and every
  `_send` is one `TEv.tx` event, so the "justified time" of a world is a POTENTIAL read off its trace:
      `w.tcost P = (#deliver events) * W + (#write waits of the tx events) * S`.
  The frame `TFat P X w r w'` says: the trace only grew, and if `w` is idle (`TPre`: conforming transport,
  no lock held) and the loop budget exceeds `parked + (growth of the potential) + X + R`, then the result is
  not `hang`, `w'` is idle again, the budget is untouched, and
      `w'.now - w.now ≤ w'.tcost - w.tcost + (0 if the result is normal, X otherwise)`
  (`X` = allowance for the failing wait(s): `W` for one operation, `2 * W` for `pull`, whose clean-up handshake
  may wait once more).  `TF P X x` is "`TFat` for every run of `x`"; it composes over `>>=`, `tryFinally`,
  `if`, `match` (same engineering as `Fr` / `Bd`).
-/
namespace Adb

/-- numeric non-negative effective timeouts `R` (read), `τ` (transport), the call-cost bound `D`, and the device
    object's default transport timeout (an invariant of every operation but the constructor) -/
structure TP where
  R : Int
  τ : Int
  D : Int
  dtt : Timeout      -- the device object's default transport timeout
  files : List (Nat × Bytes) := []   -- the local files (`World.files`), an invariant of every operation
  F : Nat := 0       -- static part of the loop budget: exceeds the length of every local file that `push` reads
  hR : 0 ≤ R
  hτ : 0 ≤ τ
  hD : 1 ≤ D

/-- bound of one byte-level wait (`_write_all`, `_read_bytes_from_device`) -/
def TP.S (P : TP) : Int := P.R + max P.D P.τ
/-- bound of one wait of `_AdbIOManager.read` / `_read_expected_packet_from_device` -/
def TP.W (P : TP) : Int := P.R + 2 * (P.R + max P.D P.τ)

theorem TP.S_pos (P : TP) : 1 ≤ P.S := by have := P.hR; have := P.hD; unfold TP.S; omega
theorem TP.W_eq (P : TP) : P.W = P.R + 2 * P.S := rfl
theorem TP.W_pos (P : TP) : 2 ≤ P.W := by have := P.S_pos; have := P.hR; rw [P.W_eq]; omega

/-! ### potentials read off the trace -/

/-- write waits of one `_send`: the header, and the payload when there is one -/
def msgWaits (m : Msg) : Nat := if m.data.isEmpty then 1 else 2

/-- packets delivered so far -/
def rxCount (tr : List TEv) : Nat := (delivered tr).length
/-- write waits of the messages handed to `_send` so far -/
def txCount (tr : List TEv) : Nat := ((transmitted tr).map msgWaits).sum
/-- payload bytes delivered so far -/
def rxBytes (tr : List TEv) : Nat := ((delivered tr).map (fun p => p.data.length)).sum

theorem rxCount_append (a b : List TEv) : rxCount (a ++ b) = rxCount b + rxCount a := by
  simp [rxCount, delivered_append]
theorem txCount_append (a b : List TEv) : txCount (a ++ b) = txCount b + txCount a := by
  simp [txCount, transmitted_append]
theorem rxBytes_append (a b : List TEv) : rxBytes (a ++ b) = rxBytes b + rxBytes a := by
  simp [rxBytes, delivered_append]

/-- the time justified by the deliveries and transmissions recorded in the trace -/
def World.tcost (P : TP) (w : World) : Int := (rxCount w.trace : Int) * P.W + (txCount w.trace : Int) * P.S

/-- loop-budget potential: justified time plus delivered payload bytes (the FileSync record loops run once
    per buffered record, i.e. at most once per 8 delivered bytes, without any transport activity) -/
def World.tneed (P : TP) (w : World) : Int := w.tcost P + (rxBytes w.trace : Int)

/-- the trace only grew -/
def Ext (w w' : World) : Prop := ∃ evs, w'.trace = evs ++ w.trace

theorem Ext.refl (w : World) : Ext w w := ⟨[], rfl⟩
theorem Ext.trans {a b c : World} (h1 : Ext a b) (h2 : Ext b c) : Ext a c := by
  obtain ⟨e1, h1⟩ := h1; obtain ⟨e2, h2⟩ := h2
  exact ⟨e2 ++ e1, by simp [h2, h1]⟩
theorem Frame.ext {w w' : World} (h : Frame w w') : Ext w w' := h.trace
theorem Fr.ext {α} {x : M α} (hx : Fr x) {w w' : World} {r : Except Err α} (h : x w = (r, w')) : Ext w w' := by
  have := (hx w).trace; rw [h] at this; exact this
theorem Adds.ext {w w' : World} {X Y} (h : Adds w w' X Y) : Ext w w' := by
  obtain ⟨evs, h, _⟩ := h; exact ⟨evs, h⟩

theorem Ext.mono (P : TP) {w w' : World} (h : Ext w w') :
    rxCount w.trace ≤ rxCount w'.trace ∧ txCount w.trace ≤ txCount w'.trace ∧ rxBytes w.trace ≤ rxBytes w'.trace ∧
    w.tcost P ≤ w'.tcost P ∧ w.tneed P ≤ w'.tneed P := by
  obtain ⟨evs, h⟩ := h
  have h1 : rxCount w.trace ≤ rxCount w'.trace := by rw [h, rxCount_append]; omega
  have h2 : txCount w.trace ≤ txCount w'.trace := by rw [h, txCount_append]; omega
  have h3 : rxBytes w.trace ≤ rxBytes w'.trace := by rw [h, rxBytes_append]; omega
  have hW : 0 ≤ P.W := by have := P.W_pos; omega
  have hS : 0 ≤ P.S := by have := P.S_pos; omega
  have h4 : (rxCount w.trace : Int) * P.W ≤ (rxCount w'.trace : Int) * P.W :=
    Int.mul_le_mul_of_nonneg_right (by exact_mod_cast h1) hW
  have h5 : (txCount w.trace : Int) * P.S ≤ (txCount w'.trace : Int) * P.S :=
    Int.mul_le_mul_of_nonneg_right (by exact_mod_cast h2) hS
  refine ⟨h1, h2, h3, ?_, ?_⟩
  · unfold World.tcost; omega
  · unfold World.tneed World.tcost; omega

/-- how an exchange `X` added to the trace moves the potentials -/
theorem Adds.pot (P : TP) {w w' : World} {X : List Xfer} {Y : List Bytes} (h : Adds w w' X Y) :
    rxCount w'.trace = rxCount w.trace + (rxs X).length ∧
    txCount w'.trace = txCount w.trace + ((txs X).map msgWaits).sum ∧
    rxBytes w'.trace = rxBytes w.trace + ((rxs X).map (fun p => p.data.length)).sum ∧
    w'.tcost P = w.tcost P + ((rxs X).length : Int) * P.W + ((((txs X).map msgWaits).sum : Nat) : Int) * P.S := by
  obtain ⟨evs, htr, hd, ht, _, _⟩ := h.dt
  have h1 : rxCount w'.trace = rxCount w.trace + (rxs X).length := by
    rw [htr, rxCount_append]; simp [rxCount, hd]
  have h2 : txCount w'.trace = txCount w.trace + ((txs X).map msgWaits).sum := by
    rw [htr, txCount_append]; simp [txCount, ht]
  have h3 : rxBytes w'.trace = rxBytes w.trace + ((rxs X).map (fun p => p.data.length)).sum := by
    rw [htr, rxBytes_append]; simp [rxBytes, hd]
  refine ⟨h1, h2, h3, ?_⟩
  unfold World.tcost
  rw [h1, h2]
  simp only [Int.natCast_add, Int.add_mul]
  omega

/-! ### the frame -/

/-- idle device object on a conforming transport -/
structure TPre (P : TP) (w : World) : Prop where
  cost : w.CallCost P.D
  locks : w.locks = []
  dtt : w.defaultTT = P.dtt
  files : w.files = P.files

/-- normal return? -/
def okB {α : Type} : Except Err α → Bool
  | .ok _ => true
  | .error _ => false

/-- `hang` verdict? -/
def isHang {α : Type} : Except Err α → Bool
  | .error .hang => true
  | _ => false

@[simp] theorem okB_ok {α} (a : α) : okB (.ok a : Except Err α) = true := rfl
@[simp] theorem okB_error {α} (e : Err) : okB (.error e : Except Err α) = false := rfl
@[simp] theorem isHang_ok {α} (a : α) : isHang (.ok a : Except Err α) = false := rfl
theorem isHang_error {α} (e : Err) : isHang (.error e : Except Err α) = decide (e = .hang) := by
  cases e <;> rfl
theorem isHang_false_iff {α} {r : Except Err α} : isHang r = false ↔ r ≠ .error .hang := by
  cases r with
  | ok a => simp
  | error e => cases e <;> simp [isHang]

/-- the loop budget exceeds: parked packets + growth of the budget potential + allowance `X` + read timeout
    + the static part `F` -/
def Budget (P : TP) (X : Int) (w w' : World) : Prop :=
  (parkedCount w.store : Int) + (w'.tneed P - w.tneed P) + X + P.R + P.F < w.fuel

structure TPost (P : TP) (X : Int) (w : World) (ok : Bool) (w' : World) : Prop where
  pre : TPre P w'
  fuel : w'.fuel = w.fuel
  mono : w.now ≤ w'.now
  park : (parkedCount w'.store : Int) - w'.now ≤ parkedCount w.store - w.now
  time : w'.now - w.now ≤ w'.tcost P - w.tcost P + (if ok then 0 else X)

/-- the time frame of one run `w ⟶ (r, w')` -/
def TFat {α : Type} (P : TP) (X : Int) (w : World) (r : Except Err α) (w' : World) : Prop :=
  Ext w w' ∧ (TPre P w → Budget P X w w' → isHang r = false ∧ TPost P X w (okB r) w')

/-- `x` respects the time frame in every world -/
def TF {α : Type} (P : TP) (X : Int) (x : M α) : Prop := ∀ w r w', x w = (r, w') → TFat P X w r w'

theorem TFat.ext {α} {P : TP} {X : Int} {w w' : World} {r : Except Err α} (h : TFat P X w r w') : Ext w w' := h.1

/-- the frame only looks at "normal / exception / hang" of the result -/
theorem TFat.congr {α β} {P : TP} {X : Int} {w w' : World} {r : Except Err α} {r' : Except Err β}
    (h : TFat P X w r w') (h1 : okB r' = okB r) (h2 : isHang r' = isHang r) : TFat P X w r' w' := by
  obtain ⟨e, h⟩ := h
  refine ⟨e, fun hp hb => ?_⟩
  rw [h1, h2]; exact h hp hb

theorem TFat.mono {α} {P : TP} {X Y : Int} {w w' : World} {r : Except Err α} (h : TFat P X w r w') (hXY : X ≤ Y) :
    TFat P Y w r w' := by
  obtain ⟨e, h⟩ := h
  refine ⟨e, fun hp hb => ?_⟩
  obtain ⟨h1, h2⟩ := h hp (by unfold Budget at hb ⊢; omega)
  refine ⟨h1, h2.pre, h2.fuel, h2.mono, h2.park, ?_⟩
  have := h2.time
  split <;> simp_all <;> omega

theorem TF.mono {α} {P : TP} {X Y : Int} {x : M α} (h : TF P X x) (hXY : X ≤ Y) : TF P Y x :=
  fun w r w' hx => (h w r w' hx).mono hXY

/-- sequential composition of two runs `w ⟶ w1 ⟶ w'`; `X1`, `X2` are the allowances of the parts, `X` of the
    whole.  The second part runs whatever the outcome of the first (as in `tryFinally`); for `>>=` the first
    part returned normally, so its allowance is not used and `X = X2` suffices (`hX`). -/
theorem TFat.seq {α β γ} {P : TP} {X1 X2 X : Int} {w w1 w' : World}
    {r1 : Except Err α} {r2 : Except Err β} {r : Except Err γ}
    (h1 : TFat P X1 w r1 w1) (h2 : TFat P X2 w1 r2 w')
    (hX1 : X1 ≤ X) (hX2 : 0 ≤ X2) (hX : (if okB r1 then 0 else X1) + X2 ≤ X)
    (hh : isHang r1 = false → isHang r2 = false → isHang r = false)
    (hok : okB r = true → okB r1 = true ∧ okB r2 = true) : TFat P X w r w' := by
  obtain ⟨e1, h1⟩ := h1
  obtain ⟨e2, h2⟩ := h2
  refine ⟨e1.trans e2, fun hp hb => ?_⟩
  obtain ⟨_, _, _, m1c, m1n⟩ := e1.mono P
  obtain ⟨_, _, _, m2c, m2n⟩ := e2.mono P
  unfold Budget at hb
  obtain ⟨a1, a2⟩ := h1 hp (by unfold Budget; omega)
  have t1 := a2.time
  have p1 := a2.park
  have f1 := a2.fuel
  have hX' : (if okB r1 = true then (0 : Int) else X1) + X2 ≤ X := hX
  have hb2 : Budget P X2 w1 w' := by
    unfold Budget
    unfold World.tneed at hb m1n m2n ⊢
    rw [f1]
    split at t1 <;> split at hX' <;> simp_all <;> omega
  obtain ⟨b1, b2⟩ := h2 a2.pre hb2
  have t2 := b2.time
  refine ⟨hh a1 b1, b2.pre, b2.fuel.trans f1, by have := a2.mono; have := b2.mono; omega,
    by have := b2.park; omega, ?_⟩
  by_cases hr : okB r = true
  · obtain ⟨o1, o2⟩ := hok hr
    simp only [o1, o2, hr, if_true] at t1 t2 ⊢
    omega
  · simp only [hr]
    split at t1 <;> split at t2 <;> split at hX' <;> simp_all <;> omega

/-! ### combinators -/

theorem TF_bind {α β} {P : TP} {X : Int} (hX : 0 ≤ X) {x : M α} {f : α → M β} (hx : TF P X x) (hf : ∀ a, TF P X (f a)) :
    TF P X (x >>= f) := by
  intro w r w' h
  rcases bind_any_inv h with ⟨e, he, rfl⟩ | ⟨a, w1, hxa, hfa⟩
  · exact (hx w _ w' he).congr rfl (by rw [isHang_error, isHang_error])
  · exact TFat.seq (hx w _ w1 hxa) (hf a w1 r w' hfa) (Int.le_refl _) hX (by simp) (fun _ h => h) (fun h => ⟨rfl, h⟩)

theorem TF_ite {α} {P : TP} {X : Int} {c : Prop} [Decidable c] {a b : M α} (ha : TF P X a) (hb : TF P X b) :
    TF P X (if c then a else b) := by
  split <;> assumption

/-- `pull`'s clean-up discipline: the allowances add up (the clean-up may meet one more failing wait) -/
theorem TF_tryFinally {α} {P : TP} {X1 X2 : Int} (h1 : 0 ≤ X1) (h2 : 0 ≤ X2) {x : M α} {fin : M Unit}
    (hx : TF P X1 x) (hf : TF P X2 fin) : TF P (X1 + X2) (M.tryFinally x fin) := by
  intro w r w' h
  unfold M.tryFinally at h
  rcases hxw : x w with ⟨rx, w1⟩
  rcases hfw : fin w1 with ⟨rf, w2⟩
  have a := hx w rx w1 hxw
  have b := hf w1 rf w2 hfw
  rw [hxw] at h
  cases rx with
  | ok v =>
    simp only [hfw] at h
    cases rf with
    | ok u =>
      simp only [Prod.mk.injEq] at h; obtain ⟨rfl, rfl⟩ := h
      exact TFat.seq a b (by omega) h2 (by simp; omega) (fun _ _ => rfl) (fun _ => ⟨rfl, rfl⟩)
    | error e =>
      simp only [Prod.mk.injEq] at h; obtain ⟨rfl, rfl⟩ := h
      exact TFat.seq a b (by omega) h2 (by simp; omega) (fun _ h => by rw [isHang_error] at h ⊢; exact h) (by simp)
  | error e =>
    simp only [hfw] at h
    cases rf with
    | ok u =>
      simp only [Prod.mk.injEq] at h; obtain ⟨rfl, rfl⟩ := h
      exact TFat.seq a b (by omega) h2 (by simp) (fun h _ => by rw [isHang_error] at h ⊢; exact h) (by simp)
    | error e2 =>
      simp only [Prod.mk.injEq] at h; obtain ⟨rfl, rfl⟩ := h
      exact TFat.seq a b (by omega) h2 (by simp) (fun h _ => by rw [isHang_error] at h ⊢; exact h) (by simp)

/-! ### quiet computations: no time, no transport, no store, no lock, no delivery / transmission, never `hang` -/

structure TQuiet0 (w : World) (hang : Bool) (w' : World) : Prop where
  now : w'.now = w.now
  cur : w'.cur = w.cur
  store : w'.store = w.store
  fuel : w'.fuel = w.fuel
  locks : w'.locks = w.locks
  dtt : w'.defaultTT = w.defaultTT
  files : w'.files = w.files
  avail : w'.available = w.available
  adds : ∃ Y, Adds w w' [] Y
  nohang : hang = false

/-- `x` is quiet in every world -/
def TQ {α : Type} (x : M α) : Prop := ∀ w, TQuiet0 w (isHang (x w).1) (x w).2

theorem TQ.at {α} {x : M α} (hx : TQ x) {w w' : World} {r : Except Err α} (h : x w = (r, w')) : TQuiet0 w (isHang r) w' := by
  have := hx w; rw [h] at this; exact this

theorem TQuiet0.tfat {α} {P : TP} {X : Int} (hX : 0 ≤ X) {w w' : World} {r : Except Err α} (h : TQuiet0 w (isHang r) w') :
    TFat P X w r w' := by
  obtain ⟨Y, hadds⟩ := h.adds
  refine ⟨hadds.ext, fun hp _ => ⟨h.nohang, ⟨hp.cost.of_cur_eq h.cur, by rw [h.locks, hp.locks], by rw [h.dtt, hp.dtt], by rw [h.files, hp.files]⟩, h.fuel, by rw [h.now]; omega,
    by rw [h.now, h.store]; omega, ?_⟩⟩
  obtain ⟨_, _, _, hc⟩ := hadds.pot P
  rw [hc, h.now]
  split <;> simp <;> omega

theorem TQ.tf {α} {P : TP} {X : Int} (hX : 0 ≤ X) {x : M α} (hx : TQ x) : TF P X x :=
  fun _ _ _ h => (hx.at h).tfat hX

theorem TQuiet0.trans {a b c : World} {h1 h2 h : Bool} (q1 : TQuiet0 a h1 b) (q2 : TQuiet0 b h2 c) (hh : h = false) :
    TQuiet0 a h c :=
  ⟨q2.now.trans q1.now, q2.cur.trans q1.cur, q2.store.trans q1.store, q2.fuel.trans q1.fuel, q2.locks.trans q1.locks, q2.dtt.trans q1.dtt, q2.files.trans q1.files, q2.avail.trans q1.avail,
    by obtain ⟨Y1, a1⟩ := q1.adds; obtain ⟨Y2, a2⟩ := q2.adds; exact ⟨_, by simpa using a1.trans a2⟩, hh⟩

theorem TQuiet0.of_eq {w w' : World} (h1 : w'.now = w.now) (h2 : w'.cur = w.cur) (h3 : w'.store = w.store)
    (h4 : w'.fuel = w.fuel) (h5 : w'.locks = w.locks) (h7 : w'.defaultTT = w.defaultTT) (h8 : w'.files = w.files)
    (h9 : w'.available = w.available) (h6 : w'.trace = w.trace) : TQuiet0 w false w' :=
  ⟨h1, h2, h3, h4, h5, h7, h8, h9, ⟨_, Adds.of_trace_eq h6⟩, rfl⟩

theorem TQ_pure {α} (a : α) : TQ (pure a : M α) := fun _ => TQuiet0.of_eq rfl rfl rfl rfl rfl rfl rfl rfl rfl
theorem TQ_Mpure {α} (a : α) : TQ (M.pure a : M α) := fun _ => TQuiet0.of_eq rfl rfl rfl rfl rfl rfl rfl rfl rfl
theorem TQ_throw {α} (e : Err) (he : e ≠ .hang) : TQ (M.throw e : M α) := fun w =>
  ⟨rfl, rfl, rfl, rfl, rfl, rfl, rfl, rfl, ⟨_, Adds.rfl' w⟩, by
    show isHang (Except.error e) = false
    rw [isHang_error]; simpa using he⟩
theorem TQ_get : TQ M.get := fun _ => TQuiet0.of_eq rfl rfl rfl rfl rfl rfl rfl rfl rfl
theorem TQ_now : TQ now := fun _ => TQuiet0.of_eq rfl rfl rfl rfl rfl rfl rfl rfl rfl
theorem TQ_liftExcept {α} (x : Except Err α) (hx : x ≠ .error .hang) : TQ (liftExcept x) := fun w =>
  ⟨rfl, rfl, rfl, rfl, rfl, rfl, rfl, rfl, ⟨_, Adds.rfl' w⟩, isHang_false_iff.2 hx⟩
theorem TQ_emit (e : TEv) (he : e.silent = true ∨ ∃ d, e = .yielded d) : TQ (emit e) := fun w => by
  refine ⟨rfl, rfl, rfl, rfl, rfl, rfl, rfl, rfl, ?_, rfl⟩
  rcases he with he | ⟨d, rfl⟩
  · exact ⟨_, Adds.silent he rfl⟩
  · exact ⟨_, Adds.yielded rfl⟩
theorem TQ_elapsedGt (s : Int) (l : Timeout) : TQ (elapsedGt s l) := fun w => by
  cases l <;> exact ⟨rfl, rfl, rfl, rfl, rfl, rfl, rfl, rfl, ⟨_, Adds.rfl' w⟩, rfl⟩

theorem TQ_bind {α β} {x : M α} {f : α → M β} (hx : TQ x) (hf : ∀ a, TQ (f a)) : TQ (x >>= f) := by
  intro w
  rcases h : (x >>= f) w with ⟨r, w'⟩
  rcases bind_any_inv h with ⟨e, he, rfl⟩ | ⟨a, w1, hxa, hfa⟩
  · have := hx.at he
    rw [isHang_error] at this ⊢
    exact this
  · exact (hx.at hxa).trans (hf a |>.at hfa) (hf a |>.at hfa).nohang

theorem TQ_ite {α} {c : Prop} [Decidable c] {a b : M α} (ha : TQ a) (hb : TQ b) : TQ (if c then a else b) := by
  split <;> assumption

theorem TQ_swallow {x : M Unit} (hx : TQ x) : TQ (M.swallow x) := by
  intro w
  unfold M.swallow
  rcases h : x w with ⟨r, w'⟩
  have q := hx.at h
  exact ⟨q.now, q.cur, q.store, q.fuel, q.locks, q.dtt, q.files, q.avail, q.adds, rfl⟩

theorem TQ_modify {f : World → World} (hf : ∀ w, TQuiet0 w false (f w)) : TQ (M.modify f) := fun w => hf w

theorem TQ_getTT (tt : Timeout) : TQ (getTT tt) := fun _ => TQuiet0.of_eq rfl rfl rfl rfl rfl rfl rfl rfl rfl

/-- closes `TQuiet0 w false w'` when `w'` is an explicit record update of `w` on untimed fields -/
macro "tquiet_rfl" : tactic => `(tactic| exact TQuiet0.of_eq rfl rfl rfl rfl rfl rfl rfl rfl rfl)

/-- extensible: one alternative per proved `TQ` lemma -/
syntax "tq_lemma" : tactic
macro_rules | `(tactic| tq_lemma) => `(tactic| with_reducible exact TQ_pure _)
macro_rules | `(tactic| tq_lemma) => `(tactic| with_reducible exact TQ_Mpure _)
macro_rules | `(tactic| tq_lemma) => `(tactic| exact TQ_throw _ (by decide))
macro_rules | `(tactic| tq_lemma) => `(tactic| exact TQ_throw _ (by intro h; cases h))
macro_rules | `(tactic| tq_lemma) => `(tactic| with_reducible exact TQ_get)
macro_rules | `(tactic| tq_lemma) => `(tactic| with_reducible exact TQ_now)
macro_rules | `(tactic| tq_lemma) => `(tactic| exact TQ_emit _ (Or.inl rfl))
macro_rules | `(tactic| tq_lemma) => `(tactic| exact TQ_emit _ (Or.inr ⟨_, rfl⟩))
macro_rules | `(tactic| tq_lemma) => `(tactic| with_reducible exact TQ_elapsedGt _ _)
macro_rules | `(tactic| tq_lemma) => `(tactic| with_reducible exact TQ_getTT _)

syntax "tq" ("[" term "]")? : tactic
macro_rules
  | `(tactic| tq) => `(tactic| tq [TQ_get])
  | `(tactic| tq [$h]) => `(tactic| first
    | tq_lemma
    | with_reducible assumption
    | with_reducible exact $h
    | with_reducible exact $h _
    | with_reducible exact $h _ _
    | (with_reducible apply TQ_bind) <;> (first | (intro _; tq [$h]) | tq [$h])
    | (with_reducible apply TQ_swallow); tq [$h]
    | (with_reducible apply TQ_modify); intro _; tquiet_rfl
    | (with_reducible apply TQ_ite) <;> tq [$h]
    | (dsimp only; tq [$h])
    | (split <;> tq [$h]))

/-! ### the two transport leaves: `_AdbIOManager.send` and `_AdbIOManager.read` -/

theorem isHang_of_mem {α} {r : Except Err α} {L : List Err} (h : ∀ e, r = .error e → e ∈ L) (hL : Err.hang ∉ L) :
    isHang r = false := by
  rw [isHang_false_iff]
  intro hr; exact hL (h _ hr)

theorem hang_not_mem_sendErrs : Err.hang ∉ sendErrs := by simp [sendErrs]

theorem Budget.base {P : TP} {X : Int} {w w' : World} (hb : Budget P X w w') (he : Ext w w') (hX : 0 ≤ X) :
    (parkedCount w.store : Int) + P.R + P.F < w.fuel := by
  obtain ⟨_, _, _, _, hn⟩ := he.mono P
  unfold Budget at hb
  omega

/-- one `send`: its own `tx` event pays for it, whether it succeeds or fails (allowance 0) -/
theorem TF_ioSend {P : TP} {X : Int} (m : Msg) (t : Txn) (hrt : t.rt = some P.R) (htt : t.tt = some P.τ) (hX : 0 ≤ X) :
    TF P X (ioSend m t) := by
  intro w r w' h
  have he : Ext w w' := (Fr_ioSend m t).ext h
  have hdt : w'.defaultTT = w.defaultTT := by have := (Fr_ioSend m t w).defaultTT; rw [h] at this; exact this
  have hfi : w'.files = w.files := by have := (Fr_ioSend m t w).files; rw [h] at this; exact this
  refine ⟨he, fun hp hb => ?_⟩
  have hbase := hb.base he hX
  have hlk : lockTransport ∉ w.locks := by simp [hp.locks]
  obtain ⟨a1, a2, a3, a4, a5, a6, a7, a8, a9⟩ :=
    ioSend_time m t P.R P.τ P.D w r w' h hrt htt P.hR P.hτ hp.cost (by omega) hlk
  obtain ⟨_, _, _, hc⟩ := (ioSend_adds h hlk).pot P
  refine ⟨isHang_of_mem a5 hang_not_mem_sendErrs, ⟨a1, by rw [a9, hp.locks], by rw [hdt, hp.dtt], by rw [hfi, hp.files]⟩, a8, a2, by rw [a7]; omega, ?_⟩
  rw [hc]
  have hS : P.S = P.R + max P.D P.τ := rfl
  have hS0 := P.S_pos
  simp only [rxs_cons_tx, rxs_nil, List.length_nil, txs_cons_tx, txs_nil, List.map_cons, List.map_nil, List.sum_cons,
    List.sum_nil, msgWaits]
  by_cases hd : m.data = []
  · have := a4 hd
    simp [hd]
    split <;> omega
  · have : m.data.isEmpty = false := by simpa using hd
    simp [this]
    split <;> omega

/-- one `read`: a delivered packet pays for the wait; a failing wait uses the allowance `W` -/
theorem TF_ioRead {P : TP} {X : Int} (ex : List Cmd) (t : Txn) (az : Bool) (hrt : t.rt = some P.R) (htt : t.tt = some P.τ)
    (hX : P.W ≤ X) : TF P X (ioRead ex t az) := by
  intro w r w' h
  have he : Ext w w' := (Fr_ioRead ex t az).ext h
  have hdt : w'.defaultTT = w.defaultTT := by have := (Fr_ioRead ex t az w).defaultTT; rw [h] at this; exact this
  have hfi : w'.files = w.files := by have := (Fr_ioRead ex t az w).files; rw [h] at this; exact this
  have hW := P.W_pos
  refine ⟨he, fun hp hb => ?_⟩
  have hbase := hb.base he (by omega)
  obtain ⟨a1, a2, a3, a4, a5, a6, a7, a8⟩ :=
    ioRead_time ex t az P.R P.τ P.D w r w' h hrt htt P.hR P.hτ hp.cost hp.locks (by omega)
  refine ⟨isHang_of_mem a4 hang_not_mem_ioReadErrs, ⟨a1, a8, by rw [hdt, hp.dtt], by rw [hfi, hp.files]⟩, a7, a2, by omega, ?_⟩
  have hd := ioRead_dlv h
  have hWe : P.W = P.R + 2 * (P.R + max P.D P.τ) := rfl
  cases r with
  | ok p =>
    obtain ⟨_, _, _, hc⟩ := hd.1.pot P
    rw [hc]; simp; omega
  | error e =>
    have hd' : Adds w w' [] [] := hd
    obtain ⟨_, _, _, hc⟩ := hd'.pot P
    rw [hc]; simp; omega

/-- a `read` that returns delivered exactly one packet, whose payload is counted in `rxBytes` -/
theorem ioRead_progress {ex : List Cmd} {t : Txn} {az : Bool} {w w' : World} {p : Pkt}
    (h : ioRead ex t az w = (.ok p, w')) :
    rxCount w'.trace = rxCount w.trace + 1 ∧ rxBytes w'.trace = rxBytes w.trace + p.data.length := by
  have hd := ioRead_dlv h
  obtain ⟨h1, _, h3, _⟩ := hd.1.pot ⟨0, 0, 1, none, [], 0, by omega, by omega, by omega⟩
  simpa using And.intro h1 h3

/-- `_read_until` that returns delivered exactly one packet, with the returned payload -/
theorem readUntil_progress {ex : List Cmd} {t : Txn} {w w' : World} {c : Cmd} {d : Bytes}
    (h : readUntil ex t w = (.ok (c, d), w')) (hl : w.locks = []) :
    rxCount w'.trace = rxCount w.trace + 1 ∧ rxBytes w'.trace = rxBytes w.trace + d.length := by
  obtain ⟨p, hA, _, hd, _, _⟩ := readUntil_dlv h (by simp [hl])
  obtain ⟨h1, _, h3, _⟩ := hA.pot ⟨0, 0, 1, none, [], 0, by omega, by omega, by omega⟩
  have hr : rxs (Xfer.rx p :: ackOf t p) = [p] := by
    unfold ackOf; split <;> simp
  rw [hr] at h1 h3
  subst hd
  simpa using And.intro h1 h3

/-! ### what the budget buys: more loop fuel than deliveries, and than delivered bytes -/

theorem Budget.rx_lt {P : TP} {X : Int} {w w' : World} (hb : Budget P X w w') (he : Ext w w') (hX : 0 ≤ X) :
    (rxCount w'.trace : Int) + rxBytes w'.trace - (rxCount w.trace + rxBytes w.trace) < w.fuel := by
  obtain ⟨evs, htr⟩ := he
  have hW := P.W_pos
  have hS := P.S_pos
  have hR := P.hR
  unfold Budget World.tneed World.tcost at hb
  simp only [htr, rxCount_append, txCount_append, rxBytes_append, Int.natCast_add, Int.add_mul] at hb ⊢
  have h1 : (rxCount evs : Int) ≤ (rxCount evs : Int) * P.W := by
    have : (rxCount evs : Int) * 1 ≤ (rxCount evs : Int) * P.W :=
      Int.mul_le_mul_of_nonneg_left (by omega) (by omega)
    omega
  have h2 : 0 ≤ (txCount evs : Int) * P.S := Int.mul_nonneg (by omega) (by omega)
  omega

/-! ### binding a value-dependent continuation -/

/-- `>>=` where the continuation's frame needs a fact `Q a` about the value (e.g. the timeouts stored in the
    transaction that `_open` returned); `Q a` may be derived under the idleness precondition -/
theorem TF_bind_val {α β} {P : TP} {X : Int} (hX : 0 ≤ X) {x : M α} {f : α → M β} {Q : α → Prop}
    (hx : TF P X x) (hq : ∀ w a w1, TPre P w → x w = (.ok a, w1) → Q a)
    (hFr : ∀ a, Fr (f a)) (hf : ∀ a, Q a → TF P X (f a)) : TF P X (x >>= f) := by
  intro w r w' h
  rcases bind_any_inv h with ⟨e, he, rfl⟩ | ⟨a, w1, hxa, hfa⟩
  · exact (hx w _ w' he).congr rfl (by rw [isHang_error, isHang_error])
  · have h1 := hx w _ w1 hxa
    have e2 : Ext w1 w' := (hFr a).ext hfa
    refine ⟨h1.ext.trans e2, fun hp hb => ?_⟩
    have h2 := hf a (hq w a w1 hp hxa) w1 r w' hfa
    exact (TFat.seq h1 h2 (Int.le_refl _) hX (by simp) (fun _ h => h) (fun h => ⟨rfl, h⟩)).2 hp hb

/-! ### the `tf` tactic -/

theorem TP.W_nonneg (P : TP) : 0 ≤ P.W := by have := P.W_pos; omega

/-- side goals of the frame lemmas: hypotheses on the transaction, `0 ≤ X`, `P.W ≤ X` -/
macro "tf_side" : tactic =>
  `(tactic| first | assumption | exact TP.W_nonneg _ | exact Int.le_refl _ | (have := TP.W_pos ‹TP›; omega))

/-- extensible: one alternative per proved `TF` lemma -/
syntax "tf_lemma" : tactic
macro_rules | `(tactic| tf_lemma) => `(tactic| (with_reducible apply TF_ioSend) <;> tf_side)
macro_rules | `(tactic| tf_lemma) => `(tactic| (with_reducible apply TF_ioRead) <;> tf_side)

syntax "tf" ("[" term "]")? : tactic
macro_rules
  | `(tactic| tf) => `(tactic| tf [TQ_get])
  | `(tactic| tf [$h]) => `(tactic| first
    | tf_lemma
    | with_reducible assumption
    | with_reducible exact $h
    | with_reducible exact $h _
    | with_reducible exact $h _ _
    | with_reducible exact $h _ _ _
    | (with_reducible apply TF_bind (by tf_side)) <;> (first | (intro _; tf [$h]) | tf [$h])
    | (with_reducible apply TF_ite) <;> tf [$h]
    | (dsimp only; tf [$h])
    | (apply TQ.tf (by tf_side); tq)
    | (split <;> tf [$h]))

/-! ### loops: the frame under a "room" condition on the loop fuel

  A loop called with fuel `n` does not run out of fuel when `n` exceeds the number of packets and payload bytes
  delivered during the loop (plus the bytes `b` already buffered): every continuing iteration of the stream
  and FileSync loops delivers a packet or consumes a buffered record. -/

/-- the time frame of every run of `x` that satisfies the side condition `C` -/
def TFc {α : Type} (C : World → World → Prop) (P : TP) (X : Int) (x : M α) : Prop :=
  ∀ w r w', x w = (r, w') →
    Ext w w' ∧ (C w w' → TPre P w → Budget P X w w' → isHang r = false ∧ TPost P X w (okB r) w')

theorem TF.tfc {α} {C : World → World → Prop} {P : TP} {X : Int} {x : M α} (h : TF P X x) : TFc C P X x :=
  fun w r w' hx => ⟨(h w r w' hx).1, fun _ => (h w r w' hx).2⟩

theorem TFc.tf {α} {C : World → World → Prop} {P : TP} {X : Int} {x : M α} (h : TFc C P X x)
    (hC : ∀ w w', Ext w w' → TPre P w → Budget P X w w' → C w w') : TF P X x :=
  fun w r w' hx => ⟨(h w r w' hx).1, fun hp hb => (h w r w' hx).2 (hC w w' (h w r w' hx).1 hp hb) hp hb⟩

theorem TFc_bind {α β} {P : TP} {X : Int} (hX : 0 ≤ X) {C : World → World → Prop} {C' : α → World → World → Prop}
    {x : M α} {f : α → M β} (hx : TF P X x)
    (hC : ∀ w a w1 w', TPre P w → x w = (.ok a, w1) → Ext w1 w' → C w w' → C' a w1 w')
    (hf : ∀ a, TFc (C' a) P X (f a)) : TFc C P X (x >>= f) := by
  intro w r w' h
  rcases bind_any_inv h with ⟨e, he, rfl⟩ | ⟨a, w1, hxa, hfa⟩
  · have := (hx w _ w' he).congr (r' := (Except.error e : Except Err β)) rfl (by rw [isHang_error, isHang_error])
    exact ⟨this.1, fun _ => this.2⟩
  · have h1 := hx w _ w1 hxa
    obtain ⟨e2, h2⟩ := hf a w1 r w' hfa
    refine ⟨h1.ext.trans e2, fun hc hp hb => ?_⟩
    have c' := hC w a w1 w' hp hxa e2 hc
    exact (TFat.seq h1 ⟨e2, h2 c'⟩ (Int.le_refl _) hX (by simp) (fun _ h => h) (fun h => ⟨rfl, h⟩)).2 hp hb

theorem TFc_ite {α} {C : World → World → Prop} {P : TP} {X : Int} {c : Prop} [Decidable c] {a b : M α}
    (ha : TFc C P X a) (hb : TFc C P X b) : TFc C P X (if c then a else b) := by
  split <;> assumption

/-- deliveries + delivered bytes so far -/
def World.rxTotal (w : World) : Nat := rxCount w.trace + rxBytes w.trace

theorem Ext.rxTotal_le {w w' : World} (h : Ext w w') : w.rxTotal ≤ w'.rxTotal := by
  obtain ⟨a, _, b, _⟩ := h.mono ⟨0, 0, 1, none, [], 0, by omega, by omega, by omega⟩
  unfold World.rxTotal; omega

/-- loop fuel `n` exceeds the `b` buffered bytes plus everything delivered from `w` to `w'` -/
def Room (n b : Nat) (w w' : World) : Prop := b + w'.rxTotal < w.rxTotal + n

theorem Room.of_budget {P : TP} {X : Int} {w w' : World} (he : Ext w w') (hb : Budget P X w w') (hX : 0 ≤ X) :
    Room w.fuel 0 w w' := by
  have := hb.rx_lt he hX
  unfold Room World.rxTotal; omega

/-- a prefix that may deliver nothing keeps the room -/
theorem TFc_bind_room {α β} {P : TP} {X : Int} (hX : 0 ≤ X) {n b : Nat} {x : M α} {f : α → M β}
    (hx : TF P X x) (hf : ∀ a, TFc (Room n b) P X (f a)) : TFc (Room n b) P X (x >>= f) :=
  TFc_bind hX hx (fun w a w1 w' _ hxa _ hc => by
    have := ((hx w _ w1 hxa).ext).rxTotal_le
    unfold Room at hc ⊢; omega) hf

/-- a prefix that makes progress (delivers, or consumes buffered bytes) pays for one unit of loop fuel -/
theorem TFc_bind_progress {α β} {P : TP} {X : Int} (hX : 0 ≤ X) {n b : Nat} {b' : α → Nat} {x : M α} {f : α → M β}
    (hx : TF P X x)
    (hprog : ∀ w a w1, TPre P w → x w = (.ok a, w1) → b' a + w.rxTotal + 1 ≤ b + w1.rxTotal)
    (hf : ∀ a, TFc (Room n (b' a)) P X (f a)) : TFc (Room (n + 1) b) P X (x >>= f) :=
  TFc_bind hX hx (fun w a w1 w' hp hxa _ hc => by
    have := hprog w a w1 hp hxa
    unfold Room at hc ⊢; omega) hf

/-- out of fuel: vacuous, because the room condition fails -/
theorem TFc_room_zero {α} {P : TP} {X : Int} {b : Nat} : TFc (Room 0 b) P X (M.throw .hang : M α) := by
  intro w r w' h
  simp only [M.throw_run, Prod.mk.injEq] at h
  obtain ⟨rfl, rfl⟩ := h
  exact ⟨Ext.refl _, fun hc => by unfold Room at hc; omega⟩

/-- a loop (or anything under a room condition) followed by an unconditional rest -/
theorem TFc_bind_left_room {α β} {P : TP} {X : Int} (hX : 0 ≤ X) {n b : Nat} {x : M α} {f : α → M β}
    (hx : TFc (Room n b) P X x) (hf : ∀ a, TF P X (f a)) : TFc (Room n b) P X (x >>= f) := by
  intro w r w' h
  rcases bind_any_inv h with ⟨e, he, rfl⟩ | ⟨a, w1, hxa, hfa⟩
  · obtain ⟨e1, h1⟩ := hx w _ w' he
    refine ⟨e1, fun hc hp hb => ?_⟩
    have := h1 hc hp hb
    simpa [isHang_error] using this
  · obtain ⟨e1, h1⟩ := hx w _ w1 hxa
    have h2 := hf a w1 r w' hfa
    refine ⟨e1.trans h2.ext, fun hc hp hb => ?_⟩
    have hc1 : Room n b w w1 := by
      have := h2.ext.rxTotal_le
      unfold Room at hc ⊢; omega
    exact (TFat.seq (r1 := (Except.ok a : Except Err α)) ⟨e1, h1 hc1⟩ h2 (Int.le_refl _) hX (by simp) (fun _ h => h)
      (fun h => ⟨rfl, h⟩)).2 hp hb

/-- `let w ← get; g w` where `g` runs loops with fuel `w.fuel`: the budget provides the room -/
theorem TF_get_world {α} {P : TP} {X : Int} (hX : 0 ≤ X) {g : World → M α}
    (hg : ∀ wg, TFc (Room wg.fuel 0) P X (g wg)) : TF P X (M.get >>= g) := by
  intro w r w' h
  rw [bind_run_ok (M.get_run _)] at h
  obtain ⟨e, hc⟩ := hg w w r w' h
  exact ⟨e, fun hp hb => hc (Room.of_budget e hb hX) hp hb⟩

/-- `let w ← get; g w` where `g` runs a loop with fuel `w.fuel` that needs more fuel than the static budget `F`
    (the `push` data loop) -/
theorem TF_get_world_ge {α} {P : TP} {X : Int} (hX : 0 ≤ X) {g : World → M α} (hFr : ∀ wg, Fr (g wg))
    (hg : ∀ wg, P.F < wg.fuel → TF P X (g wg)) : TF P X (M.get >>= g) := by
  intro w r w' h
  rw [bind_run_ok (M.get_run _)] at h
  have e : Ext w w' := (hFr w).ext h
  refine ⟨e, fun hp hb => ?_⟩
  have := hb.base e hX
  have hR := P.hR
  exact (hg w (by omega) w r w' h).2 hp hb

syntax "tfc" ("[" term "]")? : tactic
macro_rules
  | `(tactic| tfc) => `(tactic| tfc [TQ_get])
  | `(tactic| tfc [$h]) => `(tactic| first
    | with_reducible exact $h
    | with_reducible exact $h _
    | with_reducible exact $h _ _
    | with_reducible exact $h _ _ _
    | (apply TF.tfc; tf)
    | (with_reducible apply TFc_bind_room (by tf_side) (by tf)) <;> (first | (intro _; tfc [$h]) | tfc [$h])
    | (with_reducible apply TFc_ite) <;> tfc [$h]
    | (dsimp only; tfc [$h])
    | (split <;> tfc [$h]))

end Adb
