import AdbProofs.Lemmas.Deliver
import AdbProofs.Properties.C03
/-
  The end-to-end bridge between the WIRE layer (C03: `readPacket` against the device's byte stream
  `World.inboundRest`) and the STREAM layer (C01/C04: the delivery calculus over trace events):
  the packets DELIVERED to a command stream are exactly the device's packets for this stream, read off the
  device's byte stream in order; everything else read on the way is parked in the packet store (foreign ids)
  or dropped (this stream's ids, unexpected command).

  Part A  vocabulary: `IsRaw`, `Frames`, `Fate`, `wireFates`, `wirePkts`, `storeStep`, `KeysSat`, `Clean`
  Part B  wire layer: `Reads`, `WireStep`, `readIter_wire`, `readLoop_reads`, `ioRead_reads`
  Part C  stream layer: `readUntil_reads`, `readUntilCloseLoop_reads`, `openStream_reads`, `streamingCommand_reads`
  Part D  against a known device stream: `ioRead_frames`, reference semantics `streamItems`, `Conversation`,
          `streamingCommand_frames`, `service_frames`, `streamingService_frames`
  Part E  one `read` iteration with an arbitrary store: `E2E_readIter_source`
  Part F  `readUntilClose_frames`, `Frames.encode_rest`, `Conversation.delivered`
  Part G  `_service` against a concatenation of `Pkt.encode`s: `service_encode`, `Conversation.trace`;
          `E2E_ioRead_from_empty_store`; the demo packets
-/

/-
  End-to-end bridge, part A: vocabulary.
  * `IsRaw p raw`      — `raw` is a frame (24-byte header + payload) that `_read_packet_from_device` reads as `p`
  * `Frames ps bs tl`  — the byte stream `bs` is the frames of the packets `ps` followed by `tl`
  * `Fate`, `wireFates`, `wirePkts` — the packets read off the wire according to the trace, with what became of them
  * `KeysSat P s`      — every pending key of the packet store satisfies `P` (and the store is well formed)
-/
namespace Adb
namespace E2E

/-! ### Frames on the device byte stream -/

/-- `raw` is a frame that `_read_packet_from_device` accepts and reads as the packet `p`: a 24-byte header
    that `unpack`s to a known command, `p`'s arguments and `len(p.data)`, followed by exactly the payload,
    whose checksum matches when it is non-empty (the magic word is not checked by the library). -/
def IsRaw (p : Pkt) (raw : Bytes) : Prop :=
  ∃ hb hd, hb.length = 24 ∧ unpack hb = some hd ∧ Cmd.ofWire? hd.cmd = some p.cmd ∧ hd.arg0 = p.arg0 ∧
    hd.arg1 = p.arg1 ∧ hd.len = p.data.length ∧ (p.data ≠ [] → checksum p.data = hd.sum) ∧ raw = hb ++ p.data

/-- the encoding of a packable packet is a frame for it -/
theorem IsRaw.encode {p : Pkt} (hp : p.toMsg.Packable) : IsRaw p p.encode := by
  refine ⟨p.toMsg.packHdr, _, (C02_header_len p.toMsg).1, (C02_unpack_pack p.toMsg hp).1, ?_, rfl, rfl, rfl, ?_, rfl⟩
  · exact (C02_magic p.cmd).1
  · intro _; rfl

/-- a byte stream starts with at most one frame, and it determines the packet -/
theorem IsRaw.unique {p q : Pkt} {raw raw' r r' : Bytes} (hp : IsRaw p raw) (hq : IsRaw q raw')
    (h : raw ++ r = raw' ++ r') : p = q ∧ raw = raw' ∧ r = r' := by
  obtain ⟨hb, hd, a1, a2, a3, a4, a5, a6, -, rfl⟩ := hp
  obtain ⟨hb', hd', b1, b2, b3, b4, b5, b6, -, rfl⟩ := hq
  rw [List.append_assoc, List.append_assoc] at h
  obtain ⟨rfl, h9⟩ := List.append_inj h (by rw [a1, b1])
  rw [a2] at b2
  cases b2
  obtain ⟨hdat, hrest⟩ := List.append_inj h9 (by rw [← a6, ← b6])
  rw [a3] at b3
  have hc := Option.some.inj b3
  refine ⟨?_, by rw [hdat], hrest⟩
  cases p; cases q
  simp_all

/-- the stream `bs` consists of frames of the packets `ps`, in order, followed by `tl` -/
def Frames : List Pkt → Bytes → Bytes → Prop
  | [], bs, tl => bs = tl
  | p :: ps, bs, tl => ∃ raw rest, IsRaw p raw ∧ bs = raw ++ rest ∧ Frames ps rest tl

@[simp] theorem Frames_nil (bs tl : Bytes) : Frames [] bs tl ↔ bs = tl := Iff.rfl

theorem Frames.refl (bs : Bytes) : Frames [] bs bs := rfl

theorem Frames_append {ps₁ ps₂ : List Pkt} {bs tl : Bytes} :
    Frames (ps₁ ++ ps₂) bs tl ↔ ∃ mid, Frames ps₁ bs mid ∧ Frames ps₂ mid tl := by
  induction ps₁ generalizing bs with
  | nil => simp
  | cons p ps ih =>
    simp only [List.cons_append, Frames]
    constructor
    · rintro ⟨raw, rest, h1, h2, h3⟩
      obtain ⟨mid, h4, h5⟩ := ih.1 h3
      exact ⟨mid, ⟨raw, rest, h1, h2, h4⟩, h5⟩
    · rintro ⟨mid, ⟨raw, rest, h1, h2, h4⟩, h5⟩
      exact ⟨raw, rest, h1, h2, ih.2 ⟨mid, h4, h5⟩⟩

theorem Frames.trans {ps₁ ps₂ : List Pkt} {a b c : Bytes} (h1 : Frames ps₁ a b) (h2 : Frames ps₂ b c) :
    Frames (ps₁ ++ ps₂) a c := Frames_append.2 ⟨b, h1, h2⟩

theorem Frames.single {p : Pkt} {raw rest : Bytes} (h : IsRaw p raw) : Frames [p] (raw ++ rest) rest :=
  ⟨raw, rest, h, rfl, rfl⟩

/-- a concatenation of encodings of packable packets is a sequence of frames -/
theorem Frames_encode {ps : List Pkt} (tl : Bytes) (hp : ∀ p ∈ ps, p.toMsg.Packable) :
    Frames ps ((ps.map Pkt.encode).flatten ++ tl) tl := by
  induction ps with
  | nil => simp
  | cons p ps ih =>
    refine ⟨p.encode, (ps.map Pkt.encode).flatten ++ tl, IsRaw.encode (hp p (by simp)), by simp, ?_⟩
    exact ih (fun q hq => hp q (by simp [hq]))

/-- the stream starts with a frame the library would accept -/
def Readable (bs : Bytes) : Prop := ∃ q raw rest, IsRaw q raw ∧ bs = raw ++ rest

theorem not_readable_of_short {bs : Bytes} (h : bs.length < 24) : ¬ Readable bs := by
  rintro ⟨q, raw, rest, ⟨hb, hd, h1, -, -, -, -, -, -, rfl⟩, rfl⟩
  simp only [List.length_append] at h
  omega

/-- two ways of reading frames off the same stream agree: one list of packets is a prefix of the other; if the
    first is the shorter one the second continues on the first's remainder, otherwise the second's tail is
    readable -/
theorem Frames.compare {qs ps : List Pkt} {bs mid tl : Bytes} (hq : Frames qs bs mid) (hp : Frames ps bs tl) :
    (∃ rest, ps = qs ++ rest ∧ Frames rest mid tl) ∨ (∃ q extra, qs = ps ++ q :: extra ∧ Readable tl) := by
  induction qs generalizing ps bs with
  | nil =>
    simp only [Frames_nil] at hq
    subst hq
    exact Or.inl ⟨ps, rfl, hp⟩
  | cons q qs ih =>
    obtain ⟨raw, rest, h1, h2, h3⟩ := hq
    cases ps with
    | nil =>
      simp only [Frames_nil] at hp
      subst hp
      exact Or.inr ⟨q, qs, rfl, q, raw, rest, h1, h2⟩
    | cons p ps =>
      obtain ⟨raw', rest', g1, g2, g3⟩ := hp
      obtain ⟨rfl, rfl, rfl⟩ := IsRaw.unique h1 g1 (h2.symm.trans g2)
      rcases ih h3 g3 with ⟨r, rfl, hr⟩ | ⟨q', extra, rfl, hr⟩
      · exact Or.inl ⟨r, rfl, hr⟩
      · exact Or.inr ⟨q', extra, rfl, hr⟩

/-! ### What became of a packet read off the wire -/

/-- the three things `_AdbIOManager.read` does with a packet it has read from the transport -/
inductive Fate where
  | delivered   -- ids match and the command is expected: returned to the caller (`deliver`)
  | dropped     -- ids match but the command is not expected: discarded (`drop`)
  | parked      -- ids do not match: handed to the packet store (`park`, or `lost` for a CLSE without entry — K1)
  deriving DecidableEq, Repr

/-- the wire-read reading of a trace event -/
def fate? : TEv → Option (Fate × Pkt)
  | .deliver p => some (.delivered, p)
  | .drop p => some (.dropped, p)
  | .park p => some (.parked, p)
  | .lost p => some (.parked, p)
  | _ => none

/-- the packets read off the wire during the events `evs` (most recent first, as in the trace) with their
    fates, OLDEST first.  (A `deliver` event is also emitted for a packet taken out of the packet store;
    the specs below show that this does not happen when the store holds nothing for the transaction.) -/
def wireFates (evs : List TEv) : List (Fate × Pkt) := evs.reverse.filterMap fate?

/-- the packets read off the wire during the events, oldest first -/
def wirePkts (evs : List TEv) : List Pkt := (wireFates evs).map (·.2)

@[simp] theorem wireFates_nil : wireFates [] = [] := rfl

theorem wireFates_append (later earlier : List TEv) :
    wireFates (later ++ earlier) = wireFates earlier ++ wireFates later := by
  simp [wireFates]

theorem wireFates_cons (e : TEv) (evs : List TEv) :
    wireFates (e :: evs) = wireFates evs ++ (fate? e).toList := by
  have := wireFates_append [e] evs
  simp only [List.singleton_append] at this
  rw [this]; congr 1

theorem wireFates_eq_nil {evs : List TEv} (h : ∀ e ∈ evs, fate? e = none) : wireFates evs = [] := by
  induction evs with
  | nil => rfl
  | cons e evs ih =>
    rw [wireFates_cons, ih (fun e he => h e (by simp [he])), h e (by simp)]
    rfl

/-- the deliveries of the delivery calculus are the wire packets with fate `delivered` — as a reading of
    the events alone (it is the specs that tell a store delivery from a wire delivery) -/
theorem delivered_eq_wireFates (evs : List TEv) :
    delivered evs = ((wireFates evs).filter (fun x => x.1 = .delivered)).map (·.2) := by
  unfold delivered wireFates
  rw [List.filter_filterMap, List.map_filterMap]
  congr 1
  funext e
  cases e <;> simp [fate?, Option.filter]

/-- the fate of a packet read on behalf of the transaction `t` by `read(ex, t, az)` -/
def fate (ex : List Cmd) (t : Txn) (az : Bool) (p : Pkt) : Fate :=
  if t.argsMatch p.arg0 p.arg1 az then (if ex.contains p.cmd then .delivered else .dropped) else .parked

/-- every packet with its fate -/
def classify (ex : List Cmd) (t : Txn) (az : Bool) (ps : List Pkt) : List (Fate × Pkt) :=
  ps.map (fun p => (fate ex t az p, p))

@[simp] theorem classify_nil (ex t az) : classify ex t az [] = [] := rfl
@[simp] theorem classify_cons (ex t az p ps) : classify ex t az (p :: ps) = (fate ex t az p, p) :: classify ex t az ps := rfl
@[simp] theorem classify_append (ex t az ps qs) :
    classify ex t az (ps ++ qs) = classify ex t az ps ++ classify ex t az qs := by simp [classify]
@[simp] theorem classify_pkts (ex t az ps) : (classify ex t az ps).map (·.2) = ps := by
  simp [classify, Function.comp_def]

/-- what the read does to the packet store for a packet with the given fate: a parked packet is `put`
    (a CLSE without entry is lost there); a matching CLSE clears the pair's entry -/
def storeStep (s : Store) (fp : Fate × Pkt) : Store :=
  match fp.1 with
  | .parked => s.put fp.2.arg0 fp.2.arg1 fp.2.cmd fp.2.data
  | _ => if fp.2.cmd = Cmd.CLSE then s.clear fp.2.arg0 fp.2.arg1 else s

/-! ### The packet store holds nothing for the transaction -/

/-- the store is well formed and all its pending keys `(arg0, arg1)` satisfy `P` -/
def KeysSat (P : Nat × Nat → Prop) (s : Store) : Prop := Store.Inv s ∧ ∀ k ∈ Store.pendingKeys s, P k

theorem KeysSat.nil (P : Nat × Nat → Prop) : KeysSat P [] := ⟨Store.inv_empty, by simp [Store.pendingKeys]⟩

theorem KeysSat.mono {P Q : Nat × Nat → Prop} {s : Store} (h : KeysSat P s) (hpq : ∀ k, P k → Q k) : KeysSat Q s :=
  ⟨h.1, fun k hk => hpq k (h.2 k hk)⟩

theorem KeysSat.put {P : Nat × Nat → Prop} {s : Store} (h : KeysSat P s) {a0 a1 : Nat} (hp : P (a0, a1))
    (c : Cmd) (d : Bytes) : KeysSat P (s.put a0 a1 c d) := by
  refine ⟨Store.inv_put h.1 a0 a1 c d, ?_⟩
  rintro ⟨k0, k1⟩ hk
  obtain ⟨q, hq, hne⟩ := (Store.mem_pendingKeys (Store.inv_put h.1 a0 a1 c d) k0 k1).1 hk
  by_cases hk' : k0 = a0 ∧ k1 = a1
  · obtain ⟨rfl, rfl⟩ := hk'; exact hp
  · obtain ⟨hdrop, hput⟩ := Store.queue_put (s := s) a0 a1 c d
    by_cases hd : c = Cmd.CLSE ∧ s.queue a0 a1 = none
    · rw [hdrop hd] at hk; exact h.2 _ hk
    · rw [(hput hd).2 k0 k1 hk'] at hq
      exact h.2 _ ((Store.mem_pendingKeys h.1 k0 k1).2 ⟨q, hq, hne⟩)

theorem KeysSat.clear {P : Nat × Nat → Prop} {s : Store} (h : KeysSat P s) (a0 a1 : Nat) :
    KeysSat P (s.clear a0 a1) := by
  refine ⟨Store.inv_clear h.1 a0 a1, ?_⟩
  rintro ⟨k0, k1⟩ hk
  obtain ⟨q, hq, hne⟩ := (Store.mem_pendingKeys (Store.inv_clear h.1 a0 a1) k0 k1).1 hk
  rw [Store.queue_clear h.1] at hq
  split at hq
  · simp at hq
  · exact h.2 _ ((Store.mem_pendingKeys h.1 k0 k1).2 ⟨q, hq, hne⟩)

/-- one store step keeps the keys in `P` when the packet, if parked, has a key in `P` -/
theorem KeysSat.step {P : Nat × Nat → Prop} {s : Store} (h : KeysSat P s) (fp : Fate × Pkt)
    (hp : fp.1 = .parked → P (fp.2.arg0, fp.2.arg1)) : KeysSat P (storeStep s fp) := by
  obtain ⟨f, p⟩ := fp
  cases f <;> simp only [storeStep]
  · split
    · exact h.clear _ _
    · exact h
  · split
    · exact h.clear _ _
    · exact h
  · exact h.put (hp rfl) _ _

theorem KeysSat.steps {P : Nat × Nat → Prop} {s : Store} (h : KeysSat P s) (F : List (Fate × Pkt))
    (hp : ∀ fp ∈ F, fp.1 = .parked → P (fp.2.arg0, fp.2.arg1)) : KeysSat P (F.foldl storeStep s) := by
  induction F generalizing s with
  | nil => exact h
  | cons fp F ih =>
    exact ih (h.step fp (hp fp (by simp))) (fun x hx => hp x (by simp [hx]))

/-- the key `k` fits the transaction (`Txn.accepts` on a key) -/
def acceptsKey (t : Txn) (az : Bool) (k : Nat × Nat) : Bool :=
  if az then Store.keyMatchesZ t.remoteId t.localId k else Store.keyMatches t.remoteId t.localId k

theorem accepts_eq_acceptsKey (t : Txn) (az : Bool) (p : Pkt) : t.accepts az p = acceptsKey t az (p.arg0, p.arg1) := rfl

/-- the store holds no pending packet that `read(…, t, az)` would take -/
def Clean (t : Txn) (az : Bool) (s : Store) : Prop := KeysSat (fun k => acceptsKey t az k = false) s

/-- the lookup `read` performs on the store -/
def lookup (t : Txn) (az : Bool) (s : Store) : Option (Nat × Nat) :=
  if az then s.findAllowZeros t.remoteId t.localId else s.find t.remoteId t.localId

theorem Clean.lookup {t : Txn} {az : Bool} {s : Store} (h : Clean t az s) : lookup t az s = none := by
  unfold E2E.lookup
  cases az with
  | true =>
    simp only [if_true]
    cases hf : s.findAllowZeros t.remoteId t.localId with
    | none => rfl
    | some k =>
      obtain ⟨hk, hm⟩ := (Store.findAllowZeros_spec h.1 t.remoteId t.localId).1 k hf
      have := h.2 k hk
      simp [acceptsKey, hm] at this
  | false =>
    simp only [Bool.false_eq_true, if_false]
    cases hf : s.find t.remoteId t.localId with
    | none => rfl
    | some k =>
      obtain ⟨hk, hm⟩ := (Store.find_spec h.1 t.remoteId t.localId).1 k hf
      have := h.2 k hk
      simp [acceptsKey, hm] at this

/-- a parked packet never fits the transaction that parked it (its local id is known) -/
theorem parked_not_accepted {ex : List Cmd} {t : Txn} {az : Bool} {p : Pkt} {l : Nat} (hl : t.localId = some l)
    (h : fate ex t az p = .parked) : acceptsKey t az (p.arg0, p.arg1) = false := by
  rw [← accepts_eq_acceptsKey]
  cases ha : t.accepts az p with
  | false => rfl
  | true =>
    rw [Txn.accepts_iff hl] at ha
    simp [fate, ha] at h
    split at h <;> cases h

theorem Clean.steps {ex : List Cmd} {t : Txn} {az : Bool} {s : Store} {l : Nat} (hl : t.localId = some l)
    (h : Clean t az s) (ps : List Pkt) : Clean t az ((classify ex t az ps).foldl storeStep s) := by
  refine KeysSat.steps h _ ?_
  intro fp hfp hpk
  simp only [classify, List.mem_map] at hfp
  obtain ⟨p, _, rfl⟩ := hfp
  exact parked_not_accepted hl hpk

end E2E
end Adb

/-
  End-to-end bridge, part B: the wire layer.  What `readIter` / `readLoop` / `_AdbIOManager.read` consume from
  the device's byte stream, what they do with every frame, and how the packet store evolves.
-/
namespace Adb
namespace E2E

/-! ### `Reads`: a step that reads given packets off the wire -/

/-- `w'` arises from `w` by reading exactly the packets of `F` off the wire, in order, with the given fates:
    the device stream is shortened by their frames, the store is updated packet by packet, and the wire
    events added to the trace are exactly `F`. -/
structure Reads (F : List (Fate × Pkt)) (w w' : World) : Prop where
  stream : Frames (F.map (·.2)) w.inboundRest w'.inboundRest
  store : w'.store = F.foldl storeStep w.store
  trace : ∃ evs, w'.trace = evs ++ w.trace ∧ wireFates evs = F

theorem Reads.refl (w : World) : Reads [] w w := ⟨rfl, rfl, [], rfl, rfl⟩

theorem Reads.trans {F G : List (Fate × Pkt)} {a b c : World} (h1 : Reads F a b) (h2 : Reads G b c) :
    Reads (F ++ G) a c := by
  obtain ⟨e1, ht1, hf1⟩ := h1.trace
  obtain ⟨e2, ht2, hf2⟩ := h2.trace
  refine ⟨?_, ?_, e2 ++ e1, by simp [ht2, ht1], by rw [wireFates_append, hf1, hf2]⟩
  · rw [List.map_append]; exact h1.stream.trans h2.stream
  · rw [h2.store, h1.store, List.foldl_append]

/-- `Reads` only looks at the connection, the store and the trace -/
theorem Reads.congr {F : List (Fate × Pkt)} {w w' v v' : World} (h : Reads F w w')
    (h1 : v.inboundRest = w.inboundRest) (h2 : v.store = w.store) (h3 : v.trace = w.trace)
    (g1 : v'.inboundRest = w'.inboundRest) (g2 : v'.store = w'.store) (g3 : v'.trace = w'.trace) : Reads F v v' := by
  obtain ⟨e, ht, hf⟩ := h.trace
  exact ⟨by rw [h1, g1]; exact h.stream, by rw [g2, h2]; exact h.store, e, by rw [g3, h3]; exact ht, hf⟩

/-- a step that reads nothing, leaves the store alone and adds no wire event -/
theorem Reads.quiet {w w' : World} (h1 : w'.inboundRest = w.inboundRest) (h2 : w'.store = w.store)
    {evs : List TEv} (h3 : w'.trace = evs ++ w.trace) (h4 : ∀ e ∈ evs, fate? e = none) : Reads [] w w' :=
  ⟨h1.symm, h2, evs, h3, wireFates_eq_nil h4⟩

/-! ### inversion of `withLock` for a normal return -/

theorem withLock_ok_inv {α} {l : Nat} {body : M α} {w w' : World} {a : α} (h : withLock l body w = (.ok a, w')) :
    l ∉ w.locks ∧ ∃ w1, body { w with locks := l :: w.locks } = (.ok a, w1) ∧ w' = { w1 with locks := w1.locks.erase l } := by
  by_cases hl : l ∈ w.locks
  · rw [withLock_run, if_pos hl] at h; simp at h
  · exact ⟨hl, withLock_any_inv h hl⟩

/-! ### `readPacket`: only requests are recorded -/

theorem readPacket_reqs {t : Txn} {w w' : World} {r : Except Err Pkt} (h : readPacket t w = (r, w')) :
    ∃ evs, w'.trace = evs ++ w.trace ∧ ∀ e ∈ evs, ∃ a b, e = TEv.req a b := by
  rw [readPacket, bind_run] at h
  rcases h1 : readBytes Generated.MESSAGE_SIZE t w with ⟨r1, w1⟩
  obtain ⟨-, -, ⟨e1, ht1, hr1⟩, -⟩ := readBytes_spec _ _ _ _ _ h1
  have hstop : ∃ evs, w1.trace = evs ++ w.trace ∧ ∀ e ∈ evs, ∃ a b, e = TEv.req a b :=
    ⟨e1, ht1, fun e he => by obtain ⟨b, hb, -⟩ := hr1 e he; exact ⟨b, b, hb⟩⟩
  rw [h1] at h
  cases r1 with
  | error e => simp only [Prod.mk.injEq] at h; obtain ⟨rfl, rfl⟩ := h; exact hstop
  | ok msg =>
    simp only at h
    rcases hu : unpack msg with _ | hd
    · simp only [hu, M.throw_run, Prod.mk.injEq] at h; obtain ⟨rfl, rfl⟩ := h; exact hstop
    · simp only [hu] at h
      rcases hcmd : Cmd.ofWire? hd.cmd with _ | c
      · simp only [hcmd, M.throw_run, Prod.mk.injEq] at h; obtain ⟨rfl, rfl⟩ := h; exact hstop
      · simp only [hcmd] at h
        split at h
        · simp only [pure_run, Prod.mk.injEq] at h; obtain ⟨rfl, rfl⟩ := h; exact hstop
        · rw [bind_run] at h
          rcases h2 : readBytes hd.len t w1 with ⟨r2, w2⟩
          obtain ⟨-, -, ⟨e2, ht2, hr2⟩, -⟩ := readBytes_spec _ _ _ _ _ h2
          have hstop2 : ∃ evs, w2.trace = evs ++ w.trace ∧ ∀ e ∈ evs, ∃ a b, e = TEv.req a b := by
            refine ⟨e2 ++ e1, by rw [ht2, ht1, List.append_assoc], ?_⟩
            intro e he
            rcases List.mem_append.1 he with he | he
            · obtain ⟨b, hb, -⟩ := hr2 e he; exact ⟨b, b, hb⟩
            · obtain ⟨b, hb, -⟩ := hr1 e he; exact ⟨b, b, hb⟩
          rw [h2] at h
          cases r2 with
          | error e => simp only [Prod.mk.injEq] at h; obtain ⟨rfl, rfl⟩ := h; exact hstop2
          | ok data =>
            simp only at h
            by_cases hck : checksum data = hd.sum
            · simp [hck] at h
              obtain ⟨rfl, rfl⟩ := h; exact hstop2
            · simp [bind_run, hck] at h
              obtain ⟨rfl, rfl⟩ := h; exact hstop2

/-- a normal return of `_read_packet_from_device`: exactly one frame of the stream was consumed, it reads as
    the returned packet, the store is untouched and only requests were recorded -/
theorem readPacket_frame_ok {t : Txn} {w w' : World} {p : Pkt} (h : readPacket t w = (.ok p, w')) :
    ∃ raw reqs, IsRaw p raw ∧ w.inboundRest = raw ++ w'.inboundRest ∧ w'.store = w.store ∧ w'.locks = w.locks ∧
      w'.trace = reqs ++ w.trace ∧ ∀ e ∈ reqs, ∃ a b, e = TEv.req a b := by
  obtain ⟨hb, hd, h1, h2, h3, h4, h5, h6, h7, h8, -, sd⟩ := C03_readPacket_exact t w p w' h
  obtain ⟨reqs, ht, hr⟩ := readPacket_reqs h
  exact ⟨hb ++ p.data, reqs, ⟨hb, hd, h1, h2, h3, h4, h5, h6, h7, rfl⟩, h8, sd.1, sd.2.2.2.2.2.2.1, ht, hr⟩

theorem fate?_req {e : TEv} (h : ∃ a b, e = TEv.req a b) : fate? e = none := by
  obtain ⟨a, b, rfl⟩ := h; rfl

/-! ### the store loop when the store holds nothing for the transaction -/

theorem storeFind_eq (t : Txn) (az : Bool) (w : World) : storeFind t az w = (.ok (lookup t az w.store), w) := rfl

theorem drainLoop_none {ex : List Cmd} {t : Txn} {az : Bool} {fuel : Nat} {w w' : World} {o : Option Pkt}
    (hn : lookup t az w.store = none) (h : drainLoop ex t az fuel w = (.ok o, w')) : o = none ∧ w' = w := by
  cases fuel with
  | zero => simp [drainLoop] at h
  | succ f =>
    rw [drainLoop, bind_run_ok (storeFind_eq t az w), hn] at h
    simp only [pure_run, Prod.mk.injEq, Except.ok.injEq] at h
    exact ⟨h.1.symm, h.2.symm⟩

theorem lockedDrain_none {ex : List Cmd} {t : Txn} {az : Bool} {fuel : Nat} {w w' : World} {o : Option Pkt}
    (hn : lookup t az w.store = none) (h : withLock lockStore (drainLoop ex t az fuel) w = (.ok o, w')) :
    o = none ∧ w' = w := by
  obtain ⟨-, w1, hb, rfl⟩ := withLock_ok_inv h
  obtain ⟨rfl, rfl⟩ := drainLoop_none (w := { w with locks := lockStore :: w.locks }) hn hb
  exact ⟨rfl, by simp⟩

/-! ### one packet off the wire -/

/-- the event `read` records for a packet it has read off the wire while the store was `s` -/
def wireEv (ex : List Cmd) (t : Txn) (az : Bool) (s : Store) (p : Pkt) : TEv :=
  match fate ex t az p with
  | .delivered => .deliver p
  | .dropped => .drop p
  | .parked => if p.cmd = Cmd.CLSE ∧ s.queue p.arg0 p.arg1 = none then .lost p else .park p

theorem fate?_wireEv (ex : List Cmd) (t : Txn) (az : Bool) (s : Store) (p : Pkt) :
    fate? (wireEv ex t az s p) = some (fate ex t az p, p) := by
  unfold wireEv
  cases h : fate ex t az p <;> simp only [fate?]
  by_cases hd : p.cmd = Cmd.CLSE ∧ s.queue p.arg0 p.arg1 = none <;> simp [hd]

/-- what the caller of one `read` iteration gets for a packet read off the wire -/
def wireRes (ex : List Cmd) (t : Txn) (az : Bool) (p : Pkt) : Option Pkt :=
  if fate ex t az p = .delivered then some p else none

/-- One packet read off the wire by one `read` iteration: exactly one frame `raw` is consumed, it reads as `p`;
    `p` is delivered / dropped / parked (lost) according to `args_match` and `cmd ∈ expected`; the store is
    updated accordingly; besides that only quiet events `pre` are recorded. -/
structure WireStep (ex : List Cmd) (t : Txn) (az : Bool) (s : Store) (w : World) (r : Option Pkt) (w' : World)
    (p : Pkt) (raw : Bytes) (pre : List TEv) : Prop where
  isRaw : IsRaw p raw
  stream : w.inboundRest = raw ++ w'.inboundRest
  store : w'.store = storeStep s (fate ex t az p, p)
  trace : w'.trace = wireEv ex t az s p :: pre ++ w.trace
  res : r = wireRes ex t az p

theorem fate_delivered {ex : List Cmd} {t : Txn} {az : Bool} {p : Pkt} (hm : t.argsMatch p.arg0 p.arg1 az = true)
    (hc : ex.contains p.cmd = true) : fate ex t az p = .delivered := by
  unfold fate; rw [if_pos hm, if_pos hc]
theorem fate_dropped {ex : List Cmd} {t : Txn} {az : Bool} {p : Pkt} (hm : t.argsMatch p.arg0 p.arg1 az = true)
    (hc : ¬ ex.contains p.cmd = true) : fate ex t az p = .dropped := by
  unfold fate; rw [if_pos hm, if_neg hc]
theorem fate_parked {ex : List Cmd} {t : Txn} {az : Bool} {p : Pkt} (hm : ¬ t.argsMatch p.arg0 p.arg1 az = true) :
    fate ex t az p = .parked := by
  unfold fate; rw [if_neg hm]

theorem readIterTail_wire {ex : List Cmd} {t : Txn} {az : Bool} {w w' : World} {r : Option Pkt}
    (h : readIterTail ex t az w = (.ok r, w')) :
    ∃ p raw reqs, (∀ e ∈ reqs, ∃ a b, e = TEv.req a b) ∧ WireStep ex t az w.store w r w' p raw reqs := by
  unfold readIterTail at h
  obtain ⟨p, w1, hp, hrest⟩ := bind_ok_inv h
  obtain ⟨raw, reqs, hraw, hstream, hstore, -, htrace, hreqs⟩ := readPacket_frame_ok hp
  refine ⟨p, raw, reqs, hreqs, ?_⟩
  by_cases hm : t.argsMatch p.arg0 p.arg1 az = true
  · -- the ids match
    have hjp : ∀ {w2 : World}, w2.inboundRest = w1.inboundRest → w2.trace = w1.trace →
        (if ex.contains p.cmd = true then (do emit (.deliver p); pure (some p) : M (Option Pkt))
          else do emit (.drop p); pure none) w2 = (.ok r, w') →
        w.inboundRest = raw ++ w'.inboundRest ∧ w'.store = w2.store ∧
          w'.trace = wireEv ex t az w.store p :: reqs ++ w.trace ∧ r = wireRes ex t az p ∧
          fate ex t az p ≠ .parked := by
      intro w2 hi2 ht2 h2
      by_cases hc : ex.contains p.cmd = true
      · have hf := fate_delivered hm hc
        simp only [hc, if_true, bind_run, emit_run, pure_run, Prod.mk.injEq, Except.ok.injEq] at h2
        obtain ⟨rfl, rfl⟩ := h2
        refine ⟨by rw [hstream, ← hi2]; rfl, rfl, ?_, by simp [wireRes, hf], by simp [hf]⟩
        simp [wireEv, hf, ht2, htrace]
      · have hf := fate_dropped hm hc
        simp only [hc] at h2
        obtain ⟨rfl, rfl⟩ := h2
        refine ⟨by rw [hstream, ← hi2]; rfl, rfl, ?_, by simp [wireRes, hf], by simp [hf]⟩
        simp [wireEv, hf, ht2, htrace]
    simp only [hm, Bool.not_true, Bool.false_eq_true, if_false] at hrest
    split at hrest
    · next hcl =>
      obtain ⟨u, w2, hclr, hrest2⟩ := bind_ok_inv hrest
      obtain ⟨-, w3, hb, hw2⟩ := withLock_ok_inv hclr
      simp only [storeClear, M.modify_run, Prod.mk.injEq, true_and] at hb
      have e1 : w2.inboundRest = w1.inboundRest := by rw [hw2, ← hb]; rfl
      have e2 : w2.trace = w1.trace := by rw [hw2, ← hb]
      have e3 : w2.store = w1.store.clear p.arg0 p.arg1 := by rw [hw2, ← hb]
      obtain ⟨a, b, c, d, e⟩ := hjp e1 e2 hrest2
      have b' : w'.store = w1.store.clear p.arg0 p.arg1 := b.trans e3
      refine ⟨hraw, a, ?_, c, d⟩
      rw [b', hstore]
      cases hf : fate ex t az p
      · simp [storeStep, hcl]
      · simp [storeStep, hcl]
      · exact absurd hf e
    · next hcl =>
      obtain ⟨a, b, c, d, e⟩ := hjp (w2 := w1) rfl rfl hrest
      refine ⟨hraw, a, ?_, c, d⟩
      rw [b, hstore]
      cases hf : fate ex t az p
      · simp [storeStep, hcl]
      · simp [storeStep, hcl]
      · exact absurd hf e
  · -- the ids do not match: the packet goes to the store
    have hf : fate ex t az p = .parked := fate_parked hm
    have hm' : t.argsMatch p.arg0 p.arg1 az = false := by simpa using hm
    simp only [hm', Bool.not_false, if_true] at hrest
    obtain ⟨u, w2, hput, hrest2⟩ := bind_ok_inv hrest
    simp only [pure_run, Prod.mk.injEq, Except.ok.injEq] at hrest2
    obtain ⟨rfl, rfl⟩ := hrest2
    obtain ⟨-, w3, hb, rfl⟩ := withLock_ok_inv hput
    simp only [storePut, Prod.mk.injEq, true_and] at hb
    subst hb
    refine ⟨hraw, by rw [hstream]; rfl, ?_, ?_, by simp [wireRes, hf]⟩
    · simp [storeStep, hf, hstore]
    · simp only [wireEv, hf, hstore, htrace]
      rfl

/-- one `read` iteration when the store holds nothing for the transaction: nothing is taken from the store,
    exactly one packet is read off the wire -/
theorem readIter_wire {ex : List Cmd} {t : Txn} {az : Bool} {w w' : World} {r : Option Pkt}
    (hn : lookup t az w.store = none) (h : readIter ex t az w = (.ok r, w')) :
    ∃ p raw reqs, (∀ e ∈ reqs, ∃ a b, e = TEv.req a b) ∧ WireStep ex t az w.store w r w' p raw reqs := by
  rw [readIter_eq] at h
  obtain ⟨-, w1, hb, rfl⟩ := withLock_ok_inv h
  rw [bind_run_ok (M.get_run _)] at hb
  obtain ⟨o, w2, hd, hrest⟩ := bind_ok_inv hb
  obtain ⟨rfl, rfl⟩ := lockedDrain_none (w := { w with locks := lockTransport :: w.locks }) hn hd
  obtain ⟨p, raw, reqs, hreqs, hs⟩ := readIterTail_wire hrest
  exact ⟨p, raw, reqs, hreqs, hs.isRaw, hs.stream, hs.store, hs.trace, hs.res⟩

theorem WireStep.reads {ex : List Cmd} {t : Txn} {az : Bool} {w w' : World} {r : Option Pkt} {p : Pkt} {raw : Bytes}
    {pre : List TEv} (h : WireStep ex t az w.store w r w' p raw pre) (hpre : ∀ e ∈ pre, fate? e = none) :
    Reads [(fate ex t az p, p)] w w' := by
  refine ⟨?_, by simpa using h.store, wireEv ex t az w.store p :: pre, h.trace, ?_⟩
  · rw [h.stream]; exact Frames.single h.isRaw
  · rw [wireFates_cons, wireFates_eq_nil hpre, fate?_wireEv]; rfl

/-! ### the read loop and `_AdbIOManager.read` -/

/-- the postcondition of a read that returned `p` with nothing for the transaction in the store: the packets
    `qs ++ [p]` were read off the wire; none of `qs` was deliverable, `p` is; the store stays clean -/
def ReadsTo (ex : List Cmd) (t : Txn) (az : Bool) (w : World) (p : Pkt) (w' : World) : Prop :=
  ∃ qs, Reads (classify ex t az (qs ++ [p])) w w' ∧ (∀ q ∈ qs, fate ex t az q ≠ .delivered) ∧
    fate ex t az p = .delivered

theorem readLoop_reads {ex : List Cmd} {t : Txn} {az : Bool} {start : Int} {l : Nat} (hl : t.localId = some l) :
    ∀ (fuel : Nat) {w w' : World} {p : Pkt}, Clean t az w.store →
      readLoop ex t az start fuel w = (.ok p, w') → ReadsTo ex t az w p w' := by
  intro fuel
  induction fuel with
  | zero => intro w w' p _ h; simp [readLoop] at h
  | succ f ih =>
    intro w w' p hc h
    unfold readLoop at h
    obtain ⟨o, w1, hi, hrest⟩ := bind_ok_inv h
    obtain ⟨q, raw, reqs, hreqs, hs⟩ := readIter_wire hc.lookup hi
    have hR : Reads [(fate ex t az q, q)] w w1 := hs.reads (fun e he => fate?_req (hreqs e he))
    by_cases hf : fate ex t az q = .delivered
    · have ho : o = some q := by rw [hs.res]; simp [wireRes, hf]
      subst ho
      simp only [pure_run, Prod.mk.injEq, Except.ok.injEq] at hrest
      obtain ⟨rfl, rfl⟩ := hrest
      exact ⟨[], by simpa using hR, by simp, hf⟩
    · have ho : o = none := by rw [hs.res]; simp [wireRes, hf]
      subst ho
      simp only at hrest
      obtain ⟨b, w2, hel, hrest2⟩ := bind_ok_inv hrest
      have hw2 : w2 = w1 := by
        unfold elapsedGt at hel
        split at hel <;> simp at hel
        exact hel.2.symm
      subst hw2
      split at hrest2
      · simp [bind_run] at hrest2
      · have hc1 : Clean t az w2.store := by
          rw [hR.store]
          exact Clean.steps (ex := ex) hl hc [q]
        obtain ⟨qs, hR2, hqs, hp⟩ := ih hc1 hrest2
        refine ⟨q :: qs, ?_, ?_, hp⟩
        · simpa using hR.trans hR2
        · intro x hx
          rcases List.mem_cons.1 hx with rfl | hx
          · exact hf
          · exact hqs x hx

/-- `_AdbIOManager.read(expected, adb_info, allow_zeros)` returning `p` while the store holds nothing for the
    transaction: nothing comes out of the store; the packets `qs ++ [p]` are read off the wire. -/
theorem ioRead_reads {ex : List Cmd} {t : Txn} {az : Bool} {l : Nat} {w w' : World} {p : Pkt}
    (hl : t.localId = some l) (hc : Clean t az w.store) (h : ioRead ex t az w = (.ok p, w')) :
    ReadsTo ex t az w p w' := by
  unfold ioRead at h
  rw [bind_run_ok (M.get_run _)] at h
  obtain ⟨o, w1, hd, hrest⟩ := bind_ok_inv h
  obtain ⟨rfl, rfl⟩ := lockedDrain_none hc.lookup hd
  simp only at hrest
  rw [bind_run_ok (now_run _)] at hrest
  exact readLoop_reads hl _ hc hrest

/-- the store after such a read is again clean -/
theorem ReadsTo.clean {ex : List Cmd} {t : Txn} {az : Bool} {l : Nat} {w w' : World} {p : Pkt}
    (hl : t.localId = some l) (hc : Clean t az w.store) (h : ReadsTo ex t az w p w') : Clean t az w'.store := by
  obtain ⟨qs, hR, -, -⟩ := h
  rw [hR.store]
  exact Clean.steps hl hc _

end E2E
end Adb

/-
  End-to-end bridge, part C: the stream layer (`_read_until`, `_read_until_close`, `_open`,
  `_streaming_command`, `_service`) in terms of the frames consumed from the device's byte stream.
-/
namespace Adb
namespace E2E

/-! ### sending reads nothing -/

theorem ioSend_reads {m : Msg} {t : Txn} {w w' : World} {u : Unit} (h : ioSend m t w = (.ok u, w')) :
    Reads [] w w' := by
  unfold ioSend at h
  obtain ⟨-, w1, hb, rfl⟩ := withLock_ok_inv h
  obtain ⟨sd, hin, htr, -, -⟩ := sendRaw_spec _ _ _ _ _ hb
  refine Reads.quiet (evs := [.tx m]) ?_ ?_ ?_ ?_
  · exact hin
  · exact sd.1
  · exact htr
  · intro e he; simp only [List.mem_singleton] at he; subst he; rfl

theorem ReadsTo.then {ex : List Cmd} {t : Txn} {az : Bool} {w w1 w' : World} {p : Pkt}
    (h : ReadsTo ex t az w p w1) (h2 : Reads [] w1 w') : ReadsTo ex t az w p w' := by
  obtain ⟨qs, hR, a, b⟩ := h
  exact ⟨qs, by simpa using hR.trans h2, a, b⟩

theorem ReadsTo.after {ex : List Cmd} {t : Txn} {az : Bool} {w w1 w' : World} {p : Pkt}
    (h2 : Reads [] w w1) (h : ReadsTo ex t az w1 p w') : ReadsTo ex t az w p w' := by
  obtain ⟨qs, hR, a, b⟩ := h
  exact ⟨qs, by simpa using h2.trans hR, a, b⟩

/-! ### `_read_until` -/

theorem readUntil_reads {ex : List Cmd} {t : Txn} {l : Nat} {w w' : World} {c : Cmd} {d : Bytes}
    (hl : t.localId = some l) (hc : Clean t true w.store) (h : readUntil ex t w = (.ok (c, d), w')) :
    ∃ p, p.cmd = c ∧ p.data = d ∧ ReadsTo ex t true w p w' := by
  unfold readUntil at h
  obtain ⟨p, w1, hr, hrest⟩ := bind_ok_inv h
  have hR := ioRead_reads hl hc hr
  simp only at hrest
  split at hrest
  · obtain ⟨u, w2, hok, hrest2⟩ := bind_ok_inv hrest
    simp only [pure_run, Prod.mk.injEq, Except.ok.injEq] at hrest2
    obtain ⟨⟨rfl, rfl⟩, rfl⟩ := hrest2
    exact ⟨p, rfl, rfl, hR.then (ioSend_reads hok)⟩
  · simp only [pure_run, Prod.mk.injEq, Except.ok.injEq] at hrest
    obtain ⟨⟨rfl, rfl⟩, rfl⟩ := hrest
    exact ⟨p, rfl, rfl, hR⟩

/-! ### `_read_until_close` -/

/-- the commands `_read_until_close` waits for -/
abbrev exS : List Cmd := [.CLSE, .WRTE]

theorem fate_delivered_iff {ex : List Cmd} {t : Txn} {az : Bool} {p : Pkt} :
    fate ex t az p = .delivered ↔ t.argsMatch p.arg0 p.arg1 az = true ∧ ex.contains p.cmd = true := by
  constructor
  · intro h
    by_cases hm : t.argsMatch p.arg0 p.arg1 az = true
    · by_cases hc : ex.contains p.cmd = true
      · exact ⟨hm, hc⟩
      · rw [fate_dropped hm hc] at h; cases h
    · rw [fate_parked hm] at h; cases h
  · rintro ⟨hm, hc⟩; exact fate_delivered hm hc

/-- the postcondition of `_read_until_close` in terms of the packets read off the wire: `mid ++ [c]` were read,
    `c` is the first CLSE of this stream, the items are the payloads of this stream's WRTEs in `mid` -/
def CloseReads (t : Txn) (acc : List Bytes) (w : World) (items : List Bytes) (w' : World) : Prop :=
  ∃ mid c, Reads (classify exS t true (mid ++ [c])) w w' ∧
    t.argsMatch c.arg0 c.arg1 true = true ∧ c.cmd = .CLSE ∧
    (∀ q ∈ mid, ¬ (t.argsMatch q.arg0 q.arg1 true = true ∧ q.cmd = .CLSE)) ∧
    items = acc.reverse ++ (mid.filter (fun q => t.argsMatch q.arg0 q.arg1 true && q.cmd == .WRTE)).map (·.data)

theorem elapsedGt_ok {s : Int} {l : Timeout} {w w' : World} {b : Bool} (h : elapsedGt s l w = (.ok b, w')) : w' = w := by
  unfold elapsedGt at h
  split at h <;> simp at h
  exact h.2.symm

theorem readUntilCloseLoop_reads {t : Txn} {start : Int} {l : Nat} (hl : t.localId = some l) :
    ∀ (fuel : Nat) {acc : List Bytes} {w w' : World} {items : List Bytes}, Clean t true w.store →
      readUntilCloseLoop t start fuel acc w = (.ok items, w') → CloseReads t acc w items w' := by
  intro fuel
  induction fuel with
  | zero => intro acc w w' items _ h; simp [readUntilCloseLoop] at h
  | succ f ih =>
    intro acc w w' items hc h
    unfold readUntilCloseLoop at h
    obtain ⟨⟨cmd, data⟩, w1, hu, hrest⟩ := bind_ok_inv h
    obtain ⟨p, rfl, rfl, hRT⟩ := readUntil_reads hl hc hu
    have hc1 : Clean t true w1.store := hRT.clean hl hc
    obtain ⟨qs, hR, hqs, hp⟩ := hRT
    obtain ⟨hpm, hpc⟩ := fate_delivered_iff.1 hp
    have hqs' : ∀ q ∈ qs, ∀ c ∈ exS, ¬ (t.argsMatch q.arg0 q.arg1 true = true ∧ q.cmd = c) := by
      intro q hq c hcx hh
      refine hqs q hq (fate_delivered_iff.2 ⟨hh.1, ?_⟩)
      rw [hh.2]; simpa using hcx
    have hfilter : qs.filter (fun q => t.argsMatch q.arg0 q.arg1 true && q.cmd == .WRTE) = [] := by
      rw [List.filter_eq_nil_iff]
      intro q hq hh
      simp only [Bool.and_eq_true, beq_iff_eq] at hh
      exact hqs' q hq .WRTE (by simp [exS]) hh
    simp only at hrest
    split at hrest
    · next hcl =>
      -- the device closed the stream
      obtain ⟨u, w2, hs, hrest2⟩ := bind_ok_inv hrest
      simp only [pure_run, Prod.mk.injEq, Except.ok.injEq] at hrest2
      obtain ⟨rfl, rfl⟩ := hrest2
      refine ⟨qs, p, by simpa using hR.trans (ioSend_reads hs), hpm, hcl, ?_, by simp [hfilter]⟩
      intro q hq
      exact hqs' q hq .CLSE (by simp [exS])
    · next hcl =>
      have hpw : p.cmd = .WRTE := by
        have : p.cmd ∈ exS := by simpa using hpc
        simp only [exS, List.mem_cons, List.not_mem_nil, or_false] at this
        rcases this with h1 | h1
        · exact absurd h1 hcl
        · exact h1
      obtain ⟨u, w2, hem, hrest2⟩ := bind_ok_inv hrest
      simp only [emit_run, Prod.mk.injEq, true_and] at hem
      have hY : Reads [] w1 w2 := by
        refine Reads.quiet (evs := [.yielded p.data]) ?_ ?_ ?_ ?_
        · rw [← hem]; rfl
        · rw [← hem]
        · rw [← hem]; rfl
        · intro e he; simp only [List.mem_singleton] at he; subst he; rfl
      have hc2 : Clean t true w2.store := by rw [hY.store]; exact hc1
      have hfin : ∀ {w3 : World}, Reads [] w2 w3 → readUntilCloseLoop t start f (p.data :: acc) w3 = (.ok items, w') →
          CloseReads t acc w items w' := by
        intro w3 h23 hloop
        have hc3 : Clean t true w3.store := by rw [h23.store]; exact hc2
        obtain ⟨mid, c, hR3, hcm, hcc, hmid, hitems⟩ := ih hc3 hloop
        refine ⟨qs ++ p :: mid, c, ?_, hcm, hcc, ?_, ?_⟩
        · have := ((hR.trans hY).trans h23).trans hR3
          simpa using this
        · intro q hq
          rcases List.mem_append.1 hq with hq | hq
          · exact hqs' q hq .CLSE (by simp [exS])
          · rcases List.mem_cons.1 hq with rfl | hq
            · intro hh; exact hcl hh.2
            · exact hmid q hq
        · rw [hitems, List.filter_append, hfilter, List.filter_cons]
          simp [hpm, hpw]
      cases htot : t.total with
      | none =>
        simp only [htot] at hrest2
        exact hfin (Reads.refl _) hrest2
      | some tot =>
        simp only [htot] at hrest2
        obtain ⟨b, w3, hel, hrest3⟩ := bind_ok_inv hrest2
        have := elapsedGt_ok hel
        subst this
        split at hrest3
        · simp [bind_run] at hrest3
        · exact hfin (Reads.refl _) hrest3

theorem readUntilClose_reads {t : Txn} {l : Nat} {w w' : World} {items : List Bytes} (hl : t.localId = some l)
    (hc : Clean t true w.store) (h : readUntilClose t w = (.ok items, w')) : CloseReads t [] w items w' := by
  unfold readUntilClose at h
  rw [bind_run_ok (now_run _), bind_run_ok (M.get_run _)] at h
  exact readUntilCloseLoop_reads hl _ hc h

/-! ### `_open` -/

/-- the store holds nothing for local id `l`: what `_open` needs to read its OKAY off the wire -/
def FreeOf (l : Nat) (s : Store) : Prop := KeysSat (fun k => k.2 ≠ l) s

theorem FreeOf.clean {l : Nat} {s : Store} {t : Txn} (h : FreeOf l s) (hl : t.localId = some l) (hr : t.remoteId = none) :
    Clean t false s := by
  refine KeysSat.mono h ?_
  intro k hk
  simp only [acceptsKey, hl, hr, Store.keyMatches, Bool.false_eq_true, if_false, Bool.true_and]
  simpa using hk

theorem openStream_reads {dest : Bytes} {tt rt total : Timeout} {w w' : World} {t' : Txn}
    (hs : FreeOf (nextId w.localId) w.store) (h : openStream dest tt rt total w = (.ok t', w')) :
    ∃ t okay, t.localId = some (nextId w.localId) ∧ t.remoteId = none ∧
      t'.localId = some (nextId w.localId) ∧ t'.remoteId = some okay.arg0 ∧ t'.total = total ∧
      ReadsTo [.OKAY] t false w okay w' := by
  unfold openStream at h
  obtain ⟨t, w1, ht, hrest⟩ := bind_ok_inv h
  obtain ⟨-, w0, hb, rfl⟩ := withLock_ok_inv ht
  simp only [bind_run, M.modify_run, M.get_run, getTT, liftExcept_run] at hb
  simp only [Prod.mk.injEq] at hb
  obtain ⟨hmk, rfl⟩ := hb
  obtain ⟨hlid, hrid, htot⟩ := Txn.make_ids hmk
  obtain ⟨u, w2, hsend, hrest2⟩ := bind_ok_inv hrest
  have hS := ioSend_reads hsend
  obtain ⟨p, w3, hread, hrest3⟩ := bind_ok_inv hrest2
  simp only [pure_run, Prod.mk.injEq, Except.ok.injEq] at hrest3
  obtain ⟨rfl, rfl⟩ := hrest3
  have hc2 : Clean t false w2.store := by
    rw [hS.store]
    exact hs.clean hlid hrid
  have hR := (ioRead_reads hlid hc2 hread).after hS
  refine ⟨t, p, hlid, hrid, hlid, rfl, htot, ?_⟩
  obtain ⟨qs, hR, a, b⟩ := hR
  exact ⟨qs, hR.congr rfl rfl rfl rfl rfl rfl, a, b⟩

/-! ### ids -/

/-- `p` carries this stream's ids: `arg1` is the local id `l` (or the legacy 0) and `arg0` the remote id `r` (or 0)
    — `args_match(arg0, arg1, allow_zeros=True)` -/
def mine (l r : Nat) (p : Pkt) : Bool := (p.arg1 == 0 || p.arg1 == l) && (p.arg0 == 0 || p.arg0 == r)

/-- `p` is the device's OKAY for the OPEN with local id `l` -/
def isOkayFor (l : Nat) (p : Pkt) : Bool := p.arg1 == l && p.cmd == .OKAY

/-- what `_open` (local id `l`) does with a packet read off the wire -/
def fateOpen (l : Nat) (p : Pkt) : Fate :=
  if p.arg1 = l then (if p.cmd = .OKAY then .delivered else .dropped) else .parked

/-- what `_read_until_close` on the stream `(l, r)` does with a packet read off the wire -/
def fateStream (l r : Nat) (p : Pkt) : Fate :=
  if mine l r p then (if p.cmd = .CLSE ∨ p.cmd = .WRTE then .delivered else .dropped) else .parked

theorem some_beq (a b : Nat) : (some a == some b) = (b == a) := by
  rw [Bool.eq_iff_iff]
  simp only [beq_iff_eq, Option.some.injEq]
  exact eq_comm

theorem argsMatch_open {t : Txn} {l : Nat} (hl : t.localId = some l) (hr : t.remoteId = none) (a0 a1 : Nat) :
    t.argsMatch a0 a1 false = decide (a1 = l) := by
  unfold Txn.argsMatch
  rw [hl, hr]
  by_cases h : a1 = l
  · subst h; simp
  · have h' : l ≠ a1 := fun e => h e.symm
    simp [h, h']

theorem argsMatch_stream {t : Txn} {l r : Nat} (hl : t.localId = some l) (hr : t.remoteId = some r) (p : Pkt) :
    t.argsMatch p.arg0 p.arg1 true = mine l r p := by
  unfold Txn.argsMatch mine
  rw [hl, hr, some_beq, some_beq]
  simp

theorem fate_open_eq {t : Txn} {l : Nat} (hl : t.localId = some l) (hr : t.remoteId = none) :
    fate [.OKAY] t false = fateOpen l := by
  funext p
  unfold fate fateOpen
  rw [argsMatch_open hl hr]
  by_cases h1 : p.arg1 = l <;> by_cases h2 : p.cmd = .OKAY <;> simp [h1, h2]

theorem fate_stream_eq {t : Txn} {l r : Nat} (hl : t.localId = some l) (hr : t.remoteId = some r) :
    fate exS t true = fateStream l r := by
  funext p
  unfold fate fateStream
  rw [argsMatch_stream hl hr]
  by_cases h1 : mine l r p = true <;> by_cases h2 : p.cmd = .CLSE <;> by_cases h3 : p.cmd = .WRTE <;>
    simp [h1, h2, h3, exS]

theorem classify_open_eq {t : Txn} {l : Nat} (hl : t.localId = some l) (hr : t.remoteId = none) (ps : List Pkt) :
    classify [.OKAY] t false ps = ps.map (fun p => (fateOpen l p, p)) := by
  unfold classify; rw [fate_open_eq hl hr]

theorem classify_stream_eq {t : Txn} {l r : Nat} (hl : t.localId = some l) (hr : t.remoteId = some r) (ps : List Pkt) :
    classify exS t true ps = ps.map (fun p => (fateStream l r p, p)) := by
  unfold classify; rw [fate_stream_eq hl hr]

theorem fateOpen_delivered {l : Nat} {p : Pkt} : fateOpen l p = .delivered ↔ isOkayFor l p = true := by
  unfold fateOpen isOkayFor
  by_cases h1 : p.arg1 = l <;> by_cases h2 : p.cmd = .OKAY <;> simp [h1, h2]

theorem fateOpen_parked {l : Nat} {p : Pkt} : fateOpen l p = .parked ↔ p.arg1 ≠ l := by
  unfold fateOpen
  by_cases h1 : p.arg1 = l <;> by_cases h2 : p.cmd = .OKAY <;> simp [h1, h2]

/-! ### `_streaming_command` -/

/-- a parked key that differs from `l` and 0 in its `arg1` never matches the stream `(l, r)` -/
theorem clean_of_free {l r : Nat} {s : Store} {t : Txn} (h : KeysSat (fun k => k.2 ≠ l ∧ k.2 ≠ 0) s)
    (hl : t.localId = some l) (hr : t.remoteId = some r) : Clean t true s := by
  refine KeysSat.mono h ?_
  rintro ⟨k0, k1⟩ ⟨h1, h2⟩
  simp only [acceptsKey, hl, hr, Store.keyMatchesZ, Store.keyMatches, if_true]
  simp only at h1 h2
  simp [h1, h2]

/-- Everything `_streaming_command` reads, in the order it reads it (no assumption on the device stream):
    first `pre ++ [okay]` on behalf of `_open` — `okay` is the first OKAY carrying the new local id `l`, the
    packets of `pre` are parked (`arg1 ≠ l`) or dropped (`arg1 = l`, not an OKAY) — reaching a world `w1`;
    then, provided none of the packets parked so far carries `arg1 = 0`, `mid ++ [c]` on behalf of
    `_read_until_close` on the stream `(l, okay.arg0)` — `c` is the first CLSE with this stream's ids, and the
    items returned are the payloads of the WRTEs of `mid` with this stream's ids, in order. -/
theorem streamingCommand_reads {svc cmd : Bytes} {tt rt total : Timeout} {w w' : World} {items : List Bytes}
    (hs : KeysSat (fun k => k.2 ≠ nextId w.localId ∧ k.2 ≠ 0) w.store)
    (h : streamingCommand svc cmd tt rt total w = (.ok items, w')) :
    ∃ pre okay w1, Reads ((pre ++ [okay]).map (fun p => (fateOpen (nextId w.localId) p, p))) w w1 ∧
      (∀ q ∈ pre, isOkayFor (nextId w.localId) q = false) ∧ isOkayFor (nextId w.localId) okay = true ∧
      ((∀ q ∈ pre, q.arg1 ≠ 0) →
        ∃ mid c, Reads ((mid ++ [c]).map (fun p => (fateStream (nextId w.localId) okay.arg0 p, p))) w1 w' ∧
          mine (nextId w.localId) okay.arg0 c = true ∧ c.cmd = .CLSE ∧
          (∀ q ∈ mid, ¬ (mine (nextId w.localId) okay.arg0 q = true ∧ q.cmd = .CLSE)) ∧
          items = (mid.filter (fun q => mine (nextId w.localId) okay.arg0 q && q.cmd == .WRTE)).map (·.data)) := by
  unfold streamingCommand at h
  obtain ⟨t', w1, ho, hc⟩ := bind_ok_inv h
  have hs0 : FreeOf (nextId w.localId) w.store := KeysSat.mono hs (fun k hk => hk.1)
  obtain ⟨t, okay, hlid, hrid, hlid', hrid', -, qs, hR, hqs, hok⟩ := openStream_reads hs0 ho
  rw [classify_open_eq hlid hrid] at hR
  rw [fate_open_eq hlid hrid] at hqs hok
  refine ⟨qs, okay, w1, hR, ?_, fateOpen_delivered.1 hok, ?_⟩
  · intro q hq
    cases hh : isOkayFor (nextId w.localId) q with
    | false => rfl
    | true => exact absurd (fateOpen_delivered.2 hh) (hqs q hq)
  · intro hz
    have hs1 : KeysSat (fun k => k.2 ≠ nextId w.localId ∧ k.2 ≠ 0) w1.store := by
      rw [hR.store]
      refine KeysSat.steps hs _ ?_
      intro fp hfp hpk
      simp only [List.mem_map, List.mem_append, List.mem_singleton] at hfp
      obtain ⟨q, hq, rfl⟩ := hfp
      simp only at hpk ⊢
      have h1 := fateOpen_parked.1 hpk
      rcases hq with hq | rfl
      · exact ⟨h1, hz q hq⟩
      · rw [hok] at hpk; cases hpk
    have hc1 : Clean t' true w1.store := clean_of_free hs1 hlid' hrid'
    obtain ⟨mid, c, hR2, hcm, hcc, hmid, hitems⟩ := readUntilClose_reads hlid' hc1 hc
    rw [classify_stream_eq hlid' hrid'] at hR2
    rw [argsMatch_stream hlid' hrid'] at hcm
    refine ⟨mid, c, hR2, hcm, hcc, ?_, ?_⟩
    · intro q hq
      have := hmid q hq
      rwa [argsMatch_stream hlid' hrid'] at this
    · rw [hitems]
      simp only [List.reverse_nil, List.nil_append]
      congr 2
      funext q
      rw [argsMatch_stream hlid' hrid']

end E2E
end Adb

/-
  End-to-end bridge, part D: the results of part B/C against a device stream that is known to consist of
  the frames of a list of packets `ps` (followed by anything), and the reference semantics `streamItems`.
-/
namespace Adb
namespace E2E

theorem mem_of_snoc_eq {α : Type} {pre ps extra : List α} {o q : α} (h : pre ++ [o] = ps ++ q :: extra) :
    ∀ x ∈ ps, x ∈ pre := by
  induction pre generalizing ps with
  | nil =>
    cases ps with
    | nil => simp
    | cons b ps' =>
      have := congrArg List.length h
      simp at this
  | cons a pre ih =>
    cases ps with
    | nil => simp
    | cons b ps' =>
      simp only [List.cons_append, List.cons.injEq] at h
      obtain ⟨rfl, h⟩ := h
      intro x hx
      rcases List.mem_cons.1 hx with rfl | hx
      · simp
      · exact List.mem_cons_of_mem _ (ih h x hx)

/-! ### `_AdbIOManager.read` against a known device stream -/

/-- `_AdbIOManager.read(expected, adb_info, allow_zeros)` returning `p` while the packet store holds nothing
    for the transaction (in particular when it is empty), on a device stream that consists of the frames of
    `ps` followed by `tl`: the packets read are a prefix `qs ++ [p]` of `ps`; `p` is the FIRST packet of `ps`
    whose ids match and whose command is expected; every earlier one was parked/lost (ids do not match) or
    dropped (ids match, command unexpected) — `Reads` records exactly that in the trace and in the store —
    and the stream continues with the frames of the rest.  The only alternative: no packet of `ps` is
    deliverable and the read went on into `tl`, which then starts with a further frame. -/
theorem ioRead_frames {ex : List Cmd} {t : Txn} {az : Bool} {l : Nat} {w w' : World} {p : Pkt} {ps : List Pkt}
    {tl : Bytes} (hl : t.localId = some l) (hc : Clean t az w.store) (hf : Frames ps w.inboundRest tl)
    (h : ioRead ex t az w = (.ok p, w')) :
    (∃ qs rest, ps = qs ++ p :: rest ∧ (∀ q ∈ qs, fate ex t az q ≠ .delivered) ∧ fate ex t az p = .delivered ∧
        Frames rest w'.inboundRest tl ∧ Reads (classify ex t az (qs ++ [p])) w w' ∧ Clean t az w'.store) ∨
    ((∀ q ∈ ps, fate ex t az q ≠ .delivered) ∧ Readable tl) := by
  have hRT := ioRead_reads hl hc h
  have hc' := hRT.clean hl hc
  obtain ⟨qs, hR, hqs, hp⟩ := hRT
  have hfr : Frames (qs ++ [p]) w.inboundRest w'.inboundRest := by
    have := hR.stream
    rwa [classify_pkts] at this
  rcases hfr.compare hf with ⟨rest, rfl, hrest⟩ | ⟨q, extra, he, hread⟩
  · exact Or.inl ⟨qs, rest, by simp, hqs, hp, hrest, hR, hc'⟩
  · exact Or.inr ⟨fun x hx => hqs x (mem_of_snoc_eq he x hx), hread⟩

/-! ### the reference semantics of a command stream on a list of device packets -/

/-- `_read_until_close` on the stream `(l, r)`: skip to the first CLSE with this stream's ids, collecting the
    payloads of the WRTEs with this stream's ids; result: the items and the packets after that CLSE -/
def closeItems (l r : Nat) : List Pkt → Option (List Bytes × List Pkt)
  | [] => none
  | p :: ps =>
    if mine l r p && p.cmd == .CLSE then some ([], ps)
    else match closeItems l r ps with
      | none => none
      | some (ds, rest) => some (if mine l r p && p.cmd == .WRTE then p.data :: ds else ds, rest)

/-- `_streaming_command` with new local id `l`: skip to the first OKAY carrying `l`; its `arg0` is the remote id -/
def streamItems (l : Nat) : List Pkt → Option (List Bytes × List Pkt)
  | [] => none
  | p :: ps => if isOkayFor l p then closeItems l p.arg0 ps else streamItems l ps

theorem closeItems_none {l r : Nat} {ps : List Pkt} (h : ∀ q ∈ ps, ¬ (mine l r q = true ∧ q.cmd = .CLSE)) :
    closeItems l r ps = none := by
  induction ps with
  | nil => rfl
  | cons p ps ih =>
    have hp := h p (by simp)
    have : (mine l r p && p.cmd == .CLSE) = false := by
      cases hh : (mine l r p && p.cmd == .CLSE) with
      | false => rfl
      | true => simp only [Bool.and_eq_true, beq_iff_eq] at hh; exact absurd hh hp
    simp only [closeItems, this, Bool.false_eq_true, if_false, ih (fun q hq => h q (by simp [hq]))]

theorem closeItems_decomp {l r : Nat} {mid : List Pkt} {c : Pkt} {rest : List Pkt}
    (hmid : ∀ q ∈ mid, ¬ (mine l r q = true ∧ q.cmd = .CLSE)) (hc : mine l r c = true) (hcc : c.cmd = .CLSE) :
    closeItems l r (mid ++ c :: rest) =
      some ((mid.filter (fun q => mine l r q && q.cmd == .WRTE)).map (·.data), rest) := by
  induction mid with
  | nil => simp [closeItems, hc, hcc]
  | cons p mid ih =>
    have hp := hmid p (by simp)
    have h1 : (mine l r p && p.cmd == .CLSE) = false := by
      cases hh : (mine l r p && p.cmd == .CLSE) with
      | false => rfl
      | true => simp only [Bool.and_eq_true, beq_iff_eq] at hh; exact absurd hh hp
    simp only [List.cons_append, closeItems, h1, Bool.false_eq_true, if_false,
      ih (fun q hq => hmid q (by simp [hq])), List.filter_cons]
    by_cases hw : (mine l r p && p.cmd == .WRTE) = true
    · simp [hw]
    · simp [hw]

theorem streamItems_none {l : Nat} {ps : List Pkt} (h : ∀ q ∈ ps, isOkayFor l q = false) : streamItems l ps = none := by
  induction ps with
  | nil => rfl
  | cons p ps ih =>
    simp only [streamItems, h p (by simp), Bool.false_eq_true, if_false, ih (fun q hq => h q (by simp [hq]))]

theorem streamItems_skip {l : Nat} {pre : List Pkt} {okay : Pkt} {xs : List Pkt}
    (hpre : ∀ q ∈ pre, isOkayFor l q = false) (hok : isOkayFor l okay = true) :
    streamItems l (pre ++ okay :: xs) = closeItems l okay.arg0 xs := by
  induction pre with
  | nil => simp [streamItems, hok]
  | cons p pre ih =>
    simp only [List.cons_append, streamItems, hpre p (by simp), Bool.false_eq_true, if_false,
      ih (fun q hq => hpre q (by simp [hq]))]

/-- The conversation of a command stream with local id `l` inside the packet list `ps`: `okay` is the first
    OKAY carrying `l` (after the packets `pre`), `c` the first CLSE with the ids of the stream `(l, okay.arg0)`
    after it (after the packets `mid`), `rest` is what follows. -/
structure Conversation (l : Nat) (ps pre : List Pkt) (okay : Pkt) (mid : List Pkt) (c : Pkt) (rest : List Pkt) : Prop where
  split : ps = pre ++ okay :: (mid ++ c :: rest)
  noOkay : ∀ q ∈ pre, isOkayFor l q = false
  isOkay : isOkayFor l okay = true
  noClse : ∀ q ∈ mid, ¬ (mine l okay.arg0 q = true ∧ q.cmd = .CLSE)
  isClse : mine l okay.arg0 c = true ∧ c.cmd = .CLSE

/-- the items of the conversation: payloads of the WRTEs with this stream's ids between the OKAY and the CLSE -/
def convItems (l : Nat) (okay : Pkt) (mid : List Pkt) : List Bytes :=
  (mid.filter (fun q => mine l okay.arg0 q && q.cmd == .WRTE)).map (·.data)

/-- the wire fates of the conversation -/
def convFates (l : Nat) (pre : List Pkt) (okay : Pkt) (mid : List Pkt) (c : Pkt) : List (Fate × Pkt) :=
  (pre ++ [okay]).map (fun p => (fateOpen l p, p)) ++ (mid ++ [c]).map (fun p => (fateStream l okay.arg0 p, p))

theorem Conversation.streamItems {l : Nat} {ps pre : List Pkt} {okay : Pkt} {mid : List Pkt} {c : Pkt} {rest : List Pkt}
    (h : Conversation l ps pre okay mid c rest) : streamItems l ps = some (convItems l okay mid, rest) := by
  rw [h.split, streamItems_skip h.noOkay h.isOkay, closeItems_decomp h.noClse h.isClse.1 h.isClse.2]
  rfl

/-- conversely, when the reference semantics terminates the conversation is in `ps` -/
theorem closeItems_some {l r : Nat} {ps : List Pkt} {ds : List Bytes} {rest : List Pkt} (h : closeItems l r ps = some (ds, rest)) :
    ∃ mid c, ps = mid ++ c :: rest ∧ (∀ q ∈ mid, ¬ (mine l r q = true ∧ q.cmd = .CLSE)) ∧ mine l r c = true ∧ c.cmd = .CLSE ∧
      ds = (mid.filter (fun q => mine l r q && q.cmd == .WRTE)).map (·.data) := by
  induction ps generalizing ds with
  | nil => simp [closeItems] at h
  | cons p ps ih =>
    simp only [closeItems] at h
    split at h
    · next hc =>
      simp only [Option.some.injEq, Prod.mk.injEq] at h
      obtain ⟨rfl, rfl⟩ := h
      simp only [Bool.and_eq_true, beq_iff_eq] at hc
      exact ⟨[], p, rfl, by simp, hc.1, hc.2, rfl⟩
    · next hc =>
      cases hrec : closeItems l r ps with
      | none => simp [hrec] at h
      | some v =>
        obtain ⟨ds', rest'⟩ := v
        simp only [hrec, Option.some.injEq, Prod.mk.injEq] at h
        obtain ⟨rfl, rfl⟩ := h
        obtain ⟨mid, c, rfl, hmid, hcm, hcc, rfl⟩ := ih hrec
        refine ⟨p :: mid, c, rfl, ?_, hcm, hcc, ?_⟩
        · intro q hq
          rcases List.mem_cons.1 hq with rfl | hq
          · intro hh; exact hc (by simp [hh.1, hh.2])
          · exact hmid q hq
        · rw [List.filter_cons]
          split <;> rfl

theorem streamItems_some {l : Nat} {ps : List Pkt} {ds : List Bytes} {rest : List Pkt} (h : streamItems l ps = some (ds, rest)) :
    ∃ pre okay mid c, Conversation l ps pre okay mid c rest ∧ ds = convItems l okay mid := by
  induction ps with
  | nil => simp [streamItems] at h
  | cons p ps ih =>
    simp only [streamItems] at h
    split at h
    · next hok =>
      obtain ⟨mid, c, rfl, hmid, hcm, hcc, rfl⟩ := closeItems_some h
      exact ⟨[], p, mid, c, ⟨rfl, by simp, hok, hmid, hcm, hcc⟩, rfl⟩
    · next hok =>
      obtain ⟨pre, okay, mid, c, hconv, rfl⟩ := ih h
      refine ⟨p :: pre, okay, mid, c, ⟨by rw [hconv.split]; rfl, ?_, hconv.isOkay, hconv.noClse, hconv.isClse⟩, rfl⟩
      intro q hq
      rcases List.mem_cons.1 hq with rfl | hq
      · simpa using hok
      · exact hconv.noOkay q hq

/-! ### the zero-id hypothesis -/

/-- No packet with `arg1 = 0` arrives before the OKAY for local id `l`: while `_open` waits (with
    `allow_zeros=False`) such a packet would be parked, and `_read_until_close` (with `allow_zeros=True`) would
    then take it out of the store as if it belonged to the new stream. -/
def NoEarlyZero (l : Nat) (ps : List Pkt) : Prop :=
  ∀ pre q post, ps = pre ++ q :: post → q.arg1 = 0 → ∃ o ∈ pre, isOkayFor l o = true

theorem NoEarlyZero.of_nonzero {l : Nat} {ps : List Pkt} (h : ∀ p ∈ ps, p.arg1 ≠ 0) : NoEarlyZero l ps := by
  intro pre q post hps hq
  exact absurd hq (h q (by rw [hps]; simp))

theorem NoEarlyZero.pre {l : Nat} {ps pre : List Pkt} {x : Pkt} {xs : List Pkt} (h : NoEarlyZero l ps)
    (hps : ps = pre ++ x :: xs) (hpre : ∀ q ∈ pre, isOkayFor l q = false) : ∀ q ∈ pre, q.arg1 ≠ 0 := by
  intro q hq hz
  obtain ⟨a, b, rfl⟩ := List.append_of_mem hq
  obtain ⟨o, ho, hok⟩ := h a q (b ++ x :: xs) (by rw [hps]; simp) hz
  have := hpre o (by simp [ho])
  rw [this] at hok
  cases hok

/-! ### `_streaming_command` / `_service` against a known device stream -/

/-- `_streaming_command` returning normally on a device stream consisting of the frames of `ps` followed by `tl`,
    with nothing for local ids `l` and 0 in the store beforehand: `ps` contains the conversation, the items are
    its items, the packets read are exactly `pre ++ okay :: mid ++ [c]` with the fates `convFates`, and the
    stream continues with the frames of `rest`.  The only alternative: `ps` does not contain the complete
    conversation and reading went on into `tl`, which starts with a further frame. -/
theorem streamingCommand_frames {svc cmd : Bytes} {tt rt total : Timeout} {w w' : World} {items : List Bytes}
    {ps : List Pkt} {tl : Bytes}
    (hs : KeysSat (fun k => k.2 ≠ nextId w.localId ∧ k.2 ≠ 0) w.store)
    (hf : Frames ps w.inboundRest tl) (hz : NoEarlyZero (nextId w.localId) ps)
    (h : streamingCommand svc cmd tt rt total w = (.ok items, w')) :
    (∃ pre okay mid c rest, Conversation (nextId w.localId) ps pre okay mid c rest ∧
        items = convItems (nextId w.localId) okay mid ∧ Frames rest w'.inboundRest tl ∧
        Reads (convFates (nextId w.localId) pre okay mid c) w w') ∨
    (streamItems (nextId w.localId) ps = none ∧ Readable tl) := by
  obtain ⟨pre, okay, w1, hR1, hpre, hok, hcont⟩ := streamingCommand_reads hs h
  have hfr1 : Frames (pre ++ [okay]) w.inboundRest w1.inboundRest := by
    have := hR1.stream
    simpa [List.map_map, Function.comp_def] using this
  rcases hfr1.compare hf with ⟨rest1, hps, hrest1⟩ | ⟨q, extra, he, hread⟩
  · have hps' : ps = pre ++ okay :: rest1 := by simpa using hps
    obtain ⟨mid, c, hR2, hcm, hcc, hmid, hitems⟩ := hcont (hz.pre hps' hpre)
    have hfr2 : Frames (mid ++ [c]) w1.inboundRest w'.inboundRest := by
      have := hR2.stream
      simpa [List.map_map, Function.comp_def] using this
    rcases hfr2.compare hrest1 with ⟨rest, hr1, hrest⟩ | ⟨q, extra, he, hread⟩
    · refine Or.inl ⟨pre, okay, mid, c, rest, ⟨?_, hpre, hok, hmid, hcm, hcc⟩, hitems, hrest, hR1.trans hR2⟩
      rw [hps', hr1]; simp
    · refine Or.inr ⟨?_, hread⟩
      rw [hps', streamItems_skip hpre hok]
      exact closeItems_none (fun x hx => hmid x (mem_of_snoc_eq he x hx))
  · exact Or.inr ⟨streamItems_none (fun x hx => hpre x (mem_of_snoc_eq he x hx)), hread⟩

/-- the value `_service` computes from the items -/
def serviceVal (decode : Bool) (items : List Bytes) : Val :=
  if decode then .str (Utf8.decodeBS items.flatten) else .bytes items.flatten

/-- `_service` (shell / exec_out) against a known device stream: as `streamingCommand_frames`, the value being the
    (decoded) concatenation of the conversation's items. -/
theorem service_frames {svc cmd : Bytes} {tt rt total : Timeout} {decode : Bool} {w w' : World} {v : Val}
    {ps : List Pkt} {tl : Bytes}
    (hs : KeysSat (fun k => k.2 ≠ nextId w.localId ∧ k.2 ≠ 0) w.store)
    (hf : Frames ps w.inboundRest tl) (hz : NoEarlyZero (nextId w.localId) ps)
    (h : service svc cmd tt rt total decode w = (.ok v, w')) :
    (∃ pre okay mid c rest, Conversation (nextId w.localId) ps pre okay mid c rest ∧
        v = serviceVal decode (convItems (nextId w.localId) okay mid) ∧ Frames rest w'.inboundRest tl ∧
        Reads (convFates (nextId w.localId) pre okay mid c) w w') ∨
    (streamItems (nextId w.localId) ps = none ∧ Readable tl) := by
  obtain ⟨r0, hsc, hr⟩ := service_inv h
  obtain ⟨items, rfl, hv⟩ := Except.map_eq_ok hr.symm
  rcases streamingCommand_frames hs hf hz hsc with ⟨pre, okay, mid, c, rest, hconv, rfl, hrest, hR⟩ | hno
  · exact Or.inl ⟨pre, okay, mid, c, rest, hconv, hv, hrest, hR⟩
  · exact Or.inr hno

/-- the same for `_streaming_service` (streaming_shell, fully consumed): one item per WRTE payload -/
theorem streamingService_frames {svc cmd : Bytes} {tt rt : Timeout} {decode : Bool} {w w' : World} {v : Val}
    {ps : List Pkt} {tl : Bytes}
    (hs : KeysSat (fun k => k.2 ≠ nextId w.localId ∧ k.2 ≠ 0) w.store)
    (hf : Frames ps w.inboundRest tl) (hz : NoEarlyZero (nextId w.localId) ps)
    (h : streamingService svc cmd tt rt decode w = (.ok v, w')) :
    (∃ pre okay mid c rest, Conversation (nextId w.localId) ps pre okay mid c rest ∧
        v = .items ((convItems (nextId w.localId) okay mid).map
              fun d => if decode then Item.str (Utf8.decodeBS d) else Item.bytes d) ∧
        Frames rest w'.inboundRest tl ∧ Reads (convFates (nextId w.localId) pre okay mid c) w w') ∨
    (streamItems (nextId w.localId) ps = none ∧ Readable tl) := by
  obtain ⟨r0, hsc, hr⟩ := streamingService_inv h
  obtain ⟨items, rfl, hv⟩ := Except.map_eq_ok hr.symm
  rcases streamingCommand_frames hs hf hz hsc with ⟨pre, okay, mid, c, rest, hconv, rfl, hrest, hR⟩ | hno
  · exact Or.inl ⟨pre, okay, mid, c, rest, hconv, hv, hrest, hR⟩
  · exact Or.inr hno

end E2E
end Adb

/-
  End-to-end bridge, part E: one `read` iteration with an ARBITRARY packet store — where does the packet
  it returns come from: out of the store (then nothing is read from the device) or off the wire.
-/
namespace Adb
namespace E2E

/-- all packets parked in the store -/
def storePkts (s : Store) : List Pkt :=
  s.flatMap (fun e => e.2.flatMap (fun i => i.2.map (fun qi => (⟨qi.1, i.1, e.1, qi.2⟩ : Pkt))))

theorem mem_storePkts {s : Store} {p : Pkt} :
    p ∈ storePkts s ↔ ∃ inner q, (p.arg1, inner) ∈ s ∧ (p.arg0, q) ∈ inner ∧ (p.cmd, p.data) ∈ q := by
  simp only [storePkts, List.mem_flatMap, List.mem_map]
  constructor
  · rintro ⟨⟨a1, inner⟩, h1, ⟨a0, q⟩, h2, ⟨c, d⟩, h3, rfl⟩
    exact ⟨inner, q, h1, h2, h3⟩
  · rintro ⟨inner, q, h1, h2, h3⟩
    exact ⟨(p.arg1, inner), h1, (p.arg0, q), h2, (p.cmd, p.data), h3, rfl⟩

theorem storePkts_clear {s : Store} {a0 a1 : Nat} : ∀ p ∈ storePkts (s.clear a0 a1), p ∈ storePkts s := by
  intro p hp
  unfold Store.clear at hp
  cases h1 : alookup a1 s with
  | none => simpa [h1] using hp
  | some inner =>
    cases h0 : alookup a0 inner with
    | none => simpa [h1, h0] using hp
    | some q0 =>
      simp only [h1, h0] at hp
      split at hp
      · obtain ⟨inner', q, g1, g2, g3⟩ := mem_storePkts.1 hp
        exact mem_storePkts.2 ⟨inner', q, Store.mem_adel g1, g2, g3⟩
      · obtain ⟨inner', q, g1, g2, g3⟩ := mem_storePkts.1 hp
        rcases Store.mem_aset g1 with g1 | g1
        · simp only [Prod.mk.injEq] at g1
          obtain ⟨e1, rfl⟩ := g1
          exact mem_storePkts.2 ⟨inner, q, by rw [e1]; exact alookup_some_mem h1, Store.mem_adel g2, g3⟩
        · exact mem_storePkts.2 ⟨inner', q, g1, g2, g3⟩

/-- `get` with a concrete pair returns a packet that was in the store and adds nothing to it -/
theorem storePkts_get {s s' : Store} {a b : Nat} {c : Cmd} {x y : Nat} {d : Bytes}
    (h : s.get (some a) (some b) = .ok ((c, x, y, d), s')) :
    (⟨c, x, y, d⟩ : Pkt) ∈ storePkts s ∧ ∀ p ∈ storePkts s', p ∈ storePkts s := by
  unfold Store.get at h
  simp only at h
  cases h1 : alookup b s with
  | none => simp [h1] at h
  | some inner =>
    cases h0 : alookup a inner with
    | none => simp [h1, h0] at h
    | some q0 =>
      cases q0 with
      | nil => simp [h1, h0] at h
      | cons hd q =>
        obtain ⟨cmd, data⟩ := hd
        simp only [h1, h0, Except.ok.injEq, Prod.mk.injEq] at h
        obtain ⟨⟨rfl, rfl, rfl, rfl⟩, hs'⟩ := h
        have hin : (b, inner) ∈ s := alookup_some_mem h1
        have hq : (a, (cmd, data) :: q) ∈ inner := alookup_some_mem h0
        refine ⟨mem_storePkts.2 ⟨inner, _, hin, hq, by simp⟩, ?_⟩
        have hsub : ∀ p ∈ storePkts (aset b (aset a q inner) s), p ∈ storePkts s := by
          intro p hp
          obtain ⟨inner', q', g1, g2, g3⟩ := mem_storePkts.1 hp
          rcases Store.mem_aset g1 with g1 | g1
          · simp only [Prod.mk.injEq] at g1
            obtain ⟨e1, rfl⟩ := g1
            rcases Store.mem_aset g2 with g2 | g2
            · simp only [Prod.mk.injEq] at g2
              obtain ⟨e0, rfl⟩ := g2
              exact mem_storePkts.2 ⟨inner, _, by rw [e1]; exact hin, by rw [e0]; exact hq, by simp [g3]⟩
            · exact mem_storePkts.2 ⟨inner, q', by rw [e1]; exact hin, g2, g3⟩
          · exact mem_storePkts.2 ⟨inner', q', g1, g2, g3⟩
        intro p hp
        rw [← hs'] at hp
        split at hp
        · exact hsub p (storePkts_clear p hp)
        · exact hsub p hp

/-- what the store loop of `read` did: the unexpected packets `us` of this transaction were taken out of the
    store and discarded (`unstore`), then either an expected one was found and delivered, or the store holds
    nothing more for the transaction.  The connection is not touched. -/
structure Drained (ex : List Cmd) (t : Txn) (az : Bool) (w : World) (o : Option Pkt) (w' : World) (us : List Pkt) : Prop where
  cur : w'.cur = w.cur
  locks : w'.locks = w.locks
  unstored : ∀ u ∈ us, u ∈ storePkts w.store ∧ t.accepts az u = true ∧ u.cmd ∉ ex
  shrink : ∀ p ∈ storePkts w'.store, p ∈ storePkts w.store
  out : match o with
    | some p => w'.trace = .deliver p :: (us.map TEv.unstore).reverse ++ w.trace ∧ p ∈ storePkts w.store ∧
        p.cmd ∈ ex ∧ t.accepts az p = true
    | none => w'.trace = (us.map TEv.unstore).reverse ++ w.trace ∧ lookup t az w'.store = none

theorem drainLoop_spec {ex : List Cmd} {t : Txn} {az : Bool} :
    ∀ (fuel : Nat) {w w' : World} {o : Option Pkt}, drainLoop ex t az fuel w = (.ok o, w') →
      ∃ us, Drained ex t az w o w' us := by
  intro fuel
  induction fuel with
  | zero => intro w w' o h; simp [drainLoop] at h
  | succ f ih =>
    intro w w' o h
    rw [drainLoop, bind_run_ok (storeFind_eq t az w)] at h
    cases hk : lookup t az w.store with
    | none =>
      simp only [hk, pure_run, Prod.mk.injEq, Except.ok.injEq] at h
      obtain ⟨rfl, rfl⟩ := h
      exact ⟨[], rfl, rfl, by simp, fun p hp => hp, by simp [hk]⟩
    | some k =>
      simp only [hk] at h
      obtain ⟨p, w1, hg, hrest⟩ := bind_ok_inv h
      unfold storeGet at hg
      split at hg
      · next c a0 a1 d s' hget =>
        simp only [Prod.mk.injEq, Except.ok.injEq] at hg
        obtain ⟨rfl, rfl⟩ := hg
        obtain ⟨hmem, hsub⟩ := storePkts_get hget
        have hkey := Store.get_key hget
        have hacc : t.accepts az ⟨c, a0, a1, d⟩ = true := storeFind_accepts hk hkey.1 hkey.2
        split at hrest
        · next hc =>
          simp only [bind_run, emit_run, pure_run, Prod.mk.injEq, Except.ok.injEq] at hrest
          obtain ⟨rfl, rfl⟩ := hrest
          exact ⟨[], rfl, rfl, by simp, hsub, by simp, hmem, by simpa using hc, hacc⟩
        · next hc =>
          obtain ⟨u, w2, hem, hrest2⟩ := bind_ok_inv hrest
          simp only [emit_run, Prod.mk.injEq, true_and] at hem
          subst hem
          obtain ⟨us, hD⟩ := ih hrest2
          refine ⟨⟨c, a0, a1, d⟩ :: us, hD.cur, hD.locks, ?_, fun p hp => hsub p (hD.shrink p hp), ?_⟩
          · intro u hu
            rcases List.mem_cons.1 hu with rfl | hu
            · exact ⟨hmem, hacc, by simpa using hc⟩
            · obtain ⟨g1, g2, g3⟩ := hD.unstored u hu
              exact ⟨hsub u g1, g2, g3⟩
          · have hout := hD.out
            cases o with
            | some q =>
              simp only at hout ⊢
              refine ⟨?_, hsub q hout.2.1, hout.2.2⟩
              rw [hout.1]; simp
            | none =>
              simp only at hout ⊢
              refine ⟨?_, hout.2⟩
              rw [hout.1]; simp
      · simp at hg

theorem lockedDrain_spec {ex : List Cmd} {t : Txn} {az : Bool} {fuel : Nat} {w w' : World} {o : Option Pkt}
    (h : withLock lockStore (drainLoop ex t az fuel) w = (.ok o, w')) : ∃ us, Drained ex t az w o w' us := by
  obtain ⟨-, w1, hb, rfl⟩ := withLock_ok_inv h
  obtain ⟨us, hD⟩ := drainLoop_spec fuel hb
  refine ⟨us, hD.cur, ?_, hD.unstored, hD.shrink, ?_⟩
  · have := hD.locks
    simp only at this ⊢
    rw [this]; simp
  · have := hD.out
    cases o <;> exact this

/-- where the result of one `read` iteration comes from -/
inductive Source (ex : List Cmd) (t : Txn) (az : Bool) (w : World) (r : Option Pkt) (w' : World) (us : List Pkt) : Prop where
  /-- out of the packet store: nothing was read from the device -/
  | store (p : Pkt) (hr : r = some p) (hmem : p ∈ storePkts w.store) (hex : p.cmd ∈ ex) (hacc : t.accepts az p = true)
      (hstream : w'.inboundRest = w.inboundRest)
      (htrace : w'.trace = .deliver p :: (us.map TEv.unstore).reverse ++ w.trace)
  /-- off the wire: after the store (now `s0`) held nothing more for the transaction, exactly one frame was read -/
  | wire (s0 : Store) (p : Pkt) (raw : Bytes) (reqs : List TEv) (hnone : lookup t az s0 = none)
      (hshrink : ∀ x ∈ storePkts s0, x ∈ storePkts w.store) (hreqs : ∀ e ∈ reqs, ∃ a b, e = TEv.req a b)
      (hraw : IsRaw p raw) (hstream : w.inboundRest = raw ++ w'.inboundRest)
      (hstore : w'.store = storeStep s0 (fate ex t az p, p))
      (htrace : w'.trace = wireEv ex t az s0 p :: reqs ++ ((us.map TEv.unstore).reverse ++ w.trace))
      (hr : r = wireRes ex t az p)

end E2E

/-- One iteration of the `while True:` body of `_AdbIOManager.read`, for an ARBITRARY packet store, returning
    normally (with a packet or with `None`): first the unexpected parked packets `us` of this transaction are
    taken out of the store and discarded; then EITHER the result is an expected packet that WAS PARKED IN THE
    STORE and nothing is consumed from the device stream, OR the store holds nothing (more) for the transaction,
    exactly one frame `raw` — a 24-byte header plus payload reading as `p` — is consumed from the device stream,
    and `p` is delivered / dropped / parked (lost) according to `args_match` and `cmd ∈ expected`. -/
theorem E2E_readIter_source {ex : List Cmd} {t : Txn} {az : Bool} {w w' : World} {r : Option Pkt}
    (h : readIter ex t az w = (.ok r, w')) : ∃ us, (∀ u ∈ us, u ∈ E2E.storePkts w.store ∧ t.accepts az u = true ∧ u.cmd ∉ ex) ∧
      E2E.Source ex t az w r w' us := by
  rw [readIter_eq] at h
  obtain ⟨-, w1, hb, rfl⟩ := E2E.withLock_ok_inv h
  rw [bind_run_ok (M.get_run _)] at hb
  obtain ⟨o, w2, hd, hrest⟩ := bind_ok_inv hb
  obtain ⟨us, hD⟩ := E2E.lockedDrain_spec hd
  refine ⟨us, hD.unstored, ?_⟩
  have hout := hD.out
  cases o with
  | some p =>
    simp only [pure_run, Prod.mk.injEq, Except.ok.injEq] at hrest
    obtain ⟨rfl, rfl⟩ := hrest
    simp only at hout
    refine .store p rfl hout.2.1 hout.2.2.1 hout.2.2.2 ?_ hout.1
    show World.inboundRest _ = World.inboundRest w
    unfold World.inboundRest
    have := hD.cur
    simp only at this ⊢
    rw [this]
  | none =>
    simp only at hout hrest
    obtain ⟨p, raw, reqs, hreqs, hs⟩ := E2E.readIterTail_wire hrest
    refine .wire w2.store p raw reqs hout.2 hD.shrink hreqs hs.isRaw ?_ hs.store ?_ hs.res
    · have h1 := hs.stream
      have h2 : w2.inboundRest = w.inboundRest := by
        unfold World.inboundRest
        have := hD.cur
        simp only at this
        rw [this]
      rw [← h2]; exact h1
    · have h1 := hs.trace
      rw [hout.1] at h1
      exact h1

end Adb

/-
  End-to-end bridge, part F: `_read_until_close` against a known device stream, back from frames to
  `Pkt.encode`, and the deliveries of a conversation.
-/
namespace Adb
namespace E2E

/-- reading the same packets off the same stream leaves the same remainder -/
theorem Frames.tail_unique {ps : List Pkt} {bs m1 m2 : Bytes} (h1 : Frames ps bs m1) (h2 : Frames ps bs m2) : m1 = m2 := by
  rcases h1.compare h2 with ⟨rest, hps, hr⟩ | ⟨q, extra, hps, -⟩
  · have : rest = [] := by simpa using hps
    subst this
    exact hr
  · have := congrArg List.length hps
    simp at this

/-- if the stream is the concatenation of the encodings of `qs ++ rest` (then `tl`) and the packets `qs` have been
    read off it, what remains is the concatenation of the encodings of `rest` (then `tl`) -/
theorem Frames.encode_rest {qs rest : List Pkt} {bs mid tl : Bytes} (hpk : ∀ q ∈ qs, q.toMsg.Packable)
    (hbs : bs = ((qs ++ rest).map Pkt.encode).flatten ++ tl) (h : Frames qs bs mid) :
    mid = (rest.map Pkt.encode).flatten ++ tl := by
  have h2 : Frames qs bs ((rest.map Pkt.encode).flatten ++ tl) := by
    rw [hbs, List.map_append, List.flatten_append, List.append_assoc]
    exact Frames_encode _ hpk
  exact h.tail_unique h2

/-- `_read_until_close` on the stream `(l, r)` returning normally, nothing for the stream in the store, device
    stream = frames of `ps` then `tl`: `ps = mid ++ c :: rest` with `c` the first CLSE carrying the stream's ids;
    the items are the payloads of the WRTEs of `mid` carrying the stream's ids; exactly `mid ++ [c]` were read.
    Alternative: no such CLSE in `ps` and reading went on into `tl`. -/
theorem readUntilClose_frames {t : Txn} {l r : Nat} {w w' : World} {items : List Bytes} {ps : List Pkt} {tl : Bytes}
    (hl : t.localId = some l) (hr : t.remoteId = some r) (hc : Clean t true w.store)
    (hf : Frames ps w.inboundRest tl) (h : readUntilClose t w = (.ok items, w')) :
    (∃ mid c rest, ps = mid ++ c :: rest ∧ (∀ q ∈ mid, ¬ (mine l r q = true ∧ q.cmd = .CLSE)) ∧
        mine l r c = true ∧ c.cmd = .CLSE ∧
        items = (mid.filter (fun q => mine l r q && q.cmd == .WRTE)).map (·.data) ∧
        Frames rest w'.inboundRest tl ∧ Reads ((mid ++ [c]).map (fun p => (fateStream l r p, p))) w w') ∨
    (closeItems l r ps = none ∧ Readable tl) := by
  obtain ⟨mid, c, hR, hcm, hcc, hmid, hitems⟩ := readUntilClose_reads hl hc h
  rw [classify_stream_eq hl hr] at hR
  rw [argsMatch_stream hl hr] at hcm
  have hmid' : ∀ q ∈ mid, ¬ (mine l r q = true ∧ q.cmd = .CLSE) := by
    intro q hq
    have := hmid q hq
    rwa [argsMatch_stream hl hr] at this
  have hitems' : items = (mid.filter (fun q => mine l r q && q.cmd == .WRTE)).map (·.data) := by
    rw [hitems]
    simp only [List.reverse_nil, List.nil_append]
    congr 2
    funext q
    rw [argsMatch_stream hl hr]
  have hfr : Frames (mid ++ [c]) w.inboundRest w'.inboundRest := by
    have := hR.stream
    simpa [List.map_map, Function.comp_def] using this
  rcases hfr.compare hf with ⟨rest, hps, hrest⟩ | ⟨q, extra, he, hread⟩
  · exact Or.inl ⟨mid, c, rest, by simpa using hps, hmid', hcm, hcc, hitems', hrest, hR⟩
  · exact Or.inr ⟨closeItems_none (fun x hx => hmid' x (mem_of_snoc_eq he x hx)), hread⟩

/-! ### the deliveries of a conversation -/

theorem filter_delivered_map (f : Pkt → Fate) (ps : List Pkt) :
    (((ps.map (fun p => (f p, p))).filter (fun x => x.1 = Fate.delivered)).map (·.2)) =
      ps.filter (fun p => f p = Fate.delivered) := by
  induction ps with
  | nil => rfl
  | cons p ps ih =>
    simp only [List.map_cons, List.filter_cons]
    by_cases h : f p = Fate.delivered
    · simp [h, ih]
    · simp [h, ih]

theorem fateStream_delivered {l r : Nat} {p : Pkt} :
    fateStream l r p = .delivered ↔ mine l r p = true ∧ (p.cmd = .CLSE ∨ p.cmd = .WRTE) := by
  unfold fateStream
  by_cases h1 : mine l r p = true <;> by_cases h2 : p.cmd = .CLSE ∨ p.cmd = .WRTE <;> simp [h1, h2]

/-- what a conversation delivers to the caller: the OKAY, this stream's WRTEs between OKAY and CLSE, the CLSE —
    nothing of `pre`, nothing foreign, nothing unexpected -/
theorem Conversation.delivered {l : Nat} {ps pre : List Pkt} {okay : Pkt} {mid : List Pkt} {c : Pkt} {rest : List Pkt}
    (h : Conversation l ps pre okay mid c rest) :
    ((convFates l pre okay mid c).filter (fun x => x.1 = Fate.delivered)).map (·.2) =
      okay :: mid.filter (fun q => mine l okay.arg0 q && q.cmd == .WRTE) ++ [c] := by
  unfold convFates
  rw [List.filter_append, List.map_append, filter_delivered_map, filter_delivered_map, List.filter_append,
    List.filter_append]
  have h1 : pre.filter (fun p => decide (fateOpen l p = Fate.delivered)) = [] := by
    rw [List.filter_eq_nil_iff]
    intro q hq hh
    have := fateOpen_delivered.1 (by simpa using hh)
    rw [h.noOkay q hq] at this
    cases this
  have h2 : [okay].filter (fun p => decide (fateOpen l p = Fate.delivered)) = [okay] := by
    simp [fateOpen_delivered.2 h.isOkay]
  have h3 : mid.filter (fun p => decide (fateStream l okay.arg0 p = Fate.delivered)) =
      mid.filter (fun q => mine l okay.arg0 q && q.cmd == .WRTE) := by
    apply List.filter_congr
    intro q hq
    have hn := h.noClse q hq
    rw [Bool.eq_iff_iff]
    simp only [decide_eq_true_eq, fateStream_delivered, Bool.and_eq_true, beq_iff_eq]
    constructor
    · rintro ⟨hm, hc | hc⟩
      · exact absurd ⟨hm, hc⟩ hn
      · exact ⟨hm, hc⟩
    · rintro ⟨hm, hc⟩
      exact ⟨hm, Or.inr hc⟩
  have h4 : [c].filter (fun p => decide (fateStream l okay.arg0 p = Fate.delivered)) = [c] := by
    simp [fateStream_delivered.2 ⟨h.isClse.1, Or.inl h.isClse.2⟩]
  rw [h1, h2, h3, h4]
  simp

/-- the stream of a `demoWorld` is the concatenation of the encodings of its packets -/
theorem demoWorld_inboundRest (pkts : List Pkt) : (demoWorld pkts).inboundRest = (pkts.map Pkt.encode).flatten ++ [] := by
  simp [demoWorld, World.inboundRest, Conn.inboundRest, List.map_map, Function.comp_def]

end E2E
end Adb

namespace Adb

theorem E2E.Clean.empty (t : Txn) (az : Bool) : E2E.Clean t az [] := E2E.KeysSat.nil _

/-- `_AdbIOManager.read(expected, adb_info, allow_zeros)` returning `p` while the packet store holds no packet that
    matches the transaction (`E2E.Clean`; in particular when the store is empty, `E2E.Clean.empty`), on a device
    stream that consists of the frames of `ps` followed by `tl`: the packets read are a prefix `qs ++ [p]` of `ps`;
    `p` is the FIRST packet of `ps` whose ids match and whose command is expected; every earlier one was parked /
    lost (ids do not match) or dropped (ids match, command unexpected); the stream continues with the frames of
    `rest`.  The only alternative: no packet of `ps` is deliverable and the read went on into `tl`. -/
theorem E2E_ioRead_from_empty_store {ex : List Cmd} {t : Txn} {az : Bool} {l : Nat} {w w' : World} {p : Pkt}
    {ps : List Pkt} {tl : Bytes} (hl : t.localId = some l) (hc : E2E.Clean t az w.store)
    (hf : E2E.Frames ps w.inboundRest tl) (h : ioRead ex t az w = (.ok p, w')) :
    (∃ qs rest, ps = qs ++ p :: rest ∧ (∀ q ∈ qs, E2E.fate ex t az q ≠ .delivered) ∧ E2E.fate ex t az p = .delivered ∧
        E2E.Frames rest w'.inboundRest tl ∧ E2E.Reads (E2E.classify ex t az (qs ++ [p])) w w' ∧ E2E.Clean t az w'.store) ∨
    ((∀ q ∈ ps, E2E.fate ex t az q ≠ .delivered) ∧ E2E.Readable tl) :=
  E2E.ioRead_frames hl hc hf h

end Adb

/-! ### Part G: `_service` against a concatenation of `Pkt.encode`s -/
namespace Adb
namespace E2E

theorem convFates_pkts (l : Nat) (pre : List Pkt) (okay : Pkt) (mid : List Pkt) (c : Pkt) :
    (convFates l pre okay mid c).map (·.2) = pre ++ okay :: (mid ++ [c]) := by
  simp [convFates, List.map_map, Function.comp_def]

/-- after a conversation has been read off a stream of encodings, the stream continues with the encodings of `rest` -/
theorem Conversation.rest_encode {l : Nat} {ps pre : List Pkt} {okay : Pkt} {mid : List Pkt} {c : Pkt} {rest : List Pkt}
    {w w' : World} {tl : Bytes} (hconv : Conversation l ps pre okay mid c rest) (hpk : ∀ p ∈ ps, p.toMsg.Packable)
    (hbs : w.inboundRest = (ps.map Pkt.encode).flatten ++ tl) (hR : Reads (convFates l pre okay mid c) w w') :
    w'.inboundRest = (rest.map Pkt.encode).flatten ++ tl := by
  have hfr := hR.stream
  rw [convFates_pkts] at hfr
  have hps : ps = (pre ++ okay :: (mid ++ [c])) ++ rest := by rw [hconv.split]; simp
  refine Frames.encode_rest (qs := pre ++ okay :: (mid ++ [c])) (rest := rest) ?_ (by rw [hbs, hps]) hfr
  intro q hq
  exact hpk q (by rw [hps]; exact List.mem_append_left _ hq)

/-- a `Reads` step in trace form: the wire events, what is delivered, and the store -/
theorem Conversation.trace {l : Nat} {ps pre : List Pkt} {okay : Pkt} {mid : List Pkt} {c : Pkt} {rest : List Pkt}
    {w w' : World} (hconv : Conversation l ps pre okay mid c rest) (hR : Reads (convFates l pre okay mid c) w w') :
    w'.store = (convFates l pre okay mid c).foldl storeStep w.store ∧
    ∃ evs, w'.trace = evs ++ w.trace ∧ wireFates evs = convFates l pre okay mid c ∧
      wirePkts evs = pre ++ okay :: (mid ++ [c]) ∧
      Adb.delivered evs = okay :: mid.filter (fun q => mine l okay.arg0 q && q.cmd == .WRTE) ++ [c] := by
  obtain ⟨evs, htr, hf⟩ := hR.trace
  refine ⟨hR.store, evs, htr, hf, ?_, ?_⟩
  · rw [wirePkts, hf, convFates_pkts]
  · rw [delivered_eq_wireFates, hf, hconv.delivered]

/-- `_service` / `_streaming_service` hypotheses in `Pkt.encode` form imply the `Frames` form -/
theorem service_encode {svc cmd : Bytes} {tt rt total : Timeout} {decode : Bool} {w w' : World} {v : Val}
    {ps : List Pkt} {tl : Bytes} (hs : w.store = [])
    (hbs : w.inboundRest = (ps.map Pkt.encode).flatten ++ tl) (hpk : ∀ p ∈ ps, p.toMsg.Packable)
    (hz : NoEarlyZero (nextId w.localId) ps)
    (h : service svc cmd tt rt total decode w = (.ok v, w')) :
    (∃ pre okay mid c rest, Conversation (nextId w.localId) ps pre okay mid c rest ∧
        v = serviceVal decode (convItems (nextId w.localId) okay mid) ∧
        w'.inboundRest = (rest.map Pkt.encode).flatten ++ tl ∧
        Reads (convFates (nextId w.localId) pre okay mid c) w w') ∨
    (streamItems (nextId w.localId) ps = none ∧ Readable tl) := by
  have hs' : KeysSat (fun k => k.2 ≠ nextId w.localId ∧ k.2 ≠ 0) w.store := by rw [hs]; exact KeysSat.nil _
  have hf : Frames ps w.inboundRest tl := by rw [hbs]; exact Frames_encode tl hpk
  rcases service_frames hs' hf hz h with ⟨pre, okay, mid, c, rest, hconv, hv, -, hR⟩ | hno
  · exact Or.inl ⟨pre, okay, mid, c, rest, hconv, hv, hconv.rest_encode hpk hbs hR, hR⟩
  · exact Or.inr hno

theorem streamingService_encode {svc cmd : Bytes} {tt rt : Timeout} {decode : Bool} {w w' : World} {v : Val}
    {ps : List Pkt} {tl : Bytes} (hs : w.store = [])
    (hbs : w.inboundRest = (ps.map Pkt.encode).flatten ++ tl) (hpk : ∀ p ∈ ps, p.toMsg.Packable)
    (hz : NoEarlyZero (nextId w.localId) ps)
    (h : streamingService svc cmd tt rt decode w = (.ok v, w')) :
    (∃ pre okay mid c rest, Conversation (nextId w.localId) ps pre okay mid c rest ∧
        v = .items ((convItems (nextId w.localId) okay mid).map
              fun d => if decode then Item.str (Utf8.decodeBS d) else Item.bytes d) ∧
        w'.inboundRest = (rest.map Pkt.encode).flatten ++ tl ∧
        Reads (convFates (nextId w.localId) pre okay mid c) w w') ∨
    (streamItems (nextId w.localId) ps = none ∧ Readable tl) := by
  have hs' : KeysSat (fun k => k.2 ≠ nextId w.localId ∧ k.2 ≠ 0) w.store := by rw [hs]; exact KeysSat.nil _
  have hf : Frames ps w.inboundRest tl := by rw [hbs]; exact Frames_encode tl hpk
  rcases streamingService_frames hs' hf hz h with ⟨pre, okay, mid, c, rest, hconv, hv, -, hR⟩ | hno
  · exact Or.inl ⟨pre, okay, mid, c, rest, hconv, hv, hconv.rest_encode hpk hbs hR, hR⟩
  · exact Or.inr hno

end E2E
end Adb

namespace Adb
namespace E2E

/-- the packets the peer of `demoShellWorld` sends: OKAY(77,1), a foreign WRTE(5,9,"x"), "€!" split over two
    WRTEs(77,1), CLSE(77,1) -/
def demoShellPkts : List Pkt :=
  [⟨.OKAY, 77, 1, []⟩, ⟨.WRTE, 5, 9, [120]⟩, ⟨.WRTE, 77, 1, [0xE2, 0x82]⟩, ⟨.WRTE, 77, 1, [0xAC, 0x21]⟩, ⟨.CLSE, 77, 1, []⟩]

theorem demoShellWorld_eq : demoShellWorld = demoWorld demoShellPkts := rfl

end E2E
end Adb
