import AdbProofs.Lemmas.FragApi
import AdbProofs.Lemmas.SyncExamples
/-
  Concrete worlds for the examples of C03Api: a device answering `stat` (as `SR.wStat`, but with a
  transport whose completed calls take `dt` ticks and a read-fragmentation script), and a device answering
  `pull` with FAIL whose final CLSE arrives byte by byte while the loop budget is small.
-/
namespace Adb.Frag
open Adb Adb.SR

/-- what the device sends during a `stat` of "/x": OKAY (open), OKAY (the STAT request), the 16-byte reply
    cut after 5 bytes into two WRTE packets, CLSE -/
def fxStatScript : Bytes :=
  okFor 7 1 ++ okFor 7 1 ++ wrteFor 7 1 (sxStatRec.take 5) ++ wrteFor 7 1 (sxStatRec.drop 5) ++ clseFor 7 1

/-- a connected idle device that will send `fxStatScript`; every completed transport call takes `dt` ticks and
    the reads are fragmented as `frags` says -/
def fxStat (dt : Int) (frags : List Nat) : World :=
  { cur := some { segs := [⟨0, fxStatScript⟩], dt := dt, frags := frags }, maxdata := 4096, available := true }

/-- a fragmentation script: single bytes, empty reads, a fragment longer than the request, … -/
def fxFrags : List Nat := [1, 0, 3, 1, 0, 0, 7, 2, 24, 1, 1, 5, 0, 2, 100, 3]

/-- what the device sends during a `pull` of "/x" before its final CLSE: OKAY, OKAY, DATA [1,2,3] and FAIL "no"
    in two WRTE packets -/
def fxPullScript : Bytes :=
  okFor 7 1 ++ okFor 7 1 ++ wrteFor 7 1 (sxFailBytes.take 14) ++ wrteFor 7 1 (sxFailBytes.drop 14)

/-- the device of `fxPullScript` + CLSE, with loop budget `fuel` -/
def fxPull (fuel : Nat) (frags : List Nat) : World :=
  { cur := some { segs := [⟨0, fxPullScript ++ clseFor 7 1⟩], dt := 0, frags := frags },
    maxdata := 4096, available := true, fuel := fuel }

/-- everything up to the final CLSE in one fragment, then the 24 header bytes of the CLSE one at a time -/
def fxPullFrags : List Nat := [fxPullScript.length] ++ List.replicate 24 1

theorem fxStat_agree (dt : Int) (f₁ f₂ : List Nat) : FragAgree (fxStat dt f₁) (fxStat dt f₂) :=
  ⟨rfl, rfl, rfl, rfl, rfl, rfl, rfl, rfl, rfl, rfl, rfl, rfl, rfl, rfl, rfl, rfl⟩

theorem fxStat_dt0 (f : List Nat) : (fxStat 0 f).Dt0 :=
  ⟨by intro c h; cases h; rfl, by intro c h; cases h⟩

theorem fxPull_agree (fuel : Nat) (f₁ f₂ : List Nat) : FragAgree (fxPull fuel f₁) (fxPull fuel f₂) :=
  ⟨rfl, rfl, rfl, rfl, rfl, rfl, rfl, rfl, rfl, rfl, rfl, rfl, rfl, rfl, rfl, rfl⟩

theorem fxPull_dt0 (fuel : Nat) (f : List Nat) : (fxPull fuel f).Dt0 :=
  ⟨by intro c h; cases h; rfl, by intro c h; cases h⟩

theorem rtOk_some (l : Int) (h : 0 ≤ l) : RtOk (some l) := ⟨l, rfl, h⟩

end Adb.Frag
