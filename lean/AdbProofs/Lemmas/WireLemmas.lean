import AdbProofs.Lemmas.Monad
import AdbProofs.Lemmas.Bytes
/-
  Helper lemmas for C03 / C15: the scripted transport (`bulkRead`, `bulkWrite`) seen through the two
  ghost byte streams `World.inboundRest` (what the device will still send) and `World.peerGot`
  (what the peer has received), and the loops `readBytesLoop` / `writeAllLoop` built on them.
-/
namespace Adb

/-- everything the device will still send on the open connection (gating/fragmentation ignored) -/
def World.inboundRest (w : World) : Bytes := match w.cur with | some c => c.inboundRest | none => []

/-- the parts of the world a transport call never touches -/
def SameDevice (w w' : World) : Prop :=
  w'.store = w.store ∧ w'.available = w.available ∧ w'.maxdata = w.maxdata ∧ w'.localId = w.localId ∧ w'.banner = w.banner ∧
  w'.defaultTT = w.defaultTT ∧ w'.locks = w.locks ∧ w'.fuel = w.fuel ∧ w'.conns = w.conns ∧ w'.past = w.past ∧ w'.files = w.files ∧ w'.dirs = w.dirs ∧ w'.sink = w.sink

theorem SameDevice.refl (w : World) : SameDevice w w := by simp [SameDevice]

theorem SameDevice.trans {a b c : World} (h1 : SameDevice a b) (h2 : SameDevice b c) : SameDevice a c := by
  unfold SameDevice at *
  obtain ⟨a1, a2, a3, a4, a5, a6, a7, a8, a9, a10, a11, a12, a13⟩ := h1
  obtain ⟨b1, b2, b3, b4, b5, b6, b7, b8, b9, b10, b11, b12, b13⟩ := h2
  exact ⟨b1.trans a1, b2.trans a2, b3.trans a3, b4.trans a4, b5.trans a5, b6.trans a6, b7.trans a7,
    b8.trans a8, b9.trans a9, b10.trans a10, b11.trans a11, b12.trans a12, b13.trans a13⟩

/-! ### segments -/

/-- all bytes of a segment list, gating ignored -/
def segFlat (segs : List Seg) : Bytes := (segs.map (·.bytes)).flatten

@[simp] theorem segFlat_nil : segFlat [] = [] := rfl
@[simp] theorem segFlat_cons (s : Seg) (rest : List Seg) : segFlat (s :: rest) = s.bytes ++ segFlat rest := by
  simp [segFlat]

theorem Conn.inboundRest_eq (c : Conn) : c.inboundRest = segFlat c.segs := rfl

/-- what a read sees is at most `k` bytes and a prefix of the remaining device stream -/
theorem readablePrefix_spec (out : Nat) (k : Nat) (segs : List Seg) :
    (readablePrefix out k segs).length ≤ k ∧ readablePrefix out k segs <+: segFlat segs := by
  induction segs generalizing k with
  | nil => cases k <;> simp [readablePrefix]
  | cons s rest ih =>
    cases k with
    | zero => simp [readablePrefix]
    | succ n =>
      simp only [readablePrefix]
      split
      · split
        · next hge =>
          refine ⟨by rw [List.length_take]; omega, ?_⟩
          rw [segFlat_cons]
          exact (List.take_prefix _ _).trans (List.prefix_append _ _)
        · next hlt =>
          obtain ⟨h1, h2⟩ := ih (n + 1 - s.bytes.length)
          refine ⟨by simp only [List.length_append]; omega, ?_⟩
          rw [segFlat_cons]
          exact (List.prefix_append_right_inj _).2 h2
      · simp

/-- removing `k` bytes from the segment list removes exactly the first `k` bytes of the stream
    (all of it when `k` exceeds what is there; empty segments are harmless) -/
theorem dropSegs_flat (k : Nat) (segs : List Seg) : segFlat (dropSegs k segs) = (segFlat segs).drop k := by
  induction segs generalizing k with
  | nil => cases k <;> simp [dropSegs]
  | cons s rest ih =>
    cases k with
    | zero => simp [dropSegs]
    | succ n =>
      simp only [dropSegs]
      split
      · next hle =>
        rw [ih, segFlat_cons, List.drop_append]
        simp [List.drop_eq_nil_of_le hle]
      · next hgt =>
        rw [segFlat_cons, segFlat_cons, List.drop_append]
        have : n + 1 - s.bytes.length = 0 := by omega
        simp [this]

/-- a read of the visible prefix followed by dropping it splits the stream exactly -/
theorem readable_split (out k : Nat) (segs : List Seg) :
    segFlat segs = readablePrefix out k segs ++ segFlat (dropSegs (readablePrefix out k segs).length segs) := by
  obtain ⟨_, t, ht⟩ := readablePrefix_spec out k segs
  rw [dropSegs_flat]
  conv => rhs; rw [← ht]
  simp [← ht]

/-! ### bulkRead -/

theorem minOpt_le (a : Nat) (o : Option Nat) : minOpt a o ≤ a := by
  cases o <;> simp [minOpt]
  omega


theorem waitTimeout_run {α : Type} (tt : Timeout) (w : World) (r : Except Err α) (w' : World)
    (h : (waitTimeout tt : M α) w = (r, w')) :
    (∃ e, r = .error e) ∧ w'.cur = w.cur ∧ w'.trace = w.trace ∧ SameDevice w w' := by
  unfold waitTimeout at h
  split at h <;> (simp only [Prod.mk.injEq] at h; obtain ⟨rfl, rfl⟩ := h; simp [SameDevice])

theorem bulkRead_spec (n : Nat) (tt : Timeout) (w : World) (r : Except Err Bytes) (w' : World)
    (h : bulkRead n tt w = (r, w')) :
    SameDevice w w' ∧ w'.peerGot = w.peerGot ∧ w'.trace = w.trace ∧
    (∀ bs, r = .ok bs → bs.length ≤ n ∧ w.inboundRest = bs ++ w'.inboundRest) ∧
    (∀ e, r = .error e → w'.inboundRest = w.inboundRest) := by
  unfold bulkRead at h
  split at h
  · simp only [Prod.mk.injEq] at h; obtain ⟨rfl, rfl⟩ := h; simp [SameDevice.refl]
  · next c hc =>
    split at h
    · simp only [Prod.mk.injEq] at h; obtain ⟨rfl, rfl⟩ := h; simp [SameDevice.refl]
    split at h
    · simp only [Prod.mk.injEq] at h; obtain ⟨rfl, rfl⟩ := h
      simp [SameDevice, World.peerGot, World.inboundRest, hc]
    split at h
    · next f hf =>
      split at h
      · obtain ⟨⟨e, rfl⟩, h1, h2, h3⟩ := waitTimeout_run _ _ _ _ h
        simp [World.peerGot, World.inboundRest, hc, h1, h2, Conn.peerGot, Conn.inboundRest] 
        simpa [SameDevice] using h3
      · simp only [Prod.mk.injEq] at h; obtain ⟨rfl, rfl⟩ := h
        simp [SameDevice, World.peerGot, World.inboundRest, hc, Conn.peerGot, Conn.inboundRest]
      · simp only [Prod.mk.injEq] at h; obtain ⟨rfl, rfl⟩ := h
        simp [SameDevice, World.peerGot, World.inboundRest, hc, Conn.peerGot, Conn.inboundRest]
    · cases hfl : c.fragLeft <;> cases hfr : c.frags <;> simp only [hfl, hfr] at h <;>
      ( split at h
        · simp only [Prod.mk.injEq] at h; obtain ⟨rfl, rfl⟩ := h
          simp [SameDevice, World.peerGot, World.inboundRest, hc, Conn.peerGot, Conn.inboundRest]
        split at h
        · obtain ⟨⟨e, rfl⟩, h1, h2, h3⟩ := waitTimeout_run _ _ _ _ h
          simp [World.peerGot, World.inboundRest, h1, h2, h3]
        · simp only [Prod.mk.injEq] at h; obtain ⟨rfl, rfl⟩ := h
          refine ⟨by simp [SameDevice], by simp [World.peerGot, hc, Conn.peerGot], rfl, ?_, by simp⟩
          intro bs hbs
          simp only [Except.ok.injEq] at hbs
          subst hbs
          simp only [World.inboundRest, hc, Conn.inboundRest_eq, List.take_length]
          exact ⟨Nat.le_trans (readablePrefix_spec _ _ _).1 (Nat.le_trans (minOpt_le _ _) (minOpt_le _ _)),
            readable_split _ _ _⟩ )

/-! ### bulkWrite -/

theorem Conn.peerGot_cons (c : Conn) (d : Bytes) :
    ({ c with peerChunks := d :: c.peerChunks } : Conn).peerGot = c.peerGot ++ d := by
  simp [Conn.peerGot]

theorem bulkWrite_spec (data : Bytes) (tt : Timeout) (w : World) (r : Except Err (Option Nat)) (w' : World)
    (h : bulkWrite data tt w = (r, w')) :
    SameDevice w w' ∧ w'.inboundRest = w.inboundRest ∧ w'.trace = w.trace ∧
    (∀ k, r = .ok (some k) → k ≤ data.length ∧ w'.peerGot = w.peerGot ++ data.take k) ∧
    (r = .ok none → w'.peerGot = w.peerGot ++ data) ∧
    (∀ e, r = .error e → w'.peerGot = w.peerGot) := by
  unfold bulkWrite at h
  split at h
  · simp only [Prod.mk.injEq] at h; obtain ⟨rfl, rfl⟩ := h; simp [SameDevice.refl]
  · next c hc =>
    split at h
    · simp only [Prod.mk.injEq] at h; obtain ⟨rfl, rfl⟩ := h; simp [SameDevice.refl]
    split at h
    · next f hf =>
      split at h
      · obtain ⟨⟨e, rfl⟩, h1, h2, h3⟩ := waitTimeout_run _ _ _ _ h
        simp [World.peerGot, World.inboundRest, hc, h1, h2, Conn.peerGot, Conn.inboundRest]
        simpa [SameDevice] using h3
      · simp only [Prod.mk.injEq] at h; obtain ⟨rfl, rfl⟩ := h
        simp [SameDevice, World.peerGot, World.inboundRest, hc, Conn.peerGot, Conn.inboundRest]
    · split at h
      · simp only [Prod.mk.injEq] at h; obtain ⟨rfl, rfl⟩ := h
        simp [SameDevice, World.peerGot, World.inboundRest, hc, Conn.peerGot, Conn.inboundRest]
      · cases hfl : c.ofragLeft <;> cases hfr : c.ofrags <;> simp only [hfl, hfr] at h <;>
        ( simp only [Prod.mk.injEq] at h; obtain ⟨rfl, rfl⟩ := h
          refine ⟨by simp [SameDevice], by simp [World.inboundRest, hc, Conn.inboundRest], rfl, ?_, by simp, by simp⟩
          intro k hk
          simp only [Except.ok.injEq, Option.some.injEq] at hk
          subst hk
          refine ⟨Nat.le_trans (minOpt_le _ _) (minOpt_le _ _), ?_⟩
          simp [World.peerGot, hc, Conn.peerGot] )

/-- running-state sanity: a write fragment in progress has bytes left (`bulkWrite` never stores `some 0`;
    an arbitrary `World` value could) -/
def World.OfragOk (w : World) : Prop := ∀ c, w.cur = some c → c.ofragLeft ≠ some 0

theorem faultLimit_foldl_pos (off : Nat) (l : List Fault) (hl : ∀ f ∈ l, f.off > off) (acc : Option Nat)
    (hacc : ∀ d, acc = some d → 1 ≤ d) (d : Nat)
    (h : l.foldl (fun acc f => match acc with
      | none => some (f.off - off) | some d => some (min d (f.off - off))) acc = some d) : 1 ≤ d := by
  induction l generalizing acc with
  | nil => exact hacc d (by simpa using h)
  | cons f rest ih =>
    simp only [List.foldl_cons] at h
    have hf := hl f (by simp)
    refine ih (fun g hg => hl g (by simp [hg])) _ ?_ h
    intro d' hd'
    cases acc with
    | none => simp at hd'; omega
    | some a =>
      have := hacc a rfl
      simp at hd'; omega

theorem faultLimit_pos (inb : Bool) (off : Nat) (fs : List Fault) (d : Nat)
    (h : faultLimit inb off fs = some d) : 1 ≤ d := by
  unfold faultLimit at h
  refine faultLimit_foldl_pos off _ ?_ none (by simp) d h
  intro f hf
  simp only [List.mem_filter, Bool.and_eq_true, decide_eq_true_eq] at hf
  exact hf.2.2

theorem minOpt_pos (a : Nat) (o : Option Nat) (ha : 1 ≤ a) (ho : ∀ d, o = some d → 1 ≤ d) : 1 ≤ minOpt a o := by
  cases o with
  | none => simpa [minOpt]
  | some b => have := ho b rfl; simp [minOpt]; omega

theorem bulkWrite_progress (data : Bytes) (tt : Timeout) (w : World) (r : Except Err (Option Nat)) (w' : World)
    (h : bulkWrite data tt w = (r, w')) (hok : w.OfragOk) :
    w'.OfragOk ∧ (∀ k, r = .ok (some k) → data ≠ [] → 1 ≤ k) := by
  unfold bulkWrite at h
  split at h
  · simp only [Prod.mk.injEq] at h; obtain ⟨rfl, rfl⟩ := h; simp [hok]
  · next c hc =>
    have hc0 := hok c hc
    split at h
    · simp only [Prod.mk.injEq] at h; obtain ⟨rfl, rfl⟩ := h; simp [hok]
    split at h
    · next f hf =>
      split at h
      · obtain ⟨⟨e, rfl⟩, h1, h2, h3⟩ := waitTimeout_run _ _ _ _ h
        simp only [World.OfragOk, h1]
        simpa using hc0
      · simp only [Prod.mk.injEq] at h; obtain ⟨rfl, rfl⟩ := h
        simpa [World.OfragOk] using hc0
    · split at h
      · simp only [Prod.mk.injEq] at h; obtain ⟨rfl, rfl⟩ := h
        simpa [World.OfragOk] using hc0
      · cases hfl : c.ofragLeft <;> cases hfr : c.ofrags <;> simp only [hfl, hfr] at h <;>
        ( simp only [Prod.mk.injEq] at h; obtain ⟨rfl, rfl⟩ := h
          refine ⟨?_, ?_⟩
          · simp only [World.OfragOk, Option.some.injEq, forall_eq']
            first
              | exact (by simp)
              | (split
                 · simp
                 · next hne => simpa using hne)
          · intro k hk hd
            simp only [Except.ok.injEq, Option.some.injEq] at hk
            subst hk
            have hdl : 1 ≤ data.length := by cases data <;> simp_all
            refine minOpt_pos _ _ (minOpt_pos _ _ hdl ?_) (fun d hd => faultLimit_pos _ _ _ d hd)
            intro d hd
            cases hd <;> first | omega | (simp [hfl] at hc0; omega) )

/-! ### the loops -/

/-- the recurring `if time.time() - start > read_timeout_s: raise AdbTimeoutError` followed by `k` -/
theorem timeoutCheck_run {α} (start : Int) (rt : Timeout) (k : M α) (w : World) :
    (do if (← elapsedGt start rt) then M.throw .adbTimeout
        k : M α) w =
      match rt with
      | none => (.error .pyTypeError, w)
      | some l => if w.now - start > l then (.error .adbTimeout, w) else k w := by
  cases rt with
  | none => simp [bind_run, elapsedGt_run]
  | some l =>
    by_cases hl : w.now - start > l <;> simp [bind_run, elapsedGt_run, hl]

theorem writeAllLoop_spec (t : Txn) (start : Int) (fuel : Nat) (data : Bytes) (w : World)
    (r : Except Err Unit) (w' : World) (h : writeAllLoop t start fuel data w = (r, w')) :
    SameDevice w w' ∧ w'.inboundRest = w.inboundRest ∧ w'.trace = w.trace ∧
    (∃ k, k ≤ data.length ∧ w'.peerGot = w.peerGot ++ data.take k) ∧
    (r = .ok () → w'.peerGot = w.peerGot ++ data) := by
  induction fuel generalizing data w with
  | zero =>
    simp only [writeAllLoop, M.throw_run, Prod.mk.injEq] at h
    obtain ⟨rfl, rfl⟩ := h
    exact ⟨SameDevice.refl _, rfl, rfl, ⟨0, by simp⟩, by simp⟩
  | succ fuel ih =>
    rw [writeAllLoop, bind_run] at h
    rcases hb : bulkWrite data t.tt w with ⟨r1, w1⟩
    obtain ⟨sd, hin, htr, hsome, hnone, herr⟩ := bulkWrite_spec _ _ _ _ _ hb
    rw [hb] at h
    cases r1 with
    | error e =>
      simp only [Prod.mk.injEq] at h; obtain ⟨rfl, rfl⟩ := h
      exact ⟨sd, hin, htr, ⟨0, by simp [herr e rfl]⟩, by simp⟩
    | ok nw =>
      cases nw with
      | none =>
        simp only [pure_run, Prod.mk.injEq] at h; obtain ⟨rfl, rfl⟩ := h
        exact ⟨sd, hin, htr, ⟨data.length, Nat.le_refl _, by simp [hnone rfl]⟩, fun _ => hnone rfl⟩
      | some k =>
        obtain ⟨hk, hpg⟩ := hsome k rfl
        simp only at h
        split at h
        · next hge =>
          simp only [pure_run, Prod.mk.injEq] at h; obtain ⟨rfl, rfl⟩ := h
          have : data.take k = data := List.take_of_length_le hge
          exact ⟨sd, hin, htr, ⟨k, hk, hpg⟩, fun _ => by rw [hpg, this]⟩
        · next hlt =>
          rw [timeoutCheck_run] at h
          have hfail : SameDevice w w1 ∧ w1.inboundRest = w.inboundRest ∧ w1.trace = w.trace ∧
              (∃ k, k ≤ data.length ∧ w1.peerGot = w.peerGot ++ data.take k) := ⟨sd, hin, htr, ⟨k, hk, hpg⟩⟩
          split at h
          · simp only [Prod.mk.injEq] at h; obtain ⟨rfl, rfl⟩ := h
            exact ⟨hfail.1, hfail.2.1, hfail.2.2.1, hfail.2.2.2, by simp⟩
          · split at h
            · simp only [Prod.mk.injEq] at h; obtain ⟨rfl, rfl⟩ := h
              exact ⟨hfail.1, hfail.2.1, hfail.2.2.1, hfail.2.2.2, by simp⟩
            · obtain ⟨sd2, hin2, htr2, ⟨k2, hk2, hpg2⟩, hok2⟩ := ih _ _ h
              simp only [List.length_drop] at hk2
              refine ⟨sd.trans sd2, hin2.trans hin, htr2.trans htr, ⟨k + k2, by omega, ?_⟩, ?_⟩
              · rw [hpg2, hpg, List.append_assoc, List.take_add]
              · intro hr
                rw [hok2 hr, hpg, List.append_assoc, List.take_append_drop]

theorem writeAll_spec (data : Bytes) (t : Txn) (w : World) (r : Except Err Unit) (w' : World)
    (h : writeAll data t w = (r, w')) :
    SameDevice w w' ∧ w'.inboundRest = w.inboundRest ∧ w'.trace = w.trace ∧
    (∃ k, k ≤ data.length ∧ w'.peerGot = w.peerGot ++ data.take k) ∧
    (r = .ok () → w'.peerGot = w.peerGot ++ data) := by
  simp only [writeAll, bind_run, now_run, M.get_run] at h
  exact writeAllLoop_spec _ _ _ _ _ _ _ h

theorem sendRaw_spec (m : Msg) (t : Txn) (w : World) (r : Except Err Unit) (w' : World)
    (h : sendRaw m t w = (r, w')) :
    SameDevice w w' ∧ w'.inboundRest = w.inboundRest ∧ w'.trace = .tx m :: w.trace ∧
    (∃ k, k ≤ m.encode.length ∧ w'.peerGot = w.peerGot ++ m.encode.take k) ∧
    (r = .ok () → m.Packable ∧ w'.peerGot = w.peerGot ++ m.encode) := by
  simp only [sendRaw, bind_run, emit_run] at h
  have sd0 : SameDevice w { w with trace := .tx m :: w.trace } := by simp [SameDevice]
  have hin0 : ({ w with trace := .tx m :: w.trace } : World).inboundRest = w.inboundRest := rfl
  have hpg0 : ({ w with trace := .tx m :: w.trace } : World).peerGot = w.peerGot := rfl
  have htr0 : ({ w with trace := .tx m :: w.trace } : World).trace = .tx m :: w.trace := rfl
  generalize ({ w with trace := .tx m :: w.trace } : World) = w0 at h sd0 hin0 hpg0 htr0
  unfold Msg.pack? at h
  by_cases hp : m.Packable
  · simp only [hp, if_true] at h
    have hlen : m.packHdr.length = 24 := by simp [Msg.packHdr]
    rcases h1 : writeAll m.packHdr t w0 with ⟨r1, w1⟩
    obtain ⟨sd1, hin1, htr1, ⟨k1, hk1, hpg1⟩, hok1⟩ := writeAll_spec _ _ _ _ _ h1
    rw [bind_run, h1] at h
    cases r1 with
    | error e =>
      simp only [Prod.mk.injEq] at h; obtain ⟨rfl, rfl⟩ := h
      refine ⟨sd0.trans sd1, hin1.trans hin0, htr1.trans htr0, ⟨k1, ?_, ?_⟩, by simp⟩
      · simp [Msg.encode]; omega
      · rw [hpg1, hpg0, Msg.encode, List.take_append_of_le_length hk1]
    | ok u =>
      have hpg1' := hok1 rfl
      simp only at h
      by_cases hd : m.data.isEmpty
      · simp only [hd, Bool.not_true, Bool.false_eq_true, if_false, pure_run, Prod.mk.injEq] at h
        obtain ⟨rfl, rfl⟩ := h
        have hd' : m.data = [] := by simpa using hd
        have henc : m.encode = m.packHdr := by simp [Msg.encode, hd']
        refine ⟨sd0.trans sd1, hin1.trans hin0, htr1.trans htr0, ⟨m.encode.length, Nat.le_refl _, ?_⟩, fun _ => ⟨hp, ?_⟩⟩
        · rw [List.take_length, henc, hpg1', hpg0]
        · rw [henc, hpg1', hpg0]
      · simp only [hd, Bool.not_false, if_true] at h
        obtain ⟨sd2, hin2, htr2, ⟨k2, hk2, hpg2⟩, hok2⟩ := writeAll_spec _ _ _ _ _ h
        refine ⟨(sd0.trans sd1).trans sd2, (hin2.trans hin1).trans hin0, (htr2.trans htr1).trans htr0,
          ⟨24 + k2, ?_, ?_⟩, fun hr => ⟨hp, ?_⟩⟩
        · simp [Msg.encode, hlen]; omega
        · rw [hpg2, hpg1', hpg0, Msg.encode, List.append_assoc, ← hlen, List.take_length_add_append]
        · rw [hok2 hr, hpg1', hpg0, Msg.encode, List.append_assoc]
  · simp only [hp, if_false, M.throw_run, Prod.mk.injEq] at h
    obtain ⟨rfl, rfl⟩ := h
    exact ⟨sd0, hin0, htr0, ⟨0, by simp, by simp [hpg0]⟩, by simp⟩

/-- Everything `readBytesLoop` can do, for any outcome: it consumes a prefix `got` of the device stream of
    at most `rem` bytes, touches nothing else, adds only requests `req b b` with `1 ≤ b ≤ rem`, and a
    normal return delivers `acc ++ got` with `got` exactly `rem` bytes long. -/
theorem readBytesLoop_spec (t : Txn) (start : Int) (fuel rem : Nat) (acc : Bytes) (w : World)
    (r : Except Err Bytes) (w' : World) (h : readBytesLoop t start fuel rem acc w = (r, w')) :
    SameDevice w w' ∧ w'.peerGot = w.peerGot ∧
    (∃ evs, w'.trace = evs ++ w.trace ∧ ∀ e ∈ evs, ∃ b, e = .req b b ∧ 1 ≤ b ∧ b ≤ rem) ∧
    (∃ got, got.length ≤ rem ∧ w.inboundRest = got ++ w'.inboundRest ∧
      (∀ bs, r = .ok bs → bs = acc ++ got ∧ got.length = rem)) := by
  induction fuel generalizing rem acc w with
  | zero =>
    simp only [readBytesLoop, M.throw_run, Prod.mk.injEq] at h
    obtain ⟨rfl, rfl⟩ := h
    exact ⟨SameDevice.refl _, rfl, ⟨[], by simp⟩, ⟨[], by simp⟩⟩
  | succ fuel ih =>
    rw [readBytesLoop] at h
    split at h
    · next h0 =>
      simp only [pure_run, Prod.mk.injEq] at h
      obtain ⟨rfl, rfl⟩ := h
      exact ⟨SameDevice.refl _, rfl, ⟨[], by simp⟩, ⟨[], by simp [h0]⟩⟩
    · next hne =>
      rw [bind_run, emit_run] at h
      simp only at h
      have sd0 : SameDevice w { w with trace := .req rem rem :: w.trace } := by simp [SameDevice]
      have hin0 : ({ w with trace := .req rem rem :: w.trace } : World).inboundRest = w.inboundRest := rfl
      have hpg0 : ({ w with trace := .req rem rem :: w.trace } : World).peerGot = w.peerGot := rfl
      have htr0 : ({ w with trace := .req rem rem :: w.trace } : World).trace = .req rem rem :: w.trace := rfl
      generalize ({ w with trace := .req rem rem :: w.trace } : World) = w0 at h sd0 hin0 hpg0 htr0
      rw [bind_run] at h
      rcases hb : bulkRead rem t.tt w0 with ⟨r1, w1⟩
      obtain ⟨sd1, hpg1, htr1, hok1, herr1⟩ := bulkRead_spec _ _ _ _ _ hb
      rw [hb] at h
      have hev1 : ∀ e ∈ [TEv.req rem rem], ∃ b, e = .req b b ∧ 1 ≤ b ∧ b ≤ rem := by
        intro e he
        simp only [List.mem_singleton] at he
        exact ⟨rem, he, by omega, Nat.le_refl _⟩
      cases r1 with
      | error e =>
        simp only [Prod.mk.injEq] at h; obtain ⟨rfl, rfl⟩ := h
        refine ⟨sd0.trans sd1, hpg1.trans hpg0, ⟨[.req rem rem], by rw [htr1, htr0]; rfl, hev1⟩, ⟨[], by simp, ?_, by simp⟩⟩
        rw [herr1 e rfl, hin0]; rfl
      | ok temp =>
        obtain ⟨hlen, hsplit⟩ := hok1 temp rfl
        have hstop : SameDevice w w1 ∧ w1.peerGot = w.peerGot ∧ w1.trace = [.req rem rem] ++ w.trace ∧
            w.inboundRest = temp ++ w1.inboundRest :=
          ⟨sd0.trans sd1, hpg1.trans hpg0, by rw [htr1, htr0]; rfl, by rw [← hin0, hsplit]⟩
        simp only at h
        split at h
        · next hz =>
          simp only [pure_run, Prod.mk.injEq] at h; obtain ⟨rfl, rfl⟩ := h
          exact ⟨hstop.1, hstop.2.1, ⟨_, hstop.2.2.1, hev1⟩, ⟨temp, hlen, hstop.2.2.2, fun bs hbs => by
            simp only [Except.ok.injEq] at hbs; exact ⟨hbs.symm, by omega⟩⟩⟩
        · next hnz =>
          rw [timeoutCheck_run] at h
          split at h
          · simp only [Prod.mk.injEq] at h; obtain ⟨rfl, rfl⟩ := h
            exact ⟨hstop.1, hstop.2.1, ⟨_, hstop.2.2.1, hev1⟩, ⟨temp, hlen, hstop.2.2.2, by simp⟩⟩
          · split at h
            · simp only [Prod.mk.injEq] at h; obtain ⟨rfl, rfl⟩ := h
              exact ⟨hstop.1, hstop.2.1, ⟨_, hstop.2.2.1, hev1⟩, ⟨temp, hlen, hstop.2.2.2, by simp⟩⟩
            · obtain ⟨sd2, hpg2, ⟨evs2, htr2, hev2⟩, ⟨got2, hlen2, hsplit2, hok2⟩⟩ := ih _ _ _ h
              refine ⟨hstop.1.trans sd2, hpg2.trans hstop.2.1, ⟨evs2 ++ [.req rem rem], ?_, ?_⟩,
                ⟨temp ++ got2, ?_, ?_, ?_⟩⟩
              · rw [htr2, hstop.2.2.1, List.append_assoc]
              · intro e he
                rcases List.mem_append.1 he with he | he
                · obtain ⟨b, hb1, hb2, hb3⟩ := hev2 e he
                  exact ⟨b, hb1, hb2, by omega⟩
                · exact hev1 e he
              · simp only [List.length_append]; omega
              · rw [hstop.2.2.2, hsplit2, List.append_assoc]
              · intro bs hbs
                obtain ⟨h1, h2⟩ := hok2 bs hbs
                refine ⟨by rw [h1, List.append_assoc], ?_⟩
                simp only [List.length_append]; omega

theorem readBytes_spec (n : Nat) (t : Txn) (w : World) (r : Except Err Bytes) (w' : World)
    (h : readBytes n t w = (r, w')) :
    SameDevice w w' ∧ w'.peerGot = w.peerGot ∧
    (∃ evs, w'.trace = evs ++ w.trace ∧ ∀ e ∈ evs, ∃ b, e = .req b b ∧ 1 ≤ b ∧ b ≤ n) ∧
    (∃ got, got.length ≤ n ∧ w.inboundRest = got ++ w'.inboundRest ∧
      (∀ bs, r = .ok bs → bs = got ∧ got.length = n)) := by
  simp only [readBytes, bind_run, now_run, M.get_run] at h
  simpa using readBytesLoop_spec _ _ _ _ _ _ _ _ h

/-- for any outcome, `readPacket` only consumes a prefix of the device stream and touches nothing else -/
theorem readPacket_frame (t : Txn) (w : World) (r : Except Err Pkt) (w' : World)
    (h : readPacket t w = (r, w')) :
    SameDevice w w' ∧ w'.peerGot = w.peerGot ∧ ∃ got, w.inboundRest = got ++ w'.inboundRest := by
  rw [readPacket, bind_run] at h
  rcases h1 : readBytes Generated.MESSAGE_SIZE t w with ⟨r1, w1⟩
  obtain ⟨sd1, hpg1, -, ⟨got1, -, hsp1, -⟩⟩ := readBytes_spec _ _ _ _ _ h1
  have hstop : SameDevice w w1 ∧ w1.peerGot = w.peerGot ∧ ∃ got, w.inboundRest = got ++ w1.inboundRest :=
    ⟨sd1, hpg1, got1, hsp1⟩
  rw [h1] at h
  cases r1 with
  | error e => simp only [Prod.mk.injEq] at h; obtain ⟨rfl, rfl⟩ := h; exact hstop
  | ok msg =>
    simp only at h
    rcases hu : unpack msg with _ | hd
    · simp only [hu, M.throw_run, Prod.mk.injEq] at h; obtain ⟨rfl, rfl⟩ := h; exact hstop
    · simp only [hu] at h
      rcases hcmd : Cmd.ofWire? hd.cmd with _ | c
      · simp only [hcmd, M.throw_run, Prod.mk.injEq] at h; obtain ⟨rfl, rfl⟩ := h; exact hstop
      · simp only [hcmd] at h
        split at h
        · simp only [pure_run, Prod.mk.injEq] at h; obtain ⟨rfl, rfl⟩ := h; exact hstop
        · rw [bind_run] at h
          rcases h2 : readBytes hd.len t w1 with ⟨r2, w2⟩
          obtain ⟨sd2, hpg2, -, ⟨got2, -, hsp2, -⟩⟩ := readBytes_spec _ _ _ _ _ h2
          have hstop2 : SameDevice w w2 ∧ w2.peerGot = w.peerGot ∧ ∃ got, w.inboundRest = got ++ w2.inboundRest :=
            ⟨sd1.trans sd2, hpg2.trans hpg1, got1 ++ got2, by rw [hsp1, hsp2, List.append_assoc]⟩
          rw [h2] at h
          cases r2 with
          | error e => simp only [Prod.mk.injEq] at h; obtain ⟨rfl, rfl⟩ := h; exact hstop2
          | ok data =>
            simp only at h
            by_cases hck : checksum data = hd.sum
            · simp [hck] at h
              obtain ⟨rfl, rfl⟩ := h; exact hstop2
            · simp [bind_run, hck] at h
              obtain ⟨rfl, rfl⟩ := h; exact hstop2

/-- a delivered packet is exactly the next header + payload of the device stream -/
theorem readPacket_ok (t : Txn) (w : World) (p : Pkt) (w' : World)
    (h : readPacket t w = (.ok p, w')) :
    ∃ hb hd, hb.length = 24 ∧ unpack hb = some hd ∧ Cmd.ofWire? hd.cmd = some p.cmd ∧ hd.arg0 = p.arg0 ∧
      hd.arg1 = p.arg1 ∧ hd.len = p.data.length ∧ (p.data ≠ [] → checksum p.data = hd.sum) ∧
      w.inboundRest = hb ++ p.data ++ w'.inboundRest := by
  rw [readPacket] at h
  obtain ⟨msg, w1, h1, h⟩ := bind_ok_inv h
  obtain ⟨-, -, -, ⟨got1, -, hsp1, hok1⟩⟩ := readBytes_spec _ _ _ _ _ h1
  obtain ⟨rfl, hl1⟩ := hok1 msg rfl
  simp only at h
  rcases hu : unpack msg with _ | hd
  · simp [hu] at h
  · simp only [hu] at h
    rcases hcmd : Cmd.ofWire? hd.cmd with _ | c
    · simp [hcmd] at h
    · simp only [hcmd] at h
      split at h
      · next hz =>
        simp only [pure_run, Prod.mk.injEq, Except.ok.injEq] at h
        obtain ⟨rfl, rfl⟩ := h
        exact ⟨msg, hd, hl1, hu, hcmd, rfl, rfl, by simpa using hz, by simp, by simpa using hsp1⟩
      · obtain ⟨data, w2, h2, h⟩ := bind_ok_inv h
        obtain ⟨-, -, -, ⟨got2, -, hsp2, hok2⟩⟩ := readBytes_spec _ _ _ _ _ h2
        obtain ⟨rfl, hl2⟩ := hok2 data rfl
        by_cases hck : checksum data = hd.sum
        · simp [hck] at h
          obtain ⟨rfl, rfl⟩ := h
          refine ⟨msg, hd, hl1, hu, hcmd, rfl, rfl, hl2.symm, fun _ => hck, ?_⟩
          rw [hsp1, hsp2, List.append_assoc]
        · simp [bind_run, hck] at h

/-! ### progress of `writeAll` on a fault-free connection -/

/-- an open connection that is not reset, has no scripted faults left and a sane write-fragment state -/
def World.WriteHealthy (w : World) : Prop :=
  ∃ c, w.cur = some c ∧ c.isReset = false ∧ c.faults = [] ∧ c.ofragLeft ≠ some 0

theorem World.WriteHealthy.ofragOk {w : World} (h : w.WriteHealthy) : w.OfragOk := by
  obtain ⟨c, hc, -, -, ho⟩ := h
  intro c' hc'
  rw [hc] at hc'
  cases hc'
  exact ho

theorem bulkWrite_healthy (data : Bytes) (tt : Timeout) (w : World) (r : Except Err (Option Nat)) (w' : World)
    (h : bulkWrite data tt w = (r, w')) (hh : w.WriteHealthy) :
    w'.WriteHealthy ∧ (r = .ok none ∨ ∃ k, r = .ok (some k) ∧ (data ≠ [] → 1 ≤ k)) := by
  obtain ⟨hok', hpos⟩ := bulkWrite_progress data tt w r w' h hh.ofragOk
  obtain ⟨c, hc, hr, hf, ho⟩ := hh
  unfold bulkWrite at h
  simp only [hc, hr, hf, nextFault, List.find?_nil, Bool.false_eq_true, if_false] at h
  split at h
  · simp only [Prod.mk.injEq] at h; obtain ⟨rfl, rfl⟩ := h
    exact ⟨⟨_, rfl, rfl, rfl, ho⟩, Or.inl rfl⟩
  · cases hfl : c.ofragLeft <;> cases hfr : c.ofrags <;> simp only [hfl, hfr] at h <;>
    ( simp only [Prod.mk.injEq] at h; obtain ⟨rfl, rfl⟩ := h
      refine ⟨⟨_, rfl, rfl, rfl, ?_⟩, Or.inr ⟨_, rfl, hpos _ rfl⟩⟩
      exact hok' _ rfl )

theorem writeAllLoop_no_hang (t : Txn) (start : Int) (fuel : Nat) (data : Bytes) (w : World)
    (r : Except Err Unit) (w' : World) (h : writeAllLoop t start fuel data w = (r, w'))
    (hh : w.WriteHealthy) (hf : data.length < fuel) : r ≠ .error .hang := by
  induction fuel generalizing data w with
  | zero => omega
  | succ fuel ih =>
    rw [writeAllLoop, bind_run] at h
    rcases hb : bulkWrite data t.tt w with ⟨r1, w1⟩
    obtain ⟨hh1, hr1⟩ := bulkWrite_healthy _ _ _ _ _ hb hh
    rw [hb] at h
    rcases hr1 with rfl | ⟨k, rfl, hk⟩
    · simp only [pure_run, Prod.mk.injEq] at h; obtain ⟨rfl, -⟩ := h; simp
    · simp only at h
      split at h
      · simp only [pure_run, Prod.mk.injEq] at h; obtain ⟨rfl, -⟩ := h; simp
      · next hlt =>
        rw [timeoutCheck_run] at h
        split at h
        · simp only [Prod.mk.injEq] at h; obtain ⟨rfl, -⟩ := h; simp
        · split at h
          · simp only [Prod.mk.injEq] at h; obtain ⟨rfl, -⟩ := h; simp
          · have hne : data ≠ [] := by
              intro h0; rw [h0] at hlt; simp at hlt
            have := hk hne
            exact ih _ _ h hh1 (by simp only [List.length_drop]; omega)

/-! ### the exact request sequence of `readBytes` -/

/-- the requests a frame of `rem` missing bytes produces when the successive `bulk_read` calls return `chunks`
    (a failed call counts as an empty chunk): each asks for what is still missing -/
def reqsOf (rem : Nat) : List Bytes → List TEv
  | [] => []
  | c :: cs => .req rem rem :: reqsOf (rem - c.length) cs

theorem readBytesLoop_requests (t : Txn) (start : Int) (fuel rem : Nat) (acc : Bytes) (w : World)
    (r : Except Err Bytes) (w' : World) (h : readBytesLoop t start fuel rem acc w = (r, w')) :
    ∃ chunks : List Bytes, w'.trace = (reqsOf rem chunks).reverse ++ w.trace ∧
      w.inboundRest = chunks.flatten ++ w'.inboundRest := by
  induction fuel generalizing rem acc w with
  | zero =>
    simp only [readBytesLoop, M.throw_run, Prod.mk.injEq] at h
    obtain ⟨rfl, rfl⟩ := h
    exact ⟨[], by simp [reqsOf]⟩
  | succ fuel ih =>
    rw [readBytesLoop] at h
    split at h
    · simp only [pure_run, Prod.mk.injEq] at h
      obtain ⟨rfl, rfl⟩ := h
      exact ⟨[], by simp [reqsOf]⟩
    · rw [bind_run, emit_run] at h
      simp only at h
      have hin0 : ({ w with trace := .req rem rem :: w.trace } : World).inboundRest = w.inboundRest := rfl
      have htr0 : ({ w with trace := .req rem rem :: w.trace } : World).trace = .req rem rem :: w.trace := rfl
      generalize ({ w with trace := .req rem rem :: w.trace } : World) = w0 at h hin0 htr0
      rw [bind_run] at h
      rcases hb : bulkRead rem t.tt w0 with ⟨r1, w1⟩
      obtain ⟨-, -, htr1, hok1, herr1⟩ := bulkRead_spec _ _ _ _ _ hb
      rw [hb] at h
      cases r1 with
      | error e =>
        simp only [Prod.mk.injEq] at h; obtain ⟨rfl, rfl⟩ := h
        exact ⟨[[]], by simp [reqsOf, htr1, htr0], by simp [herr1 e rfl, hin0]⟩
      | ok temp =>
        obtain ⟨-, hsplit⟩ := hok1 temp rfl
        have hstop : w1.trace = (reqsOf rem [temp]).reverse ++ w.trace ∧
            w.inboundRest = [temp].flatten ++ w1.inboundRest :=
          ⟨by simp [reqsOf, htr1, htr0], by simp [← hin0, hsplit]⟩
        simp only at h
        split at h
        · simp only [pure_run, Prod.mk.injEq] at h; obtain ⟨rfl, rfl⟩ := h
          exact ⟨[temp], hstop⟩
        · rw [timeoutCheck_run] at h
          split at h
          · simp only [Prod.mk.injEq] at h; obtain ⟨rfl, rfl⟩ := h
            exact ⟨[temp], hstop⟩
          · split at h
            · simp only [Prod.mk.injEq] at h; obtain ⟨rfl, rfl⟩ := h
              exact ⟨[temp], hstop⟩
            · obtain ⟨chunks, htr2, hsp2⟩ := ih _ _ _ h
              refine ⟨temp :: chunks, ?_, ?_⟩
              · rw [htr2, htr1, htr0]; simp [reqsOf]
              · rw [← hin0, hsplit, hsp2]; simp

theorem readBytes_requests (n : Nat) (t : Txn) (w : World) (r : Except Err Bytes) (w' : World)
    (h : readBytes n t w = (r, w')) :
    ∃ chunks : List Bytes, w'.trace = (reqsOf n chunks).reverse ++ w.trace ∧
      w.inboundRest = chunks.flatten ++ w'.inboundRest := by
  simp only [readBytes, bind_run, now_run, M.get_run] at h
  exact readBytesLoop_requests _ _ _ _ _ _ _ _ h

end Adb
