import AdbProofs.Lemmas.PushLemmas
/-
  Trace discipline for C07.  `Tr Q x` says: `x` never READS the trace (started with another trace
  it gives the same result and the same world except for the trace) and it only PREPENDS events,
  all of which satisfy `Q`.  Proved once per model function with the `trq` tactic (same style as
  `fr` in Frame.lean).  From it come "the read side transmits nothing but OKAY", "nothing below the
  callback records a progress call", and the callback-irrelevance theorem.
-/
namespace Adb.Push
open Adb

def Tr {α : Type} (Q : TEv → Prop) (x : M α) : Prop :=
  ∀ w, ∃ evs, (∀ e ∈ evs, Q e) ∧
    ∀ tr, x { w with trace := tr } = ((x w).1, { (x w).2 with trace := evs ++ tr })

/-- the events added by `x` all satisfy `Q` -/
theorem Tr.trace {α} {Q} {x : M α} (h : Tr Q x) (w : World) :
    ∃ evs, (x w).2.trace = evs ++ w.trace ∧ ∀ e ∈ evs, Q e := by
  obtain ⟨evs, hq, h⟩ := h w
  refine ⟨evs, ?_, hq⟩
  exact congrArg (fun p => p.2.trace) (h w.trace)

/-- run from a world with another trace -/
theorem Tr.run {α} {Q} {x : M α} (h : Tr Q x) (w : World) :
    ∃ evs, (x w).2.trace = evs ++ w.trace ∧ (∀ e ∈ evs, Q e) ∧
      ∀ tr, x { w with trace := tr } = ((x w).1, { (x w).2 with trace := evs ++ tr }) := by
  obtain ⟨evs, hq, h⟩ := h w
  refine ⟨evs, ?_, hq, h⟩
  exact congrArg (fun p => p.2.trace) (h w.trace)

theorem Tr.mono {α} {Q Q' : TEv → Prop} {x : M α} (h : Tr Q x) (hq : ∀ e, Q e → Q' e) : Tr Q' x := by
  intro w
  obtain ⟨evs, h1, h2⟩ := h w
  exact ⟨evs, fun e he => hq e (h1 e he), h2⟩

/-- `x` does not touch the trace at all -/
theorem Tr_of_silent {α} {Q} {x : M α}
    (h : ∀ w tr, x { w with trace := tr } = ((x w).1, { (x w).2 with trace := tr })) : Tr Q x :=
  fun w => ⟨[], by simp, fun tr => by simpa using h w tr⟩

theorem Tr_pure {α} {Q} (a : α) : Tr Q (pure a : M α) := Tr_of_silent fun _ _ => rfl
theorem Tr_Mpure {α} {Q} (a : α) : Tr Q (M.pure a : M α) := Tr_of_silent fun _ _ => rfl
theorem Tr_throw {α} {Q} (e : Err) : Tr Q (M.throw e : M α) := Tr_of_silent fun _ _ => rfl
theorem Tr_now {Q} : Tr Q now := Tr_of_silent fun _ _ => rfl
theorem Tr_liftExcept {α} {Q} (x : Except Err α) : Tr Q (liftExcept x) := Tr_of_silent fun _ _ => rfl
theorem Tr_elapsedGt {Q} (s : Int) (l : Timeout) : Tr Q (elapsedGt s l) :=
  Tr_of_silent fun _ _ => by cases l <;> rfl
theorem Tr_emit {Q : TEv → Prop} {e : TEv} (h : Q e) : Tr Q (emit e) :=
  fun _ => ⟨[e], by simpa using h, fun _ => rfl⟩

theorem Tr_modify {Q} {f : World → World}
    (hf : ∀ w tr, f { w with trace := tr } = { f w with trace := tr }) : Tr Q (M.modify f) :=
  Tr_of_silent fun w tr => by
    show (Except.ok (), f { w with trace := tr }) = _
    rw [hf]; rfl

theorem Tr_bind {α β} {Q} {x : M α} {f : α → M β} (hx : Tr Q x) (hf : ∀ a, Tr Q (f a)) : Tr Q (x >>= f) := by
  intro w
  obtain ⟨e1, hq1, h1⟩ := hx w
  cases hxw : x w with
  | mk r w1 =>
    cases r with
    | error e =>
      refine ⟨e1, hq1, fun tr => ?_⟩
      rw [bind_run, h1 tr, bind_run, hxw]
    | ok a =>
      obtain ⟨e2, hq2, h2⟩ := hf a w1
      refine ⟨e2 ++ e1, ?_, fun tr => ?_⟩
      · intro e he
        rcases List.mem_append.1 he with h | h
        · exact hq2 e h
        · exact hq1 e h
      · rw [bind_run, h1 tr, bind_run, hxw]
        simp only []
        rw [h2 (e1 ++ tr)]
        simp

/-- `let w ← get; f w` where `f` does not look at the trace of `w` -/
theorem Tr_get_bind {β} {Q} {f : World → M β} (hf : ∀ w, Tr Q (f w))
    (hi : ∀ w tr, f { w with trace := tr } = f w) : Tr Q (M.get >>= f) := by
  intro w
  obtain ⟨evs, hq, h⟩ := hf w w
  refine ⟨evs, hq, fun tr => ?_⟩
  simp only [bind_run, M.get_run]
  rw [hi w tr]
  exact h tr

theorem Tr_ite {α} {Q} {c : Prop} [Decidable c] {a b : M α} (ha : Tr Q a) (hb : Tr Q b) :
    Tr Q (if c then a else b) := by
  split <;> assumption

theorem Tr_withLock {α} {Q} (l : Nat) {body : M α} (hb : Tr Q body) : Tr Q (withLock l body) := by
  intro w
  by_cases hl : l ∈ w.locks
  · refine ⟨[], by simp, fun tr => ?_⟩
    simp [withLock_run, hl]
  · obtain ⟨evs, hq, h⟩ := hb { w with locks := l :: w.locks }
    refine ⟨evs, hq, fun tr => ?_⟩
    have h' := h tr
    rw [withLock_run, withLock_run]
    simp only [hl, if_false]
    dsimp only at h'
    rw [h']

theorem Tr_swallow {Q} {x : M Unit} (hx : Tr Q x) : Tr Q (M.swallow x) := by
  intro w
  obtain ⟨evs, hq, h⟩ := hx w
  refine ⟨evs, hq, fun tr => ?_⟩
  unfold M.swallow
  rw [h tr]

theorem Tr_tryFinally {α} {Q} {x : M α} {fin : M Unit} (hx : Tr Q x) (hf : Tr Q fin) :
    Tr Q (M.tryFinally x fin) := by
  intro w
  obtain ⟨e1, hq1, h1⟩ := hx w
  cases hxw : x w with
  | mk r w1 =>
    obtain ⟨e2, hq2, h2⟩ := hf w1
    refine ⟨e2 ++ e1, ?_, fun tr => ?_⟩
    · intro e he
      rcases List.mem_append.1 he with h | h
      · exact hq2 e h
      · exact hq1 e h
    · unfold M.tryFinally
      rw [h1 tr, hxw]
      cases r with
      | ok a =>
        simp only []
        rw [h2 (e1 ++ tr)]
        cases hfw : fin w1 with
        | mk r2 w2 => cases r2 <;> simp
      | error e =>
        simp only []
        rw [h2 (e1 ++ tr)]
        cases hfw : fin w1 with
        | mk r2 w2 => cases r2 <;> simp

/-! ### event classes -/

/-- bookkeeping events: everything except `tx`, `deliver`, `cbProgress` -/
def house : TEv → Bool
  | .tx _ => false
  | .deliver _ => false
  | .cbProgress _ _ _ => false
  | _ => true

/-- `Q` accepts every bookkeeping event -/
def House (Q : TEv → Prop) : Prop := ∀ e, house e = true → Q e
/-- `Q` accepts every `deliver` event -/
def Deliv (Q : TEv → Prop) : Prop := ∀ p, Q (.deliver p)
/-- `Q` accepts the transmission of any OKAY message -/
def TxOkay (Q : TEv → Prop) : Prop := ∀ m : Msg, m.cmd = Cmd.OKAY → Q (.tx m)
/-- `Q` accepts every transmission -/
def TxAll (Q : TEv → Prop) : Prop := ∀ m : Msg, Q (.tx m)
/-- `Q` accepts every progress-callback record -/
def Prog (Q : TEv → Prop) : Prop := ∀ p n t, Q (.cbProgress p n t)

theorem Tr_emit_house {Q} {e : TEv} (hQ : House Q) (h : house e = true) : Tr Q (emit e) := Tr_emit (hQ e h)
theorem Tr_emit_deliver {Q} {p : Pkt} (hQ : Deliv Q) : Tr Q (emit (.deliver p)) := Tr_emit (hQ p)
theorem Tr_emit_prog {Q} {p : Bytes} {n t : Nat} (hQ : Prog Q) : Tr Q (emit (.cbProgress p n t)) := Tr_emit (hQ p n t)
theorem Tr_emit_tx {Q} {m : Msg} (hQ : TxAll Q) : Tr Q (emit (.tx m)) := Tr_emit (hQ m)

/-- extensible: one alternative per proved `Tr` lemma -/
syntax "tr_lemma" : tactic
macro_rules | `(tactic| tr_lemma) => `(tactic| with_reducible exact Tr_pure _)
macro_rules | `(tactic| tr_lemma) => `(tactic| with_reducible exact Tr_Mpure _)
macro_rules | `(tactic| tr_lemma) => `(tactic| with_reducible exact Tr_throw _)
macro_rules | `(tactic| tr_lemma) => `(tactic| with_reducible exact Tr_now)
macro_rules | `(tactic| tr_lemma) => `(tactic| with_reducible exact Tr_liftExcept _)
macro_rules | `(tactic| tr_lemma) => `(tactic| with_reducible exact Tr_elapsedGt _ _)
macro_rules | `(tactic| tr_lemma) => `(tactic| with_reducible exact Tr_emit (by assumption))
macro_rules | `(tactic| tr_lemma) => `(tactic| with_reducible exact Tr_emit_house (by assumption) rfl)
macro_rules | `(tactic| tr_lemma) => `(tactic| with_reducible exact Tr_emit_deliver (by assumption))
macro_rules | `(tactic| tr_lemma) => `(tactic| with_reducible exact Tr_emit_prog (by assumption))
macro_rules | `(tactic| tr_lemma) => `(tactic| with_reducible exact Tr_emit_tx (by assumption))

/-- structural decomposition of a `do` block; `trq [ih]` also tries the induction hypothesis `ih` -/
syntax "trq" ("[" term "]")? : tactic
macro_rules
  | `(tactic| trq) => `(tactic| trq [Tr_now])
  | `(tactic| trq [$h]) => `(tactic| first
    | tr_lemma
    | with_reducible assumption
    | with_reducible exact $h
    | with_reducible exact $h _
    | with_reducible exact $h _ _
    | with_reducible exact $h _ _ _
    | ((with_reducible refine Tr_get_bind (fun _ => ?_) ?_); rotate_left; (intro _ _; rfl); trq [$h])
    | (with_reducible apply Tr_bind) <;> (first | (intro _; trq [$h]) | trq [$h])
    | (with_reducible apply Tr_withLock); trq [$h]
    | (with_reducible apply Tr_tryFinally) <;> trq [$h]
    | (with_reducible apply Tr_swallow); trq [$h]
    | (with_reducible apply Tr_modify); intro _ _; rfl
    | (with_reducible apply Tr_ite) <;> trq [$h]
    | (split <;> trq [$h])
    | (dsimp only; trq [$h])
    | (intro _; trq [$h]))

/-! ### the transport and everything above it, bottom-up -/

theorem Tr_waitTimeout {α} {Q} (tt : Timeout) : Tr Q (waitTimeout tt : M α) :=
  Tr_of_silent fun _ _ => by cases tt <;> rfl

theorem Tr_bulkRead {Q} (n : Nat) (tt : Timeout) : Tr Q (bulkRead n tt) := by
  apply Tr_of_silent
  intro w tr
  unfold bulkRead waitTimeout
  dsimp only
  repeat' split
  all_goals rfl

theorem Tr_bulkWrite {Q} (d : Bytes) (tt : Timeout) : Tr Q (bulkWrite d tt) := by
  apply Tr_of_silent
  intro w tr
  unfold bulkWrite waitTimeout
  dsimp only
  repeat' split
  all_goals rfl

macro_rules | `(tactic| tr_lemma) => `(tactic| with_reducible exact Tr_waitTimeout _)
macro_rules | `(tactic| tr_lemma) => `(tactic| with_reducible exact Tr_bulkRead _ _)
macro_rules | `(tactic| tr_lemma) => `(tactic| with_reducible exact Tr_bulkWrite _ _)

section
variable {Q : TEv → Prop}

theorem Tr_readBytesLoop (hQ : House Q) (t : Txn) (start : Int) :
    ∀ fuel rem acc, Tr Q (readBytesLoop t start fuel rem acc) := by
  intro fuel
  induction fuel with
  | zero => intro rem acc; unfold readBytesLoop; trq
  | succ f ih =>
    intro rem acc
    unfold readBytesLoop
    trq [ih]
macro_rules | `(tactic| tr_lemma) => `(tactic| with_reducible exact Tr_readBytesLoop (by assumption) _ _ _ _ _)

theorem Tr_readBytes (hQ : House Q) (n : Nat) (t : Txn) : Tr Q (readBytes n t) := by
  unfold readBytes
  trq
macro_rules | `(tactic| tr_lemma) => `(tactic| with_reducible exact Tr_readBytes (by assumption) _ _)

theorem Tr_readPacket (hQ : House Q) (t : Txn) : Tr Q (readPacket t) := by
  unfold readPacket
  trq
macro_rules | `(tactic| tr_lemma) => `(tactic| with_reducible exact Tr_readPacket (by assumption) _)

theorem Tr_writeAllLoop (t : Txn) (start : Int) : ∀ fuel data, Tr Q (writeAllLoop t start fuel data) := by
  intro fuel
  induction fuel with
  | zero => intro data; unfold writeAllLoop; trq
  | succ f ih =>
    intro data
    unfold writeAllLoop
    trq [ih]
macro_rules | `(tactic| tr_lemma) => `(tactic| with_reducible exact Tr_writeAllLoop _ _ _ _)

theorem Tr_writeAll (d : Bytes) (t : Txn) : Tr Q (writeAll d t) := by
  unfold writeAll
  trq
macro_rules | `(tactic| tr_lemma) => `(tactic| with_reducible exact Tr_writeAll _ _)

theorem Tr_sendRaw {m : Msg} (hm : Q (.tx m)) (t : Txn) : Tr Q (sendRaw m t) := by
  unfold sendRaw
  trq
macro_rules | `(tactic| tr_lemma) => `(tactic| with_reducible exact Tr_sendRaw (by assumption) _)

theorem Tr_ioSend {m : Msg} (hm : Q (.tx m)) (t : Txn) : Tr Q (ioSend m t) := by
  unfold ioSend
  trq
macro_rules | `(tactic| tr_lemma) => `(tactic| with_reducible exact Tr_ioSend (by assumption) _)

theorem Tr_storeFind (t : Txn) (az : Bool) : Tr Q (storeFind t az) := Tr_of_silent fun _ _ => rfl
theorem Tr_storeGet (k : Nat × Nat) : Tr Q (storeGet k) := by
  apply Tr_of_silent
  intro w tr
  unfold storeGet
  dsimp only
  split <;> rfl
theorem Tr_storePut (hQ : House Q) (p : Pkt) : Tr Q (storePut p) := by
  intro w
  refine ⟨[if p.cmd = Cmd.CLSE ∧ w.store.queue p.arg0 p.arg1 = none then TEv.lost p else TEv.park p], ?_, fun tr => rfl⟩
  intro e he
  simp only [List.mem_singleton] at he
  subst he
  split <;> exact hQ _ rfl
theorem Tr_storeClear (a0 a1 : Nat) : Tr Q (storeClear a0 a1) := by
  unfold storeClear; trq
theorem Tr_storeClearAll : Tr Q storeClearAll := by
  unfold storeClearAll; trq
macro_rules | `(tactic| tr_lemma) => `(tactic| with_reducible exact Tr_storeFind _ _)
macro_rules | `(tactic| tr_lemma) => `(tactic| with_reducible exact Tr_storeGet _)
macro_rules | `(tactic| tr_lemma) => `(tactic| with_reducible exact Tr_storePut (by assumption) _)
macro_rules | `(tactic| tr_lemma) => `(tactic| with_reducible exact Tr_storeClear _ _)
macro_rules | `(tactic| tr_lemma) => `(tactic| with_reducible exact Tr_storeClearAll)

theorem Tr_drainLoop (hQ : House Q) (hd : Deliv Q) (ex : List Cmd) (t : Txn) (az : Bool) :
    ∀ fuel, Tr Q (drainLoop ex t az fuel) := by
  intro fuel
  induction fuel with
  | zero => unfold drainLoop; trq
  | succ f ih =>
    unfold drainLoop
    trq [ih]
macro_rules | `(tactic| tr_lemma) => `(tactic| with_reducible exact Tr_drainLoop (by assumption) (by assumption) _ _ _ _)

theorem Tr_readIter (hQ : House Q) (hd : Deliv Q) (ex : List Cmd) (t : Txn) (az : Bool) : Tr Q (readIter ex t az) := by
  unfold readIter
  trq
macro_rules | `(tactic| tr_lemma) => `(tactic| with_reducible exact Tr_readIter (by assumption) (by assumption) _ _ _)

theorem Tr_readLoop (hQ : House Q) (hd : Deliv Q) (ex : List Cmd) (t : Txn) (az : Bool) (start : Int) :
    ∀ fuel, Tr Q (readLoop ex t az start fuel) := by
  intro fuel
  induction fuel with
  | zero => unfold readLoop; trq
  | succ f ih =>
    unfold readLoop
    trq [ih]
macro_rules | `(tactic| tr_lemma) => `(tactic| with_reducible exact Tr_readLoop (by assumption) (by assumption) _ _ _ _ _)

theorem Tr_ioRead (hQ : House Q) (hd : Deliv Q) (ex : List Cmd) (t : Txn) (az : Bool) : Tr Q (ioRead ex t az) := by
  unfold ioRead
  trq
macro_rules | `(tactic| tr_lemma) => `(tactic| with_reducible exact Tr_ioRead (by assumption) (by assumption) _ _ _)

theorem Tr_okay (ho : TxOkay Q) (t : Txn) : Tr Q (okay t) := by
  unfold okay
  exact Tr_ioSend (ho _ rfl) t
macro_rules | `(tactic| tr_lemma) => `(tactic| with_reducible exact Tr_okay (by assumption) _)

/-- `_read_until` hands nothing to `_send` except possibly an OKAY -/
theorem Tr_readUntil (hQ : House Q) (hd : Deliv Q) (ho : TxOkay Q) (ex : List Cmd) (t : Txn) : Tr Q (readUntil ex t) := by
  unfold readUntil
  trq
macro_rules | `(tactic| tr_lemma) => `(tactic| with_reducible exact Tr_readUntil (by assumption) (by assumption) (by assumption) _ _)

theorem Tr_fsFlushLoop (hQ : House Q) (hd : Deliv Q) (ho : TxOkay Q) (t : Txn) : ∀ fuel fi, Tr Q (fsFlushLoop t fuel fi) := by
  intro fuel
  induction fuel with
  | zero => intro fi; unfold fsFlushLoop; trq
  | succ f ih =>
    intro fi
    unfold fsFlushLoop
    trq [ih]
macro_rules | `(tactic| tr_lemma) => `(tactic| with_reducible exact Tr_fsFlushLoop (by assumption) (by assumption) (by assumption) _ _ _)

theorem Tr_fsReadBufferedLoop (hQ : House Q) (hd : Deliv Q) (ho : TxOkay Q) (size : Nat) (t : Txn) :
    ∀ fuel fi, Tr Q (fsReadBufferedLoop size t fuel fi) := by
  intro fuel
  induction fuel with
  | zero => intro fi; unfold fsReadBufferedLoop; trq
  | succ f ih =>
    intro fi
    unfold fsReadBufferedLoop
    trq [ih]
macro_rules | `(tactic| tr_lemma) => `(tactic| with_reducible exact Tr_fsReadBufferedLoop (by assumption) (by assumption) (by assumption) _ _ _ _)

theorem Tr_fsReadBuffered (hQ : House Q) (hd : Deliv Q) (ho : TxOkay Q) (size : Nat) (t : Txn) (fi : FsInfo) :
    Tr Q (fsReadBuffered size t fi) := by
  unfold fsReadBuffered
  trq
macro_rules | `(tactic| tr_lemma) => `(tactic| with_reducible exact Tr_fsReadBuffered (by assumption) (by assumption) (by assumption) _ _ _)

end

/-! ### with every transmission accepted: the whole send side -/

section
variable {Q : TEv → Prop}

theorem TxAll.okay (h : TxAll Q) : TxOkay Q := fun m _ => h m

theorem Tr_fsFlush (hQ : House Q) (hd : Deliv Q) (ht : TxAll Q) (t : Txn) (fi : FsInfo) : Tr Q (fsFlush t fi) := by
  have ho := ht.okay
  have hm := ht ⟨.WRTE, t.localId.getD 0, t.remoteId.getD 0, fi.sendBuf⟩
  unfold fsFlush
  trq
macro_rules | `(tactic| tr_lemma) => `(tactic| with_reducible exact Tr_fsFlush (by assumption) (by assumption) (by assumption) _ _)

theorem Tr_fsSend (hQ : House Q) (hd : Deliv Q) (ht : TxAll Q) (id : SyncId) (t : Txn) (fi : FsInfo) (data : Bytes)
    (size : Option Nat) : Tr Q (fsSend id t fi data size) := by
  unfold fsSend
  trq
macro_rules | `(tactic| tr_lemma) => `(tactic| with_reducible exact Tr_fsSend (by assumption) (by assumption) (by assumption) _ _ _ _ _)

theorem Tr_fsRead (hQ : House Q) (hd : Deliv Q) (ht : TxAll Q) (ex : List SyncId) (t : Txn) (fi : FsInfo) :
    Tr Q (fsRead ex t fi) := by
  have ho := ht.okay
  unfold fsRead
  trq
macro_rules | `(tactic| tr_lemma) => `(tactic| with_reducible exact Tr_fsRead (by assumption) (by assumption) (by assumption) _ _ _)

theorem Tr_pushStatus (hQ : House Q) (hd : Deliv Q) (ht : TxAll Q) (t : Txn) (fi : FsInfo) : Tr Q (pushStatus t fi) := by
  unfold pushStatus
  trq
macro_rules | `(tactic| tr_lemma) => `(tactic| with_reducible exact Tr_pushStatus (by assumption) (by assumption) (by assumption) _ _)

theorem Tr_callProgress (hp : Prog Q) (cb : CbMode) (path : Bytes) (n total : Nat) : Tr Q (callProgress cb path n total) := by
  unfold callProgress
  trq
macro_rules | `(tactic| tr_lemma) => `(tactic| with_reducible exact Tr_callProgress (by assumption) _ _ _ _)

end

/-! ### the concrete event classes used by C07 -/

/-- neither a transmission nor a progress call, except transmissions of OKAY -/
def QOkay : TEv → Prop
  | .tx m => m.cmd = Cmd.OKAY
  | .cbProgress _ _ _ => False
  | _ => True

/-- anything but a progress call -/
def QNoProg : TEv → Prop
  | .cbProgress _ _ _ => False
  | _ => True

theorem QOkay.house : House QOkay := by intro e h; cases e <;> first | trivial | exact Bool.noConfusion h
theorem QOkay.deliv : Deliv QOkay := fun _ => trivial
theorem QOkay.txOkay : TxOkay QOkay := fun _ h => h
theorem QNoProg.house : House QNoProg := by intro e h; cases e <;> first | trivial | exact Bool.noConfusion h
theorem QNoProg.deliv : Deliv QNoProg := fun _ => trivial
theorem QNoProg.txAll : TxAll QNoProg := fun _ => trivial

theorem QOkay.noProg {e : TEv} (h : QOkay e) : QNoProg e := by cases e <;> simp_all [QOkay, QNoProg]

theorem QOkay.transmitted {evs : List TEv} (h : ∀ e ∈ evs, QOkay e) : ∀ m ∈ transmitted evs, m.cmd = Cmd.OKAY :=
  fun _ hm => h _ (mem_transmitted.1 hm)

theorem QNoProg.progressCalls {evs : List TEv} (h : ∀ e ∈ evs, QNoProg e) : progressCalls evs = [] :=
  progressCalls_eq_nil fun _ _ _ hm => h _ hm

theorem QOkay.progressCalls {evs : List TEv} (h : ∀ e ∈ evs, QOkay e) : progressCalls evs = [] :=
  QNoProg.progressCalls fun e he => (h e he).noProg

theorem QOkay.wrtePayloads {evs : List TEv} (h : ∀ e ∈ evs, QOkay e) (l r : Nat) : wrtePayloads l r evs = [] :=
  wrtePayloads_eq_nil (QOkay.transmitted h)

end Adb.Push
