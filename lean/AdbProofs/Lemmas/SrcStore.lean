import AdbModel
import AdbModel.Py
import AdbModel.Generated.Src
import AdbProofs.Lemmas.SrcEnc
import AdbProofs.Lemmas.Assoc
/-
  Encoding of the packet-store model (`Adb.Store`) as `Py.Val` and the lemmas relating the Python-subset
  operations (`Py.*`) on encoded values to the association-list functions of the model. Used by
  `AdbProofs/Properties/C19Src.lean` (generated `_AdbPacketStore` = hand-written `Store`).
-/
namespace Adb
open Py

/-! ### encoders -/

/-- the command id as the `bytes` object the Python code carries (`b'WRTE'` …) -/
def Cmd.bytes (c : Cmd) : Bytes := ascii c.name

/-- a `{int: X}` dict whose keys are the (non-negative) model keys, in the same order -/
def encAL {β : Type} (f : β → Py.Val) (l : List (Nat × β)) : List (Py.Key × Py.Val) :=
  l.map fun kv => (Py.Key.int kv.1, f kv.2)

def encQItem (x : QItem) : Py.Val := .tuple [.bytes x.1.bytes, .bytes x.2]
def encQueue (q : List QItem) : Py.Val := .queue (q.map encQItem)
def encInner (i : Inner) : Py.Val := .dict (encAL encQueue i)
def encDict (s : Store) : Py.Val := .dict (encAL encInner s)
def encStore (cls : String) (s : Store) : Py.Val := .obj cls [("_dict", encDict s)]
def encOptKey : Option (Nat × Nat) → Py.Val
  | none => .none
  | some (a, b) => .tuple [.int a, .int b]

/-- the encoders written out (the form given in the task statement) -/
theorem encInner_def (i : Inner) : encInner i = .dict (i.map fun kq => (Py.Key.int kq.1, encQueue kq.2)) := rfl
theorem encDict_def (s : Store) : encDict s = .dict (s.map fun ki => (Py.Key.int ki.1, encInner ki.2)) := rfl

/-- `dict.items()` / `dict.values()` of an encoded dict -/
def itemsAL {β : Type} (f : β → Py.Val) (l : List (Nat × β)) : List Py.Val :=
  l.map fun kv => .tuple [.int kv.1, f kv.2]
def valuesAL {β : Type} (f : β → Py.Val) (l : List (Nat × β)) : List Py.Val :=
  l.map fun kv => f kv.2

/-! ### command bytes -/

theorem Cmd.bytes_eq_CLSE (c : Cmd) : c.bytes = ascii "CLSE" ↔ c = .CLSE := by
  cases c <;> decide

theorem Cmd.bytes_beq_CLSE (c : Cmd) : (c.bytes == ([67, 76, 83, 69] : List UInt8)) = decide (c = .CLSE) := by
  cases c <;> decide

/-! ### association lists vs. Python dict primitives -/

section AL
variable {β : Type} (f : β → Py.Val)

theorem dlookup_encAL (k : Nat) (l : List (Nat × β)) :
    Py.dlookup (.int k) (encAL f l) = (alookup k l).map f := by
  induction l with
  | nil => simp [encAL, Py.dlookup, alookup]
  | cons p rest ih =>
    obtain ⟨k', v'⟩ := p
    simp only [encAL, List.map_cons] at ih ⊢
    by_cases h : k' = k
    · subst h; simp [Py.dlookup, alookup]
    · have hc : ¬ ((k' : Int) = (k : Int)) := by omega
      simp [Py.dlookup, alookup, h, hc, ih]

theorem dset_encAL (k : Nat) (v : β) (l : List (Nat × β)) :
    Py.dset (.int k) (f v) (encAL f l) = encAL f (aset k v l) := by
  induction l with
  | nil => simp [encAL, Py.dset, aset]
  | cons p rest ih =>
    obtain ⟨k', v'⟩ := p
    simp only [encAL, List.map_cons] at ih ⊢
    by_cases h : k' = k
    · subst h; simp [Py.dset, aset]
    · have hc : ¬ ((k' : Int) = (k : Int)) := by omega
      simp [Py.dset, aset, h, hc, ih]

theorem ddel_encAL (k : Nat) (l : List (Nat × β)) :
    Py.ddel (.int k) (encAL f l) = encAL f (adel k l) := by
  induction l with
  | nil => simp [encAL, Py.ddel, adel]
  | cons p rest ih =>
    obtain ⟨k', v'⟩ := p
    simp only [encAL, List.map_cons] at ih ⊢
    by_cases h : k' = k
    · subst h; simp [Py.ddel, adel]
    · have hc : ¬ ((k' : Int) = (k : Int)) := by omega
      simp [Py.ddel, adel, h, hc, ih]

theorem encAL_isEmpty (l : List (Nat × β)) : (encAL f l).isEmpty = l.isEmpty := by
  cases l <;> simp [encAL]

theorem items_encAL (l : List (Nat × β)) : Py.items (.dict (encAL f l)) = .ok (itemsAL f l) := by
  simp [Py.items, encAL, itemsAL, Py.Key.toVal, pure, Except.pure, Function.comp_def]

theorem values_encAL (l : List (Nat × β)) : Py.values (.dict (encAL f l)) = .ok (valuesAL f l) := by
  simp [Py.values, encAL, valuesAL, pure, Except.pure, Function.comp_def]

theorem contains_encAL (k : Nat) (l : List (Nat × β)) :
    Py.contains (.dict (encAL f l)) (.int k) = .ok (alookup k l).isSome := by
  simp [Py.contains, Py.toKey, dlookup_encAL, bind, Except.bind, pure, Except.pure]

theorem getItem_encAL (k : Nat) (l : List (Nat × β)) :
    Py.getItem (.dict (encAL f l)) (.int k) =
      match alookup k l with
      | some v => .ok (f v)
      | none => .error .keyError := by
  simp only [Py.getItem, Py.toKey, bind, Except.bind, pure, Except.pure, dlookup_encAL]
  cases alookup k l <;> rfl

/-- a `next((… for k, v in d.items() …), default)` loop over an encoded dict whose body is a total function
    of the model-level entry -/
theorem firstM_itemsAL (l : List (Nat × β)) (g : Py.Val → Py.M (Option Py.Val)) (h : Nat → β → Option Py.Val)
    (H : ∀ k v, g (.tuple [.int (k : Nat), f v]) = .ok (h k v)) :
    Py.firstM (itemsAL f l) g = .ok (l.findSome? fun kv => h kv.1 kv.2) := by
  induction l with
  | nil => simp [itemsAL, Py.firstM, pure, Except.pure]
  | cons p rest ih =>
    simp only [itemsAL, List.map_cons] at ih ⊢
    simp only [Py.firstM, H, bind, Except.bind, List.findSome?_cons]
    cases h p.1 p.2 with
    | none => simpa using ih
    | some v => simp [pure, Except.pure]

/-- a comprehension over `d.values()` of an encoded dict whose body is a total function of the model-level value -/
theorem flatMapM_valuesAL (l : List (Nat × β)) (g : Py.Val → Py.M (List Py.Val)) (h : β → List Py.Val)
    (H : ∀ v, g (f v) = .ok (h v)) :
    Py.flatMapM (valuesAL f l) g = .ok (l.flatMap fun kv => h kv.2) := by
  induction l with
  | nil => simp [valuesAL, Py.flatMapM, pure, Except.pure]
  | cons p rest ih =>
    simp only [valuesAL, List.map_cons] at ih ⊢
    simp [Py.flatMapM, H, ih, bind, Except.bind, pure, Except.pure]

theorem aset_aset_self (k : Nat) (v w : β) (l : List (Nat × β)) : aset k v (aset k w l) = aset k v l := by
  induction l with
  | nil => simp [aset]
  | cons p rest ih =>
    obtain ⟨k', v'⟩ := p
    by_cases h : k' = k <;> simp [aset, h, ih]

theorem adel_aset_self (k : Nat) (v : β) (l : List (Nat × β)) : adel k (aset k v l) = adel k l := by
  induction l with
  | nil => simp [aset, adel]
  | cons p rest ih =>
    obtain ⟨k', v'⟩ := p
    by_cases h : k' = k <;> simp [aset, adel, h, ih]

end AL

/-! ### truth values of scalars and tuples -/

@[simp] theorem truthy_bool (b : Bool) : Py.truthy (.bool b) = .ok b := rfl
@[simp] theorem truthy_none : Py.truthy .none = .ok false := rfl
@[simp] theorem truthy_tuple (l : List Py.Val) : Py.truthy (.tuple l) = .ok (!l.isEmpty) := rfl
@[simp] theorem truthy_encOptKey (o : Option (Nat × Nat)) : Py.truthy (encOptKey o) = .ok o.isSome := by
  cases o <;> rfl

/-! ### queues -/

theorem queue_nil_enc : Py.Val.queue [] = encQueue [] := rfl

@[simp] theorem queueEmpty_enc (q : List QItem) : Py.queueEmpty (encQueue q) = .ok (.bool q.isEmpty) := by
  cases q <;> simp [Py.queueEmpty, encQueue, pure, Except.pure]

@[simp] theorem queuePut_enc (q : List QItem) (c : Cmd) (d : Bytes) :
    Py.queuePut (encQueue q) (.tuple [.bytes c.bytes, .bytes d]) = .ok (encQueue (q ++ [(c, d)])) := by
  simp [Py.queuePut, encQueue, encQItem, pure, Except.pure]

theorem queueGet_enc_nil : Py.queueGet (encQueue []) = .error .queueEmpty := rfl

theorem queueGet_enc_cons (c : Cmd) (d : Bytes) (q : List QItem) :
    Py.queueGet (encQueue ((c, d) :: q)) = .ok (.tuple [.bytes c.bytes, .bytes d], encQueue q) := rfl

/-! ### the inner dict `{arg0: Queue}` -/

@[simp] theorem truthy_encInner (i : Inner) : Py.truthy (encInner i) = .ok (!i.isEmpty) := by
  simp [encInner, Py.truthy, encAL_isEmpty, pure, Except.pure]

@[simp] theorem items_encInner (i : Inner) : Py.items (encInner i) = .ok (itemsAL encQueue i) := items_encAL _ _
@[simp] theorem values_encInner (i : Inner) : Py.values (encInner i) = .ok (valuesAL encQueue i) := values_encAL _ _

@[simp] theorem contains_encInner (i : Inner) (k : Nat) :
    Py.contains (encInner i) (.int k) = .ok (alookup k i).isSome := contains_encAL _ _ _

@[simp] theorem getItem_encInner (i : Inner) (k : Nat) :
    Py.getItem (encInner i) (.int k) =
      match alookup k i with
      | some q => .ok (encQueue q)
      | none => .error .keyError := by
  rw [encInner, getItem_encAL]; cases alookup k i <;> rfl

@[simp] theorem setAcc_encInner (i : Inner) (k : Nat) (q : List QItem) :
    Py.setAcc (encInner i) (.idx (.int k)) (encQueue q) = .ok (encInner (aset k q i)) := by
  simp [Py.setAcc, encInner, Py.toKey, dset_encAL, bind, Except.bind, pure, Except.pure]

@[simp] theorem setAcc_dict_nil (k : Nat) (q : List QItem) :
    Py.setAcc (.dict []) (.idx (.int k)) (encQueue q) = .ok (encInner [(k, q)]) := by
  simp [Py.setAcc, encInner, encAL, Py.toKey, Py.dset, bind, Except.bind, pure, Except.pure]

/-! ### the outer dict `{arg1: {arg0: Queue}}` -/

theorem dict_nil_enc : Py.Val.dict [] = encDict [] := rfl

@[simp] theorem truthy_encDict (s : Store) : Py.truthy (encDict s) = .ok (!s.isEmpty) := by
  simp [encDict, Py.truthy, encAL_isEmpty, pure, Except.pure]

@[simp] theorem items_encDict (s : Store) : Py.items (encDict s) = .ok (itemsAL encInner s) := items_encAL _ _
@[simp] theorem values_encDict (s : Store) : Py.values (encDict s) = .ok (valuesAL encInner s) := values_encAL _ _

@[simp] theorem contains_encDict (s : Store) (k : Nat) :
    Py.contains (encDict s) (.int k) = .ok (alookup k s).isSome := contains_encAL _ _ _

@[simp] theorem getItem_encDict (s : Store) (k : Nat) :
    Py.getItem (encDict s) (.int k) =
      match alookup k s with
      | some i => .ok (encInner i)
      | none => .error .keyError := by
  rw [encDict, getItem_encAL]; cases alookup k s <;> rfl

@[simp] theorem setAcc_encDict (s : Store) (k : Nat) (i : Inner) :
    Py.setAcc (encDict s) (.idx (.int k)) (encInner i) = .ok (encDict (aset k i s)) := by
  simp [Py.setAcc, encDict, Py.toKey, dset_encAL, bind, Except.bind, pure, Except.pure]

/-! ### the store object -/

@[simp] theorem getAttr_encStore (cls : String) (s : Store) : Py.getAttr (encStore cls s) "_dict" = .ok (encDict s) := by
  simp [encStore, Py.getAttr, Py.alookupS, pure, Except.pure]

@[simp] theorem setAttr_encStore (cls : String) (s s' : Store) :
    Py.setAttr (encStore cls s) "_dict" (encDict s') = .ok (encStore cls s') := by
  simp [encStore, Py.setAttr, Py.asetS, pure, Except.pure]

@[simp] theorem setPath_dict_encStore (cls : String) (s s' : Store) :
    Py.setPath (encStore cls s) [.attr "_dict"] (encDict s') = .ok (encStore cls s') := by
  simp [Py.setPath, Py.setAcc]

@[simp] theorem setPath_dict_newObj (cls : String) (s' : Store) :
    Py.setPath (.obj cls []) [.attr "_dict"] (encDict s') = .ok (encStore cls s') := by
  simp [Py.setPath, Py.setAcc, Py.setAttr, Py.asetS, encStore, pure, Except.pure]

/-- `self._dict[y][x]` -/
@[simp] theorem getPath2_encStore (cls : String) (s : Store) (x y : Nat) :
    Py.getPath (encStore cls s) [.attr "_dict", .idx (.int y), .idx (.int x)] =
      match alookup y s with
      | none => .error .keyError
      | some inner =>
        match alookup x inner with
        | none => .error .keyError
        | some q => .ok (encQueue q) := by
  simp only [Py.getPath, Py.getAcc, getAttr_encStore, getItem_encDict, bind, Except.bind]
  cases alookup y s with
  | none => rfl
  | some inner =>
    simp only [getItem_encInner]
    cases alookup x inner <;> rfl

/-- `self._dict[y][x] = <queue>` -/
@[simp] theorem setPath2_encStore (cls : String) (s : Store) (x y : Nat) (q : List QItem) :
    Py.setPath (encStore cls s) [.attr "_dict", .idx (.int y), .idx (.int x)] (encQueue q) =
      match alookup y s with
      | none => .error .keyError
      | some inner => .ok (encStore cls (aset y (aset x q inner) s)) := by
  simp only [Py.setPath, Py.getAcc, getAttr_encStore, getItem_encDict, bind, Except.bind]
  cases alookup y s with
  | none => rfl
  | some inner =>
    simp only [setAcc_encInner, setAcc_encDict]
    simp [Py.setAcc]

/-- `self._dict[y] = <inner dict>` -/
@[simp] theorem setPath1_encStore (cls : String) (s : Store) (y : Nat) (i : Inner) :
    Py.setPath (encStore cls s) [.attr "_dict", .idx (.int y)] (encInner i) = .ok (encStore cls (aset y i s)) := by
  simp only [Py.setPath, Py.getAcc, getAttr_encStore, bind, Except.bind, setAcc_encDict]
  simp [Py.setAcc]

theorem delPath_encInner (i : Inner) (x : Nat) :
    Py.delPath (encInner i) [.idx (.int x)] =
      if (alookup x i).isSome then .ok (encInner (adel x i)) else .error .keyError := by
  simp only [Py.delPath, encInner, Py.toKey, pure, Except.pure, bind, Except.bind, dlookup_encAL, ddel_encAL]
  cases alookup x i <;> simp [throw, throwThe, MonadExceptOf.throw]

theorem delPath_encDict (s : Store) (y : Nat) :
    Py.delPath (encDict s) [.idx (.int y)] =
      if (alookup y s).isSome then .ok (encDict (adel y s)) else .error .keyError := by
  simp only [Py.delPath, encDict, Py.toKey, pure, Except.pure, bind, Except.bind, dlookup_encAL, ddel_encAL]
  cases alookup y s <;> simp [throw, throwThe, MonadExceptOf.throw]

theorem delPath_cons (root : Py.Val) (a b : Py.Acc) (rest : List Py.Acc) :
    Py.delPath root (a :: b :: rest) = (do
      let inner ← Py.getAcc root a
      let inner' ← Py.delPath inner (b :: rest)
      Py.setAcc root a inner') := by
  cases a <;> rfl

/-- `del self._dict[y][x]` -/
@[simp] theorem delPath2_encStore (cls : String) (s : Store) (x y : Nat) :
    Py.delPath (encStore cls s) [.attr "_dict", .idx (.int y), .idx (.int x)] =
      match alookup y s with
      | none => .error .keyError
      | some inner =>
        match alookup x inner with
        | none => .error .keyError
        | some _ => .ok (encStore cls (aset y (adel x inner) s)) := by
  rw [delPath_cons]
  simp only [Py.getAcc, getAttr_encStore, bind, Except.bind]
  rw [delPath_cons]
  simp only [Py.getAcc, getItem_encDict, bind, Except.bind]
  cases alookup y s with
  | none => rfl
  | some inner =>
    simp only [delPath_encInner]
    cases alookup x inner with
    | none => rfl
    | some q =>
      simp only [Option.isSome_some, if_true, setAcc_encDict]
      simp [Py.setAcc]

/-- `del self._dict[y]` -/
@[simp] theorem delPath1_encStore (cls : String) (s : Store) (y : Nat) :
    Py.delPath (encStore cls s) [.attr "_dict", .idx (.int y)] =
      if (alookup y s).isSome then .ok (encStore cls (adel y s)) else .error .keyError := by
  rw [delPath_cons]
  simp only [Py.getAcc, getAttr_encStore, bind, Except.bind, delPath_encDict]
  cases alookup y s <;> simp [Py.setAcc]

/-! ### the two loop shapes of `find`, and `__len__` -/

theorem findSome_inner (p : Nat → Bool) (F : Nat → Py.Val) (inner : Inner) :
    (inner.findSome? fun kq => if p kq.1 && !kq.2.isEmpty then some (F kq.1) else none)
      = (Store.firstNonEmptyInner p inner).map F := by
  induction inner with
  | nil => simp [Store.firstNonEmptyInner]
  | cons kq rest ih =>
    obtain ⟨k, q⟩ := kq
    simp only [List.findSome?_cons, Store.firstNonEmptyInner]
    by_cases h : (p k && !q.isEmpty) = true
    · simp [h]
    · simp only [h]; exact ih

theorem findSome_outer (p : Nat → Bool) (F : Nat → Nat → Py.Val) (s : Store) :
    (s.findSome? fun ki => (Store.firstNonEmptyInner p ki.2).map (fun k0 => F k0 ki.1))
      = (Store.firstNonEmpty p s).map (fun k => F k.1 k.2) := by
  induction s with
  | nil => simp [Store.firstNonEmpty]
  | cons ki rest ih =>
    obtain ⟨k, i⟩ := ki
    simp only [List.findSome?_cons, Store.firstNonEmpty]
    cases Store.firstNonEmptyInner p i with
    | none => simpa using ih
    | some k0 => simp

/-- inner loop of `find`: `next(((key0, …) for key0, val0 in inner.items() if p key0 and not val0.empty()), None)` -/
theorem firstM_inner (p : Nat → Bool) (F : Nat → Py.Val) (i : Inner) (g : Py.Val → Py.M (Option Py.Val))
    (H : ∀ (k0 : Nat) (q : List QItem),
      g (.tuple [.int (k0 : Nat), encQueue q]) = .ok (if p k0 && !q.isEmpty then some (F k0) else none)) :
    Py.firstM (itemsAL encQueue i) g = .ok ((Store.firstNonEmptyInner p i).map F) := by
  rw [firstM_itemsAL encQueue i g (fun k0 q => if p k0 && !q.isEmpty then some (F k0) else none) H]
  exact congrArg Except.ok (findSome_inner p F i)

/-- outer loop of `find` over `self._dict.items()` -/
theorem firstM_outer (p : Nat → Bool) (F : Nat → Nat → Py.Val) (s : Store) (g : Py.Val → Py.M (Option Py.Val))
    (H : ∀ (k1 : Nat) (i : Inner),
      g (.tuple [.int (k1 : Nat), encInner i]) = .ok ((Store.firstNonEmptyInner p i).map (fun k0 => F k0 k1))) :
    Py.firstM (itemsAL encInner s) g = .ok ((Store.firstNonEmpty p s).map (fun k => F k.1 k.2)) := by
  rw [firstM_itemsAL encInner s g (fun k1 i => (Store.firstNonEmptyInner p i).map (fun k0 => F k0 k1)) H]
  exact congrArg Except.ok (findSome_outer p F s)

/-- the `(key0, key1)` tuple `find` returns -/
def pairV (k0 k1 : Nat) : Py.Val := .tuple [.int k0, .int k1]

theorem encOptKey_map_pairV (o : Option (Nat × Nat)) :
    (o.map fun k => pairV k.1 k.2).getD .none = encOptKey o := by
  cases o <;> simp [encOptKey, pairV]

theorem encOptKey_map (o : Option (Nat × Nat)) :
    (o.map fun k => Py.Val.tuple [.int k.1, .int k.2]).getD .none = encOptKey o := by
  cases o <;> simp [encOptKey]

theorem sumInts_append (a b : List Py.Val) (x y : Int) (ha : Py.sumInts a = .ok x) (hb : Py.sumInts b = .ok y) :
    Py.sumInts (a ++ b) = .ok (x + y) := by
  induction a generalizing x with
  | nil =>
    simp [Py.sumInts, pure, Except.pure] at ha
    subst ha; simpa using hb
  | cons v vs ih =>
    simp only [Py.sumInts, bind, Except.bind, List.cons_append] at ha ⊢
    cases hv : Py.asInt v with
    | error e => simp [hv] at ha
    | ok n =>
      simp only [hv] at ha ⊢
      cases hs : Py.sumInts vs with
      | error e => simp [hs] at ha
      | ok m =>
        simp only [hs, pure, Except.pure, Except.ok.injEq] at ha
        simp [ih m hs, pure, Except.pure, ← ha, Int.add_assoc]

theorem sumInts_inner (i : Inner) :
    Py.sumInts (i.flatMap fun kq => [Py.Val.bool (!kq.2.isEmpty)])
      = .ok ((i.filter (fun (_, q) => !q.isEmpty)).length : Nat) := by
  induction i with
  | nil => simp [Py.sumInts, pure, Except.pure]
  | cons kq rest ih =>
    obtain ⟨k, q⟩ := kq
    simp only [List.flatMap_cons, List.singleton_append, Py.sumInts, Py.asInt, ih, bind, Except.bind, pure, Except.pure]
    cases q <;> simp <;> omega

theorem sumInts_len (s : Store) :
    Py.sumInts (s.flatMap fun ki => ki.2.flatMap fun kq => [Py.Val.bool (!kq.2.isEmpty)])
      = .ok (Store.len s : Nat) := by
  induction s with
  | nil => simp [Py.sumInts, Store.len, pure, Except.pure]
  | cons ki rest ih =>
    obtain ⟨k, i⟩ := ki
    simp only [List.flatMap_cons]
    rw [sumInts_append _ _ _ _ (sumInts_inner i) ih]
    simp [Store.len]

/-! ### proof script for `get` -/

set_option hygiene false in
/-- `src_get_tail x y hclear`: closes the goal of `C19_src_get` once the key `(x, y)` is known (the part of `get` after the
    optional wildcard `find`, which the source has twice). `hclear` is the refinement theorem of `clear`; the store
    variable must be called `s`. Case analysis on `alookup y s`, `alookup x inner`, the queue and `cmd = CLSE`. -/
macro "src_get_tail" x:ident y:ident hclear:term : tactic => `(tactic| (
  cases h1 : alookup $y s with
  | none => simp [h1]
  | some inner =>
    cases h0 : alookup $x inner with
    | none => simp [h1, h0]
    | some q =>
      cases q with
      | nil => simp [h1, h0, queueGet_enc_nil]
      | cons it q =>
        obtain ⟨cmd, data⟩ := it
        by_cases hc : cmd = .CLSE
        · simp [h1, h0, hc, queueGet_enc_cons, Py.unpackN, Py.nth, Py.eqV, Py.eq, Cmd.bytes_beq_CLSE, $hclear:term,
            bind, Except.bind, pure, Except.pure]
        · simp [h1, h0, hc, queueGet_enc_cons, Py.unpackN, Py.nth, Py.eqV, Py.eq, Cmd.bytes_beq_CLSE, $hclear:term,
            bind, Except.bind, pure, Except.pure]))

end Adb
