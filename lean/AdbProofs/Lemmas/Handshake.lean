import AdbProofs.Lemmas.FrameOps2
/-
  Trace specifications for the CNXN/AUTH handshake (`sendRaw`, `expectPacket`, `authLoop`,
  `ioConnect`).  The world's trace is stored most recent first; `vis` turns the events a computation
  added into the chronological list of VISIBLE events (everything except `req` = a bulk_read was
  issued, and `skip` = `_read_expected_packet_from_device` discarded a packet it was not waiting for).
  `Sp x S` says: in every world `x` only prepends events, and its result and visible events satisfy `S`.
-/
namespace Adb
namespace HS

/-! ### Projections of a list of new events -/

/-- events that carry no handshake information -/
def quiet : TEv → Bool
  | .req _ _ => true
  | .skip _ => true
  | _ => false

/-- visible events, oldest first (argument: newest first, as stored in `World.trace`) -/
def vis (evs : List TEv) : List TEv := (evs.filter (fun e => !quiet e)).reverse

def isDeliver : TEv → Option Pkt
  | .deliver p => some p
  | _ => none

def isTx : TEv → Option Msg
  | .tx m => some m
  | _ => none

/-- packets handed to the caller, oldest first -/
def delivered (evs : List TEv) : List Pkt := evs.reverse.filterMap isDeliver
/-- messages given to `_send`, oldest first -/
def transmitted (evs : List TEv) : List Msg := evs.reverse.filterMap isTx
/-- number of invocations of the auth callback -/
def callbacks (evs : List TEv) : Nat := (evs.filter (· == .cbAuth)).length
/-- number of `transport.close()` calls -/
def closes (evs : List TEv) : Nat := (evs.filter (· == .tclose)).length

/-- the same projections on a chronological list -/
def dlv (vs : List TEv) : List Pkt := vs.filterMap isDeliver
def trn (vs : List TEv) : List Msg := vs.filterMap isTx
def cbs (vs : List TEv) : Nat := (vs.filter (· == .cbAuth)).length
def cls (vs : List TEv) : Nat := (vs.filter (· == .tclose)).length

@[simp] theorem vis_nil : vis [] = [] := rfl
theorem vis_append (a b : List TEv) : vis (a ++ b) = vis b ++ vis a := by simp [vis]
theorem vis_cons_quiet {e : TEv} (h : quiet e = true) (evs : List TEv) : vis (e :: evs) = vis evs := by
  simp [vis, h]
theorem vis_cons_loud {e : TEv} (h : quiet e = false) (evs : List TEv) : vis (e :: evs) = vis evs ++ [e] := by
  simp [vis, h]

theorem delivered_eq (evs : List TEv) : delivered evs = dlv (vis evs) := by
  simp only [delivered, dlv, vis, ← List.filter_reverse, List.filterMap_filter]
  congr 1
  funext e
  cases e <;> simp [isDeliver, quiet]

theorem transmitted_eq (evs : List TEv) : transmitted evs = trn (vis evs) := by
  simp only [transmitted, trn, vis, ← List.filter_reverse, List.filterMap_filter]
  congr 1
  funext e
  cases e <;> simp [isTx, quiet]

theorem callbacks_eq (evs : List TEv) : callbacks evs = cbs (vis evs) := by
  simp only [callbacks, cbs, vis, List.filter_reverse, List.length_reverse, List.filter_filter]
  congr 2
  funext e
  cases e <;> simp [quiet]

theorem closes_eq (evs : List TEv) : closes evs = cls (vis evs) := by
  simp only [closes, cls, vis, List.filter_reverse, List.length_reverse, List.filter_filter]
  congr 2
  funext e
  cases e <;> simp [quiet]

@[simp] theorem dlv_nil : dlv [] = [] := rfl
@[simp] theorem trn_nil : trn [] = [] := rfl
@[simp] theorem cbs_nil : cbs [] = 0 := rfl
@[simp] theorem cls_nil : cls [] = 0 := rfl
@[simp] theorem dlv_append (a b : List TEv) : dlv (a ++ b) = dlv a ++ dlv b := by simp [dlv]
@[simp] theorem trn_append (a b : List TEv) : trn (a ++ b) = trn a ++ trn b := by simp [trn]
@[simp] theorem cbs_append (a b : List TEv) : cbs (a ++ b) = cbs a + cbs b := by simp [cbs]
@[simp] theorem cls_append (a b : List TEv) : cls (a ++ b) = cls a + cls b := by simp [cls]
@[simp] theorem dlv_tx (m : Msg) (vs : List TEv) : dlv (.tx m :: vs) = dlv vs := rfl
@[simp] theorem dlv_deliver (p : Pkt) (vs : List TEv) : dlv (.deliver p :: vs) = p :: dlv vs := rfl
@[simp] theorem dlv_tclose (vs : List TEv) : dlv (.tclose :: vs) = dlv vs := rfl
@[simp] theorem dlv_tconnect (vs : List TEv) : dlv (.tconnect :: vs) = dlv vs := rfl
@[simp] theorem dlv_cbAuth (vs : List TEv) : dlv (.cbAuth :: vs) = dlv vs := rfl
@[simp] theorem trn_tx (m : Msg) (vs : List TEv) : trn (.tx m :: vs) = m :: trn vs := rfl
@[simp] theorem trn_deliver (p : Pkt) (vs : List TEv) : trn (.deliver p :: vs) = trn vs := rfl
@[simp] theorem trn_tclose (vs : List TEv) : trn (.tclose :: vs) = trn vs := rfl
@[simp] theorem trn_tconnect (vs : List TEv) : trn (.tconnect :: vs) = trn vs := rfl
@[simp] theorem trn_cbAuth (vs : List TEv) : trn (.cbAuth :: vs) = trn vs := rfl
@[simp] theorem cbs_tx (m : Msg) (vs : List TEv) : cbs (.tx m :: vs) = cbs vs := by simp [cbs]
@[simp] theorem cbs_deliver (p : Pkt) (vs : List TEv) : cbs (.deliver p :: vs) = cbs vs := by simp [cbs]
@[simp] theorem cbs_tclose (vs : List TEv) : cbs (.tclose :: vs) = cbs vs := by simp [cbs]
@[simp] theorem cbs_tconnect (vs : List TEv) : cbs (.tconnect :: vs) = cbs vs := by simp [cbs]
@[simp] theorem cbs_cbAuth (vs : List TEv) : cbs (.cbAuth :: vs) = cbs vs + 1 := by simp [cbs]
@[simp] theorem cls_tx (m : Msg) (vs : List TEv) : cls (.tx m :: vs) = cls vs := by simp [cls]
@[simp] theorem cls_deliver (p : Pkt) (vs : List TEv) : cls (.deliver p :: vs) = cls vs := by simp [cls]
@[simp] theorem cls_tclose (vs : List TEv) : cls (.tclose :: vs) = cls vs + 1 := by simp [cls]
@[simp] theorem cls_tconnect (vs : List TEv) : cls (.tconnect :: vs) = cls vs := by simp [cls]
@[simp] theorem cls_cbAuth (vs : List TEv) : cls (.cbAuth :: vs) = cls vs := by simp [cls]

/-! ### Specifications over (result, visible events) -/

/-- in every world, `x` only prepends events to the trace, and its result together with the visible
    new events (oldest first) satisfies `S` -/
def Sp {α : Type} (x : M α) (S : Except Err α → List TEv → Prop) : Prop :=
  ∀ w, ∃ evs, (x w).2.trace = evs ++ w.trace ∧ S (x w).1 (vis evs)

theorem Sp.mono {α} {x : M α} {S S' : Except Err α → List TEv → Prop} (h : Sp x S)
    (hs : ∀ r vs, S r vs → S' r vs) : Sp x S' := by
  intro w
  obtain ⟨evs, h1, h2⟩ := h w
  exact ⟨evs, h1, hs _ _ h2⟩

/-- the events added by a run are determined by the two traces -/
theorem Sp.elim {α} {x : M α} {S : Except Err α → List TEv → Prop} (h : Sp x S) {w w' : World}
    {r : Except Err α} (hr : x w = (r, w')) {evs : List TEv} (he : w'.trace = evs ++ w.trace) : S r (vis evs) := by
  obtain ⟨evs', h1, h2⟩ := h w
  rw [hr] at h1 h2
  simp only at h1 h2
  rw [he] at h1
  have := List.append_cancel_right h1
  subst this
  exact h2

theorem Sp_pure {α} (a : α) : Sp (pure a : M α) (fun r vs => r = .ok a ∧ vs = []) :=
  fun _ => ⟨[], rfl, rfl, rfl⟩

theorem Sp_throw {α} (e : Err) : Sp (M.throw e : M α) (fun r vs => r = .error e ∧ vs = []) :=
  fun _ => ⟨[], rfl, rfl, rfl⟩

theorem Sp_emit (e : TEv) : Sp (emit e) (fun r vs => r = .ok () ∧ vs = vis [e]) :=
  fun _ => ⟨[e], rfl, rfl, rfl⟩

theorem Sp_bind {α β} {x : M α} {f : α → M β} {S1 : Except Err α → List TEv → Prop}
    {S2 : α → Except Err β → List TEv → Prop} (hx : Sp x S1) (hf : ∀ a, Sp (f a) (S2 a)) :
    Sp (x >>= f) (fun r vs => (∃ e, r = .error e ∧ S1 (.error e) vs) ∨
      (∃ a v1 v2, vs = v1 ++ v2 ∧ S1 (.ok a) v1 ∧ S2 a r v2)) := by
  intro w
  rw [bind_run]
  obtain ⟨e1, h1, s1⟩ := hx w
  split
  · next a w' hxw =>
    rw [hxw] at h1 s1
    obtain ⟨e2, h2, s2⟩ := hf a w'
    refine ⟨e2 ++ e1, ?_, Or.inr ⟨a, vis e1, vis e2, vis_append _ _, s1, s2⟩⟩
    simp only at h1
    rw [h2, h1, List.append_assoc]
  · next e w' hxw =>
    rw [hxw] at h1 s1
    exact ⟨e1, h1, Or.inl ⟨e, rfl, s1⟩⟩

/-- `x` adds no visible event -/
def Qt {α : Type} (x : M α) : Prop := Sp x (fun _ vs => vs = [])

theorem Qt_pure {α} (a : α) : Qt (pure a : M α) := fun _ => ⟨[], rfl, rfl⟩
theorem Qt_Mpure {α} (a : α) : Qt (M.pure a : M α) := fun _ => ⟨[], rfl, rfl⟩
theorem Qt_throw {α} (e : Err) : Qt (M.throw e : M α) := fun _ => ⟨[], rfl, rfl⟩
theorem Qt_get : Qt M.get := fun _ => ⟨[], rfl, rfl⟩
theorem Qt_now : Qt now := fun _ => ⟨[], rfl, rfl⟩
theorem Qt_emit_req (n r : Nat) : Qt (emit (.req n r)) := fun _ => ⟨[.req n r], rfl, rfl⟩
theorem Qt_emit_skip (p : Pkt) : Qt (emit (.skip p)) := fun _ => ⟨[.skip p], rfl, rfl⟩
theorem Qt_elapsedGt (s : Int) (l : Timeout) : Qt (elapsedGt s l) := by
  intro w; unfold elapsedGt; cases l <;> exact ⟨[], rfl, rfl⟩

theorem Qt_bind {α β} {x : M α} {f : α → M β} (hx : Qt x) (hf : ∀ a, Qt (f a)) : Qt (x >>= f) := by
  refine (Sp_bind hx hf).mono ?_
  rintro r vs (⟨e, _, h⟩ | ⟨a, v1, v2, h, h1, h2⟩)
  · exact h
  · simp [h, h1, h2]

theorem Qt_ite {α} {c : Prop} [Decidable c] {a b : M α} (ha : Qt a) (hb : Qt b) : Qt (if c then a else b) := by
  split <;> assumption

/-- a computation that leaves the trace alone is quiet -/
theorem Qt_of_trace {α} {x : M α} (h : ∀ w, (x w).2.trace = w.trace) : Qt x :=
  fun w => ⟨[], by simp [h w], rfl⟩

theorem waitTimeout_trace {α} (tt : Timeout) (w : World) : ((waitTimeout tt : M α) w).2.trace = w.trace := by
  unfold waitTimeout; cases tt <;> rfl

theorem bulkRead_trace (n : Nat) (tt : Timeout) (w : World) : (bulkRead n tt w).2.trace = w.trace := by
  unfold bulkRead
  repeat' split
  all_goals first | rfl | exact waitTimeout_trace tt _

theorem bulkWrite_trace (d : Bytes) (tt : Timeout) (w : World) : (bulkWrite d tt w).2.trace = w.trace := by
  unfold bulkWrite
  repeat' split
  all_goals first | rfl | exact waitTimeout_trace tt _

theorem Qt_bulkRead (n : Nat) (tt : Timeout) : Qt (bulkRead n tt) := Qt_of_trace (bulkRead_trace n tt)
theorem Qt_bulkWrite (d : Bytes) (tt : Timeout) : Qt (bulkWrite d tt) := Qt_of_trace (bulkWrite_trace d tt)

/-- extensible: one alternative per proved `Qt` lemma -/
syntax "hs_qt_lemma" : tactic
macro_rules | `(tactic| hs_qt_lemma) => `(tactic| with_reducible exact Qt_pure _)
macro_rules | `(tactic| hs_qt_lemma) => `(tactic| with_reducible exact Qt_Mpure _)
macro_rules | `(tactic| hs_qt_lemma) => `(tactic| with_reducible exact Qt_throw _)
macro_rules | `(tactic| hs_qt_lemma) => `(tactic| with_reducible exact Qt_get)
macro_rules | `(tactic| hs_qt_lemma) => `(tactic| with_reducible exact Qt_now)
macro_rules | `(tactic| hs_qt_lemma) => `(tactic| with_reducible exact Qt_emit_req _ _)
macro_rules | `(tactic| hs_qt_lemma) => `(tactic| with_reducible exact Qt_emit_skip _)
macro_rules | `(tactic| hs_qt_lemma) => `(tactic| with_reducible exact Qt_elapsedGt _ _)
macro_rules | `(tactic| hs_qt_lemma) => `(tactic| with_reducible exact Qt_bulkRead _ _)
macro_rules | `(tactic| hs_qt_lemma) => `(tactic| with_reducible exact Qt_bulkWrite _ _)

/-- structural decomposition of a `do` block (same design as `fr`) -/
syntax "hs_qt" ("[" term "]")? : tactic
macro_rules
  | `(tactic| hs_qt) => `(tactic| hs_qt [Qt_get])
  | `(tactic| hs_qt [$h]) => `(tactic| first
    | hs_qt_lemma
    | with_reducible assumption
    | with_reducible exact $h
    | with_reducible exact $h _
    | with_reducible exact $h _ _
    | with_reducible exact $h _ _ _
    | (with_reducible apply Qt_bind) <;> (first | (intro _; hs_qt [$h]) | hs_qt [$h])
    | (with_reducible apply Qt_ite) <;> hs_qt [$h]
    | (split <;> hs_qt [$h])
    | (dsimp only; hs_qt [$h])
    | (intro _; hs_qt [$h]))

theorem Qt_readBytesLoop (t : Txn) (start : Int) : ∀ fuel rem acc, Qt (readBytesLoop t start fuel rem acc) := by
  intro fuel
  induction fuel with
  | zero => intro rem acc; unfold readBytesLoop; hs_qt
  | succ f ih =>
    intro rem acc
    unfold readBytesLoop
    hs_qt [ih]
macro_rules | `(tactic| hs_qt_lemma) => `(tactic| with_reducible exact Qt_readBytesLoop _ _ _ _ _)

theorem Qt_readBytes (n : Nat) (t : Txn) : Qt (readBytes n t) := by
  unfold readBytes
  hs_qt
macro_rules | `(tactic| hs_qt_lemma) => `(tactic| with_reducible exact Qt_readBytes _ _)

theorem Qt_readPacket (t : Txn) : Qt (readPacket t) := by
  unfold readPacket
  hs_qt
macro_rules | `(tactic| hs_qt_lemma) => `(tactic| with_reducible exact Qt_readPacket _)

theorem Qt_writeAllLoop (t : Txn) (start : Int) : ∀ fuel data, Qt (writeAllLoop t start fuel data) := by
  intro fuel
  induction fuel with
  | zero => intro data; unfold writeAllLoop; hs_qt
  | succ f ih =>
    intro data
    unfold writeAllLoop
    hs_qt [ih]
macro_rules | `(tactic| hs_qt_lemma) => `(tactic| with_reducible exact Qt_writeAllLoop _ _ _ _)

theorem Qt_writeAll (d : Bytes) (t : Txn) : Qt (writeAll d t) := by
  unfold writeAll
  hs_qt
macro_rules | `(tactic| hs_qt_lemma) => `(tactic| with_reducible exact Qt_writeAll _ _)

/-! ### `_send` and `_read_expected_packet_from_device` -/

theorem Sp_true {α} {x : M α} (h : Fr x) : Sp x (fun _ _ => True) := fun w => by
  obtain ⟨evs, he⟩ := (h w).trace
  exact ⟨evs, he, trivial⟩

/-- a quiet first part: the specification of the continuation is the specification of the whole -/
theorem Sp_qt_bind {α β} {x : M α} {f : α → M β} {S : Except Err β → List TEv → Prop}
    (hx : Qt x) (hf : ∀ a, Sp (f a) S) (he : ∀ e, S (.error e) []) : Sp (x >>= f) S := by
  refine (Sp_bind hx hf).mono ?_
  rintro r vs (⟨e, rfl, h⟩ | ⟨a, v1, v2, h, h1, h2⟩)
  · subst h; exact he e
  · subst h1; simpa [h] using h2

/-- `_send(msg)`: whatever happens, the only visible event is `tx msg` -/
theorem Sp_sendRaw (m : Msg) (t : Txn) : Sp (sendRaw m t) (fun _ vs => vs = [.tx m]) := by
  unfold sendRaw
  refine (Sp_bind (Sp_emit _) (S2 := fun _ _ vs => vs = []) ?_).mono ?_
  · intro _
    show Qt _
    hs_qt
  · rintro r vs (⟨e, _, h, _⟩ | ⟨a, v1, v2, rfl, ⟨_, rfl⟩, rfl⟩)
    · cases h
    · rfl

/-- outcome of `_read_expected_packet_from_device(expected)`: a returned packet is the only one
    delivered and its command is expected; an exception delivers nothing -/
def ExpectS (ex : List Cmd) : Except Err Pkt → List TEv → Prop
  | .ok p, vs => vs = [.deliver p] ∧ p.cmd ∈ ex
  | .error _, vs => vs = []

theorem Sp_expectLoop (ex : List Cmd) (t : Txn) (start : Int) : ∀ fuel, Sp (expectLoop ex t start fuel) (ExpectS ex) := by
  intro fuel
  induction fuel with
  | zero =>
    unfold expectLoop
    exact (Sp_throw _).mono (by rintro r vs ⟨rfl, rfl⟩; rfl)
  | succ f ih =>
    unfold expectLoop
    refine Sp_qt_bind (Qt_readPacket t) (fun p => ?_) (fun _ => rfl)
    split
    · next hc =>
      refine (Sp_bind (Sp_emit _) (fun _ => Sp_pure p)).mono ?_
      rintro r vs (⟨e, _, h, _⟩ | ⟨a, v1, v2, rfl, ⟨_, rfl⟩, rfl, rfl⟩)
      · cases h
      · exact ⟨rfl, by simpa using hc⟩
    · refine Sp_qt_bind (Qt_emit_skip p) (fun _ => ?_) (fun _ => rfl)
      refine Sp_qt_bind (Qt_elapsedGt _ _) (fun b => ?_) (fun _ => rfl)
      dsimp only
      split
      · exact Sp_qt_bind (Qt_throw _) (fun _ => ih) (fun _ => rfl)
      · exact ih

theorem Sp_expectPacket (ex : List Cmd) (t : Txn) : Sp (expectPacket ex t) (ExpectS ex) := by
  unfold expectPacket
  refine Sp_qt_bind Qt_now (fun s => ?_) (fun _ => rfl)
  refine Sp_qt_bind Qt_get (fun w => ?_) (fun _ => rfl)
  exact Sp_expectLoop ex t s w.fuel

theorem Sp_tClose : Sp tClose (fun r vs => r = .ok () ∧ vs = [.tclose]) := by
  intro w
  unfold tClose
  split <;> exact ⟨[.tclose], rfl, rfl, rfl⟩

/-! ### The key loop (step 6 of `connect`) -/

/-- the CNXN message that opens the handshake -/
def cnxnMsg (banner : Bytes) : Msg := ⟨.CNXN, Generated.VERSION, Generated.MAX_ADB_DATA, ascii "host::" ++ banner ++ [0]⟩
/-- AUTH(SIGNATURE) carrying key `k`'s signature of `tok` -/
def sigMsg (k : Nat) (tok : Bytes) : Msg := ⟨.AUTH, Generated.AUTH_SIGNATURE, 0, stubSign k tok⟩
/-- AUTH(RSAPUBLICKEY) carrying the first key's public key, NUL-terminated -/
def pubMsg (keys : List Nat) : Msg := ⟨.AUTH, Generated.AUTH_RSAPUBLICKEY, 0, stubPub (keys.headD 0) ++ [0]⟩

/-- Grammar of the visible events of `authLoop t keys last`, with its result: one
    `tx signature, deliver reply` pair per key tried. -/
inductive AuthRun : List Nat → Pkt → Except Err (Option Nat × Pkt) → List TEv → Prop
  /-- no key left: the last challenge is handed back -/
  | exhausted (last : Pkt) : AuthRun [] last (.ok (none, last)) []
  /-- 6.1: the challenge is not a token: close, InvalidResponseError, nothing signed -/
  | notToken (k : Nat) (ks : List Nat) (last : Pkt) (h : last.arg0 ≠ Generated.AUTH_TOKEN) :
      AuthRun (k :: ks) last (.error .invalidResponse) [.tclose]
  /-- the signature was handed to `_send`, and sending it or reading the reply raised -/
  | failed (k : Nat) (ks : List Nat) (last : Pkt) (e : Err) (h : last.arg0 = Generated.AUTH_TOKEN) :
      AuthRun (k :: ks) last (.error e) [.tx (sigMsg k last.data)]
  /-- 6.4: the reply is CNXN: done -/
  | accepted (k : Nat) (ks : List Nat) (last p : Pkt) (h : last.arg0 = Generated.AUTH_TOKEN) (hp : p.cmd = .CNXN) :
      AuthRun (k :: ks) last (.ok (some p.arg1, p)) [.tx (sigMsg k last.data), .deliver p]
  /-- the reply is another AUTH packet: go on with the next key and this new challenge -/
  | rejected (k : Nat) (ks : List Nat) (last p : Pkt) (r : Except Err (Option Nat × Pkt)) (vs : List TEv)
      (h : last.arg0 = Generated.AUTH_TOKEN) (hp : p.cmd = .AUTH) (rest : AuthRun ks p r vs) :
      AuthRun (k :: ks) last r (.tx (sigMsg k last.data) :: .deliver p :: vs)

theorem Sp_authLoop (t : Txn) : ∀ keys last, Sp (authLoop t keys last) (AuthRun keys last) := by
  intro keys
  induction keys with
  | nil =>
    intro last
    unfold authLoop
    exact (Sp_pure _).mono (by rintro r vs ⟨rfl, rfl⟩; exact .exhausted last)
  | cons k ks ih =>
    intro last
    unfold authLoop
    by_cases h : last.arg0 = Generated.AUTH_TOKEN
    · simp only [ne_eq, h, not_true_eq_false, if_false]
      refine (Sp_bind (Sp_sendRaw _ t) (fun _ => Sp_bind (Sp_expectPacket _ t)
        (S2 := fun p r vs => (p.cmd = .CNXN ∧ r = .ok (some p.arg1, p) ∧ vs = []) ∨ (p.cmd ≠ .CNXN ∧ AuthRun ks p r vs))
        (fun p => ?_))).mono ?_
      · split
        · next hc => exact (Sp_pure _).mono (by rintro r vs ⟨rfl, rfl⟩; exact Or.inl ⟨hc, rfl, rfl⟩)
        · next hc => exact (ih p).mono (fun r vs hr => Or.inr ⟨hc, hr⟩)
      · rintro r vs (⟨e, rfl, hs⟩ | ⟨_, v1, v2, rfl, hs, h2⟩)
        · subst hs; exact .failed k ks last e h
        · subst hs
          rcases h2 with ⟨e, rfl, he⟩ | ⟨p, v3, v4, rfl, ⟨rfl, hp⟩, h4⟩
          · have : v2 = [] := he
            subst this
            exact .failed k ks last e h
          · rcases h4 with ⟨hc, rfl, rfl⟩ | ⟨hc, hr⟩
            · exact .accepted k ks last p h hc
            · have hp' : p.cmd = .AUTH := by
                simp only [List.mem_cons, List.not_mem_nil, or_false] at hp
                rcases hp with hp | hp
                · exact absurd hp hc
                · exact hp
              exact .rejected k ks last p r v4 h hp' hr
    · simp only [ne_eq, h, not_false_eq_true, if_true]
      refine (Sp_bind Sp_tClose (fun _ => Sp_bind (Sp_throw (α := PUnit) Err.invalidResponse)
        (S2 := fun _ _ _ => True) (fun _ => Sp_true ?_))).mono ?_
      · fr
      · rintro r vs (⟨e, rfl, he, -⟩ | ⟨_, v1, v2, rfl, ⟨-, rfl⟩, hs⟩)
        · cases he
        · rcases hs with ⟨e', rfl, he, rfl⟩ | ⟨_, v1, v2, -, ⟨he, -⟩, -⟩
          · cases he
            exact .notToken k ks last h
          · cases he

/-! ### `_AdbIOManager.connect` -/

/-- the callback event, if a callback was supplied -/
def cbEv (hasCb : Bool) : List TEv := if hasCb then [.cbAuth] else []

/-- step 7 of `connect`: callback, public key, wait for CNXN with the auth timeout -/
def pubkeyStep (keys : List Nat) (authTimeout : Timeout) (hasCb : Bool) (t : Txn) : M Nat := do
  if hasCb then emit .cbAuth
  sendRaw (pubMsg keys) t
  let p ← expectPacket [.CNXN] { t with tt := authTimeout }
  pure p.arg1

/-- steps 2–7 of `connect` (everything after `transport.connect`) -/
def connTail (banner : Bytes) (keys : List Nat) (authTimeout : Timeout) (hasCb : Bool) (t : Txn) : M Nat := do
  sendRaw (cnxnMsg banner) t
  let p ← expectPacket [.AUTH, .CNXN] t
  if p.cmd ≠ Cmd.AUTH then pure p.arg1 else do
    if keys.isEmpty then do
      tClose
      M.throw .deviceAuth
    match (← authLoop t keys p) with
    | (some maxdata, _) => pure maxdata
    | (none, _) => pubkeyStep keys authTimeout hasCb t

/-- `ioConnect` is: lock, close, clear the store, transport connect, then `connTail`
    (whose last branch is `pubkeyStep`) -/
theorem ioConnect_eq (banner : Bytes) (keys : List Nat) (authT : Timeout) (hasCb : Bool) (t : Txn) :
    ioConnect banner keys authT hasCb t = withLock lockTransport (do
      tClose
      withLock lockStore storeClearAll
      tConnect t.tt
      connTail banner keys authT hasCb t) := rfl

theorem Fr_pubkeyStep (keys : List Nat) (authT : Timeout) (hasCb : Bool) (t : Txn) : Fr (pubkeyStep keys authT hasCb t) := by
  unfold pubkeyStep
  fr

/-- visible events and result of step 7 -/
inductive PubRun (keys : List Nat) (hasCb : Bool) : Except Err Nat → List TEv → Prop
  /-- sending the key or waiting for CNXN raised -/
  | noReply (e : Err) : PubRun keys hasCb (.error e) (cbEv hasCb ++ [.tx (pubMsg keys)])
  /-- the device answered CNXN -/
  | reply (p : Pkt) (hp : p.cmd = .CNXN) : PubRun keys hasCb (.ok p.arg1) (cbEv hasCb ++ [.tx (pubMsg keys), .deliver p])

theorem Sp_pubkeyStep (keys : List Nat) (authT : Timeout) (hasCb : Bool) (t : Txn) :
    Sp (pubkeyStep keys authT hasCb t) (PubRun keys hasCb) := by
  have hrest : Sp (do
        sendRaw (pubMsg keys) t
        let p ← expectPacket [.CNXN] { t with tt := authT }
        pure p.arg1)
      (fun r vs => (∃ e, r = .error e ∧ vs = [.tx (pubMsg keys)]) ∨
        (∃ p : Pkt, p.cmd = .CNXN ∧ r = .ok p.arg1 ∧ vs = [.tx (pubMsg keys), .deliver p])) := by
    refine (Sp_bind (Sp_sendRaw _ t) (fun _ => Sp_bind (Sp_expectPacket _ _) (fun p => Sp_pure p.arg1))).mono ?_
    rintro r vs (⟨e, rfl, rfl⟩ | ⟨_, v3, v4, rfl, rfl, hs⟩)
    · exact Or.inl ⟨e, rfl, rfl⟩
    · rcases hs with ⟨e, rfl, he⟩ | ⟨p, v5, v6, rfl, ⟨rfl, hp⟩, rfl, rfl⟩
      · have : v4 = [] := he
        subst this
        exact Or.inl ⟨e, rfl, rfl⟩
      · exact Or.inr ⟨p, by simpa using hp, rfl, rfl⟩
  unfold pubkeyStep
  cases hasCb
  · refine hrest.mono ?_
    rintro r vs (⟨e, rfl, rfl⟩ | ⟨p, hp, rfl, rfl⟩)
    · exact .noReply e
    · exact .reply p hp
  · refine (Sp_bind (Sp_emit .cbAuth) (fun _ => hrest)).mono ?_
    rintro r vs (⟨e, rfl, he, -⟩ | ⟨_, v1, v2, rfl, ⟨-, rfl⟩, hs⟩)
    · cases he
    · rcases hs with ⟨e, rfl, rfl⟩ | ⟨p, hp, rfl, rfl⟩
      · exact .noReply e
      · exact .reply p hp

/-- visible events and result of steps 2–7 -/
inductive TailRun (banner : Bytes) (keys : List Nat) (hasCb : Bool) : Except Err Nat → List TEv → Prop
  /-- sending CNXN or reading the first reply raised -/
  | noReply (e : Err) : TailRun banner keys hasCb (.error e) [.tx (cnxnMsg banner)]
  /-- step 4: the device answers CNXN at once -/
  | noAuth (p : Pkt) (hp : p.cmd = .CNXN) : TailRun banner keys hasCb (.ok p.arg1) [.tx (cnxnMsg banner), .deliver p]
  /-- step 5: challenged without keys -/
  | noKeys (p : Pkt) (hp : p.cmd = .AUTH) (hk : keys = []) :
      TailRun banner keys hasCb (.error .deviceAuth) [.tx (cnxnMsg banner), .deliver p, .tclose]
  /-- step 6 raised -/
  | authErr (p : Pkt) (e : Err) (va : List TEv) (hp : p.cmd = .AUTH) (hk : keys ≠ [])
      (ha : AuthRun keys p (.error e) va) : TailRun banner keys hasCb (.error e) (.tx (cnxnMsg banner) :: .deliver p :: va)
  /-- step 6.4: a signature was accepted -/
  | authOk (p q : Pkt) (md : Nat) (va : List TEv) (hp : p.cmd = .AUTH) (hk : keys ≠ [])
      (ha : AuthRun keys p (.ok (some md, q)) va) : TailRun banner keys hasCb (.ok md) (.tx (cnxnMsg banner) :: .deliver p :: va)
  /-- step 7: every key was rejected -/
  | pubkey (p q : Pkt) (va : List TEv) (r : Except Err Nat) (vp : List TEv) (hp : p.cmd = .AUTH) (hk : keys ≠ [])
      (ha : AuthRun keys p (.ok (none, q)) va) (hpub : PubRun keys hasCb r vp) :
      TailRun banner keys hasCb r (.tx (cnxnMsg banner) :: .deliver p :: (va ++ vp))

theorem Sp_connTail (banner : Bytes) (keys : List Nat) (authT : Timeout) (hasCb : Bool) (t : Txn) :
    Sp (connTail banner keys authT hasCb t) (TailRun banner keys hasCb) := by
  unfold connTail
  refine (Sp_bind (Sp_sendRaw _ t) (fun _ => Sp_bind (Sp_expectPacket _ t)
    (S2 := fun p r vs => p.cmd ∈ [Cmd.AUTH, Cmd.CNXN] →
      TailRun banner keys hasCb r (.tx (cnxnMsg banner) :: .deliver p :: vs)) (fun p => ?_))).mono ?_
  · split
    · next hc =>
      refine (Sp_pure _).mono ?_
      rintro r vs ⟨rfl, rfl⟩ hp
      refine .noAuth p ?_
      simp only [List.mem_cons, List.not_mem_nil, or_false] at hp
      rcases hp with hp | hp
      · exact absurd hp hc
      · exact hp
    · next hc =>
      have hp : p.cmd = .AUTH := by simpa using hc
      dsimp only
      split
      · next hk =>
        have hk' : keys = [] := by simpa using hk
        refine (Sp_bind Sp_tClose (fun _ => Sp_bind (Sp_throw (α := PUnit) Err.deviceAuth)
          (S2 := fun _ _ _ => True) (fun _ => Sp_true ?_))).mono ?_
        · fr [Fr_pubkeyStep keys authT hasCb t]
        · rintro r vs (⟨e, rfl, he, -⟩ | ⟨_, v1, v2, rfl, ⟨-, rfl⟩, hs⟩) -
          · cases he
          · rcases hs with ⟨e', rfl, he, rfl⟩ | ⟨_, v1, v2, -, ⟨he, -⟩, -⟩
            · cases he
              exact .noKeys p hp hk'
            · cases he
      · next hk =>
        have hk' : keys ≠ [] := by simpa using hk
        refine (Sp_bind (Sp_authLoop t keys p)
          (S2 := fun x r vs => match x with
            | (some md, _) => r = .ok md ∧ vs = []
            | (none, _) => PubRun keys hasCb r vs) (fun x => ?_)).mono ?_
        · rcases x with ⟨_ | md, q⟩
          · exact Sp_pubkeyStep keys authT hasCb t
          · exact Sp_pure md
        · rintro r vs (⟨e, rfl, ha⟩ | ⟨⟨o, q⟩, v1, v2, rfl, ha, hs⟩) -
          · exact .authErr p e vs hp hk' ha
          · cases o with
            | none => exact .pubkey p q v1 r v2 hp hk' ha hs
            | some md =>
              obtain ⟨rfl, rfl⟩ := hs
              simpa using TailRun.authOk (banner := banner) (hasCb := hasCb) p q md v1 hp hk' ha
  · rintro r vs (⟨e, rfl, rfl⟩ | ⟨_, v1, v2, rfl, rfl, hs⟩)
    · exact .noReply e
    · rcases hs with ⟨e, rfl, he⟩ | ⟨p, v3, v4, rfl, ⟨rfl, hp⟩, hs⟩
      · have : v2 = [] := he
        subst this
        exact .noReply e
      · exact hs hp

/-- will the next `transport.connect()` succeed? -/
def canConnect (w : World) : Bool :=
  match w.conns with
  | c :: _ => !c.connectFails
  | [] => false

theorem tClose_run (w : World) : ∃ w1, tClose w = (.ok (), w1) ∧ w1.trace = .tclose :: w.trace ∧
    w1.locks = w.locks ∧ w1.conns = w.conns := by
  unfold tClose
  split <;> exact ⟨_, rfl, rfl, rfl, rfl⟩

theorem clearStore_run (w : World) (h : lockStore ∉ w.locks) : ∃ w1, withLock lockStore storeClearAll w = (.ok (), w1) ∧
    w1.trace = w.trace ∧ w1.conns = w.conns := by
  rw [withLock_run, if_neg h]
  exact ⟨_, rfl, rfl, rfl⟩

theorem tConnect_run (tt : Timeout) (w : World) : ∃ w1, w1.trace = .tconnect :: w.trace ∧
    tConnect tt w = ((if canConnect w = true then .ok () else .error .transportError), w1) := by
  cases hc : w.conns with
  | nil =>
    refine ⟨{ w with trace := .tconnect :: w.trace }, rfl, ?_⟩
    simp [tConnect, canConnect, hc]
  | cons c rest =>
    by_cases hf : c.connectFails = true
    · refine ⟨{ w with conns := rest, trace := .tconnect :: w.trace }, rfl, ?_⟩
      simp [tConnect, canConnect, hc, hf]
    · refine ⟨{ w with conns := rest, cur := some c, trace := .tconnect :: w.trace }, rfl, ?_⟩
      simp [tConnect, canConnect, hc, hf]

/-- visible events and result of `_AdbIOManager.connect`; `ok` = the transport could connect -/
inductive ConnRun (banner : Bytes) (keys : List Nat) (hasCb : Bool) : Bool → Except Err Nat → List TEv → Prop
  /-- step 1 raised: nothing is sent -/
  | noTransport : ConnRun banner keys hasCb false (.error .transportError) [.tclose, .tconnect]
  /-- steps 0, 1 then steps 2–7 -/
  | connected (r : Except Err Nat) (vs : List TEv) (h : TailRun banner keys hasCb r vs) :
      ConnRun banner keys hasCb true r (.tclose :: .tconnect :: vs)

/-- `_AdbIOManager.connect` called with no lock held: the trace grows by events whose visible part
    follows the grammar `ConnRun` -/
theorem ioConnect_spec (banner : Bytes) (keys : List Nat) (authT : Timeout) (hasCb : Bool) (t : Txn) (w : World)
    (hl : w.locks = []) : ∃ evs, (ioConnect banner keys authT hasCb t w).2.trace = evs ++ w.trace ∧
      ConnRun banner keys hasCb (canConnect w) (ioConnect banner keys authT hasCb t w).1 (vis evs) := by
  rw [ioConnect_eq, withLock_run, if_neg (by simp [hl])]
  simp only
  obtain ⟨w1, h1, t1, l1, c1⟩ := tClose_run { w with locks := lockTransport :: w.locks }
  obtain ⟨w2, h2, t2, c2⟩ := clearStore_run w1 (by rw [l1]; simp [hl, lockStore, lockTransport])
  obtain ⟨w3, t3, h3⟩ := tConnect_run t.tt w2
  have hcc : canConnect w2 = canConnect w := by simp [canConnect, c2, c1]
  rw [bind_run_ok h1, bind_run_ok h2]
  by_cases hc : canConnect w = true
  · rw [hcc, if_pos hc] at h3
    rw [bind_run_ok h3, hc]
    obtain ⟨evs, he, hs⟩ := Sp_connTail banner keys authT hasCb t w3
    refine ⟨evs ++ [.tconnect, .tclose], ?_, ?_⟩
    · rw [he, t3, t2, t1]; simp
    · rw [vis_append]
      exact .connected _ _ hs
  · rw [hcc, if_neg hc] at h3
    rw [bind_run_err h3]
    have hc' : canConnect w = false := by simpa using hc
    rw [hc']
    exact ⟨[.tconnect, .tclose], by rw [t3, t2, t1]; simp, .noTransport⟩

/-! ### What the grammar `AuthRun` says about signatures, replies and results -/

theorem AuthRun.basic {keys : List Nat} {last : Pkt} {r : Except Err (Option Nat × Pkt)} {vs : List TEv}
    (h : AuthRun keys last r vs) :
    cbs vs = 0 ∧ (∀ m ∈ trn vs, ∃ k tok, m = sigMsg k tok) ∧ (dlv vs).length ≤ (trn vs).length ∧
      (trn vs).length ≤ (dlv vs).length + 1 ∧ (trn vs).length ≤ keys.length := by
  induction h with
  | exhausted last => simp
  | notToken k ks last h => simp
  | failed k ks last e h => exact ⟨by simp, by simp; exact ⟨_, _, rfl⟩, by simp, by simp, by simp⟩
  | accepted k ks last p h hp => exact ⟨by simp, by simp; exact ⟨_, _, rfl⟩, by simp, by simp, by simp⟩
  | rejected k ks last p r vs h hp rest ih =>
    obtain ⟨i1, i2, i3, i4, i5⟩ := ih
    refine ⟨by simpa using i1, ?_, by simpa using i3, by simpa using i4, by simpa using i5⟩
    intro m hm
    simp only [trn_tx, trn_deliver, List.mem_cons] at hm
    rcases hm with rfl | hm
    · exact ⟨_, _, rfl⟩
    · exact i2 m hm

/-- the i-th signature is made with the i-th key over the payload of the most recent challenge -/
theorem AuthRun.trn_spec {keys : List Nat} {last : Pkt} {r : Except Err (Option Nat × Pkt)} {vs : List TEv}
    (h : AuthRun keys last r vs) :
    ∃ j, j ≤ keys.length ∧ (dlv vs).length ≤ j ∧ j ≤ (dlv vs).length + 1 ∧
      trn vs = (List.zip (keys.take j) (last.data :: (dlv vs).map (·.data))).map (fun kt => sigMsg kt.1 kt.2) := by
  induction h with
  | exhausted last => exact ⟨0, by simp⟩
  | notToken k ks last h => exact ⟨0, by simp⟩
  | failed k ks last e h => exact ⟨1, by simp⟩
  | accepted k ks last p h hp => exact ⟨1, by simp⟩
  | rejected k ks last p r vs h hp rest ih =>
    obtain ⟨j, j1, j2, j3, j4⟩ := ih
    exact ⟨j + 1, by simpa using j1, by simpa using j2, by simpa using j3, by simp [j4]⟩

/-- a signature was accepted: the CNXN reply is the last packet delivered, all earlier replies were
    AUTH challenges, and one signature was sent per reply -/
theorem AuthRun.some_spec {keys : List Nat} {last : Pkt} {r : Except Err (Option Nat × Pkt)} {vs : List TEv}
    (h : AuthRun keys last r vs) : ∀ md q, r = .ok (some md, q) →
      ∃ ps, dlv vs = ps ++ [q] ∧ (∀ x ∈ ps, x.cmd = .AUTH) ∧ q.cmd = .CNXN ∧ md = q.arg1 ∧
        (trn vs).length = ps.length + 1 ∧ cls vs = 0 := by
  induction h with
  | exhausted last => intro md q hr; simp at hr
  | notToken k ks last h => intro md q hr; simp at hr
  | failed k ks last e h => intro md q hr; simp at hr
  | accepted k ks last p h hp =>
    intro md q hr
    simp only [Except.ok.injEq, Prod.mk.injEq, Option.some.injEq] at hr
    obtain ⟨rfl, rfl⟩ := hr
    exact ⟨[], by simp, by simp, hp, rfl, by simp, by simp⟩
  | rejected k ks last p r vs h hp rest ih =>
    intro md q hr
    obtain ⟨ps, h1, h2, h3, h4, h5, h6⟩ := ih md q hr
    refine ⟨p :: ps, by simp [h1], ?_, h3, h4, by simp [h5], by simpa using h6⟩
    intro x hx
    simp only [List.mem_cons] at hx
    rcases hx with rfl | hx
    · exact hp
    · exact h2 x hx

/-- every key was rejected: one signature per key, one AUTH reply per key, in order -/
theorem AuthRun.none_spec {keys : List Nat} {last : Pkt} {r : Except Err (Option Nat × Pkt)} {vs : List TEv}
    (h : AuthRun keys last r vs) : ∀ q, r = .ok (none, q) →
      (∀ x ∈ dlv vs, x.cmd = .AUTH) ∧ (dlv vs).length = keys.length ∧ (trn vs).length = keys.length ∧
        (last :: dlv vs).getLast? = some q ∧ cls vs = 0 ∧
        ∀ extra, trn vs = (List.zip keys (last.data :: ((dlv vs).map (·.data) ++ extra))).map (fun kt => sigMsg kt.1 kt.2) := by
  induction h with
  | exhausted last =>
    intro q hr
    simp only [Except.ok.injEq, Prod.mk.injEq, true_and] at hr
    subst hr
    simp
  | notToken k ks last h => intro q hr; simp at hr
  | failed k ks last e h => intro q hr; simp at hr
  | accepted k ks last p h hp => intro q hr; simp at hr
  | rejected k ks last p r vs h hp rest ih =>
    intro q hr
    obtain ⟨h1, h2, h3, h4, h5, h6⟩ := ih q hr
    refine ⟨?_, by simp [h2], by simp [h3], by simpa using h4, by simpa using h5, ?_⟩
    · intro x hx
      simp only [dlv_tx, dlv_deliver, List.mem_cons] at hx
      rcases hx with rfl | hx
      · exact hp
      · exact h1 x hx
    · intro extra
      simp [h6 extra]

/-- the key loop raised: every reply delivered so far was an AUTH challenge -/
theorem AuthRun.err_spec {keys : List Nat} {last : Pkt} {r : Except Err (Option Nat × Pkt)} {vs : List TEv}
    (h : AuthRun keys last r vs) : ∀ e, r = .error e → ∀ x ∈ dlv vs, x.cmd = .AUTH := by
  induction h with
  | exhausted last => intro e hr; simp at hr
  | notToken k ks last h => intro e hr; simp
  | failed k ks last e h => intro e hr; simp
  | accepted k ks last p h hp => intro e hr; simp at hr
  | rejected k ks last p r vs h hp rest ih =>
    intro e hr x hx
    simp only [dlv_tx, dlv_deliver, List.mem_cons] at hx
    rcases hx with rfl | hx
    · exact hp
    · exact ih e hr x hx

/-- 6.1: the i-th challenge (0 = the one the loop started with) is not a token while a key remains
    for it: InvalidResponseError, that challenge was the last packet read, no signature was made
    for it (exactly `i` signatures were sent), and the last visible event is the transport close -/
theorem AuthRun.nonToken {keys : List Nat} {last : Pkt} {r : Except Err (Option Nat × Pkt)} {vs : List TEv}
    (h : AuthRun keys last r vs) : ∀ i c, (last :: dlv vs)[i]? = some c → (i = 0 ∨ c.cmd = .AUTH) →
      c.arg0 ≠ Generated.AUTH_TOKEN → i < keys.length →
      r = .error .invalidResponse ∧ (dlv vs).length = i ∧ (trn vs).length = i ∧ vs.getLast? = some .tclose ∧ cls vs = 1 := by
  induction h with
  | exhausted last => intro i c _ _ _ hi; simp at hi
  | notToken k ks last h =>
    intro i c hc _ hn hi
    cases i with
    | zero => simp
    | succ i => simp at hc
  | failed k ks last e h =>
    intro i c hc _ hn hi
    cases i with
    | zero => simp at hc; subst hc; exact absurd h hn
    | succ i => simp at hc
  | accepted k ks last p h hp =>
    intro i c hc ha hn hi
    cases i with
    | zero => simp at hc; subst hc; exact absurd h hn
    | succ i =>
      cases i with
      | zero =>
        simp at hc; subst hc
        rcases ha with ha | ha
        · simp at ha
        · rw [hp] at ha; cases ha
      | succ i => simp at hc
  | rejected k ks last p r vs h hp rest ih =>
    intro i c hc ha hn hi
    cases i with
    | zero => simp at hc; subst hc; exact absurd h hn
    | succ i =>
      have hc' : (p :: dlv vs)[i]? = some c := by simpa using hc
      have ha' : i = 0 ∨ c.cmd = .AUTH := by
        rcases ha with ha | ha
        · simp at ha
        · exact Or.inr ha
      obtain ⟨h1, h2, h3, h4, h5⟩ := ih i c hc' ha' hn (by simpa using hi)
      refine ⟨h1, by simp [h2], by simp [h3], ?_, by simpa using h5⟩
      cases vs with
      | nil => simp at h4
      | cons v vs' => simpa using h4

/-! ### What the grammar `TailRun` says -/

theorem pub_ne_cnxn (banner : Bytes) (d : Bytes) : (⟨.AUTH, Generated.AUTH_RSAPUBLICKEY, 0, d⟩ : Msg) ≠ cnxnMsg banner := by
  intro h
  have := congrArg Msg.cmd h
  simp [cnxnMsg] at this

theorem pub_ne_sig (k : Nat) (tok d : Bytes) : (⟨.AUTH, Generated.AUTH_RSAPUBLICKEY, 0, d⟩ : Msg) ≠ sigMsg k tok := by
  intro h
  have := congrArg Msg.arg0 h
  simp [sigMsg, Generated.AUTH_RSAPUBLICKEY, Generated.AUTH_SIGNATURE] at this

theorem AuthRun.no_pub {keys : List Nat} {last : Pkt} {r : Except Err (Option Nat × Pkt)} {vs : List TEv}
    (h : AuthRun keys last r vs) (d : Bytes) : (⟨.AUTH, Generated.AUTH_RSAPUBLICKEY, 0, d⟩ : Msg) ∉ trn vs := by
  intro hm
  obtain ⟨k, tok, hk⟩ := h.basic.2.1 _ hm
  exact pub_ne_sig k tok d hk

@[simp] theorem dlv_cbEv (b : Bool) : dlv (cbEv b) = [] := by cases b <;> rfl
@[simp] theorem trn_cbEv (b : Bool) : trn (cbEv b) = [] := by cases b <;> rfl
@[simp] theorem cls_cbEv (b : Bool) : cls (cbEv b) = 0 := by cases b <;> rfl
@[simp] theorem cbs_cbEv (b : Bool) : cbs (cbEv b) = if b = true then 1 else 0 := by cases b <;> rfl

variable {banner : Bytes} {keys : List Nat} {hasCb : Bool}

theorem PubRun.dlv_spec {r : Except Err Nat} {vp : List TEv} (h : PubRun keys hasCb r vp) :
    trn vp = [pubMsg keys] ∧ cbs vp = (if hasCb = true then 1 else 0) ∧ cls vp = 0 ∧
      ((∃ e, r = .error e ∧ dlv vp = []) ∨ (∃ p : Pkt, p.cmd = .CNXN ∧ r = .ok p.arg1 ∧ dlv vp = [p])) := by
  cases h with
  | noReply e => exact ⟨by simp, by simp, by simp, Or.inl ⟨e, rfl, by simp⟩⟩
  | reply p hp => exact ⟨by simp, by simp, by simp, Or.inr ⟨p, hp, rfl, by simp⟩⟩

/-- success: the last delivered packet is a CNXN whose arg1 is the result; all earlier ones are AUTH -/
theorem TailRun.ok_spec {r : Except Err Nat} {vs : List TEv} (h : TailRun banner keys hasCb r vs) :
    ∀ md, r = .ok md → ∃ ps p, dlv vs = ps ++ [p] ∧ (∀ x ∈ ps, x.cmd = .AUTH) ∧ p.cmd = .CNXN ∧ md = p.arg1 := by
  intro md hr
  cases h with
  | noReply e => simp at hr
  | noAuth p hp =>
    simp only [Except.ok.injEq] at hr
    exact ⟨[], p, by simp, by simp, hp, hr.symm⟩
  | noKeys p hp hk => simp at hr
  | authErr p e va hp hk ha => simp at hr
  | authOk p q md' va hp hk ha =>
    simp only [Except.ok.injEq] at hr
    subst hr
    obtain ⟨ps, h1, h2, h3, h4, -, -⟩ := ha.some_spec md' q rfl
    refine ⟨p :: ps, q, by simp [h1], ?_, h3, h4⟩
    intro x hx
    simp only [List.mem_cons] at hx
    rcases hx with rfl | hx
    · exact hp
    · exact h2 x hx
  | pubkey p q va r vp hp hk ha hpub =>
    obtain ⟨h1, -, -, -, -, -⟩ := ha.none_spec q rfl
    obtain ⟨-, -, -, ⟨e, he, -⟩ | ⟨p', hp', hr', hd⟩⟩ := hpub.dlv_spec
    · rw [he] at hr; simp at hr
    · rw [hr'] at hr
      simp only [Except.ok.injEq] at hr
      refine ⟨p :: dlv va, p', by simp [hd], ?_, hp', hr.symm⟩
      intro x hx
      simp only [List.mem_cons] at hx
      rcases hx with rfl | hx
      · exact hp
      · exact h1 x hx

/-- failure: no CNXN was delivered (every delivered packet is an AUTH challenge) -/
theorem TailRun.err_spec {r : Except Err Nat} {vs : List TEv} (h : TailRun banner keys hasCb r vs) :
    ∀ e, r = .error e → ∀ x ∈ dlv vs, x.cmd = .AUTH := by
  intro e hr x hx
  cases h with
  | noReply e => simp at hx
  | noAuth p hp => simp at hr
  | noKeys p hp hk => simp at hx; subst hx; exact hp
  | authErr p e' va hp hk ha =>
    simp only [dlv_tx, dlv_deliver, List.mem_cons] at hx
    rcases hx with rfl | hx
    · exact hp
    · exact ha.err_spec e' rfl x hx
  | authOk p q md' va hp hk ha => simp at hr
  | pubkey p q va r vp hp hk ha hpub =>
    obtain ⟨h1, -, -, -, -, -⟩ := ha.none_spec q rfl
    obtain ⟨-, -, -, ⟨e', he, hd⟩ | ⟨p', hp', hr', hd⟩⟩ := hpub.dlv_spec
    · simp only [dlv_tx, dlv_deliver, dlv_append, hd, List.append_nil, List.mem_cons] at hx
      rcases hx with rfl | hx
      · exact hp
      · exact h1 x hx
    · rw [hr'] at hr; simp at hr

/-- step 5 -/
theorem TailRun.noKeys_spec {r : Except Err Nat} {vs : List TEv} (h : TailRun banner keys hasCb r vs) (hk : keys = [])
    (p : Pkt) (hd : (dlv vs).head? = some p) (hp : p.cmd = .AUTH) :
    r = .error .deviceAuth ∧ vs = [.tx (cnxnMsg banner), .deliver p, .tclose] := by
  cases h with
  | noReply e => simp at hd
  | noAuth p' hp' => simp at hd; subst hd; rw [hp] at hp'; cases hp'
  | noKeys p' hp' hk' => simp at hd; subst hd; exact ⟨rfl, rfl⟩
  | authErr p' e' va hp' hk' ha => exact absurd hk hk'
  | authOk p' q md' va hp' hk' ha => exact absurd hk hk'
  | pubkey p' q va r vp hp' hk' ha hpub => exact absurd hk hk'

/-- step 6.1 -/
theorem TailRun.nonToken {r : Except Err Nat} {vs : List TEv} (h : TailRun banner keys hasCb r vs) (i : Nat) (c : Pkt)
    (hc : (dlv vs)[i]? = some c) (ha : c.cmd = .AUTH) (hn : c.arg0 ≠ Generated.AUTH_TOKEN) (hi : i < keys.length) :
    r = .error .invalidResponse ∧ (dlv vs).length = i + 1 ∧ (trn vs).length = i + 1 ∧
      vs.getLast? = some .tclose ∧ cls vs = 1 := by
  cases h with
  | noReply e => simp at hc
  | noAuth p hp =>
    cases i with
    | zero => simp at hc; subst hc; rw [hp] at ha; cases ha
    | succ i => simp at hc
  | noKeys p hp hk => subst hk; simp at hi
  | authErr p e va hp hk har =>
    obtain ⟨h1, h2, h3, h4, h5⟩ := har.nonToken i c (by simpa using hc) (Or.inr ha) hn hi
    simp only [Except.error.injEq] at h1
    subst h1
    refine ⟨rfl, by simp [h2], by simp [h3], ?_, by simpa using h5⟩
    cases va with
    | nil => simp at h4
    | cons v va' => simpa using h4
  | authOk p q md va hp hk har =>
    obtain ⟨h1, -⟩ := har.nonToken i c (by simpa using hc) (Or.inr ha) hn hi
    simp at h1
  | pubkey p q va r vp hp hk har hpub =>
    obtain ⟨-, h2, -⟩ := har.none_spec q rfl
    have hc' : (p :: dlv va)[i]? = some c := by
      simp only [dlv_tx, dlv_deliver, dlv_append] at hc
      rw [← hc, ← List.cons_append, List.getElem?_append_left (by simp; omega)]
    obtain ⟨h1, -⟩ := har.nonToken i c hc' (Or.inr ha) hn hi
    simp at h1

/-- step 7: the public key is sent only after one signature per key -/
theorem TailRun.pub_spec {r : Except Err Nat} {vs : List TEv} (h : TailRun banner keys hasCb r vs) (d : Bytes)
    (hm : (⟨.AUTH, Generated.AUTH_RSAPUBLICKEY, 0, d⟩ : Msg) ∈ trn vs) :
    d = stubPub (keys.headD 0) ++ [0] ∧ keys ≠ [] ∧
      trn vs = cnxnMsg banner :: ((List.zip keys ((dlv vs).map (·.data))).map (fun kt => sigMsg kt.1 kt.2) ++ [pubMsg keys]) ∧
      keys.length + 1 ≤ (dlv vs).length ∧
      (∀ x ∈ (dlv vs).take (keys.length + 1), x.cmd = .AUTH) := by
  cases h with
  | noReply e => simp at hm; exact absurd hm (pub_ne_cnxn banner d)
  | noAuth p hp => simp at hm; exact absurd hm (pub_ne_cnxn banner d)
  | noKeys p hp hk => simp at hm; exact absurd hm (pub_ne_cnxn banner d)
  | authErr p e va hp hk ha =>
    simp only [trn_tx, trn_deliver, List.mem_cons] at hm
    rcases hm with hm | hm
    · exact absurd hm (pub_ne_cnxn banner d)
    · exact absurd hm (ha.no_pub d)
  | authOk p q md va hp hk ha =>
    simp only [trn_tx, trn_deliver, List.mem_cons] at hm
    rcases hm with hm | hm
    · exact absurd hm (pub_ne_cnxn banner d)
    · exact absurd hm (ha.no_pub d)
  | pubkey p q va r vp hp hk ha hpub =>
    obtain ⟨h1, h2, h3, -, -, h6⟩ := ha.none_spec q rfl
    obtain ⟨t1, -, -, hres⟩ := hpub.dlv_spec
    simp only [trn_tx, trn_deliver, trn_append, t1, List.mem_cons, List.mem_append, List.not_mem_nil, or_false] at hm
    rcases hm with hm | hm | hm
    · exact absurd hm (pub_ne_cnxn banner d)
    · exact absurd hm (ha.no_pub d)
    · refine ⟨?_, hk, ?_, ?_, ?_⟩
      · have := congrArg Msg.data hm
        simpa [pubMsg] using this
      · simp only [trn_tx, trn_deliver, trn_append, t1, dlv_tx, dlv_deliver, dlv_append, List.map_cons, List.map_append]
        rw [h6 ((dlv vp).map (·.data))]
      · simp [h2]
      · intro x hx
        simp only [dlv_tx, dlv_deliver, dlv_append, List.take_succ_cons] at hx
        rw [List.take_append_of_le_length (by omega), List.take_of_length_le (by omega)] at hx
        simp only [List.mem_cons] at hx
        rcases hx with rfl | hx
        · exact hp
        · exact h1 x hx

/-- the callback is invoked at most once, exactly when a callback was supplied and the public key
    is sent, and it is the visible event immediately before the public key's `tx` -/
theorem TailRun.cb_spec {r : Except Err Nat} {vs : List TEv} (h : TailRun banner keys hasCb r vs) :
    cbs vs ≤ 1 ∧ (cbs vs = 1 ↔ (hasCb = true ∧ pubMsg keys ∈ trn vs)) ∧
      (cbs vs = 1 → ∃ pre post, vs = pre ++ .cbAuth :: .tx (pubMsg keys) :: post ∧ cbs pre = 0 ∧
        trn pre = cnxnMsg banner :: (List.zip keys ((dlv pre).map (·.data))).map (fun kt => sigMsg kt.1 kt.2) ∧
        trn post = [] ∧ cbs post = 0) := by
  have hne : pubMsg keys ≠ cnxnMsg banner := pub_ne_cnxn banner _
  cases h with
  | noReply e => simp [hne]
  | noAuth p hp => simp [hne]
  | noKeys p hp hk => simp [hne]
  | authErr p e va hp hk ha =>
    have h0 := ha.basic.1
    have hn : pubMsg keys ∉ trn va := ha.no_pub _
    simp [h0, hn, hne]
  | authOk p q md va hp hk ha =>
    have h0 := ha.basic.1
    have hn : pubMsg keys ∉ trn va := ha.no_pub _
    simp [h0, hn, hne]
  | pubkey p q va r vp hp hk ha hpub =>
    have h0 := ha.basic.1
    obtain ⟨-, h2, -, -, -, h6⟩ := ha.none_spec q rfl
    obtain ⟨t1, c1, -, -⟩ := hpub.dlv_spec
    refine ⟨by simp only [cbs_tx, cbs_deliver, cbs_append, h0, c1]; split <;> simp, ?_, ?_⟩
    · simp only [cbs_tx, cbs_deliver, cbs_append, h0, c1, trn_tx, trn_deliver, trn_append, t1]
      cases hasCb <;> simp
    · intro hc
      have hb : hasCb = true := by
        simp only [cbs_tx, cbs_deliver, cbs_append, h0, c1] at hc
        cases hasCb <;> simp at hc ⊢
      subst hb
      have hpre : trn (.tx (cnxnMsg banner) :: .deliver p :: va) =
          cnxnMsg banner :: (List.zip keys ((dlv (.tx (cnxnMsg banner) :: .deliver p :: va)).map (·.data))).map (fun kt => sigMsg kt.1 kt.2) := by
        have := h6 []
        simp only [List.append_nil] at this
        simp [this]
      cases hpub with
      | noReply e =>
        exact ⟨.tx (cnxnMsg banner) :: .deliver p :: va, [], by simp [cbEv], by simp [h0], hpre, rfl, rfl⟩
      | reply p' hp' =>
        exact ⟨.tx (cnxnMsg banner) :: .deliver p :: va, [.deliver p'], by simp [cbEv], by simp [h0], hpre, rfl, rfl⟩

/-- all messages of a handshake: CNXN, then one signature per key tried (the i-th key signs the
    payload of the i-th packet delivered, i.e. of the most recent challenge), then possibly the public key -/
theorem TailRun.sig_spec {r : Except Err Nat} {vs : List TEv} (h : TailRun banner keys hasCb r vs) :
    ∃ j tl, j ≤ keys.length ∧ j ≤ (dlv vs).length ∧ (dlv vs).length ≤ j + 1 + tl.length ∧
      trn vs = cnxnMsg banner :: ((List.zip (keys.take j) ((dlv vs).map (·.data))).map (fun kt => sigMsg kt.1 kt.2) ++ tl) ∧
      (tl = [] ∨ (tl = [pubMsg keys] ∧ j = keys.length)) ∧
      (∀ md, r = .ok md → tl = [] → (dlv vs).length = j + 1) := by
  cases h with
  | noReply e => exact ⟨0, [], by simp⟩
  | noAuth p hp => exact ⟨0, [], by simp⟩
  | noKeys p hp hk => exact ⟨0, [], by simp⟩
  | authErr p e va hp hk ha =>
    obtain ⟨j, j1, j2, j3, j4⟩ := ha.trn_spec
    exact ⟨j, [], j1, by simp; omega, by simp; omega, by simp [j4], Or.inl rfl, by simp⟩
  | authOk p q md va hp hk ha =>
    obtain ⟨j, j1, j2, j3, j4⟩ := ha.trn_spec
    obtain ⟨ps, h1, -, -, -, h5, -⟩ := ha.some_spec md q rfl
    refine ⟨j, [], j1, by simp; omega, by simp; omega, by simp [j4], Or.inl rfl, ?_⟩
    intro _ _ _
    have : (trn va).length = j := by
      rw [j4, List.length_map, List.length_zip, List.length_take]
      simp; omega
    simp [h1] at j2 j3 ⊢
    omega
  | pubkey p q va r vp hp hk ha hpub =>
    obtain ⟨-, h2, -, -, -, h6⟩ := ha.none_spec q rfl
    obtain ⟨t1, -, -, hres⟩ := hpub.dlv_spec
    refine ⟨keys.length, [pubMsg keys], Nat.le_refl _, by simp; omega, ?_, ?_, Or.inr ⟨rfl, rfl⟩, by simp⟩
    · rcases hres with ⟨e, -, hd⟩ | ⟨p', -, -, hd⟩ <;> simp [hd, h2]
    · simp only [trn_tx, trn_deliver, trn_append, t1, dlv_tx, dlv_deliver, dlv_append, List.map_cons, List.map_append,
        List.take_length]
      rw [h6 ((dlv vp).map (·.data))]

theorem ConnRun.tail {ok : Bool} {r : Except Err Nat} {vs : List TEv} (h : ConnRun banner keys hasCb ok r vs) :
    (ok = false ∧ r = .error .transportError ∧ vs = [.tclose, .tconnect]) ∨
      (ok = true ∧ ∃ vt, vs = .tclose :: .tconnect :: vt ∧ TailRun banner keys hasCb r vt) := by
  cases h with
  | noTransport => exact Or.inl ⟨rfl, rfl, rfl⟩
  | connected r vs h => exact Or.inr ⟨rfl, vs, rfl, h⟩

/-! ### `_AdbIOManager.connect` called with no lock held: statements about the new trace events -/

section ioConnect
variable {authT : Timeout} {t : Txn} {w w' : World} {r : Except Err Nat} {evs : List TEv}

theorem ioConnect_run (hl : w.locks = []) (hr : ioConnect banner keys authT hasCb t w = (r, w'))
    (he : w'.trace = evs ++ w.trace) : ConnRun banner keys hasCb (canConnect w) r (vis evs) := by
  obtain ⟨evs', h1, h2⟩ := ioConnect_spec banner keys authT hasCb t w hl
  rw [hr] at h1 h2
  simp only at h1 h2
  rw [he] at h1
  have := List.append_cancel_right h1
  subst this
  exact h2

theorem ioConnect_first (hl : w.locks = []) (hr : ioConnect banner keys authT hasCb t w = (r, w'))
    (he : w'.trace = evs ++ w.trace) :
    (canConnect w = false → r = .error .transportError ∧ vis evs = [.tclose, .tconnect] ∧ transmitted evs = []) ∧
    (canConnect w = true → ∃ rest, vis evs = .tclose :: .tconnect :: .tx (cnxnMsg banner) :: rest ∧
      transmitted evs = cnxnMsg banner :: trn rest) := by
  rw [transmitted_eq]
  rcases (ioConnect_run hl hr he).tail with ⟨h1, h2, h3⟩ | ⟨h1, vt, h3, h4⟩
  · simp [h1, h2, h3]
  · have : ∃ rest, vt = .tx (cnxnMsg banner) :: rest := by cases h4 <;> exact ⟨_, rfl⟩
    obtain ⟨rest, rfl⟩ := this
    simp [h1, h3]

theorem ioConnect_result (hl : w.locks = []) (hr : ioConnect banner keys authT hasCb t w = (r, w'))
    (he : w'.trace = evs ++ w.trace) :
    (∀ md, r = .ok md → ∃ ps p, delivered evs = ps ++ [p] ∧ (∀ x ∈ ps, x.cmd = .AUTH) ∧ p.cmd = .CNXN ∧ md = p.arg1) ∧
    (∀ e, r = .error e → ∀ x ∈ delivered evs, x.cmd = .AUTH) := by
  rw [delivered_eq]
  rcases (ioConnect_run hl hr he).tail with ⟨h1, h2, h3⟩ | ⟨h1, vt, h3, h4⟩
  · simp [h2, h3]
  · rw [h3]
    exact ⟨by simpa using h4.ok_spec, by simpa using h4.err_spec⟩

theorem ioConnect_noKeys (hl : w.locks = []) (hr : ioConnect banner keys authT hasCb t w = (r, w'))
    (he : w'.trace = evs ++ w.trace) (hk : keys = []) (p : Pkt) (hd : (delivered evs).head? = some p) (hp : p.cmd = .AUTH) :
    r = .error .deviceAuth ∧ vis evs = [.tclose, .tconnect, .tx (cnxnMsg banner), .deliver p, .tclose] := by
  rw [delivered_eq] at hd
  rcases (ioConnect_run hl hr he).tail with ⟨h1, h2, h3⟩ | ⟨h1, vt, h3, h4⟩
  · simp [h3] at hd
  · rw [h3] at hd ⊢
    obtain ⟨h5, h6⟩ := h4.noKeys_spec hk p (by simpa using hd) hp
    exact ⟨h5, by rw [h6]⟩

theorem ioConnect_nonToken (hl : w.locks = []) (hr : ioConnect banner keys authT hasCb t w = (r, w'))
    (he : w'.trace = evs ++ w.trace) (i : Nat) (c : Pkt) (hc : (delivered evs)[i]? = some c) (ha : c.cmd = .AUTH)
    (hn : c.arg0 ≠ Generated.AUTH_TOKEN) (hi : i < keys.length) :
    r = .error .invalidResponse ∧ (delivered evs).length = i + 1 ∧ (transmitted evs).length = i + 1 ∧
      (vis evs).getLast? = some .tclose ∧ closes evs = 2 := by
  rw [delivered_eq] at hc ⊢
  rw [transmitted_eq, closes_eq]
  rcases (ioConnect_run hl hr he).tail with ⟨h1, h2, h3⟩ | ⟨h1, vt, h3, h4⟩
  · simp [h3] at hc
  · rw [h3] at hc ⊢
    obtain ⟨g1, g2, g3, g4, g5⟩ := h4.nonToken i c (by simpa using hc) ha hn hi
    refine ⟨g1, by simpa using g2, by simpa using g3, ?_, by simp [g5]⟩
    cases vt with
    | nil => simp at g4
    | cons v vt' => simpa using g4

theorem ioConnect_pub (hl : w.locks = []) (hr : ioConnect banner keys authT hasCb t w = (r, w'))
    (he : w'.trace = evs ++ w.trace) (d : Bytes)
    (hm : (⟨.AUTH, Generated.AUTH_RSAPUBLICKEY, 0, d⟩ : Msg) ∈ transmitted evs) :
    d = stubPub (keys.headD 0) ++ [0] ∧ keys ≠ [] ∧
      transmitted evs = cnxnMsg banner ::
        ((List.zip keys ((delivered evs).map (·.data))).map (fun kt => sigMsg kt.1 kt.2) ++ [pubMsg keys]) ∧
      keys.length + 1 ≤ (delivered evs).length ∧
      (∀ x ∈ (delivered evs).take (keys.length + 1), x.cmd = .AUTH) := by
  rw [transmitted_eq] at hm ⊢
  rw [delivered_eq]
  rcases (ioConnect_run hl hr he).tail with ⟨h1, h2, h3⟩ | ⟨h1, vt, h3, h4⟩
  · simp [h3] at hm
  · rw [h3] at hm ⊢
    simpa using h4.pub_spec d (by simpa using hm)

theorem ioConnect_sigs (hl : w.locks = []) (hr : ioConnect banner keys authT hasCb t w = (r, w'))
    (he : w'.trace = evs ++ w.trace) (hc : canConnect w = true) :
    ∃ j tl, j ≤ keys.length ∧ j ≤ (delivered evs).length ∧ (delivered evs).length ≤ j + 1 + tl.length ∧
      transmitted evs = cnxnMsg banner ::
        ((List.zip (keys.take j) ((delivered evs).map (·.data))).map (fun kt => sigMsg kt.1 kt.2) ++ tl) ∧
      (tl = [] ∨ (tl = [pubMsg keys] ∧ j = keys.length)) ∧
      (∀ md, r = .ok md → tl = [] → (delivered evs).length = j + 1) := by
  rw [transmitted_eq, delivered_eq]
  rcases (ioConnect_run hl hr he).tail with ⟨h1, h2, h3⟩ | ⟨h1, vt, h3, h4⟩
  · rw [h1] at hc; cases hc
  · rw [h3]
    simpa using h4.sig_spec

theorem ioConnect_cb (hl : w.locks = []) (hr : ioConnect banner keys authT hasCb t w = (r, w'))
    (he : w'.trace = evs ++ w.trace) :
    callbacks evs ≤ 1 ∧ (callbacks evs = 1 ↔ (hasCb = true ∧ pubMsg keys ∈ transmitted evs)) ∧
      (callbacks evs = 1 → ∃ pre post, vis evs = pre ++ .cbAuth :: .tx (pubMsg keys) :: post ∧ cbs pre = 0 ∧
        trn post = [] ∧ cbs post = 0) := by
  rw [transmitted_eq, callbacks_eq]
  rcases (ioConnect_run hl hr he).tail with ⟨h1, h2, h3⟩ | ⟨h1, vt, h3, h4⟩
  · simp [h3]
  · rw [h3]
    obtain ⟨g1, g2, g3⟩ := h4.cb_spec
    refine ⟨by simpa using g1, by simpa using g2, ?_⟩
    intro hc
    obtain ⟨pre, post, e1, e2, -, e4, e5⟩ := g3 (by simpa using hc)
    exact ⟨.tclose :: .tconnect :: pre, post, by simp [e1], by simpa using e2, e4, e5⟩

end ioConnect

/-! ### Which world the final read runs in (the auth timeout) -/

/-- world-aware variant of `Sp`: the specification may also mention the worlds before and after -/
def SpW {α : Type} (x : M α) (S : World → Except Err α → World → List TEv → Prop) : Prop :=
  ∀ w, ∃ evs, (x w).2.trace = evs ++ w.trace ∧ S w (x w).1 (x w).2 (vis evs)

theorem Sp.toW {α} {x : M α} {S : Except Err α → List TEv → Prop} (h : Sp x S) : SpW x (fun _ r _ vs => S r vs) := h

theorem SpW.mono {α} {x : M α} {S S' : World → Except Err α → World → List TEv → Prop} (h : SpW x S)
    (hs : ∀ w r w' vs, S w r w' vs → S' w r w' vs) : SpW x S' := by
  intro w
  obtain ⟨evs, h1, h2⟩ := h w
  exact ⟨evs, h1, hs _ _ _ _ h2⟩

theorem SpW_exact {α} {x : M α} (h : Fr x) : SpW x (fun w r w' _ => x w = (r, w')) := fun w => by
  obtain ⟨evs, he⟩ := (h w).trace
  exact ⟨evs, he, rfl⟩

theorem SpW_bind {α β} {x : M α} {f : α → M β} {S1 : World → Except Err α → World → List TEv → Prop}
    {S2 : α → World → Except Err β → World → List TEv → Prop} (hx : SpW x S1) (hf : ∀ a, SpW (f a) (S2 a)) :
    SpW (x >>= f) (fun w r w'' vs => (∃ e, r = .error e ∧ S1 w (.error e) w'' vs) ∨
      (∃ a w' v1 v2, vs = v1 ++ v2 ∧ S1 w (.ok a) w' v1 ∧ S2 a w' r w'' v2)) := by
  intro w
  rw [bind_run]
  obtain ⟨e1, h1, s1⟩ := hx w
  split
  · next a w' hxw =>
    rw [hxw] at h1 s1
    obtain ⟨e2, h2, s2⟩ := hf a w'
    refine ⟨e2 ++ e1, ?_, Or.inr ⟨a, w', vis e1, vis e2, vis_append _ _, s1, s2⟩⟩
    simp only at h1
    rw [h2, h1, List.append_assoc]
  · next e w' hxw =>
    rw [hxw] at h1 s1
    exact ⟨e1, h1, Or.inl ⟨e, rfl, s1⟩⟩

/-- if `connTail` hands the public key to `_send`, its outcome is the outcome of `pubkeyStep` in
    some world (the one reached when every key had been rejected) -/
theorem SpW_connTail_pub (banner : Bytes) (keys : List Nat) (authT : Timeout) (hasCb : Bool) (t : Txn) :
    SpW (connTail banner keys authT hasCb t) (fun _ r w' vs =>
      pubMsg keys ∈ trn vs → ∃ w0, pubkeyStep keys authT hasCb t w0 = (r, w')) := by
  have hne : pubMsg keys ≠ cnxnMsg banner := pub_ne_cnxn banner _
  unfold connTail
  refine (SpW_bind (Sp_sendRaw _ t).toW (fun _ => SpW_bind (Sp_expectPacket _ t).toW
    (S2 := fun p _ r w' vs => pubMsg keys ∈ trn vs → ∃ w0, pubkeyStep keys authT hasCb t w0 = (r, w')) (fun p => ?_))).mono ?_
  · split
    · exact (Sp_pure _).toW.mono (by rintro _ r _ vs ⟨-, rfl⟩ hm; simp at hm)
    · dsimp only
      split
      · refine (Sp_bind Sp_tClose (fun _ => Sp_bind (Sp_throw (α := PUnit) Err.deviceAuth)
          (S2 := fun _ _ _ => True) (fun _ => Sp_true ?_))).toW.mono ?_
        · fr [Fr_pubkeyStep keys authT hasCb t]
        · rintro _ r _ vs (⟨e, rfl, he, -⟩ | ⟨_, v1, v2, rfl, ⟨-, rfl⟩, hs⟩) hm
          · cases he
          · rcases hs with ⟨e', rfl, he, rfl⟩ | ⟨_, v1, v2, -, ⟨he, -⟩, -⟩
            · simp at hm
            · cases he
      · refine (SpW_bind (Sp_authLoop t keys p).toW
          (S2 := fun x w r w' vs => match x with
            | (some _, _) => vs = []
            | (none, _) => pubkeyStep keys authT hasCb t w = (r, w')) (fun x => ?_)).mono ?_
        · rcases x with ⟨_ | md, q⟩
          · exact SpW_exact (Fr_pubkeyStep keys authT hasCb t)
          · exact (Sp_pure md).toW.mono (by rintro _ r _ vs ⟨-, rfl⟩; rfl)
        · rintro _ r w' vs (⟨e, rfl, ha⟩ | ⟨⟨o, q⟩, w0, v1, v2, rfl, ha, hs⟩) hm
          · exact absurd hm (ha.no_pub _)
          · cases o with
            | none => exact ⟨w0, hs⟩
            | some md =>
              have : v2 = [] := hs
              subst this
              simp only [List.append_nil] at hm
              exact absurd hm (ha.no_pub _)
  · rintro _ r w' vs (⟨e, rfl, rfl⟩ | ⟨_, w1, v1, v2, rfl, rfl, hs⟩) hm
    · simp [hne] at hm
    · rcases hs with ⟨e, rfl, he⟩ | ⟨p, w2, v3, v4, rfl, ⟨rfl, hp⟩, hs⟩
      · have : v2 = [] := he
        subst this
        simp [hne] at hm
      · simp only [List.singleton_append, trn_tx, trn_deliver, List.mem_cons, hne, false_or] at hm
        exact hs hm

/-- `pubkeyStep` computed: callback event (if any), `_send(public key)`, then
    `_read_expected_packet_from_device([CNXN])` with `transport_timeout_s = auth_timeout_s` -/
theorem pubkeyStep_run (keys : List Nat) (authT : Timeout) (hasCb : Bool) (t : Txn) (w0 : World) :
    pubkeyStep keys authT hasCb t w0 =
      match sendRaw (pubMsg keys) t (if hasCb = true then { w0 with trace := .cbAuth :: w0.trace } else w0) with
      | (.error e, w1) => (.error e, w1)
      | (.ok _, w1) =>
        match expectPacket [.CNXN] { t with tt := authT } w1 with
        | (.ok p, w2) => (.ok p.arg1, w2)
        | (.error e, w2) => (.error e, w2) := by
  unfold pubkeyStep
  cases hasCb
  · simp only [Bool.false_eq_true, if_false]
    rw [bind_run]
    split
    · next a w1 h1 =>
      rw [bind_run]
      split <;> simp_all
    · next e w1 h1 => rw [h1]
  · simp only [if_true]
    rw [bind_run, emit_run]
    simp only
    rw [bind_run]
    split
    · next a w1 h1 =>
      rw [bind_run]
      split <;> simp_all
    · next e w1 h1 => rw [h1]

section ioConnect
variable {authT : Timeout} {t : Txn} {w w' : World} {r : Except Err Nat} {evs : List TEv}

/-- if the public key was sent, the outcome of `connect` is that of step 7 run in some world, with
    the transport lock released afterwards -/
theorem ioConnect_pubkeyStep (hl : w.locks = []) (hr : ioConnect banner keys authT hasCb t w = (r, w'))
    (he : w'.trace = evs ++ w.trace) (hm : pubMsg keys ∈ transmitted evs) :
    ∃ w0 w'', pubkeyStep keys authT hasCb t w0 = (r, w'') ∧ w' = { w'' with locks := [] } := by
  rw [transmitted_eq] at hm
  have hfr := Fr_ioConnect banner keys authT hasCb t w
  rw [ioConnect_eq, withLock_run, if_neg (by simp [hl])] at hr
  simp only at hr
  obtain ⟨w1, h1, t1, l1, c1⟩ := tClose_run { w with locks := lockTransport :: w.locks }
  obtain ⟨w2, h2, t2, c2⟩ := clearStore_run w1 (by rw [l1]; simp [hl, lockStore, lockTransport])
  obtain ⟨w3, t3, h3⟩ := tConnect_run t.tt w2
  rw [bind_run_ok h1, bind_run_ok h2] at hr
  by_cases hc : canConnect w2 = true
  · rw [if_pos hc] at h3
    rw [bind_run_ok h3] at hr
    obtain ⟨e4, t4, s4⟩ := SpW_connTail_pub banner keys authT hasCb t w3
    have hw' : w'.trace = (connTail banner keys authT hasCb t w3).2.trace := by rw [← (Prod.mk.inj hr).2]
    have hev : evs = e4 ++ [.tconnect, .tclose] := by
      have : evs ++ w.trace = (e4 ++ [.tconnect, .tclose]) ++ w.trace := by
        rw [← he, hw', t4, t3, t2, t1]; simp
      exact List.append_cancel_right this
    have hm' : pubMsg keys ∈ trn (vis e4) := by
      rw [hev, vis_append] at hm
      simpa [vis, quiet] using hm
    obtain ⟨w0, hw0⟩ := s4 hm'
    have hlk : (connTail banner keys authT hasCb t w3).2.locks.erase lockTransport = [] := by
      have hf : Fr (connTail banner keys authT hasCb t) := by
        unfold connTail
        fr [Fr_pubkeyStep keys authT hasCb t]
      have h3l : w3.locks = [lockTransport] := by
        have f1 := Fr_tClose { w with locks := lockTransport :: w.locks }
        have f2 := Fr_withLock lockStore Fr_storeClearAll w1
        have f3 := Fr_tConnect t.tt w2
        rw [h1] at f1; rw [h2] at f2; rw [h3] at f3
        rw [f3.locks, f2.locks, f1.locks, hl]
      rw [(hf w3).locks, h3l]
      simp
    refine ⟨w0, (connTail banner keys authT hasCb t w3).2, ?_, ?_⟩
    · rw [hw0, ← (Prod.mk.inj hr).1]
    · rw [← (Prod.mk.inj hr).2, hlk]
  · rw [if_neg hc] at h3
    rw [bind_run_err h3] at hr
    have hev : evs = [.tconnect, .tclose] := by
      have : evs ++ w.trace = [.tconnect, .tclose] ++ w.trace := by
        rw [← he, ← (Prod.mk.inj hr).2]; simp [t3, t2, t1]
      exact List.append_cancel_right this
    rw [hev] at hm
    simp [vis, quiet, trn, isTx] at hm

end ioConnect

/-! ### `AdbDevice.connect` -/

/-- `AdbDevice.connect` is `_AdbIOManager.connect` run with the availability flag cleared; success
    sets the flag and stores the returned maxdata -/
theorem devConnect_run (keys : List Nat) (tt authT rt : Timeout) (cb : Bool) (w : World) (t : Txn)
    (hm : Txn.make none none (if tt.isSome = true then tt else w.defaultTT) rt none = .ok t) :
    devConnect keys tt authT rt cb w =
      match ioConnect w.banner keys authT cb t { w with available := false } with
      | (.ok md, w1) => (.ok (.bool true), { w1 with available := true, maxdata := md })
      | (.error e, w1) => (.error e, w1) := by
  unfold devConnect
  simp only [getTT, bind_run, liftExcept_run, hm, M.modify_run, M.get_run]
  split <;> simp_all

/-! ### The component specifications in terms of `transmitted` / `delivered` / `callbacks` -/

/-- `_send(m)`: whatever the outcome, the visible trace grows by exactly `tx m` -/
theorem sendRaw_spec {m : Msg} {t : Txn} {w w' : World} {r : Except Err Unit} {evs : List TEv}
    (hr : sendRaw m t w = (r, w')) (he : w'.trace = evs ++ w.trace) :
    vis evs = [.tx m] ∧ transmitted evs = [m] ∧ delivered evs = [] ∧ callbacks evs = 0 ∧ closes evs = 0 := by
  have h : vis evs = [.tx m] := (Sp_sendRaw m t).elim hr he
  rw [transmitted_eq, delivered_eq, callbacks_eq, closes_eq, h]
  exact ⟨rfl, rfl, rfl, rfl, rfl⟩

/-- `_read_expected_packet_from_device(ex)`: a returned packet is the only packet delivered and
    its command is one of `ex`; an exception delivers nothing; nothing is ever transmitted -/
theorem expectPacket_spec {ex : List Cmd} {t : Txn} {w w' : World} {r : Except Err Pkt} {evs : List TEv}
    (hr : expectPacket ex t w = (r, w')) (he : w'.trace = evs ++ w.trace) :
    (∀ p, r = .ok p → vis evs = [.deliver p] ∧ delivered evs = [p] ∧ p.cmd ∈ ex) ∧
    (∀ e, r = .error e → vis evs = [] ∧ delivered evs = []) ∧
    transmitted evs = [] ∧ callbacks evs = 0 ∧ closes evs = 0 := by
  have h : ExpectS ex r (vis evs) := (Sp_expectPacket ex t).elim hr he
  rw [transmitted_eq, delivered_eq, callbacks_eq, closes_eq]
  cases r with
  | ok p =>
    obtain ⟨h1, h2⟩ := h
    rw [h1]
    refine ⟨?_, by simp, rfl, rfl, rfl⟩
    intro p' hp'
    simp only [Except.ok.injEq] at hp'
    subst hp'
    exact ⟨rfl, rfl, h2⟩
  | error e =>
    have h1 : vis evs = [] := h
    rw [h1]
    exact ⟨by simp, fun _ _ => ⟨rfl, rfl⟩, rfl, rfl, rfl⟩

theorem authLoop_run {t : Txn} {keys : List Nat} {last : Pkt} {w w' : World} {r : Except Err (Option Nat × Pkt)}
    {evs : List TEv} (hr : authLoop t keys last w = (r, w')) (he : w'.trace = evs ++ w.trace) :
    AuthRun keys last r (vis evs) := (Sp_authLoop t keys last).elim hr he

/-- The key loop. `j` signatures are sent, `j ≤ len(keys)`; the i-th is made with the i-th key over
    the payload of the most recent AUTH packet (`last`, then the replies delivered); each reply
    follows a signature. Accepted: the CNXN is the last reply, earlier replies are AUTH, and one
    signature per reply was sent. Exhausted: every key was used and every reply is AUTH.
    A non-token challenge with a key left: InvalidResponseError, transport closed, not signed. -/
theorem authLoop_spec {t : Txn} {keys : List Nat} {last : Pkt} {w w' : World} {r : Except Err (Option Nat × Pkt)}
    {evs : List TEv} (hr : authLoop t keys last w = (r, w')) (he : w'.trace = evs ++ w.trace) :
    callbacks evs = 0 ∧
    (∃ j, j ≤ keys.length ∧ (delivered evs).length ≤ j ∧ j ≤ (delivered evs).length + 1 ∧
      transmitted evs = (List.zip (keys.take j) (last.data :: (delivered evs).map (·.data))).map
        (fun kt => (⟨.AUTH, Generated.AUTH_SIGNATURE, 0, stubSign kt.1 kt.2⟩ : Msg))) ∧
    (∀ md p, r = .ok (some md, p) → ∃ ps, delivered evs = ps ++ [p] ∧ (∀ x ∈ ps, x.cmd = .AUTH) ∧ p.cmd = .CNXN ∧
      md = p.arg1 ∧ (transmitted evs).length = (delivered evs).length ∧ closes evs = 0) ∧
    (∀ p, r = .ok (none, p) → (∀ x ∈ delivered evs, x.cmd = .AUTH) ∧ (delivered evs).length = keys.length ∧
      (transmitted evs).length = keys.length ∧ (last :: delivered evs).getLast? = some p ∧ closes evs = 0) ∧
    (∀ e, r = .error e → ∀ x ∈ delivered evs, x.cmd = .AUTH) ∧
    (∀ i c, (last :: delivered evs)[i]? = some c → (i = 0 ∨ c.cmd = .AUTH) → c.arg0 ≠ Generated.AUTH_TOKEN →
      i < keys.length → r = .error .invalidResponse ∧ (delivered evs).length = i ∧ (transmitted evs).length = i ∧
        (vis evs).getLast? = some .tclose ∧ closes evs = 1) := by
  have h := authLoop_run hr he
  rw [transmitted_eq, delivered_eq, callbacks_eq, closes_eq]
  refine ⟨h.basic.1, h.trn_spec, ?_, ?_, h.err_spec, h.nonToken⟩
  · intro md p hp
    obtain ⟨ps, h1, h2, h3, h4, h5, h6⟩ := h.some_spec md p hp
    exact ⟨ps, h1, h2, h3, h4, by simp [h5, h1], h6⟩
  · intro p hp
    obtain ⟨h1, h2, h3, h4, h5, -⟩ := h.none_spec p hp
    exact ⟨h1, h2, h3, h4, h5⟩

/-! ### Concrete scenarios for the non-vacuity examples of C05 -/

instance exceptDecEq {ε α : Type} [DecidableEq ε] [DecidableEq α] : DecidableEq (Except ε α) := fun a b =>
  match a, b with
  | .ok x, .ok y => if h : x = y then isTrue (by rw [h]) else isFalse (by intro h'; cases h'; exact h rfl)
  | .error x, .error y => if h : x = y then isTrue (by rw [h]) else isFalse (by intro h'; cases h'; exact h rfl)
  | .ok _, .error _ => isFalse (by intro h; cases h)
  | .error _, .ok _ => isFalse (by intro h; cases h)

theorem pair_eta {α β : Type} (p : α × β) : p = (p.1, p.2) := rfl

def exTok1 : Bytes := [1, 2, 3]
def exTok2 : Bytes := [4, 5, 6, 7]
def exCnxn : Pkt := ⟨.CNXN, 0x01000000, 4096, ascii "device::x"⟩
def exTxn : Txn := ⟨none, none, some 10240, some 10240, none⟩

/-- a world whose next connection plays the given packets, all readable at once -/
def exWorld (ps : List Pkt) : World := { conns := [{ segs := ps.map (fun p => ⟨0, p.encode⟩) }] }

/-- two challenges, then CNXN -/
def exWorldAuth : World := exWorld [⟨.AUTH, 1, 0, exTok1⟩, ⟨.AUTH, 1, 0, exTok2⟩, exCnxn]
/-- a token, then a challenge that is not a token -/
def exWorldBad : World := exWorld [⟨.AUTH, 1, 0, exTok1⟩, ⟨.AUTH, 5, 0, exTok2⟩]
/-- a single challenge and silence -/
def exWorldChallenge : World := exWorld [⟨.AUTH, 1, 0, exTok1⟩]

end HS
end Adb
