import Lean
/-- simp set for evaluating `Adb.Py` operations on values of known shape (see AdbProofs/Lemmas/SrcEnc.lean) -/
register_simp_attr pysimp
