import AdbProofs.Lemmas.Monad
/-
  A frame discipline for the effect type: `Fr x` says that running `x` in any world leaves the
  lock set, the connection flag, maxdata, banner, default timeout, loop budget and local files as
  they were, and only PREPENDS events to the trace.  Proved once per model function (mechanically,
  with the `fr` tactic); C12 (no lock left held), C13 (availability only changes in connect/close)
  and the trace-based theorems build on it.
-/
namespace Adb

structure Frame (w w' : World) : Prop where
  locks : w'.locks = w.locks
  available : w'.available = w.available
  maxdata : w'.maxdata = w.maxdata
  banner : w'.banner = w.banner
  defaultTT : w'.defaultTT = w.defaultTT
  fuel : w'.fuel = w.fuel
  files : w'.files = w.files
  dirs : w'.dirs = w.dirs
  trace : ∃ evs, w'.trace = evs ++ w.trace

theorem Frame.refl (w : World) : Frame w w := ⟨rfl, rfl, rfl, rfl, rfl, rfl, rfl, rfl, [], rfl⟩

theorem Frame.trans {a b c : World} (h1 : Frame a b) (h2 : Frame b c) : Frame a c := by
  obtain ⟨e1, he1⟩ := h1.trace
  obtain ⟨e2, he2⟩ := h2.trace
  exact ⟨h2.locks.trans h1.locks, h2.available.trans h1.available, h2.maxdata.trans h1.maxdata,
    h2.banner.trans h1.banner, h2.defaultTT.trans h1.defaultTT, h2.fuel.trans h1.fuel,
    h2.files.trans h1.files, h2.dirs.trans h1.dirs, e2 ++ e1, by simp [he2, he1]⟩

/-- `x` respects the frame in every world, whatever its outcome -/
def Fr {α : Type} (x : M α) : Prop := ∀ w, Frame w (x w).2

theorem Fr_pure {α} (a : α) : Fr (pure a : M α) := fun w => Frame.refl w
theorem Fr_Mpure {α} (a : α) : Fr (M.pure a : M α) := fun w => Frame.refl w
theorem Fr_throw {α} (e : Err) : Fr (M.throw e : M α) := fun w => Frame.refl w
theorem Fr_get : Fr M.get := fun w => Frame.refl w
theorem Fr_now : Fr now := fun w => Frame.refl w
theorem Fr_liftExcept {α} (x : Except Err α) : Fr (liftExcept x) := fun w => Frame.refl w
theorem Fr_emit (e : TEv) : Fr (emit e) := fun w =>
  ⟨rfl, rfl, rfl, rfl, rfl, rfl, rfl, rfl, [e], rfl⟩
theorem Fr_elapsedGt (s : Int) (l : Timeout) : Fr (elapsedGt s l) := by
  intro w; unfold elapsedGt; cases l <;> exact Frame.refl w

theorem Fr_bind {α β} {x : M α} {f : α → M β} (hx : Fr x) (hf : ∀ a, Fr (f a)) : Fr (x >>= f) := by
  intro w
  rw [bind_run]
  have h1 := hx w
  split
  · next a w' hxw => rw [hxw] at h1; exact Frame.trans h1 (hf a w')
  · next e w' hxw => rw [hxw] at h1; exact h1

theorem Fr_ite {α} {c : Prop} [Decidable c] {a b : M α} (ha : Fr a) (hb : Fr b) : Fr (if c then a else b) := by
  split <;> assumption

theorem Fr_withLock {α} (l : Nat) {body : M α} (hb : Fr body) : Fr (withLock l body) := by
  intro w
  rw [withLock_run]
  split
  · exact Frame.refl w
  · next hl =>
    have h := hb { w with locks := l :: w.locks }
    obtain ⟨evs, hev⟩ := h.trace
    refine ⟨?_, h.available, h.maxdata, h.banner, h.defaultTT, h.fuel, h.files, h.dirs, evs, hev⟩
    simp [h.locks]

theorem Fr_tryFinally {α} {x : M α} {fin : M Unit} (hx : Fr x) (hf : Fr fin) : Fr (M.tryFinally x fin) := by
  intro w
  unfold M.tryFinally
  have h1 := hx w
  split
  · next a w' hxw =>
    rw [hxw] at h1
    have h2 := hf w'
    split <;> next _ w'' hfw => rw [hfw] at h2; exact Frame.trans h1 h2
  · next e w' hxw =>
    rw [hxw] at h1
    have h2 := hf w'
    split <;> next _ w'' hfw => rw [hfw] at h2; exact Frame.trans h1 h2

theorem Fr_swallow {x : M Unit} (hx : Fr x) : Fr (M.swallow x) := by
  intro w
  unfold M.swallow
  have h1 := hx w
  split
  next r w' hxw => rw [hxw] at h1; exact h1

theorem Fr_modify {f : World → World} (hf : ∀ w, Frame w (f w)) : Fr (M.modify f) := fun w => hf w

/-- a world update that touches none of the framed fields -/
theorem Frame.of_eq {w w' : World} (h1 : w'.locks = w.locks) (h2 : w'.available = w.available) (h3 : w'.maxdata = w.maxdata)
    (h4 : w'.banner = w.banner) (h5 : w'.defaultTT = w.defaultTT) (h6 : w'.fuel = w.fuel) (h7 : w'.files = w.files)
    (h8 : w'.dirs = w.dirs) (h9 : w'.trace = w.trace) : Frame w w' :=
  ⟨h1, h2, h3, h4, h5, h6, h7, h8, [], by simp [h9]⟩

/-- closes `Frame w w'` when `w'` is an explicit record update of `w` on unframed fields (or adds one trace event) -/
macro "frame_rfl" : tactic =>
  `(tactic| first
    | exact Frame.refl _
    | exact ⟨rfl, rfl, rfl, rfl, rfl, rfl, rfl, rfl, [], rfl⟩
    | exact ⟨rfl, rfl, rfl, rfl, rfl, rfl, rfl, rfl, [_], rfl⟩)

/-- extensible: one alternative per proved `Fr` lemma -/
syntax "fr_lemma" : tactic
macro_rules | `(tactic| fr_lemma) => `(tactic| with_reducible exact Fr_pure _)
macro_rules | `(tactic| fr_lemma) => `(tactic| with_reducible exact Fr_Mpure _)
macro_rules | `(tactic| fr_lemma) => `(tactic| with_reducible exact Fr_throw _)
macro_rules | `(tactic| fr_lemma) => `(tactic| with_reducible exact Fr_get)
macro_rules | `(tactic| fr_lemma) => `(tactic| with_reducible exact Fr_now)
macro_rules | `(tactic| fr_lemma) => `(tactic| with_reducible exact Fr_liftExcept _)
macro_rules | `(tactic| fr_lemma) => `(tactic| with_reducible exact Fr_emit _)
macro_rules | `(tactic| fr_lemma) => `(tactic| with_reducible exact Fr_elapsedGt _ _)

/-- structural decomposition of a `do` block; `fr [ih]` also tries the induction hypothesis `ih` -/
syntax "fr" ("[" term "]")? : tactic
macro_rules
  | `(tactic| fr) => `(tactic| fr [Fr_get])
  | `(tactic| fr [$h]) => `(tactic| first
    | fr_lemma
    | with_reducible assumption
    | with_reducible exact $h
    | with_reducible exact $h _
    | with_reducible exact $h _ _
    | with_reducible exact $h _ _ _
    | (with_reducible apply Fr_bind) <;> (first | (intro _; fr [$h]) | fr [$h])
    | (with_reducible apply Fr_withLock); fr [$h]
    | (with_reducible apply Fr_tryFinally) <;> fr [$h]
    | (with_reducible apply Fr_swallow); fr [$h]
    | (with_reducible apply Fr_modify); intro _; frame_rfl
    | (with_reducible apply Fr_ite) <;> fr [$h]
    | (split <;> fr [$h])
    | (dsimp only; fr [$h])
    | (intro _; fr [$h]))

end Adb
