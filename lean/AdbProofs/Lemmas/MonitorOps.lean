import AdbProofs.Lemmas.MonitorLemmas
import AdbProofs.Lemmas.IdEq
/-
  C04 — whole API operations against the protocol monitor: a stream is opened with a fresh local id,
  used by stream operations (`SQ`), and closed; the monitor accepts the whole conversation and only
  the table entry of the new stream changes.
-/
namespace Adb
open Monitor (Ev St Viol Table isStreamCmd hostStep devStep)

/-- outcome of a whole-stream operation that uses local id `l`, started from table `S`: the exchange
    is accepted, only the entry of `l` changed, and if `closed` the stream ended closed by both sides -/
def OpAcc (l : Nat) (S : Table) (X : List Xfer) (closed : Prop) : Prop :=
  ∃ S', Acc S X S' ∧ Only l S S' ∧ (closed → ∃ st, alookup l S' = some st ∧ Done st)

theorem OpAcc.nil (l : Nat) (S : Table) {closed : Prop} (h : ¬ closed) : OpAcc l S [] closed :=
  ⟨S, Acc.nil S, Only.refl l S, fun hc => absurd hc h⟩

/-- a stream operation that ends by closing the stream: from open-and-quiet, accepted; closed by both
    sides after a normal return -/
def SC {α : Type} (l r : Nat) (x : M α) : Prop :=
  ∀ (w w' : World) (res : Except Err α), x w = (res, w') → lockTransport ∉ w.locks →
    ∃ X Y, Adds w w' X Y ∧ (NZ X → ∀ (S : Table) (st : St), alookup l S = some st → Quiet1 r st →
      ∃ st', Acc S X (aset l st' S) ∧ (∀ a, res = .ok a → Done st'))

theorem SC_bind {α β : Type} {l r : Nat} {x : M α} {f : α → M β} (hx : SQ l r x) (hfr : Fr x) (hf : ∀ a, SC l r (f a)) :
    SC l r (x >>= f) := by
  intro w w' res h hl
  rcases bind_any_inv h with ⟨e, he, rfl⟩ | ⟨a, w1, ha, hrest⟩
  · obtain ⟨X, Y, hA, hacc⟩ := hx w w' _ he hl
    refine ⟨X, Y, hA, ?_⟩
    intro hnz S st hst hq
    obtain ⟨st', h1, _⟩ := hacc hnz S st hst hq
    exact ⟨st', h1, by simp⟩
  · obtain ⟨X1, Y1, hA1, hacc1⟩ := hx w w1 _ ha hl
    have hl1 : lockTransport ∉ w1.locks := by rw [Fr.locks_of hfr ha]; exact hl
    obtain ⟨X2, Y2, hA2, hacc2⟩ := hf a w1 w' res hrest hl1
    refine ⟨X1 ++ X2, Y1 ++ Y2, hA1.trans hA2, ?_⟩
    intro hnz S st hst hq
    obtain ⟨hn1, hn2⟩ := NZ_append.1 hnz
    obtain ⟨st1, h1, hq1⟩ := hacc1 hn1 S st hst hq
    obtain ⟨st2, h2, hq2⟩ := hacc2 hn2 (aset l st1 S) st1 (alookup_aset_self _ _ _) hq1
    rw [aset_aset] at h2
    exact ⟨st2, h1.append h2, hq2⟩

/-- `_clse` followed by something that does not talk to the device -/
theorem SC_clse_then {β : Type} {t : Txn} {l r : Nat} (hi : Ids t l r) {f : Unit → M β} (hf : ∀ u, Qt (f u)) :
    SC l r (clse t >>= f) := by
  intro w w' res h hl
  rcases bind_any_inv h with ⟨e, he, rfl⟩ | ⟨u, w1, hc, hrest⟩
  · obtain ⟨X, hA, hacc⟩ := clse_mon hi he hl
    refine ⟨X, [], hA, ?_⟩
    intro hnz S st hst hq
    obtain ⟨st', h1, _, _⟩ := hacc hnz S st hst hq.live
    exact ⟨st', h1, by simp⟩
  · obtain ⟨X, hA, hacc⟩ := clse_mon hi hc hl
    have hB := (hf u).adds hrest
    refine ⟨X, [], by simpa using hA.trans hB, ?_⟩
    intro hnz S st hst hq
    obtain ⟨st', h1, _, h3⟩ := hacc hnz S st hst hq.live
    exact ⟨st', h1, fun _ _ => h3 u rfl⟩

/-- a whole operation that opens at most one stream (with the next local id), whatever its outcome:
    from every table in which that id is fresh the monitor accepts the conversation, only the entry of
    the new stream changes, and — if the operation `closes` its stream — the stream ends closed by both
    sides when the operation returns normally -/
def OneStream {α : Type} (closes : Prop) (x : M α) : Prop :=
  ∀ (w w' : World) (res : Except Err α), x w = (res, w') → w.locks = [] →
    ∃ X Y, Adds w w' X Y ∧ ((X = [] ∧ w'.localId = w.localId) ∨ w'.localId = nextId w.localId) ∧
      (NZ X → ∀ S, w.localId < 4294967296 → Fresh S (nextId w.localId) →
        OpAcc (nextId w.localId) S X (closes ∧ ∃ a, res = .ok a))

/-- `_open` always advances the id counter by one step, whatever its outcome -/
theorem openStream_localId {dest : Bytes} {tt rt total : Timeout} {w w' : World} {res : Except Err Txn}
    (h : openStream dest tt rt total w = (res, w')) (hl : w.locks = []) : w'.localId = nextId w.localId := by
  rw [openStream_alloc_run dest tt rt total w (by simp [hl])] at h
  split at h
  · next t _ =>
    have hid : IdEq (openRest dest t) := by unfold openRest; ideq
    exact hid.of h
  · cases h; rfl

/-- `_open` followed by an operation that uses and closes the new stream -/
theorem OneStream_open_then {β : Type} {dest : Bytes} {tt rt total : Timeout} {k : Txn → M β}
    (hk : ∀ t l r, Ids t l r → SC l r (k t)) (hkid : ∀ t, IdEq (k t)) : OneStream True (openStream dest tt rt total >>= k) := by
  intro w w' res h hl
  rcases bind_any_inv h with ⟨e, he, rfl⟩ | ⟨t, w1, ho, hrest⟩
  · obtain ⟨X, hA, _, hacc⟩ := openStream_mon he hl
    refine ⟨X, [], hA, Or.inr (openStream_localId he hl), ?_⟩
    intro _ S hid hf
    obtain ⟨S', h1, h2⟩ := hacc S hid hf
    exact ⟨S', h1, h2, by simp⟩
  · obtain ⟨X1, hA1, _, r, hi, hacc1⟩ := openStream_mon ho hl
    have hl1 : lockTransport ∉ w1.locks := by rw [Fr.locks_of (Fr_openStream _ _ _ _) ho, hl]; simp
    obtain ⟨X2, Y2, hA2, hacc2⟩ := hk t _ r hi w1 w' res hrest hl1
    refine ⟨X1 ++ X2, [] ++ Y2, hA1.trans hA2, Or.inr (((hkid t).of hrest).trans (openStream_localId ho hl)), ?_⟩
    intro hnz S hid hf
    obtain ⟨_, hn2⟩ := NZ_append.1 hnz
    obtain ⟨st1, h1, hq1⟩ := hacc1 S hid hf
    obtain ⟨st2, h2, hd⟩ := hacc2 hn2 (aset (nextId w.localId) st1 S) st1 (alookup_aset_self _ _ _) hq1
    rw [aset_aset] at h2
    exact ⟨aset (nextId w.localId) st2 S, h1.append h2, Only.aset _ _ S, fun ⟨_, a, ha⟩ => ⟨st2, alookup_aset_self _ _ _, hd a ha⟩⟩

/-- something that does not talk to the device and leaves the id counter alone, first -/
theorem OneStream_prefix {α β : Type} {c : Prop} {x : M α} {f : α → M β} (hq : Qt x) (hfr : Fr x) (hid : IdEq x)
    (hf : ∀ a, OneStream c (f a)) : OneStream c (x >>= f) := by
  intro w w' res h hl
  rcases bind_any_inv h with ⟨e, he, rfl⟩ | ⟨a, w1, ha, hrest⟩
  · refine ⟨[], [], hq.adds he, Or.inl ⟨rfl, hid.of he⟩, ?_⟩
    intro _ S _ _
    exact OpAcc.nil _ S (by simp)
  · have hl1 : w1.locks = [] := by rw [Fr.locks_of hfr ha]; exact hl
    obtain ⟨X, Y, hA, hloc, hacc⟩ := hf a w1 w' res hrest hl1
    refine ⟨X, Y, by simpa using (hq.adds ha).trans hA, ?_⟩
    rw [← hid.of ha]
    exact ⟨hloc, hacc⟩

/-- something that does not talk to the device, afterwards -/
theorem OneStream_suffix {α β : Type} {c : Prop} {x : M α} {f : α → M β} (hx : OneStream c x) (hf : ∀ a, Qt (f a))
    (hfid : ∀ a, IdEq (f a)) : OneStream c (x >>= f) := by
  intro w w' res h hl
  rcases bind_any_inv h with ⟨e, he, rfl⟩ | ⟨a, w1, ha, hrest⟩
  · obtain ⟨X, Y, hA, hloc, hacc⟩ := hx w w' _ he hl
    refine ⟨X, Y, hA, hloc, ?_⟩
    intro hnz S hid hfS
    obtain ⟨S', h1, h2, _⟩ := hacc hnz S hid hfS
    exact ⟨S', h1, h2, by simp⟩
  · obtain ⟨X, Y, hA, hloc, hacc⟩ := hx w w1 _ ha hl
    refine ⟨X, Y, by simpa using hA.trans ((hf a).adds hrest), by rw [(hfid a).of hrest]; exact hloc, ?_⟩
    intro hnz S hid hfS
    obtain ⟨S', h1, h2, h3⟩ := hacc hnz S hid hfS
    exact ⟨S', h1, h2, fun hc => h3 ⟨hc.1, a, rfl⟩⟩

theorem Qt_runGuard (g : String) (p : Option Bytes) : Qt (runGuard g p) :=
  Qt_of_trace_eq fun w => by unfold runGuard; repeat' split
                             all_goals rfl
macro_rules | `(tactic| qt_lemma) => `(tactic| with_reducible exact Qt_runGuard _ _)

theorem Qt_runGuards : ∀ gs p, Qt (runGuards gs p) := by
  intro gs
  induction gs with
  | nil => intro p; unfold runGuards; qt
  | cons g gs ih => intro p; unfold runGuards; qt [ih]
macro_rules | `(tactic| qt_lemma) => `(tactic| with_reducible exact Qt_runGuards _ _)

/-- `_read_until_close` closes the stream it is given -/
theorem SC_readUntilClose {t : Txn} {l r : Nat} (hi : Ids t l r) : SC l r (readUntilClose t) := by
  intro w w' res h hl
  obtain ⟨X, Y, hA, hacc⟩ := readUntilClose_mon hi h hl
  refine ⟨X, Y, hA, ?_⟩
  intro hnz S st hst hq
  obtain ⟨st', h1, _, h3⟩ := hacc hnz S st hst hq.live
  exact ⟨st', h1, h3⟩

/-- `_streaming_command`: shell, exec_out, streaming_shell and root all run through it -/
theorem OneStream_streamingCommand (svc cmd : Bytes) (tt rt total : Timeout) :
    OneStream True (streamingCommand svc cmd tt rt total) := by
  unfold streamingCommand
  exact OneStream_open_then (fun t l r hi => SC_readUntilClose hi) (fun t => by ideq)

theorem OneStream_service (svc cmd : Bytes) (tt rt total : Timeout) (dec : Bool) : OneStream True (service svc cmd tt rt total dec) := by
  unfold service
  exact OneStream_suffix (OneStream_streamingCommand _ _ _ _ _) (fun _ => by qt) (fun _ => by ideq)

theorem OneStream_streamingService (svc cmd : Bytes) (tt rt : Timeout) (dec : Bool) : OneStream True (streamingService svc cmd tt rt dec) := by
  unfold streamingService
  exact OneStream_suffix (OneStream_streamingCommand _ _ _ _ _) (fun _ => by qt) (fun _ => by ideq)

theorem OneStream_devShellLike (op : String) (svc cmd : Bytes) (tt rt total : Timeout) (dec : Bool) :
    OneStream True (devShellLike op svc cmd tt rt total dec) := by
  unfold devShellLike
  exact OneStream_prefix (by qt) (by fr) (by ideq) (fun _ => OneStream_service _ _ _ _ _ _)

theorem OneStream_devRoot (tt rt total : Timeout) : OneStream True (devRoot tt rt total) := by
  unfold devRoot
  exact OneStream_prefix (by qt) (by fr) (by ideq) (fun _ => OneStream_suffix (OneStream_service _ _ _ _ _ _) (fun _ => by qt) (fun _ => by ideq))

theorem OneStream_devStreamingShell (cmd : Bytes) (tt rt : Timeout) (dec : Bool) : OneStream True (devStreamingShell cmd tt rt dec) := by
  unfold devStreamingShell
  exact OneStream_prefix (by qt) (by fr) (by ideq) (fun _ => OneStream_streamingService _ _ _ _ _)

/-- `stat` -/
theorem OneStream_devStat (devPath : Bytes) (tt rt : Timeout) : OneStream True (devStat devPath tt rt) := by
  unfold devStat
  refine OneStream_prefix (by qt) (by fr) (by ideq) (fun _ => OneStream_open_then (fun t l r hi => ?_) (fun t => by ideq))
  refine SC_bind (by sq) (by fr) (fun w0 => ?_)
  dsimp only
  refine SC_bind (by sq) (by fr) (fun fi => ?_)
  refine SC_bind (by sq) (by fr) (fun x => ?_)
  obtain ⟨rec, fi'⟩ := x
  exact SC_clse_then hi (fun _ => by qt)

/-- `list` -/
theorem OneStream_devList (devPath : Bytes) (tt rt : Timeout) : OneStream True (devList devPath tt rt) := by
  unfold devList
  refine OneStream_prefix (by qt) (by fr) (by ideq) (fun _ => OneStream_open_then (fun t l r hi => ?_) (fun t => by ideq))
  refine SC_bind (by sq) (by fr) (fun w0 => ?_)
  dsimp only
  refine SC_bind (by sq) (by fr) (fun fi => ?_)
  refine SC_bind (SQ_listLoop hi _ _ _) (by fr) (fun files => ?_)
  exact SC_clse_then hi (fun _ => by qt)

/-- `_clse` closes the stream it is given -/
theorem SC_clse {t : Txn} {l r : Nat} (hi : Ids t l r) : SC l r (clse t) := by
  intro w w' res h hl
  obtain ⟨X, hA, hacc⟩ := clse_mon hi h hl
  refine ⟨X, [], hA, ?_⟩
  intro hnz S st hst hq
  obtain ⟨st', h1, _, h3⟩ := hacc hnz S st hst hq.live
  exact ⟨st', h1, h3⟩

/-- `push` of one file / BytesIO -/
theorem OneStream_pushFile (fid : Nat) (devPath : Bytes) (mode mtime : Nat) (cb : CbMode) (tt rt : Timeout) :
    OneStream True (pushFile fid devPath mode mtime cb tt rt) := by
  unfold pushFile
  refine OneStream_prefix (by qt) (by fr) (by ideq) (fun content => OneStream_open_then (fun t l r hi => ?_) (fun t => by ideq))
  refine SC_bind (by sq) (by fr) (fun w0 => ?_)
  dsimp only
  exact SC_bind (SQ_pushOne hi _ _ _ _ _ _) (by fr) (fun _ => SC_clse hi)

/-- `reboot`: the stream is opened and left alone -/
theorem OneStream_devReboot (fb : Bool) (tt rt total : Timeout) : OneStream False (devReboot fb tt rt total) := by
  unfold devReboot
  refine OneStream_prefix (by qt) (by fr) (by ideq) (fun _ => ?_)
  intro w w' res h hl
  rcases bind_any_inv h with ⟨e, he, rfl⟩ | ⟨t, w1, ho, hrest⟩
  · obtain ⟨X, hA, _, hacc⟩ := openStream_mon he hl
    refine ⟨X, [], hA, Or.inr (openStream_localId he hl), ?_⟩
    intro _ S hid hf
    obtain ⟨S', h1, h2⟩ := hacc S hid hf
    exact ⟨S', h1, h2, by simp⟩
  · obtain ⟨X, hA, _, r, hi, hacc⟩ := openStream_mon ho hl
    cases hrest
    refine ⟨X, [], hA, Or.inr (openStream_localId ho hl), ?_⟩
    intro _ S hid hf
    obtain ⟨st, h1, _⟩ := hacc S hid hf
    exact ⟨_, h1, Only.aset _ _ S, by simp⟩

/-! ### `pull` -/

theorem tryFinally_inv' {α : Type} {x : M α} {fin : M Unit} {w w' : World} {res : Except Err α}
    (h : M.tryFinally x fin w = (res, w')) :
    ∃ r1 w1 r2, x w = (r1, w1) ∧ fin w1 = (r2, w') ∧ (∀ a, res = .ok a → r1 = .ok a ∧ r2 = .ok ()) := by
  unfold M.tryFinally at h
  cases hx : x w with
  | mk r1 w1 =>
    rw [hx] at h
    cases hf : fin w1 with
    | mk r2 w2 =>
      cases r1 <;> cases r2 <;> simp only [hf, Prod.mk.injEq] at h <;> obtain ⟨rfl, rfl⟩ := h <;>
        exact ⟨_, _, _, rfl, hf, by simp⟩

/-- `try: x  finally: _clse` where `x` is a stream operation -/
theorem SC_tryFinally_clse {α : Type} {t : Txn} {l r : Nat} (hi : Ids t l r) {x : M α} (hx : SQ l r x) (hfr : Fr x) :
    SC l r (M.tryFinally x (clse t)) := by
  intro w w' res h hl
  obtain ⟨r1, w1, r2, hx1, hc, hres⟩ := tryFinally_inv' h
  obtain ⟨X1, Y1, hA1, hacc1⟩ := hx w w1 r1 hx1 hl
  have hl1 : lockTransport ∉ w1.locks := by rw [Fr.locks_of hfr hx1]; exact hl
  obtain ⟨X2, hA2, hacc2⟩ := clse_mon hi hc hl1
  refine ⟨X1 ++ X2, Y1 ++ [], hA1.trans hA2, ?_⟩
  intro hnz S st hst hq
  obtain ⟨hn1, hn2⟩ := NZ_append.1 hnz
  obtain ⟨st1, h1, hq1⟩ := hacc1 hn1 S st hst hq
  obtain ⟨st2, h2, _, hd⟩ := hacc2 hn2 (aset l st1 S) st1 (alookup_aset_self _ _ _) hq1.live
  rw [aset_aset] at h2
  exact ⟨st2, h1.append h2, fun a ha => hd () (hres a ha).2⟩

/-- the part of `_pull` after the optional `stat` -/
def pullRest (devPath : Bytes) (cb : CbMode) (t : Txn) (fi : FsInfo) (total : Nat) : M Unit := do
  let fi ← fsSend .RECV t fi devPath
  let w ← M.get
  pullLoop devPath cb total t w.fuel fi

theorem SQ_pullRest {t : Txn} {l r : Nat} (hi : Ids t l r) (devPath : Bytes) (cb : CbMode) (fi : FsInfo) (total : Nat) :
    SQ l r (pullRest devPath cb t fi total) := by
  unfold pullRest
  refine SQ_bind (by sq) (by fr) (fun fi' => SQ_bind (by sq) (by fr) (fun w0 => SQ_pullLoop hi _ _ _ _ _))

theorem Fr_pullRest (devPath : Bytes) (cb : CbMode) (t : Txn) (fi : FsInfo) (total : Nat) : Fr (pullRest devPath cb t fi total) := by
  unfold pullRest; fr
theorem IdEq_pullRest (devPath : Bytes) (cb : CbMode) (t : Txn) (fi : FsInfo) (total : Nat) : IdEq (pullRest devPath cb t fi total) := by
  unfold pullRest; ideq

/-- the optional `stat` at the head of `_pull` -/
def pullTotal (devPath : Bytes) (cb : CbMode) (t : Txn) : M Nat :=
  if cb ≠ CbMode.none then do
    match (← devStat devPath t.tt t.rt) with
    | .stat _ size _ => pure size
    | _ => pure 0
  else pure 0

theorem pullInner_eq (devPath : Bytes) (cb : CbMode) (t : Txn) (fi : FsInfo) :
    pullInner devPath cb t fi = pullTotal devPath cb t >>= pullRest devPath cb t fi := by
  unfold pullInner pullTotal pullRest
  by_cases hc : cb = CbMode.none
  · subst hc; rfl
  · simp only [ne_eq, hc, not_false_eq_true, if_true]
    funext w
    simp only [bind_run]
    cases h : devStat devPath t.tt t.rt w with
    | mk r w1 =>
      cases r with
      | error e => rfl
      | ok v => cases v <;> rfl

theorem IdEq_pullInner_none (devPath : Bytes) (t : Txn) (fi : FsInfo) : IdEq (pullInner devPath .none t fi) := by
  rw [pullInner_eq]
  refine IdEq_bind ?_ (fun _ => IdEq_pullRest _ _ _ _ _)
  unfold pullTotal; simp only [ne_eq, not_true_eq_false, if_false]; exact IdEq_pure _

/-- without a progress callback `_pull` is an operation on its own stream only -/
theorem SQ_pullInner_none {t : Txn} {l r : Nat} (hi : Ids t l r) (devPath : Bytes) (fi : FsInfo) :
    SQ l r (pullInner devPath .none t fi) := by
  rw [pullInner_eq]
  refine SQ_bind (SQ_of_Qt ?_) ?_ (fun total => SQ_pullRest hi _ _ _ _)
  · unfold pullTotal; simp only [ne_eq, not_true_eq_false, if_false]; exact Qt_pure _
  · unfold pullTotal; simp only [ne_eq, not_true_eq_false, if_false]; exact Fr_pure _

/-- `pull` without a progress callback -/
theorem OneStream_devPull_none (devPath : Bytes) (tt rt : Timeout) : OneStream True (devPull devPath .none tt rt) := by
  unfold devPull
  refine OneStream_prefix (by qt) (by fr) (by ideq) (fun _ => OneStream_prefix (by qt) (by fr) (by ideq) (fun _ =>
    OneStream_open_then (fun t l r hi => ?_) (fun t => by ideq [IdEq_pullInner_none])))
  refine SC_bind (by sq) (by fr) (fun w0 => ?_)
  dsimp only
  intro w w' res h hl
  rcases bind_any_inv h with ⟨e, he, rfl⟩ | ⟨u, w1, hu, hrest⟩
  · obtain ⟨X, Y, hA, hacc⟩ := SC_tryFinally_clse hi (SQ_pullInner_none hi devPath _) (by fr) w w' _ he hl
    exact ⟨X, Y, hA, fun hnz S st hst hq => by
      obtain ⟨st', h1, _⟩ := hacc hnz S st hst hq
      exact ⟨st', h1, by simp⟩⟩
  · cases hrest
    obtain ⟨X, Y, hA, hacc⟩ := SC_tryFinally_clse hi (SQ_pullInner_none hi devPath _) (by fr) w w' _ hu hl
    exact ⟨X, Y, hA, fun hnz S st hst hq => by
      obtain ⟨st', h1, hd⟩ := hacc hnz S st hst hq
      exact ⟨st', h1, fun _ _ => hd u rfl⟩⟩

/-- `OneStream` spelled out on the trace and the monitor loop -/
theorem OneStream.explicit {α : Type} {c : Prop} {x : M α} (hx : OneStream c x) {w w' : World} {res : Except Err α}
    (h : x w = (res, w')) (hl : w.locks = []) :
    ∃ evs : List TEv, w'.trace = evs ++ w.trace ∧ ((∀ p ∈ delivered evs, p.arg1 ≠ 0) →
      ∀ S : Table, w.localId < 4294967296 → (∀ st, alookup (nextId w.localId) S = some st → st.done = true) →
        ∃ S', Monitor.run S (ofXfers (exchanged evs)) = (S', []) ∧
          (∀ k, k ≠ nextId w.localId → alookup k S' = alookup k S) ∧
          (c → (∃ a, res = .ok a) → ∃ st, alookup (nextId w.localId) S' = some st ∧ Done st)) := by
  obtain ⟨X, Y, ⟨evs, htr, hxe, _⟩, _, hacc⟩ := hx w w' res h hl
  subst hxe
  refine ⟨evs, htr, ?_⟩
  intro hnz S hid hf
  obtain ⟨S', h1, h2, h3⟩ := hacc (by intro p hp; exact hnz p (by rw [delivered_eq_rxs]; exact hp)) S hid hf
  exact ⟨S', h1, h2, fun hc ha => h3 ⟨hc, ha⟩⟩

end Adb
