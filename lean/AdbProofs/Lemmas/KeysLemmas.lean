import AdbModel.Keys
import AdbProofs.Lemmas.Bytes
import Mathlib.FieldTheory.Finite.Basic
import Mathlib.Data.Nat.ChineseRemainder
import Mathlib.Data.Nat.Totient
import Mathlib.Tactic.Ring
import Mathlib.Tactic.NormNum.Prime
/-
  Lemmas behind property C17 (key material): modular exponentiation, RSA round trip (Fermat + CRT),
  byte-string/integer conversions, EMSA-PKCS1-v1_5 layout, the Android public key blob, base64.
-/
namespace Adb
namespace Keys

/-! ### powMod -/

theorem powModAux_eq (m : Nat) : ∀ (fuel b e acc : Nat), e < 2 ^ fuel → acc % m = acc →
    powModAux m fuel b e acc = acc * b ^ e % m := by
  intro fuel
  induction fuel with
  | zero =>
    intro b e acc he hacc
    have : e = 0 := by simpa using he
    subst this
    simp [powModAux, hacc]
  | succ fuel ih =>
    intro b e acc he hacc
    by_cases h0 : e = 0
    · subst h0; simp [powModAux, hacc]
    · have he2 : e / 2 < 2 ^ fuel := by
        rw [pow_succ] at he; omega
      simp only [powModAux, h0, if_false]
      by_cases h1 : e % 2 = 1
      · simp only [h1, if_true]
        rw [ih _ _ _ he2 (Nat.mod_mod _ _)]
        have hm : acc * b % m * (b * b % m) ^ (e / 2) ≡ acc * b * (b * b) ^ (e / 2) [MOD m] :=
          Nat.ModEq.mul (Nat.mod_modEq _ _) ((Nat.mod_modEq _ _).pow _)
        have hb : acc * b * (b * b) ^ (e / 2) = acc * b ^ e := by
          conv_rhs => rw [← Nat.div_add_mod e 2, h1]
          rw [pow_succ, pow_mul]; ring
        rw [← hb]; exact hm
      · have h1' : e % 2 = 0 := by omega
        simp only [h1', show (0 : Nat) ≠ 1 by decide, if_false]
        rw [ih _ _ _ he2 hacc]
        have hm : acc * (b * b % m) ^ (e / 2) ≡ acc * (b * b) ^ (e / 2) [MOD m] :=
          Nat.ModEq.mul rfl ((Nat.mod_modEq _ _).pow _)
        have hb : acc * (b * b) ^ (e / 2) = acc * b ^ e := by
          conv_rhs => rw [← Nat.div_add_mod e 2, h1']
          rw [Nat.add_zero, pow_mul]; ring
        rw [← hb]; exact hm

theorem powMod_eq (b e m : Nat) : powMod b e m = b ^ e % m := by
  unfold powMod
  rw [powModAux_eq m _ _ _ _ Nat.lt_log2_self (Nat.mod_mod _ _)]
  have : 1 % m * (b % m) ^ e ≡ 1 * b ^ e [MOD m] :=
    Nat.ModEq.mul (Nat.mod_modEq _ _) ((Nat.mod_modEq _ _).pow _)
  rw [one_mul] at this
  exact this

/-! ### RSA: Fermat + CRT -/

/-- Fermat in the form RSA needs: exponents `≡ 1 (mod p-1)` act as the identity modulo `p`,
    also on multiples of `p`. -/
theorem fermat_exp {p : Nat} (hp : p.Prime) (k x : Nat) : x ^ (1 + k * (p - 1)) ≡ x [MOD p] := by
  by_cases hdvd : p ∣ x
  · have hx : x ≡ 0 [MOD p] := (Nat.modEq_zero_iff_dvd).2 hdvd
    have : x ^ (1 + k * (p - 1)) ≡ 0 [MOD p] := by
      rw [pow_add, pow_one]
      have := hx.mul_right (x ^ (k * (p - 1)))
      rwa [zero_mul] at this
    exact this.trans hx.symm
  · have hc : x.Coprime p := ((Nat.Prime.coprime_iff_not_dvd hp).2 hdvd).symm
    have h1 : x ^ (p - 1) ≡ 1 [MOD p] := by
      have := Nat.ModEq.pow_totient hc
      rwa [Nat.totient_prime hp] at this
    have h2 : (x ^ (p - 1)) ^ k ≡ 1 [MOD p] := by
      have := h1.pow k
      rwa [one_pow] at this
    have h3 : x ^ (1 + k * (p - 1)) = x * (x ^ (p - 1)) ^ k := by
      rw [pow_add, pow_one, ← pow_mul, Nat.mul_comm k]
    rw [h3]
    have := h2.mul_left x
    rwa [mul_one] at this

theorem rsa_exp {p q : Nat} (hp : p.Prime) (hq : q.Prime) (hpq : p ≠ q) {t : Nat}
    (ht : ∃ kp kq, t = 1 + kp * (p - 1) ∧ t = 1 + kq * (q - 1)) (x : Nat) :
    x ^ t ≡ x [MOD p * q] := by
  obtain ⟨kp, kq, h1, h2⟩ := ht
  have hc : p.Coprime q := (Nat.coprime_primes hp hq).2 hpq
  refine (Nat.modEq_and_modEq_iff_modEq_mul hc).1 ⟨?_, ?_⟩
  · rw [h1]; exact fermat_exp hp kp x
  · rw [h2]; exact fermat_exp hq kq x

/-! ### Byte strings and integers -/

@[simp] theorem leBytes_length : ∀ (len n : Nat), (leBytes len n).length = len
  | 0, _ => rfl
  | len + 1, n => by simp [leBytes, leBytes_length len]

@[simp] theorem i2osp_length (len n : Nat) : (i2osp len n).length = len := by simp [i2osp]

theorem leNat_lt : ∀ bs : Bytes, leNat bs < 256 ^ bs.length
  | [] => by simp [leNat]
  | b :: bs => by
    have := leNat_lt bs
    have hb := UInt8.toNat_lt b
    simp only [leNat, List.length_cons, pow_succ]
    omega

theorem leNat_leBytes_mod : ∀ (len n : Nat), leNat (leBytes len n) = n % 256 ^ len
  | 0, n => by simp [leBytes, leNat, Nat.mod_one]
  | len + 1, n => by
    simp only [leBytes, leNat, leNat_leBytes_mod len, UInt8.toNat_ofNat']
    rw [show (2 : Nat) ^ 8 = 256 from rfl, pow_succ, Nat.mul_comm (256 ^ len) 256, Nat.mod_mul]

theorem leNat_leBytes {len n : Nat} (h : n < 256 ^ len) : leNat (leBytes len n) = n := by
  rw [leNat_leBytes_mod, Nat.mod_eq_of_lt h]

theorem ofNat_toNat_add (b : UInt8) (k : Nat) : UInt8.ofNat (b.toNat + 256 * k) = b := by
  apply UInt8.toNat_inj.1
  rw [UInt8.toNat_ofNat']
  have := UInt8.toNat_lt b
  omega

theorem leBytes_leNat : ∀ bs : Bytes, leBytes bs.length (leNat bs) = bs
  | [] => rfl
  | b :: bs => by
    have hb := UInt8.toNat_lt b
    simp only [List.length_cons, leBytes, leNat, ofNat_toNat_add]
    have : (b.toNat + 256 * leNat bs) / 256 = leNat bs := by omega
    rw [this, leBytes_leNat bs]

theorem leNat_append : ∀ a b : Bytes, leNat (a ++ b) = leNat a + 256 ^ a.length * leNat b
  | [], b => by simp [leNat]
  | x :: a, b => by
    simp only [List.cons_append, leNat, leNat_append a b, List.length_cons, pow_succ]
    ring

theorem os2ip_lt (bs : Bytes) : os2ip bs < 256 ^ bs.length := by
  have := leNat_lt bs.reverse
  simpa [os2ip] using this

theorem os2ip_i2osp {len n : Nat} (h : n < 256 ^ len) : os2ip (i2osp len n) = n := by
  simp [os2ip, i2osp, leNat_leBytes h]

theorem i2osp_os2ip {len : Nat} {bs : Bytes} (h : bs.length = len) : i2osp len (os2ip bs) = bs := by
  subst h
  have := leBytes_leNat bs.reverse
  simp only [List.length_reverse] at this
  simp [os2ip, i2osp, this]

/-- Big-endian reading of `a ++ b`. -/
theorem os2ip_append (a b : Bytes) : os2ip (a ++ b) = os2ip a * 256 ^ b.length + os2ip b := by
  simp only [os2ip, List.reverse_append, leNat_append, List.length_reverse]
  ring

/-! ### EMSA-PKCS1-v1_5 -/

theorem modSize_eq : modSize = 256 := rfl
theorem modWords_eq : modWords = 64 := rfl
theorem encSize_eq : encSize = 524 := rfl

theorem sha1Prefix_length : sha1Prefix.length = 15 := rfl

/-- Layout of the encoded message for a 20-byte token. -/
theorem emsa_layout {token : Bytes} (h : token.length = 20) :
    emsa token 256 = [0, 1] ++ (List.replicate 218 0xFF ++ [0] ++ sha1Prefix ++ token) := by
  have e : 256 - 3 - (sha1Prefix.length + token.length) = 218 := by rw [h, sha1Prefix_length]
  unfold emsa
  rw [e]
  simp only [List.append_assoc]

theorem emsa_tail_length {token : Bytes} (h : token.length = 20) :
    (List.replicate 218 (0xFF : UInt8) ++ [0] ++ sha1Prefix ++ token).length = 254 := by
  simp only [List.length_append, List.length_replicate, List.length_cons, List.length_nil, h,
    sha1Prefix_length]

theorem emsa_length {token : Bytes} (h : token.length = 20) : (emsa token 256).length = 256 := by
  rw [emsa_layout h, List.length_append, emsa_tail_length h]
  rfl

theorem two_pow_2033 : (2 : Nat) ^ 2033 = 2 * 256 ^ 254 := by
  rw [show (256 : Nat) = 2 ^ 8 from rfl, ← pow_mul, ← pow_succ']

theorem emsa_lt {token : Bytes} (h : token.length = 20) : os2ip (emsa token 256) < 2 ^ 2033 := by
  rw [emsa_layout h, os2ip_append]
  have hr := os2ip_lt (List.replicate 218 0xFF ++ [0] ++ sha1Prefix ++ token)
  rw [emsa_tail_length h] at hr ⊢
  have h1 : os2ip [0, 1] = 1 := by simp [os2ip, leNat]
  rw [h1, two_pow_2033]
  omega

/-! ### Valid keys, signing and verifying -/

/-- A 2048-bit RSA key as `keygen` generates it (the key generator is trusted for primality):
    `n = p*q` with distinct primes, `n` of exactly 2048 bits, and `e*d ≡ 1` modulo `p-1` and `q-1`
    (this covers both `d = e⁻¹ mod φ(n)` and `d = e⁻¹ mod lcm(p-1, q-1)`). -/
structure ValidKey (n e d p q : Nat) : Prop where
  hp : p.Prime
  hq : q.Prime
  hpq : p ≠ q
  hn : n = p * q
  lo : 2 ^ 2047 ≤ n
  hi : n < 2 ^ 2048
  hd : ∃ kp kq, e * d = 1 + kp * (p - 1) ∧ e * d = 1 + kq * (q - 1)

set_option exponentiation.threshold 4200 in
theorem two_pow_2048 : (2 : Nat) ^ 2048 = 256 ^ 256 := by norm_num

set_option exponentiation.threshold 4200 in
theorem two_pow_2033_le : (2 : Nat) ^ 2033 ≤ 2 ^ 2047 := by norm_num

theorem ValidKey.pow_de {n e d p q : Nat} (k : ValidKey n e d p q) (x : Nat) :
    (x ^ d) ^ e % n = x % n := by
  rw [k.hn, ← pow_mul, Nat.mul_comm d e]
  exact rsa_exp k.hp k.hq k.hpq k.hd x

theorem ValidKey.pow_ed {n e d p q : Nat} (k : ValidKey n e d p q) (x : Nat) :
    (x ^ e) ^ d % n = x % n := by
  rw [k.hn, ← pow_mul]
  exact rsa_exp k.hp k.hq k.hpq k.hd x

theorem sign_verifies {n e d p q : Nat} (k : ValidKey n e d p q) {token : Bytes}
    (ht : token.length = 20) : verify n e token (sign n d token) = true := by
  have hn0 : 0 < n := lt_of_lt_of_le (by positivity) k.lo
  have hn256 : n ≤ 256 ^ 256 := by rw [← two_pow_2048]; exact k.hi.le
  have hm : os2ip (emsa token 256) < n :=
    lt_of_lt_of_le (emsa_lt ht) (le_trans two_pow_2033_le k.lo)
  simp only [verify, sign, modSize_eq, powMod_eq, beq_iff_eq]
  rw [os2ip_i2osp (lt_of_lt_of_le (Nat.mod_lt _ hn0) hn256), ← Nat.pow_mod, k.pow_de,
    Nat.mod_eq_of_lt hm, i2osp_os2ip (emsa_length ht)]

theorem signature_unique {n e d p q : Nat} (k : ValidKey n e d p q) {token s : Bytes}
    (hv : verify n e token s = true) (hl : s.length = 256) (hs : os2ip s < n) :
    s = sign n d token := by
  have hn0 : 0 < n := lt_of_lt_of_le (by positivity) k.lo
  have hn256 : n ≤ 256 ^ 256 := by rw [← two_pow_2048]; exact k.hi.le
  simp only [verify, modSize_eq, powMod_eq, beq_iff_eq] at hv
  have h1 : os2ip s ^ e % n = os2ip (emsa token 256) := by
    have := congrArg os2ip hv
    rwa [os2ip_i2osp (lt_of_lt_of_le (Nat.mod_lt _ hn0) hn256)] at this
  have h2 : os2ip s = os2ip (emsa token 256) ^ d % n := by
    rw [← h1, ← Nat.pow_mod, k.pow_ed, Nat.mod_eq_of_lt hs]
  simp only [sign, modSize_eq, powMod_eq]
  rw [← h2, i2osp_os2ip hl]

/-! ### Montgomery parameters and the public key blob -/

theorem totient_two_pow_32 : Nat.totient (2 ^ 32) = 2 ^ 31 := by
  rw [Nat.totient_prime_pow Nat.prime_two (by norm_num : 0 < 32)]
  norm_num

theorem pow_pred_inverse {x m t : Nat} (ht : 0 < t) (h : x ^ t ≡ 1 [MOD m]) :
    x * (x ^ (t - 1) % m) % m = 1 % m := by
  have h2 : x * (x ^ (t - 1) % m) ≡ x * x ^ (t - 1) [MOD m] :=
    Nat.ModEq.mul_left x (Nat.mod_modEq _ _)
  have h3 : x * x ^ (t - 1) = x ^ t := by
    rw [← pow_succ', Nat.sub_add_cancel ht]
  rw [h3] at h2
  exact h2.trans h

theorem inv32_lt (x : Nat) : inv32 x < 2 ^ 32 := by
  rw [inv32, powMod_eq]; exact Nat.mod_lt _ (by norm_num)

/-- `inv32 x` is the inverse of an odd `x` modulo `2^32` (Euler: the unit group has order `2^31`). -/
theorem inv32_spec {x : Nat} (hx : x % 2 = 1) : x * inv32 x % 2 ^ 32 = 1 := by
  have hc2 : Nat.Coprime 2 x := (Nat.Prime.coprime_iff_not_dvd Nat.prime_two).2 (by omega)
  have hc : x.Coprime (2 ^ 32) := (Nat.Coprime.pow_left 32 hc2).symm
  have h := Nat.ModEq.pow_totient hc
  rw [totient_two_pow_32] at h
  rw [inv32, powMod_eq, pow_pred_inverse (t := 2 ^ 31) (by positivity) h]
  norm_num

theorem odd_mod_two_pow_32 {n : Nat} (hn : n % 2 = 1) : n % 2 ^ 32 % 2 = 1 := by omega

theorem n0inv_bounds {n : Nat} (hn : n % 2 = 1) : 0 < n0inv n ∧ n0inv n < 2 ^ 32 := by
  have h1 := inv32_lt (n % 2 ^ 32)
  have h2 := inv32_spec (odd_mod_two_pow_32 hn)
  have h3 : inv32 (n % 2 ^ 32) ≠ 0 := by
    intro h0; rw [h0] at h2; simp at h2
  unfold n0inv
  omega

/-- `n0inv = -1/n mod 2^32`. -/
theorem n0inv_spec {n : Nat} (hn : n % 2 = 1) : n0inv n * n % 2 ^ 32 = 2 ^ 32 - 1 := by
  have h1 := inv32_lt (n % 2 ^ 32)
  have h2 := inv32_spec (odd_mod_two_pow_32 hn)
  generalize hi : inv32 (n % 2 ^ 32) = i at h1 h2
  have hB : i * n % 2 ^ 32 = 1 := by
    have e : i * n ≡ i * (n % 2 ^ 32) [MOD 2 ^ 32] :=
      Nat.ModEq.mul_left i (Nat.mod_modEq n _).symm
    rw [Nat.mul_comm i (n % 2 ^ 32)] at e
    rw [show i * n % 2 ^ 32 = n % 2 ^ 32 * i % 2 ^ 32 from e, h2]
  have hS : ((2 ^ 32 - i) * n + i * n) % 2 ^ 32 = 0 := by
    rw [← Nat.add_mul, Nat.sub_add_cancel h1.le, Nat.mul_mod_right]
  have hA : (2 ^ 32 - i) * n % 2 ^ 32 < 2 ^ 32 := Nat.mod_lt _ (by norm_num)
  rw [Nat.add_mod, hB] at hS
  unfold n0inv
  rw [hi]
  omega

/-- Uniqueness: any 32-bit `y` with `y * n ≡ -1 (mod 2^32)` is `n0inv n`. -/
theorem n0inv_unique {n y : Nat} (hn : n % 2 = 1) (hy : y < 2 ^ 32)
    (h : y * n % 2 ^ 32 = 2 ^ 32 - 1) : y = n0inv n := by
  have hc2 : Nat.Coprime 2 n := (Nat.Prime.coprime_iff_not_dvd Nat.prime_two).2 (by omega)
  have hc : Nat.gcd (2 ^ 32) n = 1 := Nat.Coprime.pow_left 32 hc2
  have heq : y * n ≡ n0inv n * n [MOD 2 ^ 32] := by
    unfold Nat.ModEq; rw [h, n0inv_spec hn]
  have := Nat.ModEq.cancel_right_of_coprime hc heq
  unfold Nat.ModEq at this
  rwa [Nat.mod_eq_of_lt hy, Nat.mod_eq_of_lt (n0inv_bounds hn).2] at this

set_option exponentiation.threshold 4200 in
theorem rr_eq (n : Nat) : rr n = 2 ^ 4096 % n := by
  unfold rr
  rw [modSize_eq, ← Nat.pow_mul, show 256 * 8 * 2 = 4096 from rfl]

theorem rr_lt {n : Nat} (hn : 0 < n) : rr n < n := by
  rw [rr_eq]; exact Nat.mod_lt _ hn

theorem blob_length (n e : Nat) : (blob n e).length = 524 := by
  simp [blob, modSize_eq]

theorem decodeBlob_blob {n e : Nat} (hodd : n % 2 = 1) (hn : n < 2 ^ 2048) (he : e < 2 ^ 32) :
    decodeBlob (blob n e) = some (64, n0inv n, n, rr n, e) := by
  have hlen : ¬ (blob n e).length ≠ encSize := by simp [blob_length, encSize_eq]
  have hn0 : 0 < n := by omega
  have hn' : n < 256 ^ 256 := lt_of_lt_of_eq hn two_pow_2048
  have hrr : rr n < 256 ^ 256 := lt_trans (rr_lt hn0) hn'
  unfold decodeBlob
  rw [if_neg hlen]
  have hb : blob n e = le32 64 ++ (le32 (n0inv n) ++ (leBytes 256 n ++ (leBytes 256 (rr n) ++
      (le32 e ++ [])))) := by
    simp only [blob, modWords_eq, modSize_eq, List.append_assoc, List.append_nil]
  rw [hb]
  simp only [rd32_le32 64 (by norm_num), modWords_eq, modSize_eq, ne_eq, not_true_eq_false,
    if_false, rd32_le32 (n0inv n) (n0inv_bounds hodd).2,
    List.drop_left' (leBytes_length 256 n), List.take_left' (leBytes_length 256 n),
    List.drop_left' (leBytes_length 256 (rr n)), List.take_left' (leBytes_length 256 (rr n)),
    rd32_le32 e he, leNat_leBytes hn', leNat_leBytes hrr]

/-! ### Base64 -/

theorem dec6_enc6 : ∀ v, v < 64 → b64dec6 (b64enc6 v) = some v := by decide

theorem enc6_ne_pad : ∀ v, v < 64 → b64enc6 v ≠ 61 := by decide

theorem ofNat_of_eq (b : UInt8) {x : Nat} (h : x % 256 = b.toNat) : UInt8.ofNat x = b := by
  apply UInt8.toNat_inj.1
  rw [UInt8.toNat_ofNat', show (2 : Nat) ^ 8 = 256 from rfl, h]

theorem b64_roundtrip : ∀ bs : Bytes, b64decode (b64encode bs) = some bs
  | [] => rfl
  | [a] => by
    have ha := UInt8.toNat_lt a
    have e0 := dec6_enc6 (a.toNat * 65536 / 262144) (by omega)
    have e1 := dec6_enc6 (a.toNat * 65536 / 4096 % 64) (by omega)
    simp only [b64encode, b64decode, and_self, if_true, e0, e1]
    rw [ofNat_of_eq a (by omega)]
  | [a, b] => by
    have ha := UInt8.toNat_lt a
    have hb := UInt8.toNat_lt b
    have e0 := dec6_enc6 ((a.toNat * 65536 + b.toNat * 256) / 262144) (by omega)
    have e1 := dec6_enc6 ((a.toNat * 65536 + b.toNat * 256) / 4096 % 64) (by omega)
    have e2 := dec6_enc6 ((a.toNat * 65536 + b.toNat * 256) / 64 % 64) (by omega)
    have n2 := enc6_ne_pad ((a.toNat * 65536 + b.toNat * 256) / 64 % 64) (by omega)
    simp only [b64encode, b64decode, and_self, if_true, n2, if_false, e0, e1, e2]
    rw [ofNat_of_eq a (by omega), ofNat_of_eq b (by omega)]
  | a :: b :: c :: rest => by
    have ha := UInt8.toNat_lt a
    have hb := UInt8.toNat_lt b
    have hc := UInt8.toNat_lt c
    have ih := b64_roundtrip rest
    have e0 := dec6_enc6 ((a.toNat * 65536 + b.toNat * 256 + c.toNat) / 262144) (by omega)
    have e1 := dec6_enc6 ((a.toNat * 65536 + b.toNat * 256 + c.toNat) / 4096 % 64) (by omega)
    have e2 := dec6_enc6 ((a.toNat * 65536 + b.toNat * 256 + c.toNat) / 64 % 64) (by omega)
    have e3 := dec6_enc6 ((a.toNat * 65536 + b.toNat * 256 + c.toNat) % 64) (by omega)
    have n3 := enc6_ne_pad ((a.toNat * 65536 + b.toNat * 256 + c.toNat) % 64) (by omega)
    simp only [b64encode, b64decode, n3, and_false, if_false, e0, e1, e2, e3, ih]
    rw [ofNat_of_eq a (by omega), ofNat_of_eq b (by omega), ofNat_of_eq c (by omega)]

theorem b64encode_length : ∀ bs : Bytes, (b64encode bs).length = 4 * ((bs.length + 2) / 3)
  | [] => rfl
  | [_] => by simp [b64encode]
  | [_, _] => by simp [b64encode]
  | _ :: _ :: _ :: rest => by
    simp only [b64encode, List.length_cons, b64encode_length rest]
    omega

end Keys
end Adb
