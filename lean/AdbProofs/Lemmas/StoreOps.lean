import AdbProofs.Lemmas.StoreLemmas
/- Packet store: each operation's effect on the abstraction `queue` and on `Inv`. -/
namespace Adb
namespace Store

theorem alookup_single_key {β : Type} {l : List (Nat × β)} {k b : Nat} (h : akeys l = [k]) (hb : b ≠ k) :
    alookup b l = none := by
  apply alookup_none_of_not_mem
  simp [h, hb]

theorem queue_clear {s : Store} (hI : Inv s) (a0 a1 b0 b1 : Nat) :
    (clear s a0 a1).queue b0 b1 = if b0 = a0 ∧ b1 = a1 then none else s.queue b0 b1 := by
  cases h1 : alookup a1 s with
  | none =>
    simp only [clear, h1]
    by_cases hb : b0 = a0 ∧ b1 = a1
    · simp [hb, queue, h1]
    · simp [hb]
  | some inner =>
    have ⟨hnd, hne⟩ := inner_of_lookup hI h1
    cases h0 : alookup a0 inner with
    | none =>
      simp only [clear, h1, h0]
      by_cases hb : b0 = a0 ∧ b1 = a1
      · simp [hb, queue, h1, h0]
      · simp [hb]
    | some q =>
      simp only [clear, h1, h0]
      have hk : a0 ∈ akeys inner := mem_akeys_of_alookup h0
      by_cases he : (adel a0 inner).isEmpty = true
      · simp only [he, if_true]
        rw [queue_adel s hI.1]
        have hkeys := (adel_isEmpty_iff hnd hk).1 he
        by_cases hb1 : b1 = a1
        · subst hb1
          by_cases hb0 : b0 = a0
          · simp [hb0]
          · simp [hb0, queue, h1, alookup_single_key hkeys hb0]
        · simp [hb1]
      · simp only [he]
        rw [if_neg (by simp), queue_aset]
        by_cases hb1 : b1 = a1
        · subst hb1
          by_cases hb0 : b0 = a0
          · subst hb0; simp [alookup_adel_self hnd]
          · simp [hb0, alookup_adel_ne (Ne.symm hb0), queue, h1]
        · simp [hb1]

theorem inv_clear {s : Store} (hI : Inv s) (a0 a1 : Nat) : Inv (clear s a0 a1) := by
  cases h1 : alookup a1 s with
  | none => simpa [clear, h1] using hI
  | some inner =>
    have ⟨hnd, hne⟩ := inner_of_lookup hI h1
    cases h0 : alookup a0 inner with
    | none => simpa [clear, h1, h0] using hI
    | some q =>
      simp only [clear, h1, h0]
      by_cases he : (adel a0 inner).isEmpty = true
      · simp only [he, if_true]; exact inv_adel hI a1
      · simp only [he]
        rw [if_neg (by simp)]
        exact inv_aset hI a1 _ (nodup_adel hnd) (by intro h; simp [h] at he)

/-- `put`: a CLSE for a pair without entry is dropped (the K1 behaviour); anything else is appended
    to the pair's queue and no other pair changes. -/
theorem queue_put {s : Store} (a0 a1 : Nat) (cmd : Cmd) (d : Bytes) :
    (cmd = Cmd.CLSE ∧ s.queue a0 a1 = none → put s a0 a1 cmd d = s) ∧
    (¬ (cmd = Cmd.CLSE ∧ s.queue a0 a1 = none) →
      (put s a0 a1 cmd d).queue a0 a1 = some ((s.queue a0 a1).getD [] ++ [(cmd, d)]) ∧
      ∀ b0 b1, ¬ (b0 = a0 ∧ b1 = a1) → (put s a0 a1 cmd d).queue b0 b1 = s.queue b0 b1) := by
  cases h1 : alookup a1 s with
  | none =>
    have hq : s.queue a0 a1 = none := by simp [queue, h1]
    simp only [put, h1]
    constructor
    · rintro ⟨hc, _⟩; simp [hc]
    · intro hno
      have hc : cmd ≠ Cmd.CLSE := fun hc => hno ⟨hc, hq⟩
      simp only [hc, if_false]
      refine ⟨by simp [queue_aset, alookup, hq], ?_⟩
      intro b0 b1 hb
      rw [queue_aset]
      by_cases hb1 : b1 = a1
      · subst hb1
        have hb0 : b0 ≠ a0 := fun h => hb ⟨h, rfl⟩
        simp [alookup, Ne.symm hb0, queue, h1]
      · simp [hb1]
  | some inner =>
    cases h0 : alookup a0 inner with
    | none =>
      have hq : s.queue a0 a1 = none := by simp [queue, h1, h0]
      simp only [put, h1, h0]
      constructor
      · rintro ⟨hc, _⟩; simp [hc]
      · intro hno
        have hc : cmd ≠ Cmd.CLSE := fun hc => hno ⟨hc, hq⟩
        simp only [hc, if_false]
        refine ⟨by simp [queue_aset, hq], ?_⟩
        intro b0 b1 hb
        rw [queue_aset]
        by_cases hb1 : b1 = a1
        · subst hb1
          have hb0 : b0 ≠ a0 := fun h => hb ⟨h, rfl⟩
          simp [alookup_aset_ne (Ne.symm hb0), queue, h1]
        · simp [hb1]
    | some q =>
      have hq : s.queue a0 a1 = some q := by simp [queue, h1, h0]
      simp only [put, h1, h0]
      constructor
      · rintro ⟨_, hn⟩; simp [hq] at hn
      · intro _
        refine ⟨by simp [queue_aset, hq], ?_⟩
        intro b0 b1 hb
        rw [queue_aset]
        by_cases hb1 : b1 = a1
        · subst hb1
          have hb0 : b0 ≠ a0 := fun h => hb ⟨h, rfl⟩
          simp [alookup_aset_ne (Ne.symm hb0), queue, h1]
        · simp [hb1]

theorem inv_put {s : Store} (hI : Inv s) (a0 a1 : Nat) (cmd : Cmd) (d : Bytes) : Inv (put s a0 a1 cmd d) := by
  cases h1 : alookup a1 s with
  | none =>
    simp only [put, h1]
    split
    · exact hI
    · exact inv_aset hI a1 _ (by simp [akeys]) (by simp)
  | some inner =>
    have ⟨hnd, hne⟩ := inner_of_lookup hI h1
    cases h0 : alookup a0 inner with
    | none =>
      simp only [put, h1, h0]
      split
      · exact hI
      · exact inv_aset hI a1 _ (nodup_aset hnd) (aset_ne_nil _ _ _)
    | some q =>
      simp only [put, h1, h0]
      exact inv_aset hI a1 _ (nodup_aset hnd) (aset_ne_nil _ _ _)

/-- `get` with a concrete pair: FIFO head, CLSE forgets the pair, errors exactly when nothing is there. -/
theorem get_concrete {s : Store} (hI : Inv s) (a0 a1 : Nat) :
    match s.queue a0 a1 with
    | none => get s (some a0) (some a1) = .error .keyError
    | some [] => get s (some a0) (some a1) = .error .queueEmpty
    | some ((cmd, d) :: q) =>
      ∃ s', get s (some a0) (some a1) = .ok ((cmd, a0, a1, d), s') ∧ Inv s' ∧
        (∀ b0 b1, s'.queue b0 b1 =
          if b0 = a0 ∧ b1 = a1 then (if cmd = Cmd.CLSE then none else some q) else s.queue b0 b1) := by
  cases h1 : alookup a1 s with
  | none =>
    have hq : s.queue a0 a1 = none := by simp [queue, h1]
    simp [hq, get, h1]
  | some inner =>
    have ⟨hnd, hne⟩ := inner_of_lookup hI h1
    cases h0 : alookup a0 inner with
    | none =>
      have hq : s.queue a0 a1 = none := by simp [queue, h1, h0]
      simp [hq, get, h1, h0]
    | some q0 =>
      have hq : s.queue a0 a1 = some q0 := by simp [queue, h1, h0]
      cases q0 with
      | nil => simp [hq, get, h1, h0]
      | cons x q =>
        obtain ⟨cmd, d⟩ := x
        simp only [hq, get, h1, h0]
        have hI' : Inv (aset a1 (aset a0 q inner) s) := inv_aset hI a1 _ (nodup_aset hnd) (aset_ne_nil _ _ _)
        have hq' : ∀ b0 b1, queue (aset a1 (aset a0 q inner) s) b0 b1 =
            if b0 = a0 ∧ b1 = a1 then some q else s.queue b0 b1 := by
          intro b0 b1
          rw [queue_aset]
          by_cases hb1 : b1 = a1
          · subst hb1
            by_cases hb0 : b0 = a0
            · subst hb0; simp
            · simp [hb0, alookup_aset_ne (Ne.symm hb0), queue, h1]
          · simp [hb1]
        by_cases hc : cmd = Cmd.CLSE
        · subst hc
          refine ⟨_, rfl, ?_, ?_⟩
          · simpa using inv_clear hI' a0 a1
          · intro b0 b1
            simp only [if_true]
            rw [queue_clear hI', hq']
            by_cases hb : b0 = a0 ∧ b1 = a1 <;> simp [hb]
        · refine ⟨_, rfl, ?_, ?_⟩
          · simpa [hc] using hI'
          · intro b0 b1
            simp only [hc, if_false]
            exact hq' b0 b1

end Store
end Adb
