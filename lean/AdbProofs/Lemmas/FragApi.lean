import AdbProofs.Lemmas.FragOps
/-
  Fragmentation independence, FileSync and device layers, the public API (`ApiOp`) and histories.
  `pull` wraps its body in `try/finally`; a `hang` of the clean-up `_clse` after a failing body is swallowed by
  Python (the body's exception is re-raised).  `devPullS` / `ApiOp.runS` are the hang-strict variants that
  report such a hang; they coincide with `devPull` / `ApiOp.run` whenever they do not report `hang`.
-/
namespace Adb.Frag
open Adb

/-! ### FileSync layer -/

theorem Ins_fsFlushLoop (t : Txn) (h : RtOk t.rt) : ∀ fuel fi, Ins (fsFlushLoop t fuel fi) := by
  intro fuel
  induction fuel with
  | zero => intro fi; unfold fsFlushLoop; fins
  | succ f ih =>
    intro fi
    unfold fsFlushLoop
    fins [ih]
macro_rules | `(tactic| fins_lemma) => `(tactic| with_reducible exact Ins_fsFlushLoop _ (by assumption) _ _)

theorem Ins_fsFlush (t : Txn) (h : RtOk t.rt) (fi : FsInfo) : Ins (fsFlush t fi) := by
  unfold fsFlush
  fins
macro_rules | `(tactic| fins_lemma) => `(tactic| with_reducible exact Ins_fsFlush _ (by assumption) _)

theorem Ins_fsSend (id : SyncId) (t : Txn) (h : RtOk t.rt) (fi : FsInfo) (data : Bytes) (size : Option Nat) :
    Ins (fsSend id t fi data size) := by
  unfold fsSend
  fins
macro_rules | `(tactic| fins_lemma) => `(tactic| with_reducible exact Ins_fsSend _ _ (by assumption) _ _ _)

theorem Ins_fsReadBufferedLoop (size : Nat) (t : Txn) (h : RtOk t.rt) :
    ∀ fuel fi, Ins (fsReadBufferedLoop size t fuel fi) := by
  intro fuel
  induction fuel with
  | zero => intro fi; unfold fsReadBufferedLoop; fins
  | succ f ih =>
    intro fi
    unfold fsReadBufferedLoop
    fins [ih]
macro_rules | `(tactic| fins_lemma) => `(tactic| with_reducible exact Ins_fsReadBufferedLoop _ _ (by assumption) _ _)

theorem Ins_fsReadBuffered (size : Nat) (t : Txn) (h : RtOk t.rt) (fi : FsInfo) :
    Ins (fsReadBuffered size t fi) := by
  unfold fsReadBuffered
  fins
macro_rules | `(tactic| fins_lemma) => `(tactic| with_reducible exact Ins_fsReadBuffered _ _ (by assumption) _)

theorem Ins_fsRead (ex : List SyncId) (t : Txn) (h : RtOk t.rt) (fi : FsInfo) : Ins (fsRead ex t fi) := by
  unfold fsRead
  fins
macro_rules | `(tactic| fins_lemma) => `(tactic| with_reducible exact Ins_fsRead _ _ (by assumption) _)

theorem Ins_lookupFile (id : Nat) : Ins (lookupFile id) := by
  apply Ins_of_silent
  intro w c cs tr
  unfold lookupFile
  dsimp only
  split <;> rfl
macro_rules | `(tactic| fins_lemma) => `(tactic| with_reducible exact Ins_lookupFile _)

/-- the progress callback: whatever it does (count, raise) the call is recorded and its exception swallowed;
    nothing inside can hang -/
theorem callProgress_eq (cb : CbMode) (path : Bytes) (n total : Nat) (hcb : cb ≠ CbMode.none) :
    callProgress cb path n total = emit (.cbProgress path n total) := by
  funext w
  cases cb with
  | none => exact absurd rfl hcb
  | count => simp [callProgress, M.swallow, bind_run]
  | raise => simp [callProgress, M.swallow, bind_run]

theorem Ins_callProgress (cb : CbMode) (path : Bytes) (n total : Nat) : Ins (callProgress cb path n total) := by
  by_cases hcb : cb = CbMode.none
  · subst hcb; exact Ins_pure _
  · rw [callProgress_eq cb path n total hcb]; exact Ins_emit _ rfl
macro_rules | `(tactic| fins_lemma) => `(tactic| with_reducible exact Ins_callProgress _ _ _ _)

theorem Ins_pushDataLoop (devPath : Bytes) (cb : CbMode) (total chunk : Nat) (t : Txn) (h : RtOk t.rt) :
    ∀ fuel content fi, Ins (pushDataLoop devPath cb total chunk t fuel content fi) := by
  intro fuel
  induction fuel with
  | zero => intro content fi; unfold pushDataLoop; fins
  | succ f ih =>
    intro content fi
    unfold pushDataLoop
    fins [ih]
macro_rules | `(tactic| fins_lemma) => `(tactic| with_reducible exact Ins_pushDataLoop _ _ _ _ _ (by assumption) _ _ _)

theorem Ins_pushStatus (t : Txn) (h : RtOk t.rt) (fi : FsInfo) : Ins (pushStatus t fi) := by
  unfold pushStatus
  fins
macro_rules | `(tactic| fins_lemma) => `(tactic| with_reducible exact Ins_pushStatus _ (by assumption) _)

theorem Ins_pushOne (content devPath : Bytes) (mode mtime : Nat) (cb : CbMode) (t : Txn) (h : RtOk t.rt) (fi : FsInfo) :
    Ins (pushOne content devPath mode mtime cb t fi) := by
  unfold pushOne
  fins
macro_rules | `(tactic| fins_lemma) => `(tactic| with_reducible exact Ins_pushOne _ _ _ _ _ _ (by assumption) _)

/-! ### device layer -/

theorem Ins_runGuard (g : String) (p : Option Bytes) : Ins (runGuard g p) := by
  apply Ins_of_silent
  intro w c cs tr
  unfold runGuard
  dsimp only
  repeat' split
  all_goals rfl
macro_rules | `(tactic| fins_lemma) => `(tactic| with_reducible exact Ins_runGuard _ _)

theorem Ins_runGuards : ∀ gs p, Ins (runGuards gs p) := by
  intro gs
  induction gs with
  | nil => intro p; unfold runGuards; fins
  | cons g gs ih => intro p; unfold runGuards; fins [ih]
macro_rules | `(tactic| fins_lemma) => `(tactic| with_reducible exact Ins_runGuards _ _)

theorem Ins_devConnect (keys : List Nat) (tt authT rt : Timeout) (cb : Bool) (hrt : RtOk rt) :
    Ins (devConnect keys tt authT rt cb) := by
  unfold devConnect
  refine Ins_bind (Ins_getTT tt) fun tt' => ?_
  refine Ins_bind_post (fun t => RtOk t.rt) (Ins_liftExcept _) (Post_liftExcept _ _ ?_) ?_
  · intro t ht
    exact Txn.make_rtOk _ _ _ _ _ t hrt TotOk_none ht
  · intro t ht
    fins

theorem Ins_devClose : Ins devClose := by
  unfold devClose
  fins

theorem Ins_devShellLike (op : String) (svc cmd : Bytes) (tt rt total : Timeout) (dec : Bool) (hrt : RtOk rt)
    (htot : TotOk total) : Ins (devShellLike op svc cmd tt rt total dec) := by
  unfold devShellLike
  exact Ins_bind (Ins_runGuards _ _) fun _ => Ins_service svc cmd tt rt total dec hrt htot

theorem Ins_devRoot (tt rt total : Timeout) (hrt : RtOk rt) (htot : TotOk total) : Ins (devRoot tt rt total) := by
  unfold devRoot
  exact Ins_bind (Ins_runGuards _ _) fun _ =>
    Ins_bind (Ins_service _ _ tt rt total false hrt htot) fun _ => Ins_pure _

theorem Ins_devReboot (fb : Bool) (tt rt total : Timeout) (hrt : RtOk rt) (htot : TotOk total) :
    Ins (devReboot fb tt rt total) := by
  unfold devReboot
  exact Ins_bind (Ins_runGuards _ _) fun _ =>
    Ins_bind (Ins_openStream _ tt rt total hrt htot) fun _ => Ins_pure _

theorem Ins_devStreamingShell (cmd : Bytes) (tt rt : Timeout) (dec : Bool) (hrt : RtOk rt) :
    Ins (devStreamingShell cmd tt rt dec) := by
  unfold devStreamingShell
  exact Ins_bind (Ins_runGuards _ _) fun _ => Ins_streamingService _ cmd tt rt dec hrt

theorem Ins_listLoop (t : Txn) (h : RtOk t.rt) : ∀ fuel fi acc, Ins (listLoop t fuel fi acc) := by
  intro fuel
  induction fuel with
  | zero => intro fi acc; unfold listLoop; fins
  | succ f ih =>
    intro fi acc
    unfold listLoop
    fins [ih]
macro_rules | `(tactic| fins_lemma) => `(tactic| with_reducible exact Ins_listLoop _ (by assumption) _ _ _)

theorem Ins_devList (p : Bytes) (tt rt : Timeout) (hrt : RtOk rt) : Ins (devList p tt rt) := by
  unfold devList
  refine Ins_bind (Ins_runGuards _ _) fun _ => Ins_openStream_bind _ _ _ _ hrt TotOk_none ?_
  intro t ht
  fins

theorem Ins_devStat (p : Bytes) (tt rt : Timeout) (hrt : RtOk rt) : Ins (devStat p tt rt) := by
  unfold devStat
  refine Ins_bind (Ins_runGuards _ _) fun _ => Ins_openStream_bind _ _ _ _ hrt TotOk_none ?_
  intro t ht
  fins
macro_rules | `(tactic| fins_lemma) => `(tactic| with_reducible exact Ins_devStat _ _ _ (by assumption))

theorem Ins_pullLoop (devPath : Bytes) (cb : CbMode) (total : Nat) (t : Txn) (h : RtOk t.rt) :
    ∀ fuel fi, Ins (pullLoop devPath cb total t fuel fi) := by
  intro fuel
  induction fuel with
  | zero => intro fi; unfold pullLoop; fins
  | succ f ih =>
    intro fi
    unfold pullLoop
    fins [ih]
macro_rules | `(tactic| fins_lemma) => `(tactic| with_reducible exact Ins_pullLoop _ _ _ _ (by assumption) _ _)

theorem Ins_pullInner (devPath : Bytes) (cb : CbMode) (t : Txn) (h : RtOk t.rt) (fi : FsInfo) :
    Ins (pullInner devPath cb t fi) := by
  unfold pullInner
  fins
macro_rules | `(tactic| fins_lemma) => `(tactic| with_reducible exact Ins_pullInner _ _ _ (by assumption) _)

/-- `pull` with the hang-strict `try/finally` -/
def devPullS (devPath : Bytes) (cb : CbMode) (tt rt : Timeout) : M Val := do
  runGuards (guardsFor "pull") (some devPath)
  M.modify fun w => { w with sink := some [] }
  let t ← openStream (ascii "sync:") tt rt none
  let w ← M.get
  let fi : FsInfo := { fmt := .pull, maxdata := w.maxdata }
  tryFinallyS (pullInner devPath cb t fi) (clse t)
  pure .none

theorem Ins_devPullS (devPath : Bytes) (cb : CbMode) (tt rt : Timeout) (hrt : RtOk rt) :
    Ins (devPullS devPath cb tt rt) := by
  unfold devPullS
  refine Ins_bind (Ins_runGuards _ _) fun _ => Ins_bind (Ins_modify (by fr_upd)) fun _ =>
    Ins_openStream_bind _ _ _ _ hrt TotOk_none ?_
  intro t ht
  fins

theorem Ins_pushFile (fid : Nat) (devPath : Bytes) (mode mtime : Nat) (cb : CbMode) (tt rt : Timeout) (hrt : RtOk rt) :
    Ins (pushFile fid devPath mode mtime cb tt rt) := by
  unfold pushFile
  refine Ins_bind (Ins_lookupFile _) fun _ => Ins_openStream_bind _ _ _ _ hrt TotOk_none ?_
  intro t ht
  fins
macro_rules | `(tactic| fins_lemma) => `(tactic| with_reducible exact Ins_pushFile _ _ _ _ _ _ _ (by assumption))

theorem Ins_pushFiles (devPath : Bytes) (mode mtime : Nat) (cb : CbMode) (tt rt : Timeout) (hrt : RtOk rt) :
    ∀ es, Ins (pushFiles devPath mode mtime cb tt rt es) := by
  intro es
  induction es with
  | nil => unfold pushFiles; fins
  | cons e es ih => obtain ⟨n, f⟩ := e; unfold pushFiles; fins [ih]
macro_rules | `(tactic| fins_lemma) => `(tactic| with_reducible exact Ins_pushFiles _ _ _ _ _ _ (by assumption) _)

theorem Ins_devPush (src : LocalRef) (devPath : Bytes) (mode mtime : Nat) (cb : CbMode) (tt rt : Timeout)
    (hrt : RtOk rt) : Ins (devPush src devPath mode mtime cb tt rt) := by
  have hsh := Ins_devShellLike "shell" (ascii "shell") (ascii "mkdir " ++ devPath) tt rt none true hrt TotOk_none
  unfold devPush
  fins

end Adb.Frag

/-! ### the public API -/
namespace Adb
open Adb.Frag

/-- the numeric timeouts of the call that bound reads: `read_timeout_s` is a non-negative number and
    `timeout_s` (where the call has one) is `None` or non-negative.  The transport timeout is unconstrained. -/
def ApiOp.TimeoutsOk : ApiOp → Prop
  | .connect _ _ _ rt _ => RtOk rt
  | .close => True
  | .shell _ _ rt total _ => RtOk rt ∧ TotOk total
  | .execOut _ _ rt total _ => RtOk rt ∧ TotOk total
  | .root _ rt total => RtOk rt ∧ TotOk total
  | .reboot _ _ rt total => RtOk rt ∧ TotOk total
  | .streamingShell _ _ rt _ => RtOk rt
  | .list _ _ rt => RtOk rt
  | .stat _ _ rt => RtOk rt
  | .pull _ _ _ rt => RtOk rt
  | .push _ _ _ _ _ _ rt => RtOk rt

/-- the hang-strict semantics: as `ApiOp.run`, except that `pull` reports a `hang` of its clean-up `_clse`
    even when the body raised (Python re-raises the body's exception and the hang goes unnoticed) -/
def ApiOp.runS : ApiOp → M Val
  | .pull p cb tt rt => Frag.devPullS p cb tt rt
  | op => op.run

/-- the call hung (loop budget exhausted or blocked forever), a hang swallowed by `pull`'s `finally` included -/
def ApiOp.Hung (op : ApiOp) (w : World) : Prop := (op.runS w).1 = .error .hang

/-- some call of the history hung -/
def histHung : List ApiOp → World → Prop
  | [], _ => False
  | op :: ops, w => op.Hung w ∨ histHung ops (op.run w).2

namespace Frag

theorem Ins_apiOpS (op : ApiOp) (h : op.TimeoutsOk) : Ins op.runS := by
  cases op with
  | connect keys tt authT rt cb => exact Ins_devConnect keys tt authT rt cb h
  | close => exact Ins_devClose
  | shell cmd tt rt total dec => exact Ins_devShellLike _ _ cmd tt rt total dec h.1 h.2
  | execOut cmd tt rt total dec => exact Ins_devShellLike _ _ cmd tt rt total dec h.1 h.2
  | root tt rt total => exact Ins_devRoot tt rt total h.1 h.2
  | reboot fb tt rt total => exact Ins_devReboot fb tt rt total h.1 h.2
  | streamingShell cmd tt rt dec => exact Ins_devStreamingShell cmd tt rt dec h
  | list p tt rt => exact Ins_devList p tt rt h
  | stat p tt rt => exact Ins_devStat p tt rt h
  | pull p cb tt rt => exact Ins_devPullS p cb tt rt h
  | push src p mode mtime cb tt rt => exact Ins_devPush src p mode mtime cb tt rt h

/-- `x` and `x'` do the same whenever `x'` does not report `hang` -/
def EqUnlessHang {α} (x x' : M α) : Prop := ∀ w, (x' w).1 ≠ .error .hang → x w = x' w

theorem EqUnlessHang.refl {α} (x : M α) : EqUnlessHang x x := fun _ _ => rfl

theorem EqUnlessHang.bind_right {α β} (x : M α) {f f' : α → M β} (hf : ∀ a, EqUnlessHang (f a) (f' a)) :
    EqUnlessHang (x >>= f) (x >>= f') := by
  intro w h
  rw [bind_run] at h ⊢
  rw [bind_run]
  cases hx : x w with
  | mk r v =>
    rw [hx] at h
    cases r with
    | error e => rfl
    | ok a => exact hf a v h

theorem EqUnlessHang.bind_left {α β} {x x' : M α} (f : α → M β) (hx : EqUnlessHang x x') :
    EqUnlessHang (x >>= f) (x' >>= f) := by
  intro w h
  have : (x' w).1 ≠ .error .hang := by
    intro hh
    apply h
    rw [bind_run]
    cases hx' : x' w with
    | mk r v =>
      rw [hx'] at hh
      simp only at hh
      subst hh
      rfl
  rw [bind_run, bind_run, hx w this]

theorem devPull_eq_unless_hang (p : Bytes) (cb : CbMode) (tt rt : Timeout) :
    EqUnlessHang (devPull p cb tt rt) (devPullS p cb tt rt) := by
  unfold devPull devPullS
  refine EqUnlessHang.bind_right _ fun _ => EqUnlessHang.bind_right _ fun _ => EqUnlessHang.bind_right _ fun t =>
    EqUnlessHang.bind_right _ fun w => EqUnlessHang.bind_left _ ?_
  intro v hv
  exact tryFinallyS_eq _ _ v hv

/-- unless the strict semantics reports `hang`, it is the semantics -/
theorem run_eq_runS (op : ApiOp) (w : World) (h : ¬ op.Hung w) : op.run w = op.runS w := by
  cases op with
  | pull p cb tt rt => exact devPull_eq_unless_hang p cb tt rt w h
  | _ => rfl

/-- a `hang` of the real semantics is a `hang` of the strict one -/
theorem hung_of_run_hang (op : ApiOp) (w : World) (h : (op.run w).1 = .error .hang) : op.Hung w := by
  by_cases hh : op.Hung w
  · exact hh
  · rw [run_eq_runS op w hh] at h; exact h

/-- for every operation but `pull` "hung" is just "returned `hang`" -/
theorem hung_iff (op : ApiOp) (w : World) (hp : ∀ p cb tt rt, op ≠ .pull p cb tt rt) :
    op.Hung w ↔ (op.run w).1 = .error .hang := by
  cases op with
  | pull p cb tt rt => exact absurd rfl (hp p cb tt rt)
  | _ => exact Iff.rfl

theorem apiOp_frag (op : ApiOp) (h : op.TimeoutsOk) (w₁ w₂ : World) (hfr : FR w₁ w₂) :
    op.Hung w₁ ∨ op.Hung w₂ ∨ ((op.run w₁).1 = (op.run w₂).1 ∧ FR (op.run w₁).2 (op.run w₂).2) := by
  by_cases h1 : op.Hung w₁
  · exact Or.inl h1
  by_cases h2 : op.Hung w₂
  · exact Or.inr (Or.inl h2)
  rw [run_eq_runS op w₁ h1, run_eq_runS op w₂ h2]
  rcases Ins_apiOpS op h w₁ w₂ hfr with g | g | g
  · exact absurd g h1
  · exact absurd g h2
  · exact Or.inr (Or.inr g)

theorem history_frag (ops : List ApiOp) (h : ∀ op ∈ ops, op.TimeoutsOk) (w₁ w₂ : World) (hfr : FR w₁ w₂) :
    histHung ops w₁ ∨ histHung ops w₂ ∨
      ((runHistory ops w₁).1 = (runHistory ops w₂).1 ∧ FR (runHistory ops w₁).2 (runHistory ops w₂).2) := by
  induction ops generalizing w₁ w₂ with
  | nil => exact Or.inr (Or.inr ⟨rfl, hfr⟩)
  | cons op ops ih =>
    simp only [histHung, runHistory]
    rcases apiOp_frag op (h op (by simp)) w₁ w₂ hfr with g | g | ⟨g1, g2⟩
    · exact Or.inl (Or.inl g)
    · exact Or.inr (Or.inl (Or.inl g))
    · rcases ih (fun o ho => h o (by simp [ho])) _ _ g2 with i | i | ⟨i1, i2⟩
      · exact Or.inl (Or.inr i)
      · exact Or.inr (Or.inl (Or.inr i))
      · exact Or.inr (Or.inr ⟨by rw [g1, i1], i2⟩)

end Frag
end Adb
