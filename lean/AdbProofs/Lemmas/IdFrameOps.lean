import AdbProofs.Lemmas.IdFrame
/- `Bd` for every function of the sequential model, bottom-up. -/
namespace Adb

theorem Bd_waitTimeout {α} (tt : Timeout) : Bd (waitTimeout tt : M α) := by
  intro w; unfold waitTimeout; cases tt <;> bd_rfl

theorem Bd_bulkRead (n : Nat) (tt : Timeout) : Bd (bulkRead n tt) := by
  intro w
  unfold bulkRead
  repeat' split
  all_goals first | bd_rfl | exact Bd_waitTimeout tt _ | exact IdB.trans (by bd_rfl) (Bd_waitTimeout tt _)

theorem Bd_bulkWrite (d : Bytes) (tt : Timeout) : Bd (bulkWrite d tt) := by
  intro w
  unfold bulkWrite
  repeat' split
  all_goals first | bd_rfl | exact Bd_waitTimeout tt _ | exact IdB.trans (by bd_rfl) (Bd_waitTimeout tt _)

theorem Bd_tClose : Bd tClose := by
  intro w; unfold tClose; split <;> bd_rfl

theorem Bd_tConnect (tt : Timeout) : Bd (tConnect tt) := by
  intro w; unfold tConnect; repeat' split
  all_goals bd_rfl

macro_rules | `(tactic| bd_lemma) => `(tactic| with_reducible exact Bd_waitTimeout _)
macro_rules | `(tactic| bd_lemma) => `(tactic| with_reducible exact Bd_bulkRead _ _)
macro_rules | `(tactic| bd_lemma) => `(tactic| with_reducible exact Bd_bulkWrite _ _)
macro_rules | `(tactic| bd_lemma) => `(tactic| with_reducible exact Bd_tClose)
macro_rules | `(tactic| bd_lemma) => `(tactic| with_reducible exact Bd_tConnect _)

theorem Bd_readBytesLoop (t : Txn) (start : Int) : ∀ fuel rem acc, Bd (readBytesLoop t start fuel rem acc) := by
  intro fuel
  induction fuel with
  | zero => intro rem acc; unfold readBytesLoop; bd
  | succ f ih =>
    intro rem acc
    unfold readBytesLoop
    bd [ih]

macro_rules | `(tactic| bd_lemma) => `(tactic| with_reducible exact Bd_readBytesLoop _ _ _ _ _)
theorem Bd_readBytes (n : Nat) (t : Txn) : Bd (readBytes n t) := by
  unfold readBytes
  bd
macro_rules | `(tactic| bd_lemma) => `(tactic| with_reducible exact Bd_readBytes _ _)

theorem Bd_readPacket (t : Txn) : Bd (readPacket t) := by
  unfold readPacket
  bd
macro_rules | `(tactic| bd_lemma) => `(tactic| with_reducible exact Bd_readPacket _)

theorem Bd_writeAllLoop (t : Txn) (start : Int) : ∀ fuel data, Bd (writeAllLoop t start fuel data) := by
  intro fuel
  induction fuel with
  | zero => intro data; unfold writeAllLoop; bd
  | succ f ih =>
    intro data
    unfold writeAllLoop
    bd [ih]
macro_rules | `(tactic| bd_lemma) => `(tactic| with_reducible exact Bd_writeAllLoop _ _ _ _)

theorem Bd_writeAll (d : Bytes) (t : Txn) : Bd (writeAll d t) := by
  unfold writeAll
  bd
macro_rules | `(tactic| bd_lemma) => `(tactic| with_reducible exact Bd_writeAll _ _)

theorem Bd_sendRaw (m : Msg) (t : Txn) : Bd (sendRaw m t) := by
  unfold sendRaw
  bd
macro_rules | `(tactic| bd_lemma) => `(tactic| with_reducible exact Bd_sendRaw _ _)

theorem Bd_ioSend (m : Msg) (t : Txn) : Bd (ioSend m t) := by
  unfold ioSend
  bd
macro_rules | `(tactic| bd_lemma) => `(tactic| with_reducible exact Bd_ioSend _ _)

theorem Bd_expectLoop (ex : List Cmd) (t : Txn) (start : Int) : ∀ fuel , Bd (expectLoop ex t start fuel ) := by
  intro fuel
  induction fuel with
  | zero => unfold expectLoop; bd
  | succ f ih =>
    unfold expectLoop
    bd [ih]
macro_rules | `(tactic| bd_lemma) => `(tactic| with_reducible exact Bd_expectLoop _ _ _ _)

theorem Bd_expectPacket (ex : List Cmd) (t : Txn) : Bd (expectPacket ex t) := by
  unfold expectPacket
  bd
macro_rules | `(tactic| bd_lemma) => `(tactic| with_reducible exact Bd_expectPacket _ _)

theorem Bd_storeFind (t : Txn) (az : Bool) : Bd (storeFind t az) := fun w => IdB.refl w
theorem Bd_storeGet (k : Nat × Nat) : Bd (storeGet k) := by
  intro w; unfold storeGet; split <;> bd_rfl
theorem Bd_storePut (p : Pkt) : Bd (storePut p) := by
  intro w; unfold storePut; bd_rfl
theorem Bd_storeClear (a0 a1 : Nat) : Bd (storeClear a0 a1) := fun w => by unfold storeClear; bd_rfl
theorem Bd_storeClearAll : Bd storeClearAll := fun w => by unfold storeClearAll; bd_rfl
macro_rules | `(tactic| bd_lemma) => `(tactic| with_reducible exact Bd_storeFind _ _)
macro_rules | `(tactic| bd_lemma) => `(tactic| with_reducible exact Bd_storeGet _)
macro_rules | `(tactic| bd_lemma) => `(tactic| with_reducible exact Bd_storePut _)
macro_rules | `(tactic| bd_lemma) => `(tactic| with_reducible exact Bd_storeClear _ _)
macro_rules | `(tactic| bd_lemma) => `(tactic| with_reducible exact Bd_storeClearAll)
theorem Bd_drainLoop (ex : List Cmd) (t : Txn) (az : Bool) : ∀ fuel , Bd (drainLoop ex t az fuel ) := by
  intro fuel
  induction fuel with
  | zero => unfold drainLoop; bd
  | succ f ih =>
    unfold drainLoop
    bd [ih]
macro_rules | `(tactic| bd_lemma) => `(tactic| with_reducible exact Bd_drainLoop _ _ _ _)

theorem Bd_readIter (ex : List Cmd) (t : Txn) (az : Bool) : Bd (readIter ex t az) := by
  unfold readIter
  bd
macro_rules | `(tactic| bd_lemma) => `(tactic| with_reducible exact Bd_readIter _ _ _)

theorem Bd_readLoop (ex : List Cmd) (t : Txn) (az : Bool) (start : Int) : ∀ fuel , Bd (readLoop ex t az start fuel ) := by
  intro fuel
  induction fuel with
  | zero => unfold readLoop; bd
  | succ f ih =>
    unfold readLoop
    bd [ih]
macro_rules | `(tactic| bd_lemma) => `(tactic| with_reducible exact Bd_readLoop _ _ _ _ _)

theorem Bd_ioRead (ex : List Cmd) (t : Txn) (az : Bool) : Bd (ioRead ex t az) := by
  unfold ioRead
  bd
macro_rules | `(tactic| bd_lemma) => `(tactic| with_reducible exact Bd_ioRead _ _ _)

theorem Bd_ioClose  : Bd (ioClose) := by
  unfold ioClose
  bd
macro_rules | `(tactic| bd_lemma) => `(tactic| with_reducible exact Bd_ioClose)

theorem Bd_authLoop (t : Txn) : ∀ keys last, Bd (authLoop t keys last) := by
  intro keys
  induction keys with
  | nil => intro last; unfold authLoop; bd
  | cons k ks ih =>
    intro last
    unfold authLoop
    bd [ih]
macro_rules | `(tactic| bd_lemma) => `(tactic| with_reducible exact Bd_authLoop _ _ _)
theorem Bd_ioConnect (b : Bytes) (keys : List Nat) (authT : Timeout) (cb : Bool) (t : Txn) : Bd (ioConnect b keys authT cb t) := by
  unfold ioConnect
  bd
macro_rules | `(tactic| bd_lemma) => `(tactic| with_reducible exact Bd_ioConnect _ _ _ _ _)

theorem Bd_getTT (tt : Timeout) : Bd (getTT tt) := fun w => IdB.refl w
macro_rules | `(tactic| bd_lemma) => `(tactic| with_reducible exact Bd_getTT _)

end Adb
