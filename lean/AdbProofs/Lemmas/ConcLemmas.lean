import AdbProofs.Lemmas.StoreFind
import AdbModel.Conc
/-
  C06 helpers: the reachable-state invariant of the interleaving model `AdbModel/Conc.lean`,
  its preservation by every atomic step, a decidable form of `WellFormed`, and the abstract
  lock-order model used by `C06_no_deadlock`.
-/
namespace Adb
namespace Conc

/-! ### Vocabulary of the C06 statements -/

/-- the packet is addressed to exactly reader `r`'s stream -/
def ownB (r : Reader) (p : Pkt) : Bool := p.arg1 == r.lid && p.arg0 == r.rid

theorem ownOf_eq (r : Reader) (ps : List Pkt) : ownOf r ps = ps.filter (ownB r) := rfl

/-- the packets parked in the store for reader `r`'s stream, oldest first -/
def parked (st : Store) (r : Reader) : List Pkt :=
  ((st.queue r.rid r.lid).getD []).map fun x => ⟨x.1, r.rid, r.lid, x.2⟩

/-- the packets of reader `r`'s stream that `put` discarded (K1) -/
def lostOf (s : Sys) (r : Reader) : List Pkt := s.lost.filter (ownB r)

/-- the part of a reader that never changes -/
def Reader.sig (r : Reader) : Nat × Nat × List Cmd := (r.lid, r.rid, r.expected)

/-- a reader that has not started yet -/
def Reader.Fresh (r : Reader) : Prop := r.given = [] ∧ r.dropped = [] ∧ r.done = false ∧ r.inLoop = false

instance (r : Reader) : Decidable r.Fresh := by unfold Reader.Fresh; infer_instance

/-- the initial systems of C06: well-formed, nothing parked, nothing lost, no reader has started -/
def Initial (sys : Sys) : Prop :=
  WellFormed sys ∧ sys.store = [] ∧ sys.lost = [] ∧ ∀ r ∈ sys.readers, r.Fresh

/-- reader `i` running alone: pre-check, then one loop iteration, `n` times over -/
def soloSched (i n : Nat) : List Choice := (List.replicate n [Choice.pre i, Choice.iter i]).flatten

/-! ### The concrete two-reader system used by the K1 witness and the non-vacuity examples -/

/-- K1 system: reader 0 owns stream (rid 11, lid 1), reader 1 owns stream (rid 12, lid 2); the device
    sends one WRTE and the CLSE on each stream. -/
def sysK1 : Sys :=
  { wire := [⟨.WRTE, 11, 1, [97]⟩, ⟨.CLSE, 11, 1, []⟩, ⟨.WRTE, 12, 2, [98]⟩, ⟨.CLSE, 12, 2, []⟩],
    readers := [{ lid := 1, rid := 11 }, { lid := 2, rid := 12 }] }

/-- reader 0 takes its WRTE itself, then reader 1 reads everything else off the transport -/
def schedK1 : List Choice :=
  [.pre 0, .iter 0, .pre 1, .iter 1, .iter 1, .pre 1, .iter 1, .pre 0, .iter 0, .pre 0, .iter 0]

/-- a schedule of the same system in which nothing is lost: reader 1 parks reader 0's WRTE first -/
def schedGood : List Choice :=
  [.pre 1, .iter 1, .iter 1, .iter 1, .pre 1, .iter 1, .pre 0, .pre 0]

/-! ### A decidable form of `WellFormed` -/

/-- every CLSE in the list is its last element -/
def clseLastB : List Pkt → Bool
  | [] => true
  | p :: rest => (p.cmd != Cmd.CLSE || rest.isEmpty) && clseLastB rest

theorem clseLastB_spec {l : List Pkt} (h : clseLastB l = true) :
    ∀ pre p post, l = pre ++ p :: post → p.cmd = Cmd.CLSE → post = [] := by
  induction l with
  | nil => intro pre p post he; simp at he
  | cons a rest ih =>
    intro pre p post he hc
    simp only [clseLastB, Bool.and_eq_true, Bool.or_eq_true] at h
    cases pre with
    | nil =>
      simp at he
      obtain ⟨ha, hr⟩ := he
      subst ha hr
      rcases h.1 with h1 | h1
      · simp [hc] at h1
      · simpa using h1
    | cons b pre' =>
      simp at he
      exact ih h.2 pre' p post he.2 hc

def WellFormedB (sys : Sys) : Bool :=
  decide (sys.readers.map (·.lid)).Nodup &&
  sys.readers.all (fun r => r.lid != 0 && r.rid != 0 && r.expected == [.CLSE, .WRTE]) &&
  sys.wire.all (fun p => p.arg0 != 0 && p.arg1 != 0 && (p.cmd == .WRTE || p.cmd == .CLSE) &&
    sys.readers.any (fun r => r.lid == p.arg1 && r.rid == p.arg0)) &&
  sys.readers.all (fun r => clseLastB (ownOf r sys.wire))

theorem wellFormed_of_B {sys : Sys} (h : WellFormedB sys = true) : WellFormed sys := by
  simp only [WellFormedB, Bool.and_eq_true, decide_eq_true_eq, List.all_eq_true, List.any_eq_true,
    Bool.or_eq_true, bne_iff_ne, beq_iff_eq, ne_eq] at h
  obtain ⟨⟨⟨h1, h2⟩, h3⟩, h4⟩ := h
  refine ⟨h1, ?_, ?_, ?_⟩
  · intro r hr
    obtain ⟨⟨a, b⟩, c⟩ := h2 r hr
    exact ⟨a, b, c⟩
  · intro p hp
    obtain ⟨⟨⟨a, b⟩, c⟩, r, hr, d, e⟩ := h3 p hp
    exact ⟨a, b, c, r, hr, d, e⟩
  · intro r hr
    exact clseLastB_spec (h4 r hr)

/-! ### Store facts needed by the drain loop -/

/-- representation invariant plus: every entry belongs to a stream with non-zero ids and holds
    only WRTE / CLSE packets -/
def StoreOK (st : Store) : Prop :=
  Store.Inv st ∧ ∀ a0 a1 q, st.queue a0 a1 = some q →
    a0 ≠ 0 ∧ a1 ≠ 0 ∧ ∀ x ∈ q, x.1 = Cmd.WRTE ∨ x.1 = Cmd.CLSE

theorem keyMatchesZ_nonzero {rid lid k0 k1 : Nat} (h0 : k0 ≠ 0) (h1 : k1 ≠ 0)
    (h : Store.keyMatchesZ (some rid) (some lid) (k0, k1) = true) : k0 = rid ∧ k1 = lid := by
  simpa [Store.keyMatchesZ, Store.keyMatches, h0, h1] using h

theorem findAZ_some {st : Store} (h : StoreOK st) {rid lid : Nat} {k : Nat × Nat}
    (hf : st.findAllowZeros (some rid) (some lid) = some k) :
    k = (rid, lid) ∧ ∃ x q, st.queue rid lid = some (x :: q) := by
  obtain ⟨hk, hm⟩ := (Store.findAllowZeros_spec h.1 (some rid) (some lid)).1 k hf
  obtain ⟨k0, k1⟩ := k
  obtain ⟨q, hq, hne⟩ := (Store.mem_pendingKeys h.1 k0 k1).1 hk
  obtain ⟨h0, h1, _⟩ := h.2 k0 k1 q hq
  obtain ⟨e0, e1⟩ := keyMatchesZ_nonzero h0 h1 hm
  subst e0 e1
  refine ⟨rfl, ?_⟩
  cases q with
  | nil => exact absurd rfl hne
  | cons x q => exact ⟨x, q, hq⟩

theorem findAZ_none {st : Store} (h : StoreOK st) {rid lid : Nat}
    (hf : st.findAllowZeros (some rid) (some lid) = none) :
    st.queue rid lid = none ∨ st.queue rid lid = some [] := by
  have hn := (Store.findAllowZeros_spec h.1 (some rid) (some lid)).2 hf
  cases hq : st.queue rid lid with
  | none => exact Or.inl rfl
  | some q =>
    cases q with
    | nil => exact Or.inr rfl
    | cons x q =>
      have hm : (rid, lid) ∈ Store.pendingKeys st := (Store.mem_pendingKeys h.1 rid lid).2 ⟨_, hq, by simp⟩
      have := hn _ hm
      simp [Store.keyMatchesZ, Store.keyMatches] at this

/-- Under `StoreOK` the drain loop runs at most one round: it returns the head of the reader's own
    queue, or nothing when that queue is absent or empty; it never touches another stream's queue
    and never discards anything. -/
theorem drain_spec {st : Store} (h : StoreOK st) (r : Reader) (hexp : r.expected = [.CLSE, .WRTE]) (n : Nat) :
    (∃ c d q st', st.queue r.rid r.lid = some ((c, d) :: q) ∧
        drain r (n + 1) st [] = (st', some ⟨c, r.rid, r.lid, d⟩, []) ∧ Store.Inv st' ∧
        ∀ b0 b1, st'.queue b0 b1 =
          if b0 = r.rid ∧ b1 = r.lid then (if c = Cmd.CLSE then none else some q) else st.queue b0 b1)
    ∨ ((st.queue r.rid r.lid = none ∨ st.queue r.rid r.lid = some []) ∧
        drain r (n + 1) st [] = (st, none, [])) := by
  cases hf : st.findAllowZeros (some r.rid) (some r.lid) with
  | none => exact Or.inr ⟨findAZ_none h hf, by simp [drain, hf]⟩
  | some k =>
    obtain ⟨hk, x, q, hq⟩ := findAZ_some h hf
    subst hk
    obtain ⟨c, d⟩ := x
    have hg := Store.get_concrete h.1 r.rid r.lid
    simp only [hq] at hg
    obtain ⟨st', hg, hI, hqq⟩ := hg
    have hc : c = Cmd.WRTE ∨ c = Cmd.CLSE := (h.2 _ _ _ hq).2.2 (c, d) (by simp)
    refine Or.inl ⟨c, d, q, st', hq, ?_, hI, hqq⟩
    rcases hc with hc | hc <;> simp [drain, hf, hg, hexp, hc]

/-! ### The reachable-state invariant -/

/-- where the packets of reader `r`'s stream currently are: given, parked, still on the wire, lost -/
def view (s : Sys) (r : Reader) : List Pkt := r.given ++ parked s.store r ++ ownOf r s.wire ++ lostOf s r

/-- reachable-state invariant relative to the initial system `sys₀` -/
structure Inv (sys₀ s : Sys) : Prop where
  store : StoreOK s.store
  static : s.readers.map Reader.sig = sys₀.readers.map Reader.sig
  wire : ∃ pre, sys₀.wire = pre ++ s.wire
  lostC : ∀ p ∈ s.lost, p.cmd = Cmd.CLSE
  cons : ∀ (i : Nat) (r : Reader), s.readers[i]? = some r →
    ownOf r sys₀.wire = view s r ∧ r.dropped = [] ∧ r.done = r.given.any (·.cmd == Cmd.CLSE)

theorem nodup_map_getElem?_inj {α β : Type} {f : α → β} : ∀ {l : List α}, (l.map f).Nodup →
    ∀ {i j : Nat} {a b : α}, l[i]? = some a → l[j]? = some b → f a = f b → i = j := by
  intro l
  induction l with
  | nil => intro _ i j a b h; simp at h
  | cons x xs ih =>
    intro hn i j a b hi hj hab
    simp only [List.map_cons, List.nodup_cons, List.mem_map, not_exists, not_and] at hn
    cases i with
    | zero =>
      cases j with
      | zero => rfl
      | succ j =>
        simp at hi hj
        subst hi
        exact absurd hab.symm (hn.1 b (List.mem_of_getElem? hj))
    | succ i =>
      cases j with
      | zero =>
        simp at hi hj
        subst hj
        exact absurd hab (hn.1 a (List.mem_of_getElem? hi))
      | succ j =>
        simp at hi hj
        rw [ih hn.2 hi hj hab]

theorem ownB_congr {r r' : Reader} (h1 : r'.lid = r.lid) (h2 : r'.rid = r.rid) : ownB r' = ownB r := by
  funext p; simp [ownB, h1, h2]

theorem ownOf_congr {r r' : Reader} (h1 : r'.lid = r.lid) (h2 : r'.rid = r.rid) (ps : List Pkt) :
    ownOf r' ps = ownOf r ps := by
  simp [ownOf, h1, h2]

section
variable {sys₀ s : Sys}

theorem reader_facts (hwf : WellFormed sys₀) (hs : s.readers.map Reader.sig = sys₀.readers.map Reader.sig)
    {i : Nat} {r : Reader} (hr : s.readers[i]? = some r) :
    r.lid ≠ 0 ∧ r.rid ≠ 0 ∧ r.expected = [.CLSE, .WRTE] ∧
      ∃ r₀ ∈ sys₀.readers, sys₀.readers[i]? = some r₀ ∧ r₀.lid = r.lid ∧ r₀.rid = r.rid := by
  have h1 : (s.readers.map Reader.sig)[i]? = some r.sig := by simp [hr]
  rw [hs] at h1
  simp only [List.getElem?_map, Option.map_eq_some_iff] at h1
  obtain ⟨r₀, h0, hsig⟩ := h1
  have hm : r₀ ∈ sys₀.readers := List.mem_of_getElem? h0
  obtain ⟨a, b, c⟩ := hwf.2.1 r₀ hm
  simp only [Reader.sig, Prod.mk.injEq] at hsig
  obtain ⟨e1, e2, e3⟩ := hsig
  exact ⟨e1 ▸ a, e2 ▸ b, e3 ▸ c, r₀, hm, h0, e1, e2⟩

theorem lid_inj (hwf : WellFormed sys₀) (hs : s.readers.map Reader.sig = sys₀.readers.map Reader.sig)
    {i j : Nat} {r r' : Reader} (hr : s.readers[i]? = some r) (hr' : s.readers[j]? = some r')
    (hl : r.lid = r'.lid) : i = j := by
  have : s.readers.map (·.lid) = sys₀.readers.map (·.lid) := by
    have := congrArg (List.map Prod.fst) hs
    simpa [Reader.sig, Function.comp_def] using this
  exact nodup_map_getElem?_inj (f := fun r : Reader => r.lid) (this ▸ hwf.1) hr hr' hl

/-- conforming device: nothing follows a stream's CLSE -/
theorem clse_last (hwf : WellFormed sys₀) (hs : s.readers.map Reader.sig = sys₀.readers.map Reader.sig)
    {i : Nat} {r : Reader} (hr : s.readers[i]? = some r) {pre post : List Pkt} {p : Pkt}
    (he : ownOf r sys₀.wire = pre ++ p :: post) (hc : p.cmd = Cmd.CLSE) : post = [] := by
  obtain ⟨_, _, _, r₀, hm, _, e1, e2⟩ := reader_facts hwf hs hr
  rw [← ownOf_congr e1 e2] at he
  exact hwf.2.2.2 r₀ hm pre p post he hc

theorem wire_facts (hwf : WellFormed sys₀) (hw : ∃ pre, sys₀.wire = pre ++ s.wire) {p : Pkt} (hp : p ∈ s.wire) :
    p.arg0 ≠ 0 ∧ p.arg1 ≠ 0 ∧ (p.cmd = .WRTE ∨ p.cmd = .CLSE) := by
  obtain ⟨pre, hpre⟩ := hw
  obtain ⟨a, b, c, _⟩ := hwf.2.2.1 p (by rw [hpre]; simp [hp])
  exact ⟨a, b, c⟩

theorem owns_eq_ownB (r : Reader) {p : Pkt} (h0 : p.arg0 ≠ 0) (h1 : p.arg1 ≠ 0) : r.owns p = ownB r p := by
  have e0 : (p.arg0 == 0) = false := by simp [h0]
  have e1 : (p.arg1 == 0) = false := by simp [h1]
  simp [Reader.owns, ownB, e0, e1]

/-- generic preservation: one reader is replaced by one with the same identity, and every
    reader's `view` is unchanged -/
theorem inv_update {s' : Sys} (h : Inv sys₀ s) {i : Nat} {r r' : Reader}
    (hr : s.readers[i]? = some r) (hsig : r'.sig = r.sig)
    (hreaders : s'.readers = s.readers.set i r')
    (hstore : StoreOK s'.store) (hwire : ∃ pre, s.wire = pre ++ s'.wire)
    (hlost : ∀ p ∈ s'.lost, p.cmd = Cmd.CLSE)
    (hi : view s' r' = view s r ∧ r'.dropped = [] ∧ r'.done = r'.given.any (·.cmd == Cmd.CLSE))
    (hj : ∀ j rj, j ≠ i → s.readers[j]? = some rj → view s' rj = view s rj) : Inv sys₀ s' := by
  have hlt : i < s.readers.length := by
    rcases Nat.lt_or_ge i s.readers.length with h1 | h1
    · exact h1
    · rw [List.getElem?_eq_none h1] at hr; simp at hr
  refine ⟨hstore, ?_, ?_, hlost, ?_⟩
  · rw [hreaders, ← h.static]
    apply List.ext_getElem?
    intro j
    by_cases hji : i = j
    · subst hji
      have hre : s.readers[i] = r := by
        have := List.getElem?_eq_getElem hlt
        rw [hr] at this; exact (Option.some.inj this).symm
      simp [hlt, hsig, hre]
    · simp [hji]
  · obtain ⟨pre, hpre⟩ := h.wire
    obtain ⟨pre', hpre'⟩ := hwire
    exact ⟨pre ++ pre', by rw [hpre, hpre']; simp⟩
  · intro j rj hrj
    rw [hreaders, List.getElem?_set] at hrj
    by_cases hji : i = j
    · subst hji
      simp [hlt] at hrj
      subst hrj
      simp only [Reader.sig, Prod.mk.injEq] at hsig
      rw [ownOf_congr hsig.1 hsig.2.1, (h.cons i r hr).1, hi.1]
      exact ⟨rfl, hi.2⟩
    · simp only [hji, if_false] at hrj
      obtain ⟨a, b⟩ := h.cons j rj hrj
      rw [a, hj j rj (Ne.symm hji) hrj]
      exact ⟨rfl, b⟩

end

/-! ### The effect of the store operations on `parked` -/

theorem parked_congr {r r' : Reader} (h1 : r'.lid = r.lid) (h2 : r'.rid = r.rid) (st : Store) :
    parked st r' = parked st r := by
  simp [parked, h1, h2]

theorem parked_of_queue_eq {st st' : Store} {r : Reader} (h : st'.queue r.rid r.lid = st.queue r.rid r.lid) :
    parked st' r = parked st r := by
  simp [parked, h]

theorem parked_put (st : Store) (p : Pkt) (rj : Reader) :
    parked (st.put p.arg0 p.arg1 p.cmd p.data) rj =
      if ownB rj p = true ∧ ¬ (p.cmd = Cmd.CLSE ∧ st.queue p.arg0 p.arg1 = none)
      then parked st rj ++ [p] else parked st rj := by
  have hp := Store.queue_put (s := st) p.arg0 p.arg1 p.cmd p.data
  by_cases hc : p.cmd = Cmd.CLSE ∧ st.queue p.arg0 p.arg1 = none
  · rw [hp.1 hc]; simp [hc]
  · obtain ⟨h1, h2⟩ := hp.2 hc
    by_cases ho : ownB rj p = true
    · simp only [ho, hc, not_false_eq_true, and_self, if_true]
      simp only [ownB, Bool.and_eq_true, beq_iff_eq] at ho
      obtain ⟨e1, e0⟩ := ho
      unfold parked
      rw [← e1, ← e0, h1]
      simp
    · rw [if_neg (by simp [ho])]
      apply parked_of_queue_eq
      apply h2
      intro hb
      apply ho
      simp [ownB, hb.1, hb.2]

theorem parked_clear {st : Store} (hI : Store.Inv st) (a0 a1 : Nat) (rj : Reader) :
    parked (st.clear a0 a1) rj = if rj.rid = a0 ∧ rj.lid = a1 then [] else parked st rj := by
  unfold parked
  rw [Store.queue_clear hI]
  by_cases hb : rj.rid = a0 ∧ rj.lid = a1 <;> simp [hb]

theorem storeOK_put {st : Store} (h : StoreOK st) {p : Pkt} (h0 : p.arg0 ≠ 0) (h1 : p.arg1 ≠ 0)
    (hc : p.cmd = .WRTE ∨ p.cmd = .CLSE) : StoreOK (st.put p.arg0 p.arg1 p.cmd p.data) := by
  refine ⟨Store.inv_put h.1 _ _ _ _, ?_⟩
  have hp := Store.queue_put (s := st) p.arg0 p.arg1 p.cmd p.data
  by_cases hk : p.cmd = Cmd.CLSE ∧ st.queue p.arg0 p.arg1 = none
  · rw [hp.1 hk]; exact h.2
  · obtain ⟨e1, e2⟩ := hp.2 hk
    intro a0 a1 q hq
    by_cases hb : a0 = p.arg0 ∧ a1 = p.arg1
    · obtain ⟨b0, b1⟩ := hb
      subst b0 b1
      rw [e1] at hq
      have hq := (Option.some.inj hq).symm
      subst hq
      refine ⟨h0, h1, ?_⟩
      intro x hx
      simp only [List.mem_append, List.mem_singleton] at hx
      rcases hx with hx | hx
      · cases hq0 : st.queue p.arg0 p.arg1 with
        | none => simp [hq0] at hx
        | some q0 =>
          simp [hq0] at hx
          exact (h.2 _ _ _ hq0).2.2 x hx
      · subst hx; exact hc
    · rw [e2 a0 a1 hb] at hq
      exact h.2 a0 a1 q hq

theorem storeOK_clear {st : Store} (h : StoreOK st) (a0 a1 : Nat) : StoreOK (st.clear a0 a1) := by
  refine ⟨Store.inv_clear h.1 _ _, ?_⟩
  intro b0 b1 q hq
  rw [Store.queue_clear h.1] at hq
  split at hq
  · simp at hq
  · exact h.2 b0 b1 q hq

/-! ### One atomic step preserves the invariant -/

theorem give_done (r : Reader) (p : Pkt) (hd : r.done = false)
    (hinv : r.done = r.given.any (·.cmd == Cmd.CLSE)) :
    (r.give p).done = (r.give p).given.any (·.cmd == Cmd.CLSE) := by
  rw [hd] at hinv
  simp [Reader.give, List.any_append, ← hinv]

section
variable {sys₀ s : Sys}

/-- a reader changes only its `inLoop` flag (or nothing) -/
theorem inv_same (h : Inv sys₀ s) {i : Nat} {r : Reader} (hr : s.readers[i]? = some r) (r' : Reader)
    (h1 : r'.sig = r.sig) (h4 : r'.given = r.given) (h5 : r'.dropped = r.dropped) (h6 : r'.done = r.done) :
    Inv sys₀ { s with readers := s.readers.set i r' } := by
  obtain ⟨a, b, c⟩ := h.cons i r hr
  simp only [Reader.sig, Prod.mk.injEq] at h1
  refine inv_update h hr (by simp [Reader.sig, h1]) rfl h.store ⟨[], rfl⟩ h.lostC ⟨?_, by rw [h5, b], by rw [h6, h4, c]⟩ ?_
  · simp [view, lostOf, h4, parked_congr h1.1 h1.2.1, ownOf_congr h1.1 h1.2.1, ownB_congr h1.1 h1.2.1]
  · intro j rj _ _; rfl

/-- the reader is handed the head of its own parked queue -/
theorem inv_give_store (hwf : WellFormed sys₀) (h : Inv sys₀ s) {i : Nat} {r : Reader}
    (hr : s.readers[i]? = some r) (hdone : r.done = false) {c : Cmd} {d : Bytes} {q : List QItem} {st' : Store}
    (hq : s.store.queue r.rid r.lid = some ((c, d) :: q)) (hI : Store.Inv st')
    (hqq : ∀ b0 b1, st'.queue b0 b1 =
      if b0 = r.rid ∧ b1 = r.lid then (if c = Cmd.CLSE then none else some q) else s.store.queue b0 b1) :
    Inv sys₀ { s with store := st', readers := s.readers.set i (r.give ⟨c, r.rid, r.lid, d⟩) } := by
  obtain ⟨hl0, hr0, hexp, _⟩ := reader_facts hwf h.static hr
  obtain ⟨hE, hdrop, hdn⟩ := h.cons i r hr
  refine inv_update (r' := r.give ⟨c, r.rid, r.lid, d⟩) h hr rfl rfl ⟨hI, ?_⟩ ⟨[], rfl⟩ h.lostC
    ⟨?_, hdrop, give_done r _ hdone hdn⟩ ?_
  · intro a0 a1 q' hq'
    rw [hqq] at hq'
    by_cases hb : a0 = r.rid ∧ a1 = r.lid
    · simp only [hb, and_self, if_true] at hq'
      by_cases hc : c = Cmd.CLSE
      · simp [hc] at hq'
      · simp only [hc, if_false] at hq'
        have hq' := (Option.some.inj hq').symm
        subst hq'
        obtain ⟨_, _, hx⟩ := h.store.2 _ _ _ hq
        exact ⟨hb.1 ▸ hr0, hb.2 ▸ hl0, fun x hx' => hx x (by simp [hx'])⟩
    · simp only [hb, if_false] at hq'
      exact h.store.2 a0 a1 q' hq'
  · have hp1 : parked s.store r = ⟨c, r.rid, r.lid, d⟩ :: q.map (fun x => ⟨x.1, r.rid, r.lid, x.2⟩) := by
      simp [parked, hq]
    have hp2 : parked st' r = if c = Cmd.CLSE then [] else q.map (fun x => ⟨x.1, r.rid, r.lid, x.2⟩) := by
      unfold parked
      rw [hqq]
      by_cases hc : c = Cmd.CLSE <;> simp [hc]
    have hv : view { s with store := st', readers := s.readers.set i (r.give ⟨c, r.rid, r.lid, d⟩) }
          (r.give ⟨c, r.rid, r.lid, d⟩) =
        (r.given ++ [⟨c, r.rid, r.lid, d⟩]) ++ parked st' r ++ ownOf r s.wire ++ lostOf s r := rfl
    rw [hv, hp2]
    by_cases hc : c = Cmd.CLSE
    · simp only [hc, if_true]
      simp only [view, hp1] at hE ⊢
      have hpost := clse_last hwf h.static hr
        (pre := r.given) (p := ⟨c, r.rid, r.lid, d⟩)
        (post := q.map (fun x => ⟨x.1, r.rid, r.lid, x.2⟩) ++ ownOf r s.wire ++ lostOf s r)
        (by rw [hE]; simp) hc
      simp only [List.append_eq_nil_iff] at hpost
      simp [hpost.1.1, hc]
    · simp [hc, view, hp1]
  · intro j rj hji hrj
    have hne : rj.lid ≠ r.lid := fun e => hji (lid_inj hwf h.static hrj hr e)
    have : parked st' rj = parked s.store rj := by
      apply parked_of_queue_eq
      rw [hqq]
      simp [hne]
    simp only [view, lostOf, this]

/-- the reader takes its own packet directly off the wire (its parked queue is empty) -/
theorem inv_give_wire (hwf : WellFormed sys₀) (h : Inv sys₀ s) {i : Nat} {r : Reader}
    (hr : s.readers[i]? = some r) (hdone : r.done = false)
    (hqe : s.store.queue r.rid r.lid = none ∨ s.store.queue r.rid r.lid = some [])
    {p : Pkt} {rest : List Pkt} (hw : s.wire = p :: rest) (hown : ownB r p = true) :
    Inv sys₀ { s with wire := rest,
                      store := if p.cmd = Cmd.CLSE then s.store.clear p.arg0 p.arg1 else s.store,
                      readers := s.readers.set i (r.give p) } := by
  obtain ⟨hE, hdrop, hdn⟩ := h.cons i r hr
  have hpe : parked s.store r = [] := by rcases hqe with e | e <;> simp [parked, e]
  have hids : p.arg1 = r.lid ∧ p.arg0 = r.rid := by simpa [ownB] using hown
  refine inv_update (r' := r.give p) h hr rfl rfl ?_ ⟨[p], by simp [hw]⟩ h.lostC
    ⟨?_, hdrop, give_done r _ hdone hdn⟩ ?_
  · show StoreOK (if p.cmd = Cmd.CLSE then s.store.clear p.arg0 p.arg1 else s.store)
    split
    · exact storeOK_clear h.store _ _
    · exact h.store
  · have hp' : parked (if p.cmd = Cmd.CLSE then s.store.clear p.arg0 p.arg1 else s.store) r = [] := by
      split
      · rw [parked_clear h.store.1]; simp [hids]
      · exact hpe
    have hv : view
        { s with wire := rest,
                 store := if p.cmd = Cmd.CLSE then s.store.clear p.arg0 p.arg1 else s.store,
                 readers := s.readers.set i (r.give p) } (r.give p) =
        (r.given ++ [p]) ++ parked (if p.cmd = Cmd.CLSE then s.store.clear p.arg0 p.arg1 else s.store) r
          ++ ownOf r rest ++ lostOf s r := rfl
    rw [hv, hp']
    simp [view, hpe, hw, ownOf_eq, hown]
  · intro j rj hji hrj
    have hne : rj.lid ≠ r.lid := fun e => hji (lid_inj hwf h.static hrj hr e)
    have hnb : ownB rj p = false := by simp [ownB, hids.1, Ne.symm hne]
    have hp' : parked (if p.cmd = Cmd.CLSE then s.store.clear p.arg0 p.arg1 else s.store) rj = parked s.store rj := by
      split
      · rw [parked_clear h.store.1]; simp [hids, hne]
      · rfl
    have hv : view
        { s with wire := rest,
                 store := if p.cmd = Cmd.CLSE then s.store.clear p.arg0 p.arg1 else s.store,
                 readers := s.readers.set i (r.give p) } rj =
        rj.given ++ parked (if p.cmd = Cmd.CLSE then s.store.clear p.arg0 p.arg1 else s.store) rj
          ++ ownOf rj rest ++ lostOf s rj := rfl
    rw [hv, hp']
    simp [view, hw, ownOf_eq, hnb]

/-- the reader takes another stream's packet off the wire and parks it — or `put` discards it (K1) -/
theorem inv_foreign (hwf : WellFormed sys₀) (h : Inv sys₀ s) {i : Nat} {r : Reader}
    (hr : s.readers[i]? = some r) (r' : Reader)
    (h1 : r'.sig = r.sig) (h4 : r'.given = r.given) (h5 : r'.dropped = r.dropped) (h6 : r'.done = r.done)
    {p : Pkt} {rest : List Pkt} (hw : s.wire = p :: rest) (hown : ownB r p = false) :
    Inv sys₀ { s with wire := rest,
                      store := s.store.put p.arg0 p.arg1 p.cmd p.data,
                      readers := s.readers.set i r',
                      lost := if p.cmd = Cmd.CLSE ∧ s.store.queue p.arg0 p.arg1 = none
                              then s.lost ++ [p] else s.lost } := by
  obtain ⟨hE, hdrop, hdn⟩ := h.cons i r hr
  obtain ⟨hp0, hp1, hpc⟩ := wire_facts hwf h.wire (p := p) (by simp [hw])
  simp only [Reader.sig, Prod.mk.injEq] at h1
  -- the view of any reader `rj` of the old state is unchanged
  have key : ∀ (j : Nat) (rj : Reader), s.readers[j]? = some rj →
      rj.given ++ parked (s.store.put p.arg0 p.arg1 p.cmd p.data) rj ++ ownOf rj rest ++
        (if p.cmd = Cmd.CLSE ∧ s.store.queue p.arg0 p.arg1 = none then s.lost ++ [p] else s.lost).filter (ownB rj)
      = view s rj := by
    intro j rj hrj
    rw [parked_put]
    by_cases ho : ownB rj p = true
    · by_cases hk : p.cmd = Cmd.CLSE ∧ s.store.queue p.arg0 p.arg1 = none
      · have hEj := (h.cons j rj hrj).1
        simp only [view, hw, ownOf_eq, List.filter_cons, ho, if_true, lostOf] at hEj
        have hpost := clse_last hwf h.static hrj (pre := rj.given ++ parked s.store rj) (p := p)
          (post := List.filter (ownB rj) rest ++ List.filter (ownB rj) s.lost) (by rw [ownOf_eq, hEj]; simp) hk.1
        simp only [List.append_eq_nil_iff] at hpost
        simp [view, hw, ownOf_eq, ho, hk, lostOf, hpost.1, hpost.2]
      · simp [view, hw, ownOf_eq, ho, hk, lostOf]
    · have ho' : ownB rj p = false := by simpa using ho
      by_cases hk : p.cmd = Cmd.CLSE ∧ s.store.queue p.arg0 p.arg1 = none
      · simp [view, hw, ownOf_eq, ho', hk, lostOf]
      · simp [view, hw, ownOf_eq, ho', hk, lostOf]
  refine inv_update h hr (by simp [Reader.sig, h1]) rfl (storeOK_put h.store hp0 hp1 hpc) ⟨[p], by simp [hw]⟩
    ?_ ⟨?_, by rw [h5, hdrop], by rw [h6, h4, hdn]⟩ ?_
  · intro x hx
    have hx : x ∈ (if p.cmd = Cmd.CLSE ∧ s.store.queue p.arg0 p.arg1 = none then s.lost ++ [p] else s.lost) := hx
    split at hx
    · rename_i hk
      simp only [List.mem_append, List.mem_singleton] at hx
      rcases hx with hx | hx
      · exact h.lostC x hx
      · subst hx; exact hk.1
    · exact h.lostC x hx
  · have := key i r hr
    rw [← this]
    simp only [view, lostOf, h4, parked_congr h1.1 h1.2.1, ownOf_congr h1.1 h1.2.1]
    rw [ownB_congr h1.1 h1.2.1]
  · intro j rj _ hrj
    exact key j rj hrj

end

section
variable {sys₀ s : Sys}

theorem set_self {α : Type} {l : List α} {i : Nat} {a : α} (h : l[i]? = some a) : l.set i a = l := by
  apply List.ext_getElem?
  intro j
  by_cases hji : i = j
  · subst hji
    rw [List.getElem?_set, h]
    simp
    rcases Nat.lt_or_ge i l.length with h1 | h1
    · exact h1
    · rw [List.getElem?_eq_none h1] at h; simp at h
  · simp [hji]

/-- reader `i` can take step `c`: it is not done and `c` is the phase it is in -/
def Enabled (c : Choice) (i : Nat) (r : Reader) : Prop :=
  r.done = false ∧ (c = .pre i ∧ r.inLoop = false ∨ c = .iter i ∧ r.inLoop = true)

/-- a step that no reader can take changes nothing -/
theorem step_disabled (c : Choice)
    (hdis : ∀ i r, s.readers[i]? = some r → ¬ Enabled c i r) : step s c = s := by
  cases c with
  | pre i =>
    simp only [step]
    cases hr : s.readers[i]? with
    | none => rfl
    | some r =>
      have := hdis i r hr
      cases hd : r.done <;> cases hl : r.inLoop <;> simp_all [Enabled]
  | iter i =>
    simp only [step]
    cases hr : s.readers[i]? with
    | none => rfl
    | some r =>
      have := hdis i r hr
      cases hd : r.done <;> cases hl : r.inLoop <;> simp_all [Enabled]

theorem enabled_or_not (s : Sys) (c : Choice) :
    (∃ i r, s.readers[i]? = some r ∧ Enabled c i r) ∨ (∀ i r, s.readers[i]? = some r → ¬ Enabled c i r) := by
  by_cases h : ∃ i r, s.readers[i]? = some r ∧ Enabled c i r
  · exact Or.inl h
  · refine Or.inr ?_
    intro i r hr he
    exact h ⟨i, r, hr, he⟩

/-- The exact effect of a step that reader `i` can take, in a state satisfying the invariant:
    (1) it is handed the head of its own parked queue; otherwise that queue is absent or empty and
    (2) the pre-check enters the loop, (3) the transport is empty and nothing changes, (4) it takes
    its own packet off the transport, (5) it takes a foreign packet off the transport and `put`s it. -/
theorem step_enabled (hwf : WellFormed sys₀) (h : Inv sys₀ s) {i : Nat} {r : Reader} {c : Choice}
    (hr : s.readers[i]? = some r) (hen : Enabled c i r) :
    (∃ cmd d q st', s.store.queue r.rid r.lid = some ((cmd, d) :: q) ∧ Store.Inv st' ∧
        (∀ b0 b1, st'.queue b0 b1 =
          if b0 = r.rid ∧ b1 = r.lid then (if cmd = Cmd.CLSE then none else some q) else s.store.queue b0 b1) ∧
        step s c = { s with store := st', readers := s.readers.set i (r.give ⟨cmd, r.rid, r.lid, d⟩) })
    ∨ ((s.store.queue r.rid r.lid = none ∨ s.store.queue r.rid r.lid = some []) ∧
        ( (c = .pre i ∧ step s c = { s with readers := s.readers.set i { r with inLoop := true } })
        ∨ (c = .iter i ∧ s.wire = [] ∧ step s c = s)
        ∨ (c = .iter i ∧ ∃ p rest, s.wire = p :: rest ∧ ownB r p = true ∧
            step s c = { s with wire := rest,
                                store := if p.cmd = Cmd.CLSE then s.store.clear p.arg0 p.arg1 else s.store,
                                readers := s.readers.set i (r.give p) })
        ∨ (c = .iter i ∧ ∃ p rest, s.wire = p :: rest ∧ ownB r p = false ∧
            step s c = { s with wire := rest,
                                store := s.store.put p.arg0 p.arg1 p.cmd p.data,
                                readers := s.readers.set i r,
                                lost := if p.cmd = Cmd.CLSE ∧ s.store.queue p.arg0 p.arg1 = none
                                        then s.lost ++ [p] else s.lost }))) := by
  obtain ⟨hdone, hc⟩ := hen
  obtain ⟨_, _, hexp, _⟩ := reader_facts hwf h.static hr
  generalize hs : step s c = s2
  rcases hc with ⟨rfl, hl⟩ | ⟨rfl, hl⟩
  · have hflag : (r.done || r.inLoop) = false := by simp [hdone, hl]
    simp only [step, hr, hflag, Bool.false_eq_true, if_false] at hs
    rcases drain_spec h.store r hexp (storeSize s.store) with ⟨c, d, q, st', hq, hd, hI, hqq⟩ | ⟨hq, hd⟩
    · rw [hd] at hs
      simp only [List.append_nil, setReader] at hs
      exact Or.inl ⟨c, d, q, st', hq, hI, hqq, hs.symm⟩
    · rw [hd] at hs
      simp only [List.append_nil, setReader] at hs
      exact Or.inr ⟨hq, Or.inl ⟨rfl, hs.symm⟩⟩
  · have hflag : (r.done || !r.inLoop) = false := by simp [hdone, hl]
    simp only [step, hr, hflag, Bool.false_eq_true, if_false] at hs
    rcases drain_spec h.store r hexp (storeSize s.store) with ⟨c, d, q, st', hq, hd, hI, hqq⟩ | ⟨hq, hd⟩
    · rw [hd] at hs
      simp only [List.append_nil, setReader] at hs
      exact Or.inl ⟨c, d, q, st', hq, hI, hqq, hs.symm⟩
    · rw [hd] at hs
      simp only [List.append_nil, setReader] at hs
      refine Or.inr ⟨hq, Or.inr ?_⟩
      cases hw : s.wire with
      | nil =>
        refine Or.inl ⟨rfl, rfl, ?_⟩
        simp only [hw] at hs
        rw [← hs]
        have hse : s.readers.set i r = s.readers := set_self hr
        cases s
        simp only [Sys.mk.injEq, true_and, and_true] at hw ⊢
        exact ⟨hw.symm, hse⟩
      | cons p rest =>
        simp only [hw] at hs
        obtain ⟨hp0, hp1, hpc⟩ := wire_facts hwf h.wire (p := p) (by simp [hw])
        have hown_eq : Reader.owns { r with dropped := r.dropped } p = ownB r p := owns_eq_ownB r hp0 hp1
        rw [hown_eq] at hs
        have hcont : r.expected.contains p.cmd = true := by
          rcases hpc with e | e <;> simp [hexp, e]
        by_cases hown : ownB r p = true
        · simp only [hown, if_true, hcont] at hs
          exact Or.inr (Or.inl ⟨rfl, p, rest, rfl, hown, hs.symm⟩)
        · simp only [hown, Bool.false_eq_true, if_false] at hs
          have hown' : ownB r p = false := by simpa using hown
          exact Or.inr (Or.inr ⟨rfl, p, rest, rfl, hown', hs.symm⟩)

/-- every atomic step preserves the invariant -/
theorem step_inv (hwf : WellFormed sys₀) (h : Inv sys₀ s) (c : Choice) : Inv sys₀ (step s c) := by
  rcases enabled_or_not s c with ⟨i, r, hr, hen⟩ | hdis
  · rcases step_enabled hwf h hr hen with ⟨cmd, d, q, st', hq, hI, hqq, he⟩ |
      ⟨hq, ⟨_, he⟩ | ⟨_, _, he⟩ | ⟨_, p, rest, hw, hown, he⟩ | ⟨_, p, rest, hw, hown, he⟩⟩
    · rw [he]; exact inv_give_store hwf h hr hen.1 hq hI hqq
    · rw [he]; exact inv_same h hr _ rfl rfl rfl rfl
    · rw [he]; exact h
    · rw [he]; exact inv_give_wire hwf h hr hen.1 hq hw hown
    · rw [he]; exact inv_foreign hwf h hr r rfl rfl rfl rfl hw hown
  · rw [step_disabled c hdis]; exact h

/-- The `lost` list grows only in the K1 situation: the stepping reader takes a foreign CLSE off the
    transport while the store has no entry for that CLSE's stream. -/
theorem step_lost (hwf : WellFormed sys₀) (h : Inv sys₀ s) (c : Choice) :
    (step s c).lost = s.lost ∨
    ∃ j rj p rest, c = .iter j ∧ s.readers[j]? = some rj ∧ ownB rj p = false ∧ s.wire = p :: rest ∧
      p.cmd = Cmd.CLSE ∧ s.store.queue p.arg0 p.arg1 = none ∧ (step s c).lost = s.lost ++ [p] := by
  rcases enabled_or_not s c with ⟨i, r, hr, hen⟩ | hdis
  · rcases step_enabled hwf h hr hen with ⟨cmd, d, q, st', hq, hI, hqq, he⟩ |
      ⟨hq, ⟨_, he⟩ | ⟨_, _, he⟩ | ⟨_, p, rest, hw, hown, he⟩ | ⟨hc, p, rest, hw, hown, he⟩⟩
    · rw [he]; exact Or.inl rfl
    · rw [he]; exact Or.inl rfl
    · rw [he]; exact Or.inl rfl
    · rw [he]; exact Or.inl rfl
    · by_cases hk : p.cmd = Cmd.CLSE ∧ s.store.queue p.arg0 p.arg1 = none
      · refine Or.inr ⟨i, r, p, rest, hc, hr, hown, hw, hk.1, hk.2, ?_⟩
        rw [he]; simp [hk]
      · rw [he]; simp [hk]
  · rw [step_disabled c hdis]; exact Or.inl rfl

theorem run_inv (hwf : WellFormed sys₀) (h : Inv sys₀ s) (sched : List Choice) : Inv sys₀ (run s sched) := by
  induction sched generalizing s with
  | nil => exact h
  | cons c rest ih => exact ih (step_inv hwf h c)

theorem run_append (s : Sys) (a b : List Choice) : run s (a ++ b) = run (run s a) b := by
  simp [run, List.foldl_append]

theorem inv_initial (hi : Initial sys₀) : Inv sys₀ sys₀ := by
  obtain ⟨hwf, hst, hl, hf⟩ := hi
  refine ⟨?_, rfl, ⟨[], rfl⟩, by simp [hl], ?_⟩
  · rw [hst]; exact ⟨Store.inv_empty, by simp [Store.queue]⟩
  · intro i r hr
    obtain ⟨g, d, dn, _⟩ := hf r (List.mem_of_getElem? hr)
    refine ⟨?_, d, by simp [dn, g]⟩
    simp [view, g, parked, hst, Store.queue, lostOf, hl]

/-- every state reachable from an initial system satisfies the invariant -/
theorem reach_inv (hi : Initial sys₀) (sched : List Choice) : Inv sys₀ (run sys₀ sched) :=
  run_inv hi.1 (inv_initial hi) sched

end

/-! ### Consequences of the invariant, phrased with the initial reader `r₀` -/

theorem take_findIdx_clse {l : List Pkt}
    (h : ∀ pre p post, l = pre ++ p :: post → p.cmd = Cmd.CLSE → post = []) :
    (match l.findIdx? (·.cmd == Cmd.CLSE) with
      | some k => l.take (k + 1)
      | none => l) = l := by
  induction l with
  | nil => simp
  | cons a t ih =>
    rw [List.findIdx?_cons]
    by_cases ha : (a.cmd == Cmd.CLSE) = true
    · simp only [ha, if_true]
      have : t = [] := h [] a t rfl (by simpa using ha)
      simp [this]
    · simp only [ha, Bool.false_eq_true, if_false]
      have ih' := ih (fun pre p post he hc => h (a :: pre) p post (by simp [he]) hc)
      cases hf : t.findIdx? (·.cmd == Cmd.CLSE) with
      | none => simp
      | some k =>
        rw [hf] at ih'
        simp only [Option.map_some] at ih' ⊢
        simp [ih']

/-- a conforming device sends nothing after a stream's CLSE, so a reader alone on the transport is
    given everything the device sent on its stream -/
theorem aloneGiven_eq_ownOf {sys : Sys} (hwf : WellFormed sys) {r : Reader} (hr : r ∈ sys.readers) :
    aloneGiven r sys.wire = ownOf r sys.wire := by
  unfold aloneGiven
  exact take_findIdx_clse (hwf.2.2.2 r hr)

section
variable {sys₀ s : Sys}

theorem inv_reader (h : Inv sys₀ s) {i : Nat} {r₀ : Reader} (hr₀ : sys₀.readers[i]? = some r₀) :
    ∃ r, s.readers[i]? = some r ∧ r.lid = r₀.lid ∧ r.rid = r₀.rid := by
  have h1 : (sys₀.readers.map Reader.sig)[i]? = some r₀.sig := by simp [hr₀]
  rw [← h.static] at h1
  simp only [List.getElem?_map, Option.map_eq_some_iff] at h1
  obtain ⟨r, hr, hsig⟩ := h1
  simp only [Reader.sig, Prod.mk.injEq] at hsig
  exact ⟨r, hr, hsig.1, hsig.2.1⟩

theorem inv_reader_ids (h : Inv sys₀ s) {i : Nat} {r₀ r : Reader} (hr₀ : sys₀.readers[i]? = some r₀)
    (hr : s.readers[i]? = some r) : r.lid = r₀.lid ∧ r.rid = r₀.rid := by
  obtain ⟨r', hr', e⟩ := inv_reader h hr₀
  rw [hr] at hr'
  cases hr'
  exact e

/-- the conservation equation of reader `i`, written with the initial reader `r₀` -/
theorem inv_cons₀ (h : Inv sys₀ s) {i : Nat} {r₀ r : Reader} (hr₀ : sys₀.readers[i]? = some r₀)
    (hr : s.readers[i]? = some r) :
    ownOf r₀ sys₀.wire = r.given ++ parked s.store r₀ ++ ownOf r₀ s.wire ++ lostOf s r₀ := by
  obtain ⟨e1, e2⟩ := inv_reader_ids h hr₀ hr
  have := (h.cons i r hr).1
  rw [view, ownOf_congr e1 e2, ownOf_congr e1 e2, parked_congr e1 e2, lostOf, ownB_congr e1 e2] at this
  exact this

/-- a lost packet is the last packet the device sent on its stream -/
theorem lost_is_last (hwf : WellFormed sys₀) (h : Inv sys₀ s) {i : Nat} {r₀ : Reader}
    (hr₀ : sys₀.readers[i]? = some r₀) {p : Pkt} (hp : p ∈ lostOf s r₀) :
    (ownOf r₀ sys₀.wire).getLast? = some p := by
  obtain ⟨r, hr, _⟩ := inv_reader h hr₀
  have hE := inv_cons₀ h hr₀ hr
  obtain ⟨a, b, hab⟩ := List.append_of_mem hp
  have hc : p.cmd = Cmd.CLSE := h.lostC p (List.mem_filter.1 hp).1
  rw [hab] at hE
  have hb : b = [] := hwf.2.2.2 r₀ (List.mem_of_getElem? hr₀)
    (r.given ++ parked s.store r₀ ++ ownOf r₀ s.wire ++ a) p b (by rw [hE]; simp) hc
  rw [hE, hb]
  simp

end

/-! ### Progress of a reader that runs alone from a reachable state -/

/-- what reader `ρ` can still obtain without waiting: packets on the transport plus its parked packets -/
def mu (s : Sys) (ρ : Reader) : Nat := s.wire.length + (parked s.store ρ).length

section
variable {sys₀ s : Sys}

theorem getElem?_set_self' {α : Type} {l : List α} {i : Nat} {a b : α} (h : l[i]? = some a) :
    (l.set i b)[i]? = some b := by
  have hlt : i < l.length := by
    rcases Nat.lt_or_ge i l.length with h1 | h1
    · exact h1
    · rw [List.getElem?_eq_none h1] at h; simp at h
  simp [hlt]

/-- an enabled step of reader `i` either consumes something (`mu` decreases), or is the pre-check
    entering the loop, or finds nothing at all (`mu = 0`) and changes nothing -/
theorem step_enabled_mu (hwf : WellFormed sys₀) (h : Inv sys₀ s) {i : Nat} {r ρ : Reader} {c : Choice}
    (hr : s.readers[i]? = some r) (hρ : r.lid = ρ.lid ∧ r.rid = ρ.rid) (hen : Enabled c i r) :
    ∃ r', (step s c).readers[i]? = some r' ∧ (r'.lid = ρ.lid ∧ r'.rid = ρ.rid) ∧
      ( mu (step s c) ρ + 1 ≤ mu s ρ
      ∨ (c = .pre i ∧ mu (step s c) ρ = mu s ρ ∧ r'.done = false ∧ r'.inLoop = true)
      ∨ (mu s ρ = 0 ∧ step s c = s)) := by
  have hpar : ∀ st, parked st ρ = parked st r := fun st => (parked_congr hρ.1 hρ.2 st).symm
  rcases step_enabled hwf h hr hen with ⟨cmd, d, q, st', hq, hI, hqq, he⟩ |
    ⟨hq, ⟨hc, he⟩ | ⟨_, hw, he⟩ | ⟨_, p, rest, hw, hown, he⟩ | ⟨hc, p, rest, hw, hown, he⟩⟩
  · refine ⟨r.give ⟨cmd, r.rid, r.lid, d⟩, by rw [he]; exact getElem?_set_self' hr, hρ, Or.inl ?_⟩
    rw [he]
    simp only [mu, hpar]
    have h1 : parked s.store r = ⟨cmd, r.rid, r.lid, d⟩ :: q.map (fun x => ⟨x.1, r.rid, r.lid, x.2⟩) := by
      simp [parked, hq]
    have h2 : (parked st' r).length ≤ q.length := by
      unfold parked
      rw [hqq]
      by_cases hcl : cmd = Cmd.CLSE <;> simp [hcl]
    rw [h1]
    simp only [List.length_cons, List.length_map]
    omega
  · refine ⟨{ r with inLoop := true }, by rw [he]; exact getElem?_set_self' hr, hρ, Or.inr (Or.inl ?_)⟩
    rw [he]
    exact ⟨hc, rfl, hen.1, rfl⟩
  · refine ⟨r, by rw [he]; exact hr, hρ, Or.inr (Or.inr ⟨?_, he⟩)⟩
    have hpe : parked s.store r = [] := by rcases hq with e | e <;> simp [parked, e]
    simp [mu, hpar, hw, hpe]
  · refine ⟨r.give p, by rw [he]; exact getElem?_set_self' hr, hρ, Or.inl ?_⟩
    have hpe : parked s.store r = [] := by rcases hq with e | e <;> simp [parked, e]
    have hids : p.arg1 = r.lid ∧ p.arg0 = r.rid := by simpa [ownB] using hown
    have hp' : parked (if p.cmd = Cmd.CLSE then s.store.clear p.arg0 p.arg1 else s.store) r = [] := by
      split
      · rw [parked_clear h.store.1]; simp [hids]
      · exact hpe
    rw [he]
    simp only [mu, hpar, hp', hpe, hw, List.length_cons]
    omega
  · refine ⟨r, by rw [he]; exact getElem?_set_self' hr, hρ, Or.inl ?_⟩
    rw [he]
    simp only [mu, hpar, hw, List.length_cons, parked_put, hown, Bool.false_eq_true, false_and, if_false]
    omega

theorem not_enabled_all {i : Nat} {r : Reader} {c : Choice} (hr : s.readers[i]? = some r)
    (hc : c = .pre i ∨ c = .iter i) (hne : ¬ Enabled c i r) :
    ∀ j rj, s.readers[j]? = some rj → ¬ Enabled c j rj := by
  intro j rj hrj hen
  have hji : j = i := by
    rcases hc with hc | hc <;> rcases hen.2 with ⟨e, _⟩ | ⟨e, _⟩ <;> rw [hc] at e <;> cases e <;> rfl
  subst hji
  rw [hr] at hrj
  cases hrj
  exact hne hen

/-- any step of reader `i` keeps reader `i` in place and does not increase `mu`; a done reader does nothing -/
theorem step_mu_le (hwf : WellFormed sys₀) (h : Inv sys₀ s) {i : Nat} {r ρ : Reader} {c : Choice}
    (hr : s.readers[i]? = some r) (hρ : r.lid = ρ.lid ∧ r.rid = ρ.rid) (hc : c = .pre i ∨ c = .iter i) :
    ∃ r', (step s c).readers[i]? = some r' ∧ (r'.lid = ρ.lid ∧ r'.rid = ρ.rid) ∧
      mu (step s c) ρ ≤ mu s ρ ∧ (r.done = true → step s c = s) := by
  by_cases hen : Enabled c i r
  · obtain ⟨r', hr', hρ', hcase⟩ := step_enabled_mu hwf h hr hρ hen
    refine ⟨r', hr', hρ', ?_, ?_⟩
    · rcases hcase with h1 | ⟨_, h1, _⟩ | ⟨_, h1⟩
      · omega
      · omega
      · rw [h1]; exact Nat.le_refl _
    · intro hd
      rw [hen.1] at hd
      cases hd
  · have hs := step_disabled c (not_enabled_all hr hc hen)
    rw [hs]
    exact ⟨r, hr, hρ, Nat.le_refl _, fun _ => rfl⟩

/-- one round `pre i, iter i` of reader `i` -/
theorem pair_mu (hwf : WellFormed sys₀) (h : Inv sys₀ s) {i : Nat} {r ρ : Reader}
    (hr : s.readers[i]? = some r) (hρ : r.lid = ρ.lid ∧ r.rid = ρ.rid) :
    ∃ r2, (step (step s (.pre i)) (.iter i)).readers[i]? = some r2 ∧ (r2.lid = ρ.lid ∧ r2.rid = ρ.rid) ∧
      ( (r.done = true ∧ step (step s (.pre i)) (.iter i) = s)
      ∨ mu (step (step s (.pre i)) (.iter i)) ρ + 1 ≤ mu s ρ
      ∨ mu (step (step s (.pre i)) (.iter i)) ρ = 0) := by
  have h1 := step_inv hwf h (.pre i)
  by_cases hd : r.done = true
  · obtain ⟨_, _, _, _, e1⟩ := step_mu_le hwf h hr hρ (c := .pre i) (Or.inl rfl)
    obtain ⟨_, _, _, _, e2⟩ := step_mu_le hwf h hr hρ (c := .iter i) (Or.inr rfl)
    rw [e1 hd, e2 hd]
    exact ⟨r, hr, hρ, Or.inl ⟨hd, rfl⟩⟩
  · have hd : r.done = false := by simpa using hd
    cases hl : r.inLoop with
    | false =>
      obtain ⟨r1, hr1, hρ1, hcase⟩ := step_enabled_mu hwf h hr hρ (c := .pre i) ⟨hd, Or.inl ⟨rfl, hl⟩⟩
      rcases hcase with ha | ⟨_, hb, hd1, hl1⟩ | ⟨hc0, hc1⟩
      · obtain ⟨r2, hr2, hρ2, hle, _⟩ := step_mu_le hwf h1 hr1 hρ1 (c := .iter i) (Or.inr rfl)
        exact ⟨r2, hr2, hρ2, Or.inr (Or.inl (by omega))⟩
      · obtain ⟨r2, hr2, hρ2, hcase2⟩ := step_enabled_mu hwf h1 hr1 hρ1 (c := .iter i) ⟨hd1, Or.inr ⟨rfl, hl1⟩⟩
        rcases hcase2 with ha | ⟨hx, _⟩ | ⟨hc0, hc1⟩
        · exact ⟨r2, hr2, hρ2, Or.inr (Or.inl (by omega))⟩
        · cases hx
        · exact ⟨r2, hr2, hρ2, Or.inr (Or.inr (by rw [hc1]; exact hc0))⟩
      · obtain ⟨r2, hr2, hρ2, hle, _⟩ := step_mu_le hwf h1 hr1 hρ1 (c := .iter i) (Or.inr rfl)
        have hz : mu (step s (.pre i)) ρ = 0 := by rw [hc1]; exact hc0
        exact ⟨r2, hr2, hρ2, Or.inr (Or.inr (by omega))⟩
    | true =>
      have hne : ¬ Enabled (.pre i) i r := by
        rintro ⟨_, ⟨_, e⟩ | ⟨e, _⟩⟩
        · rw [hl] at e; cases e
        · cases e
      have hs1 : step s (.pre i) = s := step_disabled _ (not_enabled_all hr (Or.inl rfl) hne)
      rw [hs1]
      obtain ⟨r2, hr2, hρ2, hcase2⟩ := step_enabled_mu hwf h hr hρ (c := .iter i) ⟨hd, Or.inr ⟨rfl, hl⟩⟩
      rcases hcase2 with ha | ⟨hx, _⟩ | ⟨hc0, hc1⟩
      · exact ⟨r2, hr2, hρ2, Or.inr (Or.inl ha)⟩
      · cases hx
      · exact ⟨r2, hr2, hρ2, Or.inr (Or.inr (by rw [hc1]; exact hc0))⟩

theorem soloSched_succ (i n : Nat) : soloSched i (n + 1) = [Choice.pre i, Choice.iter i] ++ soloSched i n := by
  simp [soloSched, List.replicate_succ]

theorem run_solo_done {i : Nat} {r : Reader} (hr : s.readers[i]? = some r) (hd : r.done = true) (n : Nat) :
    run s (soloSched i n) = s := by
  have hne : ∀ c, ¬ Enabled c i r := by
    intro c ⟨e, _⟩
    rw [hd] at e; cases e
  induction n with
  | zero => rfl
  | succ n ih =>
    rw [soloSched_succ, run_append]
    have e1 : step s (.pre i) = s := step_disabled _ (not_enabled_all hr (Or.inl rfl) (hne _))
    have e2 : step s (.iter i) = s := step_disabled _ (not_enabled_all hr (Or.inr rfl) (hne _))
    simp only [run, List.foldl_cons, List.foldl_nil, e1, e2]
    exact ih

/-- after at least `mu` rounds alone, reader `i` is done, or the transport is empty and nothing is parked for it -/
theorem solo_progress (hwf : WellFormed sys₀) {i : Nat} {ρ : Reader} : ∀ (n : Nat) (s : Sys), Inv sys₀ s →
    ∀ r, s.readers[i]? = some r → (r.lid = ρ.lid ∧ r.rid = ρ.rid) → mu s ρ ≤ n →
    ∃ r', (run s (soloSched i n)).readers[i]? = some r' ∧
      (r'.done = true ∨ mu (run s (soloSched i n)) ρ = 0) := by
  intro n
  induction n with
  | zero =>
    intro s _ r hr _ hmu
    exact ⟨r, hr, Or.inr (by simpa [soloSched, run] using hmu)⟩
  | succ n ih =>
    intro s h r hr hρ hmu
    obtain ⟨r2, hr2, hρ2, hcase⟩ := pair_mu hwf h hr hρ
    have h2 : Inv sys₀ (step (step s (.pre i)) (.iter i)) := step_inv hwf (step_inv hwf h _) _
    have hrun : run s (soloSched i (n + 1)) = run (step (step s (.pre i)) (.iter i)) (soloSched i n) := by
      rw [soloSched_succ, run_append]; rfl
    rw [hrun]
    rcases hcase with ⟨hd, hs⟩ | hlt | hz
    · rw [hs, run_solo_done hr hd]
      exact ⟨r, hr, Or.inl hd⟩
    · exact ih _ h2 r2 hr2 hρ2 (by omega)
    · exact ih _ h2 r2 hr2 hρ2 (by omega)

end

/-! ### The abstract lock-order model -/

/-- a thread: the locks it holds and the lock it is waiting for (`none`: it can run) -/
structure Thr where
  holding : List Nat
  wants : Option Nat
  deriving Repr, DecidableEq

/-- nested sections respect the rank order: a thread only requests a lock of rank greater than every lock it holds -/
def Thr.Ordered (t : Thr) : Prop := ∀ l, t.wants = some l → ∀ h ∈ t.holding, h < l

/-- thread `i` waits for a lock that another thread holds -/
def Blocked (cfg : List Thr) (i : Nat) : Prop :=
  ∃ t l, cfg[i]? = some t ∧ t.wants = some l ∧ ∃ j u, j ≠ i ∧ cfg[j]? = some u ∧ l ∈ u.holding

/-- among threads that all wait, one waits for a lock of maximal rank -/
theorem exists_max_want : ∀ (cfg : List Thr), cfg ≠ [] → (∀ t ∈ cfg, Thr.wants t ≠ none) →
    ∃ (i : Nat) (t : Thr) (l : Nat), cfg[i]? = some t ∧ t.wants = some l ∧
      ∀ u ∈ cfg, ∀ l', Thr.wants u = some l' → l' ≤ l := by
  intro cfg
  induction cfg with
  | nil => intro h; exact absurd rfl h
  | cons a rest ih =>
    intro _ hw
    have ha : a.wants ≠ none := hw a (by simp)
    obtain ⟨la, hla⟩ := Option.ne_none_iff_exists'.1 ha
    by_cases hr : rest = []
    · subst hr
      refine ⟨0, a, la, by simp, hla, ?_⟩
      intro u hu l' hl'
      simp at hu; subst hu
      have : la = l' := Option.some.inj (hla.symm.trans hl'); omega
    · obtain ⟨i, t, l, hi, hl, hmax⟩ := ih hr (fun t ht => hw t (by simp [ht]))
      by_cases hc : l ≤ la
      · refine ⟨0, a, la, by simp, hla, ?_⟩
        intro u hu l' hl'
        simp at hu
        rcases hu with hu | hu
        · subst hu; have : la = l' := Option.some.inj (hla.symm.trans hl'); omega
        · have := hmax u hu l' hl'; omega
      · refine ⟨i + 1, t, l, by simp [hi], hl, ?_⟩
        intro u hu l' hl'
        simp at hu
        rcases hu with hu | hu
        · subst hu; have : la = l' := Option.some.inj (hla.symm.trans hl'); omega
        · exact hmax u hu l' hl'

end Conc
end Adb
