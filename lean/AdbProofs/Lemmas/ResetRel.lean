import AdbProofs.Lemmas.Monad
/-
  Noninterference for C12.  `Agree m s w₁ w₂`: the two worlds are equal except for `past` and
  `trace` (ghost fields nobody reads) and — when the flag `m` resp. `s` is `false` — `maxdata` resp.
  `sink`.  `Ins m s x` ("x is insensitive"): started in two agreeing worlds, `x` returns the same
  result, ends in agreeing worlds and prepends the SAME events to both traces.  Proved once per
  model function, bottom-up, with the `ins` tactic (same style as `fr` in Frame.lean / `trq` in
  PushTrace.lean).

  * wire / stream / FileSync record layer: `Ins m s` for every `m s` (they read neither `maxdata` nor `sink`);
  * functions that read `maxdata` (`devList`, `devStat`, `pushOne`, `pushFile`, …): `Ins true s`;
  * functions that read `sink` (`pullLoop`, `pullInner`): `Ins true true`; `devPull` first sets
    `sink := some []`, so it is `Ins true s` again.
-/
namespace Adb.Reset
open Adb

structure Agree (m s : Bool) (w₁ w₂ : World) : Prop where
  conns : w₁.conns = w₂.conns
  cur : w₁.cur = w₂.cur
  now : w₁.now = w₂.now
  fuel : w₁.fuel = w₂.fuel
  store : w₁.store = w₂.store
  available : w₁.available = w₂.available
  localId : w₁.localId = w₂.localId
  banner : w₁.banner = w₂.banner
  defaultTT : w₁.defaultTT = w₂.defaultTT
  locks : w₁.locks = w₂.locks
  files : w₁.files = w₂.files
  dirs : w₁.dirs = w₂.dirs
  maxdata : m = true → w₁.maxdata = w₂.maxdata
  sink : s = true → w₁.sink = w₂.sink

theorem Agree.refl (m s : Bool) (w : World) : Agree m s w w :=
  ⟨rfl, rfl, rfl, rfl, rfl, rfl, rfl, rfl, rfl, rfl, rfl, rfl, fun _ => rfl, fun _ => rfl⟩

/-- fewer obligations -/
theorem Agree.weaken {m s : Bool} {w₁ w₂ : World} (h : Agree true true w₁ w₂) : Agree m s w₁ w₂ :=
  ⟨h.conns, h.cur, h.now, h.fuel, h.store, h.available, h.localId, h.banner, h.defaultTT, h.locks, h.files, h.dirs,
    fun _ => h.maxdata rfl, fun _ => h.sink rfl⟩

/-- the second world is the first one with other values in the four free fields -/
theorem Agree.eq {m s : Bool} {w₁ w₂ : World} (h : Agree m s w₁ w₂) :
    w₂ = { w₁ with past := w₂.past, trace := w₂.trace, maxdata := w₂.maxdata, sink := w₂.sink } := by
  obtain ⟨h1, h2, h3, h4, h5, h6, h7, h8, h9, h10, h11, h12, -, -⟩ := h
  cases w₁; cases w₂
  simp only at h1 h2 h3 h4 h5 h6 h7 h8 h9 h10 h11 h12
  subst h1 h2 h3 h4 h5 h6 h7 h8 h9 h10 h11 h12
  rfl

/-- the same events were prepended to both traces -/
def SameNew (w₁ w₂ w₁' w₂' : World) : Prop := ∃ evs, w₁'.trace = evs ++ w₁.trace ∧ w₂'.trace = evs ++ w₂.trace

theorem SameNew.refl (w₁ w₂ : World) : SameNew w₁ w₂ w₁ w₂ := ⟨[], rfl, rfl⟩

theorem SameNew.trans {a₁ a₂ b₁ b₂ c₁ c₂ : World} (h1 : SameNew a₁ a₂ b₁ b₂) (h2 : SameNew b₁ b₂ c₁ c₂) :
    SameNew a₁ a₂ c₁ c₂ := by
  obtain ⟨e1, p1, q1⟩ := h1
  obtain ⟨e2, p2, q2⟩ := h2
  exact ⟨e2 ++ e1, by rw [p2, p1, List.append_assoc], by rw [q2, q1, List.append_assoc]⟩

/-- `x₁` and `x₂` behave alike on agreeing worlds -/
def Ins2 (m s : Bool) {α : Type} (x₁ x₂ : M α) : Prop :=
  ∀ w₁ w₂, Agree m s w₁ w₂ →
    (x₁ w₁).1 = (x₂ w₂).1 ∧ Agree m s (x₁ w₁).2 (x₂ w₂).2 ∧ SameNew w₁ w₂ (x₁ w₁).2 (x₂ w₂).2

/-- `x` is insensitive to the free fields -/
def Ins (m s : Bool) {α : Type} (x : M α) : Prop := Ins2 m s x x

section
variable {m s : Bool}

/-- `x` neither reads nor writes any of the four free fields -/
theorem Ins_of_silent {α} {x : M α}
    (h : ∀ w p tr md sk, x { w with past := p, trace := tr, maxdata := md, sink := sk } =
      ((x w).1, { (x w).2 with past := p, trace := tr, maxdata := md, sink := sk })) : Ins m s x := by
  intro w₁ w₂ ha
  have h0 := h w₁ w₁.past w₁.trace w₁.maxdata w₁.sink
  have e0 : ({ w₁ with past := w₁.past, trace := w₁.trace, maxdata := w₁.maxdata, sink := w₁.sink } : World) = w₁ := rfl
  rw [e0] at h0
  have hw := congrArg Prod.snd h0
  simp only at hw
  have hm : (x w₁).2.maxdata = w₁.maxdata := by rw [hw]
  have hs : (x w₁).2.sink = w₁.sink := by rw [hw]
  have ht : (x w₁).2.trace = w₁.trace := by rw [hw]
  rw [ha.eq, h w₁ w₂.past w₂.trace w₂.maxdata w₂.sink]
  refine ⟨rfl, ⟨rfl, rfl, rfl, rfl, rfl, rfl, rfl, rfl, rfl, rfl, rfl, rfl, ?_, ?_⟩, [], ?_, rfl⟩
  · intro hm'; show (x w₁).2.maxdata = w₂.maxdata; rw [hm]; exact ha.maxdata hm'
  · intro hs'; show (x w₁).2.sink = w₂.sink; rw [hs]; exact ha.sink hs'
  · simpa using ht

theorem Ins_pure {α} (a : α) : Ins m s (pure a : M α) := Ins_of_silent fun _ _ _ _ _ => rfl
theorem Ins_Mpure {α} (a : α) : Ins m s (M.pure a : M α) := Ins_of_silent fun _ _ _ _ _ => rfl
theorem Ins_throw {α} (e : Err) : Ins m s (M.throw e : M α) := Ins_of_silent fun _ _ _ _ _ => rfl
theorem Ins_now : Ins m s now := Ins_of_silent fun _ _ _ _ _ => rfl
theorem Ins_liftExcept {α} (x : Except Err α) : Ins m s (liftExcept x) := Ins_of_silent fun _ _ _ _ _ => rfl
theorem Ins_elapsedGt (st : Int) (l : Timeout) : Ins m s (elapsedGt st l) :=
  Ins_of_silent fun _ _ _ _ _ => by cases l <;> rfl

theorem Ins_emit (e : TEv) : Ins m s (emit e) := by
  intro w₁ w₂ h
  exact ⟨rfl, ⟨h.conns, h.cur, h.now, h.fuel, h.store, h.available, h.localId, h.banner, h.defaultTT, h.locks,
    h.files, h.dirs, h.maxdata, h.sink⟩, [e], rfl, rfl⟩

theorem Ins2_bind {α β} {x₁ x₂ : M α} {f₁ f₂ : α → M β} (hx : Ins2 m s x₁ x₂) (hf : ∀ a, Ins2 m s (f₁ a) (f₂ a)) :
    Ins2 m s (x₁ >>= f₁) (x₂ >>= f₂) := by
  intro w₁ w₂ h
  obtain ⟨h1, h2, h3⟩ := hx w₁ w₂ h
  rw [bind_run, bind_run]
  cases hx1 : x₁ w₁ with
  | mk r1 v1 =>
    cases hx2 : x₂ w₂ with
    | mk r2 v2 =>
      rw [hx1, hx2] at h1 h2 h3
      simp only at h1
      subst h1
      cases r1 with
      | error e => exact ⟨rfl, h2, h3⟩
      | ok a =>
        obtain ⟨g1, g2, g3⟩ := hf a v1 v2 h2
        exact ⟨g1, g2, h3.trans g3⟩

theorem Ins_bind {α β} {x : M α} {f : α → M β} (hx : Ins m s x) (hf : ∀ a, Ins m s (f a)) : Ins m s (x >>= f) :=
  Ins2_bind hx hf

/-- `let w ← get; f w` where `f` does not look at the free fields of `w` -/
theorem Ins_get_bind {β} {f : World → M β} (hf : ∀ w, Ins m s (f w))
    (hi : ∀ w p tr md sk, f { w with past := p, trace := tr, maxdata := md, sink := sk } = f w) :
    Ins m s (M.get >>= f) := by
  intro w₁ w₂ h
  have e : f w₂ = f w₁ := by rw [h.eq]; exact hi w₁ _ _ _ _
  simp only [bind_run, M.get_run]
  rw [e]
  exact hf w₁ w₁ w₂ h

/-- `let w ← get; f w` where `f` may look at `maxdata` (so `maxdata` must agree) -/
theorem Ins_get_bind_m {β} {f : World → M β} (hf : ∀ w, Ins true s (f w))
    (hi : ∀ w p tr sk, f { w with past := p, trace := tr, sink := sk } = f w) :
    Ins true s (M.get >>= f) := by
  intro w₁ w₂ h
  have e : f w₂ = f w₁ := by
    rw [h.eq, ← h.maxdata rfl]; exact hi w₁ _ _ _
  simp only [bind_run, M.get_run]
  rw [e]
  exact hf w₁ w₁ w₂ h

theorem Ins_ite {α} {c : Prop} [Decidable c] {a b : M α} (ha : Ins m s a) (hb : Ins m s b) :
    Ins m s (if c then a else b) := by
  split <;> assumption

theorem Ins_withLock {α} (l : Nat) {body : M α} (hb : Ins m s body) : Ins m s (withLock l body) := by
  intro w₁ w₂ h
  rw [withLock_run, withLock_run, ← h.locks]
  split
  · exact ⟨rfl, h, SameNew.refl _ _⟩
  · have h' : Agree m s { w₁ with locks := l :: w₁.locks } { w₂ with locks := l :: w₁.locks } :=
      ⟨h.conns, h.cur, h.now, h.fuel, h.store, h.available, h.localId, h.banner, h.defaultTT, rfl, h.files, h.dirs,
        h.maxdata, h.sink⟩
    obtain ⟨g1, g2, g3⟩ := hb _ _ h'
    refine ⟨g1, ⟨g2.conns, g2.cur, g2.now, g2.fuel, g2.store, g2.available, g2.localId, g2.banner, g2.defaultTT, ?_,
      g2.files, g2.dirs, g2.maxdata, g2.sink⟩, g3⟩
    show List.erase _ l = List.erase _ l
    rw [g2.locks]

theorem Ins_swallow {x : M Unit} (hx : Ins m s x) : Ins m s (M.swallow x) := by
  intro w₁ w₂ h
  obtain ⟨-, g2, g3⟩ := hx w₁ w₂ h
  exact ⟨rfl, g2, g3⟩

theorem Ins_tryFinally {α} {x : M α} {fin : M Unit} (hx : Ins m s x) (hf : Ins m s fin) :
    Ins m s (M.tryFinally x fin) := by
  intro w₁ w₂ h
  obtain ⟨h1, h2, h3⟩ := hx w₁ w₂ h
  unfold M.tryFinally
  cases hx1 : x w₁ with
  | mk r1 v1 =>
    cases hx2 : x w₂ with
    | mk r2 v2 =>
      rw [hx1, hx2] at h1 h2 h3
      simp only at h1
      subst h1
      obtain ⟨g1, g2, g3⟩ := hf v1 v2 h2
      cases hf1 : fin v1 with
      | mk q1 u1 =>
        cases hf2 : fin v2 with
        | mk q2 u2 =>
          rw [hf1, hf2] at g1 g2 g3
          simp only at g1
          subst g1
          cases r1 <;> cases q1 <;> (simp only [hf1, hf2]; exact ⟨trivial, g2, h3.trans g3⟩)

/-- a state update that keeps agreement and does not touch the trace -/
theorem Ins_modify {f : World → World} (hf : ∀ w₁ w₂, Agree m s w₁ w₂ → Agree m s (f w₁) (f w₂))
    (ht : ∀ w, (f w).trace = w.trace) : Ins m s (M.modify f) := by
  intro w₁ w₂ h
  exact ⟨rfl, hf w₁ w₂ h, [], by simp [ht], by simp [ht]⟩

end

/-- closes `∀ w₁ w₂, Agree m s w₁ w₂ → Agree m s (f w₁) (f w₂)` for an explicit record update `f` -/
macro "agree_upd" : tactic =>
  `(tactic| (intro w₁ w₂ h; constructor <;> dsimp only <;>
      first
      | rfl
      | exact h.conns | exact h.cur | exact h.now | exact h.fuel | exact h.store | exact h.available
      | exact h.localId | exact h.banner | exact h.defaultTT | exact h.locks | exact h.files | exact h.dirs
      | exact h.maxdata | exact h.sink
      | rw [h.localId]
      | rw [h.store]
      | (intro hh; first | rfl | rw [h.sink hh] | rw [h.maxdata hh])))

/-- extensible: one alternative per proved `Ins` lemma -/
syntax "ins_lemma" : tactic
macro_rules | `(tactic| ins_lemma) => `(tactic| with_reducible exact Ins_pure _)
macro_rules | `(tactic| ins_lemma) => `(tactic| with_reducible exact Ins_Mpure _)
macro_rules | `(tactic| ins_lemma) => `(tactic| with_reducible exact Ins_throw _)
macro_rules | `(tactic| ins_lemma) => `(tactic| with_reducible exact Ins_now)
macro_rules | `(tactic| ins_lemma) => `(tactic| with_reducible exact Ins_liftExcept _)
macro_rules | `(tactic| ins_lemma) => `(tactic| with_reducible exact Ins_elapsedGt _ _)
macro_rules | `(tactic| ins_lemma) => `(tactic| with_reducible exact Ins_emit _)

/-- structural decomposition of a `do` block; `ins [ih]` also tries the induction hypothesis `ih` -/
syntax "ins" ("[" term "]")? : tactic
macro_rules
  | `(tactic| ins) => `(tactic| ins [Ins_now])
  | `(tactic| ins [$h]) => `(tactic| first
    | ins_lemma
    | with_reducible assumption
    | with_reducible exact $h
    | with_reducible exact $h _
    | with_reducible exact $h _ _
    | with_reducible exact $h _ _ _
    | ((with_reducible refine Ins_get_bind (fun _ => ?_) ?_); rotate_left; (intro _ _ _ _ _; rfl); ins [$h])
    | ((with_reducible refine Ins_get_bind_m (fun _ => ?_) ?_); rotate_left; (intro _ _ _ _; rfl); ins [$h])
    | (with_reducible apply Ins_bind) <;> (first | (intro _; ins [$h]) | ins [$h])
    | (with_reducible apply Ins_withLock); ins [$h]
    | (with_reducible apply Ins_tryFinally) <;> ins [$h]
    | (with_reducible apply Ins_swallow); ins [$h]
    | ((with_reducible refine Ins_modify ?_ ?_); rotate_left; (intro _; rfl); agree_upd)
    | (with_reducible apply Ins_ite) <;> ins [$h]
    | (split <;> ins [$h])
    | (dsimp only; ins [$h])
    | (intro _; ins [$h]))


/-! ### the transport -/

section
variable {m s : Bool}

theorem Ins_waitTimeout {α} (tt : Timeout) : Ins m s (waitTimeout tt : M α) :=
  Ins_of_silent fun _ _ _ _ _ => by cases tt <;> rfl

/-- closes the goals left by `repeat' split` on a primitive -/
macro "silent_close" : tactic => `(tactic| all_goals (first | (dsimp only; done) | rfl))

theorem Ins_bulkRead (n : Nat) (tt : Timeout) : Ins m s (bulkRead n tt) := by
  apply Ins_of_silent
  intro w p tr md sk
  unfold bulkRead waitTimeout
  dsimp only
  repeat' split
  silent_close

theorem Ins_bulkWrite (d : Bytes) (tt : Timeout) : Ins m s (bulkWrite d tt) := by
  apply Ins_of_silent
  intro w p tr md sk
  unfold bulkWrite waitTimeout
  dsimp only
  repeat' split
  silent_close

/-- `transport.close()` is the one place where `past` grows — a free field -/
theorem Ins_tClose : Ins m s tClose := by
  intro w₁ w₂ h
  unfold tClose
  rw [← h.cur]
  cases hc : w₁.cur with
  | none =>
    exact ⟨rfl, ⟨h.conns, rfl, h.now, h.fuel, h.store, h.available, h.localId, h.banner, h.defaultTT, h.locks,
      h.files, h.dirs, h.maxdata, h.sink⟩, [.tclose], rfl, rfl⟩
  | some c =>
    exact ⟨rfl, ⟨h.conns, rfl, h.now, h.fuel, h.store, h.available, h.localId, h.banner, h.defaultTT, h.locks,
      h.files, h.dirs, h.maxdata, h.sink⟩, [.tclose], rfl, rfl⟩

theorem Ins_tConnect (tt : Timeout) : Ins m s (tConnect tt) := by
  intro w₁ w₂ h
  unfold tConnect
  rw [← h.conns]
  cases hc : w₁.conns with
  | nil =>
    exact ⟨rfl, ⟨rfl, h.cur, h.now, h.fuel, h.store, h.available, h.localId, h.banner, h.defaultTT, h.locks,
      h.files, h.dirs, h.maxdata, h.sink⟩, [.tconnect], rfl, rfl⟩
  | cons c rest =>
    dsimp only
    split
    · exact ⟨rfl, ⟨rfl, h.cur, h.now, h.fuel, h.store, h.available, h.localId, h.banner, h.defaultTT, h.locks,
        h.files, h.dirs, h.maxdata, h.sink⟩, [.tconnect], rfl, rfl⟩
    · exact ⟨rfl, ⟨rfl, rfl, h.now, h.fuel, h.store, h.available, h.localId, h.banner, h.defaultTT, h.locks,
        h.files, h.dirs, h.maxdata, h.sink⟩, [.tconnect], rfl, rfl⟩

end

macro_rules | `(tactic| ins_lemma) => `(tactic| with_reducible exact Ins_waitTimeout _)
macro_rules | `(tactic| ins_lemma) => `(tactic| with_reducible exact Ins_bulkRead _ _)
macro_rules | `(tactic| ins_lemma) => `(tactic| with_reducible exact Ins_bulkWrite _ _)
macro_rules | `(tactic| ins_lemma) => `(tactic| with_reducible exact Ins_tClose)
macro_rules | `(tactic| ins_lemma) => `(tactic| with_reducible exact Ins_tConnect _)

/-! ### `_AdbIOManager`, bottom-up -/

section
variable {m s : Bool}

theorem Ins_readBytesLoop (t : Txn) (start : Int) : ∀ fuel rem acc, Ins m s (readBytesLoop t start fuel rem acc) := by
  intro fuel
  induction fuel with
  | zero => intro rem acc; unfold readBytesLoop; ins
  | succ f ih =>
    intro rem acc
    unfold readBytesLoop
    ins [ih]
end
macro_rules | `(tactic| ins_lemma) => `(tactic| with_reducible exact Ins_readBytesLoop _ _ _ _ _)
section
variable {m s : Bool}

theorem Ins_readBytes (n : Nat) (t : Txn) : Ins m s (readBytes n t) := by
  unfold readBytes
  ins
end
macro_rules | `(tactic| ins_lemma) => `(tactic| with_reducible exact Ins_readBytes _ _)

theorem Ins_readPacket {m s : Bool} (t : Txn) : Ins m s (readPacket t) := by
  unfold readPacket
  ins
macro_rules | `(tactic| ins_lemma) => `(tactic| with_reducible exact Ins_readPacket _)

theorem Ins_writeAllLoop {m s : Bool} (t : Txn) (start : Int) : ∀ fuel data, Ins m s (writeAllLoop t start fuel data) := by
  intro fuel
  induction fuel with
  | zero => intro data; unfold writeAllLoop; ins
  | succ f ih =>
    intro data
    unfold writeAllLoop
    ins [ih]
macro_rules | `(tactic| ins_lemma) => `(tactic| with_reducible exact Ins_writeAllLoop _ _ _ _)

theorem Ins_writeAll {m s : Bool} (d : Bytes) (t : Txn) : Ins m s (writeAll d t) := by
  unfold writeAll
  ins
macro_rules | `(tactic| ins_lemma) => `(tactic| with_reducible exact Ins_writeAll _ _)

theorem Ins_sendRaw {m s : Bool} (msg : Msg) (t : Txn) : Ins m s (sendRaw msg t) := by
  unfold sendRaw
  ins
macro_rules | `(tactic| ins_lemma) => `(tactic| with_reducible exact Ins_sendRaw _ _)

theorem Ins_ioSend {m s : Bool} (msg : Msg) (t : Txn) : Ins m s (ioSend msg t) := by
  unfold ioSend
  ins
macro_rules | `(tactic| ins_lemma) => `(tactic| with_reducible exact Ins_ioSend _ _)

theorem Ins_expectLoop {m s : Bool} (ex : List Cmd) (t : Txn) (start : Int) : ∀ fuel , Ins m s (expectLoop ex t start fuel ) := by
  intro fuel
  induction fuel with
  | zero => unfold expectLoop; ins
  | succ f ih =>
    unfold expectLoop
    ins [ih]
macro_rules | `(tactic| ins_lemma) => `(tactic| with_reducible exact Ins_expectLoop _ _ _ _)

theorem Ins_expectPacket {m s : Bool} (ex : List Cmd) (t : Txn) : Ins m s (expectPacket ex t) := by
  unfold expectPacket
  ins
macro_rules | `(tactic| ins_lemma) => `(tactic| with_reducible exact Ins_expectPacket _ _)

theorem Ins_storeFind {m s : Bool} (t : Txn) (az : Bool) : Ins m s (storeFind t az) := Ins_of_silent fun _ _ _ _ _ => rfl
macro_rules | `(tactic| ins_lemma) => `(tactic| with_reducible exact Ins_storeFind _ _)

theorem Ins_storeGet {m s : Bool} (k : Nat × Nat) : Ins m s (storeGet k) := by
  apply Ins_of_silent
  intro w p tr md sk
  unfold storeGet
  dsimp only
  split
  silent_close
macro_rules | `(tactic| ins_lemma) => `(tactic| with_reducible exact Ins_storeGet _)

/-- `put` records `park` or `lost` depending on the store — which agrees -/
theorem Ins_storePut {m s : Bool} (p : Pkt) : Ins m s (storePut p) := by
  intro w₁ w₂ h
  unfold storePut
  dsimp only
  rw [← h.store]
  exact ⟨rfl, ⟨h.conns, h.cur, h.now, h.fuel, rfl, h.available, h.localId, h.banner, h.defaultTT, h.locks,
    h.files, h.dirs, h.maxdata, h.sink⟩, [_], rfl, rfl⟩
macro_rules | `(tactic| ins_lemma) => `(tactic| with_reducible exact Ins_storePut _)

theorem Ins_storeClear {m s : Bool} (a0 a1 : Nat) : Ins m s (storeClear a0 a1) := by
  unfold storeClear
  ins
macro_rules | `(tactic| ins_lemma) => `(tactic| with_reducible exact Ins_storeClear _ _)

theorem Ins_storeClearAll {m s : Bool} : Ins m s storeClearAll := by
  unfold storeClearAll
  ins
macro_rules | `(tactic| ins_lemma) => `(tactic| with_reducible exact Ins_storeClearAll)

theorem Ins_drainLoop {m s : Bool} (ex : List Cmd) (t : Txn) (az : Bool) : ∀ fuel , Ins m s (drainLoop ex t az fuel ) := by
  intro fuel
  induction fuel with
  | zero => unfold drainLoop; ins
  | succ f ih =>
    unfold drainLoop
    ins [ih]
macro_rules | `(tactic| ins_lemma) => `(tactic| with_reducible exact Ins_drainLoop _ _ _ _)

theorem Ins_readIter {m s : Bool} (ex : List Cmd) (t : Txn) (az : Bool) : Ins m s (readIter ex t az) := by
  unfold readIter
  ins
macro_rules | `(tactic| ins_lemma) => `(tactic| with_reducible exact Ins_readIter _ _ _)

theorem Ins_readLoop {m s : Bool} (ex : List Cmd) (t : Txn) (az : Bool) (start : Int) : ∀ fuel , Ins m s (readLoop ex t az start fuel ) := by
  intro fuel
  induction fuel with
  | zero => unfold readLoop; ins
  | succ f ih =>
    unfold readLoop
    ins [ih]
macro_rules | `(tactic| ins_lemma) => `(tactic| with_reducible exact Ins_readLoop _ _ _ _ _)

theorem Ins_ioRead {m s : Bool} (ex : List Cmd) (t : Txn) (az : Bool) : Ins m s (ioRead ex t az) := by
  unfold ioRead
  ins
macro_rules | `(tactic| ins_lemma) => `(tactic| with_reducible exact Ins_ioRead _ _ _)

theorem Ins_ioClose {m s : Bool} : Ins m s ioClose := by
  unfold ioClose
  ins
macro_rules | `(tactic| ins_lemma) => `(tactic| with_reducible exact Ins_ioClose)

theorem Ins_authLoop {m s : Bool} (t : Txn) : ∀ keys last, Ins m s (authLoop t keys last) := by
  intro keys
  induction keys with
  | nil => intro last; unfold authLoop; ins
  | cons k ks ih =>
    intro last
    unfold authLoop
    ins [ih]
macro_rules | `(tactic| ins_lemma) => `(tactic| with_reducible exact Ins_authLoop _ _ _)

theorem Ins_ioConnect {m s : Bool} (banner : Bytes) (keys : List Nat) (authT : Timeout) (cb : Bool) (t : Txn) : Ins m s (ioConnect banner keys authT cb t) := by
  unfold ioConnect
  ins
macro_rules | `(tactic| ins_lemma) => `(tactic| with_reducible exact Ins_ioConnect _ _ _ _ _)

/-! ### stream layer -/

theorem Ins_getTT {m s : Bool} (tt : Timeout) : Ins m s (getTT tt) := Ins_of_silent fun _ _ _ _ _ => rfl
macro_rules | `(tactic| ins_lemma) => `(tactic| with_reducible exact Ins_getTT _)

theorem Ins_openStream {m s : Bool} (dest : Bytes) (tt rt total : Timeout) : Ins m s (openStream dest tt rt total) := by
  unfold openStream
  ins
macro_rules | `(tactic| ins_lemma) => `(tactic| with_reducible exact Ins_openStream _ _ _ _)

theorem Ins_okay {m s : Bool} (t : Txn) : Ins m s (okay t) := by
  unfold okay
  ins
macro_rules | `(tactic| ins_lemma) => `(tactic| with_reducible exact Ins_okay _)

theorem Ins_readUntil {m s : Bool} (ex : List Cmd) (t : Txn) : Ins m s (readUntil ex t) := by
  unfold readUntil
  ins
macro_rules | `(tactic| ins_lemma) => `(tactic| with_reducible exact Ins_readUntil _ _)

theorem Ins_clse {m s : Bool} (t : Txn) : Ins m s (clse t) := by
  unfold clse
  ins
macro_rules | `(tactic| ins_lemma) => `(tactic| with_reducible exact Ins_clse _)

theorem Ins_readUntilCloseLoop {m s : Bool} (t : Txn) (start : Int) : ∀ fuel acc, Ins m s (readUntilCloseLoop t start fuel acc) := by
  intro fuel
  induction fuel with
  | zero => intro acc; unfold readUntilCloseLoop; ins
  | succ f ih =>
    intro acc
    unfold readUntilCloseLoop
    ins [ih]
macro_rules | `(tactic| ins_lemma) => `(tactic| with_reducible exact Ins_readUntilCloseLoop _ _ _ _)

theorem Ins_readUntilClose {m s : Bool} (t : Txn) : Ins m s (readUntilClose t) := by
  unfold readUntilClose
  ins
macro_rules | `(tactic| ins_lemma) => `(tactic| with_reducible exact Ins_readUntilClose _)

theorem Ins_streamingCommand {m s : Bool} (svc cmd : Bytes) (tt rt total : Timeout) : Ins m s (streamingCommand svc cmd tt rt total) := by
  unfold streamingCommand
  ins
macro_rules | `(tactic| ins_lemma) => `(tactic| with_reducible exact Ins_streamingCommand _ _ _ _ _)

theorem Ins_service {m s : Bool} (svc cmd : Bytes) (tt rt total : Timeout) (dec : Bool) : Ins m s (service svc cmd tt rt total dec) := by
  unfold service
  ins
macro_rules | `(tactic| ins_lemma) => `(tactic| with_reducible exact Ins_service _ _ _ _ _ _)

theorem Ins_streamingService {m s : Bool} (svc cmd : Bytes) (tt rt : Timeout) (dec : Bool) : Ins m s (streamingService svc cmd tt rt dec) := by
  unfold streamingService
  ins
macro_rules | `(tactic| ins_lemma) => `(tactic| with_reducible exact Ins_streamingService _ _ _ _ _)

/-! ### FileSync layer -/

theorem Ins_fsFlushLoop {m s : Bool} (t : Txn) : ∀ fuel fi, Ins m s (fsFlushLoop t fuel fi) := by
  intro fuel
  induction fuel with
  | zero => intro fi; unfold fsFlushLoop; ins
  | succ f ih =>
    intro fi
    unfold fsFlushLoop
    ins [ih]
macro_rules | `(tactic| ins_lemma) => `(tactic| with_reducible exact Ins_fsFlushLoop _ _ _)

theorem Ins_fsFlush {m s : Bool} (t : Txn) (fi : FsInfo) : Ins m s (fsFlush t fi) := by
  unfold fsFlush
  ins
macro_rules | `(tactic| ins_lemma) => `(tactic| with_reducible exact Ins_fsFlush _ _)

theorem Ins_fsSend {m s : Bool} (id : SyncId) (t : Txn) (fi : FsInfo) (data : Bytes) (size : Option Nat) : Ins m s (fsSend id t fi data size) := by
  unfold fsSend
  ins
macro_rules | `(tactic| ins_lemma) => `(tactic| with_reducible exact Ins_fsSend _ _ _ _ _)

theorem Ins_fsReadBufferedLoop {m s : Bool} (size : Nat) (t : Txn) : ∀ fuel fi, Ins m s (fsReadBufferedLoop size t fuel fi) := by
  intro fuel
  induction fuel with
  | zero => intro fi; unfold fsReadBufferedLoop; ins
  | succ f ih =>
    intro fi
    unfold fsReadBufferedLoop
    ins [ih]
macro_rules | `(tactic| ins_lemma) => `(tactic| with_reducible exact Ins_fsReadBufferedLoop _ _ _ _)

theorem Ins_fsReadBuffered {m s : Bool} (size : Nat) (t : Txn) (fi : FsInfo) : Ins m s (fsReadBuffered size t fi) := by
  unfold fsReadBuffered
  ins
macro_rules | `(tactic| ins_lemma) => `(tactic| with_reducible exact Ins_fsReadBuffered _ _ _)

theorem Ins_fsRead {m s : Bool} (ex : List SyncId) (t : Txn) (fi : FsInfo) : Ins m s (fsRead ex t fi) := by
  unfold fsRead
  ins
macro_rules | `(tactic| ins_lemma) => `(tactic| with_reducible exact Ins_fsRead _ _ _)

theorem Ins_lookupFile {m s : Bool} (id : Nat) : Ins m s (lookupFile id) := by
  apply Ins_of_silent
  intro w p tr md sk
  unfold lookupFile
  dsimp only
  split
  silent_close
macro_rules | `(tactic| ins_lemma) => `(tactic| with_reducible exact Ins_lookupFile _)

theorem Ins_callProgress {m s : Bool} (cb : CbMode) (path : Bytes) (n total : Nat) : Ins m s (callProgress cb path n total) := by
  unfold callProgress
  ins
macro_rules | `(tactic| ins_lemma) => `(tactic| with_reducible exact Ins_callProgress _ _ _ _)

theorem Ins_pushDataLoop {m s : Bool} (devPath : Bytes) (cb : CbMode) (total chunk : Nat) (t : Txn) : ∀ fuel content fi, Ins m s (pushDataLoop devPath cb total chunk t fuel content fi) := by
  intro fuel
  induction fuel with
  | zero => intro content fi; unfold pushDataLoop; ins
  | succ f ih =>
    intro content fi
    unfold pushDataLoop
    ins [ih]
macro_rules | `(tactic| ins_lemma) => `(tactic| with_reducible exact Ins_pushDataLoop _ _ _ _ _ _ _ _)

theorem Ins_pushStatus {m s : Bool} (t : Txn) (fi : FsInfo) : Ins m s (pushStatus t fi) := by
  unfold pushStatus
  ins
macro_rules | `(tactic| ins_lemma) => `(tactic| with_reducible exact Ins_pushStatus _ _)

/-- reads `maxdata` (chunk size): needs agreeing `maxdata` -/
theorem Ins_pushOne {s : Bool} (content devPath : Bytes) (mode mtime : Nat) (cb : CbMode) (t : Txn) (fi : FsInfo) : Ins true s (pushOne content devPath mode mtime cb t fi) := by
  unfold pushOne
  ins
macro_rules | `(tactic| ins_lemma) => `(tactic| with_reducible exact Ins_pushOne _ _ _ _ _ _ _)

/-! ### device layer -/

theorem Ins_runGuard {m s : Bool} (g : String) (p : Option Bytes) : Ins m s (runGuard g p) := by
  apply Ins_of_silent
  intro w q tr md sk
  unfold runGuard
  dsimp only
  repeat' split
  silent_close
macro_rules | `(tactic| ins_lemma) => `(tactic| with_reducible exact Ins_runGuard _ _)

theorem Ins_runGuards {m s : Bool} : ∀ gs p, Ins m s (runGuards gs p) := by
  intro gs
  induction gs with
  | nil => intro p; unfold runGuards; ins
  | cons g gs ih => intro p; unfold runGuards; ins [ih]
macro_rules | `(tactic| ins_lemma) => `(tactic| with_reducible exact Ins_runGuards _ _)

/-- `connect()` as a whole: it WRITES `maxdata`, with the same value in both runs -/
theorem Ins_devConnect {m s : Bool} (keys : List Nat) (tt authT rt : Timeout) (cb : Bool) : Ins m s (devConnect keys tt authT rt cb) := by
  unfold devConnect
  ins
macro_rules | `(tactic| ins_lemma) => `(tactic| with_reducible exact Ins_devConnect _ _ _ _ _)

theorem Ins_devClose {m s : Bool} : Ins m s devClose := by
  unfold devClose
  ins
macro_rules | `(tactic| ins_lemma) => `(tactic| with_reducible exact Ins_devClose)

theorem Ins_devShellLike {m s : Bool} (op : String) (svc cmd : Bytes) (tt rt total : Timeout) (dec : Bool) : Ins m s (devShellLike op svc cmd tt rt total dec) := by
  unfold devShellLike
  ins
macro_rules | `(tactic| ins_lemma) => `(tactic| with_reducible exact Ins_devShellLike _ _ _ _ _ _ _)

theorem Ins_devRoot {m s : Bool} (tt rt total : Timeout) : Ins m s (devRoot tt rt total) := by
  unfold devRoot
  ins
macro_rules | `(tactic| ins_lemma) => `(tactic| with_reducible exact Ins_devRoot _ _ _)

theorem Ins_devReboot {m s : Bool} (fb : Bool) (tt rt total : Timeout) : Ins m s (devReboot fb tt rt total) := by
  unfold devReboot
  ins
macro_rules | `(tactic| ins_lemma) => `(tactic| with_reducible exact Ins_devReboot _ _ _ _)

theorem Ins_devStreamingShell {m s : Bool} (cmd : Bytes) (tt rt : Timeout) (dec : Bool) : Ins m s (devStreamingShell cmd tt rt dec) := by
  unfold devStreamingShell
  ins
macro_rules | `(tactic| ins_lemma) => `(tactic| with_reducible exact Ins_devStreamingShell _ _ _ _)

theorem Ins_listLoop {m s : Bool} (t : Txn) : ∀ fuel fi acc, Ins m s (listLoop t fuel fi acc) := by
  intro fuel
  induction fuel with
  | zero => intro fi acc; unfold listLoop; ins
  | succ f ih =>
    intro fi acc
    unfold listLoop
    ins [ih]
macro_rules | `(tactic| ins_lemma) => `(tactic| with_reducible exact Ins_listLoop _ _ _ _)

theorem Ins_devList {s : Bool} (p : Bytes) (tt rt : Timeout) : Ins true s (devList p tt rt) := by
  unfold devList
  ins
macro_rules | `(tactic| ins_lemma) => `(tactic| with_reducible exact Ins_devList _ _ _)

theorem Ins_devStat {s : Bool} (p : Bytes) (tt rt : Timeout) : Ins true s (devStat p tt rt) := by
  unfold devStat
  ins
macro_rules | `(tactic| ins_lemma) => `(tactic| with_reducible exact Ins_devStat _ _ _)

/-- appends to `sink`: needs agreeing `sink` -/
theorem Ins_pullLoop (devPath : Bytes) (cb : CbMode) (total : Nat) (t : Txn) : ∀ fuel fi, Ins true true (pullLoop devPath cb total t fuel fi) := by
  intro fuel
  induction fuel with
  | zero => intro fi; unfold pullLoop; ins
  | succ f ih =>
    intro fi
    unfold pullLoop
    ins [ih]
macro_rules | `(tactic| ins_lemma) => `(tactic| with_reducible exact Ins_pullLoop _ _ _ _ _ _)

theorem Ins_pullInner (devPath : Bytes) (cb : CbMode) (t : Txn) (fi : FsInfo) : Ins true true (pullInner devPath cb t fi) := by
  unfold pullInner
  ins
macro_rules | `(tactic| ins_lemma) => `(tactic| with_reducible exact Ins_pullInner _ _ _ _)

/-- `sink := some []; rest` — whatever the sinks were, they agree afterwards -/
theorem Ins_setSink_bind {s : Bool} {β} {f : Unit → M β} (hf : Ins true true (f ())) :
    Ins true s (M.modify (fun w => { w with sink := some [] }) >>= f) := by
  intro w₁ w₂ h
  have h' : Agree true true { w₁ with sink := some [] } { w₂ with sink := some [] } :=
    ⟨h.conns, h.cur, h.now, h.fuel, h.store, h.available, h.localId, h.banner, h.defaultTT, h.locks, h.files, h.dirs,
      h.maxdata, fun _ => rfl⟩
  obtain ⟨g1, g2, g3⟩ := hf _ _ h'
  exact ⟨g1, g2.weaken, g3⟩

theorem Ins_pullBody (devPath : Bytes) (cb : CbMode) (tt rt : Timeout) :
    Ins true true (do
      let t ← openStream (ascii "sync:") tt rt none
      let w ← M.get
      let fi : FsInfo := { fmt := .pull, maxdata := w.maxdata }
      M.tryFinally (pullInner devPath cb t fi) (clse t)
      pure Val.none) := by
  ins

/-- `pull` creates/truncates the destination first, so the old `sink` does not matter -/
theorem Ins_devPull {s : Bool} (devPath : Bytes) (cb : CbMode) (tt rt : Timeout) : Ins true s (devPull devPath cb tt rt) := by
  unfold devPull
  apply Ins_bind (Ins_runGuards _ _)
  intro _
  exact Ins_setSink_bind (Ins_pullBody devPath cb tt rt)
macro_rules | `(tactic| ins_lemma) => `(tactic| with_reducible exact Ins_devPull _ _ _ _)

theorem Ins_pushFile {s : Bool} (fid : Nat) (devPath : Bytes) (mode mtime : Nat) (cb : CbMode) (tt rt : Timeout) : Ins true s (pushFile fid devPath mode mtime cb tt rt) := by
  unfold pushFile
  ins
macro_rules | `(tactic| ins_lemma) => `(tactic| with_reducible exact Ins_pushFile _ _ _ _ _ _ _)

theorem Ins_pushFiles {s : Bool} (devPath : Bytes) (mode mtime : Nat) (cb : CbMode) (tt rt : Timeout) :
    ∀ es, Ins true s (pushFiles devPath mode mtime cb tt rt es) := by
  intro es
  induction es with
  | nil => unfold pushFiles; ins
  | cons e es ih => obtain ⟨n, f⟩ := e; unfold pushFiles; ins [ih]
macro_rules | `(tactic| ins_lemma) => `(tactic| with_reducible exact Ins_pushFiles _ _ _ _ _ _ _)

theorem Ins_devPush {s : Bool} (src : LocalRef) (devPath : Bytes) (mode mtime : Nat) (cb : CbMode) (tt rt : Timeout) : Ins true s (devPush src devPath mode mtime cb tt rt) := by
  unfold devPush
  ins
macro_rules | `(tactic| ins_lemma) => `(tactic| with_reducible exact Ins_devPush _ _ _ _ _ _ _)

/-- every public operation is insensitive to `past`, `trace` and (given agreeing `maxdata`) to `sink` -/
theorem Ins_apiOp {s : Bool} (op : ApiOp) : Ins true s op.run := by
  cases op <;> (unfold ApiOp.run; ins)

end Adb.Reset

/-! ### the session relations of C12 -/
namespace Adb
open Adb.Reset

/-- two worlds that may differ ONLY in leftovers of an earlier session and in ghost fields:
    free to differ are `store`, `available`, `maxdata`, `cur`, `past`, `sink`, `trace` -/
def SessionEq (w₁ w₂ : World) : Prop :=
  w₁.conns = w₂.conns ∧ w₁.now = w₂.now ∧ w₁.fuel = w₂.fuel ∧ w₁.localId = w₂.localId ∧ w₁.banner = w₂.banner ∧
  w₁.defaultTT = w₂.defaultTT ∧ w₁.locks = w₂.locks ∧ w₁.files = w₂.files ∧ w₁.dirs = w₂.dirs

/-- after the reset the worlds agree on everything a later operation can observe (except `maxdata`,
    which only a successful `connect()` sets, and the pull destination `sink`) -/
def SameSession (w₁ w₂ : World) : Prop :=
  SessionEq w₁ w₂ ∧ w₁.store = w₂.store ∧ w₁.cur = w₂.cur ∧ w₁.available = w₂.available

namespace Reset

theorem Agree.sameSession {m s : Bool} {w₁ w₂ : World} (h : Agree m s w₁ w₂) : SameSession w₁ w₂ :=
  ⟨⟨h.conns, h.now, h.fuel, h.localId, h.banner, h.defaultTT, h.locks, h.files, h.dirs⟩, h.store, h.cur, h.available⟩

theorem SameSession.agree {w₁ w₂ : World} (h : SameSession w₁ w₂) : Agree false false w₁ w₂ := by
  obtain ⟨⟨h1, h2, h3, h4, h5, h6, h7, h8, h9⟩, h10, h11, h12⟩ := h
  exact ⟨h1, h11, h2, h3, h10, h12, h4, h5, h6, h7, h8, h9, (by intro h; cases h), (by intro h; cases h)⟩

theorem SameSession.agree_m {w₁ w₂ : World} (h : SameSession w₁ w₂) (hm : w₁.maxdata = w₂.maxdata) :
    Agree true false w₁ w₂ := by
  have a := SameSession.agree h
  exact ⟨a.conns, a.cur, a.now, a.fuel, a.store, a.available, a.localId, a.banner, a.defaultTT, a.locks, a.files, a.dirs,
    fun _ => hm, (by intro h; cases h)⟩

theorem SameSession.agree_ms {w₁ w₂ : World} (h : SameSession w₁ w₂) (hm : w₁.maxdata = w₂.maxdata)
    (hs : w₁.sink = w₂.sink) : Agree true true w₁ w₂ := by
  have a := SameSession.agree h
  exact ⟨a.conns, a.cur, a.now, a.fuel, a.store, a.available, a.localId, a.banner, a.defaultTT, a.locks, a.files, a.dirs,
    fun _ => hm, fun _ => hs⟩

/-- what `ioConnect` does after closing the transport and emptying the store -/
def connectTail (banner : Bytes) (keys : List Nat) (authTimeout : Timeout) (hasCb : Bool) (t : Txn) : M Nat := do
  tConnect t.tt
  sendRaw ⟨.CNXN, Generated.VERSION, Generated.MAX_ADB_DATA, ascii "host::" ++ banner ++ [0]⟩ t
  let p ← expectPacket [.AUTH, .CNXN] t
  if p.cmd ≠ Cmd.AUTH then pure p.arg1 else do
    if keys.isEmpty then do
      tClose
      M.throw .deviceAuth
    match (← authLoop t keys p) with
    | (some maxdata, _) => pure maxdata
    | (none, _) =>
      let pubkey := stubPub (keys.headD 0)
      if hasCb then emit .cbAuth
      sendRaw ⟨.AUTH, Generated.AUTH_RSAPUBLICKEY, 0, pubkey ++ [0]⟩ t
      let t' := { t with tt := authTimeout }
      let p ← expectPacket [.CNXN] t'
      pure p.arg1

theorem ioConnect_eq (banner : Bytes) (keys : List Nat) (authT : Timeout) (cb : Bool) (t : Txn) :
    ioConnect banner keys authT cb t =
      withLock lockTransport (tClose >>= fun _ => withLock lockStore storeClearAll >>= fun _ =>
        connectTail banner keys authT cb t) := rfl

theorem Ins_connectTail {m s : Bool} (banner : Bytes) (keys : List Nat) (authT : Timeout) (cb : Bool) (t : Txn) :
    Ins m s (connectTail banner keys authT cb t) := by
  unfold connectTail
  ins

/-- the world after `transport.close()` + `clear_all()` -/
def closed (w : World) : World :=
  { w with cur := none, past := (match w.cur with | none => w.past | some c => c.peerGot :: w.past), store := [],
           trace := .tclose :: w.trace }

/-- the world after `transport.close()` -/
def closed0 (w : World) : World :=
  { w with cur := none, past := (match w.cur with | none => w.past | some c => c.peerGot :: w.past),
           trace := .tclose :: w.trace }

theorem tClose_run (w : World) : tClose w = (.ok (), closed0 w) := by
  unfold tClose closed0
  cases hc : w.cur <;> rfl

theorem closeClear_run {β} (f : Unit → M β) (w : World) (h : lockStore ∉ w.locks) :
    (tClose >>= fun _ => withLock lockStore storeClearAll >>= f) w = f () (closed w) := by
  rw [bind_run_ok (tClose_run w)]
  have e : withLock lockStore storeClearAll (closed0 w) = (.ok (), closed w) := by
    rw [withLock_run]
    have h' : lockStore ∉ (closed0 w).locks := h
    simp only [h', if_false, storeClearAll, M.modify_run, List.erase_cons_head]
    rfl
  rw [bind_run_ok e]

/-- closing and clearing identifies any two `SessionEq` worlds up to the free fields -/
theorem closed_agree {w₁ w₂ : World} (h : SessionEq w₁ w₂) (ha : w₁.available = w₂.available) :
    Agree false false (closed w₁) (closed w₂) := by
  obtain ⟨h1, h2, h3, h4, h5, h6, h7, h8, h9⟩ := h
  exact ⟨h1, rfl, h2, h3, rfl, ha, h4, h5, h6, h7, h8, h9, (by intro h; cases h), (by intro h; cases h)⟩

/-- `_AdbIOManager.connect` from two worlds that differ in session leftovers -/
theorem ioConnect_resets (banner : Bytes) (keys : List Nat) (authT : Timeout) (cb : Bool) (t : Txn) (w₁ w₂ : World)
    (h : SessionEq w₁ w₂) (ha : w₁.available = w₂.available) (hl : w₁.locks = []) :
    (ioConnect banner keys authT cb t w₁).1 = (ioConnect banner keys authT cb t w₂).1 ∧
    Agree false false (ioConnect banner keys authT cb t w₁).2 (ioConnect banner keys authT cb t w₂).2 ∧
    SameNew w₁ w₂ (ioConnect banner keys authT cb t w₁).2 (ioConnect banner keys authT cb t w₂).2 := by
  have hl2 : w₂.locks = [] := by rw [← h.2.2.2.2.2.2.1, hl]
  have hs : SessionEq { w₁ with locks := [lockTransport] } { w₂ with locks := [lockTransport] } := by
    obtain ⟨h1, h2, h3, h4, h5, h6, h7, h8, h9⟩ := h
    exact ⟨h1, h2, h3, h4, h5, h6, rfl, h8, h9⟩
  have hv := closed_agree hs ha
  obtain ⟨g1, g2, ⟨evs, g3, g4⟩⟩ := Ins_connectTail banner keys authT cb t _ _ hv
  have r₁ := closeClear_run (fun _ => connectTail banner keys authT cb t) { w₁ with locks := [lockTransport] }
    (by simp [lockStore, lockTransport])
  have r₂ := closeClear_run (fun _ => connectTail banner keys authT cb t) { w₂ with locks := [lockTransport] }
    (by simp [lockStore, lockTransport])
  rw [ioConnect_eq, withLock_run, withLock_run]
  simp only [hl, hl2, List.not_mem_nil, if_false, r₁, r₂]
  refine ⟨g1, ⟨g2.conns, g2.cur, g2.now, g2.fuel, g2.store, g2.available, g2.localId, g2.banner, g2.defaultTT, ?_,
    g2.files, g2.dirs, g2.maxdata, g2.sink⟩, evs ++ [.tclose], ?_, ?_⟩
  · show List.erase _ _ = List.erase _ _
    rw [g2.locks]
  · show _ = (evs ++ [TEv.tclose]) ++ w₁.trace
    rw [g3]; simp [closed]
  · show _ = (evs ++ [TEv.tclose]) ++ w₂.trace
    rw [g4]; simp [closed]

/-- `AdbDevice.connect` once the transaction info is built -/
theorem devConnect_run_ok (keys : List Nat) (tt authT rt : Timeout) (cb : Bool) (w : World) (t : Txn) (b : Bytes)
    (hm : Txn.make none none (if tt.isSome = true then tt else w.defaultTT) rt none = .ok t) (hb : w.banner = b) :
    devConnect keys tt authT rt cb w =
      match ioConnect b keys authT cb t { w with available := false } with
      | (.ok md, w') => (.ok (.bool true), { w' with available := true, maxdata := md })
      | (.error e, w') => (.error e, w') := by
  subst hb
  unfold devConnect
  simp only [bind_run, getTT, liftExcept_run, hm, M.modify_run, M.get_run]
  cases ioConnect w.banner keys authT cb t { w with available := false } with
  | mk r w' => cases r <;> rfl

theorem devConnect_run_err (keys : List Nat) (tt authT rt : Timeout) (cb : Bool) (w : World) (e : Err)
    (hm : Txn.make none none (if tt.isSome = true then tt else w.defaultTT) rt none = .error e) :
    devConnect keys tt authT rt cb w = (.error e, w) := by
  unfold devConnect
  simp only [bind_run, getTT, liftExcept_run, hm]

/-- `close()` on an idle object, field by field -/
theorem devClose_facts (w : World) (h : w.locks = []) :
    ∃ w', devClose w = (.ok .none, w') ∧ w'.available = false ∧ w'.store = [] ∧ w'.cur = none ∧
      w'.trace = .tclose :: w.trace ∧ w'.conns = w.conns ∧ w'.now = w.now ∧ w'.fuel = w.fuel ∧
      w'.localId = w.localId ∧ w'.banner = w.banner ∧ w'.defaultTT = w.defaultTT ∧ w'.locks = w.locks ∧
      w'.files = w.files ∧ w'.dirs = w.dirs ∧ w'.maxdata = w.maxdata ∧ w'.sink = w.sink := by
  unfold devClose ioClose
  simp only [bind_run, M.modify_run, withLock_run, h]
  simp [lockTransport, lockStore, tClose, storeClearAll]
  cases w.cur <;> simp

/-! ### non-vacuity material: a device that answers CNXN at once -/

def exCnxn : Pkt := ⟨.CNXN, 0x01000000, 4096, ascii "device::x"⟩
def exConn : Conn := { segs := [⟨0, exCnxn.encode⟩] }
/-- a fresh object -/
def exFresh : World := { conns := [exConn] }
/-- the same object after a broken session: a parked packet, still `available`, a half-read connection
    that met a reset, an earlier closed connection, another `maxdata`, a half-written pull destination,
    an old trace -/
def exJunk : World :=
  { conns := [exConn],
    store := Store.empty.put 7 3 .WRTE [1, 2, 3],
    available := true,
    cur := some { segs := [⟨0, [9, 9, 9]⟩], inOff := 29, outOff := 48, isReset := true, peerChunks := [[1, 2], [3]] },
    past := [[5, 5]],
    maxdata := 1234,
    sink := some [8],
    trace := [.tconnect] }
/-- the same pair with no device to connect to -/
def exFreshDead : World := { exFresh with conns := [] }
def exJunkDead : World := { exJunk with conns := [] }

def isOkTrue : Except Err Val → Bool
  | .ok (.bool true) => true
  | _ => false
def isErr (e : Err) : Except Err Val → Bool
  | .error e' => e == e'
  | _ => false

end Reset
end Adb
