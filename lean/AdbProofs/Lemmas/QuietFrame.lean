import AdbProofs.Lemmas.Monad
/-
  A frame relation for the I/O layer: `Quiet w w'` says that going from `w` to `w'` left the stream-id
  counter `localId` alone and only added trace events that are not `tx` events.
  Everything in `_AdbIOManager` except the `emit (.tx m)` at the head of `_send` is quiet.
-/
namespace Adb

def Quiet (w w' : World) : Prop :=
  w'.localId = w.localId ∧ ∃ evs, w'.trace = evs ++ w.trace ∧ ∀ m, TEv.tx m ∉ evs

/-- every run of `x` is quiet -/
def QuietM {α} (x : M α) : Prop := ∀ w, Quiet w (x w).2

theorem Quiet.refl (w : World) : Quiet w w := ⟨rfl, [], rfl, by simp⟩

theorem Quiet.of_eq {w w' : World} (h1 : w'.localId = w.localId) (h2 : w'.trace = w.trace) : Quiet w w' :=
  ⟨h1, [], by simpa using h2, by simp⟩

theorem Quiet.trans {a b c : World} (h1 : Quiet a b) (h2 : Quiet b c) : Quiet a c := by
  obtain ⟨l1, e1, t1, n1⟩ := h1
  obtain ⟨l2, e2, t2, n2⟩ := h2
  refine ⟨l2.trans l1, e2 ++ e1, by rw [t2, t1, List.append_assoc], ?_⟩
  intro m hm
  rcases List.mem_append.mp hm with h | h
  · exact n2 m h
  · exact n1 m h

theorem QuietM.pure {α} (a : α) : QuietM (Pure.pure a : M α) := fun w => Quiet.refl w
theorem QuietM.mpure {α} (a : α) : QuietM (M.pure a : M α) := fun w => Quiet.refl w
theorem QuietM.throw {α} (e : Err) : QuietM (M.throw e : M α) := fun w => Quiet.refl w
theorem QuietM.get : QuietM M.get := fun w => Quiet.refl w
theorem QuietM.now : QuietM now := fun w => Quiet.refl w
theorem QuietM.liftExcept {α} (x : Except Err α) : QuietM (liftExcept x) := fun w => Quiet.refl w
theorem QuietM.elapsedGt (s : Int) (l : Timeout) : QuietM (elapsedGt s l) := by
  intro w; rw [elapsedGt_run]; split <;> exact Quiet.refl w

theorem QuietM.bind {α β} {x : M α} {f : α → M β} (hx : QuietM x) (hf : ∀ a, QuietM (f a)) :
    QuietM (x >>= f) := by
  intro w
  rw [bind_run]
  have h := hx w
  split
  · next a w' e => rw [e] at h; exact h.trans (hf a w')
  · next e' w' e => rw [e] at h; exact h

theorem QuietM.emit {e : TEv} (h : ∀ m, e ≠ .tx m) : QuietM (emit e) := by
  intro w
  refine ⟨rfl, [e], rfl, ?_⟩
  intro m hm
  simp at hm
  exact h m hm.symm

theorem QuietM.withLock {α} (l : Nat) {body : M α} (h : QuietM body) : QuietM (withLock l body) := by
  intro w
  rw [withLock_run]
  split
  · exact Quiet.refl w
  · have := h { w with locks := l :: w.locks }
    exact this

theorem QuietM.ite {α} {c : Prop} [Decidable c] {x y : M α} (hx : QuietM x) (hy : QuietM y) :
    QuietM (if c then x else y) := by
  split <;> assumption

theorem QuietM.waitTimeout {α} (tt : Timeout) : QuietM (waitTimeout tt : M α) := by
  intro w; unfold Adb.waitTimeout; split <;> exact Quiet.of_eq rfl rfl

theorem QuietM.bulkRead (n : Nat) (tt : Timeout) : QuietM (bulkRead n tt) := by
  intro w
  unfold Adb.bulkRead
  repeat' split
  all_goals first
    | exact Quiet.of_eq rfl rfl
    | exact QuietM.waitTimeout tt _

theorem QuietM.bulkWrite (d : Bytes) (tt : Timeout) : QuietM (bulkWrite d tt) := by
  intro w
  unfold Adb.bulkWrite
  repeat' split
  all_goals first
    | exact Quiet.of_eq rfl rfl
    | exact QuietM.waitTimeout tt _


/-- decompose a `do` block into its quiet pieces; the listed facts are tried first, without unfolding -/
syntax "quiet_step" "[" term,* "]" : tactic
macro_rules
  | `(tactic| quiet_step [$hs,*]) => do
    let alts ← hs.getElems.mapM fun h => `(tactic| with_reducible apply $h)
    `(tactic| first
      $[| $alts:tactic]*
      | with_reducible exact QuietM.pure _
      | with_reducible exact QuietM.mpure _
      | with_reducible exact QuietM.throw _
      | with_reducible exact QuietM.get
      | with_reducible exact QuietM.now
      | with_reducible exact QuietM.liftExcept _
      | with_reducible exact QuietM.elapsedGt _ _
      | with_reducible exact QuietM.waitTimeout _
      | with_reducible exact QuietM.bulkRead _ _
      | with_reducible exact QuietM.bulkWrite _ _
      | exact QuietM.emit (by intro m; simp)
      | with_reducible apply QuietM.withLock
      | with_reducible refine QuietM.bind ?_ (fun _ => ?_)
      | split
      | dsimp only)

theorem QuietM.readBytesLoop (t : Txn) (start : Int) (fuel : Nat) :
    ∀ rem acc, QuietM (readBytesLoop t start fuel rem acc) := by
  induction fuel with
  | zero => intro rem acc; unfold Adb.readBytesLoop; exact QuietM.throw _
  | succ fuel ih =>
    intro rem acc
    unfold Adb.readBytesLoop
    repeat' quiet_step [ih]

theorem QuietM.readBytes (n : Nat) (t : Txn) : QuietM (readBytes n t) := by
  unfold Adb.readBytes
  repeat' quiet_step [QuietM.readBytesLoop]

theorem QuietM.readPacket (t : Txn) : QuietM (readPacket t) := by
  unfold Adb.readPacket
  repeat' quiet_step [QuietM.readBytes]

theorem QuietM.writeAllLoop (t : Txn) (start : Int) (fuel : Nat) :
    ∀ data, QuietM (writeAllLoop t start fuel data) := by
  induction fuel with
  | zero => intro data; unfold Adb.writeAllLoop; exact QuietM.throw _
  | succ fuel ih =>
    intro data
    unfold Adb.writeAllLoop
    repeat' quiet_step [ih]

theorem QuietM.writeAll (data : Bytes) (t : Txn) : QuietM (writeAll data t) := by
  unfold Adb.writeAll
  repeat' quiet_step [QuietM.writeAllLoop]

theorem QuietM.storeFind (t : Txn) (az : Bool) : QuietM (storeFind t az) := fun w => Quiet.refl w

theorem QuietM.storeGet (k : Nat × Nat) : QuietM (storeGet k) := by
  intro w; unfold Adb.storeGet; split <;> exact Quiet.of_eq rfl rfl

theorem QuietM.storePut (p : Pkt) : QuietM (storePut p) := by
  intro w
  refine ⟨rfl, [if p.cmd = Cmd.CLSE ∧ w.store.queue p.arg0 p.arg1 = none then TEv.lost p else TEv.park p], rfl, ?_⟩
  intro m hm
  simp at hm
  split at hm <;> simp at hm

theorem QuietM.storeClear (a0 a1 : Nat) : QuietM (storeClear a0 a1) := fun _ => Quiet.of_eq rfl rfl
theorem QuietM.storeClearAll : QuietM storeClearAll := fun _ => Quiet.of_eq rfl rfl

theorem QuietM.drainLoop (expected : List Cmd) (t : Txn) (az : Bool) (fuel : Nat) :
    QuietM (drainLoop expected t az fuel) := by
  induction fuel with
  | zero => unfold Adb.drainLoop; exact QuietM.throw _
  | succ fuel ih =>
    unfold Adb.drainLoop
    repeat' quiet_step [ih, QuietM.storeFind, QuietM.storeGet]

theorem QuietM.readIter (expected : List Cmd) (t : Txn) (az : Bool) : QuietM (readIter expected t az) := by
  unfold Adb.readIter
  repeat' quiet_step [QuietM.drainLoop, QuietM.readPacket, QuietM.storePut, QuietM.storeClear]

theorem QuietM.readLoop (expected : List Cmd) (t : Txn) (az : Bool) (start : Int) (fuel : Nat) :
    QuietM (readLoop expected t az start fuel) := by
  induction fuel with
  | zero => unfold Adb.readLoop; exact QuietM.throw _
  | succ fuel ih =>
    unfold Adb.readLoop
    repeat' quiet_step [ih, QuietM.readIter]

/-- `_AdbIOManager.read` never touches the id counter and never sends -/
theorem QuietM.ioRead (expected : List Cmd) (t : Txn) (az : Bool) : QuietM (ioRead expected t az) := by
  unfold Adb.ioRead
  repeat' quiet_step [QuietM.drainLoop, QuietM.readLoop]

/-- `_send` minus its leading `tx` event is quiet -/
theorem sendRaw_quiet_after_tx (m : Msg) (t : Txn) (w : World) :
    ∃ w1, Quiet { w with trace := .tx m :: w.trace } w1 ∧ (sendRaw m t w).2 = w1 := by
  refine ⟨_, ?_, rfl⟩
  have h : QuietM (match m.pack? with
      | none => M.throw .pyStructError
      | some hdr => do
        writeAll hdr t
        if !m.data.isEmpty then writeAll m.data t : M Unit) := by
    repeat' quiet_step [QuietM.writeAll]
  have := h { w with trace := .tx m :: w.trace }
  unfold Adb.sendRaw
  rw [bind_run_ok (emit_run _ _)]
  exact this

end Adb
