import AdbProofs.Lemmas.MonitorOps
import AdbProofs.Properties.C12
/-
  C04 — histories of API operations against the protocol monitor.  The invariant that composes over
  operations is about the id allocator: `Bnd S c` — every stream the monitor knows has an id at most
  the allocator's counter `c`.  As long as the counter does not wrap around (`w.localId + n < 2^32`
  where `n` bounds the ids the operation allocates) the next id is fresh, older streams are never
  touched again (their packets are parked, not delivered), and the invariant is re-established.
-/
namespace Adb
open Monitor (Ev St Viol Table isStreamCmd hostStep devStep)

/-- the directories of the local file system (they decide how many streams `push` of a directory opens) -/
abbrev Dirs := List (Nat × List (Bytes × Nat))

/-- every stream the monitor knows has an id at most `c` -/
def Bnd (S : Table) (c : Nat) : Prop := ∀ k st, alookup k S = some st → k ≤ c

theorem Bnd.nil (c : Nat) : Bnd [] c := by intro k st h; simp at h

theorem Bnd.mono {S : Table} {c c' : Nat} (h : Bnd S c) (hc : c ≤ c') : Bnd S c' :=
  fun k st hk => Nat.le_trans (h k st hk) hc

theorem Bnd.aset {S : Table} {c l : Nat} (h : Bnd S c) (hl : l ≤ c) (st : St) : Bnd (aset l st S) c := by
  intro k st' hk
  by_cases hkl : k = l
  · subst hkl; exact hl
  · rw [alookup_aset_ne (Ne.symm hkl)] at hk; exact h k st' hk

theorem Bnd.only {S S' : Table} {c c' l : Nat} (h : Bnd S c) (ho : Only l S S') (hc : c ≤ c') (hl : l ≤ c') : Bnd S' c' := by
  intro k st hk
  by_cases hkl : k = l
  · subst hkl; exact hl
  · rw [ho k hkl] at hk; exact Nat.le_trans (h k st hk) hc

theorem Bnd.fresh {S : Table} {c l : Nat} (h : Bnd S c) (hl : c < l) : Fresh S l := by
  intro st hs
  have := h l st hs
  omega

theorem nextId_eq_succ {c : Nat} (h : c + 1 < 4294967296) : nextId c = c + 1 := by
  unfold nextId; split <;> omega

theorem Acc.nil_inv {S S' : Table} (h : Acc S [] S') : S' = S := by
  simp only [Acc, ofXfers_nil, Monitor.run, Prod.mk.injEq] at h
  exact h.1.symm

/-- an operation that allocates at most `n` stream ids (a function of the local directories), whatever
    its outcome: if the counter does not wrap meanwhile it only grows, by at most `n`; the monitor accepts
    the conversation from every table bounded by the counter, ends in such a table again, and leaves the
    entries of all older streams alone -/
def Multi {α : Type} (n : Dirs → Nat) (x : M α) : Prop :=
  ∀ (w w' : World) (res : Except Err α), x w = (res, w') → w.locks = [] →
    ∃ X Y, Adds w w' X Y ∧ (w.localId + n w.dirs < 4294967296 →
      w.localId ≤ w'.localId ∧ w'.localId ≤ w.localId + n w.dirs ∧
      (NZ X → ∀ S, Bnd S w.localId →
        ∃ S', Acc S X S' ∧ Bnd S' w'.localId ∧ ∀ k, k ≤ w.localId → alookup k S' = alookup k S))

theorem Multi.mono {α : Type} {n m : Dirs → Nat} {x : M α} (h : Multi n x) (hnm : ∀ d, n d ≤ m d) : Multi m x := by
  intro w w' res hx hl
  obtain ⟨X, Y, hA, hrest⟩ := h w w' res hx hl
  refine ⟨X, Y, hA, fun hb => ?_⟩
  have := hnm w.dirs
  obtain ⟨h1, h2, h3⟩ := hrest (by omega)
  exact ⟨h1, by omega, h3⟩

theorem Multi_of_Qt {α : Type} {x : M α} (hq : Qt x) (hid : IdEq x) : Multi (fun _ => 0) x := by
  intro w w' res hx _
  refine ⟨[], [], hq.adds hx, fun _ => ?_⟩
  have := hid.of hx
  simp only []
  exact ⟨by omega, by omega, fun _ S hS => ⟨S, Acc.nil S, by rw [this]; exact hS, fun _ _ => rfl⟩⟩

theorem Multi_of_OneStream {α : Type} {c : Prop} {x : M α} (h : OneStream c x) : Multi (fun _ => 1) x := by
  intro w w' res hx hl
  obtain ⟨X, Y, hA, hloc, hacc⟩ := h w w' res hx hl
  refine ⟨X, Y, hA, fun hb => ?_⟩
  simp only [] at hb ⊢
  have hn : nextId w.localId = w.localId + 1 := nextId_eq_succ hb
  rw [hn] at hloc hacc
  refine ⟨by omega, by omega, fun hnz S hS => ?_⟩
  obtain ⟨S', h1, h2, _⟩ := hacc hnz S (by omega) (hS.fresh (by omega))
  rcases hloc with ⟨rfl, hw⟩ | hw
  · have := h1.nil_inv
    subst this
    exact ⟨S', h1, by rw [hw]; exact hS, fun _ _ => rfl⟩
  · exact ⟨S', h1, hS.only h2 (by omega) (by omega), fun k hk => h2 k (by omega)⟩

theorem Multi_bind {α β : Type} {n m : Dirs → Nat} {x : M α} {f : α → M β} (hx : Multi n x) (hfr : Fr x)
    (hf : ∀ a, Multi m (f a)) : Multi (fun d => n d + m d) (x >>= f) := by
  intro w w' res h hl
  rcases bind_any_inv h with ⟨e, he, rfl⟩ | ⟨a, w1, ha, hrest⟩
  · obtain ⟨X, Y, hA, hr⟩ := hx w w' _ he hl
    refine ⟨X, Y, hA, fun hb => ?_⟩
    obtain ⟨h1, h2, h3⟩ := hr (by simp only at hb; omega)
    exact ⟨h1, by simp only; omega, h3⟩
  · obtain ⟨X1, Y1, hA1, hr1⟩ := hx w w1 _ ha hl
    have hfw : Frame w w1 := by have := hfr w; rw [ha] at this; exact this
    have hl1 : w1.locks = [] := by rw [hfw.locks]; exact hl
    obtain ⟨X2, Y2, hA2, hr2⟩ := hf a w1 w' res hrest hl1
    refine ⟨X1 ++ X2, Y1 ++ Y2, hA1.trans hA2, fun hb => ?_⟩
    simp only at hb
    obtain ⟨h1, h2, h3⟩ := hr1 (by omega)
    obtain ⟨h4, h5, h6⟩ := hr2 (by rw [hfw.dirs]; omega)
    rw [hfw.dirs] at h5
    refine ⟨by omega, by simp only; omega, fun hnz S hS => ?_⟩
    obtain ⟨hn1, hn2⟩ := NZ_append.1 hnz
    obtain ⟨S1, a1, b1, c1⟩ := h3 hn1 S hS
    obtain ⟨S2, a2, b2, c2⟩ := h6 hn2 S1 b1
    exact ⟨S2, a1.append a2, b2, fun k hk => (c2 k (by omega)).trans (c1 k hk)⟩

theorem Multi_prefix {α β : Type} {n : Dirs → Nat} {x : M α} {f : α → M β} (hq : Qt x) (hfr : Fr x) (hid : IdEq x)
    (hf : ∀ a, Multi n (f a)) : Multi n (x >>= f) :=
  (Multi_bind (Multi_of_Qt hq hid) hfr hf).mono (fun d => by simp)

theorem Multi_suffix {α β : Type} {n : Dirs → Nat} {x : M α} {f : α → M β} (hx : Multi n x) (hfr : Fr x)
    (hf : ∀ a, Qt (f a)) (hfid : ∀ a, IdEq (f a)) : Multi n (x >>= f) :=
  (Multi_bind hx hfr (fun a => Multi_of_Qt (hf a) (hfid a))).mono (fun d => by simp)

/-- an operation on the open-and-quiet stream `(l, r)` that may open up to `n` further streams meanwhile -/
def SQM {α : Type} (n l r : Nat) (Post : Except Err α → St → Prop) (x : M α) : Prop :=
  ∀ (w w' : World) (res : Except Err α), x w = (res, w') → w.locks = [] →
    ∃ X Y, Adds w w' X Y ∧ (w.localId + n < 4294967296 → l ≤ w.localId →
      w.localId ≤ w'.localId ∧ w'.localId ≤ w.localId + n ∧
      (NZ X → ∀ (S : Table) (st : St), Bnd S w.localId → alookup l S = some st → Quiet1 r st →
        ∃ S' st', Acc S X S' ∧ Bnd S' w'.localId ∧ alookup l S' = some st' ∧ Post res st' ∧
          ∀ k, k ≤ w.localId → k ≠ l → alookup k S' = alookup k S))

theorem SQM_of_SQ {α : Type} {l r : Nat} {x : M α} (hx : SQ l r x) (hid : IdEq x) : SQM 0 l r (QL r) x := by
  intro w w' res h hl
  obtain ⟨X, Y, hA, hacc⟩ := hx w w' res h (by simp [hl])
  refine ⟨X, Y, hA, fun _ hlw => ?_⟩
  have hw := hid.of h
  refine ⟨by omega, by omega, fun hnz S st hS hst hq => ?_⟩
  obtain ⟨st', h1, h2⟩ := hacc hnz S st hst hq
  exact ⟨_, st', h1, by rw [hw]; exact hS.aset hlw st', alookup_aset_self _ _ _, h2,
    fun k _ hkl => alookup_aset_ne (Ne.symm hkl) st' S⟩

theorem SQM_of_Multi {α : Type} {n l r : Nat} {x : M α} (hx : Multi (fun _ => n) x) : SQM n l r (QL r) x := by
  intro w w' res h hl
  obtain ⟨X, Y, hA, hr⟩ := hx w w' res h hl
  refine ⟨X, Y, hA, fun hb hlw => ?_⟩
  obtain ⟨h1, h2, h3⟩ := hr hb
  simp only [] at h2
  refine ⟨h1, h2, fun hnz S st hS hst hq => ?_⟩
  obtain ⟨S', a, b, c⟩ := h3 hnz S hS
  exact ⟨S', st, a, b, by rw [c l hlw]; exact hst, QL.of_quiet hq, fun k hk _ => c k hk⟩

theorem SQM_bind {α β : Type} {n m l r : Nat} {Post : Except Err β → St → Prop} {x : M α} {f : α → M β}
    (hx : SQM n l r (QL r) x) (hfr : Fr x) (hf : ∀ a, SQM m l r Post (f a))
    (hpost : ∀ e st, Live r st → Post (.error e) st) : SQM (n + m) l r Post (x >>= f) := by
  intro w w' res h hl
  rcases bind_any_inv h with ⟨e, he, rfl⟩ | ⟨a, w1, ha, hrest⟩
  · obtain ⟨X, Y, hA, hr⟩ := hx w w' _ he hl
    refine ⟨X, Y, hA, fun hb hlw => ?_⟩
    obtain ⟨h1, h2, h3⟩ := hr (by omega) hlw
    refine ⟨h1, by omega, fun hnz S st hS hst hq => ?_⟩
    obtain ⟨S', st', a, b, c, d, e'⟩ := h3 hnz S st hS hst hq
    exact ⟨S', st', a, b, c, hpost e st' d, e'⟩
  · obtain ⟨X1, Y1, hA1, hr1⟩ := hx w w1 _ ha hl
    have hl1 : w1.locks = [] := by rw [Fr.locks_of hfr ha]; exact hl
    obtain ⟨X2, Y2, hA2, hr2⟩ := hf a w1 w' res hrest hl1
    refine ⟨X1 ++ X2, Y1 ++ Y2, hA1.trans hA2, fun hb hlw => ?_⟩
    obtain ⟨h1, h2, h3⟩ := hr1 (by omega) hlw
    obtain ⟨h4, h5, h6⟩ := hr2 (by omega) (by omega)
    refine ⟨by omega, by omega, fun hnz S st hS hst hq => ?_⟩
    obtain ⟨hn1, hn2⟩ := NZ_append.1 hnz
    obtain ⟨S1, st1, a1, b1, c1, d1, e1⟩ := h3 hn1 S st hS hst hq
    obtain ⟨S2, st2, a2, b2, c2, d2, e2⟩ := h6 hn2 S1 st1 b1 c1 d1
    exact ⟨S2, st2, a1.append a2, b2, c2, d2, fun k hk hkl => (e2 k (by omega) hkl).trans (e1 k hk hkl)⟩

/-! ### `pull` with a progress callback: a `stat` on a second stream while the first is open -/

theorem Fr_pullTotal (devPath : Bytes) (cb : CbMode) (t : Txn) : Fr (pullTotal devPath cb t) := by
  unfold pullTotal; fr

theorem Multi_pullTotal (devPath : Bytes) (cb : CbMode) (t : Txn) : Multi (fun _ => 1) (pullTotal devPath cb t) := by
  unfold pullTotal
  split
  · have h := Multi_bind (m := fun _ => 0) (Multi_of_OneStream (OneStream_devStat devPath t.tt t.rt)) (Fr_devStat _ _ _)
      (f := fun v => match v with | .stat _ size _ => (pure size : M Nat) | _ => pure 0)
      (fun v => Multi_of_Qt (by split <;> exact Qt_pure _) (by split <;> exact IdEq_pure _))
    exact h.mono (fun _ => Nat.le_refl _)
  · exact (Multi_of_Qt (Qt_pure _) (IdEq_pure _)).mono (fun _ => Nat.zero_le _)

/-- `_pull` on its open-and-quiet stream, possibly with the `stat` of the progress callback on a second stream -/
theorem SQM_pullInner {t : Txn} {l r : Nat} (hi : Ids t l r) (devPath : Bytes) (cb : CbMode) (fi : FsInfo) :
    SQM 1 l r (QL r) (pullInner devPath cb t fi) := by
  rw [pullInner_eq]
  exact SQM_bind (n := 1) (m := 0) (SQM_of_Multi (Multi_pullTotal devPath cb t)) (Fr_pullTotal _ _ _)
    (fun total => SQM_of_SQ (SQ_pullRest hi _ _ _ _) (IdEq_pullRest _ _ _ _ _)) (fun _ _ h => h)

/-- `try: x  finally: _clse` where `x` works on the stream and may open others -/
theorem SQM_tryFinally_clse {α : Type} {t : Txn} {n l r : Nat} (hi : Ids t l r) {x : M α} (hx : SQM n l r (QL r) x) (hfr : Fr x) :
    SQM n l r (fun res st => ∀ a, res = .ok a → Done st) (M.tryFinally x (clse t)) := by
  intro w w' res h hl
  obtain ⟨r1, w1, r2, hx1, hc, hres⟩ := tryFinally_inv' h
  obtain ⟨X1, Y1, hA1, hr1⟩ := hx w w1 r1 hx1 hl
  have hl1 : lockTransport ∉ w1.locks := by rw [Fr.locks_of hfr hx1, hl]; simp
  obtain ⟨X2, hA2, hacc2⟩ := clse_mon hi hc hl1
  have hw2 : w'.localId = w1.localId := (IdEq_clse t).of hc
  refine ⟨X1 ++ X2, Y1 ++ [], hA1.trans hA2, fun hb hlw => ?_⟩
  obtain ⟨h1, h2, h3⟩ := hr1 hb hlw
  refine ⟨by omega, by omega, fun hnz S st hS hst hq => ?_⟩
  obtain ⟨hn1, hn2⟩ := NZ_append.1 hnz
  obtain ⟨S1, st1, a1, b1, c1, d1, e1⟩ := h3 hn1 S st hS hst hq
  obtain ⟨st2, a2, _, hd⟩ := hacc2 hn2 S1 st1 c1 d1.live
  exact ⟨_, st2, a1.append a2, by rw [hw2]; exact b1.aset (by omega) st2, alookup_aset_self _ _ _,
    fun a ha => hd () (hres a ha).2, fun k hk hkl => (alookup_aset_ne (Ne.symm hkl) st2 S1).trans (e1 k hk hkl)⟩

theorem SQM_suffix {α β : Type} {n l r : Nat} {x : M α} {f : α → M β}
    (hx : SQM n l r (fun res st => ∀ a, res = .ok a → Done st) x) (hf : ∀ a, Qt (f a)) (hfid : ∀ a, IdEq (f a)) :
    SQM n l r (fun res st => ∀ b, res = .ok b → Done st) (x >>= f) := by
  intro w w' res h hl
  rcases bind_any_inv h with ⟨e, he, rfl⟩ | ⟨a, w1, ha, hrest⟩
  · obtain ⟨X, Y, hA, hr⟩ := hx w w' _ he hl
    refine ⟨X, Y, hA, fun hb hlw => ?_⟩
    obtain ⟨h1, h2, h3⟩ := hr hb hlw
    refine ⟨h1, h2, fun hnz S st hS hst hq => ?_⟩
    obtain ⟨S', st', a, b, c, _, e'⟩ := h3 hnz S st hS hst hq
    exact ⟨S', st', a, b, c, by simp, e'⟩
  · obtain ⟨X, Y, hA, hr⟩ := hx w w1 _ ha hl
    have hw := (hfid a).of hrest
    refine ⟨X, Y, by simpa using hA.trans ((hf a).adds hrest), fun hb hlw => ?_⟩
    obtain ⟨h1, h2, h3⟩ := hr hb hlw
    rw [hw]
    refine ⟨h1, h2, fun hnz S st hS hst hq => ?_⟩
    obtain ⟨S', st', a', b, c, d, e'⟩ := h3 hnz S st hS hst hq
    exact ⟨S', st', a', b, c, fun _ _ => d a rfl, e'⟩

theorem SQM_prefix {α β : Type} {n l r : Nat} {Post : Except Err β → St → Prop} {x : M α} {f : α → M β}
    (hq : Qt x) (hfr : Fr x) (hid : IdEq x) (hf : ∀ a, SQM n l r Post (f a)) (hpost : ∀ e st, Live r st → Post (.error e) st) :
    SQM n l r Post (x >>= f) := by
  have := SQM_bind (n := 0) (m := n) (SQM_of_SQ (l := l) (r := r) (SQ_of_Qt hq) hid) hfr hf hpost
  simpa using this

/-- `_open` followed by an operation that works on the new stream, may open up to `n` more, and closes it -/
theorem Multi_open_then {β : Type} {n : Nat} {dest : Bytes} {tt rt total : Timeout} {k : Txn → M β}
    (hk : ∀ t l r, Ids t l r → SQM n l r (fun res st => ∀ b, res = .ok b → Done st) (k t)) :
    Multi (fun _ => n + 1) (openStream dest tt rt total >>= k) := by
  intro w w' res h hl
  rcases bind_any_inv h with ⟨e, he, rfl⟩ | ⟨t, w1, ho, hrest⟩
  · obtain ⟨X, hA, _, hacc⟩ := openStream_mon he hl
    have hw := openStream_localId he hl
    refine ⟨X, [], hA, fun hb => ?_⟩
    simp only [] at hb ⊢
    have hn : nextId w.localId = w.localId + 1 := nextId_eq_succ (by omega)
    rw [hn] at hw hacc
    refine ⟨by omega, by omega, fun _ S hS => ?_⟩
    obtain ⟨S', h1, h2⟩ := hacc S (by omega) (hS.fresh (by omega))
    exact ⟨S', h1, hS.only h2 (by omega) (by omega), fun k hk => h2 k (by omega)⟩
  · obtain ⟨X1, hA1, _, r, hi, hacc1⟩ := openStream_mon ho hl
    have hw1 := openStream_localId ho hl
    have hl1 : w1.locks = [] := by rw [Fr.locks_of (Fr_openStream _ _ _ _) ho, hl]
    obtain ⟨X2, Y2, hA2, hr2⟩ := hk t _ r hi w1 w' res hrest hl1
    refine ⟨X1 ++ X2, [] ++ Y2, hA1.trans hA2, fun hb => ?_⟩
    simp only [] at hb ⊢
    have hn : nextId w.localId = w.localId + 1 := nextId_eq_succ (by omega)
    rw [hn] at hw1 hacc1 hr2
    obtain ⟨h1, h2, h3⟩ := hr2 (by omega) (by omega)
    refine ⟨by omega, by omega, fun hnz S hS => ?_⟩
    obtain ⟨_, hn2⟩ := NZ_append.1 hnz
    obtain ⟨st1, a1, hq1⟩ := hacc1 S (by omega) (hS.fresh (by omega))
    have hS1 : Bnd (aset (w.localId + 1) st1 S) w1.localId := (hS.mono (by omega)).aset (by omega) st1
    obtain ⟨S2, st2, a2, b2, _, _, e2⟩ := h3 hn2 _ st1 hS1 (alookup_aset_self _ _ _) hq1
    refine ⟨S2, a1.append a2, b2, fun k hk => ?_⟩
    rw [e2 k (by omega) (by omega)]
    exact alookup_aset_ne (by omega) st1 S

/-- `pull`, with or without a progress callback -/
theorem Multi_devPull (devPath : Bytes) (cb : CbMode) (tt rt : Timeout) : Multi (fun _ => 2) (devPull devPath cb tt rt) := by
  unfold devPull
  have hcore : ∀ u1 u2 : Unit, Multi (fun _ => 1 + 1) (do
      let t ← openStream (ascii "sync:") tt rt none
      let w ← M.get
      let fi : FsInfo := { fmt := .pull, maxdata := w.maxdata }
      M.tryFinally (pullInner devPath cb t fi) (clse t)
      pure Val.none) := by
    intro _ _
    refine Multi_open_then (fun t l r hi => ?_)
    refine SQM_prefix Qt_get Fr_get IdEq_get (fun w0 => ?_) (by simp)
    dsimp only
    exact SQM_suffix (SQM_tryFinally_clse hi (SQM_pullInner hi devPath cb _) (Fr_pullInner _ _ _ _)) (fun _ => Qt_pure _) (fun _ => IdEq_pure _)
  exact Multi_prefix (by qt) (by fr) (by ideq) (fun u1 => Multi_prefix (by qt) (by fr) (by ideq) (fun u2 => hcore u1 u2))

/-! ### `push` -/

theorem Multi_pushFiles (devPath : Bytes) (mode mtime : Nat) (cb : CbMode) (tt rt : Timeout) :
    ∀ es : List (Bytes × Nat), Multi (fun _ => es.length) (pushFiles devPath mode mtime cb tt rt es) := by
  intro es
  induction es with
  | nil => unfold pushFiles; exact Multi_of_Qt (Qt_pure _) (IdEq_pure _)
  | cons e es ih =>
    obtain ⟨name, fid⟩ := e
    unfold pushFiles
    exact (Multi_bind (Multi_of_OneStream (OneStream_pushFile fid _ mode mtime cb tt rt)) (Fr_pushFile _ _ _ _ _ _ _)
      (fun _ => ih)).mono (fun _ => by simp; omega)

/-- how many streams `push` opens: one for a file or BytesIO; for a directory the `mkdir` shell command and one per entry -/
def pushBound (src : LocalRef) (d : Dirs) : Nat :=
  match src with
  | .dir id => (match d.find? (·.1 == id) with
    | some (_, entries) => 1 + entries.length
    | none => 0)
  | _ => 1

theorem Multi_devPush (src : LocalRef) (devPath : Bytes) (mode mtime : Nat) (cb : CbMode) (tt rt : Timeout) :
    Multi (pushBound src) (devPush src devPath mode mtime cb tt rt) := by
  unfold devPush
  refine Multi_prefix (by qt) (by fr) (by ideq) (fun _ => ?_)
  cases src with
  | bytesio id =>
    exact Multi_suffix (Multi_of_OneStream (OneStream_pushFile id devPath mode mtime cb tt rt)) (Fr_pushFile _ _ _ _ _ _ _)
      (fun _ => Qt_pure _) (fun _ => IdEq_pure _)
  | file id =>
    exact Multi_suffix (Multi_of_OneStream (OneStream_pushFile id devPath mode mtime cb tt rt)) (Fr_pushFile _ _ _ _ _ _ _)
      (fun _ => Qt_pure _) (fun _ => IdEq_pure _)
  | dir id =>
    intro w w' res h hl
    simp only [] at h
    rw [bind_run_ok (M.get_run _)] at h
    cases hfind : w.dirs.find? (·.1 == id) with
    | none =>
      simp only [hfind] at h
      obtain ⟨X, Y, hA, hr⟩ := (Multi_of_Qt (α := Val) (Qt_throw Err.localFileError) (IdEq_throw _)) w w' res h hl
      refine ⟨X, Y, hA, fun _ => ?_⟩
      obtain ⟨h1, h2, h3⟩ := hr (by simp only []; omega)
      exact ⟨h1, by simp only [] at h2; omega, h3⟩
    | some pr =>
      obtain ⟨id', entries⟩ := pr
      simp only [hfind] at h
      have hm : Multi (fun _ => 1 + entries.length) (do
          let _ ← devShellLike "shell" (ascii "shell") (ascii "mkdir " ++ devPath) tt rt none true
          pushFiles devPath mode mtime cb tt rt entries
          pure Val.none) :=
        Multi_bind (Multi_of_OneStream (OneStream_devShellLike _ _ _ _ _ _ _)) (Fr_devShellLike _ _ _ _ _ _ _)
          (fun _ => Multi_suffix (Multi_pushFiles devPath mode mtime cb tt rt entries) (Fr_pushFiles _ _ _ _ _ _ _)
            (fun _ => Qt_pure _) (fun _ => IdEq_pure _))
      obtain ⟨X, Y, hA, hr⟩ := hm w w' res h hl
      refine ⟨X, Y, hA, ?_⟩
      simpa [pushBound, hfind] using hr

/-! ### `connect` / `close`: no stream packet at all -/

/-- an event the stream monitor ignores: no delivery or transmission of OPEN / OKAY / WRTE / CLSE -/
def NonStreamEv : TEv → Prop
  | .deliver p => isStreamCmd p.cmd = false
  | .tx m => isStreamCmd m.cmd = false ∧ m.cmd ≠ Cmd.OPEN
  | _ => True

/-- every event `x` adds is ignored by the stream monitor -/
def NS {α : Type} (x : M α) : Prop := ∀ w, ∃ evs, (x w).2.trace = evs ++ w.trace ∧ ∀ e ∈ evs, NonStreamEv e

theorem NS_of_Qt {α : Type} {x : M α} (h : Qt x) : NS x := by
  intro w
  obtain ⟨evs, ht, hs⟩ := h w
  refine ⟨evs, ht, fun e he => ?_⟩
  have := hs e he
  cases e <;> simp_all [TEv.silent, NonStreamEv]

theorem NS_bind {α β : Type} {x : M α} {f : α → M β} (hx : NS x) (hf : ∀ a, NS (f a)) : NS (x >>= f) := by
  intro w
  rw [bind_run]
  obtain ⟨e1, ht1, hs1⟩ := hx w
  split
  · next a w' hxw =>
    rw [hxw] at ht1
    obtain ⟨e2, ht2, hs2⟩ := hf a w'
    have ht1' : w'.trace = e1 ++ w.trace := ht1
    refine ⟨e2 ++ e1, by simp [ht2, ht1'], ?_⟩
    intro e he
    rcases List.mem_append.1 he with he | he
    · exact hs2 e he
    · exact hs1 e he
  · next e w' hxw => rw [hxw] at ht1; exact ⟨e1, ht1, hs1⟩

theorem NS_ite {α : Type} {c : Prop} [Decidable c] {a b : M α} (ha : NS a) (hb : NS b) : NS (if c then a else b) := by
  split <;> assumption

theorem NS_withLock {α : Type} (l : Nat) {body : M α} (hb : NS body) : NS (withLock l body) := by
  intro w
  rw [withLock_run]
  split
  · exact ⟨[], rfl, by simp⟩
  · exact hb { w with locks := l :: w.locks }

theorem NS_emit {e : TEv} (h : NonStreamEv e) : NS (emit e) := fun w => ⟨[e], rfl, by simpa using h⟩

theorem Qt_tClose : Qt tClose := fun w => ⟨[.tclose], by unfold tClose; split <;> rfl, by simp [TEv.silent]⟩
theorem Qt_tConnect (tt : Timeout) : Qt (tConnect tt) := by
  intro w
  refine ⟨[.tconnect], ?_, by simp [TEv.silent]⟩
  unfold tConnect
  repeat' split
  all_goals rfl
macro_rules | `(tactic| qt_lemma) => `(tactic| with_reducible exact Qt_tClose)
macro_rules | `(tactic| qt_lemma) => `(tactic| with_reducible exact Qt_tConnect _)

/-- structural decomposition of a `do` block for `NS` -/
syntax "ns" ("[" term "]")? : tactic
macro_rules
  | `(tactic| ns) => `(tactic| ns [NS_of_Qt Qt_get])
  | `(tactic| ns [$h]) => `(tactic| first
    | exact NS_of_Qt (by qt_lemma)
    | with_reducible assumption
    | with_reducible exact $h
    | with_reducible exact $h _
    | with_reducible exact $h _ _
    | (with_reducible apply NS_bind) <;> (first | (intro _; ns [$h]) | ns [$h])
    | (with_reducible apply NS_withLock); ns [$h]
    | (with_reducible apply NS_ite) <;> ns [$h]
    | (split <;> ns [$h])
    | (dsimp only; ns [$h])
    | (intro _; ns [$h])
    | exact NS_of_Qt (by qt))

theorem NS_sendRaw {m : Msg} (hm : isStreamCmd m.cmd = false ∧ m.cmd ≠ Cmd.OPEN) (t : Txn) : NS (sendRaw m t) := by
  unfold sendRaw
  exact NS_bind (NS_emit hm) (fun _ => NS_of_Qt (by qt))

theorem NS_expectLoop {ex : List Cmd} (hex : ∀ c ∈ ex, isStreamCmd c = false) (t : Txn) (start : Int) :
    ∀ fuel, NS (expectLoop ex t start fuel) := by
  intro fuel
  induction fuel with
  | zero => unfold expectLoop; exact NS_of_Qt (Qt_throw _)
  | succ f ih =>
    unfold expectLoop
    refine NS_bind (NS_of_Qt (Qt_readPacket t)) (fun p => ?_)
    split
    · next hc =>
      exact NS_bind (NS_emit (hex p.cmd (by simpa using hc))) (fun _ => NS_of_Qt (Qt_pure _))
    · ns [ih]

theorem NS_expectPacket {ex : List Cmd} (hex : ∀ c ∈ ex, isStreamCmd c = false) (t : Txn) : NS (expectPacket ex t) := by
  unfold expectPacket
  exact NS_bind (NS_of_Qt Qt_now) (fun _ => NS_bind (NS_of_Qt Qt_get) (fun _ => NS_expectLoop hex t _ _))

theorem NS_sendRaw_cnxn (a0 a1 : Nat) (d : Bytes) (t : Txn) : NS (sendRaw ⟨.CNXN, a0, a1, d⟩ t) :=
  NS_sendRaw ⟨rfl, by intro h; cases h⟩ t
theorem NS_sendRaw_auth (a0 a1 : Nat) (d : Bytes) (t : Txn) : NS (sendRaw ⟨.AUTH, a0, a1, d⟩ t) :=
  NS_sendRaw ⟨rfl, by intro h; cases h⟩ t
theorem NS_expect_ac (t : Txn) : NS (expectPacket [.AUTH, .CNXN] t) := NS_expectPacket (by decide) t
theorem NS_expect_ca (t : Txn) : NS (expectPacket [.CNXN, .AUTH] t) := NS_expectPacket (by decide) t
theorem NS_expect_c (t : Txn) : NS (expectPacket [.CNXN] t) := NS_expectPacket (by decide) t

syntax "ns_io" : tactic
macro_rules | `(tactic| ns_io) => `(tactic| with_reducible exact NS_sendRaw_cnxn _ _ _ _)
macro_rules | `(tactic| ns_io) => `(tactic| with_reducible exact NS_sendRaw_auth _ _ _ _)
macro_rules | `(tactic| ns_io) => `(tactic| with_reducible exact NS_expect_ac _)
macro_rules | `(tactic| ns_io) => `(tactic| with_reducible exact NS_expect_ca _)
macro_rules | `(tactic| ns_io) => `(tactic| with_reducible exact NS_expect_c _)

/-- like `ns`, knowing `_send` of CNXN / AUTH and `_read_expected_packet` for CNXN / AUTH -/
syntax "nsc" ("[" term "]")? : tactic
macro_rules
  | `(tactic| nsc) => `(tactic| nsc [NS_of_Qt Qt_get])
  | `(tactic| nsc [$h]) => `(tactic| first
    | exact NS_of_Qt (by qt_lemma)
    | ns_io
    | with_reducible assumption
    | with_reducible exact $h
    | with_reducible exact $h _
    | with_reducible exact $h _ _
    | exact NS_emit (by simp [NonStreamEv])
    | (with_reducible apply NS_bind) <;> (first | (intro _; nsc [$h]) | nsc [$h])
    | (with_reducible apply NS_withLock); nsc [$h]
    | (with_reducible apply NS_ite) <;> nsc [$h]
    | (split <;> nsc [$h])
    | (dsimp only; nsc [$h])
    | (intro _; nsc [$h])
    | exact NS_of_Qt (by qt))

theorem NS_authLoop (t : Txn) : ∀ keys last, NS (authLoop t keys last) := by
  intro keys
  induction keys with
  | nil => intro last; unfold authLoop; nsc
  | cons k ks ih => intro last; unfold authLoop; nsc [ih]

theorem NS_ioConnect (banner : Bytes) (keys : List Nat) (authT : Timeout) (hasCb : Bool) (t : Txn) :
    NS (ioConnect banner keys authT hasCb t) := by
  unfold ioConnect
  nsc [NS_authLoop _ _ _]

theorem NS_devConnect (keys : List Nat) (tt authT rt : Timeout) (hasCb : Bool) : NS (devConnect keys tt authT rt hasCb) := by
  unfold devConnect
  nsc [NS_ioConnect _ _ _ _ _]

theorem Qt_ioClose : Qt ioClose := by unfold ioClose; qt
theorem NS_devClose : NS devClose := by
  unfold devClose
  exact NS_of_Qt (by qt [Qt_ioClose])

/-- events the monitor ignores leave every table as it is -/
theorem Acc_nonstream {evs : List TEv} (h : ∀ e ∈ evs, NonStreamEv e) (S : Table) : Acc S (exchanged evs) S := by
  induction evs with
  | nil => exact Acc.nil S
  | cons e evs ih =>
    rw [exchanged_cons]
    refine Acc.append (ih (fun e' he' => h e' (by simp [he']))) ?_
    have he := h e (by simp)
    cases e with
    | deliver p =>
      simp only [NonStreamEv] at he
      simp [Acc, Monitor.run, Monitor.step, ofXfer, he]
    | tx m =>
      simp only [NonStreamEv] at he
      simp [Acc, Monitor.run, Monitor.step, ofXfer, he.1, he.2]
    | _ => exact Acc.nil S

theorem Multi_of_NS {α : Type} {x : M α} (hns : NS x) (hid : IdEq x) : Multi (fun _ => 0) x := by
  intro w w' res hx _
  obtain ⟨evs, ht, hq⟩ := hns w
  rw [hx] at ht
  refine ⟨exchanged evs, yieldedBy evs, ⟨evs, ht, rfl, rfl⟩, fun _ => ?_⟩
  have := hid.of hx
  simp only []
  exact ⟨by omega, by omega, fun _ S hS => ⟨S, Acc_nonstream hq S, by rw [this]; exact hS, fun _ _ => rfl⟩⟩

/-! ### the id counter during `connect` / `close` -/

theorem IdEq_sendRaw (m : Msg) (t : Txn) : IdEq (sendRaw m t) := by
  unfold sendRaw
  exact IdEq_bind (IdEq_emit _) (fun _ => by
    split
    · exact IdEq_throw _
    · exact IdEq_bind (IdEq_of_QuietM (QuietM.writeAll _ _)) (fun _ => by
        split
        · exact IdEq_of_QuietM (QuietM.writeAll _ _)
        · exact IdEq_pure _))
macro_rules | `(tactic| ideq_lemma) => `(tactic| with_reducible exact IdEq_sendRaw _ _)

theorem IdEq_readPacket (t : Txn) : IdEq (readPacket t) := IdEq_of_QuietM (QuietM.readPacket t)
macro_rules | `(tactic| ideq_lemma) => `(tactic| with_reducible exact IdEq_readPacket _)

theorem IdEq_expectLoop (ex : List Cmd) (t : Txn) (start : Int) : ∀ fuel, IdEq (expectLoop ex t start fuel) := by
  intro fuel
  induction fuel with
  | zero => unfold expectLoop; ideq
  | succ f ih => unfold expectLoop; ideq [ih]
macro_rules | `(tactic| ideq_lemma) => `(tactic| with_reducible exact IdEq_expectLoop _ _ _ _)

theorem IdEq_expectPacket (ex : List Cmd) (t : Txn) : IdEq (expectPacket ex t) := by
  unfold expectPacket; ideq
macro_rules | `(tactic| ideq_lemma) => `(tactic| with_reducible exact IdEq_expectPacket _ _)

theorem IdEq_tConnect (tt : Timeout) : IdEq (tConnect tt) := by
  intro w
  unfold tConnect
  repeat' split
  all_goals rfl
macro_rules | `(tactic| ideq_lemma) => `(tactic| with_reducible exact IdEq_tConnect _)

theorem IdEq_authLoop (t : Txn) : ∀ keys last, IdEq (authLoop t keys last) := by
  intro keys
  induction keys with
  | nil => intro last; unfold authLoop; ideq
  | cons k ks ih => intro last; unfold authLoop; ideq [ih]
macro_rules | `(tactic| ideq_lemma) => `(tactic| with_reducible exact IdEq_authLoop _ _ _)

theorem IdEq_ioConnect (banner : Bytes) (keys : List Nat) (authT : Timeout) (hasCb : Bool) (t : Txn) :
    IdEq (ioConnect banner keys authT hasCb t) := by
  unfold ioConnect; ideq
macro_rules | `(tactic| ideq_lemma) => `(tactic| with_reducible exact IdEq_ioConnect _ _ _ _ _)

theorem IdEq_getTT (tt : Timeout) : IdEq (getTT tt) := fun _ => rfl
macro_rules | `(tactic| ideq_lemma) => `(tactic| with_reducible exact IdEq_getTT _)

theorem IdEq_devConnect (keys : List Nat) (tt authT rt : Timeout) (hasCb : Bool) : IdEq (devConnect keys tt authT rt hasCb) := by
  unfold devConnect; ideq

theorem IdEq_devClose : IdEq devClose := by
  unfold devClose; ideq

/-! ### every API operation, and histories -/

/-- an upper bound on the stream ids an API operation allocates -/
def allocBound : ApiOp → Dirs → Nat
  | .connect .., _ => 0
  | .close, _ => 0
  | .pull .., _ => 2
  | .push src .., d => pushBound src d
  | _, _ => 1

theorem Multi_apiOp (op : ApiOp) : Multi (allocBound op) op.run := by
  cases op with
  | connect keys tt authT rt cb => exact Multi_of_NS (NS_devConnect _ _ _ _ _) (IdEq_devConnect _ _ _ _ _)
  | close => exact Multi_of_NS NS_devClose IdEq_devClose
  | shell cmd tt rt total dec => exact Multi_of_OneStream (OneStream_devShellLike _ _ _ _ _ _ _)
  | execOut cmd tt rt total dec => exact Multi_of_OneStream (OneStream_devShellLike _ _ _ _ _ _ _)
  | root tt rt total => exact Multi_of_OneStream (OneStream_devRoot _ _ _)
  | reboot fb tt rt total => exact Multi_of_OneStream (OneStream_devReboot _ _ _ _)
  | streamingShell cmd tt rt dec => exact Multi_of_OneStream (OneStream_devStreamingShell _ _ _ _)
  | list p tt rt => exact Multi_of_OneStream (OneStream_devList _ _ _)
  | stat p tt rt => exact Multi_of_OneStream (OneStream_devStat _ _ _)
  | pull p cb tt rt => exact Multi_devPull _ _ _ _
  | push src p mode mtime cb tt rt => exact Multi_devPush _ _ _ _ _ _ _

theorem devConnect_dirs (keys : List Nat) (tt authT rt : Timeout) (cb : Bool) (w : World) :
    (devConnect keys tt authT rt cb w).2.dirs = w.dirs := by
  unfold devConnect
  rw [bind_run]
  simp only [getTT]
  rw [bind_run]
  cases hm : Txn.make none none (if tt.isSome = true then tt else w.defaultTT) rt none with
  | error e => simp
  | ok t =>
    simp only [liftExcept_run, bind_run, M.modify_run, M.get_run]
    have h := Fr_ioConnect w.banner keys authT cb t { w with available := false }
    split
    · next md w' hc =>
      rw [hc] at h
      simpa using h.dirs
    · next e w' hc =>
      rw [hc] at h
      simpa using h.dirs

theorem devClose_dirs (w : World) : (devClose w).2.dirs = w.dirs := by
  unfold devClose
  simp only [bind_run, M.modify_run]
  have h := Fr_ioClose { w with available := false }
  split
  · next u w' hc =>
    rw [hc] at h
    simpa using h.dirs
  · next e w' hc =>
    rw [hc] at h
    simpa using h.dirs

/-- no API operation changes the local directories -/
theorem apiOp_dirs (op : ApiOp) (w : World) : (op.run w).2.dirs = w.dirs := by
  cases op with
  | connect keys tt authT rt cb => exact devConnect_dirs keys tt authT rt cb w
  | close => exact devClose_dirs w
  | shell cmd tt rt total dec => exact (Fr_devShellLike _ _ cmd tt rt total dec w).dirs
  | execOut cmd tt rt total dec => exact (Fr_devShellLike _ _ cmd tt rt total dec w).dirs
  | root tt rt total => exact (Fr_devRoot tt rt total w).dirs
  | reboot fb tt rt total => exact (Fr_devReboot fb tt rt total w).dirs
  | streamingShell cmd tt rt dec => exact (Fr_devStreamingShell cmd tt rt dec w).dirs
  | list p tt rt => exact (Fr_devList p tt rt w).dirs
  | stat p tt rt => exact (Fr_devStat p tt rt w).dirs
  | pull p cb tt rt => exact (Fr_devPull p cb tt rt w).dirs
  | push src p mode mtime cb tt rt => exact (Fr_devPush src p mode mtime cb tt rt w).dirs

/-- the ids a history may allocate, computed from the local directories (which no operation changes) -/
def historyBound (ops : List ApiOp) (d : Dirs) : Nat := (ops.map (fun op => allocBound op d)).sum

/-- Histories of API calls (each possibly failing): if the id counter does not wrap around, the monitor
    accepts the whole conversation from every table bounded by the counter. -/
theorem runHistory_mon : ∀ (ops : List ApiOp) (w w' : World) (rs : List (Except Err Val)),
    runHistory ops w = (rs, w') → w.locks = [] →
    ∃ X Y, Adds w w' X Y ∧ (w.localId + historyBound ops w.dirs < 4294967296 → NZ X →
      ∀ S, Bnd S w.localId → ∃ S', Acc S X S' ∧ Bnd S' w'.localId) := by
  intro ops
  induction ops with
  | nil =>
    intro w w' rs h _
    simp only [runHistory, Prod.mk.injEq] at h
    obtain ⟨_, rfl⟩ := h
    exact ⟨[], [], Adds.rfl' _, fun _ _ S hS => ⟨S, Acc.nil S, hS⟩⟩
  | cons op ops ih =>
    intro w w' rs h hl
    simp only [runHistory] at h
    cases hop : op.run w with
    | mk r w1 =>
      rw [hop] at h
      cases hrest : runHistory ops w1 with
      | mk rs' w2 =>
        rw [hrest] at h
        simp only [Prod.mk.injEq] at h
        obtain ⟨_, rfl⟩ := h
        have hl1 : w1.locks = [] := by have := C12_locks_released op w; rw [hop] at this; rw [this]; exact hl
        have hd1 : w1.dirs = w.dirs := by have := apiOp_dirs op w; rw [hop] at this; exact this
        obtain ⟨X1, Y1, hA1, hr1⟩ := Multi_apiOp op w w1 r hop hl
        obtain ⟨X2, Y2, hA2, hr2⟩ := ih w1 w2 rs' hrest hl1
        refine ⟨X1 ++ X2, Y1 ++ Y2, hA1.trans hA2, fun hb hnz S hS => ?_⟩
        simp only [historyBound, List.map_cons, List.sum_cons] at hb
        obtain ⟨hn1, hn2⟩ := NZ_append.1 hnz
        obtain ⟨h1, h2, h3⟩ := hr1 (by omega)
        obtain ⟨S1, a1, b1, _⟩ := h3 hn1 S hS
        obtain ⟨S2, a2, b2⟩ := hr2 (by rw [hd1]; simp only [historyBound]; omega) hn2 S1 b1
        exact ⟨S2, a1.append a2, b2⟩

end Adb
