import AdbProofs.Lemmas.FrameOps
/- `Fr` for the stream, FileSync and device layers. -/
namespace Adb

theorem Fr_openStream (dest : Bytes) (tt rt total : Timeout) : Fr (openStream dest tt rt total) := by
  unfold openStream
  fr
macro_rules | `(tactic| fr_lemma) => `(tactic| with_reducible exact Fr_openStream _ _ _ _)

theorem Fr_okay (t : Txn) : Fr (okay t) := by
  unfold okay
  fr
macro_rules | `(tactic| fr_lemma) => `(tactic| with_reducible exact Fr_okay _)

theorem Fr_readUntil (ex : List Cmd) (t : Txn) : Fr (readUntil ex t) := by
  unfold readUntil
  fr
macro_rules | `(tactic| fr_lemma) => `(tactic| with_reducible exact Fr_readUntil _ _)

theorem Fr_clse (t : Txn) : Fr (clse t) := by
  unfold clse
  fr
macro_rules | `(tactic| fr_lemma) => `(tactic| with_reducible exact Fr_clse _)

theorem Fr_readUntilCloseLoop (t : Txn) (start : Int) : ∀ fuel acc, Fr (readUntilCloseLoop t start fuel acc) := by
  intro fuel
  induction fuel with
  | zero => intro acc; unfold readUntilCloseLoop; fr
  | succ f ih =>
    intro acc
    unfold readUntilCloseLoop
    fr [ih]
macro_rules | `(tactic| fr_lemma) => `(tactic| with_reducible exact Fr_readUntilCloseLoop _ _ _ _)

theorem Fr_readUntilClose (t : Txn) : Fr (readUntilClose t) := by
  unfold readUntilClose
  fr
macro_rules | `(tactic| fr_lemma) => `(tactic| with_reducible exact Fr_readUntilClose _)

theorem Fr_streamingCommand (svc cmd : Bytes) (tt rt total : Timeout) : Fr (streamingCommand svc cmd tt rt total) := by
  unfold streamingCommand
  fr
macro_rules | `(tactic| fr_lemma) => `(tactic| with_reducible exact Fr_streamingCommand _ _ _ _ _)

theorem Fr_service (svc cmd : Bytes) (tt rt total : Timeout) (dec : Bool) : Fr (service svc cmd tt rt total dec) := by
  unfold service
  fr
macro_rules | `(tactic| fr_lemma) => `(tactic| with_reducible exact Fr_service _ _ _ _ _ _)

theorem Fr_streamingService (svc cmd : Bytes) (tt rt : Timeout) (dec : Bool) : Fr (streamingService svc cmd tt rt dec) := by
  unfold streamingService
  fr
macro_rules | `(tactic| fr_lemma) => `(tactic| with_reducible exact Fr_streamingService _ _ _ _ _)

theorem Fr_fsFlushLoop (t : Txn) : ∀ fuel fi, Fr (fsFlushLoop t fuel fi) := by
  intro fuel
  induction fuel with
  | zero => intro fi; unfold fsFlushLoop; fr
  | succ f ih =>
    intro fi
    unfold fsFlushLoop
    fr [ih]
macro_rules | `(tactic| fr_lemma) => `(tactic| with_reducible exact Fr_fsFlushLoop _ _ _)

theorem Fr_fsFlush (t : Txn) (fi : FsInfo) : Fr (fsFlush t fi) := by
  unfold fsFlush
  fr
macro_rules | `(tactic| fr_lemma) => `(tactic| with_reducible exact Fr_fsFlush _ _)

theorem Fr_fsSend (id : SyncId) (t : Txn) (fi : FsInfo) (data : Bytes) (size : Option Nat) : Fr (fsSend id t fi data size) := by
  unfold fsSend
  fr
macro_rules | `(tactic| fr_lemma) => `(tactic| with_reducible exact Fr_fsSend _ _ _ _ _)

theorem Fr_fsReadBufferedLoop (size : Nat) (t : Txn) : ∀ fuel fi, Fr (fsReadBufferedLoop size t fuel fi) := by
  intro fuel
  induction fuel with
  | zero => intro fi; unfold fsReadBufferedLoop; fr
  | succ f ih =>
    intro fi
    unfold fsReadBufferedLoop
    fr [ih]
macro_rules | `(tactic| fr_lemma) => `(tactic| with_reducible exact Fr_fsReadBufferedLoop _ _ _ _)

theorem Fr_fsReadBuffered (size : Nat) (t : Txn) (fi : FsInfo) : Fr (fsReadBuffered size t fi) := by
  unfold fsReadBuffered
  fr
macro_rules | `(tactic| fr_lemma) => `(tactic| with_reducible exact Fr_fsReadBuffered _ _ _)

theorem Fr_fsRead (ex : List SyncId) (t : Txn) (fi : FsInfo) : Fr (fsRead ex t fi) := by
  unfold fsRead
  fr
macro_rules | `(tactic| fr_lemma) => `(tactic| with_reducible exact Fr_fsRead _ _ _)

theorem Fr_lookupFile (id : Nat) : Fr (lookupFile id) := by
  intro w; unfold lookupFile; split <;> frame_rfl
macro_rules | `(tactic| fr_lemma) => `(tactic| with_reducible exact Fr_lookupFile _)
theorem Fr_callProgress (cb : CbMode) (path : Bytes) (n total : Nat) : Fr (callProgress cb path n total) := by
  unfold callProgress
  fr
macro_rules | `(tactic| fr_lemma) => `(tactic| with_reducible exact Fr_callProgress _ _ _ _)
theorem Fr_pushDataLoop (devPath : Bytes) (cb : CbMode) (total chunk : Nat) (t : Txn) : ∀ fuel content fi, Fr (pushDataLoop devPath cb total chunk t fuel content fi) := by
  intro fuel
  induction fuel with
  | zero => intro content fi; unfold pushDataLoop; fr
  | succ f ih =>
    intro content fi
    unfold pushDataLoop
    fr [ih]
macro_rules | `(tactic| fr_lemma) => `(tactic| with_reducible exact Fr_pushDataLoop _ _ _ _ _ _ _ _)

theorem Fr_pushStatus (t : Txn) (fi : FsInfo) : Fr (pushStatus t fi) := by
  unfold pushStatus
  fr
macro_rules | `(tactic| fr_lemma) => `(tactic| with_reducible exact Fr_pushStatus _ _)

theorem Fr_pushOne (content devPath : Bytes) (mode mtime : Nat) (cb : CbMode) (t : Txn) (fi : FsInfo) : Fr (pushOne content devPath mode mtime cb t fi) := by
  unfold pushOne
  fr
macro_rules | `(tactic| fr_lemma) => `(tactic| with_reducible exact Fr_pushOne _ _ _ _ _ _ _)

theorem Fr_runGuard (g : String) (p : Option Bytes) : Fr (runGuard g p) := by
  intro w; unfold runGuard; repeat' split
  all_goals frame_rfl
macro_rules | `(tactic| fr_lemma) => `(tactic| with_reducible exact Fr_runGuard _ _)
theorem Fr_runGuards : ∀ gs p, Fr (runGuards gs p) := by
  intro gs
  induction gs with
  | nil => intro p; unfold runGuards; fr
  | cons g gs ih => intro p; unfold runGuards; fr [ih]
macro_rules | `(tactic| fr_lemma) => `(tactic| with_reducible exact Fr_runGuards _ _)
theorem Fr_devShellLike (op : String) (svc cmd : Bytes) (tt rt total : Timeout) (dec : Bool) : Fr (devShellLike op svc cmd tt rt total dec) := by
  unfold devShellLike
  fr
macro_rules | `(tactic| fr_lemma) => `(tactic| with_reducible exact Fr_devShellLike _ _ _ _ _ _ _)

theorem Fr_devRoot (tt rt total : Timeout) : Fr (devRoot tt rt total) := by
  unfold devRoot
  fr
macro_rules | `(tactic| fr_lemma) => `(tactic| with_reducible exact Fr_devRoot _ _ _)

theorem Fr_devReboot (fb : Bool) (tt rt total : Timeout) : Fr (devReboot fb tt rt total) := by
  unfold devReboot
  fr
macro_rules | `(tactic| fr_lemma) => `(tactic| with_reducible exact Fr_devReboot _ _ _ _)

theorem Fr_devStreamingShell (cmd : Bytes) (tt rt : Timeout) (dec : Bool) : Fr (devStreamingShell cmd tt rt dec) := by
  unfold devStreamingShell
  fr
macro_rules | `(tactic| fr_lemma) => `(tactic| with_reducible exact Fr_devStreamingShell _ _ _ _)

theorem Fr_listLoop (t : Txn) : ∀ fuel fi acc, Fr (listLoop t fuel fi acc) := by
  intro fuel
  induction fuel with
  | zero => intro fi acc; unfold listLoop; fr
  | succ f ih =>
    intro fi acc
    unfold listLoop
    fr [ih]
macro_rules | `(tactic| fr_lemma) => `(tactic| with_reducible exact Fr_listLoop _ _ _ _)

theorem Fr_devList (p : Bytes) (tt rt : Timeout) : Fr (devList p tt rt) := by
  unfold devList
  fr
macro_rules | `(tactic| fr_lemma) => `(tactic| with_reducible exact Fr_devList _ _ _)

theorem Fr_devStat (p : Bytes) (tt rt : Timeout) : Fr (devStat p tt rt) := by
  unfold devStat
  fr
macro_rules | `(tactic| fr_lemma) => `(tactic| with_reducible exact Fr_devStat _ _ _)

theorem Fr_pullLoop (devPath : Bytes) (cb : CbMode) (total : Nat) (t : Txn) : ∀ fuel fi, Fr (pullLoop devPath cb total t fuel fi) := by
  intro fuel
  induction fuel with
  | zero => intro fi; unfold pullLoop; fr
  | succ f ih =>
    intro fi
    unfold pullLoop
    fr [ih]
macro_rules | `(tactic| fr_lemma) => `(tactic| with_reducible exact Fr_pullLoop _ _ _ _ _ _)

theorem Fr_pullInner (devPath : Bytes) (cb : CbMode) (t : Txn) (fi : FsInfo) : Fr (pullInner devPath cb t fi) := by
  unfold pullInner
  fr
macro_rules | `(tactic| fr_lemma) => `(tactic| with_reducible exact Fr_pullInner _ _ _ _)

theorem Fr_devPull (devPath : Bytes) (cb : CbMode) (tt rt : Timeout) : Fr (devPull devPath cb tt rt) := by
  unfold devPull
  fr
macro_rules | `(tactic| fr_lemma) => `(tactic| with_reducible exact Fr_devPull _ _ _ _)

theorem Fr_pushFile (fid : Nat) (devPath : Bytes) (mode mtime : Nat) (cb : CbMode) (tt rt : Timeout) : Fr (pushFile fid devPath mode mtime cb tt rt) := by
  unfold pushFile
  fr
macro_rules | `(tactic| fr_lemma) => `(tactic| with_reducible exact Fr_pushFile _ _ _ _ _ _ _)

theorem Fr_pushFiles (devPath : Bytes) (mode mtime : Nat) (cb : CbMode) (tt rt : Timeout) : ∀ es, Fr (pushFiles devPath mode mtime cb tt rt es) := by
  intro es
  induction es with
  | nil => unfold pushFiles; fr
  | cons e es ih => obtain ⟨n, f⟩ := e; unfold pushFiles; fr [ih]
macro_rules | `(tactic| fr_lemma) => `(tactic| with_reducible exact Fr_pushFiles _ _ _ _ _ _ _)
theorem Fr_devPush (src : LocalRef) (devPath : Bytes) (mode mtime : Nat) (cb : CbMode) (tt rt : Timeout) : Fr (devPush src devPath mode mtime cb tt rt) := by
  unfold devPush
  fr
macro_rules | `(tactic| fr_lemma) => `(tactic| with_reducible exact Fr_devPush _ _ _ _ _ _ _)


end Adb
