import AdbProofs.Lemmas.TimeFrame
/-
  The time frame (`TF`, see TimeFrame.lean) for the AdbDevice stream layer: `_okay`, `_read_until`, `_clse`,
  `_open`, `_read_until_close`, `_streaming_command`, `_service`, `_streaming_service` and the shell-like API
  operations built on them.
-/
namespace Adb

variable {P : TP} {X : Int}

theorem TF_okay (t : Txn) (hrt : t.rt = some P.R) (htt : t.tt = some P.τ) (hX : 0 ≤ X) : TF P X (okay t) := by
  unfold okay
  tf
macro_rules | `(tactic| tf_lemma) => `(tactic| (with_reducible apply TF_okay) <;> tf_side)

theorem TF_readUntil (ex : List Cmd) (t : Txn) (hrt : t.rt = some P.R) (htt : t.tt = some P.τ) (hX : P.W ≤ X) :
    TF P X (readUntil ex t) := by
  unfold readUntil
  tf
macro_rules | `(tactic| tf_lemma) => `(tactic| (with_reducible apply TF_readUntil) <;> tf_side)

theorem TF_clse (t : Txn) (hrt : t.rt = some P.R) (htt : t.tt = some P.τ) (hX : P.W ≤ X) : TF P X (clse t) := by
  unfold clse
  tf
macro_rules | `(tactic| tf_lemma) => `(tactic| (with_reducible apply TF_clse) <;> tf_side)

/-- the first block of `_open`: allocate the local id and build the transaction, under the id lock -/
def openTxnBlock (tt rt total : Timeout) : M Txn := withLock lockLocalId do
    M.modify fun w => { w with localId := nextId w.localId }
    let w ← M.get
    let tt' ← getTT tt
    liftExcept (Txn.make (some w.localId) none tt' rt total)

theorem openStream_eq (dest : Bytes) (tt rt total : Timeout) :
    openStream dest tt rt total = (openTxnBlock tt rt total >>= fun t => do
      ioSend ⟨.OPEN, t.localId.getD 0, 0, dest ++ [0]⟩ t
      let p ← ioRead [.OKAY] t
      pure { t with remoteId := some p.arg0 }) := rfl

theorem openTxnBlock_spec {tt rt total : Timeout} {w w1 : World} {r : Except Err Txn}
    (h : openTxnBlock tt rt total w = (r, w1)) (hl : w.locks = []) :
    r = Txn.make (some (nextId w.localId)) none (if tt.isSome then tt else w.defaultTT) rt total ∧
    TQuiet0 w false w1 := by
  unfold openTxnBlock at h
  obtain ⟨w0, hb, rfl⟩ := withLock_free _ _ _ _ _ h (by simp [hl])
  simp only [bind_run, M.modify_run, M.get_run, getTT, liftExcept_run, Prod.mk.injEq] at hb
  obtain ⟨rfl, rfl⟩ := hb
  refine ⟨rfl, ?_⟩
  exact TQuiet0.of_eq rfl rfl rfl rfl (by simp [hl]) rfl rfl rfl rfl

theorem Txn.make_not_hang (l r : Option Nat) (a b c : Timeout) : Txn.make l r a b c ≠ .error .hang := by
  cases a <;> cases b <;> cases c <;> simp [Txn.make, pyMin, bind, Except.bind, pure, Except.pure]

theorem Txn.make_fields {l r l' r' : Option Nat} {a b c : Timeout} {t t' : Txn}
    (h : Txn.make l r a b c = .ok t) (h' : Txn.make l' r' a b c = .ok t') :
    t.rt = t'.rt ∧ t.tt = t'.tt ∧ t.total = c := by
  cases a <;> cases b <;> cases c <;>
    simp [Txn.make, pyMin, bind, Except.bind, pure, Except.pure] at h h' <;>
    subst h <;> subst h' <;> simp

/-- the effective timeouts of a stream operation called with `(tt, rt, total)` on a device object whose default
    transport timeout is `P.dtt` are the numbers `P.R` (read) and `P.τ` (transport): what
    `_AdbTransactionInfo.__init__` stores (see `C11_txn_values`) -/
def EffT (P : TP) (tt rt total : Timeout) : Prop :=
  ∃ t0, Txn.make none none (if tt.isSome then tt else P.dtt) rt total = .ok t0 ∧ t0.rt = some P.R ∧ t0.tt = some P.τ

theorem Fr_openTxnBlock (tt rt total : Timeout) : Fr (openTxnBlock tt rt total) := by
  unfold openTxnBlock
  fr

theorem TF_openTxnBlock (tt rt total : Timeout) (hX : 0 ≤ X) : TF P X (openTxnBlock tt rt total) := by
  intro w r w' h
  refine ⟨(Fr_openTxnBlock tt rt total).ext h, fun hp hb => ?_⟩
  obtain ⟨hr, q⟩ := openTxnBlock_spec h hp.locks
  have hh : isHang r = false := by rw [hr]; exact isHang_false_iff.2 (Txn.make_not_hang _ _ _ _ _)
  have q' : TQuiet0 w (isHang r) w' := by rw [hh]; exact q
  exact (q'.tfat (P := P) hX).2 hp hb

theorem openTxnBlock_txn {tt rt total : Timeout} (heff : EffT P tt rt total) {w w1 : World} {t : Txn}
    (hp : TPre P w) (h : openTxnBlock tt rt total w = (.ok t, w1)) :
    t.rt = some P.R ∧ t.tt = some P.τ ∧ t.total = total := by
  obtain ⟨hr, -⟩ := openTxnBlock_spec h hp.locks
  obtain ⟨t0, h0, h1, h2⟩ := heff
  rw [hp.dtt] at hr
  obtain ⟨a, b, c⟩ := Txn.make_fields hr.symm h0
  exact ⟨a.trans h1, b.trans h2, c⟩

/-- `_open`: one send (the OPEN carries the destination, so two write waits) and one wait for the OKAY -/
theorem TF_openStream (dest : Bytes) (tt rt total : Timeout) (heff : EffT P tt rt total) (hX : P.W ≤ X) :
    TF P X (openStream dest tt rt total) := by
  rw [openStream_eq]
  refine TF_bind_val (Q := fun t => t.rt = some P.R ∧ t.tt = some P.τ ∧ t.total = total) (by tf_side)
    (TF_openTxnBlock tt rt total (by tf_side)) (fun w t w1 hp h => openTxnBlock_txn heff hp h) (fun t => by fr) ?_
  intro t ⟨hrt, htt, _⟩
  tf

/-- the transaction `_open` returns carries the effective timeouts -/
theorem openStream_txn {dest : Bytes} {tt rt total : Timeout} (heff : EffT P tt rt total) {w w1 : World} {t : Txn}
    (hp : TPre P w) (h : openStream dest tt rt total w = (.ok t, w1)) :
    t.rt = some P.R ∧ t.tt = some P.τ ∧ t.total = total := by
  rw [openStream_eq] at h
  obtain ⟨t0, w0, h0, hrest⟩ := bind_ok_inv h
  obtain ⟨a, b, c⟩ := openTxnBlock_txn heff hp h0
  obtain ⟨_, w2, _, hrest⟩ := bind_ok_inv hrest
  obtain ⟨p, w3, _, hrest⟩ := bind_ok_inv hrest
  simp only [pure_run, Prod.mk.injEq, Except.ok.injEq] at hrest
  obtain ⟨rfl, _⟩ := hrest
  exact ⟨a, b, c⟩

/-- binding the rest of an operation to the transaction `_open` returned -/
theorem TF_openStream_bind {β} (dest : Bytes) (tt rt total : Timeout) (heff : EffT P tt rt total) (hX : P.W ≤ X)
    {f : Txn → M β} (hFr : ∀ t, Fr (f t))
    (hf : ∀ t, t.rt = some P.R → t.tt = some P.τ → t.total = total → TF P X (f t)) :
    TF P X (openStream dest tt rt total >>= f) :=
  TF_bind_val (Q := fun t => t.rt = some P.R ∧ t.tt = some P.τ ∧ t.total = total) (by tf_side)
    (TF_openStream dest tt rt total heff hX) (fun _ _ _ hp h => openStream_txn heff hp h) hFr
    (fun t ⟨a, b, c⟩ => hf t a b c)

macro_rules | `(tactic| tf_lemma) => `(tactic| (with_reducible apply TF_openStream) <;> tf_side)

/-! ### `_read_until_close` -/

theorem readUntil_room {ex : List Cmd} {t : Txn} {w w1 : World} {v : Cmd × Bytes} (hp : TPre P w)
    (h : readUntil ex t w = (.ok v, w1)) : w.rxTotal + 1 + v.2.length = w1.rxTotal := by
  obtain ⟨c, d⟩ := v
  obtain ⟨h1, h2⟩ := readUntil_progress h hp.locks
  unfold World.rxTotal; simp only; omega

theorem TFc_readUntilCloseLoop (t : Txn) (hrt : t.rt = some P.R) (htt : t.tt = some P.τ) (hX : P.W ≤ X) (start : Int) :
    ∀ n acc, TFc (Room n 0) P X (readUntilCloseLoop t start n acc) := by
  intro n
  induction n with
  | zero => intro acc; exact TFc_room_zero
  | succ n ih =>
    intro acc
    unfold readUntilCloseLoop
    refine TFc_bind_progress (b' := fun _ => 0) (by tf_side) (by tf) (fun w v w1 hp h => ?_) ?_
    · have := readUntil_room hp h; omega
    · intro v
      tfc [ih]

theorem TF_readUntilClose (t : Txn) (hrt : t.rt = some P.R) (htt : t.tt = some P.τ) (hX : P.W ≤ X) :
    TF P X (readUntilClose t) := by
  unfold readUntilClose
  refine TF_bind (by tf_side) (by tf) fun start => ?_
  intro w r w' h
  rw [bind_run_ok (M.get_run _)] at h
  obtain ⟨e, hc⟩ := TFc_readUntilCloseLoop t hrt htt hX start w.fuel [] w r w' h
  exact ⟨e, fun hp hb => hc (Room.of_budget e hb (by tf_side)) hp hb⟩
macro_rules | `(tactic| tf_lemma) => `(tactic| (with_reducible apply TF_readUntilClose) <;> tf_side)

/-! ### `_streaming_command`, `_service`, `_streaming_service`, and the shell-like API operations -/

theorem TF_streamingCommand (svc cmd : Bytes) (tt rt total : Timeout) (heff : EffT P tt rt total) (hX : P.W ≤ X) :
    TF P X (streamingCommand svc cmd tt rt total) := by
  unfold streamingCommand
  refine TF_openStream_bind _ tt rt total heff hX (fun t => by fr) ?_
  intro t hrt htt _
  tf
macro_rules | `(tactic| tf_lemma) => `(tactic| (with_reducible apply TF_streamingCommand) <;> tf_side)

theorem TF_service (svc cmd : Bytes) (tt rt total : Timeout) (dec : Bool) (heff : EffT P tt rt total) (hX : P.W ≤ X) :
    TF P X (service svc cmd tt rt total dec) := by
  unfold service
  tf
macro_rules | `(tactic| tf_lemma) => `(tactic| (with_reducible apply TF_service) <;> tf_side)

theorem TF_streamingService (svc cmd : Bytes) (tt rt : Timeout) (dec : Bool) (heff : EffT P tt rt none) (hX : P.W ≤ X) :
    TF P X (streamingService svc cmd tt rt dec) := by
  unfold streamingService
  tf
macro_rules | `(tactic| tf_lemma) => `(tactic| (with_reducible apply TF_streamingService) <;> tf_side)

theorem TQ_runGuard (g : String) (p : Option Bytes) : TQ (runGuard g p) := by
  intro w
  unfold runGuard
  repeat' split
  all_goals exact ⟨rfl, rfl, rfl, rfl, rfl, rfl, rfl, rfl, ⟨_, Adds.rfl' w⟩, rfl⟩
macro_rules | `(tactic| tq_lemma) => `(tactic| with_reducible exact TQ_runGuard _ _)

theorem TQ_runGuards : ∀ gs p, TQ (runGuards gs p) := by
  intro gs
  induction gs with
  | nil => intro p; unfold runGuards; tq
  | cons g gs ih => intro p; unfold runGuards; tq [ih]
macro_rules | `(tactic| tq_lemma) => `(tactic| with_reducible exact TQ_runGuards _ _)

theorem TF_devShellLike (op : String) (svc cmd : Bytes) (tt rt total : Timeout) (dec : Bool)
    (heff : EffT P tt rt total) (hX : P.W ≤ X) : TF P X (devShellLike op svc cmd tt rt total dec) := by
  unfold devShellLike
  tf
macro_rules | `(tactic| tf_lemma) => `(tactic| (with_reducible apply TF_devShellLike) <;> tf_side)

theorem TF_devRoot (tt rt total : Timeout) (heff : EffT P tt rt total) (hX : P.W ≤ X) : TF P X (devRoot tt rt total) := by
  unfold devRoot
  tf

theorem TF_devReboot (fb : Bool) (tt rt total : Timeout) (heff : EffT P tt rt total) (hX : P.W ≤ X) :
    TF P X (devReboot fb tt rt total) := by
  unfold devReboot
  tf

theorem TF_devStreamingShell (cmd : Bytes) (tt rt : Timeout) (dec : Bool) (heff : EffT P tt rt none) (hX : P.W ≤ X) :
    TF P X (devStreamingShell cmd tt rt dec) := by
  unfold devStreamingShell
  tf

end Adb
