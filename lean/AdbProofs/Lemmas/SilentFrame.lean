import AdbProofs.Lemmas.TimeFrameApi
/-
  The SILENCE frame (C11, outcomes): what the operations do when the device will never send anything any more.
  `World.Mute`: nothing is left to arrive on the open connection; `Silent`: mute, connected, nothing parked, no
  lock held.  Under silence every wait of `_AdbIOManager.read` / `_read_expected_packet_from_device` fails with a
  timeout kind and never returns a packet; `SF d mustFail x` propagates this through the operations: the silence
  persists, exceptions are in `opErrs`, and computations that have to wait cannot return normally.
-/
namespace Adb

/-- errors of a wait that meets silence (plus `hang`, excluded separately by the time frame) -/
def silentErrs : List Err := [.adbTimeout, .transportTimeout, .transportError, .hang]

theorem waitTimeout_errs {α : Type} (tt : Timeout) (w : World) (r : Except Err α) (w' : World)
    (h : (waitTimeout tt : M α) w = (r, w')) : ∃ e, r = .error e ∧ e ∈ silentErrs := by
  unfold waitTimeout at h
  split at h <;> (simp only [Prod.mk.injEq] at h; obtain ⟨rfl, rfl⟩ := h; simp [silentErrs])

theorem bulkRead_errs (n : Nat) (tt : Timeout) (w : World) (e : Err) (w' : World)
    (h : bulkRead n tt w = (.error e, w')) : e ∈ silentErrs := by
  unfold bulkRead at h
  split at h
  · simp only [Prod.mk.injEq, Except.error.injEq] at h; obtain ⟨rfl, -⟩ := h; simp [silentErrs]
  · next c hcur =>
    split at h
    · simp only [Prod.mk.injEq, Except.error.injEq] at h; obtain ⟨rfl, -⟩ := h; simp [silentErrs]
    split at h
    · simp at h
    split at h
    · split at h
      · obtain ⟨e', he, hm⟩ := waitTimeout_errs _ _ _ _ h
        cases he; exact hm
      · simp only [Prod.mk.injEq, Except.error.injEq] at h; obtain ⟨rfl, -⟩ := h; simp [silentErrs]
      · simp at h
    · cases hfl : c.fragLeft <;> cases hfr : c.frags <;> simp only [hfl, hfr] at h <;>
      ( split at h
        · simp at h
        split at h
        · obtain ⟨e', he, hm⟩ := waitTimeout_errs _ _ _ _ h
          cases he; exact hm
        · simp at h )

theorem bulkWrite_errs (d : Bytes) (tt : Timeout) (w : World) (e : Err) (w' : World)
    (h : bulkWrite d tt w = (.error e, w')) : e ∈ silentErrs := by
  unfold bulkWrite at h
  split at h
  · simp only [Prod.mk.injEq, Except.error.injEq] at h; obtain ⟨rfl, -⟩ := h; simp [silentErrs]
  · next c hcur =>
    split at h
    · simp only [Prod.mk.injEq, Except.error.injEq] at h; obtain ⟨rfl, -⟩ := h; simp [silentErrs]
    split at h
    · split at h
      · obtain ⟨e', he, hm⟩ := waitTimeout_errs _ _ _ _ h
        cases he; exact hm
      · simp only [Prod.mk.injEq, Except.error.injEq] at h; obtain ⟨rfl, -⟩ := h; simp [silentErrs]
    · split at h
      · simp at h
      · cases hfl : c.ofragLeft <;> cases hfr : c.ofrags <;> simp only [hfl, hfr] at h <;> simp at h

theorem elapsedGt_some_run (start R : Int) (w : World) :
    elapsedGt start (some R) w = (.ok (decide (w.now - start > R)), w) := rfl

/-- errors of the byte-level wait loops, without any hypothesis but a numeric read timeout -/
theorem readBytesLoop_errs (t : Txn) (start R : Int) (hrt : t.rt = some R) : ∀ (fuel rem : Nat) (acc : Bytes) (w : World)
    (e : Err) (w' : World), readBytesLoop t start fuel rem acc w = (.error e, w') → e ∈ silentErrs := by
  intro fuel
  induction fuel with
  | zero => intro rem acc w e w' h; simp only [readBytesLoop, M.throw_run, Prod.mk.injEq, Except.error.injEq] at h
            obtain ⟨rfl, -⟩ := h; simp [silentErrs]
  | succ n ih =>
    intro rem acc w e w' h
    rw [readBytesLoop] at h
    split at h
    · simp at h
    · rcases bind_err_inv h with he | ⟨_, w0, _, hrest⟩
      · simp at he
      rcases bind_err_inv hrest with he | ⟨bs, w1, _, hrest⟩
      · exact bulkRead_errs _ _ _ _ _ he
      simp only at hrest
      split at hrest
      · simp at hrest
      · rw [hrt] at hrest
        rcases bind_err_inv hrest with he | ⟨b, w2, hb, hrest⟩
        · simp [elapsedGt_some_run] at he
        split at hrest
        · simp only [bind_run, M.throw_run, Prod.mk.injEq, Except.error.injEq] at hrest; obtain ⟨rfl, -⟩ := hrest; simp [silentErrs]
        · exact ih _ _ _ _ _ hrest

theorem writeAllLoop_errs (t : Txn) (start R : Int) (hrt : t.rt = some R) : ∀ (fuel : Nat) (data : Bytes) (w : World)
    (e : Err) (w' : World), writeAllLoop t start fuel data w = (.error e, w') → e ∈ silentErrs := by
  intro fuel
  induction fuel with
  | zero => intro data w e w' h; simp only [writeAllLoop, M.throw_run, Prod.mk.injEq, Except.error.injEq] at h
            obtain ⟨rfl, -⟩ := h; simp [silentErrs]
  | succ n ih =>
    intro data w e w' h
    rw [writeAllLoop] at h
    rcases bind_err_inv h with he | ⟨nw, w1, _, hrest⟩
    · exact bulkWrite_errs _ _ _ _ _ he
    cases nw with
    | none => simp at hrest
    | some k =>
      simp only at hrest
      split at hrest
      · simp at hrest
      · rw [hrt] at hrest
        rcases bind_err_inv hrest with he | ⟨b, w2, hb, hrest⟩
        · simp [elapsedGt_some_run] at he
        split at hrest
        · simp only [bind_run, M.throw_run, Prod.mk.injEq, Except.error.injEq] at hrest; obtain ⟨rfl, -⟩ := hrest; simp [silentErrs]
        · exact ih _ _ _ _ hrest

/-- the device will never send anything any more on the open connection -/
def World.Mute (w : World) : Prop := w.inboundRest = []

/-- total silence for a connected, idle device object: nothing will arrive, nothing is parked, no lock is held -/
structure Silent (w : World) : Prop where
  mute : w.Mute
  store : w.store = []
  locks : w.locks = []
  avail : w.available = true

theorem readBytes_silent {n : Nat} {t : Txn} {R : Int} (hrt : t.rt = some R) (hn : n ≠ 0) {w w' : World}
    {r : Except Err Bytes} (h : readBytes n t w = (r, w')) (hm : w.Mute) :
    w'.Mute ∧ SameDevice w w' ∧ ∃ e, r = .error e ∧ e ∈ silentErrs := by
  obtain ⟨sd, -, -, got, hlen, hsplit, hok⟩ := readBytes_spec n t w r w' h
  unfold World.Mute at hm ⊢
  rw [hm] at hsplit
  have hg : got = [] ∧ w'.inboundRest = [] := by
    have := congrArg List.length hsplit
    simp only [List.length_nil, List.length_append] at this
    exact ⟨List.eq_nil_of_length_eq_zero (by omega), List.eq_nil_of_length_eq_zero (by omega)⟩
  refine ⟨hg.2, sd, ?_⟩
  cases r with
  | ok bs =>
    obtain ⟨-, hl⟩ := hok bs rfl
    rw [hg.1] at hl
    simp at hl; omega
  | error e =>
    refine ⟨e, rfl, ?_⟩
    simp only [readBytes, bind_run, now_run, M.get_run] at h
    exact readBytesLoop_errs t _ R hrt _ _ _ _ _ _ h

theorem readPacket_silent {t : Txn} {R : Int} (hrt : t.rt = some R) {w w' : World}
    {r : Except Err Pkt} (h : readPacket t w = (r, w')) (hm : w.Mute) :
    w'.Mute ∧ SameDevice w w' ∧ ∃ e, r = .error e ∧ e ∈ silentErrs := by
  rw [readPacket] at h
  rcases bind_any_inv h with ⟨e, he, rfl⟩ | ⟨msg, w1, hok, -⟩
  · obtain ⟨a, b, e', he', hm'⟩ := readBytes_silent hrt (by decide) he hm
    cases he'
    exact ⟨a, b, e, rfl, hm'⟩
  · obtain ⟨-, -, e', he', -⟩ := readBytes_silent hrt (by decide) hok hm
    cases he'

theorem expectLoop_silent (ex : List Cmd) (t : Txn) {R : Int} (hrt : t.rt = some R) (start : Int) :
    ∀ (fuel : Nat) {w w' : World} {r : Except Err Pkt}, expectLoop ex t start fuel w = (r, w') → w.Mute →
    w'.Mute ∧ SameDevice w w' ∧ ∃ e, r = .error e ∧ e ∈ silentErrs := by
  intro fuel
  cases fuel with
  | zero =>
    intro w w' r h hm
    simp only [expectLoop, M.throw_run, Prod.mk.injEq] at h
    obtain ⟨rfl, rfl⟩ := h
    exact ⟨hm, SameDevice.refl _, _, rfl, by simp [silentErrs]⟩
  | succ n =>
    intro w w' r h hm
    rw [expectLoop] at h
    rcases bind_any_inv h with ⟨e, he, rfl⟩ | ⟨p, w1, hok, -⟩
    · obtain ⟨a, b, e', he', hm'⟩ := readPacket_silent hrt he hm
      cases he'
      exact ⟨a, b, e, rfl, hm'⟩
    · obtain ⟨-, -, e', he', -⟩ := readPacket_silent hrt hok hm
      cases he'

/-- `_read_expected_packet_from_device` on a mute connection: never returns, fails with a timeout kind -/
theorem expectPacket_silent {ex : List Cmd} {t : Txn} {R : Int} (hrt : t.rt = some R) {w w' : World}
    {r : Except Err Pkt} (h : expectPacket ex t w = (r, w')) (hm : w.Mute) :
    w'.Mute ∧ SameDevice w w' ∧ ∃ e, r = .error e ∧ e ∈ silentErrs := by
  simp only [expectPacket, bind_run, now_run, M.get_run] at h
  exact expectLoop_silent ex t hrt _ _ h hm

theorem SameDevice.silent {w w' : World} (sd : SameDevice w w') (hm : w'.Mute) (hs : Silent w) : Silent w' :=
  ⟨hm, by rw [sd.1, hs.store], by rw [sd.2.2.2.2.2.2.1, hs.locks], by rw [sd.2.1, hs.avail]⟩

theorem storeFind_nil (t : Txn) (az : Bool) (w : World) (hs : w.store = []) : storeFind t az w = (.ok none, w) := by
  unfold storeFind
  rw [hs]
  cases az <;> simp [Store.find, Store.findAllowZeros]

theorem lockedDrain_silent {ex : List Cmd} {t : Txn} {az : Bool} {fuel : Nat} {w w' : World}
    {r : Except Err (Option Pkt)} (h : withLock lockStore (drainLoop ex t az fuel) w = (r, w'))
    (hs : w.store = []) (hl : lockStore ∉ w.locks) :
    w' = w ∧ (r = .ok none ∨ r = .error .hang) := by
  obtain ⟨w1, hb, rfl⟩ := withLock_free _ _ _ _ _ h hl
  cases fuel with
  | zero =>
    simp only [drainLoop, M.throw_run, Prod.mk.injEq] at hb
    obtain ⟨rfl, rfl⟩ := hb
    refine ⟨?_, Or.inr rfl⟩
    simp
  | succ n =>
    rw [drainLoop, bind_run, storeFind_nil t az _ (by exact hs)] at hb
    simp only [pure_run, Prod.mk.injEq] at hb
    obtain ⟨rfl, rfl⟩ := hb
    refine ⟨?_, Or.inl rfl⟩
    simp

theorem readIter_silent {ex : List Cmd} {t : Txn} {az : Bool} {R : Int} (hrt : t.rt = some R) {w w' : World}
    {r : Except Err (Option Pkt)} (h : readIter ex t az w = (r, w')) (hs : Silent w) :
    Silent w' ∧ ∃ e, r = .error e ∧ e ∈ silentErrs := by
  rw [readIter_eq_body] at h
  obtain ⟨w1, hb, rfl⟩ := withLock_free _ _ _ _ _ h (by simp [hs.locks])
  rw [readIterBody, bind_run_ok (M.get_run _)] at hb
  simp only at hb
  rcases bind_any_inv hb with ⟨e, he, rfl⟩ | ⟨o, w2, hd, hrest⟩
  · obtain ⟨rfl, hor⟩ := lockedDrain_silent he hs.store (by simp [hs.locks, lockStore, lockTransport])
    rcases hor with h0 | h0
    · simp at h0
    · simp only [Except.error.injEq] at h0
      subst h0
      exact ⟨⟨hs.mute, hs.store, by simp [hs.locks], hs.avail⟩, _, rfl, by simp [silentErrs]⟩
  · obtain ⟨rfl, hor⟩ := lockedDrain_silent hd hs.store (by simp [hs.locks, lockStore, lockTransport])
    rcases hor with h0 | h0
    · simp only [Except.ok.injEq] at h0
      subst h0
      simp only at hrest
      rcases bind_any_inv hrest with ⟨e, he, rfl⟩ | ⟨p, w3, hok, -⟩
      · obtain ⟨a, sd, e', he', hm'⟩ := readPacket_silent hrt he hs.mute
        cases he'
        refine ⟨⟨a, by simp only; rw [sd.1]; exact hs.store, ?_, by simp only; rw [sd.2.1]; exact hs.avail⟩, e, rfl, hm'⟩
        simp only; rw [sd.2.2.2.2.2.2.1]; simp [hs.locks]
      · obtain ⟨-, -, e', he', -⟩ := readPacket_silent hrt hok hs.mute
        cases he'
    · simp at h0

theorem readLoop_silent (ex : List Cmd) (t : Txn) (az : Bool) {R : Int} (hrt : t.rt = some R) (start : Int) :
    ∀ (fuel : Nat) {w w' : World} {r : Except Err Pkt}, readLoop ex t az start fuel w = (r, w') → Silent w →
    Silent w' ∧ ∃ e, r = .error e ∧ e ∈ silentErrs := by
  intro fuel
  cases fuel with
  | zero =>
    intro w w' r h hs
    simp only [readLoop, M.throw_run, Prod.mk.injEq] at h
    obtain ⟨rfl, rfl⟩ := h
    exact ⟨hs, _, rfl, by simp [silentErrs]⟩
  | succ n =>
    intro w w' r h hs
    rw [readLoop] at h
    rcases bind_any_inv h with ⟨e, he, rfl⟩ | ⟨o, w1, hok, -⟩
    · obtain ⟨a, e', he', hm'⟩ := readIter_silent hrt he hs
      cases he'
      exact ⟨a, e, rfl, hm'⟩
    · obtain ⟨-, e', he', -⟩ := readIter_silent hrt hok hs
      cases he'

/-- `_AdbIOManager.read` under total silence: it never returns a packet; it fails with AdbTimeoutError, the
    transport's timeout error or a transport error (or the model's `hang`), and the silence persists -/
theorem ioRead_silent {ex : List Cmd} {t : Txn} {az : Bool} {R : Int} (hrt : t.rt = some R) {w w' : World}
    {r : Except Err Pkt} (h : ioRead ex t az w = (r, w')) (hs : Silent w) :
    Silent w' ∧ ∃ e, r = .error e ∧ e ∈ silentErrs := by
  rw [ioRead, bind_run_ok (M.get_run _)] at h
  rcases bind_any_inv h with ⟨e, he, rfl⟩ | ⟨o, w2, hd, hrest⟩
  · obtain ⟨rfl, hor⟩ := lockedDrain_silent he hs.store (by simp [hs.locks])
    rcases hor with h0 | h0
    · simp at h0
    · simp only [Except.error.injEq] at h0
      subst h0
      exact ⟨hs, _, rfl, by simp [silentErrs]⟩
  · obtain ⟨rfl, hor⟩ := lockedDrain_silent hd hs.store (by simp [hs.locks])
    rcases hor with h0 | h0
    · simp only [Except.ok.injEq] at h0
      subst h0
      simp only at hrest
      rw [bind_run_ok (now_run _)] at hrest
      exact readLoop_silent ex t az hrt _ _ hrest hs
    · simp at h0

/-- `_send` / `send` on a silent world: the silence persists; failures are timeout kinds or `struct.error` -/
theorem sendRaw_silent {m : Msg} {t : Txn} {R : Int} (hrt : t.rt = some R) {w w' : World} {r : Except Err Unit}
    (h : sendRaw m t w = (r, w')) :
    (w.Mute → w'.Mute) ∧ SameDevice w w' ∧ ∀ e, r = .error e → e ∈ Err.pyStructError :: silentErrs := by
  obtain ⟨sd, hin, -⟩ := sendRaw_spec m t w r w' h
  refine ⟨fun hm => by unfold World.Mute at hm ⊢; rw [hin, hm], sd, ?_⟩
  intro e he
  subst he
  simp only [sendRaw, bind_run, emit_run] at h
  cases hp : m.pack? with
  | none =>
    simp only [hp, M.throw_run, Prod.mk.injEq, Except.error.injEq] at h
    obtain ⟨rfl, -⟩ := h
    simp
  | some hdr =>
    simp only [hp] at h
    have key : ∀ d w0 e0 w1, writeAll d t w0 = (.error e0, w1) → e0 ∈ silentErrs := by
      intro d w0 e0 w1 hw
      simp only [writeAll, bind_run, now_run, M.get_run] at hw
      exact writeAllLoop_errs t _ R hrt _ _ _ _ _ hw
    rcases bind_err_inv h with he | ⟨_, w1, _, hrest⟩
    · exact List.mem_cons_of_mem _ (key _ _ _ _ he)
    · split at hrest
      · exact List.mem_cons_of_mem _ (key _ _ _ _ hrest)
      · simp at hrest

theorem ioSend_silent {m : Msg} {t : Txn} {R : Int} (hrt : t.rt = some R) {w w' : World} {r : Except Err Unit}
    (h : ioSend m t w = (r, w')) (hs : Silent w) :
    Silent w' ∧ ∀ e, r = .error e → e ∈ Err.pyStructError :: silentErrs := by
  obtain ⟨w1, hb, rfl⟩ := withLock_free _ _ _ _ _ h (by simp [hs.locks])
  obtain ⟨hm, sd, he⟩ := sendRaw_silent hrt hb
  refine ⟨⟨hm hs.mute, by simp only; rw [sd.1]; exact hs.store, ?_, by simp only; rw [sd.2.1]; exact hs.avail⟩, he⟩
  simp only; rw [sd.2.2.2.2.2.2.1]; simp [hs.locks]

/-! ### the silence frame -/

/-- what an operation can raise when it meets total silence: the timeout kinds (and the model's `hang`, excluded
    by the time frame), or an exception raised before any wait: `struct.error` for an unpackable message (a
    destination of 4 GiB or more), a missing local file (`push`) -/
def opErrs : List Err :=
  [.pyStructError, .adbTimeout, .transportTimeout, .transportError, .hang, .localFileError]

theorem silentErrs_sub_opErrs {e : Err} (h : e ∈ Err.pyStructError :: silentErrs) : e ∈ opErrs := by
  simp only [silentErrs, List.mem_cons, List.not_mem_nil, or_false] at h
  rcases h with rfl | rfl | rfl | rfl | rfl <;> simp [opErrs]

/-- under total silence (and with the default transport timeout `d`): the silence persists, every exception is in
    `opErrs`, and — when `mustFail` — the computation cannot return normally -/
def SF {α : Type} (d : Timeout) (mustFail : Bool) (x : M α) : Prop :=
  ∀ w r w', x w = (r, w') → Silent w → w.defaultTT = d →
    Silent w' ∧ w'.defaultTT = d ∧ (∀ e, r = .error e → e ∈ opErrs) ∧ (mustFail = true → okB r = false)

theorem SF.weaken {α} {d : Timeout} {x : M α} (h : SF d true x) : SF d false x :=
  fun w r w' hx hs hd => by
    obtain ⟨a, b, c, -⟩ := h w r w' hx hs hd
    exact ⟨a, b, c, by simp⟩

theorem SF_bind_fail {α β} {d : Timeout} {x : M α} {f : α → M β} (hx : SF d true x) : SF d true (x >>= f) := by
  intro w r w' h hs hd
  rcases bind_any_inv h with ⟨e, he, rfl⟩ | ⟨a, w1, hxa, -⟩
  · obtain ⟨a, b, c, -⟩ := hx w _ w' he hs hd
    exact ⟨a, b, fun e' he' => c e' (by simpa using he'), fun _ => rfl⟩
  · obtain ⟨-, -, -, c⟩ := hx w _ w1 hxa hs hd
    simp at c

theorem SF_bind {α β} {d : Timeout} {b : Bool} {x : M α} {f : α → M β} (hx : SF d false x) (hf : ∀ a, SF d b (f a)) :
    SF d b (x >>= f) := by
  intro w r w' h hs hd
  rcases bind_any_inv h with ⟨e, he, rfl⟩ | ⟨a, w1, hxa, hfa⟩
  · obtain ⟨a, b', c, -⟩ := hx w _ w' he hs hd
    exact ⟨a, b', fun e' he' => c e' (by simpa using he'), fun _ => rfl⟩
  · obtain ⟨a1, b1, -, -⟩ := hx w _ w1 hxa hs hd
    exact hf a w1 r w' hfa a1 b1

theorem SF_ite {α} {d : Timeout} {b : Bool} {c : Prop} [Decidable c] {x y : M α} (hx : SF d b x) (hy : SF d b y) :
    SF d b (if c then x else y) := by
  split <;> assumption

/-- a quiet computation whose exceptions are in `opErrs` -/
theorem SF_of_TQ {α} {d : Timeout} {x : M α} (hq : TQ x) (he : ∀ w e w', x w = (.error e, w') → e ∈ opErrs) : SF d false x := by
  intro w r w' h hs hd
  have q := hq.at h
  refine ⟨⟨?_, by rw [q.store, hs.store], by rw [q.locks, hs.locks], by rw [q.avail, hs.avail]⟩, by rw [q.dtt, hd], ?_, by simp⟩
  · have := hs.mute
    unfold World.Mute World.inboundRest at this ⊢
    rw [q.cur]; exact this
  · intro e hr; subst hr; exact he w e w' h

theorem SF_ioSend {d : Timeout} (m : Msg) (t : Txn) {R : Int} (hrt : t.rt = some R) : SF d false (ioSend m t) := by
  intro w r w' h hs hd
  obtain ⟨a, b⟩ := ioSend_silent hrt h hs
  have hdt : w'.defaultTT = w.defaultTT := by have := (Fr_ioSend m t w).defaultTT; rw [h] at this; exact this
  exact ⟨a, by rw [hdt, hd], fun e he => silentErrs_sub_opErrs (b e he), by simp⟩

theorem SF_ioRead {d : Timeout} (ex : List Cmd) (t : Txn) (az : Bool) {R : Int} (hrt : t.rt = some R) :
    SF d true (ioRead ex t az) := by
  intro w r w' h hs hd
  obtain ⟨a, e, rfl, he⟩ := ioRead_silent hrt h hs
  have hdt : w'.defaultTT = w.defaultTT := by have := (Fr_ioRead ex t az w).defaultTT; rw [h] at this; exact this
  refine ⟨a, by rw [hdt, hd], ?_, fun _ => rfl⟩
  intro e' he'
  simp only [Except.error.injEq] at he'
  subst he'
  exact silentErrs_sub_opErrs (List.mem_cons_of_mem _ he)

theorem Txn.make_err_ids {l r l' r' : Option Nat} {a b c : Timeout} {e : Err} (h : Txn.make l r a b c = .error e) :
    ∀ t, Txn.make l' r' a b c ≠ .ok t := by
  cases a <;> cases b <;> cases c <;>
    simp [Txn.make, pyMin, bind, Except.bind, pure, Except.pure] at h ⊢

/-- `_open` under total silence: the OPEN is sent, the wait for its OKAY fails with a timeout kind -/
theorem SF_openStream {P : TP} (dest : Bytes) (tt rt total : Timeout) (heff : EffT P tt rt total) :
    SF P.dtt true (openStream dest tt rt total) := by
  rw [openStream_eq]
  intro w r w' h hs hd
  rcases bind_any_inv h with ⟨e, he, rfl⟩ | ⟨t, w1, ht, hrest⟩
  · obtain ⟨hr, -⟩ := openTxnBlock_spec he hs.locks
    obtain ⟨t0, h0, -, -⟩ := heff
    rw [hd] at hr
    exact absurd h0 (Txn.make_err_ids hr.symm t0)
  · obtain ⟨hr, q⟩ := openTxnBlock_spec ht hs.locks
    obtain ⟨t0, h0, h1, h2⟩ := heff
    rw [hd] at hr
    obtain ⟨hrt, -, -⟩ := Txn.make_fields hr.symm h0
    have hm : w1.Mute := by
      have := hs.mute
      unfold World.Mute World.inboundRest at this ⊢
      rw [q.cur]; exact this
    have hs1 : Silent w1 := ⟨hm, by rw [q.store, hs.store], by rw [q.locks, hs.locks], by rw [q.avail, hs.avail]⟩
    have hrt' : t.rt = some P.R := hrt.trans h1
    exact SF_bind (SF_ioSend _ t hrt') (fun _ => SF_bind_fail (SF_ioRead _ t _ hrt')) w1 r w' hrest hs1 (by rw [q.dtt, hd])

theorem runGuards_ok : ∀ (gs : List String) {p : Option Bytes} {w : World}, w.available = true → p ≠ some [] →
    runGuards gs p w = (.ok (), w) := by
  intro gs
  induction gs with
  | nil => intro p w _ _; rfl
  | cons g gs ih =>
    intro p w ha hp
    unfold runGuards
    have h1 : runGuard g p w = (.ok (), w) := by
      unfold runGuard
      split
      · rfl
      · split
        · rfl
        · rfl
    rw [bind_run_ok h1]
    exact ih ha hp

theorem SF_runGuards {d : Timeout} (gs : List String) (p : Option Bytes) (hp : p ≠ some []) : SF d false (runGuards gs p) := by
  intro w r w' h hs hd
  rw [runGuards_ok gs hs.avail hp] at h
  simp only [Prod.mk.injEq] at h
  obtain ⟨rfl, rfl⟩ := h
  exact ⟨hs, hd, by simp, by simp⟩

theorem SF_streamingCommand {P : TP} (svc cmd : Bytes) (tt rt total : Timeout) (heff : EffT P tt rt total) :
    SF P.dtt true (streamingCommand svc cmd tt rt total) := by
  unfold streamingCommand
  exact SF_bind_fail (SF_openStream _ tt rt total heff)

theorem SF_devShellLike {P : TP} (op : String) (svc cmd : Bytes) (tt rt total : Timeout) (dec : Bool)
    (heff : EffT P tt rt total) : SF P.dtt true (devShellLike op svc cmd tt rt total dec) := by
  unfold devShellLike service
  exact SF_bind (SF_runGuards _ _ (by simp)) fun _ => SF_bind_fail (SF_streamingCommand svc cmd tt rt total heff)

theorem SF_quiet_unit {d : Timeout} {x : M Unit} (hq : TQ x) (he : ∀ w e w', x w ≠ (.error e, w')) : SF d false x :=
  SF_of_TQ hq fun w e w' h => absurd h (he w e w')

/-- every stream operation started under total silence fails: the silence persists and the exception is a
    timeout kind or one raised before any wait -/
theorem ApiOp.silent {P : TP} (op : ApiOp) (hop : op.isStreamOp = true) (heff : op.Eff P)
    (hpath : op.devicePath ≠ some []) : SF P.dtt true op.run := by
  cases op with
  | connect => simp [ApiOp.isStreamOp] at hop
  | close => simp [ApiOp.isStreamOp] at hop
  | shell cmd tt rt total dec => exact SF_devShellLike _ _ cmd tt rt total dec heff
  | execOut cmd tt rt total dec => exact SF_devShellLike _ _ cmd tt rt total dec heff
  | root tt rt total =>
    show SF P.dtt true (devRoot tt rt total)
    unfold devRoot service
    exact SF_bind (SF_runGuards _ _ (by simp)) fun _ => SF_bind_fail (SF_bind_fail (SF_streamingCommand _ _ tt rt total heff))
  | reboot fb tt rt total =>
    show SF P.dtt true (devReboot fb tt rt total)
    unfold devReboot
    exact SF_bind (SF_runGuards _ _ (by simp)) fun _ => SF_bind_fail (SF_openStream _ tt rt total heff)
  | streamingShell cmd tt rt dec =>
    show SF P.dtt true (devStreamingShell cmd tt rt dec)
    unfold devStreamingShell streamingService
    exact SF_bind (SF_runGuards _ _ (by simp)) fun _ => SF_bind_fail (SF_streamingCommand _ _ tt rt none heff)
  | list p tt rt =>
    show SF P.dtt true (devList p tt rt)
    unfold devList
    exact SF_bind (SF_runGuards _ _ hpath) fun _ => SF_bind_fail (SF_openStream _ tt rt none heff)
  | stat p tt rt =>
    show SF P.dtt true (devStat p tt rt)
    unfold devStat
    exact SF_bind (SF_runGuards _ _ hpath) fun _ => SF_bind_fail (SF_openStream _ tt rt none heff)
  | pull p cb tt rt =>
    show SF P.dtt true (devPull p cb tt rt)
    unfold devPull
    refine SF_bind (SF_runGuards _ _ hpath) fun _ => SF_bind (SF_of_TQ (by tq) fun w e w' h => ?_) fun _ =>
      SF_bind_fail (SF_openStream _ tt rt none heff)
    simp at h
  | push src p mode mtime cb tt rt =>
    show SF P.dtt true (devPush src p mode mtime cb tt rt)
    have hfile : ∀ fid path, SF P.dtt true (pushFile fid path mode mtime cb tt rt) := by
      intro fid path
      unfold pushFile
      refine SF_bind (SF_of_TQ (TQ_lookupFile fid) fun w e w' h => ?_) fun _ =>
        SF_bind_fail (SF_openStream _ tt rt none heff.1)
      unfold lookupFile at h
      split at h
      · simp at h
      · simp only [Prod.mk.injEq, Except.error.injEq] at h; obtain ⟨rfl, -⟩ := h; simp [opErrs]
    unfold devPush
    refine SF_bind (SF_runGuards _ _ hpath) fun _ => ?_
    cases src with
    | bytesio id => exact SF_bind_fail (hfile id p)
    | file id => exact SF_bind_fail (hfile id p)
    | dir id =>
      refine SF_bind (SF_of_TQ TQ_get fun w e w' h => by simp at h) fun wg => ?_
      split
      · intro w r w' h hs hd
        simp only [M.throw_run, Prod.mk.injEq] at h
        obtain ⟨rfl, rfl⟩ := h
        exact ⟨hs, hd, fun e he => by simp only [Except.error.injEq] at he; subst he; simp [opErrs], fun _ => rfl⟩
      · exact SF_bind_fail (SF_devShellLike _ _ _ tt rt none true heff.1)

/-! ### waits that begin in silence in the middle of an operation -/

theorem SF_readUntil {d : Timeout} (ex : List Cmd) (t : Txn) {R : Int} (hrt : t.rt = some R) : SF d true (readUntil ex t) := by
  unfold readUntil
  exact SF_bind_fail (SF_ioRead ex t true hrt)

theorem SF_clse {d : Timeout} (t : Txn) {R : Int} (hrt : t.rt = some R) : SF d true (clse t) := by
  unfold clse
  exact SF_bind (SF_ioSend _ t hrt) fun _ => SF_bind_fail (SF_readUntil _ t hrt)

theorem SF_throw_hang {α} {d : Timeout} : SF d true (M.throw .hang : M α) := by
  intro w r w' h hs hd
  simp only [M.throw_run, Prod.mk.injEq] at h
  obtain ⟨rfl, rfl⟩ := h
  exact ⟨hs, hd, fun e he => by simp only [Except.error.injEq] at he; subst he; simp [opErrs], fun _ => rfl⟩

theorem SF_readUntilClose {d : Timeout} (t : Txn) {R : Int} (hrt : t.rt = some R) : SF d true (readUntilClose t) := by
  unfold readUntilClose
  refine SF_bind (SF_of_TQ TQ_now fun w e w' h => by simp at h) fun start =>
    SF_bind (SF_of_TQ TQ_get fun w e w' h => by simp at h) fun wg => ?_
  cases wg.fuel with
  | zero => unfold readUntilCloseLoop; exact SF_throw_hang
  | succ n => unfold readUntilCloseLoop; exact SF_bind_fail (SF_readUntil _ t hrt)

theorem SF_fsFlush {d : Timeout} (t : Txn) (fi : FsInfo) {R : Int} (hrt : t.rt = some R) : SF d true (fsFlush t fi) := by
  unfold fsFlush
  refine SF_bind (SF_ioSend _ t hrt) fun _ => SF_bind (SF_of_TQ TQ_get fun w e w' h => by simp at h) fun wg => ?_
  cases wg.fuel with
  | zero => unfold fsFlushLoop; exact SF_throw_hang
  | succ n => unfold fsFlushLoop; exact SF_bind_fail (SF_readUntil _ t hrt)

/-- `pull`'s clean-up discipline under silence: whatever the body did, the close handshake fails too, and an
    exception is reported — the body's if it raised, the close handshake's otherwise -/
theorem SF_tryFinally {α} {d : Timeout} {b : Bool} {x : M α} {fin : M Unit} (hx : SF d b x) (hf : SF d true fin) :
    SF d true (M.tryFinally x fin) := by
  intro w r w' h hs hd
  unfold M.tryFinally at h
  rcases hxw : x w with ⟨rx, w1⟩
  obtain ⟨a1, b1, c1, -⟩ := hx w rx w1 hxw hs hd
  rcases hfw : fin w1 with ⟨rf, w2⟩
  obtain ⟨a2, b2, c2, d2⟩ := hf w1 rf w2 hfw a1 b1
  rw [hxw] at h
  cases rx with
  | ok v =>
    simp only [hfw] at h
    cases rf with
    | ok u => simp at d2
    | error e =>
      simp only [Prod.mk.injEq] at h; obtain ⟨rfl, rfl⟩ := h
      exact ⟨a2, b2, fun e' he' => c2 e' (by simpa using he'), fun _ => rfl⟩
  | error e =>
    simp only [hfw] at h
    cases rf with
    | ok u => simp at d2
    | error e2 =>
      simp only [Prod.mk.injEq] at h; obtain ⟨rfl, rfl⟩ := h
      exact ⟨a2, b2, fun e' he' => c1 e' (by simpa using he'), fun _ => rfl⟩

/-! ### `connect` to a device that never answers -/

theorem connHandshake_silent {banner : Bytes} {keys : List Nat} {authT : Timeout} {hasCb : Bool} {t : Txn} {R : Int}
    (hrt : t.rt = some R) {w w' : World} {r : Except Err Nat}
    (h : connHandshake banner keys authT hasCb t w = (r, w')) (hm : w.Mute) :
    ∃ e, r = .error e ∧ e ∈ Err.pyStructError :: silentErrs := by
  unfold connHandshake at h
  rcases bind_any_inv h with ⟨e, he, rfl⟩ | ⟨_, w1, hs, hrest⟩
  · exact ⟨e, rfl, (sendRaw_silent hrt he).2.2 e rfl⟩
  · have hm1 := (sendRaw_silent hrt hs).1 hm
    rcases bind_any_inv hrest with ⟨e, he, rfl⟩ | ⟨p, w2, hok, -⟩
    · obtain ⟨-, -, e', he', hmem⟩ := expectPacket_silent hrt he hm1
      cases he'
      exact ⟨e, rfl, List.mem_cons_of_mem _ hmem⟩
    · obtain ⟨-, -, e', he', -⟩ := expectPacket_silent hrt hok hm1
      cases he'

/-- `connect` when the next connection never sends anything: it fails with a timeout kind (or the transport error
    of a refused connection, or `struct.error` for an unpackable banner), never with a fabricated success -/
theorem devConnect_silent {P : TP} {keys : List Nat} {tt authT rt : Timeout} {hasCb : Bool}
    (heff : ConnEff P tt authT rt) {w w' : World} {r : Except Err Val}
    (h : devConnect keys tt authT rt hasCb w = (r, w')) (hl : w.locks = []) (hd : w.defaultTT = P.dtt)
    (hmute : ∀ c, w.conns.head? = some c → c.inboundRest = []) :
    ∃ e, r = .error e ∧ e ∈ Err.pyStructError :: silentErrs := by
  obtain ⟨t0, τ0, A, hmk, hrt, htt, h0, hle, rfl, hA, hAle⟩ := heff
  have hmk' : Txn.make none none (if tt.isSome then tt else w.defaultTT) rt none = .ok t0 := by rw [hd]; exact hmk
  unfold devConnect at h
  simp only [getTT, bind_run, liftExcept_run, hmk', M.modify_run, M.get_run] at h
  rcases hio : ioConnect w.banner keys (some A) hasCb t0 { w with available := false } with ⟨r1, w1⟩
  simp only [hio] at h
  have key : ∃ e, r1 = .error e ∧ e ∈ Err.pyStructError :: silentErrs := by
    rw [ioConnect_eq_handshake] at hio
    obtain ⟨w2, hb, -⟩ := withLock_free _ _ _ _ _ hio (by simp [hl])
    rcases bind_any_inv hb with ⟨e, he, rfl⟩ | ⟨_, wa, hca, hrest⟩
    · have := (tClose_still he).1; simp at this
    obtain ⟨-, s1, hcur1, hcn1⟩ := tClose_still hca
    have hls : lockStore ∉ wa.locks := by rw [s1.locks]; simp [hl, lockStore, lockTransport]
    rcases bind_any_inv hrest with ⟨e, he, rfl⟩ | ⟨_, wb, hcb, hrest⟩
    · have := (clearAll_still he hls).1; simp at this
    obtain ⟨-, s2, hcur2, hcn2, -⟩ := clearAll_still hcb hls
    rcases bind_any_inv hrest with ⟨e, he, rfl⟩ | ⟨_, wc, hcc, hrest⟩
    · obtain ⟨-, -, hor⟩ := tConnect_still he
      rcases hor with ⟨he', -⟩ | ⟨he', -⟩
      · simp only [Except.error.injEq] at he'
        subst he'
        exact ⟨_, rfl, by simp [silentErrs]⟩
      · simp at he'
    · obtain ⟨-, -, hor⟩ := tConnect_still hcc
      rcases hor with ⟨he', -⟩ | ⟨-, c, hhead, hcur3⟩
      · simp at he'
      · have hm : wc.Mute := by
          unfold World.Mute World.inboundRest
          rw [hcur3]
          exact hmute c (by rw [← hcn1, ← hcn2] at *; exact hhead)
        exact connHandshake_silent hrt hrest hm
  obtain ⟨e, rfl, he⟩ := key
  simp only [Prod.mk.injEq] at h
  obtain ⟨rfl, -⟩ := h
  exact ⟨e, rfl, he⟩

end Adb
