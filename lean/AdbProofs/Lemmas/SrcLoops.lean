import AdbProofs.Lemmas.SrcEnc
import AdbProofs.Lemmas.Monad
/-
  Pure "one iteration" functions of the model's transport loops (`readBytesLoop`, `writeAllLoop` in AdbModel/Wire.lean) and the lemmas that the
  model's loops are exactly: effect, then this step. The *Src theorems (C03Src, C15Src) prove the SOURCE's loop bodies (translated with the effect
  results as parameters) equal to these steps.
-/
set_option linter.unusedSimpArgs false
namespace Adb
open Py

/-- outcome of one loop iteration -/
inductive LoopStep (σ : Type) where
  | done (s : σ)          -- leave the loop (`break` / `return`)
  | again (s : σ)         -- next iteration with this state
  | fail (e : Err)
  deriving Repr

/-- one iteration of `_read_bytes_from_device` after `bulk_read` returned `temp` and the clock reads `now`: state = (remaining length, data so far) -/
def readStep (t : Txn) (start now : Int) (rem : Nat) (acc temp : Bytes) : LoopStep (Nat × Bytes) :=
  let acc' := acc ++ temp
  let rem' := rem - temp.length
  if rem' = 0 then .done (rem', acc')
  else match t.rt with
    | none => .fail .pyTypeError
    | some l => if now - start > l then .fail .adbTimeout else .again (rem', acc')

/-- The model's read loop is: stop when nothing remains; otherwise request exactly `rem` bytes with the transaction's transport timeout and apply `readStep`
    to what came back and to the clock after the call. -/
theorem readBytesLoop_step (t : Txn) (start : Int) (fuel rem : Nat) (acc : Bytes) (w : World) :
    readBytesLoop t start (fuel + 1) rem acc w =
      if rem = 0 then (.ok acc, w) else
      match bulkRead rem t.tt { w with trace := .req rem rem :: w.trace } with
      | (.error e, w1) => (.error e, w1)
      | (.ok temp, w1) =>
        match readStep t start w1.now rem acc temp with
        | .done s => (.ok s.2, w1)
        | .again s => readBytesLoop t start fuel s.1 s.2 w1
        | .fail e => (.error e, w1) := by
  by_cases h0 : rem = 0
  · simp [readBytesLoop, h0]
  · simp only [readBytesLoop, h0, if_false, bind, M.bind, emit_run]
    cases hb : bulkRead rem t.tt { w with trace := .req rem rem :: w.trace } with
    | mk r w1 =>
      cases r with
      | error e => simp
      | ok temp =>
        simp only [readStep]
        by_cases h1 : rem - temp.length = 0
        · simp [h1]
        · cases hrt : t.rt with
          | none => simp [h1, elapsedGt, hrt, M.bind, M.throw]
          | some l =>
            by_cases h2 : w1.now - start > l
            · simp [h1, elapsedGt, hrt, h2, M.bind, M.throw]
            · simp [h1, elapsedGt, hrt, h2, M.bind, M.throw]

/-- one iteration of `_write_all` after `bulk_write` reported `nw` (None = everything) and the clock reads `now`: state = data still to write -/
def writeStep (t : Txn) (start now : Int) (data : Bytes) (nw : Option Nat) : LoopStep Bytes :=
  match nw with
  | none => .done data
  | some k =>
    if k ≥ data.length then .done data
    else match t.rt with
      | none => .fail .pyTypeError
      | some l => if now - start > l then .fail .adbTimeout else .again (data.drop k)

theorem writeAllLoop_step (t : Txn) (start : Int) (fuel : Nat) (data : Bytes) (w : World) :
    writeAllLoop t start (fuel + 1) data w =
      match bulkWrite data t.tt w with
      | (.error e, w1) => (.error e, w1)
      | (.ok nw, w1) =>
        match writeStep t start w1.now data nw with
        | .done _ => (.ok (), w1)
        | .again d => writeAllLoop t start fuel d w1
        | .fail e => (.error e, w1) := by
  simp only [writeAllLoop, bind, M.bind]
  cases hb : bulkWrite data t.tt w with
  | mk r w1 =>
    cases r with
    | error e => simp
    | ok nw =>
      cases nw with
      | none => simp [writeStep]
      | some k =>
        simp only [writeStep]
        by_cases h1 : k ≥ data.length
        · simp [h1]
        · cases hrt : t.rt with
          | none => simp [h1, elapsedGt, hrt, M.bind, M.throw]
          | some l =>
            by_cases h2 : w1.now - start > l
            · simp [h1, elapsedGt, hrt, h2, M.bind, M.throw]
            · simp [h1, elapsedGt, hrt, h2, M.bind, M.throw]

end Adb

namespace Adb
open Py

/-! evaluation rules for the byte-string operations the loop bodies use (pysimp) -/
@[pysimp] theorem Py.add_bytearray_bytes (a b : Bytes) : Py.add (.bytearray a) (.bytes b) = .ok (.bytearray (a ++ b)) := by simp [Py.add, pure, Except.pure]
@[pysimp] theorem Py.len_bytes (b : Bytes) : Py.len_ (.bytes b) = .ok (.int b.length) := by simp [Py.len_, pure, Except.pure]
@[pysimp] theorem Py.len_bytearray (b : Bytes) : Py.len_ (.bytearray b) = .ok (.int b.length) := by simp [Py.len_, pure, Except.pure]
@[pysimp] theorem Py.truthy_bytes (b : Bytes) : Py.truthy (.bytes b) = .ok (!b.isEmpty) := by simp [Py.truthy, pure, Except.pure]
@[pysimp] theorem Py.gtV_int_none (a : Int) : Py.gtV (.int a) .none = .error .typeError := by
  simp [Py.gtV, Py.asInt, bind, Except.bind, pure, Except.pure, throw, throwThe, MonadExceptOf.throw]
@[pysimp] theorem Py.geV_nat (a b : Nat) : Py.geV (.int a) (.int b) = .ok (.bool (decide (b ≤ a))) := by
  simp [Py.geV, Py.asInt, bind, Except.bind, pure, Except.pure]
@[pysimp] theorem Py.sliceFrom_bytes (b : Bytes) (k : Nat) : Py.sliceFrom (.bytes b) (.int k) = .ok (.bytes (b.drop k)) := by
  simp [Py.sliceFrom, Py.natOf, Py.asInt, bind, Except.bind, pure, Except.pure]
@[pysimp] theorem Py.sliceFrom_bytearray (b : Bytes) (k : Nat) : Py.sliceFrom (.bytearray b) (.int k) = .ok (.bytearray (b.drop k)) := by
  simp [Py.sliceFrom, Py.natOf, Py.asInt, bind, Except.bind, pure, Except.pure]

end Adb

namespace Adb
open Py
@[pysimp] theorem Py.not_int (a : Int) : Py.not_ (.int a) = .ok (.bool (a == 0)) := by
  by_cases h : a = 0
  · simp [Py.not_, Py.truthy, bind, Except.bind, pure, Except.pure, h]
  · have h2 : (a == 0) = false := by simp [h]
    simp [Py.not_, Py.truthy, bind, Except.bind, pure, Except.pure, h, h2]
@[pysimp] theorem Py.leV_nat (a b : Nat) : Py.leV (.int a) (.int b) = .ok (.bool (decide (a ≤ b))) := by
  simp [Py.leV, Py.asInt, bind, Except.bind, pure, Except.pure]
end Adb

namespace Adb
open Py
@[pysimp] theorem Py.add_bytes_bytes (a b : Bytes) : Py.add (.bytes a) (.bytes b) = .ok (.bytes (a ++ b)) := by simp [Py.add, pure, Except.pure]
end Adb

namespace Adb
open Py
@[pysimp] theorem Py.eqV_bytes_bytes (a b : Bytes) : Py.eqV (.bytes a) (.bytes b) = .ok (.bool (a == b)) := by simp [Py.eqV, Py.eq, bind, Except.bind, pure, Except.pure]
@[pysimp] theorem Py.neV_bytes_bytes (a b : Bytes) : Py.neV (.bytes a) (.bytes b) = .ok (.bool (!(a == b))) := by simp [Py.neV, Py.eq, bind, Except.bind, pure, Except.pure]
@[pysimp] theorem Py.eqV_none_bytes (b : Bytes) : Py.eqV .none (.bytes b) = .ok (.bool false) := by simp [Py.eqV, Py.eq, bind, Except.bind, pure, Except.pure]
@[pysimp] theorem Py.isV_bytes_none (b : Bytes) : Py.isV (.bytes b) .none = .ok (.bool false) := by simp [Py.isV, pure, Except.pure]
@[pysimp] theorem Py.isNotV_bytes_none (b : Bytes) : Py.isNotV (.bytes b) .none = .ok (.bool true) := by simp [Py.isNotV, Py.isV, bind, Except.bind, pure, Except.pure]
@[pysimp] theorem Py.not_none : Py.not_ .none = .ok (.bool true) := by simp [Py.not_, Py.truthy, bind, Except.bind, pure, Except.pure]
@[pysimp] theorem Py.not_bytes (b : Bytes) : Py.not_ (.bytes b) = .ok (.bool b.isEmpty) := by simp [Py.not_, Py.truthy, bind, Except.bind, pure, Except.pure]
end Adb
