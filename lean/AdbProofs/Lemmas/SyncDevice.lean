import AdbProofs.Lemmas.SyncWire
import AdbProofs.Lemmas.Deliver
/-
  `stat`, `list` and `pull` as whole operations (C08, C09): the phases of a normal return, which
  events belong to which phase, what the reassembled FileSync stream of the transfer is, and that
  the stream is closed (`_clse`) — for `pull` on every outcome once the stream was opened.

  Both trace vocabularies are in scope here: `transmitted` / `delivered` are those of Deliver.lean
  (namespace `Adb`); the FileSync byte stream and the callback record are `Push.deliveredWrteData`
  and `Push.progressCalls`.
-/
namespace Adb.SR
open Adb

theorem push_delivered_eq (evs : List TEv) : Push.delivered evs = delivered evs := rfl
theorem push_transmitted_eq (evs : List TEv) : Push.transmitted evs = transmitted evs := rfl

theorem dwd_of_delivered_nil {evs : List TEv} (h : delivered evs = []) : Push.deliveredWrteData evs = [] := by
  simp [Push.deliveredWrteData, push_delivered_eq, h]

theorem dwd_of_delivered_clse {evs : List TEv} {c : Pkt} (h : delivered evs = [c]) (hc : c.cmd = Cmd.CLSE) :
    Push.deliveredWrteData evs = [] := by
  simp [Push.deliveredWrteData, push_delivered_eq, h, hc]

/-- `pull`'s clean-up discipline (`M.tryFinally`, after the repair of the `finally`-masking defect):
    both parts ran, in this order; when `x` raised, ITS exception is the result whatever `fin` did;
    when `x` returned normally the result is `x`'s unless `fin` raised -/
theorem tryFinally_inv {α} {x : M α} {fin : M Unit} {w w' : World} {res : Except Err α}
    (h : M.tryFinally x fin w = (res, w')) :
    ∃ r1 w1 r2, x w = (r1, w1) ∧ fin w1 = (r2, w') ∧
      res = (match r1 with
        | .error e => .error e
        | .ok a => (match r2 with | .ok _ => .ok a | .error e' => .error e')) := by
  unfold M.tryFinally at h
  cases hx : x w with
  | mk r1 w1 =>
    rw [hx] at h
    cases hf : fin w1 with
    | mk r2 w2 =>
      cases r1 <;> cases r2 <;> simp only [hf, Prod.mk.injEq] at h <;> obtain ⟨rfl, rfl⟩ := h <;>
        exact ⟨_, _, _, rfl, hf, rfl⟩

/-- `_clse`, every outcome: CLSE with the stream's ids is the one message handed to `_send`; no
    FileSync byte is handed over; on a normal return exactly the device's CLSE was delivered -/
theorem clse_any {t : Txn} {w w' : World} {r : Except Err Unit} (h : clse t w = (r, w'))
    (hl : lockTransport ∉ w.locks) :
    ∃ evs, w'.trace = evs ++ w.trace ∧ transmitted evs = [clseMsg t] ∧ Push.deliveredWrteData evs = [] ∧
      Push.progressCalls evs = [] ∧ (∀ u, r = .ok u → ∃ c, delivered evs = [c] ∧ c.cmd = Cmd.CLSE) := by
  have hpc : ∀ evs, w'.trace = evs ++ w.trace → Push.progressCalls evs = [] := by
    intro evs hev
    obtain ⟨e, he, hq⟩ := (Tr_clse Push.QNoProg.house Push.QNoProg.deliv Push.QNoProg.txAll t).step h
    have : evs = e := Push.evs_unique (he ▸ hev)
    subst this
    exact Push.QNoProg.progressCalls hq
  have hp := clse_dlv h hl
  cases r with
  | ok u =>
    obtain ⟨c, hA, hc, -⟩ := hp
    obtain ⟨evs, hev, hd, ht, -, -⟩ := hA.dt
    refine ⟨evs, hev, ht, ?_, hpc evs hev, fun _ _ => ⟨c, hd, hc⟩⟩
    exact dwd_of_delivered_clse (c := c) (hd) hc
  | error e =>
    obtain ⟨evs, hev, hd, ht, -, -⟩ := (show Adds w w' [.tx (clseMsg t)] [] from hp).dt
    refine ⟨evs, hev, ht, ?_, hpc evs hev, fun u hu => by cases hu⟩
    exact dwd_of_delivered_nil (hd)

/-- the guards deliver nothing -/
theorem guards_dwd {gs : List String} {p : Option Bytes} {w w0 : World} {r : Except Err Unit} {e : List TEv}
    (h : runGuards gs p w = (r, w0)) (he : w0.trace = e ++ w.trace) : Push.deliveredWrteData e = [] := by
  obtain ⟨e', he', hq⟩ := (Tr_runGuards (Q := Push.QNoDeliv) gs p).step h
  have : e = e' := Push.evs_unique (he' ▸ he)
  subst this
  simp [Push.deliveredWrteData, Push.QNoDeliv.delivered hq]

/-- `_open` on an idle device hands over no FileSync byte: the one packet delivered is the OKAY -/
theorem openStream_dwd {dest : Bytes} {tt rt total : Timeout} {w w1 : World} {t : Txn} {e : List TEv}
    (h : openStream dest tt rt total w = (.ok t, w1)) (hl : w.locks = []) (he : w1.trace = e ++ w.trace) :
    Push.deliveredWrteData e = [] := by
  obtain ⟨p, hA, hc, -⟩ := openStream_dlv h hl
  obtain ⟨e', he', hd, -, -, -⟩ := hA.dt
  have : e = e' := Push.evs_unique (he' ▸ he)
  subst this
  have hd' : delivered e = [p] := hd
  simp [Push.deliveredWrteData, push_delivered_eq, hd', hc]

/-! ### `stat` -/

theorem devStat_ok {devPath : Bytes} {tt rt : Timeout} {w w' : World} {v : Val}
    (h : devStat devPath tt rt w = (.ok v, w')) :
    ∃ w0 t w1 fi w2 r fi' w3,
      runGuards (guardsFor "stat") (some devPath) w = (.ok (), w0) ∧
      openStream (ascii "sync:") tt rt none w0 = (.ok t, w1) ∧
      fsSend .STAT t { fmt := .stat, maxdata := w1.maxdata } devPath none w1 = (.ok fi, w2) ∧
      fsRead [.STAT] t fi w2 = (.ok (r, fi'), w3) ∧ clse t w3 = (.ok (), w') ∧
      v = .stat (r.fields.getD 0 0) (r.fields.getD 1 0) (r.fields.getD 2 0) := by
  unfold devStat at h
  obtain ⟨u, w0, h0, h⟩ := bind_ok_inv h
  obtain ⟨t, w1, h1, h⟩ := bind_ok_inv h
  rw [Push.get_bind_run] at h
  obtain ⟨fi, w2, h2, h⟩ := bind_ok_inv h
  obtain ⟨⟨r, fi'⟩, w3, h3, h⟩ := bind_ok_inv h
  obtain ⟨u2, w4, h4, h⟩ := bind_ok_inv h
  simp only [pure_run, Prod.mk.injEq, Except.ok.injEq] at h
  obtain ⟨rfl, rfl⟩ := h
  exact ⟨w0, t, w1, fi, w2, r, fi', w3, h0, h1, h2, h3, h4, rfl⟩

/-- a `STAT` record of the stat format has exactly three fields and no data -/
theorem stat_rec_shape {bs rest : Bytes} {r : SyncRec} (h : parse .stat bs = .record r rest) (hid : r.id = SyncId.STAT) :
    ∃ mode size mtime, r = ⟨.STAT, [mode, size, mtime], none⟩ := by
  obtain ⟨h1, -⟩ := parse_shape h
  obtain ⟨hl, hd⟩ := h1 hid
  obtain ⟨id, fields, data⟩ := r
  simp only at hl hd hid
  have h3 : fields.length = 3 := by rw [hl]; decide
  match fields, h3 with
  | [a, b, c], _ => exact ⟨a, b, c, by rw [hd, hid]⟩

/-- `stat`, normal return.  The events split into: before the request (`ePre`: the guards and the
    OPEN/OKAY exchange), the transfer (`eX`) and the close (`eCl`).  The FileSync stream of the
    transfer starts with a STAT record, whose three words are the result; then the stream is closed. -/
theorem devStat_exact {devPath : Bytes} {tt rt : Timeout} {w w' : World} {v : Val} {evs : List TEv}
    (h : devStat devPath tt rt w = (.ok v, w')) (hev : w'.trace = evs ++ w.trace) (hl : lockTransport ∉ w.locks) :
    ∃ (t : Txn) (w0 w1 : World) (ePre eX eCl : List TEv) (mode size mtime : Nat) (rest : Bytes) (c : Pkt),
      openStream (ascii "sync:") tt rt none w0 = (.ok t, w1) ∧
      evs = eCl ++ eX ++ ePre ∧
      parse .stat (Push.deliveredWrteData eX) = .record ⟨.STAT, [mode, size, mtime], none⟩ rest ∧
      v = .stat mode size mtime ∧
      transmitted eCl = [clseMsg t] ∧ delivered eCl = [c] ∧ c.cmd = Cmd.CLSE ∧
      Push.progressCalls evs = [] ∧
      Push.deliveredWrteData eCl = [] ∧ (w.locks = [] → Push.deliveredWrteData ePre = []) := by
  obtain ⟨w0, t, w1, fi, w2, r, fi', w3, h0, h1, h2, h3, h4, rfl⟩ := devStat_ok h
  obtain ⟨e0, he0⟩ := Push.Fr.evs (Fr_runGuards _ _) h0
  obtain ⟨e1, he1⟩ := Push.Fr.evs (Fr_openStream _ _ _ _) h1
  obtain ⟨e2, he2⟩ := Push.Fr.evs (Fr_fsSend _ _ _ _ _) h2
  obtain ⟨e3, he3⟩ := Push.Fr.evs (Fr_fsRead _ _ _) h3
  have hl3 : lockTransport ∉ w3.locks := by
    rw [Fr.locks_of (Fr_fsRead _ _ _) h3, Fr.locks_of (Fr_fsSend _ _ _ _ _) h2, Fr.locks_of (Fr_openStream _ _ _ _) h1,
      Fr.locks_of (Fr_runGuards _ _) h0]
    exact hl
  obtain ⟨e4, he4, htx, hdw4, -, hcl⟩ := clse_any h4 hl3
  obtain ⟨c, hdc, hcc⟩ := hcl () rfl
  have hpre : w.locks = [] → Push.deliveredWrteData (e1 ++ e0) = [] := by
    intro hw
    rw [Push.deliveredWrteData_append, guards_dwd h0 he0,
      openStream_dwd h1 ((Fr.locks_of (Fr_runGuards _ _) h0).trans hw) he1]
    rfl
  have hrb := fsSend_recv h2 he2
  obtain ⟨hp, hid, hf, -, -⟩ := fsRead_ok_parse h3 he3
  have hfmt : fi.fmt = .stat := (Push.fsSend_ok h2 he2).2.2.1
  have hid' : r.id = SyncId.STAT := by simpa using hid
  rw [hfmt, hrb] at hp
  simp only [List.nil_append] at hp
  rw [← Push.deliveredWrteData_append] at hp
  obtain ⟨mode, size, mtime, rfl⟩ := stat_rec_shape hp hid'
  have hevs : evs = e4 ++ (e3 ++ e2) ++ (e1 ++ e0) := by
    apply Push.evs_unique (t0 := w.trace)
    rw [← hev, he4, he3, he2, he1, he0]
    simp [List.append_assoc]
  refine ⟨t, w0, w1, e1 ++ e0, e3 ++ e2, e4, mode, size, mtime, _, c, h1, hevs, hp, rfl, htx, hdc, hcc, ?_, hdw4, hpre⟩
  obtain ⟨e, he, hq⟩ := (Tr_devStat Push.QNoProg.house Push.QNoProg.deliv Push.QNoProg.txAll devPath tt rt).step h
  have : evs = e := Push.evs_unique (he ▸ hev)
  subst this
  exact Push.QNoProg.progressCalls hq

/-! ### `list` -/

theorem devList_ok {devPath : Bytes} {tt rt : Timeout} {w w' : World} {v : Val}
    (h : devList devPath tt rt w = (.ok v, w')) :
    ∃ w0 t w1 fi w2 files w3,
      runGuards (guardsFor "list") (some devPath) w = (.ok (), w0) ∧
      openStream (ascii "sync:") tt rt none w0 = (.ok t, w1) ∧
      fsSend .LIST t { fmt := .list, maxdata := w1.maxdata } devPath none w1 = (.ok fi, w2) ∧
      listLoop t w1.fuel fi [] w2 = (.ok files, w3) ∧ clse t w3 = (.ok (), w') ∧
      v = .listing files := by
  unfold devList at h
  obtain ⟨u, w0, h0, h⟩ := bind_ok_inv h
  obtain ⟨t, w1, h1, h⟩ := bind_ok_inv h
  rw [Push.get_bind_run] at h
  obtain ⟨fi, w2, h2, h⟩ := bind_ok_inv h
  obtain ⟨files, w3, h3, h⟩ := bind_ok_inv h
  obtain ⟨u2, w4, h4, h⟩ := bind_ok_inv h
  simp only [pure_run, Prod.mk.injEq, Except.ok.injEq] at h
  obtain ⟨rfl, rfl⟩ := h
  exact ⟨w0, t, w1, fi, w2, files, w3, h0, h1, h2, h3, h4, rfl⟩

/-- `list`, normal return: the FileSync stream of the transfer is DENT records followed by one DONE
    record; the result has one entry per DENT record, in order, with the record's name bytes and
    its three header words; then the stream is closed. -/
theorem devList_exact {devPath : Bytes} {tt rt : Timeout} {w w' : World} {v : Val} {evs : List TEv}
    (h : devList devPath tt rt w = (.ok v, w')) (hev : w'.trace = evs ++ w.trace) (hl : lockTransport ∉ w.locks) :
    ∃ (t : Txn) (w0 w1 : World) (ePre eX eCl : List TEv) (dents : List SyncRec) (done : SyncRec) (rest : Bytes) (c : Pkt),
      openStream (ascii "sync:") tt rt none w0 = (.ok t, w1) ∧
      evs = eCl ++ eX ++ ePre ∧
      Recs .list (Push.deliveredWrteData eX) (dents ++ [done]) rest ∧ done.id = SyncId.DONE ∧
      (∀ r ∈ dents, r.id = SyncId.DENT ∧ ∃ mode size mtime name, r = ⟨.DENT, [mode, size, mtime], some name⟩) ∧
      v = .listing (dents.map entryOf) ∧
      transmitted eCl = [clseMsg t] ∧ delivered eCl = [c] ∧ c.cmd = Cmd.CLSE ∧
      Push.deliveredWrteData eCl = [] ∧ (w.locks = [] → Push.deliveredWrteData ePre = []) := by
  obtain ⟨w0, t, w1, fi, w2, files, w3, h0, h1, h2, h3, h4, rfl⟩ := devList_ok h
  obtain ⟨e0, he0⟩ := Push.Fr.evs (Fr_runGuards _ _) h0
  obtain ⟨e1, he1⟩ := Push.Fr.evs (Fr_openStream _ _ _ _) h1
  obtain ⟨e2, he2⟩ := Push.Fr.evs (Fr_fsSend _ _ _ _ _) h2
  obtain ⟨e3, he3⟩ := Push.Fr.evs (Fr_listLoop _ _ _ _) h3
  have hl3 : lockTransport ∉ w3.locks := by
    rw [Fr.locks_of (Fr_listLoop _ _ _ _) h3, Fr.locks_of (Fr_fsSend _ _ _ _ _) h2, Fr.locks_of (Fr_openStream _ _ _ _) h1,
      Fr.locks_of (Fr_runGuards _ _) h0]
    exact hl
  obtain ⟨e4, he4, htx, hdw4, -, hcl⟩ := clse_any h4 hl3
  obtain ⟨c, hdc, hcc⟩ := hcl () rfl
  have hpre : w.locks = [] → Push.deliveredWrteData (e1 ++ e0) = [] := by
    intro hw
    rw [Push.deliveredWrteData_append, guards_dwd h0 he0,
      openStream_dwd h1 ((Fr.locks_of (Fr_runGuards _ _) h0).trans hw) he1]
    rfl
  have hrb := fsSend_recv h2 he2
  have hfmt : fi.fmt = .list := (Push.fsSend_ok h2 he2).2.2.1
  obtain ⟨dents, done, rest, hrecs, hdone, hall, hfiles⟩ := listLoop_ok h3 he3 hfmt
  rw [hrb] at hrecs
  simp only [List.nil_append] at hrecs
  rw [← Push.deliveredWrteData_append] at hrecs
  have hevs : evs = e4 ++ (e3 ++ e2) ++ (e1 ++ e0) := by
    apply Push.evs_unique (t0 := w.trace)
    rw [← hev, he4, he3, he2, he1, he0]
    simp [List.append_assoc]
  exact ⟨t, w0, w1, e1 ++ e0, e3 ++ e2, e4, dents, done, rest, c, h1, hevs, hrecs, hdone, hall,
    by rw [hfiles]; rfl, htx, hdc, hcc, hdw4, hpre⟩

/-! ### `pull` -/

/-- `pull`, every outcome: either the call failed before a stream was open (a guard or `_open`
    raised), or a stream `t` was opened, `_pull` ran with some outcome `r1` and then `_clse(t)` ran
    with some outcome `r2` — on every path.  If `_pull` raised, that exception is the result whatever
    the close did; if `_pull` returned normally, an exception of the close is the result -/
theorem devPull_inv {devPath : Bytes} {cb : CbMode} {tt rt : Timeout} {w w' : World} {res : Except Err Val}
    (h : devPull devPath cb tt rt w = (res, w')) :
    (∃ e, res = .error e ∧ runGuards (guardsFor "pull") (some devPath) w = (.error e, w')) ∨
    (∃ e w0, res = .error e ∧ runGuards (guardsFor "pull") (some devPath) w = (.ok (), w0) ∧
      openStream (ascii "sync:") tt rt none { w0 with sink := some [] } = (.error e, w')) ∨
    (∃ w0 t w1 r1 w2 r2,
      runGuards (guardsFor "pull") (some devPath) w = (.ok (), w0) ∧
      openStream (ascii "sync:") tt rt none { w0 with sink := some [] } = (.ok t, w1) ∧
      pullInner devPath cb t { fmt := .pull, maxdata := w1.maxdata } w1 = (r1, w2) ∧
      clse t w2 = (r2, w') ∧
      res = (match r1 with
        | .error e => .error e
        | .ok _ => (match r2 with | .ok _ => .ok Val.none | .error e' => .error e'))) := by
  unfold devPull at h
  rw [bind_run] at h
  cases h0 : runGuards (guardsFor "pull") (some devPath) w with
  | mk r0 w0 =>
    rw [h0] at h
    cases r0 with
    | error e =>
      simp only [Prod.mk.injEq] at h
      obtain ⟨rfl, rfl⟩ := h
      exact Or.inl ⟨e, rfl, rfl⟩
    | ok u =>
      simp only at h
      rw [bind_run] at h
      simp only [M.modify_run] at h
      rw [bind_run] at h
      cases h1 : openStream (ascii "sync:") tt rt none { w0 with sink := some [] } with
      | mk rt1 w1 =>
        rw [h1] at h
        cases rt1 with
        | error e =>
          simp only [Prod.mk.injEq] at h
          obtain ⟨rfl, rfl⟩ := h
          exact Or.inr (Or.inl ⟨e, w0, rfl, rfl, h1⟩)
        | ok t =>
          simp only at h
          rw [Push.get_bind_run, bind_run] at h
          cases h2 : M.tryFinally (pullInner devPath cb t { fmt := .pull, maxdata := w1.maxdata }) (clse t) w1 with
          | mk r w3 =>
            rw [h2] at h
            obtain ⟨r1, w2, r2, hx, hf, rfl⟩ := tryFinally_inv h2
            refine Or.inr (Or.inr ⟨w0, t, w1, r1, w2, r2, rfl, h1, hx, ?_⟩)
            cases r1 <;> cases r2 <;> simp only [pure_run, Prod.mk.injEq] at h <;> obtain ⟨rfl, rfl⟩ := h <;>
              exact ⟨hf, rfl⟩

/-- the `total_bytes` that `_pull` takes from a `stat` result -/
def statSize : Val → Nat
  | .stat _ size _ => size
  | _ => 0

theorem pullInner_ok {devPath : Bytes} {cb : CbMode} {t : Txn} {fi : FsInfo} {w w' : World}
    (h : pullInner devPath cb t fi w = (.ok (), w')) :
    ∃ total wa fi1 wb,
      ((cb = CbMode.none ∧ wa = w ∧ total = 0) ∨
       (cb ≠ CbMode.none ∧ ∃ v, devStat devPath t.tt t.rt w = (.ok v, wa) ∧ total = statSize v)) ∧
      fsSend .RECV t fi devPath none wa = (.ok fi1, wb) ∧
      pullLoop devPath cb total t wb.fuel fi1 wb = (.ok (), w') := by
  unfold pullInner at h
  by_cases hcb : cb = CbMode.none
  · simp only [hcb, ne_eq, not_true_eq_false, if_false] at h
    obtain ⟨tot, wx, hp, h⟩ := bind_ok_inv h
    simp only [pure_run, Prod.mk.injEq, Except.ok.injEq] at hp
    obtain ⟨rfl, rfl⟩ := hp
    obtain ⟨fi1, wb, hb, h⟩ := bind_ok_inv h
    rw [Push.get_bind_run] at h
    exact ⟨0, w, fi1, wb, Or.inl ⟨hcb, rfl, rfl⟩, hb, by rw [hcb]; exact h⟩
  · simp only [ne_eq, hcb, not_false_eq_true, if_true] at h
    obtain ⟨v, wa, hv, h⟩ := bind_ok_inv h
    cases v <;> dsimp only at h <;> obtain ⟨tot, wx, hp, h⟩ := bind_ok_inv h <;>
      simp only [pure_run, Prod.mk.injEq, Except.ok.injEq] at hp <;> obtain ⟨rfl, rfl⟩ := hp <;>
      obtain ⟨fi1, wb, hb, h⟩ := bind_ok_inv h <;> rw [Push.get_bind_run] at h <;>
      exact ⟨_, _, fi1, wb, Or.inr ⟨hcb, _, hv, rfl⟩, hb, h⟩

theorem noProg_step {α} {x : M α} (hx : Push.Tr Push.QNoProg x) {w w1 : World} {r : Except Err α} (h : x w = (r, w1)) :
    ∃ e, w1.trace = e ++ w.trace ∧ Push.progressCalls e = [] := by
  obtain ⟨e, he, hq⟩ := hx.step h
  exact ⟨e, he, Push.QNoProg.progressCalls hq⟩

/-- `pull`, normal return.  The events split into: before the RECV request (`ePre`: guards, OPEN/OKAY
    and — with a callback — the whole `stat` call on its own stream), the transfer (`eX`) and the
    close (`eCl`).  The FileSync stream of the transfer is DATA records followed by one DONE record;
    the destination holds exactly the DATA payloads, in order; the callback was called once per DATA
    record with its length; then the stream is closed. -/
theorem devPull_exact {devPath : Bytes} {cb : CbMode} {tt rt : Timeout} {w w' : World} {v : Val} {evs : List TEv}
    (h : devPull devPath cb tt rt w = (.ok v, w')) (hev : w'.trace = evs ++ w.trace) (hl : lockTransport ∉ w.locks) :
    ∃ (t : Txn) (w0 w1 : World) (ePre eX eCl : List TEv) (datas : List Bytes) (done : SyncRec) (rest : Bytes)
      (total : Nat) (c : Pkt),
      openStream (ascii "sync:") tt rt none w0 = (.ok t, w1) ∧
      evs = eCl ++ eX ++ ePre ∧
      Recs .pull (Push.deliveredWrteData eX) (datas.map dataRec ++ [done]) rest ∧ done.id = SyncId.DONE ∧
      w'.sink = some datas.flatten ∧
      Push.progressCalls evs = (if cb = CbMode.none then [] else datas.map fun d => (devPath, d.length, total)) ∧
      transmitted eCl = [clseMsg t] ∧ delivered eCl = [c] ∧ c.cmd = Cmd.CLSE ∧ v = Val.none ∧
      Push.deliveredWrteData eCl = [] ∧ (cb = CbMode.none → w.locks = [] → Push.deliveredWrteData ePre = []) := by
  rcases devPull_inv h with ⟨e, he, -⟩ | ⟨e, w0, he, -⟩ | ⟨w0, t, w1, r1, w2, r2, h0, h1, hin, hcl, hres⟩
  · cases he
  · cases he
  · cases r1 with
    | error e => cases hres
    | ok u1 =>
      cases r2 with
      | error e => cases hres
      | ok u2 =>
        simp only [Except.ok.injEq] at hres
        obtain ⟨total, wa, fi1, wb, hst, hsend, hloop⟩ := pullInner_ok hin
        obtain ⟨e0, he0, hp0⟩ := noProg_step (Tr_runGuards _ _) h0
        obtain ⟨e1, he1, hp1⟩ := noProg_step (Tr_openStream Push.QNoProg.house Push.QNoProg.deliv Push.QNoProg.txAll _ _ _ _) h1
        have he1' : w1.trace = e1 ++ w0.trace := he1
        have hs0 : w0.sink = w.sink := (Sk_runGuards _ _).of_run h0
        have hs1 : w1.sink = some [] := (Sk_openStream _ _ _ _).of_run h1
        have hl0 : w0.locks = w.locks := Fr.locks_of (Fr_runGuards _ _) h0
        have hl1 : w1.locks = w.locks := (Fr.locks_of (Fr_openStream _ _ _ _) h1).trans hl0
        -- the optional stat call
        obtain ⟨eS, heS, hpS, hsa, hla, hnoS⟩ : ∃ eS, wa.trace = eS ++ w1.trace ∧ Push.progressCalls eS = [] ∧
            wa.sink = some [] ∧ wa.locks = w.locks ∧ (cb = CbMode.none → eS = []) := by
          rcases hst with ⟨-, rfl, -⟩ | ⟨hcb, vs, hvs, -⟩
          · exact ⟨[], rfl, rfl, hs1, hl1, fun _ => rfl⟩
          · obtain ⟨eS, heS, hpS⟩ := noProg_step (Tr_devStat Push.QNoProg.house Push.QNoProg.deliv Push.QNoProg.txAll _ _ _) hvs
            exact ⟨eS, heS, hpS, ((Sk_devStat _ _ _).of_run hvs).trans hs1, (Fr.locks_of (Fr_devStat _ _ _) hvs).trans hl1,
              fun h => absurd h hcb⟩
        obtain ⟨e2, he2⟩ := Push.Fr.evs (Fr_fsSend _ _ _ _ _) hsend
        obtain ⟨e3, he3⟩ := Push.Fr.evs (Fr_pullLoop _ _ _ _ _ _) hloop
        have hsb : wb.sink = some [] := ((Sk_fsSend _ _ _ _ _).of_run hsend).trans hsa
        have hl2 : lockTransport ∉ w2.locks := by
          rw [Fr.locks_of (Fr_pullLoop _ _ _ _ _ _) hloop, Fr.locks_of (Fr_fsSend _ _ _ _ _) hsend, hla]
          exact hl
        obtain ⟨e4, he4, htx, hdw4, hp4, hclse⟩ := clse_any hcl hl2
        obtain ⟨c, hdc, hcc⟩ := hclse () rfl
        have hpre : cb = CbMode.none → w.locks = [] → Push.deliveredWrteData (eS ++ e1 ++ e0) = [] := by
          intro hcb hw
          rw [hnoS hcb, List.nil_append, Push.deliveredWrteData_append, guards_dwd h0 he0,
            openStream_dwd h1 (hl0.trans hw) he1']
          rfl
        have hrb := fsSend_recv hsend he2
        obtain ⟨-, hp2, hfmt, -, -⟩ := Push.fsSend_ok hsend he2
        obtain ⟨datas, done, rest, hrecs, hdone, hsink, hprog⟩ := pullLoop_ok hloop he3 hfmt
        rw [hrb] at hrecs
        simp only [List.nil_append] at hrecs
        rw [← Push.deliveredWrteData_append] at hrecs
        have hevs : evs = e4 ++ (e3 ++ e2) ++ (eS ++ e1 ++ e0) := by
          apply Push.evs_unique (t0 := w.trace)
          rw [← hev, he4, he3, he2, heS, he1', he0]
          simp [List.append_assoc]
        refine ⟨t, _, w1, eS ++ e1 ++ e0, e3 ++ e2, e4, datas, done, rest, total, c, h1, hevs, hrecs, hdone, ?_, ?_,
          htx, hdc, hcc, hres, hdw4, hpre⟩
        · rw [(Sk_clse t).of_run hcl, hsink [] hsb]; rfl
        · rw [hevs]
          simp only [Push.progressCalls_append, hp0, hp1, hpS, hp2, hp4, hprog, List.nil_append, List.append_nil]

/-- `pull`, EVERY outcome: either a guard or `_open` raised (no stream was opened), or a stream
    `t` was opened and — whatever happened in between — the last message handed to `_send` is the
    CLSE of that stream: `_clse` runs on every path (in the `except BaseException` handler when the
    transfer raised, after the transfer otherwise) -/
theorem devPull_closes {devPath : Bytes} {cb : CbMode} {tt rt : Timeout} {w w' : World} {res : Except Err Val}
    {evs : List TEv} (h : devPull devPath cb tt rt w = (res, w')) (hev : w'.trace = evs ++ w.trace)
    (hl : lockTransport ∉ w.locks) :
    (∃ e, res = .error e ∧ runGuards (guardsFor "pull") (some devPath) w = (.error e, w')) ∨
    (∃ e w0, res = .error e ∧ openStream (ascii "sync:") tt rt none w0 = (.error e, w')) ∨
    (∃ (t : Txn) (w0 w1 : World) (eIn eCl : List TEv),
      openStream (ascii "sync:") tt rt none w0 = (.ok t, w1) ∧ evs = eCl ++ eIn ∧
      transmitted eCl = [clseMsg t] ∧ transmitted evs = transmitted eIn ++ [clseMsg t] ∧
      (∀ v, res = .ok v → ∃ c, delivered eCl = [c] ∧ c.cmd = Cmd.CLSE)) := by
  rcases devPull_inv h with ⟨e, he, hg⟩ | ⟨e, w0, he, -, ho⟩ | ⟨w0, t, w1, r1, w2, r2, h0, h1, hin, hcl, hres⟩
  · exact Or.inl ⟨e, he, hg⟩
  · exact Or.inr (Or.inl ⟨e, _, he, ho⟩)
  · right; right
    obtain ⟨e0, he0⟩ := Push.Fr.evs (Fr_runGuards _ _) h0
    obtain ⟨e1, he1⟩ := Push.Fr.evs (Fr_openStream _ _ _ _) h1
    have he1' : w1.trace = e1 ++ w0.trace := he1
    obtain ⟨e2, he2⟩ := Push.Fr.evs (Fr_pullInner _ _ _ _) hin
    have hl2 : lockTransport ∉ w2.locks := by
      rw [Fr.locks_of (Fr_pullInner _ _ _ _) hin, Fr.locks_of (Fr_openStream _ _ _ _) h1]
      show lockTransport ∉ w0.locks
      rw [Fr.locks_of (Fr_runGuards _ _) h0]
      exact hl
    obtain ⟨e4, he4, htx, -, -, hclse⟩ := clse_any hcl hl2
    have hevs : evs = e4 ++ (e2 ++ e1 ++ e0) := by
      apply Push.evs_unique (t0 := w.trace)
      rw [← hev, he4, he2, he1', he0]
      simp [List.append_assoc]
    refine ⟨t, _, w1, e2 ++ e1 ++ e0, e4, h1, hevs, htx, by rw [hevs, transmitted_append, htx], ?_⟩
    intro v hv
    cases r2 with
    | ok u => exact hclse u rfl
    | error e => rw [hv] at hres; cases r1 <;> cases hres

/-! ### the whole call's stream (idle device) -/

theorem dwd_split {evs ePre eX eCl : List TEv} (h : evs = eCl ++ eX ++ ePre)
    (h1 : Push.deliveredWrteData eCl = []) (h2 : Push.deliveredWrteData ePre = []) :
    Push.deliveredWrteData evs = Push.deliveredWrteData eX := by
  rw [h, Push.deliveredWrteData_append, Push.deliveredWrteData_append, h1, h2]
  simp

theorem locks_nil_transport {w : World} (h : w.locks = []) : lockTransport ∉ w.locks := by simp [h]

/-- `stat` on an idle device: the WRTE payloads delivered during the whole call start with a STAT
    record whose three words are the result -/
theorem devStat_whole {devPath : Bytes} {tt rt : Timeout} {w w' : World} {v : Val} {evs : List TEv}
    (h : devStat devPath tt rt w = (.ok v, w')) (hev : w'.trace = evs ++ w.trace) (hl : w.locks = []) :
    ∃ mode size mtime rest,
      parse .stat (Push.deliveredWrteData evs) = .record ⟨.STAT, [mode, size, mtime], none⟩ rest ∧
      v = .stat mode size mtime := by
  obtain ⟨t, w0, w1, ePre, eX, eCl, mode, size, mtime, rest, c, -, hevs, hp, hv, -, -, -, -, h1, h2⟩ :=
    devStat_exact h hev (locks_nil_transport hl)
  exact ⟨mode, size, mtime, rest, by rw [dwd_split hevs h1 (h2 hl)]; exact hp, hv⟩

/-- `list` on an idle device: the WRTE payloads delivered during the whole call are DENT records
    followed by DONE, and the result is one entry per DENT record -/
theorem devList_whole {devPath : Bytes} {tt rt : Timeout} {w w' : World} {v : Val} {evs : List TEv}
    (h : devList devPath tt rt w = (.ok v, w')) (hev : w'.trace = evs ++ w.trace) (hl : w.locks = []) :
    ∃ (dents : List SyncRec) (done : SyncRec) (rest : Bytes),
      Recs .list (Push.deliveredWrteData evs) (dents ++ [done]) rest ∧ done.id = SyncId.DONE ∧
      (∀ r ∈ dents, r.id = SyncId.DENT ∧ ∃ mode size mtime name, r = ⟨.DENT, [mode, size, mtime], some name⟩) ∧
      v = .listing (dents.map entryOf) := by
  obtain ⟨t, w0, w1, ePre, eX, eCl, dents, done, rest, c, -, hevs, hrecs, hdone, hall, hv, -, -, -, h1, h2⟩ :=
    devList_exact h hev (locks_nil_transport hl)
  exact ⟨dents, done, rest, by rw [dwd_split hevs h1 (h2 hl)]; exact hrecs, hdone, hall, hv⟩

/-- `pull` without a callback on an idle device: the WRTE payloads delivered during the whole call
    are DATA records followed by DONE, and the destination holds exactly the DATA payloads -/
theorem devPull_whole {devPath : Bytes} {tt rt : Timeout} {w w' : World} {v : Val} {evs : List TEv}
    (h : devPull devPath .none tt rt w = (.ok v, w')) (hev : w'.trace = evs ++ w.trace) (hl : w.locks = []) :
    ∃ (datas : List Bytes) (done : SyncRec) (rest : Bytes),
      Recs .pull (Push.deliveredWrteData evs) (datas.map dataRec ++ [done]) rest ∧ done.id = SyncId.DONE ∧
      w'.sink = some datas.flatten := by
  obtain ⟨t, w0, w1, ePre, eX, eCl, datas, done, rest, total, c, -, hevs, hrecs, hdone, hsink, -, -, -, -, -, h1, h2⟩ :=
    devPull_exact h hev (locks_nil_transport hl)
  exact ⟨datas, done, rest, by rw [dwd_split hevs h1 (h2 rfl hl)]; exact hrecs, hdone, hsink⟩

/-! ### exceptions that pre-empt the parser although a complete record was delivered -/

/-- an exception of `_read_until`: either nothing was delivered, or a WRTE was delivered and the
    exception is that of sending its acknowledgement (`_okay`) -/
theorem readUntil_error_inv {ex : List Cmd} {t : Txn} {w w' : World} {e : Err}
    (h : readUntil ex t w = (.error e, w')) :
    (∃ evs, w'.trace = evs ++ w.trace ∧ delivered evs = []) ∨
    (∃ p w2, ioRead ex t true w = (.ok p, w2) ∧ p.cmd = Cmd.WRTE ∧ okay t w2 = (.error e, w')) := by
  unfold readUntil at h
  rcases bind_err_inv h with he | ⟨p, w2, hr, hrest⟩
  · left
    obtain ⟨evs, hev, hd, -⟩ := (show Adds w w' [] [] from ioRead_dlv he).dt
    exact ⟨evs, hev, hd⟩
  · right
    dsimp only at hrest
    by_cases hc : p.cmd = Cmd.WRTE
    · simp only [hc, if_true] at hrest
      rcases bind_err_inv hrest with he | ⟨u, w3, -, hp⟩
      · exact ⟨p, w2, hr, hc, he⟩
      · simp at hp
    · simp only [hc, if_false] at hrest
      simp at hrest

/-- the ways an exception `e` can pre-empt the FileSync parser although the bytes of a complete record
    were delivered: the model's loop budget ran out (after at least `w.fuel` delivered packets);
    `_filesync_flush` of the buffered request raised (while sending it or while waiting for its OKAY);
    or a WRTE packet was delivered and SENDING its
    acknowledgement failed with `e` (`_read_until` calls `_okay` before it returns the data) -/
def SendFailed (t : Txn) (fi : FsInfo) (w : World) (evs : List TEv) (e : Err) (w' : World) : Prop :=
  (e = .hang ∧ w.fuel ≤ (Push.delivered evs).length) ∨
  (fi.sendBuf ≠ [] ∧ fsFlush t fi w = (.error e, w')) ∨
  (∃ p w1 w2, p.cmd = Cmd.WRTE ∧ ioRead [.WRTE] t true w1 = (.ok p, w2) ∧ okay t w2 = (.error e, w'))

theorem Aborted.refine {t : Txn} {fi : FsInfo} {w w' : World} {evs : List TEv} {e : Err}
    (h : Aborted t fi w evs e w') (hev : w'.trace = evs ++ w.trace)
    (hfull : parse fi.fmt (fi.recvBuf ++ Push.deliveredWrteData evs) ≠ .more) : SendFailed t fi w evs e w' := by
  rcases h with h | h | ⟨e0, el, w1, rfl, hw1, hmore, hr⟩
  · exact Or.inl h
  · exact Or.inr (Or.inl h)
  · right; right
    rcases readUntil_error_inv hr with ⟨el', hel', hd⟩ | ⟨p, w2, hio, hc, hok⟩
    · exfalso
      have : el = el' := by
        apply Push.evs_unique (t0 := w1.trace)
        rw [← hel', hev, hw1, List.append_assoc]
      subst this
      apply hfull
      rw [Push.deliveredWrteData_append, dwd_of_delivered_nil hd, List.append_nil]
      exact hmore
    · exact ⟨p, w1, w2, hc, hio, hok⟩

/-! ### `pull` when the device reports a failure -/

theorem pullInner_none_any {devPath : Bytes} {t : Txn} {fi : FsInfo} {w w' : World} {res : Except Err Unit}
    (h : pullInner devPath .none t fi w = (res, w')) :
    (∃ e, res = .error e ∧ fsSend .RECV t fi devPath none w = (.error e, w')) ∨
    (∃ fi1 wb, fsSend .RECV t fi devPath none w = (.ok fi1, wb) ∧
      pullLoop devPath .none 0 t wb.fuel fi1 wb = (res, w')) := by
  unfold pullInner at h
  simp only [ne_eq, not_true_eq_false, if_false] at h
  rw [bind_run] at h
  simp only [pure_run] at h
  rw [bind_run] at h
  cases hs : fsSend .RECV t fi devPath none w with
  | mk r wb =>
    rw [hs] at h
    cases r with
    | error e =>
      simp only [Prod.mk.injEq] at h
      obtain ⟨rfl, rfl⟩ := h
      exact Or.inl ⟨e, rfl, rfl⟩
    | ok fi1 =>
      simp only at h
      rw [Push.get_bind_run] at h
      exact Or.inr ⟨fi1, wb, rfl, h⟩

/-- the close cannot mask the transfer's exception: if `_pull` raised `e` (inside a `pull` that got
    past the guards and `_open`), `pull` raises exactly `e`, whatever `_clse` does afterwards -/
theorem devPull_close_cannot_mask {devPath : Bytes} {cb : CbMode} {tt rt : Timeout} {w w' w0 w1 w2 : World}
    {res : Except Err Val} {t : Txn} {e : Err}
    (h : devPull devPath cb tt rt w = (res, w'))
    (h0 : runGuards (guardsFor "pull") (some devPath) w = (.ok (), w0))
    (h1 : openStream (ascii "sync:") tt rt none { w0 with sink := some [] } = (.ok t, w1))
    (hin : pullInner devPath cb t { fmt := .pull, maxdata := w1.maxdata } w1 = (.error e, w2)) :
    res = .error e ∧ ∃ r2, clse t w2 = (r2, w') := by
  rcases devPull_inv h with ⟨e', -, hg⟩ | ⟨e', w0', -, hg, ho⟩ | ⟨w0', t', w1', r1, w2', r2, h0', h1', hin', hcl, hres⟩
  · rw [h0] at hg; cases hg
  · rw [h0] at hg; cases hg
    rw [h1] at ho; cases ho
  · rw [h0] at h0'; cases h0'
    rw [h1] at h1'; cases h1'
    rw [hin] at hin'; cases hin'
    exact ⟨hres, r2, hcl⟩

/-- what else can end a `pull` whose device stream carries a FAIL record: an exception before the
    transfer (guard, `_open`, sending the RECV request) or an exception below the parser during the
    transfer (loop budget, or the acknowledgement of a delivered WRTE could not be sent).  An
    exception of `_clse` is NOT among them: it can no longer replace the transfer's exception. -/
def PullPreempted (devPath : Bytes) (tt rt : Timeout) (w : World) (e : Err) (w' : World) : Prop :=
  runGuards (guardsFor "pull") (some devPath) w = (.error e, w') ∨
  (∃ w0, openStream (ascii "sync:") tt rt none w0 = (.error e, w')) ∨
  (∃ t fi wa w2, fsSend .RECV t fi devPath none wa = (.error e, w2)) ∨
  (∃ t w2, LoopAborted t e w2)

/-- `pull` (no callback, idle device), EVERY outcome, when the WRTE payloads delivered during the call
    are DATA records followed by a FAIL record with message `m`: the call raises
    `AdbCommandFailureException(m)` — it never returns normally, and whatever the close handshake
    does — unless an exception pre-empted the parser (`PullPreempted`). -/
theorem devPull_fail {devPath : Bytes} {tt rt : Timeout} {w w' : World} {res : Except Err Val} {evs : List TEv}
    {chunks : List Bytes} {mid rest : Bytes} {f : List Nat} {m : Bytes}
    (h : devPull devPath .none tt rt w = (res, w')) (hev : w'.trace = evs ++ w.trace) (hl : w.locks = [])
    (hrecs : Recs .pull (Push.deliveredWrteData evs) (chunks.map dataRec) mid)
    (hfail : parse .pull mid = .record ⟨.FAIL, f, some m⟩ rest) :
    res = .error (.adbCommandFailure m) ∨ ∃ e, res = .error e ∧ PullPreempted devPath tt rt w e w' := by
  rcases devPull_inv h with ⟨e, he, hg⟩ | ⟨e, w0, he, -, ho⟩ | ⟨w0, t, w1, r1, w2, r2, h0, h1, hin, hcl, hres⟩
  · exact Or.inr ⟨e, he, Or.inl hg⟩
  · exact Or.inr ⟨e, he, Or.inr (Or.inl ⟨_, ho⟩)⟩
  · obtain ⟨e0, he0⟩ := Push.Fr.evs (Fr_runGuards _ _) h0
    obtain ⟨e1, he1⟩ := Push.Fr.evs (Fr_openStream _ _ _ _) h1
    have he1' : w1.trace = e1 ++ w0.trace := he1
    have hl0 : w0.locks = w.locks := Fr.locks_of (Fr_runGuards _ _) h0
    obtain ⟨e2, he2⟩ := Push.Fr.evs (Fr_pullInner _ _ _ _) hin
    have hl2 : lockTransport ∉ w2.locks := by
      rw [Fr.locks_of (Fr_pullInner _ _ _ _) hin, Fr.locks_of (Fr_openStream _ _ _ _) h1]
      show lockTransport ∉ w0.locks
      rw [hl0, hl]; simp
    obtain ⟨e4, he4, -, hdw4, -, -⟩ := clse_any hcl hl2
    have hevs : evs = e4 ++ e2 ++ (e1 ++ e0) := by
      apply Push.evs_unique (t0 := w.trace)
      rw [← hev, he4, he2, he1', he0]
      simp [List.append_assoc]
    have hpre : Push.deliveredWrteData (e1 ++ e0) = [] := by
      rw [Push.deliveredWrteData_append, guards_dwd h0 he0, openStream_dwd h1 (hl0.trans hl) he1']
      rfl
    rw [dwd_split hevs hdw4 hpre] at hrecs
    rcases pullInner_none_any hin with ⟨e, hr1, hs⟩ | ⟨fi1, wb, hs, hloop⟩
    · subst hr1
      exact Or.inr ⟨e, hres, Or.inr (Or.inr (Or.inl ⟨t, _, _, _, hs⟩))⟩
    · obtain ⟨es, hes⟩ := Push.Fr.evs (Fr_fsSend _ _ _ _ _) hs
      obtain ⟨el, hel⟩ := Push.Fr.evs (Fr_pullLoop _ _ _ _ _ _) hloop
      have he2' : e2 = el ++ es := Push.evs_split hes hel he2
      have hrb := fsSend_recv hs hes
      obtain ⟨-, -, hfmt, -, -⟩ := Push.fsSend_ok hs hes
      rw [he2', Push.deliveredWrteData_append] at hrecs
      have hrecs' : Recs .pull (fi1.recvBuf ++ Push.deliveredWrteData el) (chunks.map dataRec) mid := by
        rw [hrb]; exact hrecs
      rcases pullLoop_fail hloop hel hfmt hrecs' hfail with hr1 | ⟨e, hr1, hab⟩
      · subst hr1
        exact Or.inl hres
      · subst hr1
        exact Or.inr ⟨e, hres, Or.inr (Or.inr (Or.inr ⟨t, w2, hab⟩))⟩

end Adb.SR
