import AdbProofs.Lemmas.PushLemmas
/-
  The pure reference parser of the FileSync RECEIVE side (C08, C09, C10).

  The receive side of `_filesync_read` is a parser over the byte stream obtained by concatenating
  the payloads of the device's WRTE packets.  `parse fmt bs` reads ONE record of receive format
  `fmt` at the head of `bs`: a header of `fmt.size` bytes = `fmt.size / 4` little-endian words
  whose first word is the id; for `STAT` the remaining words are the fields and there is no data,
  otherwise the last word is the length of the data that follows and the words between are the
  fields.  `Recs fmt bs rs rest` says that `bs` is the records `rs` (in order) followed by `rest`.
  Encoders for the three wire shapes and the decode-after-encode lemmas are at the end.
-/
namespace Adb.SR
open Adb Adb.Push

/-- outcome of reading one record at the head of a byte stream -/
inductive Parsed where
  | more                                   -- the header or the announced data is not complete yet
  | badId (word : Nat)                     -- a complete header whose id word is no FileSync id
  | record (r : SyncRec) (rest : Bytes)       -- a record and the bytes after it
  deriving DecidableEq, Repr

/-- one record of receive format `fmt` at the head of `bs` -/
def parse (fmt : SyncFmt) (bs : Bytes) : Parsed :=
  if bs.length < fmt.size then .more
  else
    let header := unpackWords (fmt.size / 4) (bs.take fmt.size)
    let body := bs.drop fmt.size
    match SyncId.ofWire? (header.headD 0) with
    | none => .badId (header.headD 0)
    | some cid =>
      if cid = SyncId.STAT then .record ⟨cid, header.drop 1, none⟩ body
      else if body.length < header.getLastD 0 then .more
      else .record ⟨cid, (header.drop 1).dropLast, some (body.take (header.getLastD 0))⟩ (body.drop (header.getLastD 0))

/-- pure reference parser: the record at the head of `bs` and the bytes after it, if complete and known -/
def parseRec (fmt : SyncFmt) (bs : Bytes) : Option (SyncRec × Bytes) :=
  match parse fmt bs with
  | .record r rest => some (r, rest)
  | _ => none

theorem parseRec_eq_some {fmt : SyncFmt} {bs : Bytes} {r : SyncRec} {rest : Bytes} :
    parseRec fmt bs = some (r, rest) ↔ parse fmt bs = .record r rest := by
  unfold parseRec
  cases parse fmt bs <;> simp

/-- `bs` is the records `rs`, in order, followed by `rest` -/
inductive Recs (fmt : SyncFmt) : Bytes → List SyncRec → Bytes → Prop
  | nil (bs : Bytes) : Recs fmt bs [] bs
  | cons {bs bs' rest : Bytes} {r : SyncRec} {rs : List SyncRec} :
      parse fmt bs = .record r bs' → Recs fmt bs' rs rest → Recs fmt bs (r :: rs) rest

/-! ### `parse` on a stream split after the header -/

theorem parse_short {fmt : SyncFmt} {bs : Bytes} (h : bs.length < fmt.size) : parse fmt bs = .more := by
  simp [parse, h]

/-- unfolding of `parse` on `hdr ++ body` when `hdr` is exactly one header -/
theorem parse_hdr {fmt : SyncFmt} {hdr body : Bytes} (h : hdr.length = fmt.size) :
    parse fmt (hdr ++ body) =
      match SyncId.ofWire? ((unpackWords (fmt.size / 4) hdr).headD 0) with
      | none => .badId ((unpackWords (fmt.size / 4) hdr).headD 0)
      | some cid =>
        if cid = SyncId.STAT then .record ⟨cid, (unpackWords (fmt.size / 4) hdr).drop 1, none⟩ body
        else if body.length < (unpackWords (fmt.size / 4) hdr).getLastD 0 then .more
        else .record ⟨cid, ((unpackWords (fmt.size / 4) hdr).drop 1).dropLast,
                    some (body.take ((unpackWords (fmt.size / 4) hdr).getLastD 0))⟩
                  (body.drop ((unpackWords (fmt.size / 4) hdr).getLastD 0)) := by
  unfold parse
  have h1 : ¬ (hdr ++ body).length < fmt.size := by simp [h]
  have h2 : (hdr ++ body).take fmt.size = hdr := by rw [← h]; simp
  have h3 : (hdr ++ body).drop fmt.size = body := by rw [← h]; simp
  simp only [h1, if_false, h2, h3]

theorem parse_hdr_badId {fmt : SyncFmt} {hdr body : Bytes} (h : hdr.length = fmt.size)
    (hid : SyncId.ofWire? ((unpackWords (fmt.size / 4) hdr).headD 0) = none) :
    parse fmt (hdr ++ body) = .badId ((unpackWords (fmt.size / 4) hdr).headD 0) := by
  rw [parse_hdr h, hid]

theorem parse_hdr_stat {fmt : SyncFmt} {hdr body : Bytes} (h : hdr.length = fmt.size)
    (hid : SyncId.ofWire? ((unpackWords (fmt.size / 4) hdr).headD 0) = some SyncId.STAT) :
    parse fmt (hdr ++ body) = .record ⟨.STAT, (unpackWords (fmt.size / 4) hdr).drop 1, none⟩ body := by
  rw [parse_hdr h, hid]; simp

theorem parse_hdr_more {fmt : SyncFmt} {hdr body : Bytes} {cid : SyncId} (h : hdr.length = fmt.size)
    (hid : SyncId.ofWire? ((unpackWords (fmt.size / 4) hdr).headD 0) = some cid) (hc : cid ≠ SyncId.STAT)
    (hlen : body.length < (unpackWords (fmt.size / 4) hdr).getLastD 0) :
    parse fmt (hdr ++ body) = .more := by
  rw [parse_hdr h, hid]
  simp only [hc, if_false, hlen, if_true]

theorem parse_hdr_data {fmt : SyncFmt} {hdr data rest : Bytes} {cid : SyncId} (h : hdr.length = fmt.size)
    (hid : SyncId.ofWire? ((unpackWords (fmt.size / 4) hdr).headD 0) = some cid) (hc : cid ≠ SyncId.STAT)
    (hlen : data.length = (unpackWords (fmt.size / 4) hdr).getLastD 0) :
    parse fmt (hdr ++ (data ++ rest)) =
      .record ⟨cid, ((unpackWords (fmt.size / 4) hdr).drop 1).dropLast, some data⟩ rest := by
  rw [parse_hdr h, hid]
  simp only [hc, if_false, ← hlen]
  simp only [List.length_append, List.take_left', List.drop_left']
  rw [if_neg (by omega)]

/-! ### a parsed record does not depend on what follows it -/

theorem parse_rec_append {fmt : SyncFmt} {bs rest : Bytes} {r : SyncRec} (x : Bytes)
    (h : parse fmt bs = .record r rest) : parse fmt (bs ++ x) = .record r (rest ++ x) := by
  by_cases hlen : bs.length < fmt.size
  · rw [parse_short hlen] at h; cases h
  · have hsplit : bs = bs.take fmt.size ++ bs.drop fmt.size := (List.take_append_drop _ _).symm
    have hl : (bs.take fmt.size).length = fmt.size := by simp; omega
    rw [hsplit, parse_hdr hl] at h
    rw [hsplit, List.append_assoc, parse_hdr hl]
    generalize (bs.take fmt.size) = hdr at *
    generalize (bs.drop fmt.size) = body at *
    cases hid : SyncId.ofWire? ((unpackWords (fmt.size / 4) hdr).headD 0) with
    | none => rw [hid] at h; cases h
    | some cid =>
      rw [hid] at h
      simp only at h ⊢
      generalize (unpackWords (fmt.size / 4) hdr).getLastD 0 = n at *
      by_cases hc : cid = SyncId.STAT
      · simp only [hc, if_true] at h ⊢
        cases h; rfl
      · simp only [hc, if_false] at h ⊢
        by_cases hb : body.length < n
        · simp only [hb, if_true] at h; cases h
        · simp only [hb, if_false] at h
          have hb' : ¬ (body ++ x).length < n := by
            rw [List.length_append]; omega
          simp only [hb', if_false]
          cases h
          have hle : n ≤ body.length := by omega
          rw [List.take_append_of_le_length hle, List.drop_append_of_le_length hle]

theorem parse_badId_append {fmt : SyncFmt} {bs : Bytes} {word : Nat} (x : Bytes)
    (h : parse fmt bs = .badId word) : parse fmt (bs ++ x) = .badId word := by
  by_cases hlen : bs.length < fmt.size
  · rw [parse_short hlen] at h; cases h
  · have hsplit : bs = bs.take fmt.size ++ bs.drop fmt.size := (List.take_append_drop _ _).symm
    have hl : (bs.take fmt.size).length = fmt.size := by simp; omega
    rw [hsplit, parse_hdr hl] at h
    rw [hsplit, List.append_assoc, parse_hdr hl]
    generalize (bs.take fmt.size) = hdr at *
    generalize (bs.drop fmt.size) = body at *
    cases hid : SyncId.ofWire? ((unpackWords (fmt.size / 4) hdr).headD 0) with
    | none => rw [hid] at h; exact h
    | some cid =>
      rw [hid] at h
      simp only at h
      split at h
      · cases h
      · split at h <;> cases h

theorem Recs.append {fmt : SyncFmt} {bs rest : Bytes} {rs : List SyncRec} (x : Bytes)
    (h : Recs fmt bs rs rest) : Recs fmt (bs ++ x) rs (rest ++ x) := by
  induction h with
  | nil bs => exact Recs.nil _
  | cons hp _ ih => exact Recs.cons (parse_rec_append x hp) ih

theorem Recs.concat {fmt : SyncFmt} {bs mid rest : Bytes} {rs1 rs2 : List SyncRec}
    (h1 : Recs fmt bs rs1 mid) (h2 : Recs fmt mid rs2 rest) : Recs fmt bs (rs1 ++ rs2) rest := by
  induction h1 with
  | nil bs => exact h2
  | cons hp _ ih => exact Recs.cons hp (ih h2)

/-- the record list of a stream is determined up to its length: two readings agree on their common prefix -/
theorem Recs.det {fmt : SyncFmt} {bs r1 r2 : Bytes} {a b : List SyncRec}
    (h1 : Recs fmt bs a r1) (h2 : Recs fmt bs b r2) (hlen : a.length = b.length) : a = b ∧ r1 = r2 := by
  induction h1 generalizing b r2 with
  | nil bs =>
    cases h2 with
    | nil => exact ⟨rfl, rfl⟩
    | cons _ _ => simp at hlen
  | cons hp _ ih =>
    cases h2 with
    | nil => simp at hlen
    | cons hp' h2' =>
      rw [hp] at hp'
      cases hp'
      obtain ⟨h3, h4⟩ := ih h2' (by simpa using hlen)
      exact ⟨by rw [h3], h4⟩

/-- two readings of the same stream that both stop at their first `DONE` record are the same reading -/
theorem Recs.until_done_unique {fmt : SyncFmt} {bs r1 r2 : Bytes} {a b : List SyncRec} {d1 d2 : SyncRec}
    (h1 : Recs fmt bs (a ++ [d1]) r1) (h2 : Recs fmt bs (b ++ [d2]) r2)
    (ha : ∀ x ∈ a, x.id ≠ SyncId.DONE) (hb : ∀ x ∈ b, x.id ≠ SyncId.DONE)
    (hd1 : d1.id = SyncId.DONE) (hd2 : d2.id = SyncId.DONE) : a = b ∧ d1 = d2 ∧ r1 = r2 := by
  induction a generalizing b bs with
  | nil =>
    cases b with
    | nil =>
      obtain ⟨h, h'⟩ := Recs.det h1 h2 rfl
      simp at h
      exact ⟨rfl, h, h'⟩
    | cons y ys =>
      cases h1 with
      | cons hp _ =>
        cases h2 with
        | cons hp' _ =>
          rw [hp] at hp'
          cases hp'
          exact absurd hd1 (hb _ (by simp))
  | cons x xs ih =>
    cases b with
    | nil =>
      cases h1 with
      | cons hp _ =>
        cases h2 with
        | cons hp' _ =>
          rw [hp] at hp'
          cases hp'
          exact absurd hd2 (ha _ (by simp))
    | cons y ys =>
      cases h1 with
      | cons hp h1' =>
        cases h2 with
        | cons hp' h2' =>
          rw [hp] at hp'
          cases hp'
          obtain ⟨h3, h4, h5⟩ := ih h1' h2' (fun z hz => ha z (by simp [hz])) (fun z hz => hb z (by simp [hz]))
          exact ⟨by rw [h3], h4, h5⟩

/-! ### `struct.unpack('<nI')` -/

theorem unpackWords_length : ∀ (n : Nat) (bs : Bytes), 4 * n ≤ bs.length → (unpackWords n bs).length = n := by
  intro n
  induction n with
  | zero => intro bs _; simp [unpackWords]
  | succ n ih =>
    intro bs h
    match bs, h with
    | a :: b :: c :: d :: rest, h =>
      simp only [unpackWords, rd32, List.length_cons]
      rw [ih rest (by simp at h; omega)]
    | [], h => exact absurd h (by simp only [List.length_nil]; omega)
    | [_], h => exact absurd h (by simp only [List.length_cons, List.length_nil]; omega)
    | [_, _], h => exact absurd h (by simp only [List.length_cons, List.length_nil]; omega)
    | [_, _, _], h => exact absurd h (by simp only [List.length_cons, List.length_nil]; omega)

/-- every word produced by `unpack` is a 32-bit value -/
theorem unpackWords_lt : ∀ (n : Nat) (bs : Bytes), ∀ v ∈ unpackWords n bs, v < 4294967296 := by
  intro n
  induction n with
  | zero => intro bs v hv; simp [unpackWords] at hv
  | succ n ih =>
    intro bs v hv
    match bs with
    | a :: b :: c :: d :: rest =>
      simp only [unpackWords, rd32, List.mem_cons] at hv
      rcases hv with rfl | hv
      · have := a.toNat_lt; have := b.toNat_lt; have := c.toNat_lt; have := d.toNat_lt
        omega
      · exact ih rest v hv
    | [] => simp [unpackWords, rd32] at hv
    | [_] => simp [unpackWords, rd32] at hv
    | [_, _] => simp [unpackWords, rd32] at hv
    | [_, _, _] => simp [unpackWords, rd32] at hv

/-- any 32-bit words survive `pack` followed by `unpack` -/
theorem unpackWords_pack : ∀ (ws : List Nat) (rest : Bytes), (∀ v ∈ ws, v < 4294967296) →
    unpackWords ws.length ((ws.map le32).flatten ++ rest) = ws := by
  intro ws
  induction ws with
  | nil => intro rest _; simp [unpackWords]
  | cons v vs ih =>
    intro rest h
    simp only [List.map_cons, List.flatten_cons, List.length_cons, unpackWords, List.append_assoc]
    rw [rd32_le32 v (h v (by simp))]
    simp only
    rw [ih rest (fun x hx => h x (by simp [hx]))]

/-! ### shape of the records of each format -/

theorem fmt_words (fmt : SyncFmt) : 4 * (fmt.size / 4) = fmt.size := by cases fmt <;> decide

/-- number of header words of each format -/
theorem fmt_nwords (fmt : SyncFmt) :
    fmt.size / 4 = match fmt with | .list => 5 | .pull => 2 | .push => 2 | .stat => 4 := by
  cases fmt <;> decide

theorem getLastD_eq_or_mem : ∀ (ws : List Nat) (d : Nat), ws.getLastD d = d ∨ ws.getLastD d ∈ ws := by
  intro ws
  induction ws with
  | nil => intro d; exact Or.inl rfl
  | cons a as ih =>
    intro d
    rw [List.getLastD_cons]
    rcases ih a with h | h
    · exact Or.inr (by rw [h]; simp)
    · exact Or.inr (List.mem_cons_of_mem _ h)

/-- a parsed record has `fmt.size/4 - 1` fields and no data if it is `STAT`, `fmt.size/4 - 2` fields and data otherwise -/
theorem parse_shape {fmt : SyncFmt} {bs rest : Bytes} {r : SyncRec} (h : parse fmt bs = .record r rest) :
    (r.id = SyncId.STAT → r.fields.length = fmt.size / 4 - 1 ∧ r.data = none) ∧
    (r.id ≠ SyncId.STAT → r.fields.length = fmt.size / 4 - 2 ∧
      ∃ d, r.data = some d ∧ d.length < 4294967296 ∧ d ++ rest = bs.drop fmt.size) := by
  by_cases hlen : bs.length < fmt.size
  · rw [parse_short hlen] at h; cases h
  · have hsplit : bs = bs.take fmt.size ++ bs.drop fmt.size := (List.take_append_drop _ _).symm
    have hl : (bs.take fmt.size).length = fmt.size := by simp; omega
    rw [hsplit, parse_hdr hl] at h
    have hwl : (unpackWords (fmt.size / 4) (bs.take fmt.size)).length = fmt.size / 4 :=
      unpackWords_length _ _ (by rw [fmt_words, hl]; exact Nat.le_refl _)
    have hlt := unpackWords_lt (fmt.size / 4) (bs.take fmt.size)
    generalize (unpackWords (fmt.size / 4) (bs.take fmt.size)) = ws at *
    generalize (bs.drop fmt.size) = body at *
    have hn : ws.getLastD 0 < 4294967296 := by
      rcases getLastD_eq_or_mem ws 0 with h0 | h0
      · rw [h0]; decide
      · exact hlt _ h0
    generalize ws.getLastD 0 = n at *
    cases hid : SyncId.ofWire? (ws.headD 0) with
    | none => rw [hid] at h; cases h
    | some cid =>
      rw [hid] at h
      simp only at h
      by_cases hc : cid = SyncId.STAT
      · simp only [hc, if_true] at h
        cases h
        exact ⟨fun _ => ⟨by simp [hwl], rfl⟩, fun hne => absurd rfl hne⟩
      · simp only [hc, if_false] at h
        by_cases hb : body.length < n
        · simp only [hb, if_true] at h; cases h
        · simp only [hb, if_false] at h
          cases h
          refine ⟨fun he => absurd he hc, fun _ => ⟨by simp [hwl]; omega, _, rfl, ?_, by simp⟩⟩
          simp only [List.length_take]
          omega

/-! ### the device's side: encoders, and decode-after-encode -/

/-- a `LIST` reply entry as the device packs it: `pack('<5I', id, mode, size, mtime, len(name)) + name` -/
def dentRec (id : SyncId) (mode size mtime : Nat) (name : Bytes) : Bytes :=
  le32 id.wire ++ le32 mode ++ le32 size ++ le32 mtime ++ le32 name.length ++ name

/-- a `STAT` reply as the device packs it: `pack('<4I', STAT, mode, size, mtime)` -/
def statRec (mode size mtime : Nat) : Bytes :=
  le32 SyncId.STAT.wire ++ le32 mode ++ le32 size ++ le32 mtime

theorem ofWire_wire (id : SyncId) : SyncId.ofWire? id.wire = some id := by cases id <;> decide +kernel
theorem wire_lt (id : SyncId) : id.wire < 4294967296 := by cases id <;> decide +kernel

theorem flatten_le32_length (ws : List Nat) : ((ws.map le32).flatten).length = 4 * ws.length := by
  induction ws with
  | nil => rfl
  | cons a as ih =>
    simp only [List.map_cons, List.flatten_cons, List.length_append, le32_length, ih, List.length_cons]; omega

theorem getLastD_concat (ws : List Nat) (x d : Nat) : (ws ++ [x]).getLastD d = x := by
  induction ws generalizing d with
  | nil => rfl
  | cons a as ih => rw [List.cons_append, List.getLastD_cons]; exact ih a

/-- a data-carrying record: header words `id, fields…, len(data)`, then the data -/
theorem parse_encode_data {fmt : SyncFmt} (id : SyncId) (fields : List Nat) (data rest : Bytes)
    (hn : fields.length + 2 = fmt.size / 4) (hid : id ≠ SyncId.STAT)
    (hf : ∀ v ∈ fields, v < 4294967296) (hd : data.length < 4294967296) :
    parse fmt ((((id.wire :: fields) ++ [data.length]).map le32).flatten ++ (data ++ rest))
      = .record ⟨id, fields, some data⟩ rest := by
  have hall : ∀ v ∈ (id.wire :: fields) ++ [data.length], v < 4294967296 := by
    intro v hv
    simp only [List.cons_append, List.mem_cons, List.mem_append, List.mem_nil_iff, or_false] at hv
    rcases hv with rfl | hv | rfl
    · exact wire_lt id
    · exact hf v hv
    · exact hd
  have hlen : ((id.wire :: fields) ++ [data.length]).length = fmt.size / 4 := by simp; omega
  have hw := unpackWords_pack ((id.wire :: fields) ++ [data.length]) [] hall
  rw [hlen, List.append_nil] at hw
  have hl : ((((id.wire :: fields) ++ [data.length]).map le32).flatten).length = fmt.size := by
    rw [flatten_le32_length, hlen, fmt_words]
  rw [parse_hdr_data (cid := id) hl (by rw [hw]; simpa using ofWire_wire id) hid
    (by rw [hw, List.cons_append, ← List.cons_append, getLastD_concat])]
  rw [hw]
  simp

/-- a `STAT` record: header words `STAT, fields…`, no data -/
theorem parse_encode_stat {fmt : SyncFmt} (fields : List Nat) (rest : Bytes)
    (hn : fields.length + 1 = fmt.size / 4) (hf : ∀ v ∈ fields, v < 4294967296) :
    parse fmt ((((SyncId.STAT.wire :: fields)).map le32).flatten ++ rest)
      = .record ⟨.STAT, fields, none⟩ rest := by
  have hws := wire_lt SyncId.STAT
  have hof := ofWire_wire SyncId.STAT
  generalize SyncId.STAT.wire = sw at *
  have hall : ∀ v ∈ (sw :: fields), v < 4294967296 := by
    intro v hv
    simp only [List.mem_cons] at hv
    rcases hv with rfl | hv
    · exact hws
    · exact hf v hv
  have hlen : (sw :: fields).length = fmt.size / 4 := by rw [List.length_cons]; omega
  have hw := unpackWords_pack (sw :: fields) [] hall
  rw [hlen, List.append_nil] at hw
  have hl : (((sw :: fields).map le32).flatten).length = fmt.size := by
    rw [flatten_le32_length, hlen, fmt_words]
  rw [parse_hdr_stat hl (by rw [hw, List.headD_cons]; exact hof)]
  rw [hw]
  rfl

/-- `DATA`/`DONE`/`FAIL`/`OKAY` records of the pull and push formats -/
theorem parse_syncRec {fmt : SyncFmt} (hfmt : fmt = .pull ∨ fmt = .push) (id : SyncId) (data rest : Bytes)
    (hid : id ≠ SyncId.STAT) (hd : data.length < 4294967296) :
    parse fmt (syncRec id data.length data ++ rest) = .record ⟨id, [], some data⟩ rest := by
  have := parse_encode_data (fmt := fmt) id [] data rest (by rcases hfmt with rfl | rfl <;> decide) hid (by simp) hd
  simpa [syncRec, List.append_assoc] using this

/-- entries of a `LIST` reply -/
theorem parse_dentRec (id : SyncId) (mode size mtime : Nat) (name rest : Bytes) (hid : id ≠ SyncId.STAT)
    (h1 : mode < 4294967296) (h2 : size < 4294967296) (h3 : mtime < 4294967296) (h4 : name.length < 4294967296) :
    parse .list (dentRec id mode size mtime name ++ rest) = .record ⟨id, [mode, size, mtime], some name⟩ rest := by
  have := parse_encode_data (fmt := .list) id [mode, size, mtime] name rest (by simp only [List.length_cons, List.length_nil]; decide) hid
    (by intro v hv; simp at hv; rcases hv with rfl | rfl | rfl <;> assumption) h4
  simpa [dentRec, List.append_assoc] using this

/-- the `STAT` reply -/
theorem parse_statRec (mode size mtime : Nat) (rest : Bytes)
    (h1 : mode < 4294967296) (h2 : size < 4294967296) (h3 : mtime < 4294967296) :
    parse .stat (statRec mode size mtime ++ rest) = .record ⟨.STAT, [mode, size, mtime], none⟩ rest := by
  have := parse_encode_stat (fmt := .stat) [mode, size, mtime] rest (by simp only [List.length_cons, List.length_nil]; decide)
    (by intro v hv; simp at hv; rcases hv with rfl | rfl | rfl <;> assumption)
  simpa [statRec, List.append_assoc] using this

/-- a stream of encoded pull records parses back to them -/
theorem Recs_syncRecs {fmt : SyncFmt} (hfmt : fmt = .pull ∨ fmt = .push) :
    ∀ (items : List (SyncId × Bytes)) (rest : Bytes),
    (∀ x ∈ items, x.1 ≠ SyncId.STAT ∧ x.2.length < 4294967296) →
    Recs fmt ((items.map fun x => syncRec x.1 x.2.length x.2).flatten ++ rest)
      (items.map fun x => ⟨x.1, [], some x.2⟩) rest := by
  intro items
  induction items with
  | nil => intro rest _; exact Recs.nil _
  | cons x xs ih =>
    intro rest h
    simp only [List.map_cons, List.flatten_cons, List.append_assoc]
    exact Recs.cons (parse_syncRec hfmt x.1 x.2 _ (h x (by simp)).1 (h x (by simp)).2)
      (ih rest (fun y hy => h y (by simp [hy])))

end Adb.SR
