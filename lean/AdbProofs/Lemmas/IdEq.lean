import AdbProofs.Lemmas.NextId
/-
  "The stream-id counter is left alone": `IdEq x` says that running `x` in any world, whatever the
  outcome, ends in a world with the same `localId`.  Everything except `openStream` (`_open`) has this
  property.  Same compositional discipline (and tactic) as `Fr` / `Bd`.
-/
namespace Adb

def IdEq {α : Type} (x : M α) : Prop := ∀ w, (x w).2.localId = w.localId

theorem IdEq.of {α} {x : M α} (h : IdEq x) {w w' : World} {r : Except Err α} (hx : x w = (r, w')) : w'.localId = w.localId := by
  have := h w; rw [hx] at this; exact this

theorem IdEq_pure {α} (a : α) : IdEq (pure a : M α) := fun _ => rfl
theorem IdEq_Mpure {α} (a : α) : IdEq (M.pure a : M α) := fun _ => rfl
theorem IdEq_throw {α} (e : Err) : IdEq (M.throw e : M α) := fun _ => rfl
theorem IdEq_get : IdEq M.get := fun _ => rfl
theorem IdEq_now : IdEq now := fun _ => rfl
theorem IdEq_liftExcept {α} (x : Except Err α) : IdEq (liftExcept x) := fun _ => rfl
theorem IdEq_emit (e : TEv) : IdEq (emit e) := fun _ => rfl
theorem IdEq_elapsedGt (s : Int) (l : Timeout) : IdEq (elapsedGt s l) := by
  intro w; unfold elapsedGt; cases l <;> rfl

theorem IdEq_bind {α β} {x : M α} {f : α → M β} (hx : IdEq x) (hf : ∀ a, IdEq (f a)) : IdEq (x >>= f) := by
  intro w
  rw [bind_run]
  have h1 := hx w
  split
  · next a w' hxw => rw [hxw] at h1; exact (hf a w').trans h1
  · next e w' hxw => rw [hxw] at h1; exact h1

theorem IdEq_ite {α} {c : Prop} [Decidable c] {a b : M α} (ha : IdEq a) (hb : IdEq b) : IdEq (if c then a else b) := by
  split <;> assumption

theorem IdEq_withLock {α} (l : Nat) {body : M α} (hb : IdEq body) : IdEq (withLock l body) := by
  intro w
  rw [withLock_run]
  split
  · rfl
  · exact hb { w with locks := l :: w.locks }

theorem IdEq_tryFinally {α} {x : M α} {fin : M Unit} (hx : IdEq x) (hf : IdEq fin) : IdEq (M.tryFinally x fin) := by
  intro w
  unfold M.tryFinally
  have h1 := hx w
  split
  · next a w' hxw =>
    rw [hxw] at h1
    have h2 := hf w'
    split <;> next _ w'' hfw => rw [hfw] at h2; exact h2.trans h1
  · next e w' hxw =>
    rw [hxw] at h1
    have h2 := hf w'
    split <;> next _ w'' hfw => rw [hfw] at h2; exact h2.trans h1

theorem IdEq_swallow {x : M Unit} (hx : IdEq x) : IdEq (M.swallow x) := by
  intro w
  unfold M.swallow
  exact hx w

theorem IdEq_modify {f : World → World} (hf : ∀ w, (f w).localId = w.localId) : IdEq (M.modify f) := fun w => hf w

theorem IdEq_of_QuietM {α} {x : M α} (h : QuietM x) : IdEq x := fun w => (h w).1

syntax "ideq_lemma" : tactic
macro_rules | `(tactic| ideq_lemma) => `(tactic| with_reducible exact IdEq_pure _)
macro_rules | `(tactic| ideq_lemma) => `(tactic| with_reducible exact IdEq_Mpure _)
macro_rules | `(tactic| ideq_lemma) => `(tactic| with_reducible exact IdEq_throw _)
macro_rules | `(tactic| ideq_lemma) => `(tactic| with_reducible exact IdEq_get)
macro_rules | `(tactic| ideq_lemma) => `(tactic| with_reducible exact IdEq_now)
macro_rules | `(tactic| ideq_lemma) => `(tactic| with_reducible exact IdEq_liftExcept _)
macro_rules | `(tactic| ideq_lemma) => `(tactic| with_reducible exact IdEq_emit _)
macro_rules | `(tactic| ideq_lemma) => `(tactic| with_reducible exact IdEq_elapsedGt _ _)

syntax "ideq" ("[" term "]")? : tactic
macro_rules
  | `(tactic| ideq) => `(tactic| ideq [IdEq_get])
  | `(tactic| ideq [$h]) => `(tactic| first
    | ideq_lemma
    | with_reducible assumption
    | with_reducible exact $h
    | with_reducible exact $h _
    | with_reducible exact $h _ _
    | with_reducible exact $h _ _ _
    | (with_reducible apply IdEq_bind) <;> (first | (intro _; ideq [$h]) | ideq [$h])
    | (with_reducible apply IdEq_withLock); ideq [$h]
    | (with_reducible apply IdEq_tryFinally) <;> ideq [$h]
    | (with_reducible apply IdEq_swallow); ideq [$h]
    | (with_reducible apply IdEq_modify); intro _; rfl
    | (with_reducible apply IdEq_ite) <;> ideq [$h]
    | (split <;> ideq [$h])
    | (dsimp only; ideq [$h])
    | (intro _; ideq [$h]))

theorem IdEq_ioRead (ex : List Cmd) (t : Txn) (az : Bool) : IdEq (ioRead ex t az) := IdEq_of_QuietM (QuietM.ioRead ex t az)
macro_rules | `(tactic| ideq_lemma) => `(tactic| with_reducible exact IdEq_ioRead _ _ _)

theorem IdEq_ioSend (m : Msg) (t : Txn) : IdEq (ioSend m t) := by
  intro w
  rcases ioSend_sent_spec m t w with ⟨h, _⟩ | h
  · rw [h]
  · exact h.localId
macro_rules | `(tactic| ideq_lemma) => `(tactic| with_reducible exact IdEq_ioSend _ _)

theorem IdEq_okay (t : Txn) : IdEq (okay t) := IdEq_ioSend _ t
macro_rules | `(tactic| ideq_lemma) => `(tactic| with_reducible exact IdEq_okay _)

theorem IdEq_readUntil (ex : List Cmd) (t : Txn) : IdEq (readUntil ex t) := by
  unfold readUntil; ideq
macro_rules | `(tactic| ideq_lemma) => `(tactic| with_reducible exact IdEq_readUntil _ _)

theorem IdEq_clse (t : Txn) : IdEq (clse t) := by
  unfold clse; ideq
macro_rules | `(tactic| ideq_lemma) => `(tactic| with_reducible exact IdEq_clse _)

theorem IdEq_readUntilCloseLoop (t : Txn) (start : Int) : ∀ fuel acc, IdEq (readUntilCloseLoop t start fuel acc) := by
  intro fuel
  induction fuel with
  | zero => intro acc; unfold readUntilCloseLoop; ideq
  | succ f ih => intro acc; unfold readUntilCloseLoop; ideq [ih]
macro_rules | `(tactic| ideq_lemma) => `(tactic| with_reducible exact IdEq_readUntilCloseLoop _ _ _ _)

theorem IdEq_readUntilClose (t : Txn) : IdEq (readUntilClose t) := by
  unfold readUntilClose; ideq
macro_rules | `(tactic| ideq_lemma) => `(tactic| with_reducible exact IdEq_readUntilClose _)

theorem IdEq_fsFlushLoop (t : Txn) : ∀ fuel fi, IdEq (fsFlushLoop t fuel fi) := by
  intro fuel
  induction fuel with
  | zero => intro fi; unfold fsFlushLoop; ideq
  | succ f ih => intro fi; unfold fsFlushLoop; ideq [ih]
macro_rules | `(tactic| ideq_lemma) => `(tactic| with_reducible exact IdEq_fsFlushLoop _ _ _)

theorem IdEq_fsFlush (t : Txn) (fi : FsInfo) : IdEq (fsFlush t fi) := by
  unfold fsFlush; ideq
macro_rules | `(tactic| ideq_lemma) => `(tactic| with_reducible exact IdEq_fsFlush _ _)

theorem IdEq_fsSend (id : SyncId) (t : Txn) (fi : FsInfo) (data : Bytes) (size : Option Nat) : IdEq (fsSend id t fi data size) := by
  unfold fsSend; ideq
macro_rules | `(tactic| ideq_lemma) => `(tactic| with_reducible exact IdEq_fsSend _ _ _ _ _)

theorem IdEq_fsReadBufferedLoop (size : Nat) (t : Txn) : ∀ fuel fi, IdEq (fsReadBufferedLoop size t fuel fi) := by
  intro fuel
  induction fuel with
  | zero => intro fi; unfold fsReadBufferedLoop; ideq
  | succ f ih => intro fi; unfold fsReadBufferedLoop; ideq [ih]
macro_rules | `(tactic| ideq_lemma) => `(tactic| with_reducible exact IdEq_fsReadBufferedLoop _ _ _ _)

theorem IdEq_fsReadBuffered (size : Nat) (t : Txn) (fi : FsInfo) : IdEq (fsReadBuffered size t fi) := by
  unfold fsReadBuffered; ideq
macro_rules | `(tactic| ideq_lemma) => `(tactic| with_reducible exact IdEq_fsReadBuffered _ _ _)

theorem IdEq_fsRead (ex : List SyncId) (t : Txn) (fi : FsInfo) : IdEq (fsRead ex t fi) := by
  unfold fsRead; ideq
macro_rules | `(tactic| ideq_lemma) => `(tactic| with_reducible exact IdEq_fsRead _ _ _)

theorem IdEq_lookupFile (id : Nat) : IdEq (lookupFile id) := by
  intro w; unfold lookupFile; split <;> rfl
macro_rules | `(tactic| ideq_lemma) => `(tactic| with_reducible exact IdEq_lookupFile _)

theorem IdEq_callProgress (cb : CbMode) (path : Bytes) (n total : Nat) : IdEq (callProgress cb path n total) := by
  unfold callProgress; ideq
macro_rules | `(tactic| ideq_lemma) => `(tactic| with_reducible exact IdEq_callProgress _ _ _ _)

theorem IdEq_pushDataLoop (devPath : Bytes) (cb : CbMode) (total chunk : Nat) (t : Txn) :
    ∀ fuel content fi, IdEq (pushDataLoop devPath cb total chunk t fuel content fi) := by
  intro fuel
  induction fuel with
  | zero => intro content fi; unfold pushDataLoop; ideq
  | succ f ih => intro content fi; unfold pushDataLoop; ideq [ih]
macro_rules | `(tactic| ideq_lemma) => `(tactic| with_reducible exact IdEq_pushDataLoop _ _ _ _ _ _ _ _)

theorem IdEq_pushStatus (t : Txn) (fi : FsInfo) : IdEq (pushStatus t fi) := by
  unfold pushStatus; ideq
macro_rules | `(tactic| ideq_lemma) => `(tactic| with_reducible exact IdEq_pushStatus _ _)

theorem IdEq_pushOne (content devPath : Bytes) (mode mtime : Nat) (cb : CbMode) (t : Txn) (fi : FsInfo) :
    IdEq (pushOne content devPath mode mtime cb t fi) := by
  unfold pushOne; ideq
macro_rules | `(tactic| ideq_lemma) => `(tactic| with_reducible exact IdEq_pushOne _ _ _ _ _ _ _)

theorem IdEq_runGuard (g : String) (p : Option Bytes) : IdEq (runGuard g p) := by
  intro w; unfold runGuard; repeat' split
  all_goals rfl
macro_rules | `(tactic| ideq_lemma) => `(tactic| with_reducible exact IdEq_runGuard _ _)

theorem IdEq_runGuards : ∀ gs p, IdEq (runGuards gs p) := by
  intro gs
  induction gs with
  | nil => intro p; unfold runGuards; ideq
  | cons g gs ih => intro p; unfold runGuards; ideq [ih]
macro_rules | `(tactic| ideq_lemma) => `(tactic| with_reducible exact IdEq_runGuards _ _)

theorem IdEq_listLoop (t : Txn) : ∀ fuel fi acc, IdEq (listLoop t fuel fi acc) := by
  intro fuel
  induction fuel with
  | zero => intro fi acc; unfold listLoop; ideq
  | succ f ih => intro fi acc; unfold listLoop; ideq [ih]
macro_rules | `(tactic| ideq_lemma) => `(tactic| with_reducible exact IdEq_listLoop _ _ _ _)

theorem IdEq_pullLoop (devPath : Bytes) (cb : CbMode) (total : Nat) (t : Txn) : ∀ fuel fi, IdEq (pullLoop devPath cb total t fuel fi) := by
  intro fuel
  induction fuel with
  | zero => intro fi; unfold pullLoop; ideq
  | succ f ih => intro fi; unfold pullLoop; ideq [ih]
macro_rules | `(tactic| ideq_lemma) => `(tactic| with_reducible exact IdEq_pullLoop _ _ _ _ _ _)

theorem IdEq_tClose : IdEq tClose := by
  intro w; unfold tClose; split <;> rfl
macro_rules | `(tactic| ideq_lemma) => `(tactic| with_reducible exact IdEq_tClose)

theorem IdEq_storeClearAll : IdEq storeClearAll := fun _ => rfl
macro_rules | `(tactic| ideq_lemma) => `(tactic| with_reducible exact IdEq_storeClearAll)

theorem IdEq_ioClose : IdEq ioClose := by
  unfold ioClose; ideq
macro_rules | `(tactic| ideq_lemma) => `(tactic| with_reducible exact IdEq_ioClose)

end Adb
