import AdbProofs.Lemmas.ConcLemmas
/-
  C06 under an arbitrary fair schedule: a finite fairness notion (`Round`, `Rounds`), the global
  measure `nu` (packets on the transport + packets parked for the readers), and the round lemma:
  a fair round strictly decreases `nu` unless the system is already quiescent.
-/
namespace Adb
namespace Conc

/-! ### Fair schedules -/

/-- one fair round for `n` readers: for every reader index `i < n` the segment contains the two
    choices `pre i`, `iter i`, in this order, as a (not necessarily contiguous) subsequence; any
    other choices may be interleaved anywhere -/
def Round (n : Nat) (seg : List Choice) : Prop :=
  ∀ i, i < n → [Choice.pre i, Choice.iter i].Sublist seg

instance (n : Nat) (seg : List Choice) : Decidable (Round n seg) := by unfold Round; infer_instance

/-- `sched` starts with `k` consecutive fair rounds (what follows the `k`-th round is arbitrary) -/
def Rounds (n : Nat) : Nat → List Choice → Prop
  | 0, _ => True
  | k + 1, sched => ∃ seg rest, sched = seg ++ rest ∧ Round n seg ∧ Rounds n k rest

theorem round_mono {n : Nat} {seg seg' : List Choice} (h : Round n seg) (hs : seg.Sublist seg') : Round n seg' :=
  fun i hi => (h i hi).trans hs

theorem round_append_right {n : Nat} {seg : List Choice} (h : Round n seg) (extra : List Choice) :
    Round n (seg ++ extra) := round_mono h (List.sublist_append_left _ _)

theorem round_append_left {n : Nat} {seg : List Choice} (h : Round n seg) (extra : List Choice) :
    Round n (extra ++ seg) := round_mono h (List.sublist_append_right _ _)

/-- appending arbitrary choices keeps a schedule fair -/
theorem rounds_append_right {n : Nat} : ∀ {k : Nat} {sched : List Choice}, Rounds n k sched →
    ∀ extra, Rounds n k (sched ++ extra) := by
  intro k
  induction k with
  | zero => intro _ _ _; trivial
  | succ k ih =>
    intro sched ⟨seg, rest, he, hr, hk⟩ extra
    exact ⟨seg, rest ++ extra, by rw [he, List.append_assoc], hr, ih hk extra⟩

/-- prepending arbitrary choices keeps a schedule fair -/
theorem rounds_append_left {n : Nat} {k : Nat} {sched : List Choice} (h : Rounds n k sched)
    (extra : List Choice) : Rounds n k (extra ++ sched) := by
  cases k with
  | zero => trivial
  | succ k =>
    obtain ⟨seg, rest, he, hr, hk⟩ := h
    exact ⟨extra ++ seg, rest, by rw [he, List.append_assoc], round_append_left hr extra, hk⟩

/-- fewer rounds are required by a weaker hypothesis -/
theorem rounds_mono {n : Nat} : ∀ {k k' : Nat} {sched : List Choice}, Rounds n k sched → k' ≤ k → Rounds n k' sched := by
  intro k
  induction k with
  | zero =>
    intro k' sched _ hle
    have : k' = 0 := by omega
    subst this; trivial
  | succ k ih =>
    intro k' sched h hle
    cases k' with
    | zero => trivial
    | succ k' =>
      obtain ⟨seg, rest, he, hr, hk⟩ := h
      exact ⟨seg, rest, he, hr, ih hk (by omega)⟩

/-- fair schedules compose -/
theorem rounds_append {n : Nat} : ∀ {k k' : Nat} {a b : List Choice}, Rounds n k a → Rounds n k' b →
    Rounds n (k + k') (a ++ b) := by
  intro k
  induction k with
  | zero =>
    intro k' a b _ hb
    rw [Nat.zero_add]
    exact rounds_append_left hb a
  | succ k ih =>
    intro k' a b ⟨seg, rest, he, hr, hk⟩ hb
    rw [Nat.add_right_comm]
    exact ⟨seg, rest ++ b, by rw [he, List.append_assoc], hr, ih hk hb⟩

/-- a concatenation of fair rounds is a fair schedule -/
theorem rounds_flatten {n : Nat} : ∀ (segs : List (List Choice)), (∀ seg ∈ segs, Round n seg) →
    Rounds n segs.length segs.flatten := by
  intro segs
  induction segs with
  | nil => intro _; trivial
  | cons seg segs ih =>
    intro h
    exact ⟨seg, segs.flatten, by simp, h seg (by simp), ih (fun x hx => h x (by simp [hx]))⟩

/-- one round-robin round: `pre 0, iter 0, pre 1, iter 1, …` -/
def rrRound (n : Nat) : List Choice := (List.range n).flatMap fun i => [Choice.pre i, Choice.iter i]

/-- the round-robin schedule of `k` rounds -/
def roundRobin (n k : Nat) : List Choice := (List.replicate k (rrRound n)).flatten

/-- "one thread runs for a long time, then the others": reader 0 runs alone for `m` rounds, then
    reader 1, … -/
def soloAll (n m : Nat) : List Choice := (List.range n).flatMap fun i => soloSched i m

theorem sublist_flatMap_of_mem {α β : Type} {f : α → List β} {l : List α} {a : α} (h : a ∈ l) :
    (f a).Sublist (l.flatMap f) := by
  induction l with
  | nil => cases h
  | cons x xs ih =>
    rw [List.flatMap_cons]
    rcases List.mem_cons.1 h with e | e
    · subst e; exact List.sublist_append_left _ _
    · exact (ih e).trans (List.sublist_append_right _ _)

theorem round_rrRound (n : Nat) : Round n (rrRound n) := fun i hi =>
  sublist_flatMap_of_mem (f := fun j => [Choice.pre j, Choice.iter j]) (a := i) (List.mem_range.2 hi)

/-- round-robin schedules are fair -/
theorem rounds_roundRobin (n k : Nat) : Rounds n k (roundRobin n k) := by
  have := rounds_flatten (n := n) (List.replicate k (rrRound n))
    (fun seg hs => by rw [(List.mem_replicate.1 hs).2]; exact round_rrRound n)
  simpa [roundRobin] using this

/-- the solo schedules of all readers, one after the other, form a fair round -/
theorem round_soloAll (n m : Nat) (hm : 0 < m) : Round n (soloAll n m) := fun i hi => by
  have h1 : [Choice.pre i, Choice.iter i].Sublist (soloSched i m) := by
    obtain ⟨m', rfl⟩ : ∃ m', m = m' + 1 := ⟨m - 1, by omega⟩
    rw [soloSched_succ]
    exact List.sublist_append_left _ _
  exact h1.trans (sublist_flatMap_of_mem (f := fun i => soloSched i m) (List.mem_range.2 hi))

/-- "every thread runs alone for a long time, one after the other", repeated `k` times, is fair -/
theorem rounds_soloAll (n m k : Nat) (hm : 0 < m) : Rounds n k (List.replicate k (soloAll n m)).flatten := by
  have := rounds_flatten (n := n) (List.replicate k (soloAll n m))
    (fun seg hs => by rw [(List.mem_replicate.1 hs).2]; exact round_soloAll n m hm)
  simpa using this

/-! ### The global measure -/

/-- number of packets parked in the store for the streams of the readers of `sys₀` -/
def pend (sys₀ : Sys) (st : Store) : Nat := (sys₀.readers.map fun ρ => (parked st ρ).length).sum

/-- the global measure: packets still on the transport plus packets parked for the readers -/
def nu (sys₀ s : Sys) : Nat := s.wire.length + pend sys₀ s.store

theorem sum_map_le {α : Type} (f g : α → Nat) : ∀ (l : List α), (∀ a ∈ l, f a ≤ g a) →
    (l.map f).sum ≤ (l.map g).sum := by
  intro l
  induction l with
  | nil => intro _; simp
  | cons x xs ih =>
    intro h
    have h1 := h x (by simp)
    have h2 := ih (fun a ha => h a (by simp [ha]))
    simp only [List.map_cons, List.sum_cons]
    omega

theorem sum_map_lt {α : Type} (f g : α → Nat) : ∀ (l : List α), (∀ a ∈ l, f a ≤ g a) →
    (∃ a ∈ l, f a < g a) → (l.map f).sum < (l.map g).sum := by
  intro l
  induction l with
  | nil => intro _ ⟨a, ha, _⟩; cases ha
  | cons x xs ih =>
    intro h ⟨a, ha, hlt⟩
    have h1 := h x (by simp)
    have h2 := sum_map_le f g xs (fun a ha => h a (by simp [ha]))
    simp only [List.map_cons, List.sum_cons]
    rcases List.mem_cons.1 ha with e | e
    · subst e; omega
    · have := ih (fun a ha => h a (by simp [ha])) ⟨a, e, hlt⟩
      omega

theorem pend_le {sys₀ : Sys} {st st' : Store}
    (h : ∀ ρ ∈ sys₀.readers, (parked st' ρ).length ≤ (parked st ρ).length) : pend sys₀ st' ≤ pend sys₀ st :=
  sum_map_le _ _ _ h

theorem pend_lt {sys₀ : Sys} {st st' : Store}
    (h : ∀ ρ ∈ sys₀.readers, (parked st' ρ).length ≤ (parked st ρ).length)
    (hlt : ∃ ρ ∈ sys₀.readers, (parked st' ρ).length < (parked st ρ).length) : pend sys₀ st' < pend sys₀ st :=
  sum_map_lt _ _ _ h hlt

/-- at most one reader of a list with distinct local ids owns a given packet -/
theorem sum_own_le_one (p : Pkt) : ∀ (l : List Reader), (l.map (·.lid)).Nodup →
    (l.map fun ρ => if ownB ρ p = true then 1 else 0).sum ≤ 1 := by
  intro l
  induction l with
  | nil => intro _; simp
  | cons x xs ih =>
    intro hn
    simp only [List.map_cons, List.nodup_cons, List.mem_map, not_exists, not_and] at hn
    simp only [List.map_cons, List.sum_cons]
    by_cases hx : ownB x p = true
    · have hz : (xs.map fun ρ => if ownB ρ p = true then 1 else 0).sum = 0 := by
        have : ∀ ρ ∈ xs, (if ownB ρ p = true then 1 else 0) ≤ (fun _ : Reader => 0) ρ := by
          intro ρ hρ
          have hne : ρ.lid ≠ x.lid := hn.1 ρ hρ
          have : ownB ρ p = false := by
            simp only [ownB, Bool.and_eq_true, beq_iff_eq] at hx
            simp [ownB, hx.1, Ne.symm hne]
          simp [this]
        have h2 := sum_map_le (fun ρ => if ownB ρ p = true then 1 else 0) (fun _ : Reader => 0) xs this
        have h3 : ∀ l : List Reader, (l.map fun _ : Reader => 0).sum = 0 := by
          intro l; induction l with
          | nil => rfl
          | cons _ _ ih => simp only [List.map_cons, List.sum_cons, ih]
        rw [h3] at h2
        omega
      simp only [hx, if_true, hz]
      omega
    · simp only [hx, Bool.false_eq_true, if_false]
      have := ih hn.2
      omega

/-- `put` parks at most one packet -/
theorem pend_put (sys₀ : Sys) (hwf : WellFormed sys₀) (st : Store) (p : Pkt) :
    pend sys₀ (st.put p.arg0 p.arg1 p.cmd p.data) ≤ pend sys₀ st + 1 ∧
    (p.cmd = Cmd.CLSE ∧ st.queue p.arg0 p.arg1 = none →
      pend sys₀ (st.put p.arg0 p.arg1 p.cmd p.data) = pend sys₀ st) := by
  constructor
  · have h1 : pend sys₀ (st.put p.arg0 p.arg1 p.cmd p.data) ≤
        (sys₀.readers.map fun ρ => (parked st ρ).length + (if ownB ρ p = true then 1 else 0)).sum := by
      apply sum_map_le
      intro ρ _
      rw [parked_put]
      split <;> split <;> simp_all
    have h2 : (sys₀.readers.map fun ρ => (parked st ρ).length + (if ownB ρ p = true then 1 else 0)).sum =
        pend sys₀ st + (sys₀.readers.map fun ρ => if ownB ρ p = true then 1 else 0).sum := by
      unfold pend
      generalize sys₀.readers = l
      induction l with
      | nil => simp
      | cons x xs ih => simp only [List.map_cons, List.sum_cons, ih]; omega
    have h3 := sum_own_le_one p sys₀.readers hwf.1
    omega
  · intro hk
    unfold pend
    congr 1
    apply List.map_congr_left
    intro ρ _
    rw [parked_put]
    simp [hk]

section
variable {sys₀ s : Sys}

theorem parked_nil_of_queue {st : Store} {r : Reader}
    (h : st.queue r.rid r.lid = none ∨ st.queue r.rid r.lid = some []) : parked st r = [] := by
  rcases h with e | e <;> simp [parked, e]

/-- handing a reader the head of its parked queue removes at least one parked packet -/
theorem pend_get (hwf : WellFormed sys₀) (h : Inv sys₀ s) {i : Nat} {r : Reader} (hr : s.readers[i]? = some r)
    {c : Cmd} {d : Bytes} {q : List QItem} {st' : Store}
    (hq : s.store.queue r.rid r.lid = some ((c, d) :: q))
    (hqq : ∀ b0 b1, st'.queue b0 b1 =
      if b0 = r.rid ∧ b1 = r.lid then (if c = Cmd.CLSE then none else some q) else s.store.queue b0 b1) :
    pend sys₀ st' < pend sys₀ s.store := by
  have key : ∀ ρ : Reader, (parked st' ρ).length ≤ (parked s.store ρ).length ∧
      (ρ.rid = r.rid ∧ ρ.lid = r.lid → (parked st' ρ).length < (parked s.store ρ).length) := by
    intro ρ
    unfold parked
    rw [hqq]
    by_cases hb : ρ.rid = r.rid ∧ ρ.lid = r.lid
    · rw [hb.1, hb.2, hq]
      by_cases hc : c = Cmd.CLSE <;> simp [hc]
    · simp [hb]
  obtain ⟨_, _, _, r₀, hm, _, e1, e2⟩ := reader_facts hwf h.static hr
  exact pend_lt (fun ρ _ => (key ρ).1) ⟨r₀, hm, (key r₀).2 ⟨e2, e1⟩⟩

theorem pend_clear (sys₀ : Sys) {st : Store} (hI : Store.Inv st) (a0 a1 : Nat) :
    pend sys₀ (st.clear a0 a1) ≤ pend sys₀ st := by
  apply pend_le
  intro ρ _
  rw [parked_clear hI]
  split <;> simp

/-- The effect of an enabled step of reader `j` on the global measure and on the other readers:
    the other readers are untouched and keep their parked packets; the step consumes something
    (`nu` decreases), or is the pre-check entering the loop, or finds nothing at all, or parks a
    packet for its owner (`nu` unchanged). -/
theorem step_fair (hwf : WellFormed sys₀) (h : Inv sys₀ s) {j : Nat} {rj : Reader} {c : Choice}
    (hr : s.readers[j]? = some rj) (hen : Enabled c j rj) :
    (∀ b, b ≠ j → (step s c).readers[b]? = s.readers[b]?) ∧
    (∀ ρ : Reader, ρ.lid ≠ rj.lid → parked s.store ρ ≠ [] → parked (step s c).store ρ ≠ []) ∧
    ( nu sys₀ (step s c) < nu sys₀ s
    ∨ (parked s.store rj = [] ∧ c = .pre j ∧
        step s c = { s with readers := s.readers.set j { rj with inLoop := true } })
    ∨ (parked s.store rj = [] ∧ c = .iter j ∧ s.wire = [] ∧ step s c = s)
    ∨ (parked s.store rj = [] ∧ c = .iter j ∧ ∃ p rest, s.wire = p :: rest ∧ ownB rj p = false ∧
        (step s c).readers = s.readers ∧ nu sys₀ (step s c) ≤ nu sys₀ s ∧
        ∀ ρ : Reader, ownB ρ p = true → parked (step s c).store ρ ≠ []) ) := by
  rcases step_enabled hwf h hr hen with ⟨cmd, d, q, st', hq, hI, hqq, he⟩ |
    ⟨hq, ⟨hc, he⟩ | ⟨hc, hw, he⟩ | ⟨hc, p, rest, hw, hown, he⟩ | ⟨hc, p, rest, hw, hown, he⟩⟩
  · rw [he]
    refine ⟨fun b hb => by simp [Ne.symm hb], ?_, Or.inl ?_⟩
    · intro ρ hne hp
      have : parked st' ρ = parked s.store ρ := by
        apply parked_of_queue_eq
        rw [hqq]; simp [hne]
      show parked st' ρ ≠ []
      rw [this]; exact hp
    · show s.wire.length + pend sys₀ st' < s.wire.length + pend sys₀ s.store
      have := pend_get hwf h hr hq hqq
      omega
  · rw [he]
    exact ⟨fun b hb => by simp [Ne.symm hb], fun ρ _ hp => hp,
      Or.inr (Or.inl ⟨parked_nil_of_queue hq, hc, rfl⟩)⟩
  · rw [he]
    exact ⟨fun b _ => rfl, fun ρ _ hp => hp, Or.inr (Or.inr (Or.inl ⟨parked_nil_of_queue hq, hc, hw, rfl⟩))⟩
  · rw [he]
    have hids : p.arg1 = rj.lid ∧ p.arg0 = rj.rid := by simpa [ownB] using hown
    refine ⟨fun b hb => by simp [Ne.symm hb], ?_, Or.inl ?_⟩
    · intro ρ hne hp
      show parked (if p.cmd = Cmd.CLSE then s.store.clear p.arg0 p.arg1 else s.store) ρ ≠ []
      split
      · rw [parked_clear h.store.1]; simp [hids, hne]; exact hp
      · exact hp
    · show rest.length + pend sys₀ (if p.cmd = Cmd.CLSE then s.store.clear p.arg0 p.arg1 else s.store)
        < s.wire.length + pend sys₀ s.store
      have : pend sys₀ (if p.cmd = Cmd.CLSE then s.store.clear p.arg0 p.arg1 else s.store) ≤ pend sys₀ s.store := by
        split
        · exact pend_clear sys₀ h.store.1 _ _
        · exact Nat.le_refl _
      rw [hw, List.length_cons]
      omega
  · have hpp := pend_put sys₀ hwf s.store p
    have hrd : (step s c).readers = s.readers := by rw [he]; exact set_self hr
    have hst : (step s c).store = s.store.put p.arg0 p.arg1 p.cmd p.data := by rw [he]
    have hwr : (step s c).wire = rest := by rw [he]
    refine ⟨fun b _ => by rw [hrd], ?_, ?_⟩
    · intro ρ _ hp
      rw [hst, parked_put]
      split
      · simp
      · exact hp
    · by_cases hk : p.cmd = Cmd.CLSE ∧ s.store.queue p.arg0 p.arg1 = none
      · refine Or.inl ?_
        simp only [nu, hst, hwr, hw, List.length_cons, hpp.2 hk]
        omega
      · refine Or.inr (Or.inr (Or.inr ⟨parked_nil_of_queue hq, hc, p, rest, hw, hown, hrd, ?_, ?_⟩))
        · simp only [nu, hst, hwr, hw, List.length_cons]
          omega
        · intro ρ hρ
          rw [hst, parked_put]
          simp [hρ, hk]

/-- no step increases the global measure -/
theorem step_nu_le (hwf : WellFormed sys₀) (h : Inv sys₀ s) (c : Choice) : nu sys₀ (step s c) ≤ nu sys₀ s := by
  rcases enabled_or_not s c with ⟨i, r, hr, hen⟩ | hdis
  · rcases (step_fair hwf h hr hen).2.2 with h1 | ⟨_, _, he⟩ | ⟨_, _, _, he⟩ | ⟨_, _, p, rest, _, _, _, h1, _⟩
    · omega
    · rw [he]; exact Nat.le_refl _
    · rw [he]; exact Nat.le_refl _
    · exact h1
  · rw [step_disabled c hdis]; exact Nat.le_refl _

theorem run_nu_le (hwf : WellFormed sys₀) : ∀ (sched : List Choice) (s : Sys), Inv sys₀ s →
    nu sys₀ (run s sched) ≤ nu sys₀ s := by
  intro sched
  induction sched with
  | nil => intro s _; exact Nat.le_refl _
  | cons c rest ih =>
    intro s h
    have h1 := step_nu_le hwf h c
    have h2 := ih (step s c) (step_inv hwf h c)
    show nu sys₀ (run (step s c) rest) ≤ nu sys₀ s
    omega

/-- a reader that is not done and has a parked packet consumes one at its next turn -/
theorem waiting_progress (hwf : WellFormed sys₀) {b : Nat} : ∀ (seg : List Choice) (s : Sys) (r : Reader),
    Inv sys₀ s → s.readers[b]? = some r → r.done = false → parked s.store r ≠ [] →
    (r.inLoop = false ∧ Choice.pre b ∈ seg ∨ r.inLoop = true ∧ Choice.iter b ∈ seg) →
    nu sys₀ (run s seg) < nu sys₀ s := by
  intro seg
  induction seg with
  | nil => intro s r _ _ _ _ hn; simp at hn
  | cons c rest ih =>
    intro s r h hr hd hp hn
    have h' := step_inv hwf h c
    show nu sys₀ (run (step s c) rest) < nu sys₀ s
    by_cases hen : Enabled c b r
    · have h1 : nu sys₀ (step s c) < nu sys₀ s := by
        rcases (step_fair hwf h hr hen).2.2 with h1 | ⟨e, _⟩ | ⟨e, _⟩ | ⟨e, _⟩
        · exact h1
        all_goals exact absurd e hp
      have := run_nu_le hwf rest _ h'
      omega
    · have hn' : r.inLoop = false ∧ Choice.pre b ∈ rest ∨ r.inLoop = true ∧ Choice.iter b ∈ rest := by
        rcases hn with ⟨hl, hm⟩ | ⟨hl, hm⟩
        · rcases List.mem_cons.1 hm with e | e
          · exact absurd ⟨hd, Or.inl ⟨e.symm, hl⟩⟩ hen
          · exact Or.inl ⟨hl, e⟩
        · rcases List.mem_cons.1 hm with e | e
          · exact absurd ⟨hd, Or.inr ⟨e.symm, hl⟩⟩ hen
          · exact Or.inr ⟨hl, e⟩
      have keep : (step s c).readers[b]? = some r ∧ parked (step s c).store r ≠ [] := by
        rcases enabled_or_not s c with ⟨j, rj, hrj, henj⟩ | hdis
        · have hjb : b ≠ j := by
            intro e; subst e; rw [hr] at hrj; cases hrj; exact hen henj
          obtain ⟨f1, f2, _⟩ := step_fair hwf h hrj henj
          have hne : r.lid ≠ rj.lid := fun e => hjb (lid_inj hwf h.static hr hrj e)
          exact ⟨by rw [f1 b hjb]; exact hr, f2 r hne hp⟩
        · rw [step_disabled c hdis]; exact ⟨hr, hp⟩
      have h1 := step_nu_le hwf h c
      have := ih (step s c) r h' keep.1 hd keep.2 hn'
      omega

/-! ### Quiescent states -/

/-- reader `r` has nothing left to obtain: it is done, or the transport is empty and nothing is parked for it -/
def Sat (s : Sys) (r : Reader) : Prop := r.done = true ∨ (s.wire = [] ∧ parked s.store r = [])

/-- every reader is done or has nothing left to obtain -/
def Quiescent (s : Sys) : Prop := ∀ (i : Nat) (r : Reader), s.readers[i]? = some r → Sat s r

/-- in a quiescent state a step can only set the `inLoop` flag of a reader that is not done -/
theorem quiescent_step (hwf : WellFormed sys₀) (h : Inv sys₀ s) (hq : Quiescent s) (c : Choice) :
    step s c = s ∨ ∃ j rj, s.readers[j]? = some rj ∧
      step s c = { s with readers := s.readers.set j { rj with inLoop := true } } := by
  rcases enabled_or_not s c with ⟨j, rj, hrj, hen⟩ | hdis
  · rcases hq j rj hrj with hd | ⟨hw, hp⟩
    · rw [hen.1] at hd; cases hd
    · rcases step_enabled hwf h hrj hen with ⟨cmd, d, q, st', hq', _, _, _⟩ |
        ⟨_, ⟨_, he⟩ | ⟨_, _, he⟩ | ⟨_, p, rest, hw', _⟩ | ⟨_, p, rest, hw', _⟩⟩
      · simp [parked, hq'] at hp
      · exact Or.inr ⟨j, rj, hrj, he⟩
      · exact Or.inl he
      · rw [hw] at hw'; cases hw'
      · rw [hw] at hw'; cases hw'
  · exact Or.inl (step_disabled c hdis)

theorem quiescent_step_q (hwf : WellFormed sys₀) (h : Inv sys₀ s) (hq : Quiescent s) (c : Choice) :
    Quiescent (step s c) := by
  rcases quiescent_step hwf h hq c with he | ⟨j, rj, hrj, he⟩
  · rw [he]; exact hq
  · rw [he]
    intro i r hr
    by_cases hij : j = i
    · subst hij
      have hr' : (s.readers.set j { rj with inLoop := true })[j]? = some r := hr
      rw [getElem?_set_self' hrj] at hr'
      cases hr'
      exact hq j rj hrj
    · have hr' : (s.readers.set j { rj with inLoop := true })[i]? = some r := hr
      rw [List.getElem?_set_ne hij] at hr'
      exact hq i r hr'

theorem quiescent_run (hwf : WellFormed sys₀) : ∀ (sched : List Choice) (s : Sys), Inv sys₀ s → Quiescent s →
    Quiescent (run s sched) := by
  intro sched
  induction sched with
  | nil => intro s _ hq; exact hq
  | cons c rest ih => intro s h hq; exact ih (step s c) (step_inv hwf h c) (quiescent_step_q hwf h hq c)

/-- in a quiescent state no step moves a packet: transport, store, lost list, and what every reader
    has been given (and whether it is done) stay as they are -/
theorem quiescent_step_same (hwf : WellFormed sys₀) (h : Inv sys₀ s) (hq : Quiescent s) (c : Choice) :
    (step s c).wire = s.wire ∧ (step s c).store = s.store ∧ (step s c).lost = s.lost ∧
    (step s c).readers.map (fun r => (r.given, r.done)) = s.readers.map (fun r => (r.given, r.done)) := by
  rcases quiescent_step hwf h hq c with he | ⟨j, rj, hrj, he⟩
  · rw [he]; exact ⟨rfl, rfl, rfl, rfl⟩
  · rw [he]
    refine ⟨rfl, rfl, rfl, ?_⟩
    show (s.readers.set j { rj with inLoop := true }).map (fun r => (r.given, r.done)) = _
    rw [List.map_set]
    exact set_self (by simp [hrj])

/-! ### A fair round makes progress -/

/-- what reader `i` (currently `r`) is still owed by the rest `seg` of the current round -/
def Need (i : Nat) (r : Reader) (seg : List Choice) : Prop :=
  [Choice.pre i, Choice.iter i].Sublist seg ∨ (r.inLoop = true ∧ Choice.iter i ∈ seg)

theorem need_tail {i : Nat} {r : Reader} {c : Choice} {rest : List Choice} (hn : Need i r (c :: rest))
    (h1 : c ≠ .pre i) (h2 : c ≠ .iter i) : Need i r rest := by
  rcases hn with hs | ⟨hl, hm⟩
  · rcases List.sublist_cons_iff.1 hs with h3 | ⟨t, e, _⟩
    · exact Or.inl h3
    · cases e; exact absurd rfl h1
  · rcases List.mem_cons.1 hm with e | e
    · exact absurd e.symm h2
    · exact Or.inr ⟨hl, e⟩

/-- the packet at the head of the transport belongs to a reader that is not done -/
theorem owner_of_head (hwf : WellFormed sys₀) (h : Inv sys₀ s) {p : Pkt} {rest : List Pkt} (hw : s.wire = p :: rest) :
    ∃ (b : Nat) (rb : Reader), s.readers[b]? = some rb ∧ ownB rb p = true ∧ rb.done = false := by
  obtain ⟨pre, hpre⟩ := h.wire
  obtain ⟨_, _, _, r₀, hm, e1, e2⟩ := hwf.2.2.1 p (by rw [hpre, hw]; simp)
  obtain ⟨b, hb⟩ := List.getElem?_of_mem hm
  obtain ⟨rb, hrb, f1, f2⟩ := inv_reader h hb
  refine ⟨b, rb, hrb, by simp [ownB, f1, f2, e1, e2], ?_⟩
  have hown : ownB rb p = true := by simp [ownB, f1, f2, e1, e2]
  obtain ⟨hE, _, hdn⟩ := h.cons b rb hrb
  cases hd : rb.done with
  | false => rfl
  | true =>
    rw [hd] at hdn
    obtain ⟨x, hx, hc⟩ := List.any_eq_true.1 hdn.symm
    obtain ⟨a, t, hab⟩ := List.append_of_mem hx
    have hpost := clse_last hwf h.static hrb (pre := a) (p := x)
      (post := t ++ parked s.store rb ++ ownOf rb s.wire ++ lostOf s rb)
      (by rw [hE, view, hab]; simp) (by simpa using hc)
    simp only [List.append_eq_nil_iff] at hpost
    have : p ∈ ownOf rb s.wire := by rw [ownOf_eq, hw]; simp [hown]
    rw [hpost.1.2] at this
    cases this

/-- The round lemma, generalised to the rest of a round: if every reader either has nothing left to
    obtain or is still owed its turn by `seg`, then running `seg` strictly decreases the global
    measure or ends in a quiescent state. -/
theorem round_progress (hwf : WellFormed sys₀) : ∀ (seg : List Choice) (s : Sys), Inv sys₀ s →
    (∀ i r, s.readers[i]? = some r → Sat s r ∨ Need i r seg) →
    nu sys₀ (run s seg) < nu sys₀ s ∨ Quiescent (run s seg) := by
  intro seg
  induction seg with
  | nil =>
    intro s _ hN
    refine Or.inr (fun i r hr => ?_)
    rcases hN i r hr with h1 | h1 | ⟨_, h1⟩
    · exact h1
    · simp at h1
    · simp at h1
  | cons c rest ih =>
    intro s h hN
    have h' := step_inv hwf h c
    have hle := step_nu_le hwf h c
    show nu sys₀ (run (step s c) rest) < nu sys₀ s ∨ Quiescent (run (step s c) rest)
    -- the induction hypothesis, once the obligation is re-established after the step
    have fin : (∀ i r, (step s c).readers[i]? = some r → Sat (step s c) r ∨ Need i r rest) →
        nu sys₀ (run (step s c) rest) < nu sys₀ s ∨ Quiescent (run (step s c) rest) := by
      intro hN'
      rcases ih _ h' hN' with h2 | h2
      · left; omega
      · right; exact h2
    rcases enabled_or_not s c with ⟨j, rj, hrj, hen⟩ | hdis
    · obtain ⟨f1, f2, f3⟩ := step_fair hwf h hrj hen
      rcases f3 with hlt | ⟨hp, hc, he⟩ | ⟨hp, hc, hw, he⟩ | ⟨hp, hc, p, wrest, hw, hown, hrd, _, hpark⟩
      · left
        have := run_nu_le hwf rest _ h'
        omega
      · -- the pre-check enters the loop
        subst hc
        apply fin
        intro i r hr
        by_cases hij : i = j
        · subst hij
          rw [he] at hr
          have hr' : (s.readers.set i { rj with inLoop := true })[i]? = some r := hr
          rw [getElem?_set_self' hrj] at hr'
          cases hr'
          rcases hN i rj hrj with hs | hs | ⟨hl, _⟩
          · left; rw [he]; exact hs
          · right
            rcases List.sublist_cons_iff.1 hs with h2 | ⟨t, e, h2⟩
            · exact Or.inl h2
            · cases e
              exact Or.inr ⟨rfl, List.singleton_sublist.1 h2⟩
          · rcases hen.2 with ⟨_, e⟩ | ⟨e, _⟩
            · rw [hl] at e; cases e
            · cases e
        · rw [f1 i hij] at hr
          rcases hN i r hr with hs | hs
          · left; rw [he]; exact hs
          · right
            exact need_tail hs (fun e => hij (by cases e; rfl)) (fun e => by cases e)
      · -- nothing to read
        subst hc
        rw [he]
        rw [he] at fin
        apply fin
        intro i r hr
        by_cases hij : i = j
        · subst hij
          rw [hrj] at hr
          cases hr
          exact Or.inl (Or.inr ⟨hw, hp⟩)
        · rcases hN i r hr with hs | hs
          · exact Or.inl hs
          · right
            exact need_tail hs (fun e => by cases e) (fun e => hij (by cases e; rfl))
      · -- a packet is parked for its owner, which will consume it before the round ends
        subst hc
        left
        obtain ⟨b, rb, hrb, hownb, hdb⟩ := owner_of_head hwf h hw
        have hbj : b ≠ j := by
          intro e; subst e; rw [hrj] at hrb; cases hrb; rw [hown] at hownb; cases hownb
        have hrb' : (step s (.iter j)).readers[b]? = some rb := by rw [hrd]; exact hrb
        have hcond : rb.inLoop = false ∧ Choice.pre b ∈ rest ∨ rb.inLoop = true ∧ Choice.iter b ∈ rest := by
          rcases hN b rb hrb with hs | hs
          · rcases hs with hs | ⟨hs, _⟩
            · rw [hdb] at hs; cases hs
            · rw [hw] at hs; cases hs
          · rcases need_tail hs (fun e => by cases e) (fun e => hbj (by cases e; rfl)) with h2 | ⟨hl, hm⟩
            · have m1 : Choice.pre b ∈ rest := h2.subset (by simp)
              have m2 : Choice.iter b ∈ rest := h2.subset (by simp)
              cases hl : rb.inLoop with
              | false => exact Or.inl ⟨rfl, m1⟩
              | true => exact Or.inr ⟨rfl, m2⟩
            · exact Or.inr ⟨hl, hm⟩
        have := waiting_progress hwf rest _ rb h' hrb' hdb (hpark rb hownb) hcond
        omega
    · rw [step_disabled c hdis]
      rw [step_disabled c hdis] at fin
      apply fin
      intro i r hr
      rcases hN i r hr with hs | hs | ⟨hl, hm⟩
      · exact Or.inl hs
      · rcases List.sublist_cons_iff.1 hs with h2 | ⟨t, e, h2⟩
        · exact Or.inr (Or.inl h2)
        · cases e
          have hne := hdis i r hr
          cases hd : r.done with
          | true => exact Or.inl (Or.inl hd)
          | false =>
            cases hl : r.inLoop with
            | false => exact absurd ⟨hd, Or.inl ⟨rfl, hl⟩⟩ hne
            | true => exact Or.inr (Or.inr ⟨hl, List.singleton_sublist.1 h2⟩)
      · rcases List.mem_cons.1 hm with e | e
        · subst e
          have hne := hdis i r hr
          cases hd : r.done with
          | true => exact Or.inl (Or.inl hd)
          | false => exact absurd ⟨hd, Or.inr ⟨rfl, hl⟩⟩ hne
        · exact Or.inr (Or.inr ⟨hl, e⟩)

/-- a full fair round strictly decreases the global measure, or ends in a quiescent state -/
theorem fair_round_progress (hwf : WellFormed sys₀) (h : Inv sys₀ s) {seg : List Choice}
    (hr : Round sys₀.readers.length seg) : nu sys₀ (run s seg) < nu sys₀ s ∨ Quiescent (run s seg) := by
  apply round_progress hwf seg s h
  intro i r hi
  have hlt : i < s.readers.length := by
    rcases Nat.lt_or_ge i s.readers.length with h1 | h1
    · exact h1
    · rw [List.getElem?_eq_none h1] at hi; cases hi
  have hlen : s.readers.length = sys₀.readers.length := by
    have := congrArg List.length h.static
    simpa using this
  exact Or.inr (Or.inl (hr i (by omega)))

/-- more fair rounds than the global measure: the run ends in a quiescent state -/
theorem rounds_quiescent (hwf : WellFormed sys₀) : ∀ (k : Nat) (sched : List Choice) (s : Sys), Inv sys₀ s →
    Rounds sys₀.readers.length k sched → nu sys₀ s < k → Quiescent (run s sched) := by
  intro k
  induction k with
  | zero => intro _ _ _ _ hk; omega
  | succ k ih =>
    intro sched s h ⟨seg, rest, he, hr, hk⟩ hlt
    rw [he, run_append]
    have h' := run_inv hwf h seg
    rcases fair_round_progress hwf h hr with h1 | h1
    · exact ih rest _ h' hk (by omega)
    · exact quiescent_run hwf rest _ h' h1

theorem nu_initial (hi : Initial sys₀) : nu sys₀ sys₀ = sys₀.wire.length := by
  obtain ⟨_, hst, _, _⟩ := hi
  have : pend sys₀ sys₀.store = 0 := by
    unfold pend
    rw [hst]
    generalize sys₀.readers = l
    induction l with
    | nil => rfl
    | cons x xs ih => simp only [List.map_cons, List.sum_cons, ih]; simp [parked, Store.queue]
  simp [nu, this]

/-- in a quiescent state no schedule moves a packet any more -/
theorem quiescent_run_same (hwf : WellFormed sys₀) : ∀ (extra : List Choice) (s : Sys), Inv sys₀ s → Quiescent s →
    (run s extra).wire = s.wire ∧ (run s extra).store = s.store ∧ (run s extra).lost = s.lost ∧
    (run s extra).readers.map (fun r => (r.given, r.done)) = s.readers.map (fun r => (r.given, r.done)) := by
  intro extra
  induction extra with
  | nil => intro s _ _; exact ⟨rfl, rfl, rfl, rfl⟩
  | cons c rest ih =>
    intro s h hq
    obtain ⟨a1, a2, a3, a4⟩ := quiescent_step_same hwf h hq c
    obtain ⟨b1, b2, b3, b4⟩ := ih (step s c) (step_inv hwf h c) (quiescent_step_q hwf h hq c)
    exact ⟨b1.trans a1, b2.trans a2, b3.trans a3, b4.trans a4⟩

/-- a reader with nothing left to obtain has the result it would have alone, unless its CLSE was lost (K1) -/
theorem sat_result (hi : Initial sys₀) (h : Inv sys₀ s) {i : Nat} {r₀ r : Reader}
    (hr₀ : sys₀.readers[i]? = some r₀) (hr : s.readers[i]? = some r) (hs : Sat s r) :
    (r.given = aloneGiven r₀ sys₀.wire ∧ r.done = (aloneGiven r₀ sys₀.wire).any (·.cmd == Cmd.CLSE))
      ∨ lostOf s r₀ ≠ [] := by
  have hm : r₀ ∈ sys₀.readers := List.mem_of_getElem? hr₀
  have hE := inv_cons₀ h hr₀ hr
  have hdn := (h.cons i r hr).2.2
  obtain ⟨e1, e2⟩ := inv_reader_ids h hr₀ hr
  rw [aloneGiven_eq_ownOf hi.1 hm]
  rcases hs with hd | ⟨hw, hp⟩
  · left
    have hd' := hd
    rw [hdn, List.any_eq_true] at hd'
    obtain ⟨p, hp, hc⟩ := hd'
    obtain ⟨a, b, hab⟩ := List.append_of_mem hp
    have hpost := hi.1.2.2.2 r₀ hm a p (b ++ parked s.store r₀ ++ ownOf r₀ s.wire ++ lostOf s r₀)
      (by rw [hE, hab]; simp) (by simpa using hc)
    simp only [List.append_eq_nil_iff] at hpost
    have hg : r.given = ownOf r₀ sys₀.wire := by
      rw [hE, hpost.1.1.2, hpost.1.2, hpost.2]; simp
    exact ⟨hg, by rw [← hg]; exact hdn⟩
  · by_cases hl : lostOf s r₀ = []
    · left
      have hp' : parked s.store r₀ = [] := by rw [← parked_congr e1 e2]; exact hp
      have hg : r.given = ownOf r₀ sys₀.wire := by
        rw [hE, hl, hp', hw]; simp [ownOf]
      exact ⟨hg, by rw [← hg]; exact hdn⟩
    · exact Or.inr hl

end

/-! ### The concrete systems and schedules of the non-vacuity examples -/

/-- two readers (streams (rid 11, lid 1) and (rid 12, lid 2)); the device interleaves the two streams,
    so each reader takes packets of the other stream off the transport -/
def sysFair : Sys :=
  { wire := [⟨.WRTE, 12, 2, [1]⟩, ⟨.WRTE, 11, 1, [2]⟩, ⟨.WRTE, 12, 2, [3]⟩, ⟨.CLSE, 12, 2, []⟩,
             ⟨.WRTE, 11, 1, [4]⟩, ⟨.CLSE, 11, 1, []⟩],
    readers := [{ lid := 1, rid := 11 }, { lid := 2, rid := 12 }] }

/-- an irregular fair schedule: seven rounds of different shapes, with repeated, out-of-phase and
    out-of-range choices interleaved -/
def segsMixed : List (List Choice) :=
  let a : List Choice := [.iter 1, .pre 1, .pre 0, .iter 1, .iter 1, .iter 0]
  let b : List Choice := [.pre 0, .pre 1, .iter 0, .pre 7, .iter 1]
  let c : List Choice := [.pre 1, .iter 1, .iter 1, .pre 0, .iter 0, .iter 0]
  [a, b, c, b, a, c, b]

end Conc
end Adb
