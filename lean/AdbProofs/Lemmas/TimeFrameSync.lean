import AdbProofs.Lemmas.TimeFrameOps
/-
  The time frame (`TF`, see TimeFrame.lean) for the FileSync layer (`_filesync_flush`, `_filesync_send`,
  `_filesync_read_buffered`, `_filesync_read`, `_push`) and the API operations `stat`, `list`, `pull`, `push`.
  Record loops (`list`, `_pull`) may complete iterations from the receive buffer without any transport
  activity: those iterations take no time, and the loop fuel they need is paid by the delivered payload bytes
  (`Room`, `rxBytes`).
-/
namespace Adb

variable {P : TP} {X : Int}

/-! ### `_filesync_flush` -/

theorem TFc_fsFlushLoop (t : Txn) (hrt : t.rt = some P.R) (htt : t.tt = some P.τ) (hX : P.W ≤ X) :
    ∀ n fi, TFc (Room n 0) P X (fsFlushLoop t n fi) := by
  intro n
  induction n with
  | zero => intro fi; exact TFc_room_zero
  | succ n ih =>
    intro fi
    unfold fsFlushLoop
    refine TFc_bind_progress (b' := fun _ => 0) (by tf_side) (by tf) (fun w v w1 hp h => ?_) ?_
    · have := readUntil_room hp h; omega
    · intro v
      tfc [ih]

theorem TF_fsFlush (t : Txn) (fi : FsInfo) (hrt : t.rt = some P.R) (htt : t.tt = some P.τ) (hX : P.W ≤ X) :
    TF P X (fsFlush t fi) := by
  unfold fsFlush
  refine TF_bind (by tf_side) (by tf) fun _ => ?_
  exact TF_get_world (by tf_side) fun wg => TFc_fsFlushLoop t hrt htt hX wg.fuel fi
macro_rules | `(tactic| tf_lemma) => `(tactic| (with_reducible apply TF_fsFlush) <;> tf_side)

theorem TF_fsSend (id : SyncId) (t : Txn) (fi : FsInfo) (data : Bytes) (size : Option Nat)
    (hrt : t.rt = some P.R) (htt : t.tt = some P.τ) (hX : P.W ≤ X) : TF P X (fsSend id t fi data size) := by
  unfold fsSend
  tf
macro_rules | `(tactic| tf_lemma) => `(tactic| (with_reducible apply TF_fsSend) <;> tf_side)

/-! ### `_filesync_read_buffered`, `_filesync_read` -/

theorem TFc_fsReadBufferedLoop (size : Nat) (t : Txn) (hrt : t.rt = some P.R) (htt : t.tt = some P.τ) (hX : P.W ≤ X) :
    ∀ n fi, TFc (Room n 0) P X (fsReadBufferedLoop size t n fi) := by
  intro n
  induction n with
  | zero => intro fi; exact TFc_room_zero
  | succ n ih =>
    intro fi
    unfold fsReadBufferedLoop
    refine TFc_ite ?_ (by tfc)
    refine TFc_bind_progress (b' := fun _ => 0) (by tf_side) (by tf) (fun w v w1 hp h => ?_) ?_
    · have := readUntil_room hp h; omega
    · intro v
      tfc [ih]

theorem TF_fsReadBuffered (size : Nat) (t : Txn) (fi : FsInfo) (hrt : t.rt = some P.R) (htt : t.tt = some P.τ)
    (hX : P.W ≤ X) : TF P X (fsReadBuffered size t fi) := by
  unfold fsReadBuffered
  exact TF_get_world (by tf_side) fun wg => TFc_fsReadBufferedLoop size t hrt htt hX wg.fuel fi
macro_rules | `(tactic| tf_lemma) => `(tactic| (with_reducible apply TF_fsReadBuffered) <;> tf_side)

theorem TF_fsRead (ex : List SyncId) (t : Txn) (fi : FsInfo) (hrt : t.rt = some P.R) (htt : t.tt = some P.τ)
    (hX : P.W ≤ X) : TF P X (fsRead ex t fi) := by
  unfold fsRead
  tf
macro_rules | `(tactic| tf_lemma) => `(tactic| (with_reducible apply TF_fsRead) <;> tf_side)

/-! ### the receive buffer never holds more than what was delivered -/

theorem readUntil_rxTotal {ex : List Cmd} {t : Txn} {w w1 : World} {c : Cmd} {d : Bytes} (hl : w.locks = [])
    (h : readUntil ex t w = (.ok (c, d), w1)) : w.rxTotal + 1 + d.length = w1.rxTotal := by
  obtain ⟨h1, h2⟩ := readUntil_progress h hl
  unfold World.rxTotal; omega

theorem fsFlushLoop_buf (t : Txn) : ∀ n (fi fi' : FsInfo) (w w1 : World),
    fsFlushLoop t n fi w = (.ok fi', w1) → w.locks = [] →
    fi'.recvBuf.length + w.rxTotal ≤ fi.recvBuf.length + w1.rxTotal := by
  intro n
  induction n with
  | zero => intro fi fi' w w1 h; simp [fsFlushLoop] at h
  | succ n ih =>
    intro fi fi' w w1 h hl
    unfold fsFlushLoop at h
    obtain ⟨⟨c, d⟩, w2, hu, hrest⟩ := bind_ok_inv h
    have hp := readUntil_rxTotal hl hu
    have hl2 : w2.locks = [] := by rw [Fr.locks_of (Fr_readUntil _ t) hu]; exact hl
    simp only at hrest
    split at hrest
    · simp only [pure_run, Prod.mk.injEq, Except.ok.injEq] at hrest
      obtain ⟨rfl, rfl⟩ := hrest
      simp only; omega
    · have := ih _ _ _ _ hrest hl2
      simp only [List.length_append] at this
      omega

theorem fsFlush_buf {t : Txn} {fi fi' : FsInfo} {w w1 : World} (h : fsFlush t fi w = (.ok fi', w1)) (hl : w.locks = []) :
    fi'.recvBuf.length + w.rxTotal ≤ fi.recvBuf.length + w1.rxTotal := by
  unfold fsFlush at h
  obtain ⟨_, w2, hs, hrest⟩ := bind_ok_inv h
  have hl2 : w2.locks = [] := by rw [Fr.locks_of (Fr_ioSend _ t) hs]; exact hl
  have he := ((Fr_ioSend _ t).ext hs).rxTotal_le
  rw [bind_run_ok (M.get_run _)] at hrest
  have := fsFlushLoop_buf t _ _ _ _ _ hrest hl2
  omega

theorem fsSend_buf {id : SyncId} {t : Txn} {fi fi' : FsInfo} {data : Bytes} {size : Option Nat} {w w1 : World}
    (h : fsSend id t fi data size w = (.ok fi', w1)) (hl : w.locks = []) :
    fi'.recvBuf.length + w.rxTotal ≤ fi.recvBuf.length + w1.rxTotal := by
  unfold fsSend at h
  split at h <;>
  ( obtain ⟨fi1, w2, hs, hrest⟩ := bind_ok_inv h
    have h1 : fi1.recvBuf.length + w.rxTotal ≤ fi.recvBuf.length + w2.rxTotal := by
      first
        | exact fsFlush_buf hs hl
        | ( simp only [pure_run, Prod.mk.injEq, Except.ok.injEq] at hs
            obtain ⟨rfl, rfl⟩ := hs
            omega )
    simp only at hrest
    split at hrest
    · simp [bind_run] at hrest
    · simp only [pure_run, Prod.mk.injEq, Except.ok.injEq] at hrest
      obtain ⟨rfl, rfl⟩ := hrest
      simpa using h1 )

theorem fsReadBufferedLoop_buf (size : Nat) (t : Txn) : ∀ n (fi fi' : FsInfo) (out : Bytes) (w w1 : World),
    fsReadBufferedLoop size t n fi w = (.ok (out, fi'), w1) → w.locks = [] →
    fi'.recvBuf.length + size + w.rxTotal ≤ fi.recvBuf.length + w1.rxTotal := by
  intro n
  induction n with
  | zero => intro fi fi' out w w1 h; simp [fsReadBufferedLoop] at h
  | succ n ih =>
    intro fi fi' out w w1 h hl
    unfold fsReadBufferedLoop at h
    split at h
    · obtain ⟨⟨c, d⟩, w2, hu, hrest⟩ := bind_ok_inv h
      have hp := readUntil_rxTotal hl hu
      have hl2 : w2.locks = [] := by rw [Fr.locks_of (Fr_readUntil _ t) hu]; exact hl
      have := ih _ _ _ _ _ hrest hl2
      simp only [List.length_append] at this
      omega
    · next hge =>
      simp only [pure_run, Prod.mk.injEq, Except.ok.injEq] at h
      obtain ⟨⟨rfl, rfl⟩, rfl⟩ := h
      simp only [List.length_drop]
      omega

theorem fsReadBuffered_buf {size : Nat} {t : Txn} {fi fi' : FsInfo} {out : Bytes} {w w1 : World}
    (h : fsReadBuffered size t fi w = (.ok (out, fi'), w1)) (hl : w.locks = []) :
    fi'.recvBuf.length + size + w.rxTotal ≤ fi.recvBuf.length + w1.rxTotal := by
  unfold fsReadBuffered at h
  rw [bind_run_ok (M.get_run _)] at h
  exact fsReadBufferedLoop_buf size t _ _ _ _ _ _ h hl

theorem SyncFmt.size_pos (f : SyncFmt) : 1 ≤ f.size := by cases f <;> decide

/-- the part of `_filesync_read` after the optional flush -/
theorem fsReadTail_buf {ex : List SyncId} {t : Txn} {fi1 fi' : FsInfo} {r : SyncRec} {w2 w1 : World} {k : M (SyncRec × FsInfo)}
    (hk : k = (do
      let (hdrBytes, fi) ← fsReadBuffered fi1.fmt.size t fi1
      let header := unpackWords (fi.fmt.size / 4) hdrBytes
      match SyncId.ofWire? (header.headD 0) with
      | none => M.throw .pyKeyError
      | some cid =>
        let readData := cid ≠ SyncId.STAT
        let (data, fi) ← if readData then fsReadBuffered (header.getLastD 0) t fi else pure ([], fi)
        if !ex.contains cid then
          if cid = SyncId.FAIL then M.throw (.adbCommandFailure data)
          else M.throw .invalidResponse
        if !readData then pure (⟨cid, header.drop 1, none⟩, fi)
        else pure (⟨cid, (header.drop 1).dropLast, some data⟩, fi)))
    (h : k w2 = (.ok (r, fi'), w1)) (hl : w2.locks = []) :
    fi'.recvBuf.length + 1 + w2.rxTotal ≤ fi1.recvBuf.length + w1.rxTotal := by
  subst hk
  obtain ⟨⟨hdr, fi2⟩, w3, hb, hrest⟩ := bind_ok_inv h
  have h2 := fsReadBuffered_buf hb hl
  have hl3 : w3.locks = [] := by rw [Fr.locks_of (Fr_fsReadBuffered _ t fi1) hb]; exact hl
  have hsz := SyncFmt.size_pos fi1.fmt
  simp only at hrest
  rcases hcid : SyncId.ofWire? ((unpackWords (fi2.fmt.size / 4) hdr).headD 0) with _ | cid
  · rw [hcid] at hrest; simp at hrest
  · rw [hcid] at hrest
    simp only at hrest
    have key : ∀ (x : Bytes × FsInfo) (w4 : World) (k : M (SyncRec × FsInfo)),
        k = (if (!ex.contains cid) = true then
              if cid = SyncId.FAIL then do
                M.throw (Err.adbCommandFailure x.fst)
                if (!decide (cid ≠ SyncId.STAT)) = true then
                    pure
                      ({ id := cid, fields := List.drop 1 (unpackWords (fi2.fmt.size / 4) hdr), data := none }, x.snd)
                  else
                    pure
                      ({ id := cid, fields := (List.drop 1 (unpackWords (fi2.fmt.size / 4) hdr)).dropLast,
                          data := some x.fst },
                        x.snd)
              else do
                M.throw Err.invalidResponse
                if (!decide (cid ≠ SyncId.STAT)) = true then
                    pure
                      ({ id := cid, fields := List.drop 1 (unpackWords (fi2.fmt.size / 4) hdr), data := none }, x.snd)
                  else
                    pure
                      ({ id := cid, fields := (List.drop 1 (unpackWords (fi2.fmt.size / 4) hdr)).dropLast,
                          data := some x.fst },
                        x.snd)
            else
              if (!decide (cid ≠ SyncId.STAT)) = true then
                pure ({ id := cid, fields := List.drop 1 (unpackWords (fi2.fmt.size / 4) hdr), data := none }, x.snd)
              else
                pure
                  ({ id := cid, fields := (List.drop 1 (unpackWords (fi2.fmt.size / 4) hdr)).dropLast,
                      data := some x.fst },
                    x.snd)) →
        k w4 = (.ok (r, fi'), w1) → fi' = x.snd ∧ w1 = w4 := by
      intro x w4 k hk hkr
      subst hk
      split at hkr
      · split at hkr <;> simp [bind_run] at hkr
      · split at hkr <;>
        ( simp only [pure_run, Prod.mk.injEq, Except.ok.injEq] at hkr
          exact ⟨hkr.1.2.symm, hkr.2.symm⟩ )
    split at hrest
    · obtain ⟨x, w4, hd, hrest⟩ := bind_ok_inv hrest
      have h3 := fsReadBuffered_buf (out := x.1) (fi' := x.2) hd hl3
      obtain ⟨rfl, rfl⟩ := key x w4 _ rfl hrest
      omega
    · obtain ⟨x, w4, hd, hrest⟩ := bind_ok_inv hrest
      simp only [pure_run, Prod.mk.injEq, Except.ok.injEq] at hd
      obtain ⟨rfl, rfl⟩ := hd
      obtain ⟨rfl, rfl⟩ := key _ _ _ rfl hrest
      omega

/-- a record read consumes at least one byte of what is buffered or delivered meanwhile -/
theorem fsRead_buf {ex : List SyncId} {t : Txn} {fi fi' : FsInfo} {r : SyncRec} {w w1 : World}
    (h : fsRead ex t fi w = (.ok (r, fi'), w1)) (hl : w.locks = []) :
    fi'.recvBuf.length + 1 + w.rxTotal ≤ fi.recvBuf.length + w1.rxTotal := by
  unfold fsRead at h
  split at h
  · obtain ⟨fi1, w2, hs, hrest⟩ := bind_ok_inv h
    have h1 := fsFlush_buf hs hl
    have hl2 : w2.locks = [] := by rw [Fr.locks_of (Fr_fsFlush t fi) hs]; exact hl
    have := fsReadTail_buf rfl hrest hl2
    omega
  · obtain ⟨fi1, w2, hs, hrest⟩ := bind_ok_inv h
    simp only [pure_run, Prod.mk.injEq, Except.ok.injEq] at hs
    obtain ⟨rfl, rfl⟩ := hs
    exact fsReadTail_buf rfl hrest hl

/-! ### `_push` -/

theorem TQ_callProgress (cb : CbMode) (path : Bytes) (n total : Nat) : TQ (callProgress cb path n total) := by
  unfold callProgress
  tq
macro_rules | `(tactic| tq_lemma) => `(tactic| with_reducible exact TQ_callProgress _ _ _ _)

theorem TQ_lookupFile (id : Nat) : TQ (lookupFile id) := by
  intro w
  unfold lookupFile
  split <;> exact ⟨rfl, rfl, rfl, rfl, rfl, rfl, rfl, rfl, ⟨_, Adds.rfl' w⟩, rfl⟩
macro_rules | `(tactic| tq_lemma) => `(tactic| with_reducible exact TQ_lookupFile _)

/-- the data loop of `_push` runs once per chunk: loop fuel above the content length suffices -/
theorem TF_pushDataLoop (devPath : Bytes) (cb : CbMode) (total chunk : Nat) (t : Txn) (hrt : t.rt = some P.R)
    (htt : t.tt = some P.τ) (hX : P.W ≤ X) (hchunk : 1 ≤ chunk) :
    ∀ n content fi, content.length < n → TF P X (pushDataLoop devPath cb total chunk t n content fi) := by
  intro n
  induction n with
  | zero => intro content fi h; omega
  | succ n ih =>
    intro content fi hlen
    unfold pushDataLoop
    by_cases hd : (content.take chunk).isEmpty
    · simp only [hd, if_true]
      tf
    · simp only [hd]
      have hne : content ≠ [] := by
        intro h; subst h; simp at hd
      have hlt : (content.drop chunk).length < n := by
        have : 0 < content.length := List.length_pos_iff.2 hne
        simp only [List.length_drop]; omega
      have ih' := ih (content.drop chunk)
      refine TF_bind (by tf_side) (by tf) fun fi1 => TF_bind (by tf_side) (by tf) fun _ => ih' fi1 hlt

theorem TF_pushStatus (t : Txn) (fi : FsInfo) (hrt : t.rt = some P.R) (htt : t.tt = some P.τ) (hX : P.W ≤ X) :
    TF P X (pushStatus t fi) := by
  unfold pushStatus
  tf
macro_rules | `(tactic| tf_lemma) => `(tactic| (with_reducible apply TF_pushStatus) <;> tf_side)

theorem maxChunkSize_pos (m : Nat) : 1 ≤ maxChunkSize m := by
  unfold maxChunkSize
  simp only
  split
  · decide
  · omega

theorem TF_pushOne (content devPath : Bytes) (mode mtime : Nat) (cb : CbMode) (t : Txn) (fi : FsInfo)
    (hrt : t.rt = some P.R) (htt : t.tt = some P.τ) (hX : P.W ≤ X) (hlen : content.length ≤ P.F) :
    TF P X (pushOne content devPath mode mtime cb t fi) := by
  unfold pushOne
  refine TF_bind (by tf_side) (by tf) fun fi1 => ?_
  refine TF_get_world_ge (by tf_side) (fun wg => ?_) fun wg hF => ?_
  · fr
  · dsimp only
    refine TF_bind (by tf_side)
      (TF_pushDataLoop devPath cb content.length _ t hrt htt hX (maxChunkSize_pos _) wg.fuel content fi1 (by omega))
      fun fi2 => ?_
    tf
macro_rules | `(tactic| tf_lemma) => `(tactic| (with_reducible apply TF_pushOne) <;> tf_side)

/-! ### `stat`, `list` -/

theorem TF_devStat (devPath : Bytes) (tt rt : Timeout) (heff : EffT P tt rt none) (hX : P.W ≤ X) :
    TF P X (devStat devPath tt rt) := by
  unfold devStat
  refine TF_bind (by tf_side) (by tf) fun _ => ?_
  refine TF_openStream_bind _ tt rt none heff hX (fun t => by fr) ?_
  intro t hrt htt _
  tf
macro_rules | `(tactic| tf_lemma) => `(tactic| (with_reducible apply TF_devStat) <;> tf_side)

theorem fsRead_room {ex : List SyncId} {t : Txn} {fi : FsInfo} {w w1 : World} {v : SyncRec × FsInfo} (hp : TPre P w)
    (h : fsRead ex t fi w = (.ok v, w1)) : v.2.recvBuf.length + w.rxTotal + 1 ≤ fi.recvBuf.length + w1.rxTotal := by
  obtain ⟨r, fi'⟩ := v
  have := fsRead_buf h hp.locks
  simp only; omega

theorem TFc_listLoop (t : Txn) (hrt : t.rt = some P.R) (htt : t.tt = some P.τ) (hX : P.W ≤ X) :
    ∀ n fi acc, TFc (Room n fi.recvBuf.length) P X (listLoop t n fi acc) := by
  intro n
  induction n with
  | zero => intro fi acc; exact TFc_room_zero
  | succ n ih =>
    intro fi acc
    unfold listLoop
    refine TFc_bind_progress (b' := fun v => v.2.recvBuf.length) (by tf_side) (by tf)
      (fun w v w1 hp h => fsRead_room hp h) ?_
    intro v
    tfc [ih]

/-- `x` produces the FileSync state, then a record loop runs with fuel `n`: what `x` left in the receive buffer
    was delivered during `x`, so the room of the whole covers the loop -/
theorem TFc_send_then_loop {β} {n : Nat} {x : M FsInfo} {f : FsInfo → M β} (hX : 0 ≤ X) (hx : TF P X x)
    (hbuf : ∀ w fi w1, TPre P w → x w = (.ok fi, w1) → fi.recvBuf.length + w.rxTotal ≤ w1.rxTotal)
    (hf : ∀ fi, TFc (Room n fi.recvBuf.length) P X (f fi)) : TFc (Room n 0) P X (x >>= f) :=
  TFc_bind hX hx (fun w fi w1 w' hp hxa _ hc => by
    have := hbuf w fi w1 hp hxa
    unfold Room at hc ⊢; omega) hf

theorem TF_devList (devPath : Bytes) (tt rt : Timeout) (heff : EffT P tt rt none) (hX : P.W ≤ X) :
    TF P X (devList devPath tt rt) := by
  unfold devList
  refine TF_bind (by tf_side) (by tf) fun _ => ?_
  refine TF_openStream_bind _ tt rt none heff hX (fun t => by fr) ?_
  intro t hrt htt _
  refine TF_get_world (by tf_side) fun wg => ?_
  dsimp only
  refine TFc_send_then_loop (by tf_side) (by tf) (fun w fi w1 hp h => ?_) fun fi => ?_
  · have := fsSend_buf h hp.locks
    simpa using this
  · refine TFc_bind_left_room (by tf_side) (TFc_listLoop t hrt htt hX wg.fuel fi []) fun files => ?_
    tf

/-! ### `pull` -/

theorem TFc_pullLoop (devPath : Bytes) (cb : CbMode) (total : Nat) (t : Txn) (hrt : t.rt = some P.R)
    (htt : t.tt = some P.τ) (hX : P.W ≤ X) :
    ∀ n fi, TFc (Room n fi.recvBuf.length) P X (pullLoop devPath cb total t n fi) := by
  intro n
  induction n with
  | zero => intro fi; exact TFc_room_zero
  | succ n ih =>
    intro fi
    unfold pullLoop
    refine TFc_bind_progress (b' := fun v => v.2.recvBuf.length) (by tf_side) (by tf)
      (fun w v w1 hp h => fsRead_room hp h) ?_
    intro v
    tfc [ih]

/-- `x` produces the FileSync state, then `let w ← get` and a record loop with fuel `w.fuel` -/
theorem TF_send_get_loop {β} {x : M FsInfo} {g : Nat → FsInfo → M β} (hX : 0 ≤ X) (hx : TF P X x) (hFx : Fr x)
    (hbuf : ∀ w fi w1, TPre P w → x w = (.ok fi, w1) → fi.recvBuf.length + w.rxTotal ≤ w1.rxTotal)
    (hg : ∀ n fi, TFc (Room n fi.recvBuf.length) P X (g n fi)) :
    TF P X (x >>= fun fi => M.get >>= fun w => g w.fuel fi) := by
  intro w r w' h
  rcases bind_any_inv h with ⟨e, he, rfl⟩ | ⟨fi1, w1, hxa, hrest⟩
  · exact (hx w _ w' he).congr rfl (by rw [isHang_error, isHang_error])
  · rw [bind_run_ok (M.get_run _)] at hrest
    have h1 := hx w _ w1 hxa
    obtain ⟨e2, hc⟩ := hg w1.fuel fi1 w1 r w' hrest
    refine ⟨h1.ext.trans e2, fun hp hb => ?_⟩
    have hfu : w1.fuel = w.fuel := by have := (hFx w).fuel; rw [hxa] at this; exact this
    have room0 := Room.of_budget (h1.ext.trans e2) hb hX
    have hb1 := hbuf w fi1 w1 hp hxa
    have room : Room w1.fuel fi1.recvBuf.length w1 w' := by
      unfold Room at room0 ⊢; rw [hfu]; omega
    exact (TFat.seq h1 ⟨e2, hc room⟩ (Int.le_refl _) hX (by simp) (fun _ h => h) (fun h => ⟨rfl, h⟩)).2 hp hb

theorem TF_pullTail (devPath : Bytes) (cb : CbMode) (total : Nat) (t : Txn) (fi : FsInfo) (hrt : t.rt = some P.R)
    (htt : t.tt = some P.τ) (hX : P.W ≤ X) (hfi : fi.recvBuf = []) :
    TF P X (fsSend .RECV t fi devPath >>= fun fi => M.get >>= fun w => pullLoop devPath cb total t w.fuel fi) := by
  refine TF_send_get_loop (g := fun n fi => pullLoop devPath cb total t n fi) (by tf_side) (by tf) (by fr)
    (fun w fi1 w1 hp h => ?_) (fun n fi => TFc_pullLoop devPath cb total t hrt htt hX n fi)
  have := fsSend_buf h hp.locks
  rw [hfi] at this
  simpa using this

theorem EffT.le {tt rt total : Timeout} (h : EffT P tt rt total) : P.τ ≤ P.R := by
  obtain ⟨t0, h0, h1, h2⟩ := h
  generalize (if tt.isSome then tt else P.dtt) = a at h0
  cases a <;> cases rt <;> cases total <;>
    simp [Txn.make, pyMin, bind, Except.bind, pure, Except.pure] at h0 <;>
    subst h0 <;> simp at h1 h2 <;> omega

/-- re-opening a stream with the stored timeouts of a transaction gives the same effective timeouts -/
theorem EffT.self (h : P.τ ≤ P.R) : EffT P (some P.τ) (some P.R) none :=
  ⟨⟨none, none, some P.τ, some P.R, none⟩, by
    simp [Txn.make, pyMin, bind, Except.bind, pure, Except.pure]; omega, rfl, rfl⟩

theorem TF_pullInner (devPath : Bytes) (cb : CbMode) (t : Txn) (fi : FsInfo) (hrt : t.rt = some P.R)
    (htt : t.tt = some P.τ) (hX : P.W ≤ X) (hfi : fi.recvBuf = []) (hle : P.τ ≤ P.R) :
    TF P X (pullInner devPath cb t fi) := by
  have heff : EffT P t.tt t.rt none := by rw [hrt, htt]; exact EffT.self hle
  have htail := fun total => TF_pullTail (X := X) devPath cb total t fi hrt htt hX hfi
  unfold pullInner
  tf [htail]

theorem TF_devPull (devPath : Bytes) (cb : CbMode) (tt rt : Timeout) (heff : EffT P tt rt none) (hX : P.W + P.W ≤ X) :
    TF P X (devPull devPath cb tt rt) := by
  have hW := P.W_pos
  unfold devPull
  refine TF_bind (by omega) (by tf) fun _ => ?_
  refine TF_bind (by omega) (by tf) fun _ => ?_
  refine TF_openStream_bind _ tt rt none heff (by omega) (fun t => by fr) ?_
  intro t hrt htt _
  refine TF_bind (by omega) (by tf) fun wg => ?_
  refine TF_bind (by omega) ?_ fun _ => by tf
  exact (TF_tryFinally (X1 := P.W) (X2 := P.W) (by omega) (by omega)
    (TF_pullInner devPath cb t _ hrt htt (Int.le_refl _) rfl heff.le)
    (TF_clse t hrt htt (Int.le_refl _))).mono hX

/-! ### `push` -/

/-- the static budget `F` covers every local file -/
def TP.FilesFit (P : TP) : Prop := ∀ e ∈ P.files, e.2.length ≤ P.F

theorem lookupFile_fit (hfit : P.FilesFit) {id : Nat} {w w1 : World} {content : Bytes} (hp : TPre P w)
    (h : lookupFile id w = (.ok content, w1)) : content.length ≤ P.F := by
  unfold lookupFile at h
  split at h
  · next e c hfind =>
    simp only [Prod.mk.injEq, Except.ok.injEq] at h
    obtain ⟨rfl, _⟩ := h
    have hm := List.mem_of_find?_eq_some hfind
    rw [hp.files] at hm
    exact hfit _ hm
  · simp at h

theorem TF_pushFile (fid : Nat) (devPath : Bytes) (mode mtime : Nat) (cb : CbMode) (tt rt : Timeout)
    (heff : EffT P tt rt none) (hX : P.W ≤ X) (hfit : P.FilesFit) :
    TF P X (pushFile fid devPath mode mtime cb tt rt) := by
  unfold pushFile
  refine TF_bind_val (Q := fun content => content.length ≤ P.F) (by tf_side) (by tf)
    (fun w content w1 hp h => lookupFile_fit hfit hp h) (fun content => by fr) ?_
  intro content hlen
  refine TF_openStream_bind _ tt rt none heff hX (fun t => by fr) ?_
  intro t hrt htt _
  tf
macro_rules | `(tactic| tf_lemma) => `(tactic| (with_reducible apply TF_pushFile) <;> tf_side)

theorem TF_pushFiles (devPath : Bytes) (mode mtime : Nat) (cb : CbMode) (tt rt : Timeout)
    (heff : EffT P tt rt none) (hX : P.W ≤ X) (hfit : P.FilesFit) :
    ∀ es, TF P X (pushFiles devPath mode mtime cb tt rt es) := by
  intro es
  induction es with
  | nil => unfold pushFiles; tf
  | cons e es ih => obtain ⟨n, f⟩ := e; unfold pushFiles; tf [ih]
macro_rules | `(tactic| tf_lemma) => `(tactic| (with_reducible apply TF_pushFiles) <;> tf_side)

theorem TF_devPush (src : LocalRef) (devPath : Bytes) (mode mtime : Nat) (cb : CbMode) (tt rt : Timeout)
    (heff : EffT P tt rt none) (hX : P.W ≤ X) (hfit : P.FilesFit) :
    TF P X (devPush src devPath mode mtime cb tt rt) := by
  unfold devPush
  tf

end Adb
