import AdbProofs.Lemmas.SrcLoops
import AdbModel.Generated.Src
/-
  C03 (tie to the source, by proof) — the byte reader `_AdbIOManager._read_bytes_from_device` (both twins). harness/pytrans.py extracts, from the CURRENT
  source on every run, the loop of that method as three pure functions: the loop condition, the ARGUMENTS of the one transport call the body makes, and the
  rest of the body as a function of the loop state and of the results of its effects (`bulk_read`'s return value, `time.time()`); `break` / falling off the
  end become tagged results. The theorems say these are exactly the model's loop (`readBytesLoop` = request, then `readStep`; lemma `readBytesLoop_step`):
  in particular the source asks the transport for EXACTLY the bytes still missing ("never requests more bytes than remain in the current packet"), appends
  what it gets, and gives up exactly when the model does. What remains modelled-not-proved is the loop skeleton itself (`while cond: body`, one transport call
  per iteration — the extractor insists on that shape) and the transport.
  Only property theorems and non-vacuity examples live here.
-/
set_option linter.unusedSimpArgs false
namespace Adb
open Py

/-- The loop continues exactly while bytes are missing (sync). -/
theorem C03_src_read_cond_sync (info data start temp : Py.Val) (rem : Nat) :
    Src.AdbDevice_read_bytes_from_device_cond info data (.int rem) start temp = .ok (.bool (decide (0 < rem))) := by
  simp [Src.AdbDevice_read_bytes_from_device_cond, pysimp]

/-- The transport call of an iteration is `bulk_read(length, adb_info.transport_timeout_s)` with `length` = the bytes still missing (sync):
    never more than remain of what was asked for. -/
theorem C03_src_read_request_sync (cls : String) (fs : List (String × Py.Val)) (t : Txn) (data start temp : Py.Val) (rem : Nat)
    (htt : alookupS "transport_timeout_s" fs = some (encTimeout t.tt)) :
    Src.AdbDevice_read_bytes_from_device_eff0_args (.obj cls fs) data (.int rem) start temp
      = .ok (.tuple [.str "bulk_read", .int rem, encTimeout t.tt]) := by
  simp [Src.AdbDevice_read_bytes_from_device_eff0_args, pysimp, htt]

/-- One iteration (sync): with `rem > 0` bytes missing, `temp` (at most `rem` bytes) returned by the transport and the clock at `now`, the source's loop body
    does exactly the model's `readStep`: it appends `temp`; leaves the loop when nothing is missing any more; otherwise raises `AdbTimeoutError` iff
    `now - start > read_timeout_s` (`TypeError` when that timeout is `None`), else goes round again with the new state. -/
theorem C03_src_read_iter_sync (cls : String) (fs : List (String × Py.Val)) (t : Txn) (tmp0 : Py.Val) (rem : Nat) (acc temp : Bytes) (start now : Int)
    (hle : temp.length ≤ rem) (hrt : alookupS "read_timeout_s" fs = some (encTimeout t.rt)) :
    Src.AdbDevice_read_bytes_from_device_iter (.obj cls fs) (.bytearray acc) (.int rem) (.int start) tmp0 (.bytes temp) (.int now)
      = (match readStep t start now rem acc temp with
         | .done s => .ok (.tuple [.str "break", .bytearray s.2, .int s.1, .bytes temp])
         | .again s => .ok (.tuple [.str "continue", .bytearray s.2, .int s.1, .bytes temp])
         | .fail .adbTimeout => .error .adbTimeout
         | .fail _ => .error .typeError) := by
  have hsub : (rem : Int) - (temp.length : Int) = ((rem - temp.length : Nat) : Int) := by omega
  cases hr : t.rt with
  | none =>
    by_cases h1 : rem - temp.length = 0 <;> by_cases he : temp.isEmpty <;>
      simp [Src.AdbDevice_read_bytes_from_device_iter, pysimp, hrt, hr, encTimeout, readStep, hsub, h1, he]
  | some l =>
    by_cases h1 : rem - temp.length = 0 <;> by_cases he : temp.isEmpty <;> by_cases h2 : now - start > l <;>
      simp [Src.AdbDevice_read_bytes_from_device_iter, pysimp, hrt, hr, encTimeout, readStep, hsub, h1, he, h2]

/-- The same three statements for the async twin `_AdbIOManagerAsync._read_bytes_from_device`. -/
theorem C03_src_read_cond_async (info data start temp : Py.Val) (rem : Nat) :
    Src.AdbDeviceAsync_read_bytes_from_device_cond info data (.int rem) start temp = .ok (.bool (decide (0 < rem))) := by
  simp [Src.AdbDeviceAsync_read_bytes_from_device_cond, pysimp]

theorem C03_src_read_request_async (cls : String) (fs : List (String × Py.Val)) (t : Txn) (data start temp : Py.Val) (rem : Nat)
    (htt : alookupS "transport_timeout_s" fs = some (encTimeout t.tt)) :
    Src.AdbDeviceAsync_read_bytes_from_device_eff0_args (.obj cls fs) data (.int rem) start temp
      = .ok (.tuple [.str "bulk_read", .int rem, encTimeout t.tt]) := by
  simp [Src.AdbDeviceAsync_read_bytes_from_device_eff0_args, pysimp, htt]

theorem C03_src_read_iter_async (cls : String) (fs : List (String × Py.Val)) (t : Txn) (tmp0 : Py.Val) (rem : Nat) (acc temp : Bytes) (start now : Int)
    (hle : temp.length ≤ rem) (hrt : alookupS "read_timeout_s" fs = some (encTimeout t.rt)) :
    Src.AdbDeviceAsync_read_bytes_from_device_iter (.obj cls fs) (.bytearray acc) (.int rem) (.int start) tmp0 (.bytes temp) (.int now)
      = (match readStep t start now rem acc temp with
         | .done s => .ok (.tuple [.str "break", .bytearray s.2, .int s.1, .bytes temp])
         | .again s => .ok (.tuple [.str "continue", .bytearray s.2, .int s.1, .bytes temp])
         | .fail .adbTimeout => .error .adbTimeout
         | .fail _ => .error .typeError) := by
  have hsub : (rem : Int) - (temp.length : Int) = ((rem - temp.length : Nat) : Int) := by omega
  cases hr : t.rt with
  | none =>
    by_cases h1 : rem - temp.length = 0 <;> by_cases he : temp.isEmpty <;>
      simp [Src.AdbDeviceAsync_read_bytes_from_device_iter, pysimp, hrt, hr, encTimeout, readStep, hsub, h1, he]
  | some l =>
    by_cases h1 : rem - temp.length = 0 <;> by_cases he : temp.isEmpty <;> by_cases h2 : now - start > l <;>
      simp [Src.AdbDeviceAsync_read_bytes_from_device_iter, pysimp, hrt, hr, encTimeout, readStep, hsub, h1, he, h2]

/-- The model side of the tie (restated from Lemmas/SrcLoops.lean so that it is audited with the property): the model's loop is "request `rem` bytes, then `readStep`". -/
theorem C03_model_read_loop_is_step (t : Txn) (start : Int) (fuel rem : Nat) (acc : Bytes) (w : World) :
    readBytesLoop t start (fuel + 1) rem acc w =
      if rem = 0 then (.ok acc, w) else
      match bulkRead rem t.tt { w with trace := .req rem rem :: w.trace } with
      | (.error e, w1) => (.error e, w1)
      | (.ok temp, w1) =>
        match readStep t start w1.now rem acc temp with
        | .done s => (.ok s.2, w1)
        | .again s => readBytesLoop t start fuel s.1 s.2 w1
        | .fail e => (.error e, w1) := readBytesLoop_step t start fuel rem acc w

/-! ### Non-vacuity: the last fragment of a 24-byte header, a fragment that leaves bytes missing in time, and one that is too late -/
example : readStep ⟨some 1, none, some 5, some 10, none⟩ 100 103 4 [1, 2] [3, 4, 5, 6] = .done (0, [1, 2, 3, 4, 5, 6]) := by rfl
example : readStep ⟨some 1, none, some 5, some 10, none⟩ 100 103 4 [1, 2] [3] = .again (3, [1, 2, 3]) := by rfl
example : readStep ⟨some 1, none, some 5, some 10, none⟩ 100 111 4 [1, 2] [3] = .fail .adbTimeout := by rfl

end Adb
