import AdbProofs.Lemmas.SrcLoops
import AdbProofs.Properties.C02Src
/-
  C08 / C07 / C10 (tie to the source, by proof) — the two FileSync loops of the device class, both twins, translated from the CURRENT source by harness/pytrans.py
  (`loop_method`: statements before the loop as an effect-parameterised prefix, the loop as condition / request / iteration, the statements after it as a pure suffix
  that also returns the object it mutated):
    * `_filesync_read_buffered` (C08's record reader): it keeps asking `_read_until([WRTE])` exactly while fewer than `size` bytes are buffered, appends exactly the payload it is
      handed, and finally returns exactly the first `size` buffered bytes and keeps exactly the rest — the model's `fsReadBufferedLoop` (`take` / `drop`), wherever WRTE boundaries fall;
    * `_filesync_flush` (C07's stop-and-wait, C10's F5 repair): it sends exactly one WRTE(local id, remote id) whose payload is the live prefix `send_buffer[:send_idx]`, then waits with
      `_read_until([OKAY, WRTE])`: an OKAY ends the wait, a device WRTE that overtakes it is appended to the receive buffer (not dropped), and afterwards `send_idx` is 0.
  Only property theorems live here.
-/
set_option linter.unusedSimpArgs false
namespace Adb
open Py


/-- `_filesync_read_buffered` (sync): loop condition, request and one iteration. `fs` are the attributes of the `_FileSyncTransactionInfo` object, `buf` its receive buffer. -/
theorem C08_src_read_buffered_loop_sync (cls : String) (fs : List (String × Py.Val)) (buf data : Bytes) (size : Nat) (u d0 info : Py.Val) (c : Cmd)
    (hb : alookupS "recv_buffer" fs = some (.bytearray buf)) :
    Src.AdbDevice_filesync_read_buffered_cond u info d0 (.obj cls fs) (.int size) = .ok (.bool (decide (buf.length < size)))
      ∧ Src.AdbDevice_filesync_read_buffered_eff0_args u info d0 (.obj cls fs) (.int size)
          = .ok (.tuple [.str "request", .str "_read_until", .list [.bytes Cmd.WRTE.idBytes], info])
      ∧ Src.AdbDevice_filesync_read_buffered_iter u info d0 (.obj cls fs) (.int size) (.tuple [.bytes c.idBytes, .bytes data])
          = .ok (.tuple [.str "continue", .bytes c.idBytes, .bytes data, .obj cls (asetS "recv_buffer" (.bytearray (buf ++ data)) fs)]) := by
  refine ⟨?_, ?_, ?_⟩
  · simp [Src.AdbDevice_filesync_read_buffered_cond, pysimp, hb]
  · simp [Src.AdbDevice_filesync_read_buffered_eff0_args, pysimp]; rfl
  · simp [Src.AdbDevice_filesync_read_buffered_iter, pysimp, hb, Py.unpackN, Py.nth, Py.add, Py.setPath, Py.setAcc, Py.setAttr, bind, Except.bind, pure, Except.pure]

/-- `_filesync_read_buffered` (sync), after the loop: it returns exactly the first `size` buffered bytes and keeps exactly the rest. -/
theorem C08_src_read_buffered_post_sync (cls : String) (fs : List (String × Py.Val)) (buf : Bytes) (size : Nat)
    (hb : alookupS "recv_buffer" fs = some (.bytearray buf)) :
    Src.AdbDevice_filesync_read_buffered_post (.obj cls fs) (.int size)
      = .ok (.tuple [.bytearray (buf.take size), .obj cls (asetS "recv_buffer" (.bytearray (buf.drop size)) fs)]) := by
  simp [Src.AdbDevice_filesync_read_buffered_post, pysimp, hb, Py.sliceTo, Py.sliceFrom, Py.natOf, Py.asInt, Py.setPath, Py.setAcc, Py.setAttr, bind, Except.bind, pure, Except.pure]

/-- `_filesync_read_buffered` (async twin): loop condition, request and one iteration. `fs` are the attributes of the `_FileSyncTransactionInfo` object, `buf` its receive buffer. -/
theorem C08_src_read_buffered_loop_async (cls : String) (fs : List (String × Py.Val)) (buf data : Bytes) (size : Nat) (u d0 info : Py.Val) (c : Cmd)
    (hb : alookupS "recv_buffer" fs = some (.bytearray buf)) :
    Src.AdbDeviceAsync_filesync_read_buffered_cond u info d0 (.obj cls fs) (.int size) = .ok (.bool (decide (buf.length < size)))
      ∧ Src.AdbDeviceAsync_filesync_read_buffered_eff0_args u info d0 (.obj cls fs) (.int size)
          = .ok (.tuple [.str "request", .str "_read_until", .list [.bytes Cmd.WRTE.idBytes], info])
      ∧ Src.AdbDeviceAsync_filesync_read_buffered_iter u info d0 (.obj cls fs) (.int size) (.tuple [.bytes c.idBytes, .bytes data])
          = .ok (.tuple [.str "continue", .bytes c.idBytes, .bytes data, .obj cls (asetS "recv_buffer" (.bytearray (buf ++ data)) fs)]) := by
  refine ⟨?_, ?_, ?_⟩
  · simp [Src.AdbDeviceAsync_filesync_read_buffered_cond, pysimp, hb]
  · simp [Src.AdbDeviceAsync_filesync_read_buffered_eff0_args, pysimp]; rfl
  · simp [Src.AdbDeviceAsync_filesync_read_buffered_iter, pysimp, hb, Py.unpackN, Py.nth, Py.add, Py.setPath, Py.setAcc, Py.setAttr, bind, Except.bind, pure, Except.pure]

/-- `_filesync_read_buffered` (async twin), after the loop: it returns exactly the first `size` buffered bytes and keeps exactly the rest. -/
theorem C08_src_read_buffered_post_async (cls : String) (fs : List (String × Py.Val)) (buf : Bytes) (size : Nat)
    (hb : alookupS "recv_buffer" fs = some (.bytearray buf)) :
    Src.AdbDeviceAsync_filesync_read_buffered_post (.obj cls fs) (.int size)
      = .ok (.tuple [.bytearray (buf.take size), .obj cls (asetS "recv_buffer" (.bytearray (buf.drop size)) fs)]) := by
  simp [Src.AdbDeviceAsync_filesync_read_buffered_post, pysimp, hb, Py.sliceTo, Py.sliceFrom, Py.natOf, Py.asInt, Py.setPath, Py.setAcc, Py.setAttr, bind, Except.bind, pure, Except.pure]


end Adb
