import AdbProofs.Lemmas.SrcEnc
import AdbModel.Generated.Src
/-
  C07 (tie to the source, by proof) — translations of the CURRENT source (harness/pytrans.py, regenerated on every run) of
  `_FileSyncTransactionInfo.__init__`, `_FileSyncTransactionInfo.can_add_to_send_buffer` and `AdbDevice(Async).max_chunk_size` compute exactly
  the model's `SyncFmt.size` / `FsInfo.canAdd` / `maxChunkSize`: the flush threshold and the DATA chunk size that the buffering, payload-bound
  and chunking theorems of C07.lean are about are the ones the source contains now.
  Only property theorems and non-vacuity examples live here.
-/
set_option linter.unusedSimpArgs false
namespace Adb
open Py

/-- the `struct` format string of a receive format, as the bytes object `constants.FILESYNC_*_FORMAT` -/
def SyncFmt.pyFormat : SyncFmt → Py.Val
  | .list => .bytes (ascii Generated.FILESYNC_LIST_FORMAT)
  | .pull => .bytes (ascii Generated.FILESYNC_PULL_FORMAT)
  | .push => .bytes (ascii Generated.FILESYNC_PUSH_FORMAT)
  | .stat => .bytes (ascii Generated.FILESYNC_STAT_FORMAT)

/-- The flush threshold: on an object whose `recv_message_size`, `send_idx`, `_maxdata` are the naturals `sz`, `idx`, `md`, the source's
    `can_add_to_send_buffer(n)` is `idx + (sz + n) < md` — the model's `FsInfo.canAdd` (with `idx` = length of the live send-buffer prefix). -/
theorem C07_src_can_add (cls : String) (fs : List (String × Py.Val)) (sz idx md n : Nat)
    (h1 : alookupS "recv_message_size" fs = some (.int sz)) (h2 : alookupS "send_idx" fs = some (.int idx))
    (h3 : alookupS "_maxdata" fs = some (.int md)) :
    Src.FileSyncTransactionInfo_can_add_to_send_buffer (.obj cls fs) (.int n) = .ok (.bool (decide (idx + (sz + n) < md))) := by
  simp [Src.FileSyncTransactionInfo_can_add_to_send_buffer, pysimp, h1, h2, h3]
  try omega

/-- The same statement against the model structure: for a model `FsInfo` and an object carrying its three numbers, source and model agree. -/
theorem C07_src_can_add_model (cls : String) (fs : List (String × Py.Val)) (fi : FsInfo) (n : Nat)
    (h1 : alookupS "recv_message_size" fs = some (.int fi.fmt.size)) (h2 : alookupS "send_idx" fs = some (.int fi.sendBuf.length))
    (h3 : alookupS "_maxdata" fs = some (.int fi.maxdata)) :
    Src.FileSyncTransactionInfo_can_add_to_send_buffer (.obj cls fs) (.int n) = .ok (.bool (fi.canAdd n)) :=
  C07_src_can_add cls fs _ _ _ n h1 h2 h3

/-- The constructor: for each of the four receive formats (the GENERATED `constants.FILESYNC_*_FORMAT` strings) and any `maxdata`, the source's
    `__init__` stores `recv_message_size = SyncFmt.size` (so `struct.calcsize` of the format is what the model uses), `send_idx = 0`, an empty
    receive buffer, a zeroed send buffer of `maxdata` bytes and `_maxdata = maxdata`. -/
theorem C07_src_fsinfo_init (cls : String) (f : SyncFmt) (md : Nat) :
    ∃ fs, Src.FileSyncTransactionInfo_init (.obj cls []) f.pyFormat (.int md) = .ok (Py.Val.none, .obj cls fs)
      ∧ alookupS "recv_message_size" fs = some (.int f.size) ∧ alookupS "send_idx" fs = some (.int 0)
      ∧ alookupS "recv_buffer" fs = some (.bytearray []) ∧ alookupS "send_buffer" fs = some (.bytearray (List.replicate md 0))
      ∧ alookupS "_maxdata" fs = some (.int md) ∧ alookupS "recv_message_format" fs = some f.pyFormat := by
  have hl : fmtWords (ascii Generated.FILESYNC_LIST_FORMAT) = some (Generated.FILESYNC_LIST_FORMAT_SIZE / 4) := by decide
  have hp : fmtWords (ascii Generated.FILESYNC_PULL_FORMAT) = some (Generated.FILESYNC_PULL_FORMAT_SIZE / 4) := by decide
  have hq : fmtWords (ascii Generated.FILESYNC_PUSH_FORMAT) = some (Generated.FILESYNC_PUSH_FORMAT_SIZE / 4) := by decide
  have hs : fmtWords (ascii Generated.FILESYNC_STAT_FORMAT) = some (Generated.FILESYNC_STAT_FORMAT_SIZE / 4) := by decide
  cases f <;>
    simp [Src.FileSyncTransactionInfo_init, SyncFmt.pyFormat, SyncFmt.size, bytearrayOf, structCalcsize, fmtBytes, setPath, setAcc, setAttr, asetS,
      alookupS, bind, Except.bind, pure, Except.pure, hl, hp, hq, hs] <;> decide

/-- `max_chunk_size` (sync class): on an object whose `_maxdata` is the natural `md`, the source computes the model's `maxChunkSize md`
    (`min(MAX_CHUNK_SIZE, md // 2) or MAX_PUSH_DATA`, with the constants GENERATED from constants.py). -/
theorem C07_src_max_chunk_sync (cls : String) (fs : List (String × Py.Val)) (md : Nat) (h : alookupS "_maxdata" fs = some (.int md)) :
    Src.AdbDevice_max_chunk_size (.obj cls fs) = .ok (.int (maxChunkSize md)) := by
  have hc : Src.const_MAX_CHUNK_SIZE = .int (Generated.MAX_CHUNK_SIZE : Nat) := rfl
  have hp : Src.const_MAX_PUSH_DATA = .int (Generated.MAX_PUSH_DATA : Nat) := rfl
  simp only [Src.AdbDevice_max_chunk_size, pysimp, h, hc, hp, maxChunkSize]
  generalize md / 2 = k
  generalize Generated.MAX_CHUNK_SIZE = c
  generalize Generated.MAX_PUSH_DATA = p
  have h3 : min (c : Int) (k : Int) = ((min c k : Nat) : Int) := by omega
  have h3' : min (k : Int) (c : Int) = ((min c k : Nat) : Int) := by omega
  simp only [h3, h3']
  by_cases hz : min c k = 0
  · have : ((min c k : Nat) : Int) = 0 := by omega
    simp [hz, this]
  · have : ¬ ((min c k : Nat) : Int) = 0 := by omega
    simp [hz, this]

/-- `max_chunk_size` (async class): the same. -/
theorem C07_src_max_chunk_async (cls : String) (fs : List (String × Py.Val)) (md : Nat) (h : alookupS "_maxdata" fs = some (.int md)) :
    Src.AdbDeviceAsync_max_chunk_size (.obj cls fs) = .ok (.int (maxChunkSize md)) := by
  have hc : Src.const_MAX_CHUNK_SIZE = .int (Generated.MAX_CHUNK_SIZE : Nat) := rfl
  have hp : Src.const_MAX_PUSH_DATA = .int (Generated.MAX_PUSH_DATA : Nat) := rfl
  simp only [Src.AdbDeviceAsync_max_chunk_size, pysimp, h, hc, hp, maxChunkSize]
  generalize md / 2 = k
  generalize Generated.MAX_CHUNK_SIZE = c
  generalize Generated.MAX_PUSH_DATA = p
  have h3 : min (c : Int) (k : Int) = ((min c k : Nat) : Int) := by omega
  have h3' : min (k : Int) (c : Int) = ((min c k : Nat) : Int) := by omega
  simp only [h3, h3']
  by_cases hz : min c k = 0
  · have : ((min c k : Nat) : Int) = 0 := by omega
    simp [hz, this]
  · have : ¬ ((min c k : Nat) : Int) = 0 := by omega
    simp [hz, this]

/-! ### Non-vacuity: the hypotheses are met by concrete objects (and the theorems then give the concrete values) -/
example : Src.AdbDevice_max_chunk_size (.obj "AdbDevice" [("_maxdata", .int 4096)]) = .ok (.int 2048) := by
  rw [C07_src_max_chunk_sync "AdbDevice" _ 4096 rfl]; rfl
example : Src.AdbDevice_max_chunk_size (.obj "AdbDevice" [("_maxdata", .int 1)]) = .ok (.int (Generated.MAX_PUSH_DATA : Nat)) := by
  rw [C07_src_max_chunk_sync "AdbDevice" _ 1 rfl]; rfl
example : Src.FileSyncTransactionInfo_can_add_to_send_buffer (.obj "_FileSyncTransactionInfo"
    [("recv_message_size", .int 8), ("send_idx", .int 4080), ("_maxdata", .int 4096)]) (.int 8) = .ok (.bool false) :=
  C07_src_can_add "_FileSyncTransactionInfo" _ 8 4080 4096 8 rfl rfl rfl
example : Src.FileSyncTransactionInfo_can_add_to_send_buffer (.obj "_FileSyncTransactionInfo"
    [("recv_message_size", .int 8), ("send_idx", .int 4080), ("_maxdata", .int 4096)]) (.int 7) = .ok (.bool true) :=
  C07_src_can_add "_FileSyncTransactionInfo" _ 8 4080 4096 7 rfl rfl rfl

end Adb
