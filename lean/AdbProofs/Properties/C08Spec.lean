import AdbProofs.Lemmas.SyncParse
/-
  The executable specification function the driver evaluates on the implementation's observed runs
  (`AdbModel/Spec.lean`) IS the function the property theorems are stated against.
-/
namespace Adb

/-- the C08/C09/C10 record parser is the reference parser of `C08_fsRead_parses` -/
theorem C08_spec_parse (fmt : SyncFmt) (bs : Bytes) :
    (match Spec.parse fmt bs with
      | .more => SR.Parsed.more
      | .badId w => SR.Parsed.badId w
      | .record r rest => SR.Parsed.record r rest) = SR.parse fmt bs := by
  unfold Spec.parse SR.parse
  by_cases h1 : bs.length < fmt.size
  · simp [h1]
  · simp only [h1, if_false]
    cases h2 : SyncId.ofWire? ((unpackWords (fmt.size / 4) (List.take fmt.size bs)).headD 0) with
    | none => simp
    | some cid =>
      simp only
      by_cases h3 : cid = SyncId.STAT
      · simp [h3]
      · simp only [h3, if_false]
        by_cases h4 : (List.drop fmt.size bs).length < (unpackWords (fmt.size / 4) (List.take fmt.size bs)).getLastD 0
        · simp only [h4, if_true]
        · simp only [h4, if_false]


end Adb
