import AdbModel
/-
  C16 — the async API is behaviourally identical to the sync API.
  There is exactly ONE model; `AdbDevice` and `AdbDeviceAsync` (and the two TCP transports) are both
  checked against it on identical scenario lines, and against each other directly.  The theorems
  here are the (small) logical steps that turn "both correspond to the model" into "they agree",
  plus the structural twin facts that can be extracted exactly from the two source files.
-/
namespace Adb

/-- The model is a function of the scenario: a history of API calls from a given world has exactly
    one outcome (results and final world).  (Trivial by construction — stated because it is the step
    the argument below rests on.) -/
theorem C16_model_deterministic (ops : List ApiOp) (w : World) (r₁ r₂ : List (Except Err Val) × World)
    (h₁ : runHistory ops w = r₁) (h₂ : runHistory ops w = r₂) : r₁ = r₂ := h₁ ▸ h₂

/-- If the observables of both implementations equal the model's on a scenario, the two
    implementations agree on it.  All other property theorems therefore transfer to BOTH twins
    through the same correspondence; nothing is proved twice. -/
theorem C16_agree {Scn Obs : Type} (sync async model : Scn → Obs) (s : Scn)
    (hs : sync s = model s) (ha : async s = model s) : sync s = async s := hs.trans ha.symm

/-- …and conversely a disagreement between the twins on a scenario means at least one of them
    deviates from the model there (so a one-sided change is always seen by the correspondence of
    the changed twin). -/
theorem C16_disagreement_localises {Scn Obs : Type} (sync async model : Scn → Obs) (s : Scn)
    (h : sync s ≠ async s) : sync s ≠ model s ∨ async s ≠ model s := by
  by_cases hs : sync s = model s
  · right; intro ha; exact h (hs.trans ha.symm)
  · left; exact hs

/-- Structural twin facts regenerated from `adb_device.py` and `adb_device_async.py` on every run:
    same guard prefix for every public operation, same lock nesting, same calls under the store
    lock and under the id lock. -/
theorem C16_twin_facts :
    Generated.guardsSync = Generated.guardsAsync
      ∧ Generated.lockEdgesSync = Generated.lockEdgesAsync
      ∧ Generated.storeLockCallsSync = Generated.storeLockCallsAsync
      ∧ Generated.localIdLockCallsSync = Generated.localIdLockCallsAsync := by
  decide

end Adb
