import AdbProofs.Lemmas.SrcLoops
import AdbModel.Generated.Src
/-
  C15 (tie to the source, by proof) — the write loop `_AdbIOManager._write_all` (the F1 repair; both twins). As for C03Src, harness/pytrans.py extracts from the
  CURRENT source the argument tuple of the one transport call an iteration makes and the rest of the body as a pure function of the loop state and of the effect
  results (`bulk_write`'s return value, `time.time()`). The theorems say this is exactly the model's `writeAllLoop` (= `bulk_write(data, tt)`, then `writeStep`):
  the source offers the transport exactly the bytes not yet accepted, stops only when the reported count covers them all (or is `None`), continues with exactly the
  unaccepted suffix, and gives up exactly when the model does. The write-loop theorems of C15.lean (completeness / clean prefix) are therefore about this loop body.
  Only property theorems and non-vacuity examples live here.
-/
set_option linter.unusedSimpArgs false
namespace Adb
open Py

/-- `_write_all` loops unconditionally (`while True`) — it can only leave through the body (sync / async). -/
theorem C15_src_write_cond (info data nw start : Py.Val) :
    Src.AdbDevice_write_all_cond info data nw start = .ok (.bool true) ∧ Src.AdbDeviceAsync_write_all_cond info data nw start = .ok (.bool true) := by
  constructor <;> simp [Src.AdbDevice_write_all_cond, Src.AdbDeviceAsync_write_all_cond, pysimp]

/-- The transport call of an iteration is `bulk_write(data, adb_info.transport_timeout_s)` with `data` = exactly the bytes not yet accepted (sync / async). -/
theorem C15_src_write_request (cls : String) (fs : List (String × Py.Val)) (t : Txn) (data nw start : Py.Val)
    (htt : alookupS "transport_timeout_s" fs = some (encTimeout t.tt)) :
    Src.AdbDevice_write_all_eff0_args (.obj cls fs) data nw start = .ok (.tuple [.str "bulk_write", data, encTimeout t.tt])
      ∧ Src.AdbDeviceAsync_write_all_eff0_args (.obj cls fs) data nw start = .ok (.tuple [.str "bulk_write", data, encTimeout t.tt]) := by
  constructor <;> simp [Src.AdbDevice_write_all_eff0_args, Src.AdbDeviceAsync_write_all_eff0_args, pysimp, htt]

/-- the count a transport reports: a number, or `None` for transports that do not report one -/
def encCount : Option Nat → Py.Val
  | none => .none
  | some k => .int k

/-- One iteration (sync): after the transport reported `nw`, the source's loop body does exactly the model's `writeStep`: it returns when the count is `None` or
    covers all of `data`; otherwise it keeps exactly the unaccepted suffix `data[nw:]`, raises `AdbTimeoutError` iff `now - start > read_timeout_s` (`TypeError`
    when that is `None`) and else goes round again. -/
theorem C15_src_write_iter_sync (cls : String) (fs : List (String × Py.Val)) (t : Txn) (nw0 : Py.Val) (data : Bytes) (nw : Option Nat) (start now : Int)
    (hrt : alookupS "read_timeout_s" fs = some (encTimeout t.rt)) :
    Src.AdbDevice_write_all_iter (.obj cls fs) (.bytes data) nw0 (.int start) (encCount nw) (.int now)
      = (match writeStep t start now data nw with
         | .done d => .ok (.tuple [.str "return", .none, .bytes d, encCount nw])
         | .again d => .ok (.tuple [.str "continue", .bytes d, encCount nw])
         | .fail .adbTimeout => .error .adbTimeout
         | .fail _ => .error .typeError) := by
  cases nw with
  | none => simp [Src.AdbDevice_write_all_iter, pysimp, encCount, writeStep]
  | some k =>
    cases hr : t.rt with
    | none =>
      by_cases h1 : k ≥ data.length <;>
        simp [Src.AdbDevice_write_all_iter, pysimp, encCount, writeStep, hrt, hr, encTimeout, h1]
    | some l =>
      by_cases h1 : k ≥ data.length <;> by_cases h2 : now - start > l <;>
        simp [Src.AdbDevice_write_all_iter, pysimp, encCount, writeStep, hrt, hr, encTimeout, h1, h2]

/-- One iteration (async twin): the same. -/
theorem C15_src_write_iter_async (cls : String) (fs : List (String × Py.Val)) (t : Txn) (nw0 : Py.Val) (data : Bytes) (nw : Option Nat) (start now : Int)
    (hrt : alookupS "read_timeout_s" fs = some (encTimeout t.rt)) :
    Src.AdbDeviceAsync_write_all_iter (.obj cls fs) (.bytes data) nw0 (.int start) (encCount nw) (.int now)
      = (match writeStep t start now data nw with
         | .done d => .ok (.tuple [.str "return", .none, .bytes d, encCount nw])
         | .again d => .ok (.tuple [.str "continue", .bytes d, encCount nw])
         | .fail .adbTimeout => .error .adbTimeout
         | .fail _ => .error .typeError) := by
  cases nw with
  | none => simp [Src.AdbDeviceAsync_write_all_iter, pysimp, encCount, writeStep]
  | some k =>
    cases hr : t.rt with
    | none =>
      by_cases h1 : k ≥ data.length <;>
        simp [Src.AdbDeviceAsync_write_all_iter, pysimp, encCount, writeStep, hrt, hr, encTimeout, h1]
    | some l =>
      by_cases h1 : k ≥ data.length <;> by_cases h2 : now - start > l <;>
        simp [Src.AdbDeviceAsync_write_all_iter, pysimp, encCount, writeStep, hrt, hr, encTimeout, h1, h2]

/-- The model side of the tie: the model's write loop is "offer `data` to the transport, then `writeStep`". -/
theorem C15_model_write_loop_is_step (t : Txn) (start : Int) (fuel : Nat) (data : Bytes) (w : World) :
    writeAllLoop t start (fuel + 1) data w =
      match bulkWrite data t.tt w with
      | (.error e, w1) => (.error e, w1)
      | (.ok nw, w1) =>
        match writeStep t start w1.now data nw with
        | .done _ => (.ok (), w1)
        | .again d => writeAllLoop t start fuel d w1
        | .fail e => (.error e, w1) := writeAllLoop_step t start fuel data w

/-! ### Non-vacuity: a short write that continues with the suffix, a complete one, a transport that reports nothing, a short write past the deadline -/
example : writeStep ⟨some 1, none, some 5, some 10, none⟩ 100 101 [1, 2, 3, 4] (some 1) = .again [2, 3, 4] := by rfl
example : writeStep ⟨some 1, none, some 5, some 10, none⟩ 100 101 [1, 2, 3, 4] (some 4) = .done [1, 2, 3, 4] := by rfl
example : writeStep ⟨some 1, none, some 5, some 10, none⟩ 100 101 [1, 2, 3, 4] none = .done [1, 2, 3, 4] := by rfl
example : writeStep ⟨some 1, none, some 5, some 10, none⟩ 100 111 [1, 2, 3, 4] (some 0) = .fail .adbTimeout := by rfl

end Adb
