import AdbProofs.Lemmas.TimeFrameApi
import AdbProofs.Lemmas.SilentFrame
/-
  C11 (whole operations) — the per-wait bounds of C11.lean lifted to WHOLE API operations by a compositional
  "time frame" proved once per model function (helper lemmas: AdbProofs/Lemmas/TimeFrame*.lean).

  Setting (as in C11.lean): virtual clock `World.now` in ticks; `R` = effective read timeout, `τ` = effective
  transport timeout, both numbers ≥ 0; conforming transport: every completed call takes between 1 and `D`
  ticks.  These are bundled in `P : TP` (fields `R τ D`, the device object's default transport timeout `dtt`,
  the local files, and a static loop-budget part `F`, used by `push` only).
      `P.W = R + 2 * (R + max D τ)`   one wait of `_AdbIOManager.read` (C11_ioRead_bound)
      `P.S = R + max D τ`             one write wait of `_write_all`      (C11_writeAll_bound)
  Accounting: every successful wait delivers exactly one packet to the operation (a `deliver` event of the
  trace) and every `_send` is one `tx` event (one write wait for the header, one more for a non-empty payload).
  For the events `evs` an operation added to the trace:
      `rxCount evs` = packets delivered, `txCount evs` = write waits of the messages sent (each 1 or 2),
      `rxBytes evs` = payload bytes delivered.
  `TPre P w`: the device object is idle in `w` (no lock held), its transport conforms (`w.CallCost P.D`), its
  default transport timeout and local files are the ones recorded in `P`.
  `EffT P tt rt total`: the timeouts that `_AdbTransactionInfo.__init__` stores for the arguments
  `(transport_timeout_s, read_timeout_s, timeout_s) = (tt, rt, total)` are the numbers `P.τ`, `P.R`
  (C11_txn_values: read = min(rt, total), transport = min(tt or default, read)).
  Only property theorems and non-vacuity examples live here.
-/
namespace Adb

/-- What the time frame `TF P X x` of a model function `x` says, in plain terms.  Whatever the device and the
    transport script do, a run `x w = (r, w')` only adds events `evs` to the trace, and if the device object
    was idle on a conforming transport and the loop budget exceeds
    `parked packets + justified time of evs + delivered bytes + X + R + F`, then: the result is not `hang`;
    the device object is idle again (no lock left held, same transport discipline) and the budget is
    untouched; time did not go backwards; the elapsed time is at most
    `(packets delivered) * W + (write waits) * S`, plus the allowance `X` when the run ended in an exception
    (`X = W` = one failing wait); and at most one packet per elapsed tick was parked in the store. -/
theorem C11_frame_meaning {α : Type} (P : TP) (X : Int) (x : M α) (hx : TF P X x) (w : World) (r : Except Err α)
    (w' : World) (h : x w = (r, w')) :
    ∃ evs, w'.trace = evs ++ w.trace ∧
      (TPre P w →
       (parkedCount w.store : Int) + ((rxCount evs : Int) * P.W + (txCount evs : Int) * P.S) + (rxBytes evs : Int)
          + X + P.R + P.F < w.fuel →
       r ≠ .error .hang ∧ TPre P w' ∧ w'.fuel = w.fuel ∧ 0 ≤ w'.now - w.now ∧
       w'.now - w.now ≤ (rxCount evs : Int) * P.W + (txCount evs : Int) * P.S + (if okB r then 0 else X) ∧
       (parkedCount w'.store : Int) ≤ parkedCount w.store + (w'.now - w.now)) := by
  obtain ⟨⟨evs, he⟩, hf⟩ := hx w r w' h
  refine ⟨evs, he, fun hp hb => ?_⟩
  obtain ⟨hc, hn⟩ := tcost_of_trace (P := P) he
  obtain ⟨a, b⟩ := hf hp (by unfold Budget; rw [hn]; omega)
  have t := b.time
  have pk := b.park
  have mo := b.mono
  rw [hc] at t
  refine ⟨isHang_false_iff.1 a, b.pre, b.fuel, by omega, ?_, by omega⟩
  split at t <;> simp_all

/-- The time frame of the stream layer, allowance `W` (one failing wait).  For a transaction `t` that stores
    the effective timeouts: `_okay`, `_clse`, `_read_until`, `_read_until_close` (with or without a
    whole-command limit); for arguments whose effective timeouts are `P.R`, `P.τ`: `_open` and
    `_streaming_command`.  Read with `C11_frame_meaning`: e.g. `_read_until_close` that yields `n` items and
    then meets silence takes at most `(n + 1) * W + n * S` ticks and then fails (never hangs). -/
theorem C11_frame_stream (P : TP) :
    (∀ t : Txn, t.rt = some P.R → t.tt = some P.τ →
      TF P P.W (okay t) ∧ TF P P.W (clse t) ∧ (∀ ex, TF P P.W (readUntil ex t)) ∧ TF P P.W (readUntilClose t)) ∧
    (∀ tt rt total, EffT P tt rt total →
      (∀ dest, TF P P.W (openStream dest tt rt total)) ∧
      (∀ svc cmd, TF P P.W (streamingCommand svc cmd tt rt total))) :=
  ⟨fun t hrt htt => ⟨TF_okay t hrt htt P.W_nonneg, TF_clse t hrt htt (Int.le_refl _),
      fun ex => TF_readUntil ex t hrt htt (Int.le_refl _), TF_readUntilClose t hrt htt (Int.le_refl _)⟩,
   fun tt rt total heff => ⟨fun dest => TF_openStream dest tt rt total heff (Int.le_refl _),
      fun svc cmd => TF_streamingCommand svc cmd tt rt total heff (Int.le_refl _)⟩⟩

/-- Whole-command limit: `shell` / `exec_out` / `root` (and `reboot`) called with `timeout_s = T` on an idle
    device object end no later than
        `T + (2 * S + W) + (W + S)`
    after they started: the OPEN exchange (one send with payload = two write waits, one wait for the OKAY), the
    limit (tested after every yielded item), and ONE more iteration of the stream loop (one wait + one
    OKAY/CLSE send) — INDEPENDENT of how much the device sends; never `hang`, provided the loop budget
    exceeds `parked + (2 * S + W) + T + R`.  Relation to the harness oracle `o_c11_total`
    (`t + 2 * per_wait + 10 * D`, `per_wait = W`): the theorem's bound is `T + 2 * W + 3 * S` with
    `S = R + max D τ`; it implies the oracle's only when `3 * (R + max D τ) ≤ 10 * D`.  The right constant
    for the oracle is `3 * (eff_rt + max(D, eff_tt))` (three write waits: OPEN header, OPEN payload, last
    OKAY/CLSE; each may itself take until the read deadline). -/
theorem C11_shell_total (P : TP) (T : Int) (hT : 0 ≤ T) (tt rt : Timeout) (heff : EffT P tt rt (some T)) (op : ApiOp)
    (hop : (∃ cmd dec, op = .shell cmd tt rt (some T) dec) ∨ (∃ cmd dec, op = .execOut cmd tt rt (some T) dec) ∨
      op = .root tt rt (some T) ∨ ∃ fb, op = .reboot fb tt rt (some T))
    (w : World) (r : Except Err Val) (w' : World) (h : op.run w = (r, w')) (hp : TPre P w)
    (hfuel : (parkedCount w.store : Int) + (2 * P.S + P.W) + T + P.R < w.fuel) :
    r ≠ .error .hang ∧ TPre P w' ∧ 0 ≤ w'.now - w.now ∧ w'.now - w.now ≤ T + (2 * P.S + P.W) + (P.W + P.S) := by
  have hS := P.S_pos
  have hW := P.W_pos
  rcases hop with ⟨cmd, dec, rfl⟩ | ⟨cmd, dec, rfl⟩ | rfl | ⟨fb, rfl⟩
  · obtain ⟨a, b, c, d⟩ := devShellLike_total hT heff h hp hfuel
    exact ⟨isHang_false_iff.1 b, a, by omega, d⟩
  · obtain ⟨a, b, c, d⟩ := devShellLike_total hT heff h hp hfuel
    exact ⟨isHang_false_iff.1 b, a, by omega, d⟩
  · obtain ⟨a, b, c, d⟩ := devRoot_total hT heff h hp hfuel
    exact ⟨isHang_false_iff.1 b, a, by omega, d⟩
  · obtain ⟨a, b, c, d⟩ := devReboot_total heff h hp (by omega)
    exact ⟨isHang_false_iff.1 b, a, by omega, by omega⟩

/-- The time frame of the FileSync layer and of the operations built on it.  For a transaction `t` that stores
    the effective timeouts: `_filesync_flush`, `_filesync_send`, `_filesync_read_buffered`, `_filesync_read`
    and the final status read of `_push` (allowance `W`).  For arguments whose effective timeouts are `P.R`,
    `P.τ`: `stat`, `list`, `push` (allowance `W`; `push` needs the static budget `F` to cover the local
    files), and `pull` with allowance `2 * W`: after a failing wait `pull` still runs its close handshake,
    which may wait once more (C11 allows `pull` to report the error met while closing).  Iterations of the
    record loops of `list` / `_pull` that are served from the receive buffer take no time; the loop fuel they
    need is covered by the delivered payload bytes in the budget. -/
theorem C11_frame_filesync (P : TP) :
    (∀ t : Txn, t.rt = some P.R → t.tt = some P.τ → ∀ fi : FsInfo,
      TF P P.W (fsFlush t fi) ∧ (∀ id data size, TF P P.W (fsSend id t fi data size)) ∧
      (∀ n, TF P P.W (fsReadBuffered n t fi)) ∧ (∀ ex, TF P P.W (fsRead ex t fi)) ∧ TF P P.W (pushStatus t fi)) ∧
    (∀ tt rt, EffT P tt rt none →
      (∀ path, TF P P.W (devStat path tt rt)) ∧ (∀ path, TF P P.W (devList path tt rt)) ∧
      (∀ path cb, TF P (P.W + P.W) (devPull path cb tt rt)) ∧
      (P.FilesFit → ∀ src path mode mtime cb, TF P P.W (devPush src path mode mtime cb tt rt))) :=
  ⟨fun t hrt htt fi => ⟨TF_fsFlush t fi hrt htt (Int.le_refl _), fun id data size => TF_fsSend id t fi data size hrt htt (Int.le_refl _),
      fun n => TF_fsReadBuffered n t fi hrt htt (Int.le_refl _), fun ex => TF_fsRead ex t fi hrt htt (Int.le_refl _),
      TF_pushStatus t fi hrt htt (Int.le_refl _)⟩,
   fun tt rt heff => ⟨fun path => TF_devStat path tt rt heff (Int.le_refl _), fun path => TF_devList path tt rt heff (Int.le_refl _),
      fun path cb => TF_devPull path cb tt rt heff (Int.le_refl _),
      fun hfit src path mode mtime cb => TF_devPush src path mode mtime cb tt rt heff (Int.le_refl _) hfit⟩⟩

/-- EVERY API operation with numeric non-negative effective timeouts (`op.Eff P`; for `connect`: read timeout
    `P.R`, transport and auth timeout both between 0 and `P.τ`): the run only adds events `evs` to the trace,
    and if the operation starts on an idle device object (`op.Pre`; for `connect`: no lock held and the next
    connection conforms) with a loop budget exceeding
    `parked + justified time of evs + delivered bytes + c_op * W + R + F` (`EvBudget`), then it never ends in
    `hang`, it leaves the device object idle, and it takes at most
        `(packets delivered + c_op) * W + (write waits) * S`
    ticks, where the `c_op` extra waits are only charged when it ends in an exception: `c_op = 1` failing wait,
    `2` for `pull` (close handshake after the failure), `0` for `close`.  Every wait is justified by a delivered
    packet: traffic for other streams or unexpected commands cannot extend the time (oracle `o_c11`).
    `write waits ≤ 2 * messages sent`. -/
theorem C11_op_bound (op : ApiOp) (P : TP) (heff : op.Eff P) (w : World) (r : Except Err Val) (w' : World)
    (h : op.run w = (r, w')) :
    ∃ evs, w'.trace = evs ++ w.trace ∧
      (op.Pre P w → EvBudget P op.failWaits w evs →
        r ≠ .error .hang ∧ TPre P w' ∧ w'.fuel = w.fuel ∧ 0 ≤ w'.now - w.now ∧
        w'.now - w.now ≤ ((rxCount evs : Int) + (if okB r then 0 else (op.failWaits : Int))) * P.W
          + (txCount evs : Int) * P.S ∧
        txCount evs ≤ 2 * (transmitted evs).length) := by
  obtain ⟨⟨evs, he⟩, hf⟩ := op.frame heff h
  refine ⟨evs, he, fun hp hb => ?_⟩
  obtain ⟨a, b, c, d, e⟩ := hf hp (hb.budget he)
  rw [(tcost_of_trace (P := P) he).1] at e
  refine ⟨isHang_false_iff.1 a, b, c, by omega, ?_, ?_⟩
  · rw [Int.add_mul]
    split at e <;> simp_all <;> omega
  · unfold txCount
    generalize transmitted evs = L
    induction L with
    | nil => simp
    | cons m L ih =>
      simp only [List.map_cons, List.sum_cons, List.length_cons]
      have : msgWaits m ≤ 2 := by unfold msgWaits; split <;> omega
      omega

/-- Waits that begin in silence.  `Silent w`: the device will never send anything any more on the open
    connection (`World.Mute`: no inbound byte is left in the script), the device object is connected and idle
    and nothing is parked in the packet store.  Then, for a transaction with a numeric read timeout, each of
    `_AdbIOManager.read`, `_read_until`, `_clse`, `_read_until_close`, `_filesync_flush` (`SF d true`): keeps the
    world silent, CANNOT return normally (no packet, no data is fabricated), and raises AdbTimeoutError, the
    transport's timeout error or a transport error (`struct.error` if a message cannot be packed; the model's
    `hang` is excluded by `C11_frame_stream` / `C11_frame_meaning` under their budget hypothesis).  And `pull`'s
    clean-up discipline `try: body … except: (try: _clse() except: pass); raise` / `_clse()` afterwards: whatever the body did
    in silence, an exception is reported — the body's if it raised, else the one met while closing. -/
theorem C11_silent_waits (d : Timeout) (t : Txn) (R : Int) (hrt : t.rt = some R) :
    (∀ ex az, SF d true (ioRead ex t az)) ∧ (∀ ex, SF d true (readUntil ex t)) ∧ SF d true (clse t) ∧
    SF d true (readUntilClose t) ∧ (∀ fi, SF d true (fsFlush t fi)) ∧
    (∀ {α : Type} (body : M α) (b : Bool), SF d b body → SF d true (M.tryFinally body (clse t))) :=
  ⟨fun ex az => SF_ioRead ex t az hrt, fun ex => SF_readUntil ex t hrt, SF_clse t hrt, SF_readUntilClose t hrt,
   fun fi => SF_fsFlush t fi hrt, fun _ _ hb => SF_tryFinally hb (SF_clse t hrt)⟩

/-- Total silence: every operation that talks to the device (`shell`, `exec_out`, `root`, `reboot`,
    `streaming_shell`, `list`, `stat`, `pull`, `push`) started on a connected idle device object whose device
    will never send anything, with numeric effective timeouts and a non-empty device path, NEVER returns
    normally and never fabricates data: it ends in an exception, the world stays silent, and the exception is
    AdbTimeoutError, the transport's timeout error or a transport error — or one raised before any wait:
    `struct.error` (an OPEN that cannot be packed: destination of 4 GiB or more) or the local file error of
    `push`.  The model's `hang` verdict is excluded under the hypotheses of `C11_op_bound` (conforming transport,
    loop budget). -/
theorem C11_op_outcomes (op : ApiOp) (P : TP) (hop : op.isStreamOp = true) (heff : op.Eff P)
    (hpath : op.devicePath ≠ some []) (w : World) (r : Except Err Val) (w' : World) (h : op.run w = (r, w'))
    (hs : Silent w) (hd : w.defaultTT = P.dtt) :
    Silent w' ∧ ∃ e, r = .error e ∧
      (e = .adbTimeout ∨ e = .transportTimeout ∨ e = .transportError ∨ e = .pyStructError ∨ e = .localFileError ∨
        e = .hang) ∧
      (w.CallCost P.D → w.files = P.files → (∀ evs, w'.trace = evs ++ w.trace → EvBudget P op.failWaits w evs) →
        e ≠ .hang) := by
  obtain ⟨a, -, c, d⟩ := op.silent hop heff hpath w r w' h hs hd
  cases r with
  | ok v => simp at d
  | error e =>
    refine ⟨a, e, rfl, ?_, ?_⟩
    · have := c e rfl
      simp only [opErrs, List.mem_cons, List.not_mem_nil, or_false] at this
      rcases this with rfl | rfl | rfl | rfl | rfl | rfl <;> simp
    · intro hc hf hb
      obtain ⟨evs, he, hbound⟩ := C11_op_bound op P heff w _ w' h
      have hpre : op.Pre P w := by
        cases op <;> first | exact ⟨hc, hs.locks, hd, hf⟩ | simp [ApiOp.isStreamOp] at hop
      have := (hbound hpre (hb evs he)).1
      intro he'; subst he'; exact this rfl

/-- `connect` to a device that never answers (the next connection is mute): with numeric timeouts it ends in
    AdbTimeoutError, the transport's timeout error or a transport error (or `struct.error` for a banner that
    cannot be packed; the model's `hang` is excluded by `C11_op_bound`) — never in a fabricated success. -/
theorem C11_connect_outcomes (P : TP) (keys : List Nat) (tt authT rt : Timeout) (hasCb : Bool)
    (heff : ConnEff P tt authT rt) (w : World) (r : Except Err Val) (w' : World)
    (h : (ApiOp.connect keys tt authT rt hasCb).run w = (r, w')) (hl : w.locks = []) (hd : w.defaultTT = P.dtt)
    (hmute : ∀ c, w.conns.head? = some c → c.inboundRest = []) :
    ∃ e, r = .error e ∧ (e = .adbTimeout ∨ e = .transportTimeout ∨ e = .transportError ∨ e = .pyStructError ∨
      e = .hang) := by
  obtain ⟨e, rfl, he⟩ := devConnect_silent heff h hl hd hmute
  refine ⟨e, rfl, ?_⟩
  simp only [silentErrs, List.mem_cons, List.not_mem_nil, or_false] at he
  rcases he with rfl | rfl | rfl | rfl | rfl <;> simp

/-! ### non-vacuity
  Example worlds (`c11ApiSilent`, `c11ApiShell`, `c11ApiFlood`, `c11ApiStat`, `c11ApiPull`, `c11ApiStreamT`,
  `c11ApiConn`), operations and the parameter bundle `c11P D` (read timeout 1024 ticks, transport timeout 50,
  call cost `D`) are defined at the end of AdbProofs/Lemmas/TimeFrameApi.lean.  Every operation below is run
  as a whole `ApiOp` and evaluated by the kernel. -/

set_option maxRecDepth 100000

/-- the hypotheses of `C11_op_bound` hold for a concrete run: effective timeouts, idle device object, budget -/
example : ApiOp.Eff (c11P 3 (by decide)) c11ShellOp ∧ ApiOp.Pre (c11P 3 (by decide)) c11ShellOp c11ApiShell ∧
    EvBudget (c11P 3 (by decide)) c11ShellOp.failWaits c11ApiShell (c11ShellOp.run c11ApiShell).2.trace :=
  ⟨c11P_eff 3 _ none (Or.inl rfl),
   TPre.of_cur (c := { dt := 3, segs := _ }) rfl (by decide) (by decide) rfl rfl rfl,
   by unfold EvBudget; decide +kernel⟩

/-- … and for `connect`, `pull` (allowance 2 waits) and the operation with a whole-command limit -/
example : ApiOp.Eff (c11P 2 (by decide)) c11ConnOp ∧ ApiOp.Pre (c11P 2 (by decide)) c11ConnOp c11ApiConn ∧
    EvBudget (c11P 2 (by decide)) c11ConnOp.failWaits c11ApiConn (c11ConnOp.run c11ApiConn).2.trace :=
  ⟨⟨⟨none, none, some 50, some 1024, none⟩, 50, 50, rfl, rfl, rfl, by decide, by decide, rfl, by decide, by decide⟩,
   ⟨rfl, rfl, rfl, fun c hc => by cases hc; decide⟩,
   by unfold EvBudget; decide +kernel⟩

example : ApiOp.Eff (c11P 2 (by decide)) c11PullOp ∧ ApiOp.Pre (c11P 2 (by decide)) c11PullOp c11ApiPull ∧
    EvBudget (c11P 2 (by decide)) c11PullOp.failWaits c11ApiPull (c11PullOp.run c11ApiPull).2.trace :=
  ⟨c11P_eff 2 _ none (Or.inl rfl),
   TPre.of_cur (c := { dt := 2, segs := _ }) rfl (by decide) (by decide) rfl rfl rfl,
   by unfold EvBudget; decide +kernel⟩

/-- the hypotheses of `C11_shell_total` hold for `c11ShellTOp` on `c11ApiStreamT` (`T = 1024`, `D = 300`) -/
example : EffT (c11P 300 (by decide)) (some 50) (some 1024) (some 1024) ∧ TPre (c11P 300 (by decide)) c11ApiStreamT ∧
    (parkedCount c11ApiStreamT.store : Int) + (2 * (c11P 300 (by decide)).S + (c11P 300 (by decide)).W) + 1024
      + (c11P 300 (by decide)).R < c11ApiStreamT.fuel :=
  ⟨c11P_eff 300 _ (some 1024) (Or.inr ⟨1024, rfl, by decide⟩),
   TPre.of_cur (c := { dt := 300, segs := _ }) rfl (by decide) (by decide) rfl rfl rfl,
   by decide +kernel⟩

/-- `push` needs the static budget to cover the local files: trivially so when there are none -/
example : (c11P 1 (by decide)).FilesFit := fun e he => by simp [c11P] at he

/-- a well-behaved device: `shell` returns the two items after 33 ticks; 4 packets were delivered (OKAY, two
    WRTE, CLSE) and 5 write waits spent (OPEN header + payload, two OKAY, CLSE): 33 ≤ 4 * W + 5 * S -/
example : (c11ShellOp.run c11ApiShell).1 = .ok (.bytes [65, 66]) ∧ (c11ShellOp.run c11ApiShell).2.now = 33 ∧
    rxCount (c11ShellOp.run c11ApiShell).2.trace = 4 ∧ txCount (c11ShellOp.run c11ApiShell).2.trace = 5 ∧
    (33 : Int) ≤ 4 * (c11P 3 (by decide)).W + 5 * (c11P 3 (by decide)).S :=
  ⟨eq_ok_of_c11ValOf (by decide +kernel), by decide +kernel, by decide +kernel, by decide +kernel, by decide +kernel⟩

/-- total silence: `shell` sends the OPEN (2 write waits of 1 tick) and raises the transport's timeout error after
    one transport timeout: 52 ticks ≤ (0 + 1) * W + 2 * S; nothing was delivered -/
example : (c11ShellOp.run c11ApiSilent).1 = .error .transportTimeout ∧ (c11ShellOp.run c11ApiSilent).2.now = 52 ∧
    rxCount (c11ShellOp.run c11ApiSilent).2.trace = 0 ∧ txCount (c11ShellOp.run c11ApiSilent).2.trace = 2 ∧
    (52 : Int) ≤ (0 + 1) * (c11P 1 (by decide)).W + 2 * (c11P 1 (by decide)).S :=
  ⟨eq_error_of_c11ErrOf (by decide +kernel), by decide +kernel, by decide +kernel, by decide +kernel, by decide +kernel⟩

/-- only traffic for another stream (600 ticks per call): `shell` parks two packets and raises AdbTimeoutError
    2400 ticks after it started — no packet was delivered to it, so one wait is all it gets:
    2400 ≤ (0 + 1) * W + 2 * S with D = 600 -/
example : (c11ShellOp.run c11ApiFlood).1 = .error .adbTimeout ∧ (c11ShellOp.run c11ApiFlood).2.now = 2400 ∧
    rxCount (c11ShellOp.run c11ApiFlood).2.trace = 0 ∧ parkedCount (c11ShellOp.run c11ApiFlood).2.store = 2 ∧
    (2400 : Int) ≤ (0 + 1) * (c11P 600 (by decide)).W + 2 * (c11P 600 (by decide)).S :=
  ⟨eq_error_of_c11ErrOf (by decide +kernel), by decide +kernel, by decide +kernel, by decide +kernel, by decide +kernel⟩

/-- `stat` on a device that answers everything but the final CLSE: 3 packets delivered, 6 write waits, the
    transport's timeout error after 70 ticks ≤ (3 + 1) * W + 6 * S -/
example : (c11StatOp.run c11ApiStat).1 = .error .transportTimeout ∧ (c11StatOp.run c11ApiStat).2.now = 70 ∧
    rxCount (c11StatOp.run c11ApiStat).2.trace = 3 ∧ txCount (c11StatOp.run c11ApiStat).2.trace = 6 ∧
    (70 : Int) ≤ (3 + 1) * (c11P 2 (by decide)).W + 6 * (c11P 2 (by decide)).S :=
  ⟨eq_error_of_c11ErrOf (by decide +kernel), by decide +kernel, by decide +kernel, by decide +kernel, by decide +kernel⟩

/-- `pull` from a device that falls silent after the OPEN: the failing wait for the reply to RECV (50 ticks) is
    followed by the close handshake, which waits 50 ticks again — two failing waits, 112 ticks in all
    ≤ (1 + 2) * W + 5 * S; the exception reported is the first one -/
example : (c11PullOp.run c11ApiPull).1 = .error .transportTimeout ∧ (c11PullOp.run c11ApiPull).2.now = 112 ∧
    rxCount (c11PullOp.run c11ApiPull).2.trace = 1 ∧ txCount (c11PullOp.run c11ApiPull).2.trace = 5 ∧
    (112 : Int) ≤ (1 + 2) * (c11P 2 (by decide)).W + 5 * (c11P 2 (by decide)).S :=
  ⟨eq_error_of_c11ErrOf (by decide +kernel), by decide +kernel, by decide +kernel, by decide +kernel, by decide +kernel⟩

/-- the whole-command limit fires although the device keeps sending: AdbTimeoutError 2700 ticks after the start
    (OPEN exchange 900, two items of 900 each, limit 1024) ≤ T + (2 * S + W) + (W + S) -/
example : (c11ShellTOp.run c11ApiStreamT).1 = .error .adbTimeout ∧ (c11ShellTOp.run c11ApiStreamT).2.now = 2700 ∧
    (2700 : Int) ≤ 1024 + (2 * (c11P 300 (by decide)).S + (c11P 300 (by decide)).W)
      + ((c11P 300 (by decide)).W + (c11P 300 (by decide)).S) :=
  ⟨eq_error_of_c11ErrOf (by decide +kernel), by decide +kernel, by decide +kernel⟩

/-- `connect` without authentication: CNXN sent (2 write waits), CNXN delivered, 8 ticks ≤ 1 * W + 2 * S -/
example : (c11ConnOp.run c11ApiConn).1 = .ok (.bool true) ∧ (c11ConnOp.run c11ApiConn).2.now = 8 ∧
    rxCount (c11ConnOp.run c11ApiConn).2.trace = 1 ∧ txCount (c11ConnOp.run c11ApiConn).2.trace = 2 ∧
    (8 : Int) ≤ 1 * (c11P 2 (by decide)).W + 2 * (c11P 2 (by decide)).S :=
  ⟨eq_ok_of_c11ValOf (by decide +kernel), by decide +kernel, by decide +kernel, by decide +kernel, by decide +kernel⟩

/-- the example worlds `c11ApiSilent` (established connection) and `c11ApiConnSilent` (a next connection that never
    answers) satisfy the silence hypotheses of `C11_op_outcomes` / `C11_connect_outcomes` -/
example : Silent c11ApiSilent ∧ c11ApiSilent.defaultTT = (c11P 1 (by decide)).dtt ∧ c11ShellOp.isStreamOp = true ∧
    c11ShellOp.devicePath ≠ some [] :=
  ⟨⟨rfl, rfl, rfl, rfl⟩, rfl, rfl, by decide⟩

example : ∀ c, c11ApiConnSilent.conns.head? = some c → c.inboundRest = [] := by
  intro c hc; cases hc; rfl

/-- `connect` to a device that never answers: the CNXN is sent (4 ticks), the wait fails after one transport
    timeout: the transport's timeout error at 54 ticks ≤ (0 + 1) * W + 2 * S -/
example : (c11ConnOp.run c11ApiConnSilent).1 = .error .transportTimeout ∧ (c11ConnOp.run c11ApiConnSilent).2.now = 54 ∧
    (54 : Int) ≤ (0 + 1) * (c11P 2 (by decide)).W + 2 * (c11P 2 (by decide)).S :=
  ⟨eq_error_of_c11ErrOf (by decide +kernel), by decide +kernel, by decide +kernel⟩

end Adb
