import AdbProofs.Lemmas.FragExamples
/-
  C03 at the level of the PUBLIC API, as a relational theorem: "however the transport fragments the device's
  byte stream into reads (any sizes from 1 byte up to what was requested, empty reads interspersed) … every API
  call returns the same result as with unfragmented delivery".

  `FragAgree w₁ w₂` (AdbProofs/Lemmas/FragRel.lean): the two worlds are equal except for (a) the
  read-fragmentation script `Conn.frags` / `Conn.fragLeft` of the open connection and of the future connections
  (everything else in each `Conn` equal, the lists of future connections of equal length) and (b) the `TEv.req`
  events (the `bulk_read` requests) of the ghost trace — the subsequence of all other events is equal.

  Side conditions, each forced by a counterexample given below as an `example`:
  * `World.Dt0`: no virtual time passes in completed transport calls (`dt = 0` on every connection) — otherwise
    a fragmented delivery is slower and hits a timeout the unfragmented one does not (C11's subject);
  * `ApiOp.TimeoutsOk`: `read_timeout_s` is a NUMBER and non-negative, `timeout_s` is `None` or non-negative.
    (`read_timeout_s=None` makes `time.time() - start > None` raise TypeError after the first PARTIAL read, a
    negative one makes the check fire after the first partial read; a complete read never reaches the check.)
    The transport timeout is unconstrained.
  * neither run hung (`ApiOp.Hung`): a fragmented delivery needs more loop iterations and can exhaust the loop
    budget `World.fuel`.  For every operation except `pull`, `Hung` is "returned `Err.hang`".  `pull` runs its
    clean-up `_clse` in a `finally` whose exception is dropped when the body raised: a `hang` inside it is
    swallowed, the call reports the body's exception and the worlds have diverged.  `Hung` therefore refers to
    the hang-strict semantics `ApiOp.runS`, which is `ApiOp.run` except that this swallowed hang is reported.
  * inbound transport faults (`Conn.faults`) are ALLOWED: they sit at absolute stream offsets, a read never
    crosses one (`faultLimit`), so both runs meet each fault at the same stream position.

  Only property theorems and examples live here; the proof is in AdbProofs/Lemmas/FragRel.lean (relation,
  combinators), FragWire.lean (base case), FragOps.lean and FragApi.lean (lifting).
-/
namespace Adb
open Adb.Frag Adb.SR

/-- What `FragAgree` says about the observable parts: same packet store, same bytes received by the peer on the
    open connection and on the closed ones, same pull destination, `available`, `maxdata`, local-id counter and
    clock, the same number of device bytes consumed and the same device bytes still to come, and the same trace
    apart from the `bulk_read` requests (i.e. the same deliveries, transmissions, yielded items, callbacks). -/
theorem C03_fragAgree_observables (w₁ w₂ : World) (h : FragAgree w₁ w₂) :
    w₁.store = w₂.store ∧ w₁.peerGot = w₂.peerGot ∧ w₁.past = w₂.past ∧ w₁.sink = w₂.sink ∧
    w₁.available = w₂.available ∧ w₁.maxdata = w₂.maxdata ∧ w₁.localId = w₂.localId ∧ w₁.now = w₂.now ∧
    w₁.cur.map (·.inOff) = w₂.cur.map (·.inOff) ∧ w₁.inboundRest = w₂.inboundRest ∧
    w₁.trace.filter TEv.notReq = w₂.trace.filter TEv.notReq := by
  have hc := h.cur
  refine ⟨h.store, ?_, h.past, h.sink, h.available, h.maxdata, h.localId, h.now, ?_, ?_, h.trace⟩
  · unfold World.peerGot
    cases h1 : w₁.cur <;> cases h2 : w₂.cur <;>
      simp only [h1, h2, Option.map_some, Option.map_none, Option.some.injEq, reduceCtorEq] at hc ⊢
    exact (congrArg Conn.peerGot hc :)
  · cases h1 : w₁.cur <;> cases h2 : w₂.cur <;>
      simp only [h1, h2, Option.map_some, Option.map_none, Option.some.injEq, reduceCtorEq] at hc ⊢
    exact (congrArg Conn.inOff hc :)
  · unfold World.inboundRest
    cases h1 : w₁.cur <;> cases h2 : w₂.cur <;>
      simp only [h1, h2, Option.map_some, Option.map_none, Option.some.injEq, reduceCtorEq] at hc ⊢
    exact (congrArg Conn.inboundRest hc :)

/-- Base case: `_read_bytes_from_device(n)` for any `n`.  From two worlds that differ only in how the reads
    are fragmented (no virtual time in transport calls, numeric non-negative read timeout), either one run
    ends in `hang`, or both return the same result — the same bytes or the same exception — and end in worlds
    that again differ only in the fragmentation script and the recorded requests; in particular the same
    number of bytes has been consumed. -/
theorem C03_readBytes_frag (n : Nat) (t : Txn) (hrt : RtOk t.rt) (w₁ w₂ : World) (h : FragAgree w₁ w₂)
    (hd : w₁.Dt0) :
    (readBytes n t w₁).1 = .error .hang ∨ (readBytes n t w₂).1 = .error .hang ∨
    ((readBytes n t w₁).1 = (readBytes n t w₂).1 ∧ FragAgree (readBytes n t w₁).2 (readBytes n t w₂).2 ∧
      (readBytes n t w₁).2.Dt0) :=
  Ins_readBytes n t hrt w₁ w₂ ⟨h, hd⟩

/-- The same for `_read_packet_from_device`. -/
theorem C03_readPacket_frag (t : Txn) (hrt : RtOk t.rt) (w₁ w₂ : World) (h : FragAgree w₁ w₂) (hd : w₁.Dt0) :
    (readPacket t w₁).1 = .error .hang ∨ (readPacket t w₂).1 = .error .hang ∨
    ((readPacket t w₁).1 = (readPacket t w₂).1 ∧ FragAgree (readPacket t w₁).2 (readPacket t w₂).2 ∧
      (readPacket t w₁).2.Dt0) :=
  Ins_readPacket t hrt w₁ w₂ ⟨h, hd⟩

/-- EVERY operation of the public API: run from two worlds that differ only in the read fragmentation (and
    the recorded requests), with `dt = 0` and acceptable timeouts, either one of the runs hung, or both calls
    return the same — the same value or the same exception — and leave worlds that again differ only in the
    fragmentation scripts and the recorded requests (same store, same bytes received by the peer, same pull
    destination, same deliveries / transmissions / yielded items / callbacks in the trace, …, see
    `C03_fragAgree_observables`), still with `dt = 0`. -/
theorem C03_op_frag_independent (op : ApiOp) (hto : op.TimeoutsOk) (w₁ w₂ : World) (h : FragAgree w₁ w₂)
    (hd : w₁.Dt0) :
    op.Hung w₁ ∨ op.Hung w₂ ∨
    ((op.run w₁).1 = (op.run w₂).1 ∧ FragAgree (op.run w₁).2 (op.run w₂).2 ∧ (op.run w₁).2.Dt0) :=
  apiOp_frag op hto w₁ w₂ ⟨h, hd⟩

/-- For every operation except `pull`, "hung" is literally "the call returned `Err.hang`". -/
theorem C03_hung_iff_hang (op : ApiOp) (w : World) (hp : ∀ p cb tt rt, op ≠ .pull p cb tt rt) :
    op.Hung w ↔ (op.run w).1 = .error .hang :=
  hung_iff op w hp

/-- For `pull` too a call that returns `Err.hang` hung; and whenever a call did not hang, the hang-strict
    semantics used to define `Hung` IS the semantics (result and final world). -/
theorem C03_hung_spec (op : ApiOp) (w : World) :
    ((op.run w).1 = .error .hang → op.Hung w) ∧ (¬ op.Hung w → op.run w = op.runS w) :=
  ⟨hung_of_run_hang op w, run_eq_runS op w⟩

/-- The statement with the literal escape "a run returned `Err.hang`", for every operation except `pull`. -/
theorem C03_op_frag_independent_nonpull (op : ApiOp) (hp : ∀ p cb tt rt, op ≠ .pull p cb tt rt)
    (hto : op.TimeoutsOk) (w₁ w₂ : World) (h : FragAgree w₁ w₂) (hd : w₁.Dt0) :
    (op.run w₁).1 = .error .hang ∨ (op.run w₂).1 = .error .hang ∨
    ((op.run w₁).1 = (op.run w₂).1 ∧ FragAgree (op.run w₁).2 (op.run w₂).2 ∧ (op.run w₁).2.Dt0) := by
  rw [← C03_hung_iff_hang op w₁ hp, ← C03_hung_iff_hang op w₂ hp]
  exact C03_op_frag_independent op hto w₁ w₂ h hd

/-- Histories: any sequence of API calls (exceptions recorded, not propagated) run from two worlds that differ
    only in the read fragmentation: unless some call hung in one of the runs, the two lists of results are
    equal and the final worlds differ only in the fragmentation scripts and the recorded requests. -/
theorem C03_history_frag_independent (ops : List ApiOp) (hto : ∀ op ∈ ops, op.TimeoutsOk) (w₁ w₂ : World)
    (h : FragAgree w₁ w₂) (hd : w₁.Dt0) :
    histHung ops w₁ ∨ histHung ops w₂ ∨
    ((runHistory ops w₁).1 = (runHistory ops w₂).1 ∧ FragAgree (runHistory ops w₁).2 (runHistory ops w₂).2 ∧
      (runHistory ops w₁).2.Dt0) :=
  history_frag ops hto w₁ w₂ ⟨h, hd⟩

/-- `World.unfrag` really is unfragmented delivery: no fragmentation script on the open connection and on any
    future connection, nothing else changed. -/
theorem C03_unfrag_spec (w : World) :
    (∀ c, w.unfrag.cur = some c → c.frags = [] ∧ c.fragLeft = none) ∧
    (∀ c ∈ w.unfrag.conns, c.frags = [] ∧ c.fragLeft = none) ∧ FragAgree w w.unfrag ∧ w.unfrag.trace = w.trace := by
  refine ⟨?_, ?_, FragAgree.unfrag_right w, rfl⟩
  · intro c hc
    simp only [World.unfrag, Option.map_eq_some_iff] at hc
    obtain ⟨c', -, rfl⟩ := hc
    exact ⟨rfl, rfl⟩
  · intro c hc
    simp only [World.unfrag, List.mem_map] at hc
    obtain ⟨c', -, rfl⟩ := hc
    exact ⟨rfl, rfl⟩

/-- Corollary, the headline of C03: every API call returns what it returns with unfragmented delivery (and
    leaves the same observable state), unless one of the two runs hung. -/
theorem C03_unfragmented (op : ApiOp) (hto : op.TimeoutsOk) (w : World) (hd : w.Dt0) :
    op.Hung w ∨ op.Hung w.unfrag ∨
    ((op.run w).1 = (op.run w.unfrag).1 ∧ FragAgree (op.run w).2 (op.run w.unfrag).2) := by
  rcases C03_op_frag_independent op hto w w.unfrag (FragAgree.unfrag_right w) hd with g | g | ⟨g1, g2, -⟩
  · exact Or.inl g
  · exact Or.inr (Or.inl g)
  · exact Or.inr (Or.inr ⟨g1, g2⟩)

/-- … and every history of API calls returns the results it returns with unfragmented delivery. -/
theorem C03_unfragmented_history (ops : List ApiOp) (hto : ∀ op ∈ ops, op.TimeoutsOk) (w : World) (hd : w.Dt0) :
    histHung ops w ∨ histHung ops w.unfrag ∨
    ((runHistory ops w).1 = (runHistory ops w.unfrag).1 ∧
      FragAgree (runHistory ops w).2 (runHistory ops w.unfrag).2) := by
  rcases C03_history_frag_independent ops hto w w.unfrag (FragAgree.unfrag_right w) hd with g | g | ⟨g1, g2, -⟩
  · exact Or.inl g
  · exact Or.inr (Or.inl g)
  · exact Or.inr (Or.inr ⟨g1, g2⟩)

/-! ### non-vacuity: a `stat` exchange, unfragmented and with reads of sizes 1, 0, 3, 1, 0, 0, 7, … -/

/-- the hypotheses of `C03_op_frag_independent` hold for the two concrete worlds … -/
example : FragAgree (fxStat 0 fxFrags) (fxStat 0 []) ∧ (fxStat 0 fxFrags).Dt0 ∧
    (ApiOp.stat sxPath (some 10) (some 10)).TimeoutsOk ∧ fxStat 0 [] = (fxStat 0 fxFrags).unfrag :=
  ⟨fxStat_agree 0 _ _, fxStat_dt0 _, rtOk_some 10 (by decide), rfl⟩

/-- … neither run hangs, both return the same `stat` result, and the fragmentation script was really used
    (three bytes of its last fragment are left). -/
example :
    (devStat sxPath (some 10) (some 10) (fxStat 0 fxFrags)).1.toOption = some (.stat 33188 1234 1700000000) ∧
    (devStat sxPath (some 10) (some 10) (fxStat 0 [])).1.toOption = some (.stat 33188 1234 1700000000) ∧
    (devStat sxPath (some 10) (some 10) (fxStat 0 fxFrags)).2.cur.map (·.frags) = some [3] := by
  decide +kernel

/-- a two-call history on the same pair of worlds (the second `stat` finds the device silent: the same
    transport timeout in both) -/
example :
    ((runHistory [.stat sxPath (some 10) (some 10), .stat sxPath (some 10) (some 10)] (fxStat 0 fxFrags)).1.map
      (fun r => (r.toOption, errOf r))) =
    [(some (.stat 33188 1234 1700000000), none), (none, some .transportTimeout)] ∧
    ((runHistory [.stat sxPath (some 10) (some 10), .stat sxPath (some 10) (some 10)] (fxStat 0 [])).1.map
      (fun r => (r.toOption, errOf r))) =
    [(some (.stat 33188 1234 1700000000), none), (none, some .transportTimeout)] := by
  decide +kernel

/-! ### the side conditions are necessary -/

/-- `dt ≠ 0`: with one tick per transport call and `read_timeout_s` = 10 ticks, a header delivered in single
    bytes takes 12 reads and times out; delivered unfragmented the call succeeds.  (`FragAgree` holds.) -/
example : FragAgree (fxStat 1 (List.replicate 12 1)) (fxStat 1 []) ∧
    errOf (devStat sxPath (some 10) (some 10) (fxStat 1 (List.replicate 12 1))).1 = some .adbTimeout ∧
    (devStat sxPath (some 10) (some 10) (fxStat 1 [])).1.toOption = some (.stat 33188 1234 1700000000) :=
  ⟨fxStat_agree 1 _ _, by decide +kernel, by decide +kernel⟩

/-- a negative `read_timeout_s`: the check `time.time() - start > read_timeout_s` fires after the first partial
    read, but is never reached when every read is complete. -/
example : FragAgree (fxStat 0 [1, 1]) (fxStat 0 []) ∧ (fxStat 0 [1, 1]).Dt0 ∧
    errOf (devStat sxPath (some 10) (some (-1)) (fxStat 0 [1, 1])).1 = some .adbTimeout ∧
    (devStat sxPath (some 10) (some (-1)) (fxStat 0 [])).1.toOption = some (.stat 33188 1234 1700000000) :=
  ⟨fxStat_agree 0 _ _, fxStat_dt0 _, by decide +kernel, by decide +kernel⟩

/-- `read_timeout_s=None` (with `transport_timeout_s=None`): the same check raises TypeError after the first
    partial read. -/
example : FragAgree (fxStat 0 [1, 1]) (fxStat 0 []) ∧ (fxStat 0 [1, 1]).Dt0 ∧
    errOf (devStat sxPath none none (fxStat 0 [1, 1])).1 = some .pyTypeError ∧
    (devStat sxPath none none (fxStat 0 [])).1.toOption = some (.stat 33188 1234 1700000000) :=
  ⟨fxStat_agree 0 _ _, fxStat_dt0 _, by decide +kernel, by decide +kernel⟩

/-- the loop budget: with budget 10 a header arriving in 24 single bytes exhausts it (`hang`), the unfragmented
    run succeeds — hence the escape "unless one of the runs hung". -/
example : FragAgree { fxStat 0 (List.replicate 24 1) with fuel := 10 } { fxStat 0 [] with fuel := 10 } ∧
    errOf (devStat sxPath (some 10) (some 10) { fxStat 0 (List.replicate 24 1) with fuel := 10 }).1 = some .hang ∧
    (devStat sxPath (some 10) (some 10) { fxStat 0 [] with fuel := 10 }).1.toOption
      = some (.stat 33188 1234 1700000000) :=
  ⟨⟨rfl, rfl, rfl, rfl, rfl, rfl, rfl, rfl, rfl, rfl, rfl, rfl, rfl, rfl, rfl, rfl⟩, by decide +kernel,
    by decide +kernel⟩

/-- the hang swallowed by `pull`'s `finally`: the device answers FAIL and then CLSE; loop budget 10.  With the
    CLSE header arriving byte by byte the clean-up `_clse` exhausts the budget, Python drops that `hang` and
    re-raises the FAIL — the same exception as in the unfragmented run, which completed the clean-up: the two
    worlds have consumed different amounts of the device stream (127 against 141 bytes).  The strict semantics
    reports the hang in the fragmented run (`Hung`), and only there. -/
example : FragAgree (fxPull 10 fxPullFrags) (fxPull 10 []) ∧ (fxPull 10 fxPullFrags).Dt0 ∧
    (ApiOp.pull sxPath .none (some 10) (some 10)).TimeoutsOk ∧
    errOf ((ApiOp.pull sxPath .none (some 10) (some 10)).run (fxPull 10 fxPullFrags)).1
      = some (.adbCommandFailure [110, 111]) ∧
    errOf ((ApiOp.pull sxPath .none (some 10) (some 10)).run (fxPull 10 [])).1
      = some (.adbCommandFailure [110, 111]) ∧
    ((ApiOp.pull sxPath .none (some 10) (some 10)).run (fxPull 10 fxPullFrags)).2.cur.map (·.inOff) = some 127 ∧
    ((ApiOp.pull sxPath .none (some 10) (some 10)).run (fxPull 10 [])).2.cur.map (·.inOff) = some 141 ∧
    errOf ((ApiOp.pull sxPath .none (some 10) (some 10)).runS (fxPull 10 fxPullFrags)).1 = some .hang ∧
    errOf ((ApiOp.pull sxPath .none (some 10) (some 10)).runS (fxPull 10 [])).1
      = some (.adbCommandFailure [110, 111]) :=
  ⟨fxPull_agree 10 _ _, fxPull_dt0 10 _, rtOk_some 10 (by decide), by decide +kernel, by decide +kernel,
    by decide +kernel, by decide +kernel, by decide +kernel, by decide +kernel⟩

/-- with the default loop budget the same two `pull` runs agree, as the theorem says -/
example :
    errOf ((ApiOp.pull sxPath .none (some 10) (some 10)).run (fxPull 100000 fxPullFrags)).1
      = some (.adbCommandFailure [110, 111]) ∧
    ((ApiOp.pull sxPath .none (some 10) (some 10)).run (fxPull 100000 fxPullFrags)).2.cur.map (·.inOff) = some 141 ∧
    ((ApiOp.pull sxPath .none (some 10) (some 10)).run (fxPull 100000 [])).2.cur.map (·.inOff) = some 141 := by
  decide +kernel

end Adb
