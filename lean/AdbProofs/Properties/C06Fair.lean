import AdbProofs.Lemmas.ConcFair
/-
  C06 — completion under an ARBITRARY fair schedule (closes the gap left by
  `C06_completes_after_solo_partial` in `C06.lean`, where the suffix is one reader running alone).
  Model: `AdbModel/Conc.lean`.  Vocabulary (`AdbProofs/Lemmas/ConcFair.lean`):
    `Round n seg`       = for every reader index `i < n`, `seg` contains `pre i` and later `iter i`
                          (as a subsequence; anything else may be interleaved anywhere);
    `Rounds n k sched`  = `sched` starts with `k` consecutive segments that are each a `Round n`
                          (what follows the `k`-th round is arbitrary);
    `roundRobin n k`    = `pre 0, iter 0, …, pre (n-1), iter (n-1)` repeated `k` times;
    `soloAll n m`       = reader 0 alone for `m` rounds, then reader 1 alone for `m` rounds, …;
    `Quiescent s`       = every reader is done, or the transport is empty and nothing is parked for it;
    `nu sys₀ s`         = packets on the transport + packets parked for the readers (the measure).
  Bound on the number of rounds: `sys₀.wire.length + 1` (one more than the number of packets the
  device sends).  The escape "a packet of the stream was lost" (`lostOf … ≠ []`) is the known defect
  K1 of the code (`put` discards a CLSE for a stream without store entry), see `C06.lean`.
-/
namespace Adb
open Conc

/-- Completion under every fair schedule.  Start from an initial system (well-formed, empty store,
    nothing lost, no reader started) and run ANY schedule that begins with at least
    `sys₀.wire.length + 1` fair rounds (each round gives every reader its pre-check and, later, one
    loop iteration; everything else is arbitrary).  Then EVERY reader `i` has been given exactly the
    packets it would have been given alone on the transport, and it is done exactly if alone it would
    be done — whichever thread read what — or a packet of its stream was lost (K1). -/
theorem C06_completes_fair (sys₀ : Sys) (h₀ : Initial sys₀) (k : Nat) (sched : List Choice)
    (hfair : Rounds sys₀.readers.length k sched) (hk : sys₀.wire.length + 1 ≤ k)
    (i : Nat) (r₀ : Reader) (hr₀ : sys₀.readers[i]? = some r₀) :
    ∃ r : Reader, (run sys₀ sched).readers[i]? = some r ∧
      ((r.given = aloneGiven r₀ sys₀.wire ∧ r.done = (aloneGiven r₀ sys₀.wire).any (·.cmd == Cmd.CLSE))
        ∨ lostOf (run sys₀ sched) r₀ ≠ []) := by
  have h := reach_inv h₀ sched
  have hq : Quiescent (run sys₀ sched) :=
    rounds_quiescent h₀.1 k sched sys₀ (inv_initial h₀) hfair (by rw [nu_initial h₀]; omega)
  obtain ⟨r, hr, _⟩ := inv_reader h hr₀
  exact ⟨r, hr, sat_result h₀ h hr₀ hr (hq i r hr)⟩

/-- Completion under every fair schedule when nothing was lost: if the run did not hit K1
    (`lost = []` at the end), every reader ends with exactly the result it would have alone. -/
theorem C06_completes_fair_no_loss (sys₀ : Sys) (h₀ : Initial sys₀) (k : Nat) (sched : List Choice)
    (hfair : Rounds sys₀.readers.length k sched) (hk : sys₀.wire.length + 1 ≤ k)
    (hnl : (run sys₀ sched).lost = [])
    (i : Nat) (r₀ : Reader) (hr₀ : sys₀.readers[i]? = some r₀) :
    ∃ r : Reader, (run sys₀ sched).readers[i]? = some r ∧
      r.given = aloneGiven r₀ sys₀.wire ∧ r.done = (aloneGiven r₀ sys₀.wire).any (·.cmd == Cmd.CLSE) := by
  obtain ⟨r, hr, hres | hl⟩ := C06_completes_fair sys₀ h₀ k sched hfair hk i r₀ hr₀
  · exact ⟨r, hr, hres⟩
  · exact absurd (by simp [lostOf, hnl]) hl

/-- No starvation, no deadlock of the modelled layer: after at least `sys₀.wire.length + 1` fair
    rounds the system is quiescent.  (1) The transport is empty or all readers are done.  (2) For a
    reader that is not done the transport is empty and nothing is parked for it: no reader is left
    with a step that could hand it a packet.  (3) Whatever is scheduled afterwards moves no packet:
    transport, store, lost list and what every reader has been given (and whether it is done) stay
    the same. -/
theorem C06_no_starvation (sys₀ : Sys) (h₀ : Initial sys₀) (k : Nat) (sched : List Choice)
    (hfair : Rounds sys₀.readers.length k sched) (hk : sys₀.wire.length + 1 ≤ k) :
    ((run sys₀ sched).wire = [] ∨ ∀ r ∈ (run sys₀ sched).readers, r.done = true) ∧
    (∀ (i : Nat) (r : Reader), (run sys₀ sched).readers[i]? = some r → r.done = false →
      (run sys₀ sched).wire = [] ∧ parked (run sys₀ sched).store r = []) ∧
    (∀ extra : List Choice,
      (run sys₀ (sched ++ extra)).wire = (run sys₀ sched).wire ∧
      (run sys₀ (sched ++ extra)).store = (run sys₀ sched).store ∧
      (run sys₀ (sched ++ extra)).lost = (run sys₀ sched).lost ∧
      (run sys₀ (sched ++ extra)).readers.map (fun r => (r.given, r.done)) =
        (run sys₀ sched).readers.map (fun r => (r.given, r.done))) := by
  have h := reach_inv h₀ sched
  have hq : Quiescent (run sys₀ sched) :=
    rounds_quiescent h₀.1 k sched sys₀ (inv_initial h₀) hfair (by rw [nu_initial h₀]; omega)
  have h2 : ∀ (i : Nat) (r : Reader), (run sys₀ sched).readers[i]? = some r → r.done = false →
      (run sys₀ sched).wire = [] ∧ parked (run sys₀ sched).store r = [] := by
    intro i r hr hd
    rcases hq i r hr with e | e
    · rw [hd] at e; cases e
    · exact e
  refine ⟨?_, h2, ?_⟩
  · by_cases hw : (run sys₀ sched).wire = []
    · exact Or.inl hw
    · refine Or.inr (fun r hr => ?_)
      obtain ⟨i, hi⟩ := List.getElem?_of_mem hr
      cases hd : r.done with
      | true => rfl
      | false => exact absurd (h2 i r hi hd).1 hw
  · intro extra
    rw [run_append]
    exact quiescent_run_same h₀.1 extra _ h hq

/-- Progress of a single fair round from ANY reachable state: the number of packets on the transport
    plus the packets parked for the readers strictly decreases, or the state reached is quiescent. -/
theorem C06_fair_round_progress (sys₀ : Sys) (h₀ : Initial sys₀) (sched seg : List Choice)
    (hr : Round sys₀.readers.length seg) :
    nu sys₀ (run sys₀ (sched ++ seg)) < nu sys₀ (run sys₀ sched) ∨ Quiescent (run sys₀ (sched ++ seg)) := by
  rw [run_append]
  exact fair_round_progress h₀.1 (reach_inv h₀ sched) hr

/-! ### Non-vacuity -/

/-- the hypotheses are satisfiable: `sysFair` (two readers, six packets, streams interleaved) is
    initial, and seven rounds of round-robin are a fair schedule of the required length -/
example : Initial sysFair ∧ Rounds sysFair.readers.length 7 (roundRobin 2 7) ∧ sysFair.wire.length + 1 ≤ 7 :=
  ⟨⟨wellFormed_of_B (by decide), rfl, rfl, by decide⟩, rounds_roundRobin 2 7, by decide⟩

/-- round-robin on `sysFair`: nothing is lost, everything is delivered, and both readers end with
    exactly what they would be given alone although each took packets of the other off the transport -/
example : (run sysFair (roundRobin 2 7)).lost = [] ∧ (run sysFair (roundRobin 2 7)).wire = [] ∧
    (run sysFair (roundRobin 2 7)).readers.map (·.given) =
      [aloneGiven { lid := 1, rid := 11 } sysFair.wire, aloneGiven { lid := 2, rid := 12 } sysFair.wire] ∧
    (run sysFair (roundRobin 2 7)).readers.map (·.done) = [true, true] := by decide

/-- reader 0 really reads reader 1's first packet off the transport and parks it (first round) -/
example : (run sysFair [.pre 0, .iter 0]).store.queue 12 2 = some [(.WRTE, [1])] := by decide

/-- an irregular fair schedule (rounds of different shapes, repeated / out-of-phase / out-of-range
    choices interleaved) satisfies `Rounds`, and ends with the same result -/
example : Rounds 2 7 segsMixed.flatten ∧
    (run sysFair segsMixed.flatten).readers.map (·.given) =
      [aloneGiven { lid := 1, rid := 11 } sysFair.wire, aloneGiven { lid := 2, rid := 12 } sysFair.wire] ∧
    (run sysFair segsMixed.flatten).readers.map (·.done) = [true, true] :=
  ⟨rounds_flatten segsMixed (by decide), by decide, by decide⟩

/-- "one thread runs for a long time, then the other", seven times over, is fair as well -/
example : Rounds 2 7 (List.replicate 7 (soloAll 2 3)).flatten := rounds_soloAll 2 3 7 (by decide)

/-- the escape disjunct is needed: the K1 system of `C06.lean` under plain round-robin (a fair
    schedule of the required length) loses reader 0's CLSE; reader 0 ends with a proper prefix of
    what it would be given alone and is never done -/
example : Initial sysK1 ∧ Rounds sysK1.readers.length 5 (roundRobin 2 5) ∧ sysK1.wire.length + 1 ≤ 5 ∧
    lostOf (run sysK1 (roundRobin 2 5)) { lid := 1, rid := 11 } = [⟨.CLSE, 11, 1, []⟩] ∧
    (run sysK1 (roundRobin 2 5)).readers[0]?.map (·.given) = some [⟨.WRTE, 11, 1, [97]⟩] ∧
    aloneGiven { lid := 1, rid := 11 } sysK1.wire = [⟨.WRTE, 11, 1, [97]⟩, ⟨.CLSE, 11, 1, []⟩] ∧
    (run sysK1 (roundRobin 2 5)).readers[0]?.map (·.done) = some false :=
  ⟨⟨wellFormed_of_B (by decide), rfl, rfl, by decide⟩, rounds_roundRobin 2 5, by decide, by decide, by decide,
    by decide, by decide⟩

/-- the bound is about rounds, not steps: after four round-robin rounds `sysFair` is not yet
    quiescent (a packet is still on the transport) -/
example : (run sysFair (roundRobin 2 4)).wire ≠ [] := by decide

end Adb
