import AdbProofs.Lemmas.WireLemmas
import AdbProofs.Properties.C02
/-
  C03 — however the transport fragments the device's byte stream into reads (any sizes from 1 byte up to
  what was requested, empty reads interspersed), the library reconstructs exactly the packets the device
  sent; it never requests more bytes than remain in the current packet.  A packet whose non-empty payload
  does not match its checksum is never delivered to the caller (InvalidChecksumError) and an unknown
  command word is rejected (InvalidCommandError).
  Only property theorems and non-vacuity examples live here; helper lemmas are in
  AdbProofs/Lemmas/WireLemmas.lean.
-/
namespace Adb

/-- One `bulk_read(n)` call, for every fragmentation / gating / fault script and timing: it touches only the
    connection and the clock; what it returns is at most `n` bytes and is exactly the front of the remaining
    device stream, which is shortened by exactly those bytes; an exception consumes nothing.  The peer's
    received bytes and the trace are untouched. -/
theorem C03_bulkRead_spec (n : Nat) (tt : Timeout) (w : World) (r : Except Err Bytes) (w' : World)
    (h : bulkRead n tt w = (r, w')) :
    SameDevice w w' ∧ w'.peerGot = w.peerGot ∧ w'.trace = w.trace ∧
    (∀ bs, r = .ok bs → bs.length ≤ n ∧ w.inboundRest = bs ++ w'.inboundRest) ∧
    (∀ e, r = .error e → w'.inboundRest = w.inboundRest) :=
  bulkRead_spec n tt w r w' h

/-- `_read_bytes_from_device(n)` returning normally returns exactly `n` bytes, and they are exactly the next
    `n` bytes of the device stream (which is shortened by exactly them) — for EVERY fragmentation, fault
    script and timing. -/
theorem C03_readBytes_exact (n : Nat) (t : Txn) (w : World) (bs : Bytes) (w' : World)
    (h : readBytes n t w = (.ok bs, w')) :
    bs.length = n ∧ w.inboundRest = bs ++ w'.inboundRest ∧ w'.peerGot = w.peerGot ∧ SameDevice w w' := by
  obtain ⟨sd, hpg, -, ⟨got, -, hsp, hok⟩⟩ := readBytes_spec n t w _ w' h
  obtain ⟨rfl, hl⟩ := hok bs rfl
  exact ⟨hl, hsp, hpg, sd⟩

/-- For any outcome of `_read_bytes_from_device(n)` (normal, timeout, transport error, hang) what was consumed
    is a prefix of at most `n` bytes of the device stream: it never reads past the frame and never loses
    bytes out of order. -/
theorem C03_readBytes_consumes_prefix (n : Nat) (t : Txn) (w : World) (r : Except Err Bytes) (w' : World)
    (h : readBytes n t w = (r, w')) :
    ∃ k, k ≤ n ∧ w'.inboundRest = w.inboundRest.drop k ∧ w'.peerGot = w.peerGot ∧ SameDevice w w' := by
  obtain ⟨sd, hpg, -, ⟨got, hl, hsp, -⟩⟩ := readBytes_spec n t w r w' h
  exact ⟨got.length, hl, by rw [hsp, List.drop_left], hpg, sd⟩

/-- Every `bulk_read` that `_read_bytes_from_device(n)` issues asks for exactly the number of bytes still
    missing in the frame (`req b b`: requested = remaining), which is between 1 and `n`; it records nothing
    else in the trace. -/
theorem C03_request_le_remaining (n : Nat) (t : Txn) (w : World) (r : Except Err Bytes) (w' : World)
    (h : readBytes n t w = (r, w')) :
    ∃ evs, w'.trace = evs ++ w.trace ∧ ∀ e ∈ evs, ∃ b, e = .req b b ∧ 1 ≤ b ∧ b ≤ n :=
  (readBytes_spec n t w r w' h).2.2.1

/-- The exact request sequence: if the successive `bulk_read` calls made by `_read_bytes_from_device(n)`
    returned `chunks` (a raising call counts as an empty chunk), then the trace grew by exactly
    `req n n, req (n-|c₀|) (n-|c₀|), req (n-|c₀|-|c₁|) …` (`reqsOf`, oldest first) — every request equals `n`
    minus the bytes already obtained — and the consumed part of the device stream is the concatenation of
    the chunks. -/
theorem C03_request_exact (n : Nat) (t : Txn) (w : World) (r : Except Err Bytes) (w' : World)
    (h : readBytes n t w = (r, w')) :
    ∃ chunks : List Bytes, w'.trace = (reqsOf n chunks).reverse ++ w.trace ∧
      w.inboundRest = chunks.flatten ++ w'.inboundRest :=
  readBytes_requests n t w r w' h

/-- `_read_packet_from_device` returning a packet `p` means: the next 24 bytes of the device stream are a
    header `hb` that unpacks to a known command and `p`'s arguments, announcing `len(p.data)` payload bytes,
    the payload is the next `len` bytes, its checksum matches when it is non-empty, and the stream is
    shortened by exactly header + payload. -/
theorem C03_readPacket_exact (t : Txn) (w : World) (p : Pkt) (w' : World)
    (h : readPacket t w = (.ok p, w')) :
    ∃ hb hd, hb.length = 24 ∧ unpack hb = some hd ∧ Cmd.ofWire? hd.cmd = some p.cmd ∧ hd.arg0 = p.arg0 ∧
      hd.arg1 = p.arg1 ∧ hd.len = p.data.length ∧ (p.data ≠ [] → checksum p.data = hd.sum) ∧
      w.inboundRest = hb ++ p.data ++ w'.inboundRest ∧ w'.peerGot = w.peerGot ∧ SameDevice w w' := by
  obtain ⟨hb, hd, h1, h2, h3, h4, h5, h6, h7, h8⟩ := readPacket_ok t w p w' h
  obtain ⟨sd, hpg, -⟩ := readPacket_frame t w _ w' h
  exact ⟨hb, hd, h1, h2, h3, h4, h5, h6, h7, h8, hpg, sd⟩

/-- For any outcome of `_read_packet_from_device` only a prefix of the device stream is consumed and nothing
    else in the world changes (in particular a rejected packet does not disturb the device object). -/
theorem C03_readPacket_consumes_prefix (t : Txn) (w : World) (r : Except Err Pkt) (w' : World)
    (h : readPacket t w = (r, w')) :
    (∃ got, w.inboundRest = got ++ w'.inboundRest) ∧ w'.peerGot = w.peerGot ∧ SameDevice w w' := by
  obtain ⟨sd, hpg, hg⟩ := readPacket_frame t w r w' h
  exact ⟨hg, hpg, sd⟩

/-- If the device stream continues with a header announcing `len > 0` payload bytes followed by a payload whose
    checksum differs from the announced one, `_read_packet_from_device` does not deliver a packet — whatever
    the fragmentation, faults and timing. -/
theorem C03_bad_checksum_never_delivered (t : Txn) (w : World) (hb d rest : Bytes) (hd : Hdr)
    (hw : w.inboundRest = hb ++ d ++ rest) (hlen : hb.length = 24) (hu : unpack hb = some hd)
    (hpos : hd.len > 0) (hdl : d.length = hd.len) (hbad : checksum d ≠ hd.sum) :
    ∀ p w', readPacket t w ≠ (.ok p, w') := by
  intro p w' h
  obtain ⟨hb', hd', h1, h2, -, -, -, h6, h7, h8, -, -⟩ := C03_readPacket_exact t w p w' h
  rw [hw, List.append_assoc, List.append_assoc] at h8
  obtain ⟨rfl, h9⟩ := List.append_inj h8 (by rw [hlen, h1])
  rw [hu] at h2
  cases h2
  obtain ⟨rfl, -⟩ := List.append_inj h9 (by rw [hdl, h6])
  have hne : p.data ≠ [] := by
    intro hd0
    rw [hd0] at hdl
    simp at hdl
    omega
  exact hbad (h7 hne)

/-- If the device stream continues with a header whose command word is not one of the seven known ones,
    `_read_packet_from_device` does not deliver a packet; and as soon as the 24 header bytes have been read the
    outcome is exactly `InvalidCommandError` (nothing more is consumed). -/
theorem C03_unknown_command_rejected (t : Txn) (w : World) (hb rest : Bytes) (hd : Hdr)
    (hw : w.inboundRest = hb ++ rest) (hlen : hb.length = 24) (hu : unpack hb = some hd)
    (hcmd : Cmd.ofWire? hd.cmd = none) :
    (∀ p w', readPacket t w ≠ (.ok p, w')) ∧
    (∀ bs w1, readBytes 24 t w = (.ok bs, w1) → readPacket t w = (.error .invalidCommand, w1)) := by
  constructor
  · intro p w' h
    obtain ⟨hb', hd', h1, h2, h3, -, -, -, -, h8, -, -⟩ := C03_readPacket_exact t w p w' h
    rw [hw, List.append_assoc] at h8
    obtain ⟨rfl, -⟩ := List.append_inj h8 (by rw [hlen, h1])
    rw [hu] at h2
    cases h2
    rw [hcmd] at h3
    cases h3
  · intro bs w1 h
    obtain ⟨h1, h2, -, -⟩ := C03_readBytes_exact 24 t w bs w1 h
    rw [hw] at h2
    obtain ⟨rfl, -⟩ := List.append_inj h2 (by rw [hlen, h1])
    have h' : readBytes Generated.MESSAGE_SIZE t w = (.ok hb, w1) := h
    rw [readPacket, bind_run_ok h']
    simp [hu, hcmd]

/-- Fragmentation independence: two worlds that agree on the remaining device byte stream — and may differ in
    everything else: segment boundaries, gating, read-size script, empty reads, faults, clock, timeouts —
    deliver the same packet and leave the same remaining stream whenever both deliver. -/
theorem C03_frag_independent (t₁ t₂ : Txn) (w₁ w₂ w₁' w₂' : World) (p₁ p₂ : Pkt)
    (hw : w₁.inboundRest = w₂.inboundRest)
    (h₁ : readPacket t₁ w₁ = (.ok p₁, w₁')) (h₂ : readPacket t₂ w₂ = (.ok p₂, w₂')) :
    p₁ = p₂ ∧ w₁'.inboundRest = w₂'.inboundRest := by
  obtain ⟨hb1, hd1, a1, a2, a3, a4, a5, a6, -, a8, -, -⟩ := C03_readPacket_exact t₁ w₁ p₁ w₁' h₁
  obtain ⟨hb2, hd2, b1, b2, b3, b4, b5, b6, -, b8, -, -⟩ := C03_readPacket_exact t₂ w₂ p₂ w₂' h₂
  rw [hw, b8, List.append_assoc, List.append_assoc] at a8
  obtain ⟨rfl, h9⟩ := List.append_inj a8 (by rw [a1, b1])
  rw [b2] at a2
  cases a2
  obtain ⟨hdat, hrest⟩ := List.append_inj h9 (by rw [← a6, ← b6])
  rw [b3] at a3
  have hc := Option.some.inj a3
  refine ⟨?_, hrest.symm⟩
  cases p₁; cases p₂
  simp_all

/-- Reconstruction: if the device stream continues with the encoding of a (packable) packet `p`, then whatever
    `_read_packet_from_device` delivers is exactly `p`, and the stream continues right after `p`'s encoding —
    for every fragmentation, fault script and timing.  (With `C03_frag_independent` and induction over a list of
    packets: the delivered sequence is a prefix of the sent sequence.) -/
theorem C03_readPacket_of_encode (t : Txn) (w : World) (p : Pkt) (rest : Bytes) (q : Pkt) (w' : World)
    (hw : w.inboundRest = p.encode ++ rest) (hp : p.toMsg.Packable)
    (h : readPacket t w = (.ok q, w')) : q = p ∧ w'.inboundRest = rest := by
  obtain ⟨hb, hd, a1, a2, a3, a4, a5, a6, -, a8, -, -⟩ := C03_readPacket_exact t w q w' h
  have hlen : p.toMsg.packHdr.length = 24 := (C02_header_len p.toMsg).1
  rw [hw, Pkt.encode, Msg.encode, List.append_assoc, List.append_assoc] at a8
  obtain ⟨rfl, h9⟩ := List.append_inj a8 (by rw [hlen, a1])
  rw [(C02_unpack_pack p.toMsg hp).1] at a2
  cases a2
  simp only [Pkt.toMsg] at a3 a4 a5 a6 h9
  rw [(C02_magic p.cmd).1] at a3
  have hc := Option.some.inj a3
  obtain ⟨hdat, hrest⟩ := List.append_inj h9 a6
  refine ⟨?_, hrest.symm⟩
  cases p; cases q
  simp_all

/-- Non-vacuity: the device sends one WRTE packet (24-byte header + 2 payload bytes) cut into three segments
    (5 + 19 + 2 bytes, the last two gated on nothing), the transport delivers reads of 1, 23, 0 (an empty read)
    and 2 bytes; `_read_packet_from_device` returns exactly that packet and the stream is used up. -/
example :
    let m : Msg := ⟨.WRTE, 7, 9, [0xff, 0x01]⟩
    let c : Conn := { segs := [⟨0, m.packHdr.take 5⟩, ⟨0, m.packHdr.drop 5⟩, ⟨0, m.data⟩], frags := [1, 23, 0, 2] }
    let w : World := { cur := some c }
    let t : Txn := ⟨some 9, some 7, some 10, some 10, none⟩
    (readPacket t w).1 = .ok ⟨.WRTE, 7, 9, [0xff, 0x01]⟩ ∧ (readPacket t w).2.inboundRest = []
      ∧ (readPacket t w).2.trace = [.req 2 2, .req 2 2, .req 23 23, .req 24 24] := by
  exact ⟨rfl, rfl, rfl⟩

/-- Non-vacuity of the rejection theorems: same stream with a corrupted payload byte → InvalidChecksumError;
    with an unknown command word → InvalidCommandError. -/
example :
    let m : Msg := ⟨.WRTE, 7, 9, [0xff, 0x01]⟩
    let t : Txn := ⟨some 9, some 7, some 10, some 10, none⟩
    (readPacket t { cur := some { segs := [⟨0, m.packHdr⟩, ⟨0, [0xff, 0x02]⟩], frags := [3] } }).1
        = .error .invalidChecksum
    ∧ (readPacket t { cur := some { segs := [⟨0, [0x41] ++ m.packHdr.drop 1⟩, ⟨0, m.data⟩] } }).1
        = .error .invalidCommand := by
  exact ⟨rfl, rfl⟩

/-- Non-vacuity of the hypotheses of `C03_bad_checksum_never_delivered` and `C03_unknown_command_rejected`. -/
example :
    let m : Msg := ⟨.WRTE, 7, 9, [0xff, 0x01]⟩
    let w : World := { cur := some { segs := [⟨0, m.packHdr⟩, ⟨0, [0xff, 0x02]⟩, ⟨3, [5]⟩], frags := [3] } }
    let w₂ : World := { cur := some { segs := [⟨0, [0x41] ++ m.packHdr.drop 1⟩, ⟨0, m.data⟩] } }
    (∃ hd, w.inboundRest = m.packHdr ++ [0xff, 0x02] ++ [5] ∧ m.packHdr.length = 24 ∧ unpack m.packHdr = some hd
        ∧ hd.len > 0 ∧ [0xff, 0x02].length = hd.len ∧ checksum [0xff, 0x02] ≠ hd.sum)
    ∧ (∃ hd, w₂.inboundRest = ([0x41] ++ m.packHdr.drop 1) ++ m.data ∧ ([0x41] ++ m.packHdr.drop 1).length = 24
        ∧ unpack ([0x41] ++ m.packHdr.drop 1) = some hd ∧ Cmd.ofWire? hd.cmd = none) := by
  exact ⟨⟨_, rfl, rfl, rfl, by decide, rfl, by decide⟩, ⟨_, rfl, rfl, rfl, rfl⟩⟩

/-- Non-vacuity of `C03_frag_independent`: the same 26 device bytes, once in three segments read in pieces of
    1, 23, 0, 2 bytes with 10-tick calls, once in a single segment read at once by another transaction; both
    deliver (the same packet, by the theorem). -/
example :
    let m : Msg := ⟨.WRTE, 7, 9, [0xff, 0x01]⟩
    let w₁ : World := { cur := some { segs := [⟨0, m.packHdr.take 5⟩, ⟨0, m.packHdr.drop 5⟩, ⟨0, m.data⟩],
                                      frags := [1, 23, 0, 2], dt := 10 } }
    let w₂ : World := { cur := some { segs := [⟨0, m.encode⟩] }, now := 77 }
    let t₁ : Txn := ⟨some 9, some 7, some 10, some 100, none⟩
    let t₂ : Txn := ⟨some 1, none, none, none, none⟩
    w₁.inboundRest = w₂.inboundRest ∧ (∃ p, (readPacket t₁ w₁).1 = .ok p) ∧ (∃ p, (readPacket t₂ w₂).1 = .ok p) := by
  exact ⟨rfl, ⟨_, rfl⟩, ⟨_, rfl⟩⟩

end Adb
