import AdbProofs.Lemmas.Bytes
/-
  C02 — every packet the host emits is a well-formed ADB message.
  Only property theorems and non-vacuity examples live here; helper lemmas are in AdbProofs/Lemmas.
-/
namespace Adb

/-- The header is `MESSAGE_SIZE` bytes and the source still says that is 24 (`struct.calcsize('<6I')`). -/
theorem C02_header_len (m : Msg) :
    m.packHdr.length = Generated.MESSAGE_SIZE ∧ Generated.MESSAGE_SIZE = 24
      ∧ Generated.MESSAGE_FORMAT = "<6I" := by
  refine ⟨?_, rfl, rfl⟩
  simp [Msg.packHdr, Generated.MESSAGE_SIZE]

/-- The command/wire tables recomputed in the model are the tables of the current `constants.py`:
    names, order and every wire value (little-endian ASCII). -/
theorem C02_wire_table :
    Generated.IDS = Cmd.all.map Cmd.name
      ∧ Generated.ID_TO_WIRE = Cmd.all.map (fun c => (c.name, c.wire))
      ∧ Generated.WIRE_TO_ID = Cmd.all.map (fun c => (c.wire, c.name))
      ∧ [Generated.ID_AUTH, Generated.ID_CLSE, Generated.ID_CNXN, Generated.ID_OKAY, Generated.ID_OPEN,
         Generated.ID_SYNC, Generated.ID_WRTE] = Cmd.all.map Cmd.name := by
  decide

/-- Every command is known (`ofWire?` inverts `wire`), fits 32 bits, and its magic is the bitwise
    complement: `wire + magic = 2^32 - 1`. -/
theorem C02_magic (c : Cmd) :
    Cmd.ofWire? c.wire = some c ∧ c.wire < 4294967296 ∧ magicOf c.wire < 4294967296
      ∧ c.wire + magicOf c.wire = 4294967295 := by
  cases c <;> decide

/-- Layout: six little-endian words — command, arg0, arg1, payload length, byte sum mod 2^32,
    complement of the command — followed by exactly the payload. -/
theorem C02_layout (m : Msg) :
    m.encode = le32 m.cmd.wire ++ le32 m.arg0 ++ le32 m.arg1 ++ le32 m.data.length
        ++ le32 (byteSum m.data % 4294967296) ++ le32 (m.cmd.wire ^^^ 4294967295) ++ m.data := by
  simp [Msg.encode, Msg.packHdr, checksum, magicOf]

/-- `pack` succeeds exactly on 32-bit fields (Python's `struct.error` otherwise). -/
theorem C02_pack_iff (m : Msg) : (m.pack? = some m.packHdr ↔ m.Packable) ∧ (m.pack? = none ↔ ¬ m.Packable) := by
  unfold Msg.pack?; split <;> simp_all

/-- Unpacking a packed header returns the original fields, for every command, every 32-bit argument
    and every payload (any length below 2^32, any byte sum — the sum is reduced mod 2^32). -/
theorem C02_unpack_pack (m : Msg) (h : m.Packable) :
    unpack m.packHdr = some ⟨m.cmd.wire, m.arg0, m.arg1, m.data.length, byteSum m.data % 4294967296⟩
      ∧ unpackMagic m.packHdr = some (magicOf m.cmd.wire) := by
  obtain ⟨h0, h1, hl⟩ := h
  have hw := (C02_magic m.cmd).2.1
  have hm := (C02_magic m.cmd).2.2.1
  have hs : byteSum m.data % 4294967296 < 4294967296 := checksum_lt m.data
  constructor
  · simp only [Msg.packHdr, unpack, List.append_assoc]
    have := rd32_le32 _ hm []
    simp only [List.append_nil] at this
    simp [rd32_le32 _ hw, rd32_le32 _ h0, rd32_le32 _ h1, rd32_le32 _ hl, rd32_le32 _ hs, this, checksum]
  · have : (le32 m.cmd.wire ++ le32 m.arg0 ++ le32 m.arg1 ++ le32 m.data.length ++ le32 (checksum m.data)).length = 20 := by
      simp
    simp only [Msg.packHdr, unpackMagic]
    rw [List.drop_left' this]
    have := rd32_le32 _ hm []
    simp only [List.append_nil] at this
    simp [this]

/-- The strict well-formedness parser (the oracle run on the bytes the peer received) accepts the
    encoding of any packable message and returns exactly that message: the encoding announces exactly
    the payload length, a known command, the complement magic and the right checksum. -/
theorem C02_parse_encode (m : Msg) (h : m.Packable) (rest : Bytes) (acc : List Pkt) (fuel : Nat) :
    parseStrictAux (fuel + 1) (m.encode ++ rest) acc
      = parseStrictAux fuel rest (⟨m.cmd, m.arg0, m.arg1, m.data⟩ :: acc) := by
  have hlen : m.packHdr.length = 24 := (C02_header_len m).1
  have htake : (m.encode ++ rest).take 24 = m.packHdr := by
    simp [Msg.encode, hlen, List.append_assoc, List.take_left']
  have hdrop : (m.encode ++ rest).drop 24 = m.data ++ rest := by
    simp [Msg.encode, List.append_assoc, List.drop_left', hlen]
  have ⟨hu, hmg⟩ := C02_unpack_pack m h
  have hof := (C02_magic m.cmd).1
  rw [parseStrictAux]
  simp only [htake, hlen, Nat.lt_irrefl, if_false, hu, hmg, hof, hdrop]
  simp [checksum]

/-- A whole emitted stream: concatenated encodings parse back to exactly the messages, nothing left. -/
theorem C02_parse_stream (ms : List Msg) (h : ∀ m ∈ ms, m.Packable) (acc : List Pkt) (fuel : Nat)
    (hf : ms.length ≤ fuel) :
    parseStrictAux (fuel + 1) (ms.map Msg.encode).flatten acc
      = (acc.reverse ++ ms.map (fun m => ⟨m.cmd, m.arg0, m.arg1, m.data⟩), []) := by
  induction ms generalizing acc fuel with
  | nil => simp [parseStrictAux]
  | cons m ms ih =>
    cases fuel with
    | zero => simp at hf
    | succ f =>
      simp only [List.map_cons, List.flatten_cons]
      rw [C02_parse_encode m (h m (by simp))]
      rw [ih (fun x hx => h x (by simp [hx])) _ f (by simpa using hf)]
      simp

/-- Non-vacuity: a WRTE with 32-bit-boundary ids and a payload is packable and parses back. -/
example : (⟨.WRTE, 4294967295, 1, [0xff, 0x01]⟩ : Msg).Packable
    ∧ parseStrict (⟨.WRTE, 4294967295, 1, [0xff, 0x01]⟩ : Msg).encode
        = ([⟨.WRTE, 4294967295, 1, [0xff, 0x01]⟩], []) := by decide

end Adb
