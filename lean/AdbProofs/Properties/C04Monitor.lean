import AdbProofs.Lemmas.MonitorHistory
import AdbProofs.Lemmas.SyncExamples
import AdbProofs.Lemmas.PushExamples
/-
  C04 — the executable per-stream protocol monitor (`Adb.Monitor`, the Lean transcription of the
  harness' `_monitor`) accepts every conversation the model's operations produce.

  Vocabulary: `exchanged evs` are the deliveries (`rx`) and transmissions (`tx`) of the trace events a
  call adds, oldest first; `ofXfers` turns them into the monitor's packet log (delivery = device
  packet, transmission = host packet); `Monitor.run S log = (S', viols)` runs the monitor loop from
  stream table `S`.  `Quiet1 r st` — "open and quiet" — is `st.remote = some r ∧ st.hostClosed = false ∧
  st.owed = 0 ∧ st.hostWrteInflight = false`; `Live r st` is `st.remote = some r ∧ st.hostClosed = false ∧
  0 ≤ st.owed`; `Done st` is `st.hostClosed = true ∧ st.devClosed = true ∧ st.done = true`.

  Every theorem about delivered stream packets assumes that none of them carries the legacy zero local
  id (`∀ p ∈ delivered evs, p.arg1 ≠ 0`): the library's `allow_zeros` matching delivers and acknowledges
  `WRTE(r, 0)`, which the monitor (keyed by arg1) skips as foreign traffic — it then reports the
  acknowledgement as spurious; see the last example.
-/
namespace Adb
open Monitor (St Viol Table)

/-- `_open` on a monitor table in which the next local id is not a live stream (unknown or `done`),
    EVERY outcome: the monitor accepts the exchange, no other stream's entry changes, and after a
    normal return the new stream — with the ids of the returned transaction — is open and quiet. -/
theorem C04_monitor_open (dest : Bytes) (tt rt total : Timeout) (w w' : World) (res : Except Err Txn) (S : Table)
    (hl : w.locks = []) (hid : w.localId < 4294967296)
    (hfresh : ∀ st, alookup (nextId w.localId) S = some st → st.done = true)
    (h : openStream dest tt rt total w = (res, w')) :
    ∃ (evs : List TEv) (S' : Table), w'.trace = evs ++ w.trace ∧
      Monitor.run S (ofXfers (exchanged evs)) = (S', []) ∧
      (∀ k, k ≠ nextId w.localId → alookup k S' = alookup k S) ∧
      (∀ t, res = .ok t → ∃ r st, t.localId = some (nextId w.localId) ∧ t.remoteId = some r ∧
        alookup (nextId w.localId) S' = some st ∧ Quiet1 r st) := by
  obtain ⟨X, ⟨evs, htr, hx, _⟩, _, hres⟩ := openStream_mon h hl
  subst hx
  cases res with
  | ok t =>
    obtain ⟨r, hi, hacc⟩ := hres
    obtain ⟨st, h1, hq⟩ := hacc S hid hfresh
    refine ⟨evs, _, htr, h1, Only.aset _ _ S, ?_⟩
    intro t' ht'
    cases ht'
    exact ⟨r, st, hi.loc, hi.rem, alookup_aset_self _ _ _, hq⟩
  | error e =>
    obtain ⟨S', h1, h2⟩ := hres S hid hfresh
    exact ⟨evs, S', htr, h1, h2, by simp⟩

/-- `_okay` is only sent when owed: it transmits exactly one OKAY with the stream's ids, which the
    monitor accepts if (and only if) a delivered WRTE is still unacknowledged (`0 < owed`). -/
theorem C04_monitor_okay (t : Txn) (l r : Nat) (w w' : World) (res : Except Err Unit) (hl : lockTransport ∉ w.locks)
    (hloc : t.localId = some l) (hrem : t.remoteId = some r) (h : okay t w = (res, w')) :
    ∃ evs : List TEv, w'.trace = evs ++ w.trace ∧ exchanged evs = [.tx ⟨.OKAY, l, r, []⟩] ∧
      ∀ (S : Table) (st : St), alookup l S = some st → Live r st →
        Monitor.run S (ofXfers (exchanged evs)) =
          (aset l { st with owed := st.owed - 1 } S, if st.owed ≤ 0 then [Viol.spuriousOkay] else []) := by
  have hi : Ids t l r := ⟨hloc, hrem⟩
  obtain ⟨⟨evs, htr, hxe, _⟩, hacc⟩ := okay_mon hi h hl
  refine ⟨evs, htr, by rw [hxe, hi.okayMsg], fun S st hst hlv => ?_⟩
  rw [hxe]; exact hacc S st hst hlv

/-- `_read_until` on an open-and-quiet stream `(l, r)`, EVERY outcome: at most one packet is delivered;
    a delivered WRTE is acknowledged with exactly one OKAY right after it and nothing else is sent; the
    monitor accepts and the stream is open and quiet again. -/
theorem C04_monitor_read_until (ex : List Cmd) (t : Txn) (l r : Nat) (w w' : World) (res : Except Err (Cmd × Bytes))
    (hl : lockTransport ∉ w.locks) (hloc : t.localId = some l) (hrem : t.remoteId = some r)
    (h : readUntil ex t w = (res, w')) :
    ∃ evs : List TEv, w'.trace = evs ++ w.trace ∧ ((∀ p ∈ delivered evs, p.arg1 ≠ 0) →
      ∀ (S : Table) (st : St), alookup l S = some st → Quiet1 r st →
        ∃ st', Monitor.run S (ofXfers (exchanged evs)) = (aset l st' S, []) ∧
          ((∃ v, res = .ok v) → Quiet1 r st') ∧ Live r st') := by
  obtain ⟨X, Y, ⟨evs, htr, hxe, _⟩, hacc⟩ := SQ_readUntil ⟨hloc, hrem⟩ ex w w' res h hl
  subst hxe
  refine ⟨evs, htr, fun hnz S st hst hq => ?_⟩
  obtain ⟨st', h1, h2⟩ := hacc (by intro p hp; exact hnz p (by rw [delivered_eq_rxs]; exact hp)) S st hst hq
  refine ⟨st', h1, ?_, h2.live⟩
  rintro ⟨v, rfl⟩
  exact h2

/-- `_filesync_flush` on an open-and-quiet stream, EVERY outcome: one WRTE (none was in flight); device
    WRTEs delivered while waiting are each acknowledged once; it returns normally only after the device's
    OKAY, so the stream is open and quiet again — the next WRTE cannot overtake the acknowledgement. -/
theorem C04_monitor_flush (t : Txn) (fi : FsInfo) (l r : Nat) (w w' : World) (res : Except Err FsInfo)
    (hl : lockTransport ∉ w.locks) (hloc : t.localId = some l) (hrem : t.remoteId = some r)
    (h : fsFlush t fi w = (res, w')) :
    ∃ evs : List TEv, w'.trace = evs ++ w.trace ∧ ((∀ p ∈ delivered evs, p.arg1 ≠ 0) →
      ∀ (S : Table) (st : St), alookup l S = some st → Quiet1 r st →
        ∃ st', Monitor.run S (ofXfers (exchanged evs)) = (aset l st' S, []) ∧
          ((∃ v, res = .ok v) → Quiet1 r st') ∧ Live r st') := by
  obtain ⟨X, Y, ⟨evs, htr, hxe, _⟩, hacc⟩ := SQ_fsFlush ⟨hloc, hrem⟩ fi w w' res h hl
  subst hxe
  refine ⟨evs, htr, fun hnz S st hst hq => ?_⟩
  obtain ⟨st', h1, h2⟩ := hacc (by intro p hp; exact hnz p (by rw [delivered_eq_rxs]; exact hp)) S st hst hq
  refine ⟨st', h1, ?_, h2.live⟩
  rintro ⟨v, rfl⟩
  exact h2

/-- `_clse` (host-initiated close) on a stream the host has not closed yet — quiet or not, e.g. after a
    failed transfer —, EVERY outcome: exactly one CLSE is sent and accepted; after a normal return the
    stream is closed by both sides (`done`). -/
theorem C04_monitor_close (t : Txn) (l r : Nat) (w w' : World) (res : Except Err Unit)
    (hl : lockTransport ∉ w.locks) (hloc : t.localId = some l) (hrem : t.remoteId = some r)
    (h : clse t w = (res, w')) :
    ∃ evs : List TEv, w'.trace = evs ++ w.trace ∧ ((∀ p ∈ delivered evs, p.arg1 ≠ 0) →
      ∀ (S : Table) (st : St), alookup l S = some st → Live r st →
        ∃ st', Monitor.run S (ofXfers (exchanged evs)) = (aset l st' S, []) ∧ st'.hostClosed = true ∧
          (res = .ok () → Done st')) := by
  obtain ⟨X, ⟨evs, htr, hxe, _⟩, hacc⟩ := clse_mon ⟨hloc, hrem⟩ h hl
  subst hxe
  refine ⟨evs, htr, fun hnz S st hst hlv => ?_⟩
  obtain ⟨st', h1, h2, h3⟩ := hacc (by intro p hp; exact hnz p (by rw [delivered_eq_rxs]; exact hp)) S st hst hlv
  exact ⟨st', h1, h2, fun hr => h3 () hr⟩

/-- `_read_until_close` on an established stream, EVERY outcome: each delivered WRTE acknowledged once,
    the device's CLSE answered with exactly one CLSE and nothing after it; closed by both sides after a
    normal return; after an exception the stream is either still `Live` or closed by both sides. -/
theorem C04_monitor_read_until_close (t : Txn) (l r : Nat) (w w' : World) (res : Except Err (List Bytes))
    (hl : lockTransport ∉ w.locks) (hloc : t.localId = some l) (hrem : t.remoteId = some r)
    (h : readUntilClose t w = (res, w')) :
    ∃ evs : List TEv, w'.trace = evs ++ w.trace ∧ ((∀ p ∈ delivered evs, p.arg1 ≠ 0) →
      ∀ (S : Table) (st : St), alookup l S = some st → Live r st →
        ∃ st', Monitor.run S (ofXfers (exchanged evs)) = (aset l st' S, []) ∧ (Live r st' ∨ Done st') ∧
          ((∃ items, res = .ok items) → Done st')) := by
  obtain ⟨X, Y, ⟨evs, htr, hxe, _⟩, hacc⟩ := readUntilClose_mon ⟨hloc, hrem⟩ h hl
  subst hxe
  refine ⟨evs, htr, fun hnz S st hst hlv => ?_⟩
  obtain ⟨st', h1, h2, h3⟩ := hacc (by intro p hp; exact hnz p (by rw [delivered_eq_rxs]; exact hp)) S st hst hlv
  exact ⟨st', h1, h2, fun ⟨items, hr⟩ => h3 items hr⟩

/-- A whole `_streaming_command` (shell / exec_out / streaming_shell / root all run through it), EVERY
    outcome, from a table in which the next local id is not a live stream: the monitor accepts the
    whole conversation, only the new stream's entry changes, and when the call returned normally the
    stream is closed by both sides (`done`). -/
theorem C04_monitor_stream_command (svc cmd : Bytes) (tt rt total : Timeout) (w w' : World) (res : Except Err (List Bytes))
    (hl : w.locks = []) (h : streamingCommand svc cmd tt rt total w = (res, w')) :
    ∃ evs : List TEv, w'.trace = evs ++ w.trace ∧ ((∀ p ∈ delivered evs, p.arg1 ≠ 0) →
      ∀ S : Table, w.localId < 4294967296 → (∀ st, alookup (nextId w.localId) S = some st → st.done = true) →
        ∃ S', Monitor.run S (ofXfers (exchanged evs)) = (S', []) ∧
          (∀ k, k ≠ nextId w.localId → alookup k S' = alookup k S) ∧
          ((∃ items, res = .ok items) → ∃ st, alookup (nextId w.localId) S' = some st ∧ Done st)) := by
  obtain ⟨evs, htr, hacc⟩ := (OneStream_streamingCommand svc cmd tt rt total).explicit h hl
  refine ⟨evs, htr, fun hnz S hid hf => ?_⟩
  obtain ⟨S', h1, h2, h3⟩ := hacc hnz S hid hf
  exact ⟨S', h1, h2, h3 trivial⟩

/-- In particular, as the only conversation of a connection: `Monitor.check` reports nothing. -/
theorem C04_monitor_stream_command_check (svc cmd : Bytes) (tt rt total : Timeout) (w w' : World) (res : Except Err (List Bytes))
    (hl : w.locks = []) (hid : w.localId < 4294967296) (h : streamingCommand svc cmd tt rt total w = (res, w')) :
    ∃ evs : List TEv, w'.trace = evs ++ w.trace ∧ ((∀ p ∈ delivered evs, p.arg1 ≠ 0) →
      Monitor.check (ofXfers (exchanged evs)) = []) := by
  obtain ⟨evs, htr, hacc⟩ := C04_monitor_stream_command svc cmd tt rt total w w' res hl h
  refine ⟨evs, htr, fun hnz => ?_⟩
  obtain ⟨S', h1, _⟩ := hacc hnz [] hid (by simp)
  exact Acc.check h1

/-- `stat`, EVERY outcome: accepted from every table in which the next local id is not a live stream;
    closed by both sides after a normal return. -/
theorem C04_monitor_stat (devPath : Bytes) (tt rt : Timeout) (w w' : World) (res : Except Err Val)
    (hl : w.locks = []) (h : devStat devPath tt rt w = (res, w')) :
    ∃ evs : List TEv, w'.trace = evs ++ w.trace ∧ ((∀ p ∈ delivered evs, p.arg1 ≠ 0) →
      ∀ S : Table, w.localId < 4294967296 → (∀ st, alookup (nextId w.localId) S = some st → st.done = true) →
        ∃ S', Monitor.run S (ofXfers (exchanged evs)) = (S', []) ∧
          (∀ k, k ≠ nextId w.localId → alookup k S' = alookup k S) ∧
          ((∃ v, res = .ok v) → ∃ st, alookup (nextId w.localId) S' = some st ∧ Done st)) := by
  obtain ⟨evs, htr, hacc⟩ := (OneStream_devStat devPath tt rt).explicit h hl
  refine ⟨evs, htr, fun hnz S hid hf => ?_⟩
  obtain ⟨S', h1, h2, h3⟩ := hacc hnz S hid hf
  exact ⟨S', h1, h2, h3 trivial⟩

/-- `list`, EVERY outcome. -/
theorem C04_monitor_list (devPath : Bytes) (tt rt : Timeout) (w w' : World) (res : Except Err Val)
    (hl : w.locks = []) (h : devList devPath tt rt w = (res, w')) :
    ∃ evs : List TEv, w'.trace = evs ++ w.trace ∧ ((∀ p ∈ delivered evs, p.arg1 ≠ 0) →
      ∀ S : Table, w.localId < 4294967296 → (∀ st, alookup (nextId w.localId) S = some st → st.done = true) →
        ∃ S', Monitor.run S (ofXfers (exchanged evs)) = (S', []) ∧
          (∀ k, k ≠ nextId w.localId → alookup k S' = alookup k S) ∧
          ((∃ v, res = .ok v) → ∃ st, alookup (nextId w.localId) S' = some st ∧ Done st)) := by
  obtain ⟨evs, htr, hacc⟩ := (OneStream_devList devPath tt rt).explicit h hl
  refine ⟨evs, htr, fun hnz S hid hf => ?_⟩
  obtain ⟨S', h1, h2, h3⟩ := hacc hnz S hid hf
  exact ⟨S', h1, h2, h3 trivial⟩

/-- `pull` without a progress callback, EVERY outcome (the `finally: _clse` included). -/
theorem C04_monitor_pull (devPath : Bytes) (tt rt : Timeout) (w w' : World) (res : Except Err Val)
    (hl : w.locks = []) (h : devPull devPath .none tt rt w = (res, w')) :
    ∃ evs : List TEv, w'.trace = evs ++ w.trace ∧ ((∀ p ∈ delivered evs, p.arg1 ≠ 0) →
      ∀ S : Table, w.localId < 4294967296 → (∀ st, alookup (nextId w.localId) S = some st → st.done = true) →
        ∃ S', Monitor.run S (ofXfers (exchanged evs)) = (S', []) ∧
          (∀ k, k ≠ nextId w.localId → alookup k S' = alookup k S) ∧
          ((∃ v, res = .ok v) → ∃ st, alookup (nextId w.localId) S' = some st ∧ Done st)) := by
  obtain ⟨evs, htr, hacc⟩ := (OneStream_devPull_none devPath tt rt).explicit h hl
  refine ⟨evs, htr, fun hnz S hid hf => ?_⟩
  obtain ⟨S', h1, h2, h3⟩ := hacc hnz S hid hf
  exact ⟨S', h1, h2, h3 trivial⟩

/-- `_push` of one file (`pushOne`) on an open-and-quiet stream `(l, r)`, EVERY outcome: accepted,
    only the entry of stream `l` changes; the stream is open and quiet again after a normal return and
    still `Live` (established, not closed by the host, nothing acknowledged that was not owed) after an
    exception — so the `_clse` that follows is accepted too. -/
theorem C04_monitor_push (content devPath : Bytes) (mode mtime : Nat) (cb : CbMode) (t : Txn) (fi : FsInfo) (l r : Nat)
    (w w' : World) (res : Except Err Unit) (hl : lockTransport ∉ w.locks)
    (hloc : t.localId = some l) (hrem : t.remoteId = some r)
    (h : pushOne content devPath mode mtime cb t fi w = (res, w')) :
    ∃ evs : List TEv, w'.trace = evs ++ w.trace ∧ ((∀ p ∈ delivered evs, p.arg1 ≠ 0) →
      ∀ (S : Table) (st : St), alookup l S = some st → Quiet1 r st →
        ∃ st', Monitor.run S (ofXfers (exchanged evs)) = (aset l st' S, []) ∧
          ((∃ u, res = .ok u) → Quiet1 r st') ∧ Live r st') := by
  obtain ⟨X, Y, ⟨evs, htr, hxe, _⟩, hacc⟩ := SQ_pushOne ⟨hloc, hrem⟩ content devPath mode mtime cb fi w w' res h hl
  subst hxe
  refine ⟨evs, htr, fun hnz S st hst hq => ?_⟩
  obtain ⟨st', h1, h2⟩ := hacc (by intro p hp; exact hnz p (by rw [delivered_eq_rxs]; exact hp)) S st hst hq
  refine ⟨st', h1, ?_, h2.live⟩
  rintro ⟨u, rfl⟩
  exact h2

/-- `push` of one file or BytesIO (`pushFile`: open, `_push`, `_clse`), EVERY outcome. -/
theorem C04_monitor_push_file (fid : Nat) (devPath : Bytes) (mode mtime : Nat) (cb : CbMode) (tt rt : Timeout)
    (w w' : World) (res : Except Err Unit) (hl : w.locks = []) (h : pushFile fid devPath mode mtime cb tt rt w = (res, w')) :
    ∃ evs : List TEv, w'.trace = evs ++ w.trace ∧ ((∀ p ∈ delivered evs, p.arg1 ≠ 0) →
      ∀ S : Table, w.localId < 4294967296 → (∀ st, alookup (nextId w.localId) S = some st → st.done = true) →
        ∃ S', Monitor.run S (ofXfers (exchanged evs)) = (S', []) ∧
          (∀ k, k ≠ nextId w.localId → alookup k S' = alookup k S) ∧
          ((∃ v, res = .ok v) → ∃ st, alookup (nextId w.localId) S' = some st ∧ Done st)) := by
  obtain ⟨evs, htr, hacc⟩ := (OneStream_pushFile fid devPath mode mtime cb tt rt).explicit h hl
  refine ⟨evs, htr, fun hnz S hid hf => ?_⟩
  obtain ⟨S', h1, h2, h3⟩ := hacc hnz S hid hf
  exact ⟨S', h1, h2, h3 trivial⟩

/-- `pull` with or without a progress callback (with one, `stat` runs on a SECOND stream while the
    pull's stream is open), EVERY outcome.  Stated with the invariant that composes over operations:
    every stream the monitor knows has an id at most the allocator's counter (`Bnd`), and the counter
    does not wrap around during the call.  The monitor accepts the conversation, ends in such a table
    again and leaves the entries of all older streams alone. -/
theorem C04_monitor_pull_progress (devPath : Bytes) (cb : CbMode) (tt rt : Timeout) (w w' : World) (res : Except Err Val)
    (hl : w.locks = []) (hb : w.localId + 2 < 4294967296) (h : devPull devPath cb tt rt w = (res, w')) :
    ∃ evs : List TEv, w'.trace = evs ++ w.trace ∧ w.localId ≤ w'.localId ∧ w'.localId ≤ w.localId + 2 ∧
      ((∀ p ∈ delivered evs, p.arg1 ≠ 0) →
        ∀ S : Table, (∀ k st, alookup k S = some st → k ≤ w.localId) →
          ∃ S', Monitor.run S (ofXfers (exchanged evs)) = (S', []) ∧
            (∀ k st, alookup k S' = some st → k ≤ w'.localId) ∧
            (∀ k, k ≤ w.localId → alookup k S' = alookup k S)) := by
  obtain ⟨X, Y, ⟨evs, htr, hxe, _⟩, hr⟩ := Multi_devPull devPath cb tt rt w w' res h hl
  subst hxe
  obtain ⟨h1, h2, h3⟩ := hr hb
  exact ⟨evs, htr, h1, h2, fun hnz S hS => h3 (by intro p hp; exact hnz p (by rw [delivered_eq_rxs]; exact hp)) S hS⟩

/-- `push` (a file, a BytesIO, or a directory: the `mkdir` shell command and then one stream per entry),
    EVERY outcome, in the same form; `pushBound src w.dirs` is the number of streams the call may open. -/
theorem C04_monitor_push_api (src : LocalRef) (devPath : Bytes) (mode mtime : Nat) (cb : CbMode) (tt rt : Timeout)
    (w w' : World) (res : Except Err Val) (hl : w.locks = []) (hb : w.localId + pushBound src w.dirs < 4294967296)
    (h : devPush src devPath mode mtime cb tt rt w = (res, w')) :
    ∃ evs : List TEv, w'.trace = evs ++ w.trace ∧ w.localId ≤ w'.localId ∧ w'.localId ≤ w.localId + pushBound src w.dirs ∧
      ((∀ p ∈ delivered evs, p.arg1 ≠ 0) →
        ∀ S : Table, (∀ k st, alookup k S = some st → k ≤ w.localId) →
          ∃ S', Monitor.run S (ofXfers (exchanged evs)) = (S', []) ∧
            (∀ k st, alookup k S' = some st → k ≤ w'.localId) ∧
            (∀ k, k ≤ w.localId → alookup k S' = alookup k S)) := by
  obtain ⟨X, Y, ⟨evs, htr, hxe, _⟩, hr⟩ := Multi_devPush src devPath mode mtime cb tt rt w w' res h hl
  subst hxe
  obtain ⟨h1, h2, h3⟩ := hr hb
  exact ⟨evs, htr, h1, h2, fun hnz S hS => h3 (by intro p hp; exact hnz p (by rw [delivered_eq_rxs]; exact hp)) S hS⟩

/-- HISTORIES.  Any sequence of API calls (connect, close, shell, exec_out, root, reboot,
    streaming_shell, list, stat, pull, push — each possibly failing at any point, the caller catching
    the exception) started on an idle device object with an empty trace: if the stream-id counter does
    not wrap around during the history (`historyBound` sums, per call, the number of ids it may
    allocate: 0 for connect/close, 2 for pull, 1 + number of entries for push of a directory, 1
    otherwise) and the device never uses the legacy zero local id, the monitor accepts the WHOLE
    conversation: `Monitor.check` reports nothing. -/
theorem C04_monitor_history (ops : List ApiOp) (w w' : World) (rs : List (Except Err Val))
    (hl : w.locks = []) (htr : w.trace = []) (h : runHistory ops w = (rs, w'))
    (hb : w.localId + historyBound ops w.dirs < 4294967296)
    (hnz : ∀ p ∈ delivered w'.trace, p.arg1 ≠ 0) :
    Monitor.check (ofXfers (exchanged w'.trace)) = [] := by
  obtain ⟨X, Y, ⟨evs, he, hxe, _⟩, hr⟩ := runHistory_mon ops w w' rs h hl
  rw [htr, List.append_nil] at he
  subst hxe
  rw [he] at hnz ⊢
  obtain ⟨S', h1, _⟩ := hr hb (by intro p hp; exact hnz p (by rw [delivered_eq_rxs]; exact hp)) [] (Bnd.nil _)
  exact Acc.check h1

/-- The same for a history that continues an earlier one: from every monitor table whose streams have
    ids at most the counter, the conversation the history ADDS is accepted, and the table it ends in is
    bounded by the new counter again. -/
theorem C04_monitor_history_from (ops : List ApiOp) (w w' : World) (rs : List (Except Err Val))
    (hl : w.locks = []) (h : runHistory ops w = (rs, w'))
    (hb : w.localId + historyBound ops w.dirs < 4294967296) :
    ∃ evs : List TEv, w'.trace = evs ++ w.trace ∧ ((∀ p ∈ delivered evs, p.arg1 ≠ 0) →
      ∀ S : Table, (∀ k st, alookup k S = some st → k ≤ w.localId) →
        ∃ S', Monitor.run S (ofXfers (exchanged evs)) = (S', []) ∧ (∀ k st, alookup k S' = some st → k ≤ w'.localId)) := by
  obtain ⟨X, Y, ⟨evs, he, hxe, _⟩, hr⟩ := runHistory_mon ops w w' rs h hl
  subst hxe
  exact ⟨evs, he, fun hnz S hS => hr hb (by intro p hp; exact hnz p (by rw [delivered_eq_rxs]; exact hp)) S hS⟩

/-! ### Non-vacuity: the monitor rejects bad conversations -/

/-- a second OKAY for one WRTE -/
example : Monitor.check [⟨true, .OPEN, 1, 0, [120, 0]⟩, ⟨false, .OKAY, 7, 1, []⟩, ⟨false, .WRTE, 7, 1, [1]⟩,
    ⟨true, .OKAY, 1, 7, []⟩, ⟨true, .OKAY, 1, 7, []⟩] = [.spuriousOkay] := by decide
/-- a WRTE before the previous one was acknowledged -/
example : Monitor.check [⟨true, .OPEN, 1, 0, [120, 0]⟩, ⟨false, .OKAY, 7, 1, []⟩, ⟨true, .WRTE, 1, 7, [1]⟩,
    ⟨true, .WRTE, 1, 7, [2]⟩] = [.secondWrte] := by decide
/-- a CLSE sent twice -/
example : Monitor.check [⟨true, .OPEN, 1, 0, [120, 0]⟩, ⟨false, .OKAY, 7, 1, []⟩, ⟨true, .CLSE, 1, 7, []⟩,
    ⟨true, .CLSE, 1, 7, []⟩] = [.afterClose] := by decide
/-- an OKAY with the wrong remote id -/
example : Monitor.check [⟨true, .OPEN, 1, 0, [120, 0]⟩, ⟨false, .OKAY, 7, 1, []⟩, ⟨false, .WRTE, 7, 1, [1]⟩,
    ⟨true, .OKAY, 1, 8, []⟩] = [.wrongRemote] := by decide
/-- an OPEN reusing a live id -/
example : Monitor.check [⟨true, .OPEN, 1, 0, [120, 0]⟩, ⟨false, .OKAY, 7, 1, []⟩, ⟨true, .OPEN, 1, 0, [120, 0]⟩]
    = [.openReusesLive] := by decide
/-- a malformed OPEN (local id 0, no NUL), a packet on an unknown stream; and a well-formed conversation is accepted -/
example : Monitor.check [⟨true, .OPEN, 0, 0, [120]⟩, ⟨true, .WRTE, 5, 7, []⟩] = [.openMalformed, .unknownStream] ∧
    Monitor.ok [⟨true, .OPEN, 1, 0, [120, 0]⟩, ⟨false, .OKAY, 7, 1, []⟩, ⟨false, .WRTE, 7, 1, [1]⟩, ⟨true, .OKAY, 1, 7, []⟩,
      ⟨false, .CLSE, 7, 1, []⟩, ⟨true, .CLSE, 1, 7, []⟩] = true := by decide

/-! ### Non-vacuity: concrete runs are accepted (evaluated by the kernel) -/

open SR in
/-- the hypotheses of `C04_monitor_stat` hold in the scripted world `wStat` (idle, counter at 0, the
    device answers on stream (1, 7)), the call returns normally, and the monitor accepts its conversation -/
example : wStat.locks = [] ∧ wStat.localId < 4294967296 ∧
    (devStat sxPath (some 10) (some 10) wStat).1.toOption = some (.stat 33188 1234 1700000000) ∧
    (∀ p ∈ delivered (devStat sxPath (some 10) (some 10) wStat).2.trace, p.arg1 ≠ 0) ∧
    Monitor.check (ofXfers (exchanged (devStat sxPath (some 10) (some 10) wStat).2.trace)) = [] := by
  refine ⟨rfl, by decide, by decide +kernel, by decide +kernel, by decide +kernel⟩

open SR in
/-- the conversation of that `stat`: OPEN, the device's OKAY, one WRTE (acknowledged by the device), two
    device WRTEs each acknowledged once, CLSE answered by the device's CLSE -/
example : ofXfers (exchanged (devStat sxPath (some 10) (some 10) wStat).2.trace) =
    [⟨true, .OPEN, 1, 0, ascii "sync:" ++ [0]⟩, ⟨false, .OKAY, 7, 1, []⟩,
     ⟨true, .WRTE, 1, 7, ascii "STAT" ++ le32 2 ++ sxPath⟩, ⟨false, .OKAY, 7, 1, []⟩,
     ⟨false, .WRTE, 7, 1, sxStatRec.take 5⟩, ⟨true, .OKAY, 1, 7, []⟩,
     ⟨false, .WRTE, 7, 1, sxStatRec.drop 5⟩, ⟨true, .OKAY, 1, 7, []⟩,
     ⟨true, .CLSE, 1, 7, []⟩, ⟨false, .CLSE, 7, 1, []⟩] := by decide +kernel

open SR in
/-- `list`, `pull` and `pull` with a progress callback (the nested `stat` runs on stream 2 while stream 1 is open) -/
example : Monitor.check (ofXfers (exchanged (devList sxPath (some 10) (some 10) wList).2.trace)) = [] ∧
    Monitor.check (ofXfers (exchanged (devPull sxPath .none (some 10) (some 10) wPull).2.trace)) = [] ∧
    Monitor.check (ofXfers (exchanged (devPull sxPath .raise (some 10) (some 10) wPullCb).2.trace)) = [] ∧
    Monitor.check (ofXfers (exchanged (devPull sxPath .none (some 10) (some 10) wPullFail).2.trace)) = [] := by
  refine ⟨by decide +kernel, by decide +kernel, by decide +kernel, by decide +kernel⟩

/-- the stream-layer primitives on the open-and-quiet stream (1, 77) of `demoTxn` (hypotheses of
    `C04_monitor_read_until`, `C04_monitor_flush`, `C04_monitor_close`, `C04_monitor_read_until_close`): started
    from the table `[(1, quiet)]` the monitor accepts what they exchange -/
example :
    let q : St := { remote := some 77 }
    Quiet1 77 q ∧ lockTransport ∉ (demoWorld []).locks ∧ demoTxn.localId = some 1 ∧ demoTxn.remoteId = some 77 ∧
    Monitor.run [(1, q)] (ofXfers (exchanged (readUntil [.CLSE, .WRTE] demoTxn (demoWorld [⟨.WRTE, 77, 1, [104]⟩])).2.trace))
      = ([(1, q)], []) ∧
    Monitor.run [(1, q)] (ofXfers (exchanged (fsFlush demoTxn { fmt := .stat, maxdata := 4096, sendBuf := [1, 2, 3] }
        (demoWorld [⟨.WRTE, 77, 1, [9]⟩, ⟨.OKAY, 77, 1, []⟩])).2.trace)) = ([(1, q)], []) ∧
    Monitor.run [(1, q)] (ofXfers (exchanged (clse demoTxn (demoWorld [⟨.CLSE, 77, 1, []⟩])).2.trace))
      = ([(1, { q with hostClosed := true, devClosed := true, done := true })], []) ∧
    Monitor.run [(1, q)] (ofXfers (exchanged (readUntilClose demoTxn
        (demoWorld [⟨.WRTE, 77, 1, [104]⟩, ⟨.OKAY, 77, 1, []⟩, ⟨.WRTE, 0, 1, [105]⟩, ⟨.CLSE, 77, 1, []⟩])).2.trace))
      = ([(1, { q with hostClosed := true, devClosed := true, done := true })], []) := by
  refine ⟨⟨rfl, rfl, rfl, rfl⟩, by decide, rfl, rfl, by decide +kernel, by decide +kernel, by decide +kernel, by decide +kernel⟩

open Push in
/-- `_push` of one 20-byte file with maxdata 32 (three buffer flushes and the status flush) on the open
    stream (1, 7): hypotheses of `C04_monitor_push`; and a whole `push` of a file (`C04_monitor_push_api`,
    `C04_monitor_push_file`) -/
example :
    let q : St := { remote := some 7 }
    lockTransport ∉ w32.locks ∧ exT.localId = some 1 ∧ exT.remoteId = some 7 ∧
    isOk (pushOne (List.replicate 20 9) [47, 120] 33188 0 .raise exT (exFi 32) w32).1 = true ∧
    Monitor.run [(1, q)] (ofXfers (exchanged (pushOne (List.replicate 20 9) [47, 120] 33188 0 .raise exT (exFi 32) w32).2.trace))
      = ([(1, q)], []) ∧
    wFile.locks = [] ∧ wFile.localId + pushBound (.file 5) wFile.dirs < 4294967296 ∧
    isOk (devPush (.file 5) [47, 120] 33188 0 .count (some 10) (some 10) wFile).1 = true ∧
    Monitor.check (ofXfers (exchanged (devPush (.file 5) [47, 120] 33188 0 .count (some 10) (some 10) wFile).2.trace)) = [] := by
  refine ⟨by decide, rfl, rfl, by decide +kernel, by decide +kernel, rfl, by decide, by decide +kernel, by decide +kernel⟩

open SR in
/-- hypotheses of `C04_monitor_pull_progress` in `wPullCb` -/
example : wPullCb.locks = [] ∧ wPullCb.localId + 2 < 4294967296 ∧
    (devPull sxPath .raise (some 10) (some 10) wPullCb).1.toOption = some Val.none ∧
    (devPull sxPath .raise (some 10) (some 10) wPullCb).2.localId = 2 := by
  refine ⟨rfl, by decide, by decide +kernel, by decide +kernel⟩

/-- a complete `shell` call in `demoShellWorld` (foreign traffic interleaved) is accepted -/
example : demoShellWorld.locks = [] ∧
    Monitor.check (ofXfers (exchanged (service (ascii "shell") [108, 115] none (some 10240) none false demoShellWorld).2.trace)) = [] := by
  refine ⟨rfl, by decide +kernel⟩

open SR in
/-- a history of two calls on one connection — `stat` (stream 1) and then `shell` (stream 2): the
    hypotheses of `C04_monitor_history` hold, both calls return normally, the conversation is accepted -/
example :
    let w0 := sxWorld (okFor 7 1 ++ okFor 7 1 ++ wrteFor 7 1 sxStatRec ++ clseFor 7 1 ++ okFor 9 2 ++ wrteFor 9 2 [104, 105] ++ clseFor 9 2)
    let ops := [ApiOp.stat sxPath (some 10) (some 10), ApiOp.shell [108, 115] (some 10) (some 10) none false]
    w0.locks = [] ∧ w0.trace = [] ∧ w0.localId + historyBound ops w0.dirs < 4294967296 ∧
    ((runHistory ops w0).1.map Except.toOption) = [some (.stat 33188 1234 1700000000), some (.bytes [104, 105])] ∧
    (∀ p ∈ delivered (runHistory ops w0).2.trace, p.arg1 ≠ 0) ∧
    Monitor.check (ofXfers (exchanged (runHistory ops w0).2.trace)) = [] := by
  refine ⟨rfl, rfl, by decide, by decide +kernel, by decide +kernel, by decide +kernel⟩

/-- The hypothesis on the device is needed: a device that answers with the legacy zero local id gets its
    WRTE delivered and acknowledged by the library (`allow_zeros`), and the monitor — which looks device
    packets up by arg1 — reports that acknowledgement as spurious. -/
example :
    (service (ascii "shell") [108, 115] none (some 10240) none false
        (demoWorld [⟨.OKAY, 77, 1, []⟩, ⟨.WRTE, 77, 0, [104]⟩, ⟨.CLSE, 77, 1, []⟩])).1.toOption = some (.bytes [104]) ∧
    Monitor.check (ofXfers (exchanged (service (ascii "shell") [108, 115] none (some 10240) none false
        (demoWorld [⟨.OKAY, 77, 1, []⟩, ⟨.WRTE, 77, 0, [104]⟩, ⟨.CLSE, 77, 1, []⟩])).2.trace)) = [.spuriousOkay] := by
  refine ⟨by decide +kernel, by decide +kernel⟩

end Adb
