import AdbProofs.Lemmas.FrameOps2
/-
  C13 — nothing is sent unless connected; availability tracks the connection truthfully.
  The guard prefix of each public operation is GENERATED from the source AST (Generated.guardsSync /
  guardsAsync); `C13_guards_complete` fails to build when a guard is removed or reordered in either twin.
-/
namespace Adb

/-- The guard table extracted from the current source: every public operation checks availability,
    every operation taking a device path checks the path FIRST, and both twins agree. -/
theorem C13_guards_complete :
    Generated.guardsSync = Generated.guardsAsync
      ∧ Generated.guardsSync.map (·.1) = Generated.publicOps
      ∧ (∀ e ∈ Generated.guardsSync, e.2.2 = (if e.2.1 then ["path", "avail"] else ["avail"]))
      ∧ (Generated.guardsSync.filter (·.2.1)).map (·.1) = ["list", "pull", "push", "stat"] := by
  decide

theorem guards_path (op : String) (h : op = "list" ∨ op = "stat" ∨ op = "pull" ∨ op = "push") :
    guardsFor op = ["path", "avail"] := by
  rcases h with h | h | h | h <;> subst h <;> decide

theorem guards_nopath (op : String)
    (h : op = "shell" ∨ op = "exec_out" ∨ op = "root" ∨ op = "reboot" ∨ op = "streaming_shell") :
    guardsFor op = ["avail"] := by
  rcases h with h | h | h | h | h <;> subst h <;> decide

theorem runGuards_avail_false (w : World) (h : w.available = false) :
    runGuards ["avail"] none w = (.error .adbConnection, w) := by
  simp [runGuards, runGuard, bind_run, h]

theorem runGuards_path_avail_false (w : World) (p : Bytes) (hp : p ≠ []) (h : w.available = false) :
    runGuards ["path", "avail"] (some p) w = (.error .adbConnection, w) := by
  simp [runGuards, runGuard, bind_run, h, hp]

theorem runGuards_path_empty (w : World) :
    runGuards ["path", "avail"] (some []) w = (.error .devicePathInvalid, w) := by
  simp [runGuards, runGuard, bind_run]

/-- On a device that is not connected every stream operation raises AdbConnectionError and the
    world is UNCHANGED: no byte reaches the transport, no transport call is made (the connection
    state, clock and scripts are those of `w`), no local file is created (`sink`), no event is
    recorded, no id is consumed. -/
theorem C13_guard_no_io (op : ApiOp) (w : World) (hs : op.isStreamOp = true) (ha : w.available = false)
    (hp : op.devicePath ≠ some []) : op.run w = (.error .adbConnection, w) := by
  cases op with
  | connect => simp [ApiOp.isStreamOp] at hs
  | close => simp [ApiOp.isStreamOp] at hs
  | shell cmd tt rt total dec =>
    simp only [ApiOp.run, devShellLike, guards_nopath "shell" (by simp)]
    rw [bind_run_err (runGuards_avail_false w ha)]
  | execOut cmd tt rt total dec =>
    simp only [ApiOp.run, devShellLike, guards_nopath "exec_out" (by simp)]
    rw [bind_run_err (runGuards_avail_false w ha)]
  | root tt rt total =>
    simp only [ApiOp.run, devRoot, guards_nopath "root" (by simp)]
    rw [bind_run_err (runGuards_avail_false w ha)]
  | reboot fb tt rt total =>
    simp only [ApiOp.run, devReboot, guards_nopath "reboot" (by simp)]
    rw [bind_run_err (runGuards_avail_false w ha)]
  | streamingShell cmd tt rt dec =>
    simp only [ApiOp.run, devStreamingShell, guards_nopath "streaming_shell" (by simp)]
    rw [bind_run_err (runGuards_avail_false w ha)]
  | list p tt rt =>
    have : p ≠ [] := by intro h; simp [ApiOp.devicePath, h] at hp
    simp only [ApiOp.run, devList, guards_path "list" (by simp)]
    rw [bind_run_err (runGuards_path_avail_false w p this ha)]
  | stat p tt rt =>
    have : p ≠ [] := by intro h; simp [ApiOp.devicePath, h] at hp
    simp only [ApiOp.run, devStat, guards_path "stat" (by simp)]
    rw [bind_run_err (runGuards_path_avail_false w p this ha)]
  | pull p cb tt rt =>
    have : p ≠ [] := by intro h; simp [ApiOp.devicePath, h] at hp
    simp only [ApiOp.run, devPull, guards_path "pull" (by simp)]
    rw [bind_run_err (runGuards_path_avail_false w p this ha)]
  | push src p mode mtime cb tt rt =>
    have : p ≠ [] := by intro h; simp [ApiOp.devicePath, h] at hp
    simp only [ApiOp.run, devPush, guards_path "push" (by simp)]
    rw [bind_run_err (runGuards_path_avail_false w p this ha)]

/-- An empty device path raises DevicePathInvalidError with the world unchanged — connected or not. -/
theorem C13_empty_path (op : ApiOp) (w : World) (hp : op.devicePath = some []) :
    op.run w = (.error .devicePathInvalid, w) := by
  cases op with
  | list p tt rt =>
    have : p = [] := by simpa [ApiOp.devicePath] using hp
    subst this
    simp only [ApiOp.run, devList, guards_path "list" (by simp)]
    rw [bind_run_err (runGuards_path_empty w)]
  | stat p tt rt =>
    have : p = [] := by simpa [ApiOp.devicePath] using hp
    subst this
    simp only [ApiOp.run, devStat, guards_path "stat" (by simp)]
    rw [bind_run_err (runGuards_path_empty w)]
  | pull p cb tt rt =>
    have : p = [] := by simpa [ApiOp.devicePath] using hp
    subst this
    simp only [ApiOp.run, devPull, guards_path "pull" (by simp)]
    rw [bind_run_err (runGuards_path_empty w)]
  | push src p mode mtime cb tt rt =>
    have : p = [] := by simpa [ApiOp.devicePath] using hp
    subst this
    simp only [ApiOp.run, devPush, guards_path "push" (by simp)]
    rw [bind_run_err (runGuards_path_empty w)]
  | _ => simp [ApiOp.devicePath] at hp

/-- Stream operations never change `available` (nor maxdata, banner, …): only connect/close do. -/
theorem C13_stream_ops_keep_available (op : ApiOp) (w : World) (hs : op.isStreamOp = true) :
    (op.run w).2.available = w.available := by
  cases op with
  | connect => simp [ApiOp.isStreamOp] at hs
  | close => simp [ApiOp.isStreamOp] at hs
  | shell cmd tt rt total dec => exact (Fr_devShellLike _ _ cmd tt rt total dec w).available
  | execOut cmd tt rt total dec => exact (Fr_devShellLike _ _ cmd tt rt total dec w).available
  | root tt rt total => exact (Fr_devRoot tt rt total w).available
  | reboot fb tt rt total => exact (Fr_devReboot fb tt rt total w).available
  | streamingShell cmd tt rt dec => exact (Fr_devStreamingShell cmd tt rt dec w).available
  | list p tt rt => exact (Fr_devList p tt rt w).available
  | stat p tt rt => exact (Fr_devStat p tt rt w).available
  | pull p cb tt rt => exact (Fr_devPull p cb tt rt w).available
  | push src p mode mtime cb tt rt => exact (Fr_devPush src p mode mtime cb tt rt w).available

/-- `close()` clears availability whatever happens. -/
theorem C13_close_unavailable (w : World) : (devClose w).2.available = false := by
  unfold devClose
  simp only [bind_run, M.modify_run]
  have h := Fr_ioClose { w with available := false }
  split
  · next u w' hc => rw [hc] at h; simpa using h.available
  · next e w' hc => rw [hc] at h; simpa using h.available

/-- `connect()` (called with a usable read timeout, i.e. the transaction info can be built): the
    device is available afterwards iff `connect()` returned normally; when it raises, the device
    is unavailable. -/
theorem C13_connect_available (keys : List Nat) (tt authT rt : Timeout) (cb : Bool) (w : World) (t : Txn)
    (hm : Txn.make none none (if tt.isSome = true then tt else w.defaultTT) rt none = .ok t) :
    (∀ v w', devConnect keys tt authT rt cb w = (.ok v, w') → w'.available = true ∧ v = .bool true) ∧
    (∀ e w', devConnect keys tt authT rt cb w = (.error e, w') → w'.available = false) := by
  unfold devConnect
  simp only [getTT, bind_run, liftExcept_run, hm, M.modify_run, M.get_run]
  have h := Fr_ioConnect w.banner keys authT cb t { w with available := false }
  constructor
  · intro v w' hr
    split at hr
    · next md w1 hc => simp at hr; obtain ⟨h1, h2⟩ := hr; subst h2; simp [h1]
    · simp at hr
  · intro e w' hr
    split at hr
    · simp at hr
    · next e1 w1 hc =>
      rw [hc] at h
      simp at hr
      rw [← hr.2]
      simpa using h.available

/-- `available` over any history equals the specification "true exactly from a successful connect()
    until the next close() or connect() attempt" (connects called with a usable read timeout). -/
theorem C13_available_history (ops : List ApiOp) (w : World)
    (hrt : ∀ op ∈ ops, ∀ keys tt authT rt cb, op = .connect keys tt authT rt cb → rt ≠ none) :
    (runHistory ops w).2.available = specAvailable w.available (ops.zip (runHistory ops w).1) := by
  induction ops generalizing w with
  | nil => rfl
  | cons op ops ih =>
    have ih' := ih (op.run w).2 (fun o ho => hrt o (by simp [ho]))
    simp only [runHistory, List.zip_cons_cons, specAvailable]
    rw [ih']
    cases hop : op with
    | connect keys tt authT rt cb =>
      simp only
      have hne := hrt op (by simp) keys tt authT rt cb hop
      obtain ⟨r, hr⟩ : ∃ r, rt = some r := by cases rt <;> simp_all
      subst hr
      -- the transaction info can be built: read timeout is a number
      have hmk : ∃ t, Txn.make none none (if tt.isSome = true then tt else w.defaultTT) (some r) none = .ok t := by
        unfold Txn.make pyMin
        cases (if tt.isSome = true then tt else w.defaultTT) <;> simp [bind, Except.bind, pure, Except.pure]
      obtain ⟨t, ht⟩ := hmk
      have hc := C13_connect_available keys tt authT (some r) cb w t ht
      simp only [ApiOp.run]
      cases hres : devConnect keys tt authT (some r) cb w with
      | mk res w' =>
        cases res with
        | ok v => simp [(hc.1 v w' hres).1]
        | error e => simp [hc.2 e w' hres]
    | close =>
      simp only [ApiOp.run]
      rw [C13_close_unavailable]
    | shell cmd tt rt total dec => rw [← hop, C13_stream_ops_keep_available op w (by simp [hop, ApiOp.isStreamOp])]; simp [hop]
    | execOut cmd tt rt total dec => rw [← hop, C13_stream_ops_keep_available op w (by simp [hop, ApiOp.isStreamOp])]; simp [hop]
    | root tt rt total => rw [← hop, C13_stream_ops_keep_available op w (by simp [hop, ApiOp.isStreamOp])]; simp [hop]
    | reboot fb tt rt total => rw [← hop, C13_stream_ops_keep_available op w (by simp [hop, ApiOp.isStreamOp])]; simp [hop]
    | streamingShell cmd tt rt dec => rw [← hop, C13_stream_ops_keep_available op w (by simp [hop, ApiOp.isStreamOp])]; simp [hop]
    | list p tt rt => rw [← hop, C13_stream_ops_keep_available op w (by simp [hop, ApiOp.isStreamOp])]; simp [hop]
    | stat p tt rt => rw [← hop, C13_stream_ops_keep_available op w (by simp [hop, ApiOp.isStreamOp])]; simp [hop]
    | pull p cb tt rt => rw [← hop, C13_stream_ops_keep_available op w (by simp [hop, ApiOp.isStreamOp])]; simp [hop]
    | push src p mode mtime cb tt rt => rw [← hop, C13_stream_ops_keep_available op w (by simp [hop, ApiOp.isStreamOp])]; simp [hop]

/-- Non-vacuity: an unconnected world with a scripted connection ready; `shell` changes nothing. -/
example : ∃ w : World, w.available = false ∧ w.conns ≠ [] ∧
    (ApiOp.shell [108, 115] none (some 10240) none true).run w = (.error .adbConnection, w) :=
  ⟨{ conns := [{}] }, rfl, by simp, C13_guard_no_io _ _ rfl rfl (by simp [ApiOp.devicePath])⟩

end Adb
