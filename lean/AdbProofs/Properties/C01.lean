import AdbProofs.Lemmas.Deliver
/-
  C01 — shell / exec_out / streaming_shell return exactly what the device wrote on the stream.
  Stream-level theorems: the result is a function of the packets DELIVERED on this stream (trace
  events `deliver`), for every world — any chunking of the output into WRTE packets, any read
  fragmentation, foreign traffic interleaved, faults, timing.  (The UTF-8 decoder itself is
  characterised in `C01Utf8.lean`.)
-/
namespace Adb

/-- decode=False: whenever `_service` (shell / exec_out) returns normally on an idle device, the
    packets delivered during the call are: the device's OKAY, then WRTE packets, then one CLSE —
    and the result is EXACTLY the concatenation of the payloads of those WRTE packets, in order. -/
theorem C01_bytes_exact (svc cmd : Bytes) (tt rt total : Timeout) (w w' : World) (v : Val)
    (hl : w.locks = []) (h : service svc cmd tt rt total false w = (.ok v, w')) :
    ∃ (evs : List TEv) (okay : Pkt) (wrtes : List Pkt) (c : Pkt), w'.trace = evs ++ w.trace ∧
      delivered evs = okay :: wrtes ++ [c] ∧ okay.cmd = .OKAY ∧ c.cmd = .CLSE ∧ (∀ p ∈ wrtes, p.cmd = .WRTE) ∧
      v = .bytes (wrtes.map (·.data)).flatten := by
  obtain ⟨r0, hs, hr⟩ := service_inv h
  obtain ⟨items, rfl, hv⟩ := Except.map_eq_ok hr.symm
  obtain ⟨evs, okay, wrtes, c, htr, hd, _, _, _, hitems, hoc, _, hcc, hw, _⟩ := streamingCommand_ok hs hl
  refine ⟨evs, okay, wrtes, c, htr, hd, hoc, hcc, hw, ?_⟩
  rw [hv, hitems]; simp

/-- decode=True: the result is the backslash-escaping UTF-8 decoding of the WHOLE concatenation of
    the delivered WRTE payloads — decoded once, after joining (a character split across two packets
    is decoded correctly). -/
theorem C01_decoded (svc cmd : Bytes) (tt rt total : Timeout) (w w' : World) (v : Val)
    (hl : w.locks = []) (h : service svc cmd tt rt total true w = (.ok v, w')) :
    ∃ (evs : List TEv) (okay : Pkt) (wrtes : List Pkt) (c : Pkt), w'.trace = evs ++ w.trace ∧
      delivered evs = okay :: wrtes ++ [c] ∧ okay.cmd = .OKAY ∧ c.cmd = .CLSE ∧ (∀ p ∈ wrtes, p.cmd = .WRTE) ∧
      v = .str (Utf8.decodeBS (wrtes.map (·.data)).flatten) := by
  obtain ⟨r0, hs, hr⟩ := service_inv h
  obtain ⟨items, rfl, hv⟩ := Except.map_eq_ok hr.symm
  obtain ⟨evs, okay, wrtes, c, htr, hd, _, _, _, hitems, hoc, _, hcc, hw, _⟩ := streamingCommand_ok hs hl
  refine ⟨evs, okay, wrtes, c, htr, hd, hoc, hcc, hw, ?_⟩
  rw [hv, hitems]; simp

/-- streaming_shell (fully consumed): one item per delivered WRTE payload, in order, each decoded on
    its own when decode=True; the `yielded` events recorded during the call are exactly those
    payloads in the same order. -/
theorem C01_streaming_items (svc cmd : Bytes) (tt rt : Timeout) (decode : Bool) (w w' : World) (v : Val)
    (hl : w.locks = []) (h : streamingService svc cmd tt rt decode w = (.ok v, w')) :
    ∃ (evs : List TEv) (okay : Pkt) (wrtes : List Pkt) (c : Pkt), w'.trace = evs ++ w.trace ∧
      delivered evs = okay :: wrtes ++ [c] ∧ okay.cmd = .OKAY ∧ c.cmd = .CLSE ∧ (∀ p ∈ wrtes, p.cmd = .WRTE) ∧
      yieldedBy evs = wrtes.map (·.data) ∧
      v = .items (wrtes.map fun p => if decode then .str (Utf8.decodeBS p.data) else .bytes p.data) := by
  obtain ⟨r0, hs, hr⟩ := streamingService_inv h
  obtain ⟨items, rfl, hv⟩ := Except.map_eq_ok hr.symm
  obtain ⟨evs, okay, wrtes, c, htr, hd, _, _, hy, hitems, hoc, _, hcc, hw, _⟩ := streamingCommand_ok hs hl
  refine ⟨evs, okay, wrtes, c, htr, hd, hoc, hcc, hw, by rw [hy, hitems], ?_⟩
  rw [hv, hitems]; simp [List.map_map, Function.comp_def]

/-- Isolation, for EVERY outcome of shell / exec_out (normal return or any exception at any point):
    with `l` the local id the allocator hands out, everything delivered to the operation is the
    device's OKAY for `l` (its arg0 = `r` becomes the remote id) followed by packets whose ids are
    `(r or 0, l or 0)` — exactly what `args_match(..., allow_zeros=True)` admits, whether the packet
    came off the transport or out of the packet store — all WRTE except possibly the last; and the
    items yielded are the payloads of those WRTEs, in order. Nothing from another stream, and
    nothing the device did not send on this one, is ever delivered or yielded. -/
theorem C01_isolation (svc cmd : Bytes) (tt rt total : Timeout) (decode : Bool) (w w' : World) (res : Except Err Val)
    (hl : w.locks = []) (h : service svc cmd tt rt total decode w = (res, w')) :
    ∃ evs : List TEv, w'.trace = evs ++ w.trace ∧
      ((delivered evs = [] ∧ yieldedBy evs = [] ∧ ∃ e, res = .error e) ∨
       ∃ (okay : Pkt) (wrtes rest : List Pkt), delivered evs = okay :: wrtes ++ rest ∧
          okay.cmd = .OKAY ∧ okay.arg1 = nextId w.localId ∧
          (∀ p ∈ wrtes ++ rest, (p.arg1 = nextId w.localId ∨ p.arg1 = 0) ∧ (p.arg0 = okay.arg0 ∨ p.arg0 = 0)) ∧
          (∀ p ∈ wrtes, p.cmd = .WRTE) ∧ rest.length ≤ 1 ∧ yieldedBy evs = wrtes.map (·.data)) := by
  obtain ⟨r0, hs, hr⟩ := service_inv h
  obtain ⟨evs, htr, hcase⟩ := streamingCommand_any hs hl
  refine ⟨evs, htr, ?_⟩
  rcases hcase with ⟨he, hd, hy, _⟩ | ⟨okay, wrtes, rest, hd, hoc, ho1, hw, hlen, _, _, hy, hids, _⟩
  · exact Or.inl ⟨hd, hy, by rw [hr]; exact Except.map_isError.1 he⟩
  · exact Or.inr ⟨okay, wrtes, rest, hd, hoc, ho1, hids, hw, hlen, hy⟩

/-- The same isolation statement for streaming_shell. -/
theorem C01_isolation_streaming (svc cmd : Bytes) (tt rt : Timeout) (decode : Bool) (w w' : World) (res : Except Err Val)
    (hl : w.locks = []) (h : streamingService svc cmd tt rt decode w = (res, w')) :
    ∃ evs : List TEv, w'.trace = evs ++ w.trace ∧
      ((delivered evs = [] ∧ yieldedBy evs = [] ∧ ∃ e, res = .error e) ∨
       ∃ (okay : Pkt) (wrtes rest : List Pkt), delivered evs = okay :: wrtes ++ rest ∧
          okay.cmd = .OKAY ∧ okay.arg1 = nextId w.localId ∧
          (∀ p ∈ wrtes ++ rest, (p.arg1 = nextId w.localId ∨ p.arg1 = 0) ∧ (p.arg0 = okay.arg0 ∨ p.arg0 = 0)) ∧
          (∀ p ∈ wrtes, p.cmd = .WRTE) ∧ rest.length ≤ 1 ∧ yieldedBy evs = wrtes.map (·.data)) := by
  obtain ⟨r0, hs, hr⟩ := streamingService_inv h
  obtain ⟨evs, htr, hcase⟩ := streamingCommand_any hs hl
  refine ⟨evs, htr, ?_⟩
  rcases hcase with ⟨he, hd, hy, _⟩ | ⟨okay, wrtes, rest, hd, hoc, ho1, hw, hlen, _, _, hy, hids, _⟩
  · exact Or.inl ⟨hd, hy, by rw [hr]; exact Except.map_isError.1 he⟩
  · exact Or.inr ⟨okay, wrtes, rest, hd, hoc, ho1, hids, hw, hlen, hy⟩

/-! Non-vacuity: `demoShellWorld` is a connected idle device whose peer answers the OPEN with
    OKAY(77,1), then sends a WRTE of a foreign stream (5,9,"x"), then "€!" split over two WRTEs in
    the middle of the three-byte character, then CLSE(77,1).  Evaluated by the kernel. -/

/-- shell(decode=False) returns the four bytes, without the foreign "x" -/
example : (devShellLike "shell" (ascii "shell") [108, 115] none (some 10240) none false demoShellWorld).1
    = .ok (.bytes [0xE2, 0x82, 0xAC, 0x21]) := ok_of_toOption (by decide +kernel)

/-- shell(decode=True) decodes after joining: "€!" -/
example : (devShellLike "shell" (ascii "shell") [108, 115] none (some 10240) none true demoShellWorld).1
    = .ok (.str [0x20AC, 0x21]) := ok_of_toOption (by decide +kernel)

/-- streaming_shell(decode=True) decodes each payload on its own: the split character is escaped -/
example : (devStreamingShell [108, 115] none (some 10240) true demoShellWorld).1
    = .ok (.items [.str [92, 120, 101, 50, 92, 120, 56, 50], .str [92, 120, 97, 99, 0x21]]) :=
  ok_of_toOption (by decide +kernel)

/-- the hypotheses of the theorems above are satisfiable: the world is idle and `_service` returns -/
example : demoShellWorld.locks = [] ∧
    ∃ v w', service (ascii "shell") [108, 115] none (some 10240) none false demoShellWorld = (.ok v, w') :=
  ⟨rfl, .bytes [0xE2, 0x82, 0xAC, 0x21], _,
    run_ok_of_toOption (x := service (ascii "shell") [108, 115] none (some 10240) none false) (w := demoShellWorld)
      (by decide +kernel)⟩

/-- what was delivered in that run: OKAY, the two WRTEs of this stream, CLSE — the foreign WRTE was
    parked in the packet store under its own pair (5, 9) instead -/
example :
    delivered (service (ascii "shell") [108, 115] none (some 10240) none false demoShellWorld).2.trace
        = [⟨.OKAY, 77, 1, []⟩, ⟨.WRTE, 77, 1, [0xE2, 0x82]⟩, ⟨.WRTE, 77, 1, [0xAC, 0x21]⟩, ⟨.CLSE, 77, 1, []⟩]
      ∧ Store.pendingKeys (service (ascii "shell") [108, 115] none (some 10240) none false demoShellWorld).2.store
        = [(5, 9)] := by decide +kernel

end Adb
