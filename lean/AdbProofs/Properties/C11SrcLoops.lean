import AdbProofs.Properties.C03Src
import AdbProofs.Properties.C15Src
/-
  C11 (tie to the source, by proof) — the deadline checks that the per-wait time bounds of C11.lean rest on are in the SOURCE's loop bodies
  (corollaries of the loop-iteration refinements C03Src / C15Src, i.e. of the translation of the current source):
  an iteration of `_read_bytes_from_device` that leaves bytes missing, and an iteration of `_write_all` that leaves bytes unaccepted, raises
  `AdbTimeoutError` as soon as more than `read_timeout_s` has passed since the loop started — in both twins. (So a trickling device cannot keep either loop
  alive beyond `read_timeout_s` plus one transport call.)
  Only property theorems live here.
-/
namespace Adb
open Py

/-- read loop, both twins: bytes still missing after this fragment and the deadline passed ⇒ `AdbTimeoutError`, whatever arrived. -/
theorem C11_src_read_deadline (cls : String) (fs : List (String × Py.Val)) (t : Txn) (tmp0 : Py.Val) (rem : Nat) (acc temp : Bytes) (start now l : Int)
    (hmiss : temp.length < rem) (hrt : alookupS "read_timeout_s" fs = some (encTimeout t.rt)) (hl : t.rt = some l) (hlate : now - start > l) :
    Src.AdbDevice_read_bytes_from_device_iter (.obj cls fs) (.bytearray acc) (.int rem) (.int start) tmp0 (.bytes temp) (.int now) = .error .adbTimeout
      ∧ Src.AdbDeviceAsync_read_bytes_from_device_iter (.obj cls fs) (.bytearray acc) (.int rem) (.int start) tmp0 (.bytes temp) (.int now) = .error .adbTimeout := by
  have hs : readStep t start now rem acc temp = .fail .adbTimeout := by
    have : ¬ (rem - temp.length = 0) := by omega
    simp [readStep, this, hl, hlate]
  constructor
  · rw [C03_src_read_iter_sync cls fs t tmp0 rem acc temp start now (by omega) hrt, hs]
  · rw [C03_src_read_iter_async cls fs t tmp0 rem acc temp start now (by omega) hrt, hs]

/-- read loop, both twins: before the deadline an incomplete read goes round again with exactly the bytes received so far (nothing is fabricated or dropped). -/
theorem C11_src_read_in_time (cls : String) (fs : List (String × Py.Val)) (t : Txn) (tmp0 : Py.Val) (rem : Nat) (acc temp : Bytes) (start now l : Int)
    (hmiss : temp.length < rem) (hrt : alookupS "read_timeout_s" fs = some (encTimeout t.rt)) (hl : t.rt = some l) (hin : ¬ now - start > l) :
    Src.AdbDevice_read_bytes_from_device_iter (.obj cls fs) (.bytearray acc) (.int rem) (.int start) tmp0 (.bytes temp) (.int now)
      = .ok (.tuple [.str "continue", .bytearray (acc ++ temp), .int ((rem - temp.length : Nat)), .bytes temp]) := by
  have hs : readStep t start now rem acc temp = .again (rem - temp.length, acc ++ temp) := by
    have : ¬ (rem - temp.length = 0) := by omega
    simp [readStep, this, hl, hin]
  rw [C03_src_read_iter_sync cls fs t tmp0 rem acc temp start now (by omega) hrt, hs]

/-- write loop, both twins: bytes still unaccepted after this call and the deadline passed ⇒ `AdbTimeoutError`. -/
theorem C11_src_write_deadline (cls : String) (fs : List (String × Py.Val)) (t : Txn) (nw0 : Py.Val) (data : Bytes) (k : Nat) (start now l : Int)
    (hshort : k < data.length) (hrt : alookupS "read_timeout_s" fs = some (encTimeout t.rt)) (hl : t.rt = some l) (hlate : now - start > l) :
    Src.AdbDevice_write_all_iter (.obj cls fs) (.bytes data) nw0 (.int start) (encCount (some k)) (.int now) = .error .adbTimeout
      ∧ Src.AdbDeviceAsync_write_all_iter (.obj cls fs) (.bytes data) nw0 (.int start) (encCount (some k)) (.int now) = .error .adbTimeout := by
  have hs : writeStep t start now data (some k) = .fail .adbTimeout := by
    have : ¬ (k ≥ data.length) := by omega
    simp [writeStep, this, hl, hlate]
  constructor
  · rw [C15_src_write_iter_sync cls fs t nw0 data (some k) start now hrt, hs]
  · rw [C15_src_write_iter_async cls fs t nw0 data (some k) start now hrt, hs]

end Adb
