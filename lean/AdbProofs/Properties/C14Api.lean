import AdbProofs.Lemmas.IdFrameOps2
/-
  C14, API level — the id counter stays in [0, 2^32) over every operation and every history, so every
  allocation (`nextId` of the counter, `C14_open_uses_allocated`) is in [1, 2^32 - 1] for the whole life
  of the object, whatever the outcomes of the operations in between (failed opens included: the
  counter is never decremented or reset).
-/
namespace Adb

theorem Bd_devConnect (keys : List Nat) (tt authT rt : Timeout) (cb : Bool) : Bd (devConnect keys tt authT rt cb) := by
  unfold devConnect
  bd

theorem Bd_devClose : Bd devClose := by
  unfold devClose
  bd

/-- Every public operation, in every world and whatever its outcome, keeps the stream-id counter below 2^32. -/
theorem C14_counter_stays_32bit (op : ApiOp) (w : World) (h : w.localId < 4294967296) :
    (op.run w).2.localId < 4294967296 := by
  cases op with
  | connect keys tt authT rt cb => exact Bd_devConnect keys tt authT rt cb w h
  | close => exact Bd_devClose w h
  | shell cmd tt rt total dec => exact Bd_devShellLike _ _ cmd tt rt total dec w h
  | execOut cmd tt rt total dec => exact Bd_devShellLike _ _ cmd tt rt total dec w h
  | root tt rt total => exact Bd_devRoot tt rt total w h
  | reboot fb tt rt total => exact Bd_devReboot fb tt rt total w h
  | streamingShell cmd tt rt dec => exact Bd_devStreamingShell cmd tt rt dec w h
  | list p tt rt => exact Bd_devList p tt rt w h
  | stat p tt rt => exact Bd_devStat p tt rt w h
  | pull p cb tt rt => exact Bd_devPull p cb tt rt w h
  | push src p mode mtime cb tt rt => exact Bd_devPush src p mode mtime cb tt rt w h

/-- …and over any history of calls. A fresh object starts at 0. -/
theorem C14_counter_history (ops : List ApiOp) (w : World) (h : w.localId < 4294967296) :
    (runHistory ops w).2.localId < 4294967296 := by
  induction ops generalizing w with
  | nil => exact h
  | cons op ops ih =>
    simp only [runHistory]
    exact ih _ (C14_counter_stays_32bit op w h)

/-- Hence the id of the NEXT stream opened after any history on a fresh object is in [1, 2^32 - 1]. -/
theorem C14_next_id_after_history (ops : List ApiOp) (w : World) (h : w.localId = 0) :
    1 ≤ nextId (runHistory ops w).2.localId ∧ nextId (runHistory ops w).2.localId < 4294967296 :=
  C14_range _ (C14_counter_history ops w (by omega))

example : ({ localId := 4294967295 } : World).localId < 4294967296 := by decide

end Adb
