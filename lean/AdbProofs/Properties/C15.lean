import AdbProofs.Lemmas.WireLemmas
/-
  C15 — whatever number of bytes the transport accepts per write call (it reports the count), the peer
  receives every byte of every message the library sends, in order and without gaps, or the call
  raises; a message is never silently truncated.
  Only property theorems and non-vacuity examples live here; helper lemmas are in
  AdbProofs/Lemmas/WireLemmas.lean.
-/
namespace Adb

/-- One `bulk_write(data)` call, any acceptance script, fault script and timing: it touches nothing but the
    connection, the clock and the peer's received bytes; a reported count `k` means exactly the first
    `k ≤ len(data)` bytes were appended to what the peer has, `None` means all of `data` was appended,
    an exception means nothing was appended.  The device→host stream and the trace are untouched. -/
theorem C15_bulkWrite_spec (data : Bytes) (tt : Timeout) (w : World) (r : Except Err (Option Nat)) (w' : World)
    (h : bulkWrite data tt w = (r, w')) :
    SameDevice w w' ∧ w'.inboundRest = w.inboundRest ∧ w'.trace = w.trace ∧
    (∀ k, r = .ok (some k) → k ≤ data.length ∧ w'.peerGot = w.peerGot ++ data.take k) ∧
    (r = .ok none → w'.peerGot = w.peerGot ++ data) ∧
    (∀ e, r = .error e → w'.peerGot = w.peerGot) :=
  bulkWrite_spec data tt w r w' h

/-- Progress of one call: when the running state is sane (`OfragOk`: no write fragment "in progress" with
    0 bytes left — `bulkWrite` itself never produces such a state and a freshly scripted connection has
    `ofragLeft = none`), every successful counted write of non-empty data accepts at least one byte, and the
    state stays sane.  (Without `OfragOk` the claim is false: see the `example` below.) -/
theorem C15_bulkWrite_progress (data : Bytes) (tt : Timeout) (w : World) (r : Except Err (Option Nat)) (w' : World)
    (h : bulkWrite data tt w = (r, w')) (hok : w.OfragOk) :
    w'.OfragOk ∧ (∀ k, r = .ok (some k) → data ≠ [] → 1 ≤ k) :=
  bulkWrite_progress data tt w r w' h hok

/-- why `OfragOk` is needed: a hand-made running state with an exhausted fragment accepts 0 bytes -/
example : (bulkWrite [1, 2] none { cur := some { ofragLeft := some 0 } }).1 = .ok (some 0) := by rfl

/-- `_write_all(data)` returning normally means the peer received exactly `data` after what it already had —
    whatever the acceptance script (any counts, `None`), timing and fuel. -/
theorem C15_writeAll_complete (data : Bytes) (t : Txn) (w w' : World)
    (h : writeAll data t w = (.ok (), w')) : w'.peerGot = w.peerGot ++ data :=
  (writeAll_spec data t w _ w' h).2.2.2.2 rfl

/-- For any outcome of `_write_all(data)` (normal, transport error, timeout, hang) the peer has received a
    clean prefix of `data`: in order, no gaps, no duplication, nothing beyond `data`; nothing else in the
    world changed (device object, device→host stream, trace). -/
theorem C15_writeAll_prefix (data : Bytes) (t : Txn) (w : World) (r : Except Err Unit) (w' : World)
    (h : writeAll data t w = (r, w')) :
    (∃ k, k ≤ data.length ∧ w'.peerGot = w.peerGot ++ data.take k) ∧
    SameDevice w w' ∧ w'.inboundRest = w.inboundRest ∧ w'.trace = w.trace := by
  obtain ⟨sd, hin, htr, hk, -⟩ := writeAll_spec data t w r w' h
  exact ⟨hk, sd, hin, htr⟩

/-- `_send(msg)`: a normal return means the message was packable and the peer received the whole encoding
    (24-byte header then payload) right after what it had; for any outcome the peer received a prefix of the
    encoding (never bytes out of order, never a gap); exactly one trace event, `tx msg`, is recorded; nothing
    else changes. -/
theorem C15_send_complete (m : Msg) (t : Txn) (w : World) (r : Except Err Unit) (w' : World)
    (h : sendRaw m t w = (r, w')) :
    (r = .ok () → m.Packable ∧ w'.peerGot = w.peerGot ++ m.encode) ∧
    (∃ k, k ≤ m.encode.length ∧ w'.peerGot = w.peerGot ++ m.encode.take k) ∧
    w'.trace = .tx m :: w.trace ∧ SameDevice w w' ∧ w'.inboundRest = w.inboundRest := by
  obtain ⟨sd, hin, htr, hk, hok⟩ := sendRaw_spec m t w r w' h
  exact ⟨hok, hk, htr, sd, hin⟩

/-- an unpackable message (a field ≥ 2^32) is refused before any byte reaches the transport -/
theorem C15_send_unpackable (m : Msg) (t : Txn) (w : World) (hp : ¬ m.Packable) :
    sendRaw m t w = (.error .pyStructError, { w with trace := .tx m :: w.trace }) := by
  simp [sendRaw, bind_run, Msg.pack?, hp]

/-- Progress: on an open connection that is not reset, has no scripted faults left and a sane write-fragment
    state (`WriteHealthy`), `_write_all(data)` never hangs as long as the loop budget exceeds `len(data)` —
    every `bulk_write` accepts at least one byte, so the loop ends (normally, or with the read-timeout /
    `None`-comparison exception), for every acceptance script, every `dt` and every timeout setting. -/
theorem C15_writeAll_progress (data : Bytes) (t : Txn) (w : World) (r : Except Err Unit) (w' : World)
    (h : writeAll data t w = (r, w')) (hh : w.WriteHealthy) (hf : data.length < w.fuel) :
    r ≠ .error .hang := by
  simp only [writeAll, bind_run, now_run, M.get_run] at h
  exact writeAllLoop_no_hang _ _ _ _ _ _ _ h hh hf

/-- Non-vacuity of `WriteHealthy`: a freshly scripted connection with acceptance counts and default budget. -/
example : ({ cur := some { ofrags := [1, 0, 30], dt := 3 } } : World).WriteHealthy
    ∧ (26 : Nat) < ({ cur := some { ofrags := [1, 0, 30], dt := 3 } } : World).fuel :=
  ⟨⟨_, rfl, rfl, rfl, by decide⟩, by decide⟩

/-- Non-vacuity: a transport that accepts 1, then 5, then up to 30 bytes per call; the 24-byte header and the
    2-byte payload arrive complete and the call returns normally. -/
example :
    let w : World := { cur := some { ofrags := [1, 5, 30] } }
    let m : Msg := ⟨.WRTE, 7, 9, [0xff, 0x01]⟩
    let t : Txn := ⟨some 9, some 7, some 10, some 10, none⟩
    (sendRaw m t w).1 = .ok () ∧ (sendRaw m t w).2.peerGot = m.encode := by
  exact ⟨rfl, rfl⟩

/-- Non-vacuity of the failure side: the connection resets after 3 bytes; the call raises and the peer holds
    exactly the first 3 bytes of the encoding. -/
example :
    let w : World := { cur := some { faults := [⟨false, 3, .reset⟩] } }
    let m : Msg := ⟨.WRTE, 7, 9, [0xff, 0x01]⟩
    let t : Txn := ⟨some 9, some 7, some 10, some 10, none⟩
    (sendRaw m t w).1 = .error .transportError ∧ (sendRaw m t w).2.peerGot = m.encode.take 3 := by
  exact ⟨rfl, rfl⟩

end Adb
